(** Abstraction of the concurrent ctree model to a flat map and what every
    step does to it (towards linearizability of the point operations,
    quiescent serializability and query stability over the LTS). *)
From Gnmi Require Import Base.Prelude CTree.CTreeModel CTree.CTreeConc CTree.CTreeConcProofs
  CTree.CTreeConcLin.
From Coq Require Import Arith Lia.
Open Scope nat_scope.

Local Arguments do_rel : simpl never.
Local Arguments do_rlock : simpl never.
Local Arguments do_req : simpl never.
Local Arguments do_acq : simpl never.
Local Arguments set_cont : simpl never.
Local Arguments hdelete : simpl never.
Local Arguments new_chain : simpl never.

(** * The abstraction: the leaf value stored at a path (ignoring all locks) *)
Definition absf (h : heap) (p : path) : option Z :=
  match resolve h 0 p with
  | Some n => match get_cont h n with CLeaf v => Some v | _ => None end
  | None => None
  end.

(** * resolve *)

Lemma resolve_app h p1 : forall n p2,
  resolve h n (p1 ++ p2) = match resolve h n p1 with Some m => resolve h m p2 | None => None end.
Proof.
  induction p1 as [|k r IH]; intros n p2; cbn; [reflexivity|].
  destruct (get_cont h n) as [| |cs]; auto. destruct (assoc k cs); auto.
Qed.

Lemma resolve_snoc_inv h p k n c :
  resolve h n (p ++ [k]) = Some c ->
  exists m cs, resolve h n p = Some m /\ get_cont h m = CBranch cs /\ assoc k cs = Some c.
Proof.
  rewrite resolve_app. destruct (resolve h n p) as [m|]; [|discriminate]. cbn.
  destruct (get_cont h m) as [| |cs] eqn:E; try discriminate.
  destruct (assoc k cs) as [c'|] eqn:A; [|discriminate]. intros X; inv X. eauto.
Qed.

(** along a resolved path ids strictly increase *)
Lemma resolve_ge h : heap_ok h -> forall p n m, resolve h n p = Some m -> n <= m.
Proof.
  intros [_ HO]. induction p as [|k r IH]; intros n m R; cbn in R; [inv R; auto|].
  destruct (get_cont h n) as [| |cs] eqn:E; try discriminate.
  destruct (assoc k cs) as [c|] eqn:A; [|discriminate].
  specialize (HO _ _ E). rewrite Forall_forall in HO. destruct (HO _ (assoc_In _ _ _ A)) as [L _].
  specialize (IH _ _ R). cbn in L. lia.
Qed.

Lemma resolve_gt h : heap_ok h -> forall p n m, p <> [] -> resolve h n p = Some m -> n < m.
Proof.
  intros HO p n m NE R. destruct p as [|k r]; [contradiction|]. cbn in R.
  destruct (get_cont h n) as [| |cs] eqn:E; try discriminate.
  destruct (assoc k cs) as [c|] eqn:A; [|discriminate].
  pose proof (resolve_ge h HO _ _ _ R). destruct HO as [_ HO].
  specialize (HO _ _ E). rewrite Forall_forall in HO. destruct (HO _ (assoc_In _ _ _ A)) as [L _].
  cbn in L. lia.
Qed.

(** * Tree shape: names are unique within a branch, every node has one parent *)
Definition keys_nodup (h : heap) : Prop :=
  forall n cs, get_cont h n = CBranch cs -> NoDup (keys cs).

Definition uniq_parent (h : heap) : Prop :=
  forall n1 n2 cs1 cs2 k1 k2 c,
    get_cont h n1 = CBranch cs1 -> In (k1, c) cs1 ->
    get_cont h n2 = CBranch cs2 -> In (k2, c) cs2 -> n1 = n2 /\ k1 = k2.

Definition tree_shape (h : heap) : Prop := keys_nodup h /\ uniq_parent h.

Lemma assoc_In_iff {A} (l : list (string * A)) k c :
  NoDup (keys l) -> (assoc k l = Some c <-> In (k, c) l).
Proof. intros ND. split; [apply assoc_In|apply In_assoc; auto]. Qed.

(** every node is reached by at most one path *)
Lemma resolve_inj h :
  heap_ok h -> tree_shape h ->
  forall p1 p2 n, resolve h 0 p1 = Some n -> resolve h 0 p2 = Some n -> p1 = p2.
Proof.
  intros HO [KN UP]. induction p1 as [|k1 r1 IH] using rev_ind; intros p2 n R1 R2.
  - cbn in R1. inv R1. destruct p2 as [|k r]; [reflexivity|].
    assert (0 < 0) by (eapply resolve_gt; eauto; discriminate). lia.
  - destruct (resolve_snoc_inv _ _ _ _ _ R1) as [m1 [cs1 [Rm1 [E1 A1]]]].
    destruct p2 as [|k2 r2 _] using rev_ind.
    + cbn in R2. inv R2.
      assert (0 < 0) by (eapply resolve_gt; eauto; destruct r1; discriminate). lia.
    + destruct (resolve_snoc_inv _ _ _ _ _ R2) as [m2 [cs2 [Rm2 [E2 A2]]]].
      destruct (UP _ _ _ _ _ _ _ E1 (assoc_In _ _ _ A1) E2 (assoc_In _ _ _ A2)) as [-> ->].
      f_equal. eapply IH; eauto.
Qed.

(** ** tree shape is preserved *)

Lemma get_cont_set h n c m :
  get_cont (set_cont h n c) m =
  if Nat.eqb m n && Nat.ltb n (List.length h) then c else get_cont h m.
Proof.
  destruct (Nat.eqb_spec m n) as [->|D]; cbn [andb].
  - destruct (Nat.ltb_spec n (List.length h)).
    + apply get_cont_set_eq; auto.
    + rewrite !get_cont_oob; auto. rewrite length_set_cont; auto.
  - apply get_cont_set_neq; auto.
Qed.

Lemma ts_same h h' : (forall n, get_cont h' n = get_cont h n) -> tree_shape h -> tree_shape h'.
Proof.
  intros E [KN UP]. split.
  - intros n cs H. rewrite E in H. eauto.
  - intros n1 n2 cs1 cs2 k1 k2 c H1 I1 H2 I2. rewrite E in H1, H2. eauto.
Qed.

(** replacing a node's content by something with fewer (or no) children *)
Lemma ts_set_shrink h n c :
  tree_shape h ->
  (forall cs', c = CBranch cs' ->
     NoDup (keys cs') /\ exists cs, get_cont h n = CBranch cs /\ incl cs' cs) ->
  tree_shape (set_cont h n c).
Proof.
  intros [KN UP] Hc.
  assert (G : forall m cs', get_cont (set_cont h n c) m = CBranch cs' ->
              NoDup (keys cs') /\ exists cs, get_cont h m = CBranch cs /\ incl cs' cs).
  { intros m cs' H. rewrite get_cont_set in H.
    destruct (Nat.eqb_spec m n) as [->|D]; cbn [andb] in H.
    - destruct (Nat.ltb n (List.length h)); [apply Hc; auto|].
      split; [eauto|]. exists cs'. split; [auto|apply incl_refl].
    - split; [eauto|]. exists cs'. split; [auto|apply incl_refl]. }
  split.
  - intros m cs' H. apply (G _ _ H).
  - intros n1 n2 cs1 cs2 k1 k2 c0 H1 I1 H2 I2.
    destruct (G _ _ H1) as [_ [d1 [E1 J1]]]. destruct (G _ _ H2) as [_ [d2 [E2 J2]]].
    eapply UP; eauto.
Qed.

Lemma keys_app {A} (l1 l2 : list (string * A)) : keys (l1 ++ l2) = keys l1 ++ keys l2.
Proof. apply map_app. Qed.

Lemma get_cont_chain base r v i :
  get_cont (new_chain base r v) i =
  match nth_error (new_chain base r v) i with Some x => cont x | None => CNil end.
Proof. reflexivity. Qed.

Lemma ts_alloc h t0 cs0 k r v :
  heap_ok h -> tree_shape h -> t0 < List.length h ->
  (get_cont h t0 = CNil /\ cs0 = [] \/ get_cont h t0 = CBranch cs0) ->
  assoc k cs0 = None ->
  tree_shape (set_cont h t0 (CBranch (cs0 ++ [(k, List.length h)])) ++ new_chain (List.length h) r v).
Proof.
  intros HO [KN UP] Lt E0 A.
  set (h' := set_cont h t0 (CBranch (cs0 ++ [(k, List.length h)])) ++ new_chain (List.length h) r v).
  (* contents of h' *)
  assert (C1 : forall n, n < List.length h -> n <> t0 -> get_cont h' n = get_cont h n).
  { intros n L D. unfold h'. rewrite get_cont_app_l by (rewrite length_set_cont; auto).
    apply get_cont_set_neq; auto. }
  assert (C2 : get_cont h' t0 = CBranch (cs0 ++ [(k, List.length h)])).
  { unfold h'. rewrite get_cont_app_l by (rewrite length_set_cont; auto). apply get_cont_set_eq; auto. }
  assert (C3 : forall n cs, List.length h <= n -> get_cont h' n = CBranch cs ->
                            exists k', cs = [(k', S n)]).
  { intros n cs L H. unfold h', get_cont in H.
    rewrite nth_error_app2 in H by (rewrite length_set_cont; auto). rewrite length_set_cont in H.
    change (get_cont (new_chain (List.length h) r v) (n - List.length h) = CBranch cs) in H.
    destruct (new_chain_branch _ _ _ _ _ H) as [k' [-> _]]. exists k'. do 3 f_equal. lia. }
  assert (OLD : forall n cs, get_cont h n = CBranch cs ->
                             n < List.length h /\ Forall (fun kc : string * nat => n < snd kc /\ snd kc < List.length h) cs).
  { intros n cs H. split; [|apply HO; auto].
    destruct (Nat.lt_ge_cases n (List.length h)); auto. rewrite get_cont_oob in H by auto. discriminate. }
  assert (ND0 : NoDup (keys cs0)).
  { destruct E0 as [[_ ->]|E0]; [constructor|eauto]. }
  assert (F0 : Forall (fun kc : string * nat => t0 < snd kc /\ snd kc < List.length h) cs0).
  { destruct E0 as [[_ ->]|E0]; [constructor|apply HO; auto]. }
  (* classify an edge of h' *)
  assert (EDGE : forall n cs k' c, get_cont h' n = CBranch cs -> In (k', c) cs ->
            (n < List.length h /\ c < List.length h /\
             exists cs1, get_cont h n = CBranch cs1 /\ In (k', c) cs1) \/
            (n = t0 /\ c = List.length h /\ k' = k) \/
            (List.length h <= n /\ c = S n)).
  { intros n cs k' c H I. destruct (Nat.lt_ge_cases n (List.length h)) as [L|L].
    - destruct (Nat.eq_dec n t0) as [->|D].
      + rewrite C2 in H. inv H. apply in_app_or in I. destruct I as [I|[I|[]]].
        * left. rewrite Forall_forall in F0. destruct (F0 _ I) as [_ Lc]. cbn in Lc.
          split; [auto|]. split; [auto|]. destruct E0 as [[_ ->]|E0]; [destruct I|eauto].
        * inv I. right; left. auto.
      + rewrite C1 in H by auto. left. destruct (OLD _ _ H) as [_ F]. rewrite Forall_forall in F.
        destruct (F _ I) as [_ Lc]. cbn in Lc. split; [auto|]. split; [auto|]. eauto.
    - destruct (C3 _ _ L H) as [k'' ->]. destruct I as [I|[]]. inv I. right; right. auto. }
  split.
  - intros n cs H. destruct (Nat.lt_ge_cases n (List.length h)) as [L|L].
    + destruct (Nat.eq_dec n t0) as [->|D].
      * rewrite C2 in H. inv H. rewrite keys_app. cbn. apply NoDup_app_intro_single; auto.
        apply assoc_None. exact A.
      * rewrite C1 in H by auto. eauto.
    + destruct (C3 _ _ L H) as [k' ->]. cbn. constructor; [intros []|constructor].
  - intros n1 n2 cs1 cs2 k1 k2 c H1 I1 H2 I2.
    destruct (EDGE _ _ _ _ H1 I1) as [[L1 [Lc1 [d1 [E1 J1]]]]|[[-> [-> ->]]|[L1 ->]]];
      destruct (EDGE _ _ _ _ H2 I2) as [[L2 [Lc2 [d2 [E2 J2]]]]|[[-> [Ec ->]]|[L2 Ec]]];
      try lia; auto.
    + eapply UP; eauto.
    + split; [lia|]. assert (n1 = n2) by lia. subst n2. rewrite H1 in H2. inv H2.
      destruct (C3 _ _ L1 H1) as [k' ->]. destruct I1 as [I1|[]]. destruct I2 as [I2|[]]. congruence.
Qed.

Lemma tstep_tree_shape b h t h' t' :
  heap_ok h -> thread_ok (List.length h) t -> patched_pc (tpc t) = true ->
  tree_shape h -> tstep_gen b h t = Some (h', t') -> tree_shape h'.
Proof.
  intros HO [_ [IL P]] PA TS ST. pose proof (tstep_shape _ _ _ _ _ ST) as SH.
  destruct (lockop_of t) eqn:LO.
  - destruct SH as [-> _]. destruct t as [o p hs]. cbn [tpc held top] in *.
    destruct p; cbn -[set_cont new_chain hdelete] in *; try discriminate; auto.
    + (* terminalAdd *)
      destruct (get_cont h t); cbn -[set_cont]; auto; apply ts_set_shrink; auto; discriminate.
    + destruct (get_cont h t) as [| |cs]; cbn; auto. destruct (assoc k cs); auto.
    + (* slowAdd *)
      assert (Lt : t < List.length h) by (destruct P as [[r0 ->] _]; inv IL; auto).
      destruct (get_cont h t) as [| |cs] eqn:E; cbn -[set_cont new_chain]; auto.
      * apply (ts_alloc h t [] k r v); auto.
      * destruct (assoc k cs) eqn:A; cbn -[set_cont new_chain]; auto.
        apply (ts_alloc h t cs k r v); auto.
    + destruct p as [|k r]; cbn; auto. destruct (get_cont h t) as [| |cs]; cbn; auto.
      destruct (assoc k cs); auto.
    + destruct k; auto.
    + apply ts_set_shrink; auto; discriminate.
    + destruct (query_visits (get_cont h t) q); auto.
    + destruct fr as [|[|[[c pre0] q0] todo] fr]; auto.
    + destruct (heads_all q).
      * destruct (get_cont h n); auto. destruct (strip_glob q); auto.
      * destruct q as [|k r]; auto. destruct (get_cont h n) as [| |cs]; auto. destruct (assoc k cs); auto.
    + destruct fr as [|f fr]; auto. destruct (dtodo f) as [|[k c] rest]; auto.
    + destruct fr as [|f fr]; auto. destruct del; cbn -[set_cont]; auto.
      apply ts_set_shrink; auto; discriminate.
    + destruct fr as [|f fr]; auto. destruct del; cbn -[set_cont]; auto.
      destruct (get_cont h (dn f)) as [| |cs] eqn:E; cbn -[set_cont]; auto.
      apply ts_set_shrink; auto. intros cs' X. inv X. split.
      * apply NoDup_keys_adel. destruct TS as [KN _]. eauto.
      * exists cs. split; [auto|apply incl_adel].
  - destruct SH as [_ [-> _]]. eapply ts_same; [|exact TS]. intros; apply get_cont_upd_mu; auto.
  - destruct SH as [-> _]. eapply ts_same; [|exact TS]. intros; apply get_cont_upd_mu; auto.
  - destruct SH as [_ [-> _]]. eapply ts_same; [|exact TS]. intros; apply get_cont_upd_mu; auto.
  - destruct SH as [n [m [hs [_ [-> _]]]]]. eapply ts_same; [|exact TS].
    intros; destruct m; apply get_cont_upd_mu; auto.
Qed.

(** invariant of every reachable state of a program of the current code *)
Definition TInv (s : state) : Prop :=
  WInv s /\ Forall (fun t => patched_pc (tpc t) = true) (thr s) /\ tree_shape (hp s).

Lemma reach_TInv ops s : forallb patched_op ops = true -> reach ops s -> TInv s.
Proof.
  intros Q R. split; [apply (reach_WInv _ _ R)|]. split; [apply (reach_patched _ _ Q R)|].
  induction R as [|s i s' R IH ST].
  - split.
    + intros n cs H. destruct n as [|[|n]]; cbn in H; discriminate.
    + intros n1 n2 cs1 cs2 k1 k2 c H1. destruct n1 as [|[|n1]]; cbn in H1; discriminate.
  - pose proof (reach_Inv _ _ R) as [HO [TO _]]. pose proof (reach_patched _ _ Q R) as PP.
    unfold step, step_gen in ST.
    destruct (nth_error (thr s) i) as [t|] eqn:Et; [|discriminate].
    destruct (tstep_gen false (hp s) t) as [[h' t']|] eqn:Ets; [|discriminate]. inv ST. cbn [hp].
    eapply tstep_tree_shape; eauto.
    + eapply Forall_nth_error; eauto.
    + apply (Forall_nth_error _ _ _ _ PP Et).
Qed.

(** * What the heap updates of the model do to the abstraction *)

Definition upd (m : path -> option Z) (p : path) (v : Z) : path -> option Z :=
  fun q => if path_eqb q p then Some v else m q.

Lemma resolve_ext h h' : (forall n, get_cont h' n = get_cont h n) ->
  forall p n, resolve h' n p = resolve h n p.
Proof.
  intros E. induction p as [|k r IH]; intros n; cbn; [reflexivity|]. rewrite E.
  destruct (get_cont h n) as [| |cs]; auto. destruct (assoc k cs); auto.
Qed.

Lemma absf_same h h' : (forall n, get_cont h' n = get_cont h n) -> forall p, absf h' p = absf h p.
Proof. intros E p. unfold absf. rewrite (resolve_ext h h' E). destruct (resolve h 0 p); auto. rewrite E. auto. Qed.

Definition is_branch_c (c : content) : bool := match c with CBranch _ => true | _ => false end.

(** overwriting a node that has no children by something without children
    changes no path *)
Lemma resolve_set_nonbranch h t0 c :
  is_branch_c (get_cont h t0) = false -> is_branch_c c = false ->
  forall p n, resolve (set_cont h t0 c) n p = resolve h n p.
Proof.
  intros B1 B2. induction p as [|k r IH]; intros n; cbn; [reflexivity|].
  rewrite get_cont_set. destruct (Nat.eqb_spec n t0) as [->|D]; cbn [andb].
  - destruct (Nat.ltb t0 (List.length h)).
    + destruct c; try discriminate; destruct (get_cont h t0); try discriminate; auto.
    + destruct (get_cont h t0) as [| |cs]; auto. destruct (assoc k cs); auto.
  - destruct (get_cont h n) as [| |cs]; auto. destruct (assoc k cs); auto.
Qed.

(** terminalAdd / Leaf.Update on a leaf: exactly the paths leading to that node change *)
Lemma absf_set_leaf h t0 v :
  t0 < List.length h -> is_branch_c (get_cont h t0) = false ->
  forall q, absf (set_cont h t0 (CLeaf v)) q =
            match resolve h 0 q with
            | Some n => if Nat.eqb n t0 then Some v else absf h q
            | None => absf h q
            end.
Proof.
  intros L B q. unfold absf. rewrite resolve_set_nonbranch by auto.
  destruct (resolve h 0 q) as [n|]; auto. rewrite get_cont_set.
  destruct (Nat.eqb_spec n t0) as [->|D]; cbn [andb]; auto.
  destruct (Nat.ltb_spec t0 (List.length h)); [auto|lia].
Qed.

Lemma path_eqb_sym p q : path_eqb p q = path_eqb q p.
Proof.
  destruct (path_eqb_spec p q) as [->|D]; [rewrite path_eqb_refl; auto|].
  destruct (path_eqb_spec q p); [congruence|auto].
Qed.

(** ... which, in a tree, is exactly one path *)
Lemma absf_set_leaf_at h t0 v p :
  heap_ok h -> tree_shape h -> t0 < List.length h -> is_branch_c (get_cont h t0) = false ->
  resolve h 0 p = Some t0 ->
  forall q, absf (set_cont h t0 (CLeaf v)) q = upd (absf h) p v q.
Proof.
  intros HO TS L B R q. rewrite absf_set_leaf by auto. unfold upd.
  destruct (resolve h 0 q) as [n|] eqn:Rq.
  - destruct (Nat.eqb_spec n t0) as [->|D].
    + rewrite (resolve_inj h HO TS _ _ _ Rq R). rewrite path_eqb_refl. reflexivity.
    + destruct (path_eqb_spec q p) as [->|]; auto. congruence.
  - destruct (path_eqb_spec q p) as [->|]; auto. congruence.
Qed.

(** ** insertion of a fresh chain (slowAdd) *)

Lemma chain_resolve r : forall (pfx : heap) v r',
  resolve (pfx ++ new_chain (List.length pfx) r v) (List.length pfx) r' =
  if is_prefix r' r then Some (List.length pfx + List.length r') else None.
Proof.
  induction r as [|a r0 IH]; intros pfx v r'.
  - destruct r' as [|k' r'']; cbn; [f_equal; lia|].
    unfold get_cont. rewrite nth_error_app2 by auto. rewrite Nat.sub_diag. reflexivity.
  - destruct r' as [|k' r'']; [cbn; f_equal; lia|].
    change (new_chain (List.length pfx) (a :: r0) v)
      with (HN (CBranch [(a, S (List.length pfx))]) 0 false 0 :: new_chain (S (List.length pfx)) r0 v).
    cbn [resolve]. unfold get_cont at 1. rewrite nth_error_app2 by auto. rewrite Nat.sub_diag.
    cbn [nth_error cont assoc fst snd is_prefix].
    destruct (String.eqb k' a) eqn:Ek; cbn [andb]; [|reflexivity].
    specialize (IH (pfx ++ [HN (CBranch [(a, S (List.length pfx))]) 0 false 0]) v r'').
    rewrite app_length in IH. cbn [List.length] in IH. rewrite Nat.add_1_r in IH.
    rewrite <- app_assoc in IH. cbn [app] in IH. rewrite IH.
    destruct (is_prefix r'' r0); [f_equal; cbn; lia|reflexivity].
Qed.

Lemma chain_content r : forall (pfx : heap) v i,
  i <= List.length r ->
  is_branch_c (get_cont (pfx ++ new_chain (List.length pfx) r v) (List.length pfx + i)) =
  negb (Nat.eqb i (List.length r)) /\
  (i = List.length r ->
   get_cont (pfx ++ new_chain (List.length pfx) r v) (List.length pfx + i) = CLeaf v).
Proof.
  induction r as [|a r0 IH]; intros pfx v i Li.
  - cbn in Li. assert (i = 0) by lia. subst i. rewrite Nat.add_0_r.
    unfold get_cont. rewrite nth_error_app2 by auto. rewrite Nat.sub_diag. cbn. auto.
  - change (new_chain (List.length pfx) (a :: r0) v)
      with (HN (CBranch [(a, S (List.length pfx))]) 0 false 0 :: new_chain (S (List.length pfx)) r0 v).
    destruct i as [|i].
    + rewrite Nat.add_0_r. unfold get_cont. rewrite nth_error_app2 by auto. rewrite Nat.sub_diag.
      cbn. split; [reflexivity|discriminate].
    + specialize (IH (pfx ++ [HN (CBranch [(a, S (List.length pfx))]) 0 false 0]) v i).
      rewrite app_length in IH. cbn [List.length] in IH. rewrite Nat.add_1_r in IH.
      rewrite <- app_assoc in IH. cbn [app] in IH.
      replace (List.length pfx + S i) with (S (List.length pfx) + i) by lia.
      cbn [List.length] in *. destruct IH as [I1 I2]; [lia|]. split.
      * rewrite I1. reflexivity.
      * intros X. apply I2. lia.
Qed.

Lemma chain_resolve' r (pfx : heap) L0 v r' :
  List.length pfx = L0 ->
  resolve (pfx ++ new_chain L0 r v) L0 r' =
  if is_prefix r' r then Some (L0 + List.length r') else None.
Proof. intros <-. apply chain_resolve. Qed.

Lemma chain_content' r (pfx : heap) L0 v i :
  List.length pfx = L0 -> i <= List.length r ->
  is_branch_c (get_cont (pfx ++ new_chain L0 r v) (L0 + i)) = negb (Nat.eqb i (List.length r)) /\
  (i = List.length r -> get_cont (pfx ++ new_chain L0 r v) (L0 + i) = CLeaf v).
Proof. intros <-. apply chain_content. Qed.

Lemma resolve_lt h : heap_ok h -> forall q n m,
  n < List.length h -> resolve h n q = Some m -> m < List.length h.
Proof.
  intros [_ HO]. induction q as [|a q IH]; intros n m L R; cbn in R; [inv R; auto|].
  destruct (get_cont h n) as [| |cs] eqn:E; try discriminate.
  destruct (assoc a cs) as [c|] eqn:A; [|discriminate].
  specialize (HO _ _ E). rewrite Forall_forall in HO. destruct (HO _ (assoc_In _ _ _ A)) as [_ Lc].
  eapply IH; eauto.
Qed.

Lemma assoc_app_neq {A} a k (l : list (string * A)) c :
  a <> k -> assoc a (l ++ [(k, c)]) = assoc a l.
Proof.
  intros D. induction l as [|kc l IH]; cbn.
  - destruct (String.eqb_spec a k); [contradiction|reflexivity].
  - destruct (String.eqb a (fst kc)); auto.
Qed.

Lemma app_cons_length_neq {A} (l : list A) x s : l <> l ++ x :: s.
Proof.
  intros E. assert (List.length l = List.length (l ++ x :: s)) by (rewrite <- E; auto).
  rewrite app_length in H. cbn in H. lia.
Qed.

Section Alloc.
Variables (h : heap) (t0 : nat) (cs0 : list (string * nat)) (k : string) (r : path) (v : Z) (pre : path).
Hypothesis HO : heap_ok h.
Hypothesis TS : tree_shape h.
Hypothesis Lt : t0 < List.length h.
Hypothesis E0 : get_cont h t0 = CNil /\ cs0 = [] \/ get_cont h t0 = CBranch cs0.
Hypothesis A0 : assoc k cs0 = None.
Hypothesis Rpre : resolve h 0 pre = Some t0.

Let L := List.length h.
Let h' := set_cont h t0 (CBranch (cs0 ++ [(k, L)])) ++ new_chain L r v.

Lemma alloc_old_cont n : n < L -> n <> t0 -> get_cont h' n = get_cont h n.
Proof.
  intros Ln D. unfold h'. rewrite get_cont_app_l by (rewrite length_set_cont; auto).
  apply get_cont_set_neq; auto.
Qed.

Lemma alloc_t0_cont : get_cont h' t0 = CBranch (cs0 ++ [(k, L)]).
Proof. unfold h'. rewrite get_cont_app_l by (rewrite length_set_cont; auto). apply get_cont_set_eq; auto. Qed.

Lemma alloc_F0 : Forall (fun kc : string * nat => t0 < snd kc /\ snd kc < L) cs0.
Proof. destruct E0 as [[_ ->]|E]; [constructor|apply HO; auto]. Qed.

(** a walk that never takes the new edge is unchanged *)
Lemma alloc_old_resolve : forall q n,
  n < L -> (forall q1 r1, q = q1 ++ k :: r1 -> resolve h n q1 <> Some t0) ->
  resolve h' n q = resolve h n q.
Proof.
  induction q as [|a q IH]; intros n Ln NH; cbn; [reflexivity|].
  destruct (Nat.eq_dec n t0) as [->|D].
  - assert (a <> k).
    { intros ->. apply (NH [] q); reflexivity. }
    rewrite alloc_t0_cont. rewrite assoc_app_neq by auto.
    destruct E0 as [[E ->]|E]; rewrite E; cbn; [reflexivity|].
    destruct (assoc a cs0) as [c|] eqn:Aa; [|reflexivity].
    pose proof alloc_F0 as F. rewrite E in *. rewrite Forall_forall in F.
    destruct (F _ (assoc_In _ _ _ Aa)) as [_ Lc]. cbn in Lc.
    apply IH; auto. intros q1 r1 -> X. apply (NH (a :: q1) r1); [reflexivity|].
    cbn. rewrite E, Aa. exact X.
  - rewrite alloc_old_cont by auto.
    destruct (get_cont h n) as [| |cs] eqn:E; auto.
    destruct (assoc a cs) as [c|] eqn:Aa; [|reflexivity].
    destruct HO as [_ HO']. specialize (HO' _ _ E). rewrite Forall_forall in HO'.
    destruct (HO' _ (assoc_In _ _ _ Aa)) as [_ Lc]. cbn in Lc.
    apply IH; auto. intros q1 r1 -> X. apply (NH (a :: q1) r1); [reflexivity|].
    cbn. rewrite E, Aa. exact X.
Qed.

Lemma alloc_chain_eq : h' = set_cont h t0 (CBranch (cs0 ++ [(k, L)])) ++
                            new_chain (List.length (set_cont h t0 (CBranch (cs0 ++ [(k, L)])))) r v.
Proof. unfold h'. rewrite length_set_cont. reflexivity. Qed.

Theorem absf_alloc : forall q, absf h' q = upd (absf h) (pre ++ k :: r) v q.
Proof.
  intros q. unfold upd.
  assert (INJ := resolve_inj h HO TS).
  assert (PRE' : resolve h' 0 pre = Some t0).
  { rewrite alloc_old_resolve; auto; [destruct HO; auto|].
    intros q1 r1 Eq X. rewrite (INJ _ _ _ X Rpre) in Eq. eapply app_cons_length_neq; eauto. }
  destruct (is_prefix (pre ++ [k]) q) eqn:IP.
  - apply is_prefix_spec in IP. destruct IP as [r1 ->]. rewrite <- app_assoc. cbn [app].
    (* through the new edge into the chain *)
    assert (Rh : resolve h 0 (pre ++ k :: r1) = None).
    { rewrite resolve_app, Rpre. cbn. destruct E0 as [[E _]|E]; rewrite E; [reflexivity|].
      rewrite A0. reflexivity. }
    assert (Rh' : resolve h' 0 (pre ++ k :: r1) =
                  if is_prefix r1 r then Some (L + List.length r1) else None).
    { rewrite resolve_app, PRE'. cbn [resolve]. rewrite alloc_t0_cont.
      rewrite (assoc_app_none _ _ _ A0). unfold h'.
      apply chain_resolve'. apply length_set_cont. }
    unfold absf. rewrite Rh, Rh'.
    destruct (path_eqb_spec (pre ++ k :: r1) (pre ++ k :: r)) as [Eq|Ne].
    + apply app_inv_head in Eq. inv Eq.
      assert (IPr : is_prefix r r = true) by (apply is_prefix_spec; exists []; rewrite app_nil_r; auto).
      rewrite IPr. unfold h'.
      destruct (chain_content' r (set_cont h t0 (CBranch (cs0 ++ [(k, L)]))) L v (List.length r)
                  (length_set_cont _ _ _) (le_n _)) as [_ C].
      rewrite C by reflexivity. reflexivity.
    + destruct (is_prefix r1 r) eqn:IPr; [|reflexivity].
      apply is_prefix_spec in IPr. destruct IPr as [s Es].
      assert (Ls : List.length r1 < List.length r).
      { destruct s as [|x s]; [rewrite app_nil_r in Es; subst; contradiction|].
        rewrite Es, app_length. cbn. lia. }
      unfold h'.
      destruct (chain_content' r (set_cont h t0 (CBranch (cs0 ++ [(k, L)]))) L v (List.length r1)
                  (length_set_cont _ _ _)) as [B _]; [lia|].
      destruct (Nat.eqb_spec (List.length r1) (List.length r)); [lia|]. cbn in B.
      match goal with
      | |- match ?c with _ => _ end = None => destruct c; try discriminate; reflexivity
      end.
  - (* never takes the new edge *)
    assert (NH : forall q1 r1, q = q1 ++ k :: r1 -> resolve h 0 q1 <> Some t0).
    { intros q1 r1 -> X. rewrite (INJ _ _ _ X Rpre) in IP.
      assert (is_prefix (pre ++ [k]) (pre ++ k :: r1) = true).
      { apply is_prefix_spec. exists r1. rewrite <- app_assoc. reflexivity. }
      congruence. }
    assert (Rq : resolve h' 0 q = resolve h 0 q) by (apply alloc_old_resolve; auto; destruct HO; auto).
    destruct (path_eqb_spec q (pre ++ k :: r)) as [->|Ne].
    { exfalso. apply (NH pre r eq_refl Rpre). }
    unfold absf. rewrite Rq. destruct (resolve h 0 q) as [m|] eqn:Rm; [|reflexivity].
    assert (Lm : m < L).
    { eapply (resolve_lt h HO q 0 m); [destruct HO; auto|exact Rm]. }
    destruct (Nat.eq_dec m t0) as [->|D].
    + rewrite alloc_t0_cont. destruct E0 as [[E _]|E]; rewrite E; reflexivity.
    + rewrite alloc_old_cont by auto. reflexivity.
Qed.
End Alloc.

(** ** removal of one child (Delete's [delete(b, k)]) and clearing the root *)

Section Adel.
Variables (h : heap) (n : nat) (cs : list (string * nat)) (k : string) (pn : path).
Hypothesis HO : heap_ok h.
Hypothesis TS : tree_shape h.
Hypothesis En : get_cont h n = CBranch cs.
Hypothesis Rn : resolve h 0 pn = Some n.

Let h' := set_cont h n (CBranch (adel k cs)).

Lemma adel_Ln : n < List.length h.
Proof.
  destruct (Nat.lt_ge_cases n (List.length h)); auto. rewrite get_cont_oob in En by auto. discriminate.
Qed.

Lemma adel_other m : m <> n -> get_cont h' m = get_cont h m.
Proof. intros D. unfold h'. apply get_cont_set_neq; auto. Qed.

Lemma adel_at : get_cont h' n = CBranch (adel k cs).
Proof. unfold h'. apply get_cont_set_eq. apply adel_Ln. Qed.

Lemma adel_old_resolve : forall q s,
  (forall q1 r1, q = q1 ++ k :: r1 -> resolve h s q1 <> Some n) ->
  resolve h' s q = resolve h s q.
Proof.
  induction q as [|a q IH]; intros s NH; cbn; [reflexivity|].
  destruct (Nat.eq_dec s n) as [->|D].
  - assert (a <> k) by (intros ->; apply (NH [] q); reflexivity).
    rewrite adel_at, En. rewrite assoc_adel by (destruct TS as [KN _]; eauto).
    destruct (String.eqb_spec a k); [contradiction|].
    destruct (assoc a cs) as [c|] eqn:Aa; [|reflexivity].
    apply IH. intros q1 r1 -> X. apply (NH (a :: q1) r1); [reflexivity|].
    cbn. rewrite En, Aa. exact X.
  - rewrite adel_other by auto.
    destruct (get_cont h s) as [| |ds] eqn:E; auto.
    destruct (assoc a ds) as [c|] eqn:Aa; [|reflexivity].
    apply IH. intros q1 r1 -> X. apply (NH (a :: q1) r1); [reflexivity|].
    cbn. rewrite E, Aa. exact X.
Qed.

Theorem absf_adel : forall q,
  absf h' q = if is_prefix (pn ++ [k]) q then None else absf h q.
Proof.
  intros q. assert (INJ := resolve_inj h HO TS).
  assert (PN' : resolve h' 0 pn = Some n).
  { rewrite adel_old_resolve; auto.
    intros q1 r1 Eq X. rewrite (INJ _ _ _ X Rn) in Eq. eapply app_cons_length_neq; eauto. }
  destruct (is_prefix (pn ++ [k]) q) eqn:IP.
  - apply is_prefix_spec in IP. destruct IP as [r1 ->]. rewrite <- app_assoc. cbn [app].
    unfold absf. rewrite resolve_app, PN'. cbn [resolve]. rewrite adel_at.
    rewrite assoc_adel by (destruct TS as [KN _]; eauto). rewrite String.eqb_refl. reflexivity.
  - assert (NH : forall q1 r1, q = q1 ++ k :: r1 -> resolve h 0 q1 <> Some n).
    { intros q1 r1 -> X. rewrite (INJ _ _ _ X Rn) in IP.
      assert (is_prefix (pn ++ [k]) (pn ++ k :: r1) = true).
      { apply is_prefix_spec. exists r1. rewrite <- app_assoc. reflexivity. }
      congruence. }
    unfold absf. rewrite adel_old_resolve by auto.
    destruct (resolve h 0 q) as [m|]; [|reflexivity].
    destruct (Nat.eq_dec m n) as [->|D].
    + rewrite adel_at, En. reflexivity.
    + rewrite adel_other by auto. reflexivity.
Qed.
End Adel.

Lemma absf_clear_root h q : 0 < List.length h -> absf (set_cont h 0 CNil) q = None.
Proof.
  intros L. unfold absf. destruct q as [|a q]; cbn.
  - rewrite get_cont_set_eq by auto. reflexivity.
  - rewrite get_cont_set_eq by auto. reflexivity.
Qed.

(** * What every step does to the abstraction *)

(** the value an Add carries in its program counter is the value of its call *)
Definition pc_val (p : pc) : option Z :=
  match p with
  | PAddEnter _ _ v | PAddTAcq _ v | PAddTCrit _ v | PAddIRead _ _ _ v | PAddIRel _ _ _ v
  | PAddUpg _ _ _ v | PAddUAcq _ _ _ v | PAddSlow _ _ _ v => Some v
  | _ => None
  end.

Definition val_ok (t : thread) : Prop :=
  match tpc t with
  | PStart o => o = top t
  | p => match pc_val p, top t with
         | Some v', CAdd _ v => v' = v
         | Some _, _ => False
         | None, _ => True
         end
  end.

Lemma tstep_val_ok b h t h' t' : val_ok t -> tstep_gen b h t = Some (h', t') -> val_ok t'.
Proof.
  intros V ST. pose proof (tstep_shape _ _ _ _ _ ST) as SH.
  destruct t as [o p hs]. unfold val_ok in *. cbn [tpc top held] in *.
  destruct (lockop_of (TH o p hs)) eqn:LO.
  - destruct SH as [_ ->]. cbn [tpc top].
    destruct p; cbn -[Nat.ltb hdelete set_cont new_chain] in *; try discriminate; auto;
    repeat (first
              [ match goal with |- context [start_pc ?a ?b] => destruct b end
              | match goal with |- context [match get_cont ?a ?b with _ => _ end] => destruct (get_cont a b) end
              | match goal with |- context [match assoc ?a ?b with _ => _ end] => destruct (assoc a b) end
              | match goal with |- context [if Nat.ltb ?a ?b then _ else _] => destruct (Nat.ltb a b) end
              | match goal with |- context [if Nat.eqb ?a ?b then _ else _] => destruct (Nat.eqb a b) end
              | match goal with |- context [match query_visits ?a ?b with _ => _ end] => destruct (query_visits a b) end
              | match goal with |- context [if heads_all ?a then _ else _] => destruct (heads_all a) end
              | match goal with |- context [match strip_glob ?a with _ => _ end] => destruct (strip_glob a) end
              | match goal with |- context [match dtodo ?a with _ => _ end] => destruct (dtodo a) as [|[? ?] ?] end
              | match goal with |- context [match ?x with _ => _ end] => is_var x; destruct x end ];
            cbn -[Nat.ltb hdelete set_cont new_chain] in *; subst; try discriminate; try contradiction; auto).
  - destruct SH as [_ [_ ->]]. cbn [tpc top]. destruct p; cbn in *; try discriminate; auto; qfin.
  - destruct SH as [_ ->]. cbn [tpc top]. destruct p; cbn in *; try discriminate; auto; qfin.
  - destruct SH as [_ [_ ->]]. cbn [tpc top]. destruct p; cbn in *; try discriminate; auto; qfin.
  - destruct SH as [n [m [hs' [_ [_ ->]]]]]. cbn [tpc top]. destruct p; cbn in *; try discriminate; auto; qfin.
Qed.

Lemma reach_val_ok ops s : reach ops s -> Forall val_ok (thr s).
Proof.
  induction 1 as [|s i s' R IH ST].
  - cbn. apply Forall_forall. intros t Ht. apply in_map_iff in Ht. destruct Ht as [o [<- _]].
    unfold val_ok. cbn. reflexivity.
  - unfold step, step_gen in ST.
    destruct (nth_error (thr s) i) as [t|] eqn:Et; [|discriminate].
    destruct (tstep_gen false (hp s) t) as [[h' t']|] eqn:Ets; [|discriminate]. inv ST. cbn [thr].
    apply Forall_forall. intros t0 H0. apply In_set_nth in H0. destruct H0 as [->|H0].
    + eapply tstep_val_ok; [|exact Ets]. apply (Forall_nth_error _ _ _ _ IH Et).
    + rewrite Forall_forall in IH. auto.
Qed.

Lemma absf_shrink_node h n cs cs' :
  get_cont h n = CBranch cs -> (forall a c, assoc a cs' = Some c -> assoc a cs = Some c) ->
  forall q, absf (set_cont h n (CBranch cs')) q = absf h q \/ absf (set_cont h n (CBranch cs')) q = None.
Proof.
  intros En SUB.
  assert (Ln : n < List.length h).
  { destruct (Nat.lt_ge_cases n (List.length h)); auto. rewrite get_cont_oob in En by auto. discriminate. }
  assert (R : forall q s, resolve (set_cont h n (CBranch cs')) s q = resolve h s q \/
                          resolve (set_cont h n (CBranch cs')) s q = None).
  { induction q as [|a q IH]; intros s; cbn; [auto|].
    destruct (Nat.eq_dec s n) as [->|D].
    - rewrite get_cont_set_eq by auto. rewrite En.
      destruct (assoc a cs') as [c|] eqn:A; [|auto]. rewrite (SUB _ _ A). apply IH.
    - rewrite get_cont_set_neq by auto. destruct (get_cont h s) as [| |ds]; auto.
      destruct (assoc a ds); auto. }
  intros q. unfold absf. destruct (R q 0) as [E|E]; rewrite E; [|auto].
  destruct (resolve h 0 q) as [m|]; [|auto]. destruct (Nat.eq_dec m n) as [->|D].
  - rewrite get_cont_set_eq by auto. rewrite En. auto.
  - rewrite get_cont_set_neq by auto. auto.
Qed.

(** [is_write h t = Some (p, v)]: the next step of thread [t] is the write step
    of Add(p, v) (see [ae_add]) *)
Definition is_write (h : heap) (t : thread) : option (path * Z) :=
  match top t, tpc t with
  | CAdd p v, PAddTCrit t0 _ =>
      if is_branch_c (get_cont h t0) then None else Some (p, v)
  | CAdd p v, PAddSlow t0 k _ _ =>
      match get_cont h t0 with
      | CNil => Some (p, v)
      | CBranch cs => match assoc k cs with None => Some (p, v) | Some _ => None end
      | CLeaf _ => None
      end
  | _, _ => None
  end.

(** the effect of one step of thread [t] on the abstraction *)
Inductive abs_effect (h h' : heap) (t : thread) : Prop :=
| ae_none : is_write h t = None -> (forall q, absf h' q = absf h q) -> abs_effect h h' t
| ae_add p v :
    (* the write step of Add(p, v): terminalAdd's store, or slowAdd's insertion
       of the new chain (which already carries the value) *)
    is_write h t = Some (p, v) -> top t = CAdd p v ->
    (forall q, absf h' q = upd (absf h) p v q) -> abs_effect h h' t
| ae_hupd n v :
    (* Leaf.Update through a handle: the path leading to that node, if any *)
    tpc t = PHUpdWrite n v ->
    (is_branch_c (get_cont h n) = false ->
     forall q, absf h' q = match resolve h 0 q with
                           | Some m => if Nat.eqb m n then Some v else absf h q
                           | None => absf h q
                           end) -> abs_effect h h' t
| ae_remove :
    (* a step of Delete: leaves disappear, nothing else changes *)
    in_delete (tpc t) = true -> (forall q, absf h' q = absf h q \/ absf h' q = None) ->
    abs_effect h h' t.

Lemma walk_pos_resolve s i t p t0 p' :
  TInv s -> nth_error (thr s) i = Some t -> walk_pos t = Some (p, t0, p') ->
  exists pre, p = pre ++ p' /\ resolve (hp s) 0 pre = Some t0.
Proof.
  intros [[_ [_ WO]] _] E W.
  pose proof (Forall_nth_error _ _ _ _ WO E) as Wt. unfold walk_ok in Wt.
  destruct (tpc t) eqn:P;
    try (rewrite W in Wt; destruct Wt as [pre9 [ns9 [Ep [Rp _]]]]; exists pre9; auto).
  unfold walk_pos in W. rewrite P in W. destruct (top t); discriminate.
Qed.

Ltac iw :=
  unfold is_write;
  match goal with Pc : tpc _ = _ |- _ => rewrite Pc end;
  match goal with
  | Tp : top _ = _ |- _ => rewrite Tp
  | |- _ => destruct (top _)
  end; try reflexivity; cbn -[set_cont];
  repeat match goal with
         | H : get_cont _ _ = _ |- _ => rewrite H
         | H : assoc _ _ = _ |- _ => rewrite H
         end; reflexivity.

Theorem step_abs_effect s i s' t :
  TInv s -> Forall val_ok (thr s) -> step s i = Some s' -> nth_error (thr s) i = Some t ->
  abs_effect (hp s) (hp s') t.
Proof.
  intros TI VO ST Et. assert (TI' := TI). destruct TI' as [[I [EX WO]] [PP TS]].
  destruct I as [HO [TO AC]].
  unfold step, step_gen in ST. rewrite Et in ST.
  destruct (tstep_gen false (hp s) t) as [[h' t']|] eqn:Ets; [|discriminate]. inv ST. cbn [hp].
  pose proof (Forall_nth_error _ _ _ _ TO Et) as [SO [IL P]].
  pose proof (Forall_nth_error _ _ _ _ PP Et) as PA. cbn in PA.
  pose proof (Forall_nth_error _ _ _ _ VO Et) as V.
  pose proof (tstep_shape _ _ _ _ _ Ets) as SH.
  set (h := hp s) in *.
  assert (SAME : forall h2, is_write h t = None ->
                            (forall n, get_cont h2 n = get_cont h n) -> abs_effect h h2 t).
  { intros h2 W E. apply ae_none; [exact W|]. apply absf_same. exact E. }
  assert (LKW : lockop_of t <> LNone -> is_write h t = None).
  { intros NL. unfold is_write. destruct (top t); try reflexivity.
    destruct (tpc t) eqn:Pc; try reflexivity; exfalso; apply NL; unfold lockop_of; rewrite Pc; reflexivity. }
  destruct (lockop_of t) eqn:LO.
  - destruct SH as [-> _].
    destruct (tpc t) eqn:Pc; cbn -[set_cont new_chain hdelete] in *; try discriminate;
      try (apply SAME; [iw|reflexivity]).
    + (* terminalAdd *)
      destruct (top t) as [pa va| | | | | |] eqn:Tp; unfold val_ok in V; rewrite Pc, Tp in V; cbn in V;
        try contradiction. subst v.
      destruct (walk_pos_resolve s i t pa t0 [] TI Et) as [pre [Ep Rp]].
      { unfold walk_pos. rewrite Tp, Pc. reflexivity. }
      rewrite app_nil_r in Ep. subst pre.
      assert (Lt : t0 < List.length h) by (destruct P as [[r0 Hr] _]; rewrite Hr in IL; inv IL; auto).
      destruct (get_cont h t0) eqn:E; cbn -[set_cont].
      * eapply ae_add; [iw|exact Tp|]. apply absf_set_leaf_at; auto. rewrite E. reflexivity.
      * eapply ae_add; [iw|exact Tp|]. apply absf_set_leaf_at; auto. rewrite E. reflexivity.
      * apply SAME; [iw|reflexivity].
    + destruct (get_cont h t0) as [| |cs]; cbn; try (apply SAME; [iw|reflexivity]).
      destruct (assoc k cs); (apply SAME; [iw|reflexivity]).
    + (* slowAdd *)
      destruct (top t) as [pa va| | | | | |] eqn:Tp; unfold val_ok in V; rewrite Pc, Tp in V; cbn in V;
        try contradiction. subst v.
      destruct (walk_pos_resolve s i t pa t0 (k :: r) TI Et) as [pre [Ep Rp]].
      { unfold walk_pos. rewrite Tp, Pc. reflexivity. }
      assert (Lt : t0 < List.length h) by (destruct P as [[r0 Hr] _]; rewrite Hr in IL; inv IL; auto).
      destruct (get_cont h t0) as [| |cs] eqn:E; cbn -[set_cont new_chain].
      * eapply ae_add; [iw|exact Tp|]. subst pa.
        apply (absf_alloc h t0 [] k r va pre); auto.
      * apply SAME; [iw|reflexivity].
      * destruct (assoc k cs) eqn:A; cbn -[set_cont new_chain]; [apply SAME; [iw|reflexivity]|].
        eapply ae_add; [iw|exact Tp|]. subst pa.
        apply (absf_alloc h t0 cs k r va pre); auto.
    + destruct p as [|k r]; cbn; try (apply SAME; [iw|reflexivity]).
      destruct (get_cont h t0) as [| |cs]; cbn; try (apply SAME; [iw|reflexivity]).
      destruct (assoc k cs); (apply SAME; [iw|reflexivity]).
    + destruct k; (apply SAME; [iw|reflexivity]).
    + (* Leaf.Update *)
      apply (ae_hupd h _ t n v Pc). intros B q.
      assert (Ln : n < List.length h) by (rewrite P in IL; inv IL; auto).
      apply absf_set_leaf; auto.
    + destruct (query_visits (get_cont h t0) q); (apply SAME; [iw|reflexivity]).
    + destruct fr as [|[|[[c pre0] q0] todo] fr]; (apply SAME; [iw|reflexivity]).
    + destruct (heads_all q).
      * destruct (get_cont h n); try (apply SAME; [iw|reflexivity]). destruct (strip_glob q); (apply SAME; [iw|reflexivity]).
      * destruct q as [|k r]; try (apply SAME; [iw|reflexivity]).
        destruct (get_cont h n) as [| |cs]; try (apply SAME; [iw|reflexivity]).
        destruct (assoc k cs); (apply SAME; [iw|reflexivity]).
    + destruct fr as [|f fr]; try (apply SAME; [iw|reflexivity]).
      destruct (dtodo f) as [|[k c] rest]; (apply SAME; [iw|reflexivity]).
    + destruct fr as [|f fr]; try (apply SAME; [iw|reflexivity]).
      destruct del; cbn -[set_cont]; [|apply SAME; [iw|reflexivity]].
      apply ae_remove; [rewrite Pc; reflexivity|]. intros q. right.
      apply absf_clear_root. apply HO.
    + destruct fr as [|f fr]; try (apply SAME; [iw|reflexivity]).
      destruct del; cbn -[set_cont]; [|apply SAME; [iw|reflexivity]].
      destruct (get_cont h (dn f)) as [| |cs] eqn:E; cbn -[set_cont]; try (apply SAME; [iw|reflexivity]).
      apply ae_remove; [rewrite Pc; reflexivity|].
      apply (absf_shrink_node h (dn f) cs (adel (dcur f) cs) E).
      intros a c A. destruct TS as [KN _]. rewrite assoc_adel in A by eauto.
      destruct (String.eqb a (dcur f)); [discriminate|exact A].
  - destruct SH as [_ [-> _]]. apply SAME; [apply LKW; try rewrite LO; discriminate|]. intros; apply get_cont_upd_mu; auto.
  - destruct SH as [-> _]. apply SAME; [apply LKW; try rewrite LO; discriminate|]. intros; apply get_cont_upd_mu; auto.
  - destruct SH as [_ [-> _]]. apply SAME; [apply LKW; try rewrite LO; discriminate|]. intros; apply get_cont_upd_mu; auto.
  - destruct SH as [n [m [hs [_ [-> _]]]]]. apply SAME; [apply LKW; try rewrite LO; discriminate|].
    intros; destruct m; apply get_cont_upd_mu; auto.
Qed.


(** * Runs with the log of write events *)

(** reachability together with the sequence of write events (thread, path, value) *)
Inductive reach_log (ops : list cop) : state -> list (nat * path * Z) -> Prop :=
| rl_init : reach_log ops (init_state ops) []
| rl_step s i s' t log :
    reach_log ops s log -> nth_error (thr s) i = Some t -> step s i = Some s' ->
    reach_log ops s'
      (match is_write (hp s) t with Some (p, v) => log ++ [(i, p, v)] | None => log end).

Lemma reach_log_reach ops s log : reach_log ops s log -> reach ops s.
Proof. induction 1; [constructor|econstructor; eauto]. Qed.

Lemma reach_reach_log ops s : reach ops s -> exists log, reach_log ops s log.
Proof.
  induction 1 as [|s i s' R [log IH] ST]; [exists []; constructor|].
  unfold step, step_gen in ST. destruct (nth_error (thr s) i) as [t|] eqn:Et; [|discriminate].
  eexists. eapply (rl_step ops s i s' t); eauto. unfold step, step_gen. rewrite Et. exact ST.
Qed.

Definition apply_log (log : list (nat * path * Z)) : path -> option Z :=
  fold_left (fun m e => upd m (snd (fst e)) (snd e)) log (fun _ => None).

Lemma apply_log_snoc log i p v q :
  apply_log (log ++ [(i, p, v)]) q = upd (apply_log log) p v q.
Proof. unfold apply_log. rewrite fold_left_app. reflexivity. Qed.

Lemma absf_init ops q : absf (hp (init_state ops)) q = None.
Proof. unfold absf. destruct q; reflexivity. Qed.

(** for programs of Adds, lookups, queries and handle reads the content is at
    every moment the result of replaying the write events in their order *)
Theorem content_is_log ops s log :
  forallb quiet_op ops = true -> reach_log ops s log ->
  forall q, absf (hp s) q = apply_log log q.
Proof.
  intros Q R. assert (QP : forallb patched_op ops = true).
  { rewrite forallb_forall in *. intros o Ho. specialize (Q o Ho). destruct o; auto; discriminate. }
  induction R as [|s i s' t log R IH Et ST]; intros q; [apply absf_init|].
  pose proof (reach_log_reach _ _ _ R) as Rs.
  pose proof (reach_TInv _ _ QP Rs) as TI. pose proof (reach_val_ok _ _ Rs) as VO.
  destruct (reach_AInv _ _ Q Rs) as [_ [QS _]].
  pose proof (Forall_nth_error _ _ _ _ QS Et) as Qt. cbn in Qt.
  destruct (step_abs_effect s i s' t TI VO ST Et) as [W E|p v W Tp E|n v Pc _|D _].
  - rewrite W. rewrite E. apply IH.
  - rewrite W. rewrite apply_log_snoc, E. unfold upd. rewrite IH. reflexivity.
  - rewrite Pc in Qt. discriminate.
  - destruct (tpc t); discriminate.
Qed.

(** ** the log as a sequential order *)

(** the value the log leaves at a path: the last entry for that path *)
Fixpoint look (log : list (nat * path * Z)) (q : path) : option Z :=
  match log with
  | [] => None
  | e :: l => match look l q with
              | Some v => Some v
              | None => if path_eqb q (snd (fst e)) then Some (snd e) else None
              end
  end.

Lemma look_snoc l i p v q : look (l ++ [(i, p, v)]) q = if path_eqb q p then Some v else look l q.
Proof.
  induction l as [|e l IH]; cbn.
  - destruct (path_eqb q p); reflexivity.
  - rewrite IH. destruct (path_eqb q p); [reflexivity|]. reflexivity.
Qed.

Lemma apply_log_look log q : apply_log log q = look log q.
Proof.
  induction log as [|[[i p] v] l IH] using rev_ind; [reflexivity|].
  rewrite apply_log_snoc, look_snoc. unfold upd. rewrite IH. reflexivity.
Qed.

Lemma look_In l i p v : In (i, p, v) l -> look l p <> None.
Proof.
  induction l as [|e l IH]; cbn; [tauto|]. intros [->|H].
  - destruct (look l p); [discriminate|]. cbn. rewrite path_eqb_refl. discriminate.
  - specialize (IH H). destruct (look l p); [discriminate|contradiction].
Qed.

(** keep, for every thread, only its last write event *)
Fixpoint keep_last (log : list (nat * path * Z)) : list (nat * path * Z) :=
  match log with
  | [] => []
  | e :: l => if existsb (fun e' => Nat.eqb (fst (fst e')) (fst (fst e))) l
              then keep_last l else e :: keep_last l
  end.

Lemma keep_last_In e log : In e (keep_last log) -> In e log.
Proof.
  induction log as [|a l IH]; cbn; [tauto|].
  destruct (existsb _ l); [auto|]. intros [->|H]; auto.
Qed.

Lemma keep_last_NoDup log : NoDup (map (fun e => fst (fst e)) (keep_last log)).
Proof.
  induction log as [|a l IH]; cbn; [constructor|].
  destruct (existsb (fun e' => Nat.eqb (fst (fst e')) (fst (fst a))) l) eqn:X; [exact IH|].
  cbn. constructor; [|exact IH]. intros H. apply in_map_iff in H. destruct H as [e [Ee He]].
  apply keep_last_In in He.
  assert (existsb (fun e' => Nat.eqb (fst (fst e')) (fst (fst a))) l = true).
  { apply existsb_exists. exists e. split; [auto|]. rewrite Ee. apply Nat.eqb_refl. }
  congruence.
Qed.

Lemma keep_last_covers log i p v :
  In (i, p, v) log -> exists p' v', In (i, p', v') (keep_last log).
Proof.
  revert p v. induction log as [|a l IH]; intros p v; cbn; [tauto|]. intros [->|H].
  - destruct (existsb (fun e' => Nat.eqb (fst (fst e')) (fst (fst (i, p, v)))) l) eqn:X.
    + apply existsb_exists in X. destruct X as [[[i' p'] v'] [He Hi]]. cbn in Hi.
      apply Nat.eqb_eq in Hi. subst i'. apply (IH _ _ He).
    + exists p, v. left; reflexivity.
  - destruct (IH _ _ H) as [p' [v' H']]. exists p', v'.
    destruct (existsb _ l); [auto|right; auto].
Qed.

(** entries of one thread all carry that thread's (path, value) *)
Definition log_coherent (log : list (nat * path * Z)) : Prop :=
  forall i p v p' v', In (i, p, v) log -> In (i, p', v') log -> p = p' /\ v = v'.

Lemma look_keep_last log q : log_coherent log -> look (keep_last log) q = look log q.
Proof.
  induction log as [|[[i p] v] l IH]; intros C; [reflexivity|].
  assert (Cl : log_coherent l).
  { intros i0 p0 v0 p1 v1 H0 H1. apply (C i0 p0 v0 p1 v1); right; auto. }
  cbn [keep_last fst].
  destruct (existsb (fun e' => Nat.eqb (fst (fst e')) i) l) eqn:X.
  - rewrite IH by auto. cbn [look fst snd].
    apply existsb_exists in X. destruct X as [[[i' p'] v'] [He Hi]]. cbn in Hi.
    apply Nat.eqb_eq in Hi. subst i'.
    destruct (C i p v p' v' (or_introl eq_refl) (or_intror He)) as [<- <-].
    destruct (look l q) eqn:Lq; [reflexivity|].
    destruct (path_eqb_spec q p) as [->|]; [|reflexivity].
    exfalso. eapply look_In; eauto.
  - cbn [look fst snd]. rewrite IH by auto. reflexivity.
Qed.

Definition succ_pc (p : pc) : bool :=
  match p with
  | PUnwind (UDone (XAdd true)) | PDone (XAdd true) | PHRel (XAdd true) => true
  | _ => false
  end.

(** an Add can only come to report success through terminalAdd's store *)
Lemma enters_succ b h t h' t' :
  tstep_gen b h t = Some (h', t') -> succ_pc (tpc t') = true ->
  succ_pc (tpc t) = true \/
  exists t0 v, tpc t = PAddTCrit t0 v /\ is_branch_c (get_cont h t0) = false.
Proof.
  intros ST. pose proof (tstep_shape _ _ _ _ _ ST) as SH.
  destruct t as [o p hs]. cbn [tpc top held] in *.
  destruct (lockop_of (TH o p hs)) eqn:LO.
  - destruct SH as [_ ->]. cbn [tpc].
    destruct p; cbn -[Nat.ltb hdelete set_cont new_chain] in *; try discriminate; auto;
    try (destruct (get_cont h t) eqn:E; cbn -[set_cont]; intros X; try discriminate X;
         right; exists t, v; rewrite E; auto; fail);
    repeat (first
              [ match goal with |- context [start_pc ?a ?b] => destruct b end
              | match goal with |- context [match get_cont ?a ?b with _ => _ end] => destruct (get_cont a b) end
              | match goal with |- context [match assoc ?a ?b with _ => _ end] => destruct (assoc a b) end
              | match goal with |- context [if Nat.ltb ?a ?b then _ else _] => destruct (Nat.ltb a b) end
              | match goal with |- context [if Nat.eqb ?a ?b then _ else _] => destruct (Nat.eqb a b) end
              | match goal with |- context [match query_visits ?a ?b with _ => _ end] => destruct (query_visits a b) end
              | match goal with |- context [if heads_all ?a then _ else _] => destruct (heads_all a) end
              | match goal with |- context [match strip_glob ?a with _ => _ end] => destruct (strip_glob a) end
              | match goal with |- context [match dtodo ?a with _ => _ end] => destruct (dtodo a) as [|[? ?] ?] end
              | match goal with |- context [match ?x with _ => _ end] => is_var x; destruct x end ];
            cbn -[Nat.ltb hdelete set_cont new_chain] in *; try discriminate; auto).
  - destruct SH as [_ [_ ->]]. cbn [tpc]. destruct p; cbn in *; try discriminate; auto; qfin.
  - destruct SH as [_ ->]. cbn [tpc]. destruct p; cbn in *; try discriminate; auto; qfin.
  - destruct SH as [_ [_ ->]]. cbn [tpc]. destruct p; cbn in *; try discriminate; auto; qfin.
  - destruct SH as [n [m [hs' [_ [_ ->]]]]]. cbn [tpc]. destruct p; cbn in *; try discriminate; auto; qfin.
Qed.

Lemma is_write_top h t p v : is_write h t = Some (p, v) -> top t = CAdd p v.
Proof.
  unfold is_write. destruct (top t); try discriminate. destruct (tpc t); try discriminate.
  - destruct (is_branch_c (get_cont h t0)); [discriminate|]. intros X; inv X; reflexivity.
  - destruct (get_cont h t0) as [| |cs]; try discriminate.
    + intros X; inv X; reflexivity.
    + destruct (assoc k cs); [discriminate|]. intros X; inv X; reflexivity.
Qed.

Lemma nth_error_top ops s i t :
  reach ops s -> nth_error (thr s) i = Some t -> nth_error ops i = Some (top t).
Proof.
  intros R E. rewrite <- (reach_top _ _ R). rewrite nth_error_map, E. reflexivity.
Qed.

(** every log entry is the call of the thread that made it *)
Lemma log_ops ops s log :
  reach_log ops s log -> forall i p v, In (i, p, v) log -> nth_error ops i = Some (CAdd p v).
Proof.
  induction 1 as [|s i s' t log R IH Et ST]; intros j p v H; [destruct H|].
  destruct (is_write (hp s) t) as [[p0 v0]|] eqn:W; [|eauto].
  apply in_app_or in H. destruct H as [H|[H|[]]]; [eauto|]. inv H.
  rewrite (nth_error_top _ _ _ _ (reach_log_reach _ _ _ R) Et).
  f_equal. apply is_write_top in W. exact W.
Qed.

Lemma log_coherent_reach ops s log : reach_log ops s log -> log_coherent log.
Proof.
  intros R i p v p' v' H H'. pose proof (log_ops _ _ _ R _ _ _ H) as E.
  pose proof (log_ops _ _ _ R _ _ _ H') as E'. rewrite E in E'. inv E'. auto.
Qed.

(** an Add that reports success has its write event in the log *)
Lemma success_logged ops s log :
  reach_log ops s log -> forall i t p v,
  nth_error (thr s) i = Some t -> top t = CAdd p v -> succ_pc (tpc t) = true -> In (i, p, v) log.
Proof.
  induction 1 as [|s j s' tj log R IH Ej ST]; intros i t p v Et Tp S.
  - cbn in Et. rewrite nth_error_map in Et. destruct (nth_error ops i); inv Et. discriminate.
  - assert (GROW : forall e, In e log ->
              In e (match is_write (hp s) tj with Some (p0, v0) => log ++ [(j, p0, v0)] | None => log end)).
    { intros e He. destruct (is_write (hp s) tj) as [[p0 v0]|]; [apply in_or_app; auto|auto]. }
    unfold step, step_gen in ST. rewrite Ej in ST.
    destruct (tstep_gen false (hp s) tj) as [[h' tj']|] eqn:Ets; [|discriminate]. inv ST. cbn [thr] in Et.
    destruct (Nat.eq_dec j i) as [->|D].
    + erewrite nth_error_set_nth_eq in Et by eauto. inv Et.
      assert (Tj : top tj = CAdd p v).
      { pose proof (tstep_shape _ _ _ _ _ Ets) as SH.
        destruct (lockop_of tj); repeat match goal with
                                        | H : _ /\ _ |- _ => destruct H
                                        | H : exists _, _ |- _ => destruct H
                                        end; subst; cbn in Tp; exact Tp. }
      destruct (enters_succ _ _ _ _ _ Ets S) as [S0|[t0 [v0 [Pc B]]]].
      * apply GROW. eapply IH; eauto.
      * assert (W : is_write (hp s) tj = Some (p, v)).
        { unfold is_write. rewrite Tj, Pc, B. reflexivity. }
        rewrite W. apply in_or_app. right. left. reflexivity.
    + rewrite nth_error_set_nth_neq in Et by auto. apply GROW. eapply IH; eauto.
Qed.

(** Quiescent serializability of the Add / lookup / query / handle-read
    fragment -- in fact at EVERY reachable state, quiescent or not: there is a
    sequential order of distinct Add calls of the program, containing every Add
    that has reported success, whose successive application to the empty tree
    yields exactly the current content. *)
Theorem quiescent_serializable_adds ops s :
  forallb quiet_op ops = true -> reach ops s ->
  exists order : list (nat * path * Z),
    NoDup (map (fun e => fst (fst e)) order) /\
    (forall i p v, In (i, p, v) order -> nth_error ops i = Some (CAdd p v)) /\
    (forall i t p v, nth_error (thr s) i = Some t -> nth_error ops i = Some (CAdd p v) ->
                     tpc t = PDone (XAdd true) -> In (i, p, v) order) /\
    (forall q, absf (hp s) q = apply_log order q).
Proof.
  intros Q R. destruct (reach_reach_log _ _ R) as [log RL].
  pose proof (log_coherent_reach _ _ _ RL) as C.
  exists (keep_last log). split; [apply keep_last_NoDup|]. split; [|split].
  - intros i p v H. eapply log_ops; eauto. apply keep_last_In. exact H.
  - intros i t p v Et Eo D.
    assert (Tp : top t = CAdd p v).
    { pose proof (nth_error_top _ _ _ _ R Et) as X. rewrite Eo in X. inv X. reflexivity. }
    assert (H : In (i, p, v) log).
    { eapply success_logged; eauto. rewrite D. reflexivity. }
    destruct (keep_last_covers _ _ _ _ H) as [p' [v' H']].
    destruct (C i p v p' v' H (keep_last_In _ _ H')) as [<- <-]. exact H'.
  - intros q. rewrite (content_is_log _ _ _ Q RL). rewrite !apply_log_look.
    symmetry. apply look_keep_last. exact C.
Qed.

(** * Linearization points of Add and Get: the answer agrees with the abstraction *)

(** the flat specification's conflict rule (CTreeCheck.fconflict): some stored
    path is a strict prefix of p, or p is a strict prefix of a stored path *)
Definition conflict_free (m : path -> option Z) (p : path) : Prop :=
  forall q, (strict_prefix q p = true \/ strict_prefix p q = true) -> m q = None.

Lemma strict_prefix_split q p :
  strict_prefix q p = true -> exists s, s <> [] /\ p = q ++ s.
Proof.
  unfold strict_prefix. intros H. apply andb_true_iff in H. destruct H as [H1 H2].
  apply is_prefix_spec in H1. destruct H1 as [s ->]. exists s. split; auto.
  intros ->. rewrite app_nil_r in H2. rewrite path_eqb_refl in H2. discriminate.
Qed.

(** when the node an Add stands on is not a branch, nothing stored conflicts with its path *)
Lemma conflict_free_at h p t0 :
  resolve h 0 p = Some t0 -> is_branch_c (get_cont h t0) = false -> conflict_free (absf h) p.
Proof.
  intros R B q [H|H]; apply strict_prefix_split in H; destruct H as [s [NE ->]]; unfold absf.
  - (* q is above p: it is a branch *)
    rewrite resolve_app in R. destruct (resolve h 0 q) as [m|]; [|reflexivity].
    destruct s as [|a s]; [contradiction|]. cbn in R.
    destruct (get_cont h m) as [| |cs]; try discriminate. reflexivity.
  - (* q is below p: p's node has no children *)
    rewrite resolve_app, R. destruct s as [|a s]; [contradiction|]. cbn.
    destruct (get_cont h t0) as [| |cs]; try discriminate; reflexivity.
Qed.

(** Add's success point: terminalAdd stores into the node currently at its
    path, nothing stored conflicts with the path, and the content becomes
    [upd content p v] -- the flat specification's successful Add *)
Theorem add_success_point ops s i s' t p v t0 :
  forallb patched_op ops = true -> reach ops s ->
  nth_error (thr s) i = Some t -> top t = CAdd p v -> tpc t = PAddTCrit t0 v ->
  is_branch_c (get_cont (hp s) t0) = false -> step s i = Some s' ->
  conflict_free (absf (hp s)) p /\ (forall q, absf (hp s') q = upd (absf (hp s)) p v q).
Proof.
  intros Q R Et Tp Pc B ST. pose proof (reach_TInv _ _ Q R) as TI.
  destruct (walk_pos_resolve s i t p t0 [] TI Et) as [pre [Ep Rp]].
  { unfold walk_pos. rewrite Tp, Pc. reflexivity. }
  rewrite app_nil_r in Ep. subst pre. split; [eapply conflict_free_at; eauto|].
  destruct (step_abs_effect s i s' t TI (reach_val_ok _ _ R) ST Et) as [W _|p0 v0 W Tp0 E|n0 v0 Pc0 _|D _].
  - unfold is_write in W. rewrite Tp, Pc, B in W. discriminate.
  - rewrite Tp in Tp0. inv Tp0. exact E.
  - rewrite Pc in Pc0. discriminate.
  - rewrite Pc in D. discriminate.
Qed.

(** Add's failure points (1): the walk meets a leaf above its path -- a stored
    strict prefix, the specification's conflict.  All programs. *)
Theorem add_failure_point_leaf_above ops s i t p v t0 k r v' :
  reach ops s -> nth_error (thr s) i = Some t -> top t = CAdd p v ->
  (tpc t = PAddIRead t0 k r v' \/ tpc t = PAddSlow t0 k r v') ->
  (exists w, get_cont (hp s) t0 = CLeaf w) ->
  exists q, strict_prefix q p = true /\ absf (hp s) q <> None.
Proof.
  intros R Et Tp Pc [w E].
  destruct (point_ops_on_current_node ops s i t p t0 (k :: r) R Et) as [pre [Ep Rp]].
  { unfold walk_pos. rewrite Tp. destruct Pc as [-> | ->]; reflexivity. }
  exists pre. split.
  - unfold strict_prefix. apply andb_true_iff. split.
    + apply is_prefix_spec. eauto.
    + apply negb_true_iff. apply path_eqb_neq. subst p. apply app_cons_length_neq.
  - unfold absf. rewrite Rp, E. discriminate.
Qed.

(** Get's miss point: the walk finds no child for the next name -- nothing is
    stored at the path.  All programs. *)
Theorem get_miss_point ops s i t p t0 k r :
  reach ops s -> nth_error (thr s) i = Some t -> top t = CGetVal p -> tpc t = PGetRead t0 (k :: r) ->
  match get_cont (hp s) t0 with
  | CBranch cs => assoc k cs = None
  | _ => True
  end ->
  absf (hp s) p = None.
Proof.
  intros R Et Tp Pc M.
  destruct (point_ops_on_current_node ops s i t p t0 (k :: r) R Et) as [pre [-> Rp]].
  { unfold walk_pos. rewrite Tp, Pc. reflexivity. }
  unfold absf. rewrite resolve_app, Rp. cbn.
  destruct (get_cont (hp s) t0) as [| |cs]; try reflexivity. rewrite M. reflexivity.
Qed.

(** ** Get's hit point (programs without Delete / handle Update): the node Get
    returned is still the node stored at the path when Value() reads it *)

Definition gv_node (p : pc) : option nat :=
  match p with
  | PUnwind (UVal n) | PHVal n | PHValRead n => Some n
  | _ => None
  end.

Lemma enters_gv b h t h' t' n :
  tstep_gen b h t = Some (h', t') -> gv_node (tpc t') = Some n ->
  gv_node (tpc t) = Some n \/ tpc t = PGetRead n [] \/ (exists o, tpc t = PStart o /\ o = CHValue n).
Proof.
  intros ST. pose proof (tstep_shape _ _ _ _ _ ST) as SH.
  destruct t as [o p hs]. cbn [tpc top held] in *.
  destruct (lockop_of (TH o p hs)) eqn:LO.
  - destruct SH as [_ ->]. cbn [tpc].
    destruct p; cbn -[Nat.ltb hdelete set_cont new_chain] in *; try discriminate; auto;
    repeat (first
              [ match goal with |- context [start_pc ?a ?b] => destruct b end
              | match goal with |- context [match get_cont ?a ?b with _ => _ end] => destruct (get_cont a b) end
              | match goal with |- context [match assoc ?a ?b with _ => _ end] => destruct (assoc a b) end
              | match goal with |- context [if Nat.ltb ?a ?b then _ else _] => destruct (Nat.ltb a b) end
              | match goal with |- context [if Nat.eqb ?a ?b then _ else _] => destruct (Nat.eqb a b) end
              | match goal with |- context [match query_visits ?a ?b with _ => _ end] => destruct (query_visits a b) end
              | match goal with |- context [if heads_all ?a then _ else _] => destruct (heads_all a) end
              | match goal with |- context [match strip_glob ?a with _ => _ end] => destruct (strip_glob a) end
              | match goal with |- context [match dtodo ?a with _ => _ end] => destruct (dtodo a) as [|[? ?] ?] end
              | match goal with |- context [match ?x with _ => _ end] => is_var x; destruct x end ];
            cbn -[Nat.ltb hdelete set_cont new_chain] in *; try discriminate; auto);
    try (intros X; inv X; eauto 6; fail).
  - destruct SH as [_ [_ ->]]. cbn [tpc]. destruct p; cbn in *; try discriminate; auto; qfin.
  - destruct SH as [_ ->]. cbn [tpc]. destruct p; cbn in *; try discriminate; auto; qfin.
  - destruct SH as [_ [_ ->]]. cbn [tpc]. destruct p; cbn in *; try discriminate; auto; qfin.
  - destruct SH as [n0 [m [hs' [_ [_ ->]]]]]. cbn [tpc]. destruct p; cbn in *; try discriminate; auto; qfin.
Qed.

Definition gv_ok (h : heap) (t : thread) : Prop :=
  match top t, gv_node (tpc t) with
  | CGetVal p, Some n => resolve h 0 p = Some n
  | _, _ => True
  end.

Lemma reach_gv_ok ops s :
  forallb quiet_op ops = true -> reach ops s -> Forall (gv_ok (hp s)) (thr s).
Proof.
  intros Q R. induction R as [|s j s' R IH ST].
  - cbn. apply Forall_forall. intros t Ht. apply in_map_iff in Ht. destruct Ht as [o [<- _]].
    unfold gv_ok. cbn. destruct o; exact I.
  - destruct (reach_AInv _ _ Q R) as [[HO [TO _]] [QS _]].
    assert (ST0 := ST). unfold step, step_gen in ST.
    destruct (nth_error (thr s) j) as [tj|] eqn:Ej; [|discriminate].
    destruct (tstep_gen false (hp s) tj) as [[h' tj']|] eqn:Ets; [|discriminate]. inv ST. cbn [hp thr].
    pose proof (Forall_nth_error _ _ _ _ TO Ej) as Tj.
    pose proof (Forall_nth_error _ _ _ _ QS Ej) as Qj. cbn in Qj.
    pose proof (tstep_cont_mono _ _ _ _ _ Tj Qj Ets) as CM.
    assert (MONO : forall t, gv_ok (hp s) t -> gv_ok h' t).
    { intros t. unfold gv_ok. destruct (top t); auto. destruct (gv_node (tpc t)); auto.
      intros X. eapply resolve_mono; eauto. }
    apply Forall_forall. intros t0 H0. apply In_set_nth in H0. destruct H0 as [->|H0].
    + assert (Tt : top tj' = top tj).
      { pose proof (tstep_shape _ _ _ _ _ Ets) as SH.
        destruct (lockop_of tj); repeat match goal with
                                        | H : _ /\ _ |- _ => destruct H
                                        | H : exists _, _ |- _ => destruct H
                                        end; subst; reflexivity. }
      unfold gv_ok. rewrite Tt. destruct (top tj) as [|p| | | | |] eqn:Tp; auto.
      destruct (gv_node (tpc tj')) as [n|] eqn:G; auto.
      destruct (enters_gv _ _ _ _ _ _ Ets G) as [G0|[Pc|[o [Pc Eo]]]].
      * pose proof (Forall_nth_error _ _ _ _ IH Ej) as X. unfold gv_ok in X. rewrite Tp, G0 in X.
        eapply resolve_mono; eauto.
      * eapply resolve_mono; [exact CM|]. eapply get_reads_current_node; eauto.
      * (* a thread whose call is GetLeafValue does not start as a handle read *)
        pose proof (reach_val_ok _ _ R) as VO.
        pose proof (Forall_nth_error _ _ _ _ VO Ej) as V. unfold val_ok in V. rewrite Pc in V.
        rewrite Tp in V. subst o. discriminate.
    + rewrite Forall_forall in IH. apply MONO. auto.
Qed.

(** the value Get + Value returns is the value stored at the path at the
    moment Value() reads it *)
Theorem get_hit_point ops s i t p n :
  forallb quiet_op ops = true -> reach ops s ->
  nth_error (thr s) i = Some t -> top t = CGetVal p -> tpc t = PHValRead n ->
  exists s', step s i = Some s' /\
             nth_error (thr s') i = Some (TH (top t) (PHRel (XVal (absf (hp s) p))) (held t)) /\
             hp s' = hp s.
Proof.
  intros Q R Et Tp Pc.
  pose proof (Forall_nth_error _ _ _ _ (reach_gv_ok _ _ Q R) Et) as G.
  unfold gv_ok in G. rewrite Tp, Pc in G. cbn in G.
  assert (LO : lockop_of t = LNone) by (unfold lockop_of; rewrite Pc; reflexivity).
  unfold step, step_gen. rewrite Et. unfold tstep_gen. rewrite LO, Pc. cbn.
  eexists. split; [reflexivity|]. cbn [thr hp]. split; [|reflexivity].
  erewrite nth_error_set_nth_eq by eauto. unfold absf. rewrite G. reflexivity.
Qed.

(** * Query stability (soundness half, programs without Delete / handle Update) *)

(** every node a Query stands on or still has to visit is the node its prefix
    leads to in the current tree *)
Definition item_ok (h : heap) (it : qitem) : Prop :=
  resolve h 0 (snd (fst it)) = Some (fst (fst it)).

Definition q_ok (h : heap) (t : thread) : Prop :=
  match tpc t with
  | PQEnter t0 pre _ _ fr | PQRead t0 pre _ _ fr =>
      resolve h 0 pre = Some t0 /\ Forall (Forall (item_ok h)) fr
  | PQVisit _ _ _ fr | PQNext _ fr => Forall (Forall (item_ok h)) fr
  | _ => True
  end.

Lemma item_ok_mono h h' it : cont_mono h h' -> item_ok h it -> item_ok h' it.
Proof. intros CM. unfold item_ok. apply resolve_mono; auto. Qed.

Lemma q_ok_mono h h' t : cont_mono h h' -> q_ok h t -> q_ok h' t.
Proof.
  intros CM. unfold q_ok.
  assert (F : forall fr, Forall (Forall (item_ok h)) fr -> Forall (Forall (item_ok h')) fr).
  { intros fr H. eapply Forall_impl; [|exact H]. intros l Hl.
    eapply Forall_impl; [|exact Hl]. intros it. apply item_ok_mono; auto. }
  destruct (tpc t); auto; intros [R H]; split; auto; eapply resolve_mono; eauto.
Qed.

Lemma query_items_item_ok h t0 pre q :
  keys_nodup h -> resolve h 0 pre = Some t0 ->
  Forall (item_ok h) (query_items (get_cont h t0) pre q).
Proof.
  intros KN R. unfold query_items.
  assert (ONE : forall cs k c, get_cont h t0 = CBranch cs -> assoc k cs = Some c ->
                               resolve h 0 (pre ++ [k]) = Some c).
  { intros cs k c E A. eapply resolve_snoc; eauto. }
  destruct (get_cont h t0) as [| |cs] eqn:E.
  - destruct q as [|k r]; [constructor|]. destruct (is_glob k); constructor.
  - destruct q as [|k r]; [constructor|]. destruct (is_glob k); constructor.
  - assert (F : Forall (fun kc : string * nat => assoc (fst kc) cs = Some (snd kc)) cs).
    { apply Forall_forall. intros [k c] H. cbn. apply In_assoc; eauto. }
    assert (ALL : forall r', Forall (item_ok h)
                     (map (fun kc : string * nat => (snd kc, pre ++ [fst kc], r')) cs)).
    { intros r'. apply Forall_map. eapply Forall_impl; [|exact F]. intros kc A.
      unfold item_ok. cbn. eapply ONE; eauto. }
    destruct q as [|k r]; [apply ALL|].
    destruct (is_glob k); [apply ALL|].
    destruct (assoc k cs) as [c|] eqn:A; [|constructor].
    constructor; [|constructor]. unfold item_ok. cbn. eapply ONE; eauto.
Qed.

Lemma q_ok_step b h t h' t' :
  keys_nodup h -> q_ok h t -> tstep_gen b h t = Some (h', t') -> cont_mono h h' -> q_ok h' t'.
Proof.
  intros KN QO ST CM. pose proof (tstep_shape _ _ _ _ _ ST) as SH.
  pose proof (q_ok_mono _ _ _ CM QO) as QO'.
  assert (FM : forall fr, Forall (Forall (item_ok h)) fr -> Forall (Forall (item_ok h')) fr).
  { intros fr H. eapply Forall_impl; [|exact H]. intros l Hl.
    eapply Forall_impl; [|exact Hl]. intros it. apply item_ok_mono; auto. }
  destruct t as [o p hs]. unfold q_ok in *. cbn [tpc top held] in *.
  destruct (lockop_of (TH o p hs)) eqn:LO.
  - destruct SH as [-> ->]. cbn [tpc].
    destruct p; cbn -[Nat.ltb hdelete set_cont new_chain] in *; try discriminate; auto.
    + (* PStart *) destruct o0; cbn -[Nat.ltb]; auto.
      * destruct (Nat.ltb n (List.length h)); exact I.
      * destruct (Nat.ltb n (List.length h)); exact I.
    + destruct (get_cont h t); exact I.
    + destruct (get_cont h t) as [| |cs]; try exact I. destruct (assoc k cs); exact I.
    + destruct (get_cont h t) as [| |cs]; cbn -[set_cont new_chain]; try exact I.
      destruct (assoc k cs); exact I.
    + destruct p as [|k r]; [exact I|]. destruct (get_cont h t) as [| |cs]; try exact I.
      destruct (assoc k cs); exact I.
    + destruct k; exact I.
    + (* PQRead *) destruct QO as [R F].
      destruct (query_visits (get_cont h t) q); cbn.
      * constructor; [constructor|auto].
      * constructor; [apply query_items_item_ok; auto|auto].
    + (* PQVisit *) destruct o as [| |q0 [k|]| | | |]; auto.
      destruct (Nat.eqb (List.length acc) k); auto.
    + (* PQNext *) destruct fr as [|[|[[c pre0] q0] todo] fr]; cbn; auto.
      inversion QO as [|x l Hx Hl]; subst. inversion Hx as [|y l' Hy Hl']; subst.
      split; [exact Hy|]. constructor; auto.
    + destruct (heads_all q).
      * destruct (get_cont h n); try exact I. destruct (strip_glob q); exact I.
      * destruct q as [|k r]; try exact I. destruct (get_cont h n) as [| |cs]; try exact I.
        destruct (assoc k cs); exact I.
    + destruct fr as [|f fr]; try exact I. destruct (dtodo f) as [|[k c] rest]; exact I.
    + destruct fr as [|f fr]; exact I.
    + destruct fr as [|f fr]; exact I.
  - destruct SH as [_ [_ ->]]. cbn [tpc]. destruct p; cbn in *; try discriminate; auto;
      try (destruct p; exact I); try (destruct fr as [|[|? ?] ?]; cbn in *; discriminate).
  - destruct SH as [_ ->]. cbn [tpc]. destruct p; cbn in *; try discriminate; auto;
      try (destruct p; exact I); try (destruct fr as [|[|? ?] ?]; cbn in *; discriminate).
  - destruct SH as [_ [_ ->]]. cbn [tpc]. destruct p; cbn in *; try discriminate; auto;
      try (destruct p; exact I); try (destruct fr as [|[|? ?] ?]; cbn in *; discriminate).
  - destruct SH as [n [m [hs' [_ [_ ->]]]]]. cbn [tpc]. destruct p; cbn in *; try discriminate; auto;
      try (destruct p; exact I); try (destruct hs; discriminate);
      try (destruct fr as [|[|x l] fr]; cbn in *; try discriminate; inversion QO'; auto; fail);
      try (destruct fr; discriminate).
Qed.

Lemma reach_q_ok ops s :
  forallb quiet_op ops = true -> reach ops s -> Forall (q_ok (hp s)) (thr s).
Proof.
  intros Q R. assert (QP : forallb patched_op ops = true).
  { rewrite forallb_forall in *. intros o Ho. specialize (Q o Ho). destruct o; auto; discriminate. }
  induction R as [|s j s' R IH ST].
  - cbn. apply Forall_forall. intros t Ht. apply in_map_iff in Ht. destruct Ht as [o [<- _]]. exact I.
  - destruct (reach_AInv _ _ Q R) as [[HO [TO _]] [QS _]].
    destruct (reach_TInv _ _ QP R) as [_ [_ [KN _]]].
    unfold step, step_gen in ST.
    destruct (nth_error (thr s) j) as [tj|] eqn:Ej; [|discriminate].
    destruct (tstep_gen false (hp s) tj) as [[h' tj']|] eqn:Ets; [|discriminate]. inv ST. cbn [hp thr].
    pose proof (Forall_nth_error _ _ _ _ TO Ej) as Tj.
    pose proof (Forall_nth_error _ _ _ _ QS Ej) as Qj. cbn in Qj.
    pose proof (tstep_cont_mono _ _ _ _ _ Tj Qj Ets) as CM.
    apply Forall_forall. intros t0 H0. apply In_set_nth in H0. destruct H0 as [->|H0].
    + eapply q_ok_step; eauto. apply (Forall_nth_error _ _ _ _ IH Ej).
    + rewrite Forall_forall in IH. eapply q_ok_mono; eauto.
Qed.

(** Query stability, soundness half: whenever a Query / Walk is about to call its
    visitor with (path, value) -- it stands on a node, holding its read lock, and
    [query_visits] says this node is reported -- that leaf is stored at that
    path with that value in the current tree.  So nothing that was absent
    during the whole execution of the query is ever reported. *)
Theorem query_reports_present ops s i t t0 pre q acc fr v :
  forallb quiet_op ops = true -> reach ops s ->
  nth_error (thr s) i = Some t -> tpc t = PQRead t0 pre q acc fr ->
  query_visits (get_cont (hp s) t0) q = Some v ->
  absf (hp s) pre = Some v /\
  (exists s', step s i = Some s' /\
     exists t', nth_error (thr s') i = Some t' /\ tpc t' = PQVisit pre v acc ([] :: fr)).
Proof.
  intros Q R Et Pc QV.
  pose proof (Forall_nth_error _ _ _ _ (reach_q_ok _ _ Q R) Et) as X.
  unfold q_ok in X. rewrite Pc in X. destruct X as [Rp _]. split.
  - unfold absf. rewrite Rp. unfold query_visits in QV.
    destruct (get_cont (hp s) t0); try discriminate.
    destruct q as [|k0 [|? ?]]; try discriminate.
    + inv QV. reflexivity.
    + destruct (is_glob k0); try discriminate. inv QV. reflexivity.
  - assert (LO : lockop_of t = LNone) by (unfold lockop_of; rewrite Pc; reflexivity).
    unfold step, step_gen. rewrite Et. unfold tstep_gen. rewrite LO, Pc. cbn. rewrite QV. cbn.
    eexists. split; [reflexivity|]. cbn [thr]. eexists. split.
    + erewrite nth_error_set_nth_eq by eauto. reflexivity.
    + reflexivity.
Qed.

(** * Add's failure point (2): a branch at the path has a leaf below it
    (programs without Delete / handle Update) *)

Definition branches_full (h : heap) : Prop :=
  (forall n cs, get_cont h n = CBranch cs -> cs <> []) /\
  (forall n, 0 < n -> n < List.length h -> get_cont h n <> CNil).

Lemma bf_same h h' : List.length h' = List.length h ->
  (forall n, get_cont h' n = get_cont h n) -> branches_full h -> branches_full h'.
Proof.
  intros L E [B N]. split.
  - intros n cs H. rewrite E in H. eauto.
  - intros n L0 L1. rewrite E. apply N; auto. lia.
Qed.

Lemma bf_set_leaf h n v : branches_full h -> branches_full (set_cont h n (CLeaf v)).
Proof.
  intros [B N]. split.
  - intros m cs H. rewrite get_cont_set in H. destruct (Nat.eqb m n && Nat.ltb n (List.length h)); [discriminate|eauto].
  - intros m L0 L1. rewrite length_set_cont in L1. rewrite get_cont_set.
    destruct (Nat.eqb m n && Nat.ltb n (List.length h)); [discriminate|auto].
Qed.

Lemma bf_alloc h t0 cs0 k r v :
  branches_full h -> t0 < List.length h ->
  branches_full (set_cont h t0 (CBranch (cs0 ++ [(k, List.length h)])) ++ new_chain (List.length h) r v).
Proof.
  intros [B N] Lt.
  set (h' := set_cont h t0 (CBranch (cs0 ++ [(k, List.length h)])) ++ new_chain (List.length h) r v).
  assert (OLD : forall n, n < List.length h -> n <> t0 -> get_cont h' n = get_cont h n).
  { intros n L D. unfold h'. rewrite get_cont_app_l by (rewrite length_set_cont; auto).
    apply get_cont_set_neq; auto. }
  assert (AT : get_cont h' t0 = CBranch (cs0 ++ [(k, List.length h)])).
  { unfold h'. rewrite get_cont_app_l by (rewrite length_set_cont; auto). apply get_cont_set_eq; auto. }
  assert (NEW : forall i, i <= List.length r ->
            is_branch_c (get_cont h' (List.length h + i)) = negb (Nat.eqb i (List.length r)) /\
            (i = List.length r -> get_cont h' (List.length h + i) = CLeaf v)).
  { intros i Li. unfold h'. apply chain_content'; auto. apply length_set_cont. }
  assert (LL : List.length h' = List.length h + S (List.length r)).
  { unfold h'. rewrite app_length, length_set_cont, length_new_chain. reflexivity. }
  split.
  - intros n cs H E. subst cs. destruct (Nat.lt_ge_cases n (List.length h)) as [L|L].
    + destruct (Nat.eq_dec n t0) as [->|D].
      * rewrite AT in H. inv H. destruct cs0; discriminate.
      * rewrite OLD in H by auto. eapply B; eauto.
    + unfold h', get_cont in H. rewrite nth_error_app2 in H by (rewrite length_set_cont; auto).
      rewrite length_set_cont in H.
      change (get_cont (new_chain (List.length h) r v) (n - List.length h) = CBranch []) in H.
      destruct (new_chain_branch _ _ _ _ _ H) as [k' [X _]]. discriminate.
  - intros n L0 L1. rewrite LL in L1. destruct (Nat.lt_ge_cases n (List.length h)) as [L|L].
    + destruct (Nat.eq_dec n t0) as [->|D]; [rewrite AT; discriminate|].
      rewrite OLD by auto. apply N; auto.
    + destruct (NEW (n - List.length h)) as [X Y]; [lia|].
      replace (List.length h + (n - List.length h)) with n in * by lia.
      destruct (Nat.eqb_spec (n - List.length h) (List.length r)) as [E|E].
      * rewrite Y by auto. discriminate.
      * cbn in X. destruct (get_cont h' n); try discriminate.
Qed.

Lemma tstep_branches_full b h t h' t' :
  thread_ok (List.length h) t -> quiet_pc (tpc t) = true ->
  branches_full h -> tstep_gen b h t = Some (h', t') -> branches_full h'.
Proof.
  intros [_ [IL P]] Q BF ST. pose proof (tstep_shape _ _ _ _ _ ST) as SH.
  destruct (lockop_of t) eqn:LO.
  - destruct SH as [-> _]. destruct t as [o p hs]. cbn [tpc held top] in *.
    destruct p; cbn -[set_cont new_chain hdelete] in *; try discriminate; auto.
    + destruct (get_cont h t); cbn -[set_cont]; auto; apply bf_set_leaf; auto.
    + destruct (get_cont h t) as [| |cs]; cbn; auto. destruct (assoc k cs); auto.
    + assert (Lt : t < List.length h) by (destruct P as [[r0 ->] _]; inv IL; auto).
      destruct (get_cont h t) as [| |cs] eqn:E; cbn -[set_cont new_chain]; auto.
      * apply (bf_alloc h t [] k r v); auto.
      * destruct (assoc k cs) eqn:A; cbn -[set_cont new_chain]; auto.
        apply (bf_alloc h t cs k r v); auto.
    + destruct p as [|k r]; cbn; auto. destruct (get_cont h t) as [| |cs]; cbn; auto.
      destruct (assoc k cs); auto.
    + destruct k; auto.
    + destruct (query_visits (get_cont h t) q); auto.
    + destruct fr as [|[|[[c pre0] q0] todo] fr]; auto.
  - destruct SH as [_ [-> _]]. eapply bf_same; [apply length_do_rlock| |exact BF]. intros; apply get_cont_upd_mu; auto.
  - destruct SH as [-> _]. eapply bf_same; [apply length_do_req| |exact BF]. intros; apply get_cont_upd_mu; auto.
  - destruct SH as [_ [-> _]]. eapply bf_same; [apply length_do_acq| |exact BF]. intros; apply get_cont_upd_mu; auto.
  - destruct SH as [n [m [hs [_ [-> _]]]]]. eapply bf_same; [apply length_do_rel| |exact BF].
    intros; destruct m; apply get_cont_upd_mu; auto.
Qed.

Lemma reach_branches_full ops s :
  forallb quiet_op ops = true -> reach ops s -> branches_full (hp s).
Proof.
  intros Q R. induction R as [|s j s' R IH ST].
  - split.
    + intros n cs H. destruct n as [|[|n]]; cbn in H; discriminate.
    + intros n L0 L1. cbn in L1. lia.
  - destruct (reach_AInv _ _ Q R) as [[HO [TO _]] [QS _]].
    unfold step, step_gen in ST.
    destruct (nth_error (thr s) j) as [tj|] eqn:Ej; [|discriminate].
    destruct (tstep_gen false (hp s) tj) as [[h' tj']|] eqn:Ets; [|discriminate]. inv ST. cbn [hp].
    eapply tstep_branches_full; eauto.
    + eapply Forall_nth_error; eauto.
    + apply (Forall_nth_error _ _ _ _ QS Ej).
Qed.

(** below every branch there is a leaf *)
Lemma leaf_below h : heap_ok h -> branches_full h -> forall d n cs,
  List.length h - n <= d -> get_cont h n = CBranch cs ->
  exists s l w, s <> [] /\ resolve h n s = Some l /\ get_cont h l = CLeaf w.
Proof.
  intros HO [B N]. induction d as [|d IH]; intros n cs Ld E.
  - assert (n < List.length h).
    { destruct (Nat.lt_ge_cases n (List.length h)); auto. rewrite get_cont_oob in E by auto. discriminate. }
    lia.
  - destruct cs as [|[k c] cs']; [exfalso; eapply B; eauto|].
    destruct HO as [L0 HO']. pose proof (HO' _ _ E) as F. inversion F as [|x l [L1 L2] F']; subst. cbn in L1, L2.
    destruct (get_cont h c) as [|w|ds] eqn:Ec.
    + exfalso. eapply (N c); eauto. lia.
    + exists [k], c, w. split; [discriminate|]. cbn. rewrite E. cbn. rewrite String.eqb_refl. auto.
    + destruct (IH c ds) as [s [l [w [NE [Rs El]]]]]; [lia|auto|].
      exists (k :: s), l, w. split; [discriminate|]. cbn. rewrite E. cbn. rewrite String.eqb_refl. auto.
Qed.

(** Add finds a branch at its own path: some stored path lies strictly below
    it -- the specification's other conflict *)
Theorem add_failure_point_branch_at ops s i t p v t0 v' cs :
  forallb quiet_op ops = true -> reach ops s ->
  nth_error (thr s) i = Some t -> top t = CAdd p v -> tpc t = PAddTCrit t0 v' ->
  get_cont (hp s) t0 = CBranch cs ->
  exists q, strict_prefix p q = true /\ absf (hp s) q <> None.
Proof.
  intros Q R Et Tp Pc E.
  destruct (point_ops_on_current_node ops s i t p t0 [] R Et) as [pre [Ep Rp]].
  { unfold walk_pos. rewrite Tp, Pc. reflexivity. }
  rewrite app_nil_r in Ep. subst pre.
  destruct (reach_Inv _ _ R) as [HO _].
  destruct (leaf_below (hp s) HO (reach_branches_full _ _ Q R) (List.length (hp s)) t0 cs) as [sf [l [w [NE [Rs El]]]]];
    [lia|auto|].
  exists (p ++ sf). split.
  - unfold strict_prefix. apply andb_true_iff. split.
    + apply is_prefix_spec. eauto.
    + apply negb_true_iff. apply path_eqb_neq. destruct sf; [contradiction|]. apply app_cons_length_neq.
  - unfold absf. rewrite resolve_app, Rp, Rs, El. discriminate.
Qed.

(** * The fresh chain of an inserting Add is private until that Add returns *)

Lemma rwalk_app_in h p1 : forall s p2 ns n,
  rwalk h s (p1 ++ p2) = Some ns -> resolve h s p1 = Some n -> p2 <> [] -> In n ns.
Proof.
  induction p1 as [|a p1 IH]; intros s p2 ns n W R NE; cbn in *.
  - inv R. destruct p2 as [|b p2]; [contradiction|]. cbn in W.
    destruct (get_cont h n) as [| |cs]; try discriminate.
    destruct (assoc b cs) as [c|]; try discriminate.
    destruct (rwalk h c p2); try discriminate. inv W. left; reflexivity.
  - destruct (get_cont h s) as [| |cs]; try discriminate.
    destruct (assoc a cs) as [c|]; try discriminate.
    destruct (rwalk h c (p1 ++ p2)) as [l|] eqn:Wl; try discriminate. inv W.
    right. eapply IH; eauto.
Qed.

(** in a program without Delete / handle Update, the content of a node changes
    only in a critical section of an Add standing on that node *)
Lemma tstep_frame_pos b h t h' t' x :
  tstep_gen b h t = Some (h', t') -> quiet_pc (tpc t) = true -> x < List.length h ->
  (forall v, tpc t <> PAddTCrit x v) -> (forall k r v, tpc t <> PAddSlow x k r v) ->
  get_cont h' x = get_cont h x.
Proof.
  intros ST Q Lx N1 N2. pose proof (tstep_shape _ _ _ _ _ ST) as SH.
  destruct (lockop_of t) eqn:LO.
  - destruct SH as [-> _]. destruct t as [o p hs]. cbn [tpc held top] in *.
    destruct p; cbn -[set_cont new_chain hdelete] in *; try discriminate; auto.
    + assert (x <> t) by (intros ->; eapply N1; reflexivity).
      destruct (get_cont h t); cbn -[set_cont]; auto; apply get_cont_set_neq; auto.
    + destruct (get_cont h t) as [| |cs]; cbn; auto. destruct (assoc k cs); auto.
    + assert (x <> t) by (intros ->; eapply N2; reflexivity).
      destruct (get_cont h t) as [| |cs]; cbn -[set_cont new_chain]; auto.
      * rewrite get_cont_app_l by (rewrite length_set_cont; auto). apply get_cont_set_neq; auto.
      * destruct (assoc k cs); cbn -[set_cont new_chain]; auto.
        rewrite get_cont_app_l by (rewrite length_set_cont; auto). apply get_cont_set_neq; auto.
    + destruct p as [|k r]; cbn; auto. destruct (get_cont h t) as [| |cs]; cbn; auto.
      destruct (assoc k cs); auto.
    + destruct k; auto.
    + destruct (query_visits (get_cont h t) q); auto.
    + destruct fr as [|[|[[c pre0] q0] todo] fr]; auto.
  - destruct SH as [_ [-> _]]. apply get_cont_upd_mu; auto.
  - destruct SH as [-> _]. apply get_cont_upd_mu; auto.
  - destruct SH as [_ [-> _]]. apply get_cont_upd_mu; auto.
  - destruct SH as [n0 [m [hs [_ [-> _]]]]]. destruct m; apply get_cont_upd_mu; auto.
Qed.

(** thread [i] has written (its insertion), is still walking, and the rest of
    its path leads to a leaf that already carries its value, below a node [n]
    whose write lock it holds *)
Definition cp_ok (h : heap) (log : list (nat * path * Z)) (i : nat) (t : thread) : Prop :=
  (forall o, tpc t = PStart o -> forall p v, ~ In (i, p, v) log) /\
  (forall p v t0 p', top t = CAdd p v -> In (i, p, v) log -> walk_pos t = Some (p, t0, p') ->
     exists n pn sfx l,
       In (n, MW) (held t) /\ resolve h 0 pn = Some n /\ sfx <> [] /\ resolve h n sfx = Some l /\
       resolve h t0 p' = Some l /\ get_cont h l = CLeaf v).



(** another thread's step keeps [cp_ok] of thread [ti] *)
Lemma cp_other_gen s log i j ti tj h' tj' :
  Inv s -> Excl (hp s) -> TInv s -> Forall val_ok (thr s) -> quiet_pc (tpc tj) = true -> i <> j ->
  nth_error (thr s) i = Some ti -> nth_error (thr s) j = Some tj ->
  tstep_gen false (hp s) tj = Some (h', tj') ->
  cp_ok (hp s) log i ti -> cp_ok h' log i ti.
Proof.
  intros I EX TI VO Qj D Ei Ej ST [C0 C1]. split; [exact C0|].
  assert (I' := I). destruct I' as [HO [TO AC]].
  destruct TI as [[_ [_ WO]] [_ TS]].
  pose proof (Forall_nth_error _ _ _ _ TO Ej) as Tj.
  pose proof (tstep_cont_mono _ _ _ _ _ Tj Qj ST) as CM.
  intros p v t0 p' Tp Hin W. destruct (C1 p v t0 p' Tp Hin W) as [n [pn [sfx [l [Hn [Rn [NE [Rl [Rt El]]]]]]]]].
  exists n, pn, sfx, l. repeat split; auto; try (eapply resolve_mono; eauto; fail).
  (* the leaf keeps its value: only an Add standing on it could change it, and
     such an Add holds every node on the way down, among them n *)
  rewrite <- El.
  assert (Ll : l < List.length (hp s)).
  { destruct (Nat.lt_ge_cases l (List.length (hp s))); auto. rewrite get_cont_oob in El by auto. discriminate. }
  assert (CONTRA : forall pj, walk_pos tj = Some (pj, l, []) \/ (exists k r, walk_pos tj = Some (pj, l, k :: r)) -> False).
  { intros pj WP.
    pose proof (Forall_nth_error _ _ _ _ WO Ej) as Wj.
    assert (X : exists p'', walk_pos tj = Some (pj, l, p'')).
    { destruct WP as [WP|[k [r WP]]]; eauto. }
    destruct X as [p'' WP'].
    destruct (walk_ok_pos _ _ _ _ _ Wj WP') as [pre [ns [_ [Rp [Wp F]]]]].
    assert (Epre : pre = pn ++ sfx).
    { eapply (resolve_inj (hp s) HO TS); [exact Rp|]. rewrite resolve_app, Rn. exact Rl. }
    subst pre. pose proof (rwalk_app_in _ _ _ _ _ _ Wp Rn NE) as Inn.
    rewrite Forall_forall in F. destruct (F _ Inn) as [_ [m Hm]].
    eapply (excl_pair s i j ti tj n m); eauto. }
  eapply tstep_frame_pos; eauto.
  - intros v0 Pc. pose proof (Forall_nth_error _ _ _ _ VO Ej) as V.
    unfold val_ok in V. rewrite Pc in V. cbn in V. destruct (top tj) eqn:Tj'; try contradiction.
    eapply (CONTRA p0). left. unfold walk_pos. rewrite Tj', Pc. reflexivity.
  - intros k r v0 Pc. pose proof (Forall_nth_error _ _ _ _ VO Ej) as V.
    unfold val_ok in V. rewrite Pc in V. cbn in V. destruct (top tj) eqn:Tj'; try contradiction.
    eapply (CONTRA p0). right. exists k, r. unfold walk_pos. rewrite Tj', Pc. reflexivity.
Qed.

Lemma cp_other ops s log i j ti tj h' tj' :
  forallb quiet_op ops = true -> reach ops s -> i <> j ->
  nth_error (thr s) i = Some ti -> nth_error (thr s) j = Some tj ->
  tstep_gen false (hp s) tj = Some (h', tj') ->
  cp_ok (hp s) log i ti -> cp_ok h' log i ti.
Proof.
  intros Q R D Ei Ej ST C.
  assert (QP : forallb patched_op ops = true).
  { rewrite forallb_forall in *. intros o Ho. specialize (Q o Ho). destruct o; auto; discriminate. }
  destruct (reach_AInv _ _ Q R) as [I [QS _]].
  eapply (cp_other_gen s log i j ti tj); eauto.
  - eapply reach_Excl; eauto.
  - eapply reach_TInv; eauto.
  - eapply reach_val_ok; eauto.
  - apply (Forall_nth_error _ _ _ _ QS Ej).
Qed.


Lemma is_prefix_refl r : is_prefix r r = true.
Proof. apply is_prefix_spec. exists []. rewrite app_nil_r. reflexivity. Qed.

Lemma cp_own b h log i t h' t' :
  heap_ok h -> thread_ok (List.length h) t -> walk_ok h t -> val_ok t ->
  quiet_pc (tpc t) = true -> cont_mono h h' ->
  cp_ok h log i t -> tstep_gen b h t = Some (h', t') ->
  cp_ok h' (match is_write h t with Some (p, v) => log ++ [(i, p, v)] | None => log end) i t'.
Proof.
  intros HO TO WK V Q CM [C0 C1] ST. split.
  { intros o Pc. exfalso. eapply step_not_start; eauto. }
  pose proof (tstep_shape _ _ _ _ _ ST) as SH. destruct TO as [SO [IL P]].
  destruct t as [o pc hs]. cbn [top tpc held] in *.
  intros p v t0' p'' Tp' Hin W'.
  assert (To : o = CAdd p v).
  { destruct (lockop_of (TH o pc hs)); repeat match goal with
                                            | H : _ /\ _ |- _ => destruct H
                                            | H : exists _, _ |- _ => destruct H
                                            end; subst; exact Tp'. }
  subst o.
  (* witnesses survive when no content changes and the held locks only grow *)
  assert (KEEP : forall hs2 t0 pp,
             (forall x, get_cont h' x = get_cont h x) -> (forall n, In (n, MW) hs -> In (n, MW) hs2) ->
             In (i, p, v) log -> walk_pos (TH (CAdd p v) pc hs) = Some (p, t0, pp) ->
             exists n pn sfx l, In (n, MW) hs2 /\ resolve h' 0 pn = Some n /\ sfx <> [] /\
                                resolve h' n sfx = Some l /\ resolve h' t0 pp = Some l /\ get_cont h' l = CLeaf v).
  { intros hs2 t0 pp E HS Hl Wp. destruct (C1 p v t0 pp eq_refl Hl Wp) as [n [pn [sfx [l [Hn [Rn [NE [Rl [Rt El]]]]]]]]].
    exists n, pn, sfx, l. rewrite !(resolve_ext h h' E), E. auto 10. }
  unfold is_write in Hin. cbn [top tpc] in Hin.
  destruct pc; cbn -[set_cont new_chain hdelete Nat.ltb] in SH, Q, Hin; try discriminate.
  - (* PStart *) destruct SH as [-> ->]. exfalso. eapply C0; eauto.
  - (* PAddEnter *) destruct p0 as [|k r]; cbn in SH.
    + destruct SH as [-> ->]. cbn in W'. inv W'. cbn [held].
      apply (KEEP hs _ _); [intros; apply get_cont_upd_mu; auto|auto|auto|reflexivity].
    + destruct SH as [_ [-> ->]]. cbn in W'. inv W'. cbn [held].
      apply (KEEP ((t0', MR) :: hs) _ _); [intros; apply get_cont_upd_mu; auto|intros; right; auto|auto|reflexivity].
  - (* PAddTAcq *) destruct SH as [_ [-> ->]]. cbn in W'. inv W'. cbn [held].
    apply (KEEP ((t0', MW) :: hs) _ _); [intros; apply get_cont_upd_mu; auto|intros; right; auto|auto|reflexivity].
  - (* PAddTCrit *) destruct SH as [_ ->]. cbn in W'. destruct (get_cont h t); discriminate.
  - (* PAddIRead *) destruct SH as [-> ->]. cbn [top tpc visit_override held] in *.
    destruct (get_cont h t) as [| |cs] eqn:E; cbn in W'.
    + inv W'. cbn [fst]. apply (KEEP hs _ _); [reflexivity|auto|auto|reflexivity].
    + discriminate.
    + destruct (assoc k cs) as [c|] eqn:A; cbn in W'; inv W'; cbn [fst].
      * destruct (C1 _ _ _ _ eq_refl Hin eq_refl) as [n [pn [sfx [l [Hn [Rn [NE [Rl [Rt El]]]]]]]]].
        exists n, pn, sfx, l. repeat split; auto. cbn in Rt. rewrite E, A in Rt. exact Rt.
      * apply (KEEP hs _ _); [reflexivity|auto|auto|reflexivity].
  - (* PAddIRel *) destruct SH as [n0 [m0 [hs' [Hh [-> ->]]]]]. cbn in W'. injection W' as <- <-. cbn [held].
    cbn in P. destruct P as [[r0 Hr] _]. inv Hr. inv Hh.
    apply (KEEP _ _ _); [intros; apply get_cont_upd_mu; auto| |auto|reflexivity].
    intros n [X|X]; [discriminate|auto].
  - (* PAddUpg *) destruct SH as [-> ->]. cbn in W'. inv W'. cbn [held].
    apply (KEEP hs _ _); [intros; apply get_cont_upd_mu; auto|auto|auto|reflexivity].
  - (* PAddUAcq *) destruct SH as [_ [-> ->]]. cbn in W'. inv W'. cbn [held].
    apply (KEEP ((t0', MW) :: hs) _ _); [intros; apply get_cont_upd_mu; auto|intros; right; auto|auto|reflexivity].
  - (* PAddSlow *) destruct SH as [Eh ->]. cbn [top tpc visit_override] in W'.
    unfold val_ok in V. cbn in V. subst v0.
    cbn in P. destruct P as [[r0 Hr] _]. subst hs.
    assert (Lt : t < List.length h) by (inv IL; auto).
    destruct (walk_ok_pos h _ p t (k :: r) WK eq_refl) as [pre [ns [Ep [Rp _]]]].
    (* the fresh chain *)
    assert (FRESH : forall cs0,
               h' = set_cont h t (CBranch (cs0 ++ [(k, List.length h)])) ++ new_chain (List.length h) r v ->
               assoc k cs0 = None ->
               exists n pn sfx l, In (n, MW) ((t, MW) :: r0) /\ resolve h' 0 pn = Some n /\ sfx <> [] /\
                 resolve h' n sfx = Some l /\ resolve h' (List.length h) r = Some l /\ get_cont h' l = CLeaf v).
    { intros cs0 Eh' A0.
      assert (AT : get_cont h' t = CBranch (cs0 ++ [(k, List.length h)])).
      { rewrite Eh'. rewrite get_cont_app_l by (rewrite length_set_cont; auto). apply get_cont_set_eq; auto. }
      assert (RC : resolve h' (List.length h) r = Some (List.length h + List.length r)).
      { rewrite Eh'. rewrite chain_resolve' by apply length_set_cont. rewrite is_prefix_refl. reflexivity. }
      exists t, pre, (k :: r), (List.length h + List.length r). split; [left; reflexivity|].
      split; [eapply resolve_mono; eauto|]. split; [discriminate|].
      split; [cbn; rewrite AT, (assoc_app_none _ _ _ A0); exact RC|]. split; [exact RC|].
      rewrite Eh'. destruct (chain_content' r (set_cont h t (CBranch (cs0 ++ [(k, List.length h)])))
                               (List.length h) v (List.length r) (length_set_cont _ _ _) (le_n _)) as [_ C].
      apply C. reflexivity. }
    destruct (get_cont h t) as [| |cs] eqn:E; cbn -[set_cont new_chain] in Eh, W', Hin.
    + inv W'. apply (FRESH []); auto.
    + discriminate.
    + destruct (assoc k cs) as [c|] eqn:A; cbn -[set_cont new_chain] in Eh, W', Hin; inv W'.
      * destruct (C1 _ _ _ _ eq_refl Hin eq_refl) as [n [pn [sfx [l [Hn [Rn [NE [Rl [Rt El]]]]]]]]].
        exists n, pn, sfx, l. repeat split; auto. cbn in Rt. rewrite E, A in Rt. exact Rt.
      * apply (FRESH cs); auto.
  - (* PGetEnter *) destruct SH as [_ [_ ->]]. discriminate.
  - destruct SH as [_ ->]. cbn in W'. destruct p0 as [|k r]; cbn in W'; [discriminate|].
    destruct (get_cont h t) as [| |cs]; cbn in W'; try discriminate. destruct (assoc k cs); discriminate.
  - destruct hs as [|[n m] r0]; cbn in SH.
    + destruct SH as [_ ->]. destruct k; discriminate.
    + destruct SH as [n' [m' [hs' [_ [_ ->]]]]]. discriminate.
  - destruct SH as [_ [_ ->]]. discriminate.
  - destruct SH as [_ ->]. discriminate.
  - destruct SH as [n' [m' [hs' [_ [_ ->]]]]]. discriminate.
  - destruct SH as [_ [_ ->]]. discriminate.
  - destruct SH as [_ ->]. cbn in W'. destruct (query_visits (get_cont h t) q); discriminate.
  - destruct SH as [_ ->]. discriminate.
  - destruct fr as [|[|[[c pre0] q0] todo] fr]; cbn in SH.
    + destruct SH as [_ ->]. discriminate.
    + destruct SH as [n' [m' [hs' [_ [_ ->]]]]]. discriminate.
    + destruct SH as [_ ->]. discriminate.
Qed.

Theorem reach_cp ops s log :
  forallb quiet_op ops = true -> reach_log ops s log ->
  forall i t, nth_error (thr s) i = Some t -> cp_ok (hp s) log i t.
Proof.
  intros Q R. assert (QP : forallb patched_op ops = true).
  { rewrite forallb_forall in *. intros o Ho. specialize (Q o Ho). destruct o; auto; discriminate. }
  induction R as [|s j s' tj log R IH Ej ST]; intros i t Et.
  - cbn in Et. rewrite nth_error_map in Et. destruct (nth_error ops i); inv Et. split.
    + intros o _ p v []. 
    + intros p v t0 p' _ [].
  - pose proof (reach_log_reach _ _ _ R) as Rs.
    destruct (reach_AInv _ _ Q Rs) as [[HO [TO _]] [QS _]].
    destruct (reach_TInv _ _ QP Rs) as [[_ [_ WO]] _].
    pose proof (reach_val_ok _ _ Rs) as VO.
    assert (ST0 := ST). unfold step, step_gen in ST. rewrite Ej in ST.
    destruct (tstep_gen false (hp s) tj) as [[h' tj']|] eqn:Ets; [|discriminate]. inv ST. cbn [hp thr] in *.
    pose proof (Forall_nth_error _ _ _ _ TO Ej) as Tj.
    pose proof (Forall_nth_error _ _ _ _ QS Ej) as Qj. cbn in Qj.
    destruct (Nat.eq_dec j i) as [->|D].
    + erewrite nth_error_set_nth_eq in Et by eauto. inv Et.
      eapply cp_own; eauto.
      * apply (Forall_nth_error _ _ _ _ WO Ej).
      * apply (Forall_nth_error _ _ _ _ VO Ej).
      * eapply tstep_cont_mono; eauto.
    + rewrite nth_error_set_nth_neq in Et by auto.
      assert (C : cp_ok h' log i t).
      { eapply (cp_other ops s log i j t tj); eauto. }
      destruct (is_write (hp s) tj) as [[p0 v0]|]; [|exact C].
      destruct C as [C0 C1]. split.
      * intros o Pc p v H. apply in_app_or in H. destruct H as [H|[H|[]]]; [eapply C0; eauto|].
        inv H. contradiction.
      * intros p v t0 p' Tp H W. apply in_app_or in H. destruct H as [H|[H|[]]]; [eapply C1; eauto|].
        inv H. contradiction.
Qed.

(** consequence 1: when an Add that has already inserted its chain reaches
    terminalAdd, the leaf already holds its value -- its second store changes
    nothing *)
Theorem add_rewalk_store_is_noop ops s log i t p v t0 v' :
  forallb quiet_op ops = true -> reach_log ops s log ->
  nth_error (thr s) i = Some t -> top t = CAdd p v -> tpc t = PAddTCrit t0 v' ->
  In (i, p, v) log ->
  get_cont (hp s) t0 = CLeaf v /\ absf (hp s) p = Some v.
Proof.
  intros Q R Et Tp Pc H.
  destruct (reach_cp _ _ _ Q R i t Et) as [_ C1].
  destruct (C1 p v t0 [] Tp H) as [n [pn [sfx [l [_ [_ [_ [_ [Rt El]]]]]]]]].
  { unfold walk_pos. rewrite Tp, Pc. reflexivity. }
  cbn in Rt. inv Rt. split; [exact El|].
  destruct (point_ops_on_current_node ops s i t p l [] (reach_log_reach _ _ _ R) Et) as [pre [Ep Rp]].
  { unfold walk_pos. rewrite Tp, Pc. reflexivity. }
  rewrite app_nil_r in Ep. subst pre. unfold absf. rewrite Rp, El. reflexivity.
Qed.

(** * Forward simulation to the flat specification (Add / GetLeafValue programs) *)

Definition written (log : list (nat * path * Z)) (i : nat) : bool :=
  existsb (fun e => Nat.eqb (fst (fst e)) i) log.

Definition leaf_val (c : content) : option Z := match c with CLeaf v => Some v | _ => None end.

(** [lin_event h log i t = Some r]: the next step of thread [i] is the
    linearization point of its call, which will return [r] *)
Definition lin_event (h : heap) (log : list (nat * path * Z)) (i : nat) (t : thread) : option cres :=
  match top t, tpc t with
  | CAdd _ _, PAddTCrit t0 _ =>
      if is_branch_c (get_cont h t0) then Some (XAdd false)
      else if written log i then None else Some (XAdd true)
  | CAdd _ _, PAddIRead t0 _ _ _ =>
      match get_cont h t0 with CLeaf _ => Some (XAdd false) | _ => None end
  | CAdd _ _, PAddSlow t0 k _ _ =>
      match get_cont h t0 with
      | CLeaf _ => Some (XAdd false)
      | CNil => Some (XAdd true)
      | CBranch cs => match assoc k cs with None => Some (XAdd true) | Some _ => None end
      end
  | CGetVal _, PHValRead n => Some (XVal (leaf_val (get_cont h n)))
  | CGetVal _, PGetRead t0 (k :: _) =>
      match get_cont h t0 with
      | CBranch cs => match assoc k cs with None => Some (XVal None) | Some _ => None end
      | _ => Some (XVal None)
      end
  | _, _ => None
  end.

(** the flat prefix-free map (the specification of C09, [CTreeCheck.fstep], on
    functions): one sequential step with its answer *)
Definition conflicting (m : path -> option Z) (p : path) : Prop :=
  exists q, (strict_prefix q p = true \/ strict_prefix p q = true) /\ m q <> None.

Definition spec_step (m : path -> option Z) (o : cop) (r : cres) (m' : path -> option Z) : Prop :=
  (exists p v, o = CAdd p v /\ r = XAdd true /\ conflict_free m p /\ forall q, m' q = upd m p v q) \/
  (exists p v, o = CAdd p v /\ r = XAdd false /\ conflicting m p /\ forall q, m' q = m q) \/
  (exists p, o = CGetVal p /\ r = XVal (m p) /\ forall q, m' q = m q).

Inductive spec_run : (path -> option Z) -> list (cop * cres) -> (path -> option Z) -> Prop :=
| sr_nil m : spec_run m [] m
| sr_snoc m l m1 o r m2 : spec_run m l m1 -> spec_step m1 o r m2 -> spec_run m (l ++ [(o, r)]) m2.

Lemma spec_step_ext m1 m2 o r m' :
  (forall q, m1 q = m2 q) -> spec_step m1 o r m' -> spec_step m2 o r m'.
Proof.
  intros E [[p [v [-> [-> [C U]]]]]|[[p [v [-> [-> [C U]]]]]|[p [-> [-> U]]]]].
  - left. exists p, v. repeat split; auto.
    + intros q H. rewrite <- E. apply C; auto.
    + intros q. rewrite U. unfold upd. rewrite E. reflexivity.
  - right; left. exists p, v. repeat split; auto.
    + destruct C as [q [H N]]. exists q. split; auto. rewrite <- E. exact N.
    + intros q. rewrite U. apply E.
  - right; right. exists p. rewrite (E p). repeat split; auto. intros q. rewrite U. apply E.
Qed.

(** nothing stored conflicts with the path below which a fresh chain is inserted *)
Lemma prefix_cases (pre : path) k r q :
  is_prefix q (pre ++ k :: r) = true -> is_prefix (pre ++ [k]) q = false -> is_prefix q pre = true.
Proof.
  revert q. induction pre as [|a pre IH]; intros q H1 H2; cbn in *.
  - destruct q as [|b q]; [reflexivity|]. cbn in *. apply andb_true_iff in H1. destruct H1 as [E _].
    rewrite String.eqb_sym in H2. rewrite E in H2. cbn in H2. discriminate.
  - destruct q as [|b q]; [reflexivity|]. cbn in *. apply andb_true_iff in H1. destruct H1 as [E H1].
    rewrite String.eqb_sym in H2. rewrite E in H2. cbn in H2. rewrite E. cbn. apply IH; auto.
Qed.

Lemma conflict_free_insert h pre t0 k r :
  resolve h 0 pre = Some t0 ->
  match get_cont h t0 with
  | CNil => True
  | CBranch cs => assoc k cs = None
  | CLeaf _ => False
  end ->
  conflict_free (absf h) (pre ++ k :: r).
Proof.
  intros R C q H.
  assert (BELOW : forall s, absf h ((pre ++ [k]) ++ s) = None).
  { intros s. unfold absf. rewrite <- app_assoc. cbn [app]. rewrite resolve_app, R. cbn.
    destruct (get_cont h t0) as [| |cs]; [reflexivity|contradiction|]. rewrite C. reflexivity. }
  destruct (is_prefix (pre ++ [k]) q) eqn:IP.
  - apply is_prefix_spec in IP. destruct IP as [s ->]. apply BELOW.
  - destruct H as [H|H].
    + (* q above the new path and not through the new edge: q is a prefix of pre *)
      unfold strict_prefix in H. apply andb_true_iff in H. destruct H as [H _].
      pose proof (prefix_cases _ _ _ _ H IP) as HP. apply is_prefix_spec in HP. destruct HP as [s Es].
      unfold absf. rewrite Es in R. rewrite resolve_app in R.
      destruct (resolve h 0 q) as [m|]; [|reflexivity].
      destruct s as [|a s]; cbn in R.
      * inv R. destruct (get_cont h t0); try reflexivity. contradiction.
      * destruct (get_cont h m) as [| |cs]; try discriminate; reflexivity.
    + (* q below the new path goes through the new edge *)
      apply strict_prefix_split in H. destruct H as [s [_ ->]].
      assert (is_prefix (pre ++ [k]) ((pre ++ k :: r) ++ s) = true).
      { apply is_prefix_spec. exists (r ++ s). rewrite <- !app_assoc. reflexivity. }
      congruence.
Qed.

Lemma written_In ops s log i t :
  reach_log ops s log -> nth_error (thr s) i = Some t -> written log i = true ->
  exists p v, top t = CAdd p v /\ In (i, p, v) log.
Proof.
  intros R Et W. unfold written in W. apply existsb_exists in W. destruct W as [[[j p] v] [H E]].
  cbn in E. apply Nat.eqb_eq in E. subst j. exists p, v. split; [|exact H].
  pose proof (log_ops _ _ _ R _ _ _ H) as O.
  pose proof (nth_error_top _ _ _ _ (reach_log_reach _ _ _ R) Et) as O'. congruence.
Qed.

Lemma quiet_patched ops : forallb quiet_op ops = true -> forallb patched_op ops = true.
Proof.
  intros Q. rewrite forallb_forall in *. intros o Ho. specialize (Q o Ho). destruct o; auto; discriminate.
Qed.

(** the heart of the simulation: a linearization step is a step of the
    specification with the same answer; every other step leaves the abstract
    state as it is *)
Lemma lin_step_sim ops s log i t s' :
  forallb quiet_op ops = true -> reach_log ops s log ->
  nth_error (thr s) i = Some t -> step s i = Some s' ->
  match lin_event (hp s) log i t with
  | Some r => spec_step (absf (hp s)) (top t) r (absf (hp s'))
  | None => forall q, absf (hp s') q = absf (hp s) q
  end.
Proof.
  intros Q RL Et ST. pose proof (reach_log_reach _ _ _ RL) as R.
  pose proof (quiet_patched _ Q) as QP.
  pose proof (reach_TInv _ _ QP R) as TI. pose proof (reach_val_ok _ _ R) as VO.
  destruct (reach_AInv _ _ Q R) as [_ [QS _]].
  pose proof (Forall_nth_error _ _ _ _ QS Et) as Qt. cbn in Qt.
  pose proof (Forall_nth_error _ _ _ _ VO Et) as V.
  pose proof (step_abs_effect s i s' t TI VO ST Et) as EF.
  (* the two possible effects in a quiet program *)
  assert (EFF : (is_write (hp s) t = None /\ forall q, absf (hp s') q = absf (hp s) q) \/
                (exists p v, is_write (hp s) t = Some (p, v) /\ top t = CAdd p v /\
                             forall q, absf (hp s') q = upd (absf (hp s)) p v q)).
  { destruct EF as [W E|p v W Tp E|n v Pc _|D _]; [left; auto|right; eauto| |].
    - rewrite Pc in Qt. discriminate.
    - destruct (tpc t); discriminate. }
  clear EF.
  unfold lin_event. destruct (top t) as [p v|p| | | | |] eqn:Tp.
  - (* Add *)
    destruct (tpc t) eqn:Pc;
      try (destruct EFF as [[_ E]|[p9 [v9 [W _]]]]; [exact E|];
           unfold is_write in W; rewrite Tp, Pc in W; discriminate).
    + (* terminalAdd *)
      unfold val_ok in V. rewrite Pc, Tp in V. cbn in V. subst v0.
      destruct (is_branch_c (get_cont (hp s) t0)) eqn:B.
      * right; left. exists p, v. split; [auto|]. split; [auto|]. split.
        -- destruct (get_cont (hp s) t0) as [| |cs] eqn:E; try discriminate.
           destruct (add_failure_point_branch_at ops s i t p v t0 v cs Q R Et Tp Pc E) as [q [H N]].
           exists q. auto.
        -- destruct EFF as [[_ E]|[p9 [v9 [W _]]]]; [exact E|].
           unfold is_write in W. rewrite Tp, Pc, B in W. discriminate.
      * destruct (written log i) eqn:Wr.
        -- destruct (written_In _ _ _ _ _ RL Et Wr) as [p1 [v1 [Tp1 H1]]]. rewrite Tp in Tp1. inv Tp1.
           destruct (add_rewalk_store_is_noop ops s log i t p1 v1 t0 v1 Q RL Et Tp Pc H1) as [_ A].
           destruct EFF as [[_ E]|[p9 [v9 [W [Tp0 E]]]]]; [exact E|]. try rewrite Tp in Tp0. inv Tp0.
           intros q. rewrite E. unfold upd. destruct (path_eqb_spec q p9) as [->|]; auto.
        -- left. exists p, v. split; [auto|]. split; [auto|].
           eapply add_success_point; eauto.
    + (* intermediateAdd's read *)
      destruct (get_cont (hp s) t0) as [|w|cs] eqn:E.
      * destruct EFF as [[_ E']|[p9 [v9 [W _]]]]; [exact E'|]. unfold is_write in W. rewrite Tp, Pc in W. discriminate.
      * right; left. exists p, v. split; [auto|]. split; [auto|]. split.
        -- destruct (add_failure_point_leaf_above ops s i t p v t0 k r v0 R Et Tp (or_introl Pc)) as [q [H N]]; [eauto|].
           exists q. auto.
        -- destruct EFF as [[_ E']|[p9 [v9 [W _]]]]; [exact E'|]. unfold is_write in W. rewrite Tp, Pc in W. discriminate.
      * destruct EFF as [[_ E']|[p9 [v9 [W _]]]]; [exact E'|]. unfold is_write in W. rewrite Tp, Pc in W. discriminate.
    + (* slowAdd *)
      unfold val_ok in V. rewrite Pc, Tp in V. cbn in V. subst v0.
      destruct (walk_pos_resolve s i t p t0 (k :: r) TI Et) as [pre [Ep Rp]].
      { unfold walk_pos. rewrite Tp, Pc. reflexivity. }
      assert (INS : match get_cont (hp s) t0 with
                    | CNil => True | CBranch cs => assoc k cs = None | CLeaf _ => False end ->
                    spec_step (absf (hp s)) (CAdd p v) (XAdd true) (absf (hp s'))).
      { intros C. left. exists p, v. split; [auto|]. split; [auto|]. split.
        - subst p. eapply conflict_free_insert; eauto.
        - destruct EFF as [[W _]|[p9 [v9 [W [Tp0 E']]]]].
          + unfold is_write in W. rewrite Tp, Pc in W.
            destruct (get_cont (hp s) t0) as [| |cs]; try discriminate; try contradiction.
            rewrite C in W. discriminate.
          + try rewrite Tp in Tp0. inv Tp0. exact E'. }
      destruct (get_cont (hp s) t0) as [|w|cs] eqn:E.
      * apply INS. exact I.
      * right; left. exists p, v. split; [auto|]. split; [auto|]. split.
        -- destruct (add_failure_point_leaf_above ops s i t p v t0 k r v R Et Tp (or_intror Pc)) as [q [H N]]; [eauto|].
           exists q. auto.
        -- destruct EFF as [[_ E']|[p9 [v9 [W _]]]]; [exact E'|].
           unfold is_write in W. rewrite Tp, Pc, E in W. discriminate.
      * destruct (assoc k cs) eqn:A.
        -- destruct EFF as [[_ E']|[p9 [v9 [W _]]]]; [exact E'|].
           unfold is_write in W. rewrite Tp, Pc, E, A in W. discriminate.
        -- apply INS; auto.
  - (* GetLeafValue *)
    assert (SAME : forall q, absf (hp s') q = absf (hp s) q).
    { destruct EFF as [[_ E]|[p9 [v9 [W Tp0]]]]; [exact E|]. destruct Tp0 as [Tp0 _]. try rewrite Tp in Tp0; discriminate. }
    destruct (tpc t) eqn:Pc; try exact SAME.
    + (* Get's walk *)
      destruct p0 as [|k r]; [exact SAME|].
      assert (MISS : match get_cont (hp s) t0 with CBranch cs => assoc k cs = None | _ => True end ->
                     spec_step (absf (hp s)) (CGetVal p) (XVal None) (absf (hp s'))).
      { intros M. right; right. exists p. split; [auto|]. split; [|exact SAME].
        rewrite (get_miss_point ops s i t p t0 k r R Et Tp Pc M). reflexivity. }
      destruct (get_cont (hp s) t0) as [| |cs] eqn:E; try (apply MISS; exact I).
      destruct (assoc k cs) eqn:A; [exact SAME|]. apply MISS; auto.
    + (* Value() *)
      right; right. exists p. split; [auto|]. split; [|exact SAME].
      pose proof (Forall_nth_error _ _ _ _ (reach_gv_ok _ _ Q R) Et) as G.
      unfold gv_ok in G. rewrite Tp, Pc in G. cbn in G. unfold absf. rewrite G. reflexivity.
  - destruct EFF as [[_ E]|[p9 [v9 [W [Tp0 _]]]]]; [exact E|]. try rewrite Tp in Tp0; discriminate.
  - destruct EFF as [[_ E]|[p9 [v9 [W [Tp0 _]]]]]; [exact E|]. try rewrite Tp in Tp0; discriminate.
  - destruct EFF as [[_ E]|[p9 [v9 [W [Tp0 _]]]]]; [exact E|]. try rewrite Tp in Tp0; discriminate.
  - destruct EFF as [[_ E]|[p9 [v9 [W [Tp0 _]]]]]; [exact E|]. try rewrite Tp in Tp0; discriminate.
  - destruct EFF as [[_ E]|[p9 [v9 [W [Tp0 _]]]]]; [exact E|]. try rewrite Tp in Tp0; discriminate.
Qed.

(** runs with the write log and the sequence of linearization events (thread, answer) *)
Inductive reach_lin (ops : list cop) : state -> list (nat * path * Z) -> list (nat * cres) -> Prop :=
| rli_init : reach_lin ops (init_state ops) [] []
| rli_step s i s' t log ev :
    reach_lin ops s log ev -> nth_error (thr s) i = Some t -> step s i = Some s' ->
    reach_lin ops s'
      (match is_write (hp s) t with Some (p, v) => log ++ [(i, p, v)] | None => log end)
      (match lin_event (hp s) log i t with Some r => ev ++ [(i, r)] | None => ev end).

Lemma reach_lin_log ops s log ev : reach_lin ops s log ev -> reach_log ops s log.
Proof. induction 1; [constructor|econstructor; eauto]. Qed.

Lemma reach_reach_lin ops s : reach ops s -> exists log ev, reach_lin ops s log ev.
Proof.
  induction 1 as [|s i s' R [log [ev IH]] ST]; [exists [], []; constructor|].
  unfold step, step_gen in ST. destruct (nth_error (thr s) i) as [t|] eqn:Et; [|discriminate].
  eexists. eexists. eapply (rli_step ops s i s' t); eauto. unfold step, step_gen. rewrite Et. exact ST.
Qed.

Definition ev_ops (ops : list cop) (ev : list (nat * cres)) : list (cop * cres) :=
  map (fun e => (nth (fst e) ops (CGetVal []), snd e)) ev.

(** Forward simulation: the linearization events of any run, in the order in
    which they happen, with the answers the calls return, form a run of the
    sequential specification from the empty map -- and that run ends in the
    abstraction of the current heap. *)
Theorem lin_simulation ops s log ev :
  forallb quiet_op ops = true -> reach_lin ops s log ev ->
  exists m, spec_run (fun _ => None) (ev_ops ops ev) m /\ forall q, m q = absf (hp s) q.
Proof.
  intros Q R. induction R as [|s i s' t log ev R [m [SR EQ]] Et ST].
  - exists (fun _ => None). split; [constructor|]. intros q. symmetry. apply absf_init.
  - pose proof (lin_step_sim ops s log i t s' Q (reach_lin_log _ _ _ _ R) Et ST) as SIM.
    destruct (lin_event (hp s) log i t) as [r|].
    + exists (absf (hp s')). split; [|reflexivity].
      unfold ev_ops. rewrite map_app. cbn [map fst snd].
      eapply sr_snoc; [exact SR|].
      assert (TopEq : nth i ops (CGetVal []) = top t).
      { apply nth_error_nth. eapply nth_error_top; eauto.
        eapply reach_log_reach. eapply reach_lin_log; eauto. }
      rewrite TopEq. eapply spec_step_ext; [|exact SIM]. intros q. symmetry. apply EQ.
    + exists m. split; [exact SR|]. intros q. rewrite SIM. apply EQ.
Qed.

(** * Every returned call has exactly one linearization event, with its answer *)

(** program counters of the program of each call *)
Definition fam (o : cop) (p : pc) : bool :=
  match p with
  | PStart _ | PDone _ | PUnwind (UDone _) => true
  | PAddEnter _ _ _ | PAddTAcq _ _ | PAddTCrit _ _ | PAddIRead _ _ _ _ | PAddIRel _ _ _ _
  | PAddUpg _ _ _ _ | PAddUAcq _ _ _ _ | PAddSlow _ _ _ _ =>
      match o with CAdd _ _ => true | _ => false end
  | PGetEnter _ _ | PGetRead _ _ | PUnwind (UVal _) =>
      match o with CGetVal _ => true | _ => false end
  | PHVal _ | PHValRead _ =>
      match o with CGetVal _ | CHValue _ => true | _ => false end
  | PHRel _ =>
      match o with CGetVal _ | CHValue _ | CHUpdate _ _ => true | _ => false end
  | PHUpd _ _ | PHUpdAcq _ _ | PHUpdWrite _ _ => match o with CHUpdate _ _ => true | _ => false end
  | PDel _ | PDelAcq _ | PDelCrit _ => match o with CDeleteUnlocked _ => true | _ => false end
  | PQEnter _ _ _ _ _ | PQRead _ _ _ _ _ | PQVisit _ _ _ _ | PQNext _ _ =>
      match o with CQuery _ _ => true | _ => false end
  | PLDel _ | PLDelAcq _ | PLVisit _ _ _ | PLNext _ | PLEnter _ _ _ | PLCAcq _ _ _
  | PLRet _ _ _ | PLBack _ _ _ => match o with CDelete _ => true | _ => false end
  end.

Definition fam_ok (t : thread) : Prop :=
  fam (top t) (tpc t) = true /\ (forall o, tpc t = PStart o -> o = top t).

Lemma tstep_fam_ok b h t h' t' : fam_ok t -> tstep_gen b h t = Some (h', t') -> fam_ok t'.
Proof.
  intros [F S0] ST. split; [|intros o Pc; exfalso; eapply step_not_start; eauto].
  pose proof (tstep_shape _ _ _ _ _ ST) as SH.
  destruct t as [o p hs]. cbn [tpc top held] in *.
  destruct (lockop_of (TH o p hs)) eqn:LO.
  - destruct SH as [_ ->]. cbn [tpc top].
    destruct p; cbn -[Nat.ltb hdelete set_cont new_chain] in *; try discriminate; auto;
    try (rewrite (S0 _ eq_refl));
    repeat (first
              [ match goal with |- context [start_pc ?a ?b] => destruct b end
              | match goal with |- context [match get_cont ?a ?b with _ => _ end] => destruct (get_cont a b) end
              | match goal with |- context [match assoc ?a ?b with _ => _ end] => destruct (assoc a b) end
              | match goal with |- context [if Nat.ltb ?a ?b then _ else _] => destruct (Nat.ltb a b) end
              | match goal with |- context [if Nat.eqb ?a ?b then _ else _] => destruct (Nat.eqb a b) end
              | match goal with |- context [match query_visits ?a ?b with _ => _ end] => destruct (query_visits a b) end
              | match goal with |- context [if heads_all ?a then _ else _] => destruct (heads_all a) end
              | match goal with |- context [match strip_glob ?a with _ => _ end] => destruct (strip_glob a) end
              | match goal with |- context [match dtodo ?a with _ => _ end] => destruct (dtodo a) as [|[? ?] ?] end
              | match goal with |- context [match ?x with _ => _ end] => is_var x; destruct x end ];
            cbn -[Nat.ltb hdelete set_cont new_chain] in *; try discriminate; auto).
  - destruct SH as [_ [_ ->]]. cbn [tpc top]. destruct p; cbn in *; try discriminate; auto; qfin.
  - destruct SH as [_ ->]. cbn [tpc top]. destruct p; cbn in *; try discriminate; auto; qfin.
  - destruct SH as [_ [_ ->]]. cbn [tpc top]. destruct p; cbn in *; try discriminate; auto; qfin.
  - destruct SH as [n [m [hs' [_ [_ ->]]]]]. cbn [tpc top]. destruct p; cbn in *; try discriminate; auto; qfin.
Qed.

Lemma reach_fam_ok ops s : reach ops s -> Forall fam_ok (thr s).
Proof.
  induction 1 as [|s i s' R IH ST].
  - cbn. apply Forall_forall. intros t Ht. apply in_map_iff in Ht. destruct Ht as [o [<- _]].
    split; [reflexivity|]. cbn. intros o' E. inv E. reflexivity.
  - unfold step, step_gen in ST.
    destruct (nth_error (thr s) i) as [t|] eqn:Et; [|discriminate].
    destruct (tstep_gen false (hp s) t) as [[h' t']|] eqn:Ets; [|discriminate]. inv ST. cbn [thr].
    apply Forall_forall. intros t0 H0. apply In_set_nth in H0. destruct H0 as [->|H0].
    + eapply tstep_fam_ok; [|exact Ets]. apply (Forall_nth_error _ _ _ _ IH Et).
    + rewrite Forall_forall in IH. auto.
Qed.

Definition res_of (p : pc) : option cres :=
  match p with PUnwind (UDone r) | PDone r | PHRel r => Some r | _ => None end.

Definition point_op (o : cop) : bool :=
  match o with CAdd _ _ | CGetVal _ => true | _ => false end.

(** an Add / GetLeafValue comes to an answer only through its linearization
    step (or, for an Add that inserted its chain earlier, through the final
    store of that chain's leaf) *)
Lemma enters_res b h log i t h' t' r :
  fam_ok t -> point_op (top t) = true ->
  tstep_gen b h t = Some (h', t') -> res_of (tpc t') = Some r ->
  res_of (tpc t) = Some r \/ lin_event h log i t = Some r \/
  (r = XAdd true /\ written log i = true).
Proof.
  intros [F S0] PO ST. pose proof (tstep_shape _ _ _ _ _ ST) as SH.
  destruct t as [o p hs]. unfold lin_event. cbn [tpc top held] in *.
  destruct (lockop_of (TH o p hs)) eqn:LO.
  - destruct SH as [_ ->]. cbn [tpc].
    destruct o; try discriminate PO;
    destruct p; cbn -[Nat.ltb hdelete set_cont new_chain] in *; try discriminate; auto;
    try (rewrite (S0 _ eq_refl); cbn; discriminate);
    repeat (first
              [ match goal with |- context [match get_cont ?a ?b with _ => _ end] => destruct (get_cont a b) end
              | match goal with |- context [match assoc ?a ?b with _ => _ end] => destruct (assoc a b) end
              | match goal with |- context [if written ?a ?b then _ else _] => destruct (written a b) end
              | match goal with |- context [match ?x with _ => _ end] => is_var x; destruct x end ];
            cbn -[Nat.ltb hdelete set_cont new_chain] in *; try discriminate; auto);
    try (intros X; inv X; auto; fail).
  - destruct SH as [_ [_ ->]]. cbn [tpc]. destruct p; cbn in *; try discriminate; auto; qfin.
  - destruct SH as [_ ->]. cbn [tpc]. destruct p; cbn in *; try discriminate; auto; qfin.
  - destruct SH as [_ [_ ->]]. cbn [tpc]. destruct p; cbn in *; try discriminate; auto; qfin.
  - destruct SH as [n [m [hs' [_ [_ ->]]]]]. cbn [tpc]. destruct p; cbn in *; try discriminate; auto; qfin.
Qed.

Lemma write_lin h log i t p v :
  is_write h t = Some (p, v) -> lin_event h log i t = Some (XAdd true) \/ written log i = true.
Proof.
  unfold is_write, lin_event. destruct (top t); try discriminate. destruct (tpc t); try discriminate.
  - destruct (is_branch_c (get_cont h t0)); [discriminate|]. destruct (written log i); auto.
  - destruct (get_cont h t0) as [| |cs]; try discriminate; auto. destruct (assoc k cs); [discriminate|auto].
Qed.

Lemma written_app log i j p v : written log i = true -> written (log ++ [(j, p, v)]) i = true.
Proof. unfold written. rewrite existsb_app. intros ->. reflexivity. Qed.

Lemma written_self log i p v : written (log ++ [(i, p, v)]) i = true.
Proof. unfold written. rewrite existsb_app. cbn. rewrite Nat.eqb_refl. apply orb_true_iff. right. reflexivity. Qed.

Lemma In_written log i p v : In (i, p, v) log -> written log i = true.
Proof.
  intros H. unfold written. apply existsb_exists. exists (i, p, v). split; auto. apply Nat.eqb_refl.
Qed.

(** an Add that has written has its (successful) event *)
Lemma written_event ops s log ev :
  reach_lin ops s log ev -> forall i p v, In (i, p, v) log -> In (i, XAdd true) ev.
Proof.
  induction 1 as [|s j s' t log ev R IH Et ST]; intros i p v H; [destruct H|].
  assert (GROW : forall e, In e ev ->
            In e (match lin_event (hp s) log j t with Some r => ev ++ [(j, r)] | None => ev end)).
  { intros e He. destruct (lin_event (hp s) log j t); [apply in_or_app; auto|auto]. }
  destruct (is_write (hp s) t) as [[p0 v0]|] eqn:W; [|apply GROW; eauto].
  apply in_app_or in H. destruct H as [H|[H|[]]]; [apply GROW; eauto|]. inv H.
  destruct (write_lin _ log i _ _ _ W) as [L|Wr].
  - rewrite L. apply in_or_app. right. left. reflexivity.
  - apply GROW. destruct (written_In _ _ _ _ _ (reach_lin_log _ _ _ _ R) Et Wr) as [p1 [v1 [_ H1]]]. eauto.
Qed.

(** every Add / GetLeafValue that has its answer has the corresponding event *)
Theorem lin_complete ops s log ev :
  reach_lin ops s log ev -> forall i t r,
  nth_error (thr s) i = Some t -> point_op (top t) = true -> res_of (tpc t) = Some r -> In (i, r) ev.
Proof.
  induction 1 as [|s j s' tj log ev R IH Ej ST]; intros i t r Et PO RS.
  - cbn in Et. rewrite nth_error_map in Et. destruct (nth_error ops i); inv Et. discriminate.
  - assert (GROW : forall e, In e ev ->
              In e (match lin_event (hp s) log j tj with Some r => ev ++ [(j, r)] | None => ev end)).
    { intros e He. destruct (lin_event (hp s) log j tj); [apply in_or_app; auto|auto]. }
    pose proof (reach_log_reach _ _ _ (reach_lin_log _ _ _ _ R)) as Rs.
    assert (ST0 := ST). unfold step, step_gen in ST. rewrite Ej in ST.
    destruct (tstep_gen false (hp s) tj) as [[h' tj']|] eqn:Ets; [|discriminate]. inv ST. cbn [thr] in Et.
    destruct (Nat.eq_dec j i) as [->|D].
    + erewrite nth_error_set_nth_eq in Et by eauto. inv Et.
      pose proof (Forall_nth_error _ _ _ _ (reach_fam_ok _ _ Rs) Ej) as FO.
      assert (Tt : top t = top tj).
      { pose proof (tstep_shape _ _ _ _ _ Ets) as SH.
        destruct (lockop_of tj); repeat match goal with
                                        | H : _ /\ _ |- _ => destruct H
                                        | H : exists _, _ |- _ => destruct H
                                        end; subst; reflexivity. }
      rewrite Tt in PO.
      destruct (enters_res _ _ log i _ _ _ _ FO PO Ets RS) as [R0|[L|[-> Wr]]].
      * apply GROW. eapply IH; eauto.
      * rewrite L. apply in_or_app. right. left. reflexivity.
      * apply GROW. destruct (written_In _ _ _ _ _ (reach_lin_log _ _ _ _ R) Ej Wr) as [p1 [v1 [_ H1]]].
        eapply written_event; eauto.
    + rewrite nth_error_set_nth_neq in Et by auto. apply GROW. eapply IH; eauto.
Qed.

Lemma res_closed b h t h' t' r :
  res_of (tpc t) = Some r -> tstep_gen b h t = Some (h', t') -> res_of (tpc t') = Some r.
Proof.
  intros RS ST. pose proof (tstep_shape _ _ _ _ _ ST) as SH.
  destruct t as [o p hs]. cbn [tpc top held] in *.
  destruct p; try discriminate RS.
  - unfold tstep_gen in ST. cbn in ST. discriminate.
  - destruct k; try discriminate RS. cbn in RS. inv RS. unfold lockop_of in SH. cbn [tpc held] in SH.
    destruct hs as [|[n m] hs].
    + destruct SH as [_ ->]. reflexivity.
    + destruct SH as [n' [m' [hs' [_ [_ ->]]]]]. reflexivity.
  - cbn in RS. inv RS. destruct SH as [n' [m' [hs' [_ [_ ->]]]]]. reflexivity.
Qed.

Lemma lin_post b h log i t h' t' r :
  lin_event h log i t = Some r -> tstep_gen b h t = Some (h', t') ->
  res_of (tpc t') = Some r \/ exists p v, is_write h t = Some (p, v).
Proof.
  intros L ST. pose proof (tstep_shape _ _ _ _ _ ST) as SH.
  destruct t as [o p hs]. unfold lin_event, is_write in *. cbn [tpc top held] in *.
  destruct o; try discriminate L; destruct p; try discriminate L;
    unfold lockop_of in SH; cbn -[set_cont new_chain] in SH.
  - destruct SH as [_ ->]. cbn [tpc].
    destruct (get_cont h t); cbn in *; try (inv L; auto; fail);
      destruct (written log i); inv L; auto.
  - destruct SH as [_ ->]. cbn [tpc]. destruct (get_cont h t); cbn in *; try discriminate. inv L. auto.
  - destruct SH as [_ ->]. cbn [tpc]. destruct (get_cont h t) as [| |cs]; cbn -[set_cont new_chain] in *.
    + right. eauto.
    + inv L. auto.
    + destruct (assoc k cs); [discriminate|]. right. eauto.
  - destruct p as [|k r0]; [discriminate|]. cbn in SH. destruct SH as [_ ->]. cbn [tpc].
    destruct (get_cont h t) as [| |cs]; cbn in *; try (inv L; auto; fail).
    destruct (assoc k cs); [discriminate|]. inv L. auto.
  - destruct SH as [_ ->]. cbn. inv L. auto.
Qed.

(** after its linearization point a call has no second one *)
Lemma no_second ops s log i t :
  forallb quiet_op ops = true -> reach_log ops s log -> nth_error (thr s) i = Some t ->
  (res_of (tpc t) <> None \/ written log i = true) -> lin_event (hp s) log i t = None.
Proof.
  intros Q R Et [RS|Wr].
  - unfold lin_event. destruct (top t); auto; destruct (tpc t); auto; try (exfalso; apply RS; reflexivity);
      cbn in RS; try contradiction.
  - destruct (written_In _ _ _ _ _ R Et Wr) as [p [v [Tp H]]].
    destruct (reach_cp _ _ _ Q R i t Et) as [_ C1].
    unfold lin_event. rewrite Tp. destruct (tpc t) eqn:Pc; auto.
    + destruct (C1 p v t0 [] Tp H) as [n [pn [sfx [l [_ [_ [_ [_ [Rt El]]]]]]]]].
      { unfold walk_pos. rewrite Tp, Pc. reflexivity. }
      cbn in Rt. inv Rt. rewrite El. cbn. rewrite Wr. reflexivity.
    + destruct (C1 p v t0 (k :: r) Tp H) as [n [pn [sfx [l [_ [_ [_ [_ [Rt El]]]]]]]]].
      { unfold walk_pos. rewrite Tp, Pc. reflexivity. }
      cbn in Rt. destruct (get_cont (hp s) t0); try discriminate. reflexivity.
    + destruct (C1 p v t0 (k :: r) Tp H) as [n [pn [sfx [l [_ [_ [_ [_ [Rt El]]]]]]]]].
      { unfold walk_pos. rewrite Tp, Pc. reflexivity. }
      cbn in Rt. destruct (get_cont (hp s) t0) as [| |cs]; try discriminate.
      destruct (assoc k cs); [reflexivity|discriminate].
Qed.

(** a thread that has an event is past its linearization point *)
Lemma event_post ops s log ev :
  forallb quiet_op ops = true -> reach_lin ops s log ev ->
  forall i t r, nth_error (thr s) i = Some t -> In (i, r) ev ->
  res_of (tpc t) <> None \/ written log i = true.
Proof.
  intros Q R. induction R as [|s j s' tj log ev R IH Ej ST]; intros i t r Et H; [destruct H|].
  assert (WG : forall k, written log k = true ->
            written (match is_write (hp s) tj with Some (p, v) => log ++ [(j, p, v)] | None => log end) k = true).
  { intros k W. destruct (is_write (hp s) tj) as [[p v]|]; [apply written_app; auto|auto]. }
  assert (ST0 := ST). unfold step, step_gen in ST. rewrite Ej in ST.
  destruct (tstep_gen false (hp s) tj) as [[h' tj']|] eqn:Ets; [|discriminate]. inv ST. cbn [thr] in Et.
  destruct (Nat.eq_dec j i) as [->|D].
  - erewrite nth_error_set_nth_eq in Et by eauto. inv Et.
    assert (OLD : In (i, r) ev -> res_of (tpc t) <> None \/
              written (match is_write (hp s) tj with Some (p, v) => log ++ [(i, p, v)] | None => log end) i = true).
    { intros H0. destruct (IH i tj r Ej H0) as [RS|W]; [|right; auto].
      left. destruct (res_of (tpc tj)) as [r0|] eqn:E0; [|contradiction].
      rewrite (res_closed _ _ _ _ _ _ E0 Ets). discriminate. }
    destruct (lin_event (hp s) log i tj) as [r0|] eqn:L; [|auto].
    apply in_app_or in H. destruct H as [H|[H|[]]]; [auto|]. inv H.
    destruct (lin_post _ _ _ _ _ _ _ _ L Ets) as [RS|[p [v W]]].
    + left. rewrite RS. discriminate.
    + right. rewrite W. apply written_self.
  - rewrite nth_error_set_nth_neq in Et by auto.
    assert (H0 : In (i, r) ev).
    { destruct (lin_event (hp s) log j tj); [|exact H].
      apply in_app_or in H. destruct H as [H|[H|[]]]; [exact H|]. inv H. contradiction. }
    destruct (IH i t r Et H0) as [RS|W]; [left; exact RS|right; auto].
Qed.

(** no call is linearized twice *)
Theorem lin_unique ops s log ev :
  forallb quiet_op ops = true -> reach_lin ops s log ev -> NoDup (map fst ev).
Proof.
  intros Q R. induction R as [|s j s' tj log ev R IH Ej ST]; [constructor|].
  destruct (lin_event (hp s) log j tj) as [r|] eqn:L; [|exact IH].
  rewrite map_app. cbn. apply NoDup_app_intro_single; [exact IH|].
  intros H. apply in_map_iff in H. destruct H as [[j' r0] [E H]]. cbn in E. subst j'.
  pose proof (event_post _ _ _ _ Q R j tj r0 Ej H) as P.
  rewrite (no_second _ _ _ _ _ Q (reach_lin_log _ _ _ _ R) Ej P) in L. discriminate.
Qed.

(** a call that has an event has been invoked *)
Lemma event_started ops s log ev :
  forallb quiet_op ops = true -> reach_lin ops s log ev ->
  forall i t r o, nth_error (thr s) i = Some t -> In (i, r) ev -> tpc t <> PStart o.
Proof.
  intros Q R i t r o Et H Pc.
  destruct (event_post _ _ _ _ Q R i t r Et H) as [RS|W].
  - rewrite Pc in RS. apply RS. reflexivity.
  - destruct (written_In _ _ _ _ _ (reach_lin_log _ _ _ _ R) Et W) as [p [v [_ Hl]]].
    destruct (reach_cp _ _ _ Q (reach_lin_log _ _ _ _ R) i t Et) as [C0 _]. eapply C0; eauto.
Qed.

(** ** real-time order: continuing a run only appends events *)
Inductive run_lin (ops : list cop) :
  state * list (nat * path * Z) * list (nat * cres) ->
  state * list (nat * path * Z) * list (nat * cres) -> Prop :=
| rl_refl c : run_lin ops c c
| rl_more c s i s' t log ev :
    run_lin ops c (s, log, ev) -> nth_error (thr s) i = Some t -> step s i = Some s' ->
    run_lin ops c (s',
      (match is_write (hp s) t with Some (p, v) => log ++ [(i, p, v)] | None => log end),
      (match lin_event (hp s) log i t with Some r => ev ++ [(i, r)] | None => ev end)).

Lemma run_lin_reach ops s1 log1 ev1 s2 log2 ev2 :
  reach_lin ops s1 log1 ev1 -> run_lin ops (s1, log1, ev1) (s2, log2, ev2) -> reach_lin ops s2 log2 ev2.
Proof.
  intros R H. remember (s1, log1, ev1) as c1. remember (s2, log2, ev2) as c2.
  revert s2 log2 ev2 Heqc2. induction H as [c|c s i s' t log ev H IH Et ST]; intros s2 log2 ev2 E2.
  - subst c. inv E2. exact R.
  - inv E2. eapply rli_step; eauto.
Qed.

Lemma run_lin_prefix ops c1 c2 : run_lin ops c1 c2 -> exists rest, snd c2 = snd c1 ++ rest.
Proof.
  induction 1 as [c|c s i s' t log ev H [rest IH] Et ST]; [exists []; rewrite app_nil_r; auto|].
  cbn in *. destruct (lin_event (hp s) log i t) as [r|].
  - exists (rest ++ [(i, r)]). rewrite IH, app_assoc. reflexivity.
  - exists rest. exact IH.
Qed.

(** if call a has returned when call b has not yet been invoked, then a is
    linearized before b *)
Theorem lin_real_time ops s1 log1 ev1 s2 log2 ev2 a ta ra b tb o rb :
  forallb quiet_op ops = true ->
  reach_lin ops s1 log1 ev1 -> run_lin ops (s1, log1, ev1) (s2, log2, ev2) ->
  nth_error (thr s1) a = Some ta -> point_op (top ta) = true -> tpc ta = PDone ra ->
  nth_error (thr s1) b = Some tb -> tpc tb = PStart o ->
  In (b, rb) ev2 ->
  exists l1 l2 l3, ev2 = l1 ++ (a, ra) :: l2 ++ (b, rb) :: l3.
Proof.
  intros Q R1 RUN Ea PO Da Eb Sb Hb.
  destruct (run_lin_prefix _ _ _ RUN) as [rest E]. cbn in E. subst ev2.
  assert (Ha : In (a, ra) ev1).
  { eapply lin_complete; eauto. rewrite Da. reflexivity. }
  assert (Nb : ~ In (b, rb) ev1).
  { intros H. eapply (event_started _ _ _ _ Q R1 b tb rb o); eauto. }
  apply in_app_or in Hb. destruct Hb as [Hb|Hb]; [contradiction|].
  apply in_split in Ha. destruct Ha as [l1 [l2 ->]].
  apply in_split in Hb. destruct Hb as [l3 [l4 ->]].
  exists l1, (l2 ++ l3), l4. rewrite <- !app_assoc. cbn. reflexivity.
Qed.

(** * Query stability, completeness half (programs without Delete / handle Update) *)

Definition items_pending (its : list qitem) (pth : path) : Prop :=
  exists c pre qc s, In (c, pre, qc) its /\ pth = pre ++ s /\ qmatch qc s = true.

(** every leaf of [S0] that the query selects is reported already, or is about
    to be, or lies below a node the query still has to visit *)
Definition cov_pc (S0 : path -> Prop) (q : path) (p : pc) : Prop :=
  forall pth, S0 pth -> qmatch q pth = true ->
  match p with
  | PQEnter t0 pre qr acc fr | PQRead t0 pre qr acc fr =>
      In pth (map fst acc) \/ items_pending ((t0, pre, qr) :: List.concat fr) pth
  | PQVisit pre v acc fr => In pth (map fst acc) \/ pth = pre \/ items_pending (List.concat fr) pth
  | PQNext acc fr => In pth (map fst acc) \/ items_pending (List.concat fr) pth
  | PDone (XLeaves acc) | PUnwind (UDone (XLeaves acc)) => In pth (map fst acc)
  | _ => True
  end.

Lemma items_pending_incl l1 l2 pth : incl l1 l2 -> items_pending l1 pth -> items_pending l2 pth.
Proof. intros I [c [pre [qc [s [H X]]]]]. exists c, pre, qc, s. split; auto. Qed.

Lemma qmatch_leaf_visits qr v : qmatch qr [] = true -> query_visits (CLeaf v) qr = Some v.
Proof.
  destruct qr as [|k r]; cbn; [reflexivity|]. destruct (is_glob k); [|discriminate].
  destruct r; [reflexivity|discriminate].
Qed.

(** the child through which a selected leaf is reached is among the items *)
Lemma qmatch_child_item cs pre qr a s c :
  NoDup (keys cs) -> assoc a cs = Some c -> qmatch qr (a :: s) = true ->
  exists qc, In (c, pre ++ [a], qc) (query_items (CBranch cs) pre qr) /\ qmatch qc s = true.
Proof.
  intros ND A M. pose proof (assoc_In _ _ _ A) as I.
  assert (ALL : forall r' : path, In ((c, pre ++ [a], r') : qitem) (map (fun kc : string * nat => ((snd kc, pre ++ [fst kc], r') : qitem)) cs)).
  { intros r'. apply in_map_iff. exists (a, c). split; [reflexivity|exact I]. }
  unfold query_items. destruct qr as [|k r]; [exists []; split; [apply ALL|reflexivity]|].
  cbn in M. destruct (is_glob k) eqn:G.
  - exists r. split; [apply ALL|]. destruct r; [reflexivity|exact M].
  - apply andb_true_iff in M. destruct M as [E M]. apply String.eqb_eq in E. subst k.
    rewrite A. exists r. split; [left; reflexivity|exact M].
Qed.

Lemma cov_step b h t h' t' (S0 : path -> Prop) q :
  keys_nodup h -> q_ok h t -> fam_ok t -> (forall pth, S0 pth -> leaf_at h pth) ->
  top t = CQuery q None -> cov_pc S0 q (tpc t) -> tstep_gen b h t = Some (h', t') ->
  cov_pc S0 q (tpc t').
Proof.
  intros KN QO [FA S1] LF Tp CV ST. pose proof (tstep_shape _ _ _ _ _ ST) as SH.
  destruct t as [o p hs]. cbn [top tpc held] in *. subst o.
  intros pth Hs Hm. specialize (CV pth Hs Hm). specialize (LF pth Hs).
  unfold q_ok in QO. cbn [tpc] in QO.
  destruct p; cbn -[Nat.ltb] in FA; try discriminate FA;
    unfold lockop_of in SH; cbn -[Nat.ltb set_cont new_chain] in SH.
  - (* PStart *) destruct SH as [_ ->]. rewrite (S1 _ eq_refl). cbn.
    right. exists 0, [], q, pth. split; [left; reflexivity|]. split; [reflexivity|exact Hm].
  - (* PDone *) unfold tstep_gen in ST. cbn in ST. discriminate.
  - (* PUnwind *) destruct k; [|discriminate FA]. destruct hs as [|[n m] hs].
    + destruct SH as [_ ->]. cbn. destruct r; exact I || exact CV.
    + destruct SH as [n' [m' [hs' [_ [_ ->]]]]]. cbn. destruct r; exact I || exact CV.
  - (* PQEnter *) destruct SH as [_ [_ ->]]. exact CV.
  - (* PQRead *) destruct SH as [_ ->]. cbn [tpc visit_override].
    destruct QO as [Rp _].
    destruct CV as [CV|[c [pre0 [qc [s [[X|X] [Ep M]]]]]]].
    + destruct (query_visits (get_cont h t) q0); cbn; auto.
    + inv X. (* the leaf lies below the node being read *)
      destruct LF as [l [w [Rl El]]]. rewrite resolve_app, Rp in Rl.
      destruct s as [|a s].
      * cbn in Rl. inv Rl. rewrite El. rewrite (qmatch_leaf_visits _ w M). cbn.
        right; left. rewrite app_nil_r. reflexivity.
      * cbn in Rl. destruct (get_cont h c) as [| |cs] eqn:E; try discriminate.
        destruct (assoc a cs) as [c'|] eqn:A; [|discriminate]. cbn.
        destruct (qmatch_child_item cs pre0 qc a s c' (KN _ _ E) A M) as [qc' [I' M']].
        right. exists c', (pre0 ++ [a]), qc', s. split; [cbn; apply in_or_app; left; exact I'|].
        split; [rewrite <- app_assoc; reflexivity|exact M'].
    + (* below another pending item *)
      assert (P : items_pending (List.concat fr) pth) by (exists c, pre0, qc, s; auto).
      destruct (query_visits (get_cont h t) q0); cbn.
      * right; right. exact P.
      * right. eapply items_pending_incl; [|exact P]. intros x Hx. cbn. apply in_or_app. right. exact Hx.
  - (* PQVisit *) destruct SH as [_ ->]. cbn [tpc visit_override]. cbn.
    rewrite map_app. cbn. destruct CV as [CV|[CV|CV]].
    + left. apply in_or_app. left. exact CV.
    + left. apply in_or_app. right. left. auto.
    + right. exact CV.
  - (* PQNext *) destruct fr as [|[|[[c pre0] q0] todo] fr]; cbn in SH.
    + destruct SH as [_ ->]. cbn. destruct CV as [CV|[c [pre0 [qc [s [[] _]]]]]]. exact CV.
    + destruct SH as [n' [m' [hs' [_ [_ ->]]]]]. cbn. exact CV.
    + destruct SH as [_ ->]. cbn. exact CV.
Qed.

Inductive steps : state -> state -> Prop :=
| steps_refl s : steps s s
| steps_more s1 s i s' : steps s1 s -> step s i = Some s' -> steps s1 s'.

Lemma absf_leaf_at h p : absf h p <> None -> leaf_at h p.
Proof.
  unfold absf, leaf_at. destruct (resolve h 0 p) as [n|]; [|contradiction].
  destruct (get_cont h n) eqn:E; try contradiction. eauto.
Qed.

(** Query stability, completeness half: a Query / Walk (whose visitor does not
    fail) reports every leaf that matches it and was stored when the query was
    invoked -- in programs without Delete / handle Update such a leaf stays
    stored, so these are the leaves present during its whole execution. *)
Theorem query_reports_all ops s1 s2 i t1 t2 q acc :
  forallb quiet_op ops = true -> reach ops s1 -> steps s1 s2 ->
  nth_error (thr s1) i = Some t1 -> tpc t1 = PStart (CQuery q None) ->
  nth_error (thr s2) i = Some t2 -> tpc t2 = PDone (XLeaves acc) ->
  forall pth, absf (hp s1) pth <> None -> qmatch q pth = true -> In pth (map fst acc).
Proof.
  intros Q R1 RUN E1 P1 E2 P2.
  set (S0 := fun pth => leaf_at (hp s1) pth).
  assert (QP := quiet_patched _ Q).
  assert (G : reach ops s2 /\ (forall pth, S0 pth -> leaf_at (hp s2) pth) /\
              exists t, nth_error (thr s2) i = Some t /\ top t = CQuery q None /\ cov_pc S0 q (tpc t)).
  { clear E2 P2. induction RUN as [s|s1 s j s' RUN IH ST].
    - split; [exact R1|]. split; [auto|]. exists t1. split; [exact E1|]. split.
      + destruct (Forall_nth_error _ _ _ _ (reach_fam_ok _ _ R1) E1) as [_ S1]. symmetry. apply S1. exact P1.
      + rewrite P1. intros pth _ _. exact I.
    - destruct (IH R1 E1) as [R [LF [t [Et [Tp CV]]]]].
      split; [econstructor; eauto|].
      destruct (reach_AInv _ _ Q R) as [[HO [TO _]] [QS _]].
      destruct (reach_TInv _ _ QP R) as [_ [_ [KN _]]].
      assert (ST0 := ST). unfold step, step_gen in ST.
      destruct (nth_error (thr s) j) as [tj|] eqn:Ej; [|discriminate].
      destruct (tstep_gen false (hp s) tj) as [[h' tj']|] eqn:Ets; [|discriminate]. inv ST. cbn [hp thr].
      pose proof (Forall_nth_error _ _ _ _ TO Ej) as Tj.
      pose proof (Forall_nth_error _ _ _ _ QS Ej) as Qj. cbn in Qj.
      pose proof (tstep_cont_mono _ _ _ _ _ Tj Qj Ets) as CM.
      split; [intros pth Hp; eapply leaf_at_mono; eauto|].
      destruct (Nat.eq_dec j i) as [->|D].
      + rewrite Et in Ej. inv Ej. exists tj'. split; [eapply nth_error_set_nth_eq; eauto|].
        split.
        * pose proof (tstep_shape _ _ _ _ _ Ets) as SH.
          destruct (lockop_of tj); repeat match goal with
                                          | H : _ /\ _ |- _ => destruct H
                                          | H : exists _, _ |- _ => destruct H
                                          end; subst; exact Tp.
        * eapply cov_step; eauto.
          -- apply (Forall_nth_error _ _ _ _ (reach_q_ok _ _ Q R) Et).
          -- apply (Forall_nth_error _ _ _ _ (reach_fam_ok _ _ R) Et).
      + exists t. split; [rewrite nth_error_set_nth_neq by auto; exact Et|auto]. }
  destruct G as [_ [_ [t [Et [_ CV]]]]]. rewrite E2 in Et. inv Et. rewrite P2 in CV.
  intros pth NN M. apply (CV pth); auto. unfold S0. apply absf_leaf_at. exact NN.
Qed.

(** * With Delete: everything stored was written by an Add of the program *)

Definition no_hupd_op (o : cop) : bool :=
  match o with CHUpdate _ _ | CDeleteUnlocked _ => false | _ => true end.

Theorem stored_was_added ops s log :
  forallb no_hupd_op ops = true -> reach_log ops s log ->
  forall q v, absf (hp s) q = Some v -> exists i, In (i, q, v) log.
Proof.
  intros Q R. assert (QP : forallb patched_op ops = true).
  { rewrite forallb_forall in *. intros o Ho. specialize (Q o Ho). destruct o; auto; discriminate. }
  induction R as [|s i s' t log R IH Et ST]; intros q v A.
  - rewrite absf_init in A. discriminate.
  - pose proof (reach_log_reach _ _ _ R) as Rs.
    assert (GROW : forall j, In (j, q, v) log ->
              exists j', In (j', q, v) (match is_write (hp s) t with Some (p0, v0) => log ++ [(i, p0, v0)] | None => log end)).
    { intros j H. exists j. destruct (is_write (hp s) t) as [[p0 v0]|]; [apply in_or_app; auto|auto]. }
    destruct (step_abs_effect s i s' t (reach_TInv _ _ QP Rs) (reach_val_ok _ _ Rs) ST Et)
      as [W E|p0 v0 W Tp E|n v0 Pc _|D E].
    + rewrite E in A. destruct (IH _ _ A) as [j H]. eauto.
    + rewrite W. rewrite E in A. unfold upd in A. destruct (path_eqb_spec q p0) as [->|NE].
      * inv A. exists i. apply in_or_app. right. left. reflexivity.
      * destruct (IH _ _ A) as [j H]. exists j. apply in_or_app. auto.
    + (* no Leaf.Update in the program *)
      exfalso. destruct (Forall_nth_error _ _ _ _ (reach_fam_ok _ _ Rs) Et) as [F _].
      rewrite Pc in F. cbn in F.
      pose proof (nth_error_top _ _ _ _ Rs Et) as O. rewrite forallb_forall in Q.
      specialize (Q _ (nth_error_In _ _ O)). destruct (top t); try discriminate.
    + destruct (E q) as [E'|E']; rewrite E' in A; [|discriminate].
      destruct (IH _ _ A) as [j H]. eauto.
Qed.

(** while a Delete is inside the tree nobody else changes the stored content
    (programs without Leaf.Update through a handle): Delete's removals are the
    only abstract changes between its first and its last critical section *)
Theorem delete_excludes_writers ops s d td j s' tj :
  forallb no_hupd_op ops = true -> reach ops s ->
  nth_error (thr s) d = Some td -> in_delete (tpc td) = true ->
  d <> j -> nth_error (thr s) j = Some tj -> step s j = Some s' ->
  forall q, absf (hp s') q = absf (hp s) q.
Proof.
  intros Q R Ed D NE Ej ST.
  assert (QP : forallb patched_op ops = true).
  { rewrite forallb_forall in *. intros o Ho. specialize (Q o Ho). destruct o; auto; discriminate. }
  destruct (delete_atomic_patched ops s d j td tj R NE Ed Ej D) as [NH NR].
  destruct (reach_Inv _ _ R) as [HO [TO _]].
  pose proof (Forall_nth_error _ _ _ _ TO Ej) as [_ [_ Pj]].
  destruct (step_abs_effect s j s' tj (reach_TInv _ _ QP R) (reach_val_ok _ _ R) ST Ej)
    as [W E|p0 v0 W Tp E|n v0 Pc _|Dj E].
  - exact E.
  - (* an Add at its write step is inside a critical section: it holds a lock *)
    exfalso. unfold is_write in W. rewrite Tp in W.
    destruct (tpc tj) eqn:Pc; try discriminate; cbn in Pj; destruct Pj as [[r0 Hr] _];
      rewrite NH in Hr by reflexivity; discriminate.
  - exfalso. destruct (Forall_nth_error _ _ _ _ (reach_fam_ok _ _ R) Ej) as [F _].
    rewrite Pc in F. cbn in F.
    pose proof (nth_error_top _ _ _ _ R Ej) as O. rewrite forallb_forall in Q.
    specialize (Q _ (nth_error_In _ _ O)). destruct (top tj); try discriminate.
  - (* a second Delete inside the tree would hold the root too *)
    exfalso. eapply (NR MW). eapply in_delete_holds_root; eauto.
    eapply Forall_nth_error; eauto.
Qed.

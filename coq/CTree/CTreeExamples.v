(** Non-vacuity of the C09 theorems: concrete histories whose trees meet the
    hypotheses ([wf_tree], stored leaves, selecting queries and deletes). *)
From Gnmi Require Import Base.Prelude CTree.CTreeModel CTree.CTreeProofs CTree.CTreeTheorems.
Open Scope string_scope.
Open Scope Z_scope.

Definition P (l : list string) : path := l.
Definition h1 : list (@mut Z) :=
  [ MAdd (P ["a"; "b"]) 1; MAdd (P ["a"; "c"; "d"]) 2; MAdd (P ["e"]) 3;
    MAdd (P ["a"]) 9 (* refused: a is a branch *);
    MAdd (P ["e"; "x"]) 9 (* refused: e is a leaf *);
    MDel (P ["a"; "*"; "d"]) (fun v => v <? 5);  (* removes a/c/d and prunes a/c *)
    MAdd (P ["a"; "c"]) 4 ].                       (* lands where the pruned branch was *)

Example h1_leaves :
  walk_sorted (run h1) = [(["a"; "b"], 1); (["a"; "c"], 4); (["e"], 3)].
Proof. vm_compute. reflexivity. Qed.

Example h1_wf : wf_tree (run h1).
Proof. apply reachable_wf. Qed.

Example h1_query : query (run h1) ["a"; "*"] <> [].
Proof. vm_compute. discriminate. Qed.

Example h1_delete_selects :
  snd (delete_cond (run h1) ["*"; "*"] (fun v => 3 <? v)) = [(["a"; "c"], 4)].
Proof. vm_compute. reflexivity. Qed.

(** the hypothesis of [delete_through_leaf] is met: leaf at e, delete e/x *)
Example h1_through_leaf :
  lookup (run h1) ["e"] = Some 3 /\
  delete_cond (run h1) ["e"; "x"] (fun _ => true) = (run h1, []).
Proof. vm_compute. split; reflexivity. Qed.

(** a refused add is a conflict in the sense of [conflict_free] *)
Example h1_conflict : ~ conflict_free (run h1) ["e"; "x"].
Proof.
  intros H. specialize (H ["e"] 3 eq_refl). destruct H as [H _]. vm_compute in H. discriminate.
Qed.

(** ** leaf handles (CTreeHandle.v): the hypotheses of the handle theorems are met *)
From Gnmi Require Import CTree.CTreeCheck CTree.CTreeHandle CTree.CTreeHandleProofs.

Definition hh1 : list hop :=
  [HOp (OAdd (P ["a"; "b"]) 1); HOp (OAdd (P ["a"; "c"]) 2); HHold 0 (P ["a"; "b"]); HHold 1 (P ["a"; "c"])].

Example hh1_live :
  sget (fst (snd (hmstate hh1))) 0 = HLive (P ["a"; "b"]) /\ lookup (fst (hmstate hh1)) (P ["a"; "b"]) = Some 1.
Proof. vm_compute. split; reflexivity. Qed.

(** update through the live handle, delete the leaf, re-add it, write through the
    detached handle: the re-added leaf keeps its own value; a second handle taken on
    the same leaf before the delete shares the detached node *)
Example hh1_story :
  hmrun (hmstate hh1)
    [HHold 2 (P ["a"; "b"]); HUpdate 0 7; HOp (OGetLeafValue (P ["a"; "b"]));
     HOp (ODelete (P ["a"; "b"]) CAll); HOp (OAdd (P ["a"; "b"]) 5);
     HUpdate 0 9; HValue 0; HValue 2; HOp (OGetLeafValue (P ["a"; "b"])); HValue 1]
  = [RBool true; RBool true; RKind (KLeaf 7);
     RPaths [P ["a"; "b"]]; RAdd true;
     RBool true; RKind (KLeaf 9); RKind (KLeaf 9); RKind (KLeaf 5); RKind (KLeaf 2)].
Proof. vm_compute. reflexivity. Qed.

(** Executable linearizability checker (Wing-Gong search) with its soundness
    proof.  Generic in the specification: [sstep s o r] is the list of states
    the sequential specification may be in after operation [o] answered [r]
    in state [s] (empty: that answer is not allowed in [s]).

    A history is a list of completed operations with the ticks (values of one
    global atomic counter) of their invocation and response.  Operation [a]
    precedes [b] when [a] responded before [b] was invoked; operations of one
    thread are sequential, so program order is included in this order. *)
From Coq Require Import List Arith Lia Permutation Bool.
Import ListNotations.

Section Lin.
Context {St Op Rt : Type}.
Variable sstep : St -> Op -> Rt -> list St.
(** [pure o r]: a hint that answering [r] to [o] leaves the specification
    state unchanged.  Such an operation, once it is minimal and its answer is
    allowed, is linearized at once instead of being tried in every position
    (this only prunes the search; soundness does not depend on the hint). *)
Variable pure : Op -> Rt -> bool.

Record opr := OPR { o_tid : nat; o_inv : nat; o_res : nat; o_op : Op; o_ret : Rt }.

Definition precedes (a b : opr) : Prop := o_res a < o_inv b.
Definition precedesb (a b : opr) : bool := Nat.ltb (o_res a) (o_inv b).

(** a sequential run of the specification through the operations in order *)
Inductive run : St -> list opr -> St -> Prop :=
| run_nil s : run s [] s
| run_cons s s' sf a l :
    In s' (sstep s (o_op a) (o_ret a)) -> run s' l sf -> run s (a :: l) sf.

(** [l] never places an operation after one that it precedes in real time *)
Inductive respects : list opr -> Prop :=
| resp_nil : respects []
| resp_cons a l : Forall (fun b => ~ precedes b a) l -> respects l -> respects (a :: l).

(** [h] is linearizable from [s0], ending in a state accepted by [fin] *)
Definition linearizable (s0 : St) (h : list opr) (fin : St -> Prop) : Prop :=
  exists l sf, Permutation l h /\ respects l /\ run s0 l sf /\ fin sf.

(** ** the checker *)

(** every way of picking one element, with the others *)
Fixpoint picks {A} (l : list A) : list (A * list A) :=
  match l with
  | [] => []
  | x :: l' => (x, l') :: map (fun yl => (fst yl, x :: snd yl)) (picks l')
  end.

(** [existsb] with a short-circuit that survives call-by-value evaluation
    ([orb]/[andb] are ordinary functions for [vm_compute]: both arguments are
    evaluated). *)
Fixpoint anyb {A} (f : A -> bool) (l : list A) : bool :=
  match l with
  | [] => false
  | x :: l' => if f x then true else anyb f l'
  end.

Lemma anyb_exists {A} (f : A -> bool) l : anyb f l = true -> exists x, In x l /\ f x = true.
Proof.
  induction l as [|x l IH]; cbn; [discriminate|].
  destruct (f x) eqn:E; intros H.
  - exists x; auto.
  - destruct (IH H) as [y [Hy Fy]]. exists y; auto.
Qed.

Definition is_nil {A} (l : list A) : bool := match l with [] => true | _ => false end.

Definition minimal (a : opr) (rest : list opr) : bool :=
  forallb (fun b => negb (precedesb b a)) rest.

Fixpoint lin_search (fuel : nat) (s : St) (pend : list opr) (fin : St -> bool) : bool :=
  match pend with
  | [] => fin s
  | _ :: _ =>
      match fuel with
      | O => false
      | S f =>
          let try := fun ar =>
                     if minimal (fst ar) (snd ar)
                     then anyb (fun s' => lin_search f s' (snd ar) fin)
                               (sstep s (o_op (fst ar)) (o_ret (fst ar)))
                     else false in
          match find (fun ar => minimal (fst ar) (snd ar)
                                && pure (o_op (fst ar)) (o_ret (fst ar))
                                && negb (is_nil (sstep s (o_op (fst ar)) (o_ret (fst ar)))))
                     (picks pend) with
          | Some ar => try ar
          | None => anyb try (picks pend)
          end
      end
  end.

Definition lin_check (s0 : St) (h : list opr) (fin : St -> bool) : bool :=
  lin_search (List.length h) s0 h fin.

(** ** soundness *)

Lemma picks_perm {A} (l : list A) x r : In (x, r) (picks l) -> Permutation (x :: r) l.
Proof.
  revert x r; induction l as [|y l IH]; cbn; intros x r H; [contradiction|].
  destruct H as [H|H].
  - inversion H; subst; reflexivity.
  - apply in_map_iff in H. destruct H as [[z zl] [E Hin]]. cbn in E. inversion E; subst x r.
    specialize (IH _ _ Hin).
    transitivity (y :: z :: zl); [apply perm_swap|]. constructor. exact IH.
Qed.

Lemma minimal_sound a rest : minimal a rest = true -> Forall (fun b => ~ precedes b a) rest.
Proof.
  unfold minimal. rewrite forallb_forall. intros H. apply Forall_forall. intros b Hb.
  specialize (H b Hb). unfold precedesb in H. unfold precedes.
  apply negb_true_iff in H. apply Nat.ltb_ge in H. lia.
Qed.

Lemma respects_perm_tail a l l' :
  Forall (fun b => ~ precedes b a) l -> Permutation l' l -> Forall (fun b => ~ precedes b a) l'.
Proof.
  intros H P. apply Forall_forall. intros b Hb. rewrite Forall_forall in H. apply H.
  eapply Permutation_in; eauto.
Qed.

Lemma lin_search_sound fuel : forall s pend fin,
  lin_search fuel s pend fin = true ->
  exists l sf, Permutation l pend /\ respects l /\ run s l sf /\ fin sf = true.
Proof.
  induction fuel as [|f IH]; intros s pend fin H.
  - destruct pend; cbn in H; [|discriminate].
    exists [], s. repeat split; auto; constructor.
  - destruct pend as [|p0 pend0].
    + cbn in H. exists [], s. repeat split; auto; constructor.
    + remember (p0 :: pend0) as pend. cbn in H. rewrite Heqpend in H. rewrite <- Heqpend in H.
      assert (H' : exists ar, In ar (picks pend) /\
                 (if minimal (fst ar) (snd ar)
                  then anyb (fun s' => lin_search f s' (snd ar) fin)
                         (sstep s (o_op (fst ar)) (o_ret (fst ar))) else false) = true).
      { subst pend.
        match type of H with
        | (match ?F with _ => _ end) = true => destruct F as [ar|] eqn:EF
        end.
        - apply find_some in EF. exists ar. split; [apply EF|exact H].
        - apply anyb_exists in H. exact H. }
      clear H. destruct H' as [[a rest] [Hin Hc]]. cbn [fst snd] in Hc.
      destruct (minimal a rest) eqn:Hmin; [|discriminate]. rename Hc into Hex.
      apply anyb_exists in Hex. destruct Hex as [s' [Hs' Hrec]].
      destruct (IH _ _ _ Hrec) as [l [sf [P [Rs [Rn F]]]]].
      exists (a :: l), sf. repeat split.
      * transitivity (a :: rest); [constructor; exact P|]. apply picks_perm; exact Hin.
      * constructor; [|exact Rs]. eapply respects_perm_tail; [apply minimal_sound; eauto|exact P].
      * econstructor; eauto.
      * exact F.
Qed.

Theorem lin_check_sound s0 h fin :
  lin_check s0 h fin = true -> linearizable s0 h (fun s => fin s = true).
Proof.
  unfold lin_check, linearizable. intros H.
  destruct (lin_search_sound _ _ _ _ H) as [l [sf [P [Rs [Rn F]]]]].
  exists l, sf. auto.
Qed.

(** a linearization is a sequential order: with no overlap at all (every
    operation responds before the next is invoked) the only linearization is
    the history itself *)
Lemma respects_sequential_head a l :
  respects (a :: l) -> Forall (fun b => ~ precedes b a) l.
Proof. inversion 1; auto. Qed.

End Lin.

Arguments OPR {Op Rt} _ _ _ _ _.

(** Proofs about LatencyModel.v: every statistic an update writes for a window is
    bounded by the samples of the slots the window retains; the average up to
    the scaling factor (the configured precision).  All on unbounded [Z]. *)
From Gnmi Require Import Base.Prelude Latency.LatencyModel.
From Coq Require Import Sorting.Sorted Lia.
Local Open Scope Z_scope.

(** * Arithmetic *)

Definition sumq (sf : Z) (S : list Z) : Z := fold_right (fun d a => Z.quot d sf + a) 0 S.

Lemma sumq_app sf a b : sumq sf (a ++ b) = sumq sf a + sumq sf b.
Proof. unfold sumq. induction a as [|x a IH]; cbn [app fold_right]; lia. Qed.

Lemma quot_scaled_bounds d sf : 1 <= sf -> d - sf < sf * Z.quot d sf < d + sf.
Proof.
  intros Hsf. pose proof (Z.quot_rem' d sf) as Hq.
  pose proof (Z.rem_bound_abs d sf ltac:(lia)) as Hr. lia.
Qed.

Lemma sumq_ge sf c S : (forall d, In d S -> c <= Z.quot d sf) -> Z.of_nat (List.length S) * c <= sumq sf S.
Proof.
  induction S as [|x S IH]; intros H; [cbn; lia|].
  cbn [sumq fold_right List.length]. fold (sumq sf S).
  specialize (IH (fun d Hd => H d (or_intror Hd))). specialize (H x (or_introl eq_refl)). lia.
Qed.

Lemma sumq_le sf c S : (forall d, In d S -> Z.quot d sf <= c) -> sumq sf S <= Z.of_nat (List.length S) * c.
Proof.
  induction S as [|x S IH]; intros H; [cbn; lia|].
  cbn [sumq fold_right List.length]. fold (sumq sf S).
  specialize (IH (fun d Hd => H d (or_intror Hd))). specialize (H x (or_introl eq_refl)). lia.
Qed.

(** the truncated mean of the scaled samples, scaled back, stays within the
    sample bounds widened by the scaling factor (strictly) *)
Lemma avg_bounds sf S lo hi :
  1 <= sf -> S <> [] -> (forall d, In d S -> lo <= d <= hi) ->
  lo - sf < Z.quot (sumq sf S) (Z.of_nat (List.length S)) * sf < hi + sf.
Proof.
  intros Hsf Hne Hb.
  set (n := Z.of_nat (List.length S)). set (T := sumq sf S). set (A := Z.quot T n).
  assert (Hn : 1 <= n) by (subst n; destruct S; [contradiction|cbn [List.length]; lia]).
  pose proof (Z.quot_rem' T n) as Hq. pose proof (Z.rem_bound_abs T n ltac:(lia)) as Hr.
  fold A in Hq.
  assert (Hs : forall d, In d S -> lo - sf < sf * Z.quot d sf < hi + sf).
  { intros d Hd. pose proof (quot_scaled_bounds d sf Hsf). specialize (Hb d Hd). lia. }
  split.
  - destruct (Z_lt_le_dec (lo - sf) (A * sf)) as [|Hc]; [assumption|exfalso].
    assert (Hall : forall d, In d S -> A + 1 <= Z.quot d sf).
    { intros d Hd. specialize (Hs d Hd). nia. }
    pose proof (sumq_ge sf (A + 1) S Hall) as Hsum. fold n in Hsum. fold T in Hsum. lia.
  - destruct (Z_lt_le_dec (A * sf) (hi + sf)) as [|Hc]; [assumption|exfalso].
    assert (Hall : forall d, In d S -> Z.quot d sf <= A - 1).
    { intros d Hd. specialize (Hs d Hd). nia. }
    pose proof (sumq_le sf (A - 1) S Hall) as Hsum. fold n in Hsum. fold T in Hsum. lia.
Qed.

(** * Invariants *)

(** a closed slot summarises its (non-empty) sample list *)
Record slot_ok (sf : Z) (s : slot) : Prop := {
  so_ne : sl_samples s <> [];
  so_count : sl_count s = Z.of_nat (List.length (sl_samples s));
  so_total : sl_total s = sumq sf (sl_samples s);
  so_max : sl_max s = 0 \/ In (sl_max s) (sl_samples s);
  so_min : In (sl_min s) (sl_samples s)
}.

(** the accumulators between two updates *)
Record acc_ok (l : lat) : Prop := {
  ao_count : l_count l = Z.of_nat (List.length (l_samples l));
  ao_total : l_total l = sumq (l_sf l) (l_samples l);
  ao_max : l_max l = 0 \/ In (l_max l) (l_samples l);
  ao_min : (l_samples l = [] /\ l_min l = 0) \/ In (l_min l) (l_samples l)
}.

Definition tot (ss : list slot) : Z := fold_right (fun s a => sl_total s + a) 0 ss.
Definition cnt (ss : list slot) : Z := fold_right (fun s a => sl_count s + a) 0 ss.

Definition by_end (a b : slot) : Prop := sl_end a <= sl_end b.

Record win_ok (sf : Z) (w : window) : Prop := {
  wo_sf : w_sf w = sf;
  wo_slots : Forall (slot_ok sf) (w_slots w);
  wo_total : w_total w = tot (w_slots w);
  wo_count : w_count w = cnt (w_slots w);
  wo_sorted : StronglySorted by_end (w_slots w)
}.

(** [T]: no slot ends after [T] (the time of the last update) *)
Definition lat_inv (T : Z) (l : lat) : Prop :=
  1 <= l_sf l /\ acc_ok l /\ Forall (win_ok (l_sf l)) (l_windows l) /\
  Forall (fun w => Forall (fun s => sl_end s <= T) (w_slots w)) (l_windows l).

Lemma lat_new_inv sizes p T : 0 <= p -> lat_inv T (lat_new sizes p).
Proof.
  intros Hp. unfold lat_new. cbv zeta. set (sf := if Z.eqb p 0 then 1 else p).
  assert (Hsf : 1 <= sf) by (subst sf; destruct (Z.eqb_spec p 0); lia).
  split; [exact Hsf|]. split.
  { constructor; cbn; auto. }
  split; apply Forall_forall; intros w Hw; apply in_map_iff in Hw; destruct Hw as (sz & <- & _).
  - constructor; cbn; auto; constructor.
  - constructor.
Qed.

Lemma lat_compute_inv T l now ts : lat_inv T l -> lat_inv T (lat_compute l now ts).
Proof.
  intros (Hsf & [Hc Ht Hmx Hmn] & Hw & He). unfold lat_compute. cbv zeta.
  split; [exact Hsf|]. split; [|split; assumption].
  constructor; cbn [l_count l_samples l_total l_sf l_max l_min].
  - rewrite app_length. cbn. lia.
  - rewrite sumq_app. cbn. lia.
  - destruct (Z.ltb (l_max l) (now - ts)).
    + right. apply in_or_app. right. now left.
    + destruct Hmx as [H|H]; [now left|right; apply in_or_app; now left].
  - right. destruct (Z.ltb (now - ts) (l_min l) || Z.eqb (l_min l) 0) eqn:E.
    + apply in_or_app. right. now left.
    + destruct Hmn as [[_ H0]|H]; [|apply in_or_app; now left].
      rewrite H0 in E. cbn in E. now rewrite orb_true_r in E.
Qed.

(** ** add *)

Lemma tot_app a b : tot (a ++ b) = tot a + tot b.
Proof. unfold tot. induction a as [|x a IH]; cbn [app fold_right]; lia. Qed.
Lemma cnt_app a b : cnt (a ++ b) = cnt a + cnt b.
Proof. unfold cnt. induction a as [|x a IH]; cbn [app fold_right]; lia. Qed.

Lemma sorted_snoc (l : list slot) s :
  StronglySorted by_end l -> Forall (fun x => sl_end x <= sl_end s) l -> StronglySorted by_end (l ++ [s]).
Proof.
  induction 1 as [|a l Hs IH Ha]; intros Hle; cbn; [repeat constructor|].
  inversion Hle as [|? ? Hax Hl]; subst. constructor; [auto|].
  apply Forall_app. split; [exact Ha|constructor; [exact Hax|constructor]].
Qed.

Lemma win_add_ok sf w s :
  win_ok sf w -> slot_ok sf s -> Forall (fun x => sl_end x <= sl_end s) (w_slots w) ->
  win_ok sf (win_add w s).
Proof.
  intros [H1 H2 H3 H4 H5] Hs Hle. unfold win_add. destruct (Z.eqb (sl_count s) 0); [constructor; assumption|].
  constructor; cbn [w_sf w_slots w_total w_count]; auto.
  - apply Forall_app. split; [assumption|constructor; [assumption|constructor]].
  - rewrite tot_app. cbn. lia.
  - rewrite cnt_app. cbn. lia.
  - now apply sorted_snoc.
Qed.

(** ** slide *)

Lemma sorted_split c (l : list slot) :
  StronglySorted by_end l ->
  l = filter (expired c) l ++ filter (fun s => negb (expired c s)) l.
Proof.
  induction 1 as [|a l Hs IH Ha]; [reflexivity|]. cbn [filter].
  destruct (expired c a) eqn:E; cbn [negb].
  - cbn. now rewrite <- IH.
  - assert (Hnone : filter (expired c) l = []).
    { clear IH. induction l as [|b l IHl]; [reflexivity|]. cbn.
      inversion Ha as [|? ? Hab Hl]; subst. inversion Hs; subst.
      unfold expired, by_end in *. destruct (Z.leb_spec (sl_end b) c); [|auto].
      destruct (Z.leb_spec (sl_end a) c); [discriminate|lia]. }
    rewrite Hnone. cbn. f_equal.
    clear IH Hnone. induction l as [|b l IHl]; [reflexivity|]. cbn.
    inversion Ha as [|? ? Hab Hl]; subst. inversion Hs; subst.
    unfold expired, by_end in *.
    destruct (Z.leb_spec (sl_end b) c); cbn; [destruct (Z.leb_spec (sl_end a) c); [discriminate|lia]|].
    f_equal. auto.
Qed.

Lemma sorted_filter (P : slot -> bool) l : StronglySorted by_end l -> StronglySorted by_end (filter P l).
Proof.
  induction 1 as [|a l Hs IH Ha]; cbn; [constructor|]. destruct (P a); [|exact IH].
  constructor; [exact IH|]. rewrite Forall_forall in *. intros x Hx. apply filter_In in Hx. apply Ha. tauto.
Qed.

(** after slide the window holds exactly the slots ending after the cutoff,
    and its running totals are theirs *)
Lemma win_slide_ok sf w ts :
  win_ok sf w ->
  win_ok sf (win_slide w ts) /\
  w_slots (win_slide w ts) = filter (fun s => negb (expired (ts - w_size w) s)) (w_slots w).
Proof.
  intros [H1 H2 H3 H4 H5]. unfold win_slide. cbv zeta.
  set (c := ts - w_size w). pose proof (sorted_split c (w_slots w) H5) as Hsp.
  set (gone := filter (expired c) (w_slots w)) in *.
  set (kept := filter (fun s => negb (expired c s)) (w_slots w)) in *.
  assert (Hk : skipn (List.length gone) (w_slots w) = kept).
  { rewrite Hsp at 1. rewrite skipn_app, skipn_all, Nat.sub_diag. reflexivity. }
  split; [|exact Hk].
  constructor; cbn [w_sf w_slots w_total w_count]; auto.
  - rewrite Hk. subst kept. rewrite Forall_forall in *. intros x Hx. apply filter_In in Hx. apply H2. tauto.
  - rewrite Hk, H3. rewrite Hsp at 1. rewrite tot_app. fold (tot gone). lia.
  - rewrite Hk, H4. rewrite Hsp at 1. rewrite cnt_app. fold (cnt gone). lia.
  - rewrite Hk. subst kept. now apply sorted_filter.
Qed.

(** * Bounds of the three statistics *)

Definition wsamples (w : window) : list Z := flat_map sl_samples (w_slots w).

Lemma tot_sumq sf ss : Forall (slot_ok sf) ss -> tot ss = sumq sf (flat_map sl_samples ss).
Proof.
  induction 1 as [|s ss Hs _ IH]; [reflexivity|]. cbn [tot fold_right flat_map]. fold (tot ss).
  rewrite sumq_app, IH, (so_total _ _ Hs). lia.
Qed.

Lemma cnt_length sf ss : Forall (slot_ok sf) ss -> cnt ss = Z.of_nat (List.length (flat_map sl_samples ss)).
Proof.
  induction 1 as [|s ss Hs _ IH]; [reflexivity|]. cbn [cnt fold_right flat_map]. fold (cnt ss).
  rewrite app_length, IH, (so_count _ _ Hs). lia.
Qed.

Lemma nz_some z v : nz z = Some v -> v = z /\ z <> 0.
Proof. unfold nz. destruct (Z.eqb_spec z 0); [discriminate|]. intros H; inversion H; subst; split; [reflexivity|assumption]. Qed.

Lemma win_max_in sf w v : win_ok sf w -> win_max w = Some v -> In v (wsamples w).
Proof.
  intros [_ H2 _ _ _] Hm. unfold win_max in Hm. apply nz_some in Hm. destruct Hm as [-> Hnz].
  unfold wsamples.
  assert (G : forall ss acc, Forall (slot_ok sf) ss -> 0 <= acc ->
            let r := fold_left (fun m s => if Z.ltb m (sl_max s) then sl_max s else m) ss acc in
            r = acc \/ In r (flat_map sl_samples ss)).
  { induction ss as [|s ss IH]; intros acc Hf Hacc; cbn; [now left|].
    inversion Hf as [|? ? Hs Hss]; subst.
    destruct (Z.ltb_spec acc (sl_max s)) as [Hlt|Hge].
    - destruct (IH (sl_max s) Hss ltac:(lia)) as [E|E]; cbv zeta in E.
      + rewrite E. destruct (so_max _ _ Hs) as [H0|Hin]; [lia|right; apply in_or_app; now left].
      + right. apply in_or_app. now right.
    - destruct (IH acc Hss Hacc) as [E|E]; cbv zeta in E; [now left|right; apply in_or_app; now right]. }
  destruct (G (w_slots w) 0 H2 ltac:(lia)) as [E|E]; cbv zeta in E; [contradiction|exact E].
Qed.

Lemma win_min_in sf w v : win_ok sf w -> win_min w = Some v -> In v (wsamples w).
Proof.
  intros [_ H2 _ _ _] Hm. unfold win_min in Hm. unfold wsamples.
  destruct (w_slots w) as [|s0 rest]; [discriminate|].
  apply nz_some in Hm. destruct Hm as [-> _].
  inversion H2 as [|? ? Hs0 Hrest]; subst. cbn [flat_map].
  assert (G : forall ss acc pre, Forall (slot_ok sf) ss -> In acc pre ->
            In (fold_left (fun m s => if Z.ltb (sl_min s) m then sl_min s else m) ss acc)
               (pre ++ flat_map sl_samples ss)).
  { induction ss as [|s ss IH]; intros acc pre Hf Hin; cbn; [rewrite app_nil_r; exact Hin|].
    inversion Hf as [|? ? Hs Hss]; subst. rewrite app_assoc. apply IH; [exact Hss|].
    destruct (Z.ltb (sl_min s) acc); apply in_or_app; [right; exact (so_min _ _ Hs)|now left]. }
  apply G; [exact Hrest|exact (so_min _ _ Hs0)].
Qed.

Lemma win_avg_bounds sf w v lo hi :
  1 <= sf -> win_ok sf w -> win_avg w = Some v ->
  (forall d, In d (wsamples w) -> lo <= d <= hi) ->
  wsamples w <> [] /\ lo - sf < v < hi + sf.
Proof.
  intros Hsf [H1 H2 H3 H4 _] Ha Hb. unfold win_avg in Ha.
  destruct (Z.eqb_spec (w_count w) 0) as [|Hc]; [discriminate|].
  destruct (nz (Z.quot (w_total w) (w_count w))) as [n|] eqn:En; [|discriminate].
  inversion Ha; subst v. apply nz_some in En. destruct En as [-> _].
  rewrite H3, H4, (tot_sumq sf _ H2), (cnt_length sf _ H2), H1. fold (wsamples w).
  assert (Hne : wsamples w <> []).
  { intros E. rewrite H4, (cnt_length sf _ H2) in Hc. fold (wsamples w) in Hc. rewrite E in Hc. now cbn in Hc. }
  split; [exact Hne|]. now apply avg_bounds.
Qed.

(** * One update *)

(** what an update returns for a window, together with the window afterwards *)
Definition stats_bounded (w' : window) (st : wstats) : Prop :=
  (forall v, ws_max st = Some v -> In v (wsamples w')) /\
  (forall v, ws_min st = Some v -> In v (wsamples w')) /\
  (forall v lo hi, ws_avg st = Some v ->
     (forall d, In d (wsamples w') -> lo <= d <= hi) ->
     wsamples w' <> [] /\ lo - w_sf w' < v < hi + w_sf w').

Lemma win_is_covered_ok sf w ts : win_ok sf w -> win_ok sf (fst (win_is_covered w ts)) /\
  w_slots (fst (win_is_covered w ts)) = w_slots w /\ w_size (fst (win_is_covered w ts)) = w_size w.
Proof.
  intros H. unfold win_is_covered. destruct (w_covered w); [auto|].
  destruct (w_slots w) as [|s0 rest] eqn:E; [cbn [fst]; rewrite E; auto|].
  destruct (match sl_start s0 with Some st => Z.leb (w_size w) (ts - st) | None => true end);
    cbn [fst w_slots w_size]; [|rewrite E; auto].
  split; [|split; reflexivity].
  destruct H as [H1 H2 H3 H4 H5]. rewrite <- E. constructor; cbn [w_sf w_slots w_total w_count]; auto.
Qed.

Lemma win_update_meta_ok sf w ts ignore :
  1 <= sf -> win_ok sf w ->
  let r := win_update_meta w ts ignore in
  win_ok sf (fst r) /\
  (forall x, In x (w_slots (fst r)) -> In x (w_slots w)) /\
  (forall st, snd r = Some st ->
     stats_bounded (fst r) st /\
     w_slots (fst r) = filter (fun s => negb (expired (ts - w_size w) s)) (w_slots w)).
Proof.
  intros Hsf Hw. unfold win_update_meta.
  set (pc := if ignore then (w, true) else win_is_covered w ts).
  assert (Hpc : win_ok sf (fst pc) /\ w_slots (fst pc) = w_slots w /\ w_size (fst pc) = w_size w).
  { subst pc. destruct ignore; [cbn; auto|]. now apply win_is_covered_ok. }
  destruct pc as [w1 cov]. cbn [fst] in Hpc. destruct Hpc as (Hw1 & Hs1 & Hz1).
  destruct cov; cbn [fst snd].
  - destruct (win_slide_ok sf w1 ts Hw1) as [Hw2 Hk]. split; [exact Hw2|]. split.
    { intros x Hx. rewrite Hk, Hs1 in Hx. apply filter_In in Hx. tauto. }
    intros st E. inversion E; subst st. split; [|now rewrite Hk, Hs1, Hz1].
    split; [|split]; cbn [ws_max ws_min ws_avg].
    + intros v Hv. eapply win_max_in; eauto.
    + intros v Hv. eapply win_min_in; eauto.
    + intros v lo hi Hv Hb. rewrite (wo_sf _ _ Hw2). eapply win_avg_bounds; eauto.
  - split; [exact Hw1|]. split; [intros x Hx; now rewrite Hs1 in Hx|discriminate].
Qed.

(** latency_bounds, one update: under the invariant and a clock that did not
    run backwards since the last update ([T <= ts]), the invariant holds again
    (with [ts]) and every statistic written for a window is bounded by the
    samples of the slots that window retains -- exactly the slots ending after
    [ts - size] *)
Theorem lat_update_bounds T l ts ignore :
  lat_inv T l -> T <= ts ->
  lat_inv ts (fst (lat_update l ts ignore)) /\
  Forall2 (fun w' o => forall st, o = Some st ->
             stats_bounded w' st /\
             Forall (fun s => ts - w_size w' < sl_end s) (w_slots w'))
          (l_windows (fst (lat_update l ts ignore))) (snd (lat_update l ts ignore)).
Proof.
  intros (Hsf & Hacc & Hw & He) HT. unfold lat_update. cbv zeta.
  set (s := Slot (l_total l) (l_max l) (l_min l) (l_count l) (l_start l) ts (l_samples l)).
  set (ws1 := if Z.eqb (l_count l) 0 then l_windows l else map (fun w => win_add w s) (l_windows l)).
  assert (H1 : Forall (win_ok (l_sf l)) ws1 /\
               Forall (fun w => Forall (fun x => sl_end x <= ts) (w_slots w)) ws1).
  { subst ws1. destruct (Z.eqb_spec (l_count l) 0) as [E0|E0].
    - split; [exact Hw|]. eapply Forall_impl; [|exact He]. cbn. intros w Hf.
      eapply Forall_impl; [|exact Hf]. cbn. intros; lia.
    - assert (Hs : slot_ok (l_sf l) s).
      { destruct Hacc as [Hc Ht Hmx Hmn]. constructor; cbn [sl_samples sl_count sl_total sl_max sl_min s]; auto.
        - intros E. rewrite E in Hc. now cbn in Hc.
        - destruct Hmn as [[E _]|H]; [|exact H]. rewrite E in Hc. now cbn in Hc. }
      split; apply Forall_forall; intros w' Hin; apply in_map_iff in Hin; destruct Hin as (w & <- & Hin);
        rewrite Forall_forall in Hw, He; specialize (Hw w Hin); specialize (He w Hin).
      + apply win_add_ok; auto. eapply Forall_impl; [|exact He]. cbn. intros; lia.
      + unfold win_add. destruct (Z.eqb (sl_count s) 0); cbn [w_slots].
        * eapply Forall_impl; [|exact He]. cbn. intros; lia.
        * apply Forall_app. split; [eapply Forall_impl; [|exact He]; cbn; intros; lia|].
          constructor; [cbn; lia|constructor]. }
  clearbody ws1. destruct H1 as [Hw1 He1].
  assert (Hres : Forall (fun w => let r := win_update_meta w ts ignore in
              win_ok (l_sf l) (fst r) /\ Forall (fun x => sl_end x <= ts) (w_slots (fst r)) /\
              (forall st, snd r = Some st -> stats_bounded (fst r) st /\
                 Forall (fun s => ts - w_size (fst r) < sl_end s) (w_slots (fst r)))) ws1).
  { apply Forall_forall. intros w Hin. rewrite Forall_forall in Hw1, He1.
    destruct (win_update_meta_ok (l_sf l) w ts ignore Hsf (Hw1 w Hin)) as (A & B & C). cbv zeta.
    split; [exact A|]. split.
    { apply Forall_forall. intros x Hx. specialize (He1 w Hin). rewrite Forall_forall in He1. auto. }
    intros st E. destruct (C st E) as [C1 C2]. split; [exact C1|].
    rewrite C2. apply Forall_forall. intros x Hx. apply filter_In in Hx. destruct Hx as [_ Hx].
    unfold expired in Hx.
    assert (Hz : w_size (fst (win_update_meta w ts ignore)) = w_size w).
    { unfold win_update_meta. destruct ignore.
      - cbn. reflexivity.
      - destruct (win_is_covered_ok (l_sf l) w ts (Hw1 w Hin)) as (_ & _ & Hz).
        destruct (win_is_covered w ts) as [w1 cov]. cbn [fst] in *. destruct cov; cbn; auto. }
    rewrite Hz. destruct (Z.leb_spec (sl_end x) (ts - w_size w)); [discriminate|lia]. }
  split.
  - assert (Hwin : Forall (win_ok (l_sf l)) (map fst (map (fun w => win_update_meta w ts ignore) ws1)) /\
                   Forall (fun w => Forall (fun x => sl_end x <= ts) (w_slots w))
                          (map fst (map (fun w => win_update_meta w ts ignore) ws1))).
    { rewrite map_map. split; apply Forall_forall; intros w' Hin; apply in_map_iff in Hin;
        destruct Hin as (w & <- & Hin); rewrite Forall_forall in Hres; destruct (Hres w Hin) as (A & B & _); auto. }
    destruct Hwin as [HA HB].
    destruct (Z.eqb (l_count l) 0); cbn [fst]; (split; [exact Hsf|split; [|split; [exact HA|exact HB]]]).
    + destruct Hacc as [Hc Ht Hmx Hmn]. constructor; cbn [l_count l_samples l_total l_sf l_max l_min]; auto.
    + constructor; cbn; auto.
  - assert (HF : Forall2 (fun w' o => forall st, o = Some st -> stats_bounded w' st /\
                   Forall (fun s => ts - w_size w' < sl_end s) (w_slots w'))
                   (map fst (map (fun w => win_update_meta w ts ignore) ws1))
                   (map snd (map (fun w => win_update_meta w ts ignore) ws1))).
    { rewrite !map_map. clear -Hres. induction ws1 as [|w ws IH]; cbn; [constructor|].
      inversion Hres as [|? ? Hh Ht]; subst. constructor; [|auto].
      destruct Hh as (_ & _ & C). exact C. }
    destruct (Z.eqb (l_count l) 0); cbn [fst snd l_windows]; exact HF.
Qed.

(** * All histories *)

Definition lrun (l : lat) (ops : list lop) : lat := fold_left (fun l o => fst (lstep l o)) ops l.

(** update times do not decrease (Compute may happen at any time) *)
Fixpoint mono_from (T : Z) (ops : list lop) : Prop :=
  match ops with
  | [] => True
  | LCompute _ _ :: r => mono_from T r
  | LUpdate t :: r | LUpdateLast t :: r => T <= t /\ mono_from t r
  end.

Fixpoint last_update (T : Z) (ops : list lop) : Z :=
  match ops with
  | [] => T
  | LCompute _ _ :: r => last_update T r
  | LUpdate t :: r | LUpdateLast t :: r => last_update t r
  end.

Theorem lrun_inv ops : forall T l, lat_inv T l -> mono_from T ops -> lat_inv (last_update T ops) (lrun l ops).
Proof.
  induction ops as [|o ops IH]; intros T l Hl Hm; [exact Hl|].
  unfold lrun. cbn [fold_left]. fold (lrun (fst (lstep l o)) ops).
  destruct o as [now ts|t|t]; cbn [mono_from last_update lstep fst] in *.
  - apply IH; [now apply lat_compute_inv|exact Hm].
  - destruct Hm as [Ht Hm]. apply IH; [|exact Hm]. exact (proj1 (lat_update_bounds T l t false Hl Ht)).
  - destruct Hm as [Ht Hm]. apply IH; [|exact Hm]. exact (proj1 (lat_update_bounds T l t true Hl Ht)).
Qed.

(** latency_bounds: after any history with non-decreasing update times on a
    fresh Latency, whatever the next update (UpdateReset or UpdateLast) writes
    for a window lies within the samples of the slots the window retains,
    which are exactly the batches closed after [t - window]; the average within
    the precision *)
Theorem latency_bounds sizes p ops t ignore :
  0 <= p -> mono_from 0 ops -> last_update 0 ops <= t ->
  let l := lrun (lat_new sizes p) ops in
  Forall2 (fun w' o => forall st, o = Some st ->
             stats_bounded w' st /\
             Forall (fun s => t - w_size w' < sl_end s) (w_slots w'))
          (l_windows (fst (lat_update l t ignore))) (snd (lat_update l t ignore)).
Proof.
  intros Hp Hm Ht l.
  pose proof (lrun_inv ops 0 (lat_new sizes p) (lat_new_inv sizes p 0 Hp) Hm) as Hinv.
  exact (proj2 (lat_update_bounds _ _ t ignore Hinv Ht)).
Qed.

(** ** Example: the hypotheses are satisfiable and statistics are written *)
Definition ex_lops : list lop :=
  [LCompute 100 95; LCompute 101 101; LUpdate 110; LCompute 115 118; LCompute 118 100; LUpdate 120;
   LCompute 125 0; LUpdate 130].

Example ex_latency :
  mono_from 0 ex_lops /\ last_update 0 ex_lops <= 140 /\
  snd (lat_update (lrun (lat_new [20; 40] 2) ex_lops) 140 false) =
    [Some (WS (Some 124) (Some 125) (Some 125)); Some (WS (Some 28) (Some 125) (Some (-3)))].
Proof. split; [cbn; lia|]. split; [cbn; lia|]. vm_compute. reflexivity. Qed.

(** Executable model of latency/latency.go on [Z] (definitions only).

    Times are nanoseconds since the epoch ([latency.Now] is an input of every
    call), durations are nanoseconds; [time.Time{}] (the initial [Latency.start])
    is [None].  int64 overflow and the saturation of [Time.Sub] are not
    modelled (unbounded [Z]) except for [Sub] against the zero time, which
    saturates to the maximal duration: "covered".

    Ghost state: every slot carries the list of the latency samples it
    accumulates ([sl_samples]); no modelled result depends on it.  It is what
    the bounds theorems talk about. *)
From Gnmi Require Import Base.Prelude.
Local Open Scope Z_scope.

Record slot := Slot {
  sl_total : Z;            (* cumulative latency, scaled down by the factor *)
  sl_max : Z;
  sl_min : Z;
  sl_count : Z;
  sl_start : option Z;
  sl_end : Z;
  sl_samples : list Z      (* ghost *)
}.

Record window := Win {
  w_size : Z;
  w_total : Z;
  w_sf : Z;                (* scaling factor *)
  w_count : Z;
  w_slots : list slot;
  w_covered : bool
}.

Record lat := Lat {
  l_start : option Z;
  l_sf : Z;                (* scaleFactor = precision / 1ns *)
  l_total : Z;             (* totalDiff *)
  l_count : Z;
  l_min : Z;
  l_max : Z;
  l_samples : list Z;      (* ghost: samples since the last update *)
  l_windows : list window
}.

(** New(windowSizes, opts): precision defaults to 1ns when unset (0) *)
Definition lat_new (sizes : list Z) (precision : Z) : lat :=
  let sf := if Z.eqb precision 0 then 1 else precision in
  Lat None sf 0 0 0 0 [] (map (fun sz => Win sz 0 sf 0 [] false) sizes).

(** Compute(ts) at clock reading [now]; Go's integer division truncates *)
Definition lat_compute (l : lat) (now ts : Z) : lat :=
  let d := now - ts in
  Lat (match l_start l with None => Some now | Some s => Some s end)
      (l_sf l)
      (l_total l + Z.quot d (l_sf l))
      (l_count l + 1)
      (if Z.ltb d (l_min l) || Z.eqb (l_min l) 0 then d else l_min l)
      (if Z.ltb (l_max l) d then d else l_max l)
      (l_samples l ++ [d])
      (l_windows l).

(** window.add *)
Definition win_add (w : window) (s : slot) : window :=
  if Z.eqb (sl_count s) 0 then w
  else Win (w_size w) (w_total w + sl_total s) (w_sf w) (w_count w + sl_count s)
           (w_slots w ++ [s]) (w_covered w).

(** window.isCovered(ts): sets the flag *)
Definition win_is_covered (w : window) (ts : Z) : window * bool :=
  if w_covered w then (w, true)
  else match w_slots w with
       | [] => (w, false)
       | s0 :: _ =>
           let far := match sl_start s0 with
                      | Some st => Z.leb (w_size w) (ts - st)
                      | None => true          (* Sub against the zero time saturates *)
                      end in
           if far then (Win (w_size w) (w_total w) (w_sf w) (w_count w) (w_slots w) true, true)
           else (w, false)
       end.

(** window.slide(ts): every slot whose end is not after the cutoff is
    subtracted; as many slots as were subtracted are dropped FROM THE FRONT *)
Definition expired (cutoff : Z) (s : slot) : bool := Z.leb (sl_end s) cutoff.

Definition win_slide (w : window) (ts : Z) : window :=
  let cutoff := ts - w_size w in
  let gone := filter (expired cutoff) (w_slots w) in
  Win (w_size w)
      (w_total w - fold_right (fun s a => sl_total s + a) 0 gone)
      (w_sf w)
      (w_count w - fold_right (fun s a => sl_count s + a) 0 gone)
      (skipn (List.length gone) (w_slots w))
      (w_covered w).

(** setAvg / setMax / setMin: [None] = nothing written *)
Definition nz (z : Z) : option Z := if Z.eqb z 0 then None else Some z.

Definition win_avg (w : window) : option Z :=
  if Z.eqb (w_count w) 0 then None
  else match nz (Z.quot (w_total w) (w_count w)) with
       | Some n => Some (n * w_sf w)
       | None => None
       end.

Definition win_max (w : window) : option Z :=
  nz (fold_left (fun m s => if Z.ltb m (sl_max s) then sl_max s else m) (w_slots w) 0).

Definition win_min (w : window) : option Z :=
  match w_slots w with
  | [] => None
  | s0 :: rest => nz (fold_left (fun m s => if Z.ltb (sl_min s) m then sl_min s else m) rest (sl_min s0))
  end.

Record wstats := WS { ws_avg : option Z; ws_max : option Z; ws_min : option Z }.

(** window.updateMeta(m, ts, ignoreInitialWindowCoverage): [None] = returned
    before writing anything *)
Definition win_update_meta (w : window) (ts : Z) (ignore : bool) : window * option wstats :=
  let '(w1, cov) := if ignore then (w, true) else win_is_covered w ts in
  if cov then
    let w2 := win_slide w1 ts in
    (w2, Some (WS (win_avg w2) (win_max w2) (win_min w2)))
  else (w1, None).

(** Latency.update(m, ignore) at clock reading [ts] *)
Definition lat_update (l : lat) (ts : Z) (ignore : bool) : lat * list (option wstats) :=
  let ws1 :=
    if Z.eqb (l_count l) 0 then l_windows l
    else
      let s := Slot (l_total l) (l_max l) (l_min l) (l_count l) (l_start l) ts (l_samples l) in
      map (fun w => win_add w s) (l_windows l) in
  let res := map (fun w => win_update_meta w ts ignore) ws1 in
  (if Z.eqb (l_count l) 0
   then Lat (Some ts) (l_sf l) (l_total l) (l_count l) (l_min l) (l_max l) (l_samples l) (map fst res)
   else Lat (Some ts) (l_sf l) 0 0 0 0 [] (map fst res),
   map snd res).

(** * Operation sequences *)

Inductive lop :=
| LCompute (now ts : Z)
| LUpdate (now : Z)          (* UpdateReset *)
| LUpdateLast (now : Z).

Definition lstep (l : lat) (o : lop) : lat * list (option wstats) :=
  match o with
  | LCompute now ts => (lat_compute l now ts, [])
  | LUpdate now => lat_update l now false
  | LUpdateLast now => lat_update l now true
  end.

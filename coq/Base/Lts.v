(** Labelled transition systems for the concurrent cores (DESIGN.md 3.1,
    "Concurrency").

    A system is a partial function [step : S -> L -> option S]: one atomic
    step (a critical section, a channel operation) of the thread / environment
    action named by the label; [None] = the label is not enabled in that state.
    Nondeterminism inside one thread (a Go [select] with several ready cases)
    is put into the label, so a *schedule* -- a list of labels -- determines
    the run.  "For all interleavings" is "for all schedules".

    The file is generic and small on purpose: reachability, invariants by
    induction over schedules, enabledness, and forward (stuttering) simulation
    to a specification system. *)
From Coq Require Import List.
Import ListNotations.

Section Lts.
Context {S L : Type}.
Variable step : S -> L -> option S.

(** Run a schedule; [None] as soon as a label is not enabled. *)
Fixpoint run (s : S) (sch : list L) : option S :=
  match sch with
  | [] => Some s
  | l :: sch' => match step s l with
                 | Some s' => run s' sch'
                 | None => None
                 end
  end.

Definition enabled (s : S) (l : L) : Prop := step s l <> None.

Definition reachable_from (s0 s : S) : Prop := exists sch, run s0 sch = Some s.

Lemma run_app s sch1 sch2 :
  run s (sch1 ++ sch2) = match run s sch1 with Some s' => run s' sch2 | None => None end.
Proof.
  revert s; induction sch1 as [|l sch1 IH]; intros s; cbn; [reflexivity|].
  destruct (step s l); auto.
Qed.

Lemma run_snoc s sch l s1 :
  run s sch = Some s1 -> run s (sch ++ [l]) = step s1 l.
Proof. intros H. rewrite run_app, H. cbn. destruct (step s1 l); reflexivity. Qed.

Lemma reachable_refl s : reachable_from s s.
Proof. exists []. reflexivity. Qed.

Lemma reachable_step s0 s l s' :
  reachable_from s0 s -> step s l = Some s' -> reachable_from s0 s'.
Proof. intros [sch H] Hs. exists (sch ++ [l]). rewrite (run_snoc _ _ _ _ H). exact Hs. Qed.

Lemma reachable_trans s0 s1 s2 :
  reachable_from s0 s1 -> reachable_from s1 s2 -> reachable_from s0 s2.
Proof. intros [a Ha] [b Hb]. exists (a ++ b). rewrite run_app, Ha. exact Hb. Qed.

(** Invariant by induction over schedules. *)
Lemma run_invariant (P : S -> Prop) :
  (forall s l s', P s -> step s l = Some s' -> P s') ->
  forall sch s s', P s -> run s sch = Some s' -> P s'.
Proof.
  intros Hstep. induction sch as [|l sch IH]; cbn; intros s s' Hp Hr.
  - inversion Hr; subst; assumption.
  - destruct (step s l) as [s1|] eqn:E; [|discriminate].
    apply (IH s1 s'); [eapply Hstep; eauto|assumption].
Qed.

Theorem invariant (P : S -> Prop) (s0 : S) :
  P s0 ->
  (forall s l s', P s -> step s l = Some s' -> P s') ->
  forall s, reachable_from s0 s -> P s.
Proof. intros H0 Hstep s [sch Hr]. eapply run_invariant; eauto. Qed.

(** The same, when the inductive step may use an invariant already known. *)
Theorem invariant_using (Q P : S -> Prop) (s0 : S) :
  (forall s, reachable_from s0 s -> Q s) ->
  P s0 ->
  (forall s l s', Q s -> P s -> step s l = Some s' -> P s') ->
  forall s, reachable_from s0 s -> P s.
Proof.
  intros HQ H0 Hstep s Hr.
  assert (H : reachable_from s0 s /\ P s).
  { apply (invariant (fun s => reachable_from s0 s /\ P s) s0); auto.
    - split; [apply reachable_refl|assumption].
    - intros s1 l s2 [Hr1 Hp1] Hs. split; [eapply reachable_step; eauto|].
      eapply Hstep; eauto. }
  apply H.
Qed.

(** A property of single steps taken from reachable states. *)
Lemma reachable_steps_all (R : S -> L -> S -> Prop) (s0 : S) (I : S -> Prop) :
  (forall s, reachable_from s0 s -> I s) ->
  (forall s l s', I s -> step s l = Some s' -> R s l s') ->
  forall s l s', reachable_from s0 s -> step s l = Some s' -> R s l s'.
Proof. intros HI HR s l s' Hr Hs. eapply HR; eauto. Qed.

End Lts.

(** Forward simulation with stuttering: every concrete step is matched by
    zero or one step of the specification system.  Then every reachable
    concrete state is related to a reachable specification state. *)
Section Simulation.
Context {S L A LA : Type}.
Variable cstep : S -> L -> option S.
Variable astep : A -> LA -> option A.
Variable R : S -> A -> Prop.

Hypothesis sim_step :
  forall s l s' a, R s a -> cstep s l = Some s' ->
    R s' a \/ exists la a', astep a la = Some a' /\ R s' a'.

Theorem simulation_reachable s0 a0 :
  R s0 a0 ->
  forall s, reachable_from cstep s0 s -> exists a, reachable_from astep a0 a /\ R s a.
Proof.
  intros H0 s Hr.
  apply (invariant cstep (fun s => exists a, reachable_from astep a0 a /\ R s a) s0); auto.
  - exists a0. split; [apply reachable_refl|assumption].
  - intros s1 l s2 (a & Ha & HR) Hs.
    destruct (sim_step _ _ _ _ HR Hs) as [HR'|(la & a' & Hst & HR')].
    + exists a; auto.
    + exists a'. split; [eapply reachable_step; eauto|assumption].
Qed.

End Simulation.

(** Base definitions shared by every component model: paths, string-keyed
    association lists standing for Go maps, the combinators through which the
    nested tree models recurse, and string / path order (Go's bytewise order). *)
From Coq Require Export List String Bool Ascii ZArith NArith Lia Permutation.
From Coq Require Import Structures.OrderedTypeEx Sorting.Sorted.
Export ListNotations.
Open Scope string_scope.
Open Scope list_scope.

Definition path := list string.

(** Outcomes of a modelled Go entry point. *)
Inductive outcome (A : Type) :=
| Ok (a : A)
| Err (cls : N)       (* an error of some class was returned *)
| Panic (why : N).    (* the Go code would panic at this point *)
Arguments Ok {A} a.
Arguments Err {A} cls.
Arguments Panic {A} why.

(** * Paths *)

Fixpoint path_eqb (p q : path) : bool :=
  match p, q with
  | [], [] => true
  | a :: p', b :: q' => String.eqb a b && path_eqb p' q'
  | _, _ => false
  end.

Lemma path_eqb_spec p q : reflect (p = q) (path_eqb p q).
Proof.
  revert q; induction p as [|a p IH]; intros [|b q]; cbn; try (constructor; congruence).
  destruct (String.eqb_spec a b) as [->|Hn]; cbn.
  - destruct (IH q) as [->|Hn]; constructor; congruence.
  - constructor; congruence.
Qed.

Lemma path_eqb_refl p : path_eqb p p = true.
Proof. destruct (path_eqb_spec p p); congruence. Qed.

Lemma path_eqb_eq p q : path_eqb p q = true <-> p = q.
Proof. destruct (path_eqb_spec p q); split; congruence. Qed.

Lemma path_eqb_neq p q : path_eqb p q = false <-> p <> q.
Proof. destruct (path_eqb_spec p q); split; congruence. Qed.

(** [is_prefix p q]: p is a (non-strict) prefix of q. *)
Fixpoint is_prefix (p q : path) : bool :=
  match p, q with
  | [], _ => true
  | a :: p', b :: q' => String.eqb a b && is_prefix p' q'
  | _ :: _, [] => false
  end.

Lemma is_prefix_spec p q : is_prefix p q = true <-> exists s, q = p ++ s.
Proof.
  revert q; induction p as [|a p IH]; intros q; cbn.
  - split; eauto.
  - destruct q as [|b q]; cbn.
    + split; [discriminate|intros [s Hs]; discriminate].
    + rewrite andb_true_iff, String.eqb_eq, IH. split.
      * intros [-> [s ->]]; eauto.
      * intros [s Hs]; inversion Hs; subst; eauto.
Qed.

Definition strict_prefix (p q : path) : bool := is_prefix p q && negb (path_eqb p q).

Lemma strict_prefix_spec p q :
  strict_prefix p q = true <-> exists k s, q = p ++ k :: s.
Proof.
  unfold strict_prefix. rewrite andb_true_iff, negb_true_iff, is_prefix_spec, path_eqb_neq.
  split.
  - intros [[s ->] Hn]. destruct s as [|k s]; [rewrite app_nil_r in Hn; congruence|eauto].
  - intros (k & s & ->). split; eauto. intros H.
    assert (Hl : List.length p = List.length (p ++ k :: s)) by congruence.
    rewrite app_length in Hl; cbn in Hl; lia.
Qed.

(** * Association lists (Go maps keyed by string)

    A Go [map[string]T] is a list of pairs whose keys are pairwise distinct
    ([NoDup (keys l)]).  New keys are appended; iteration order is never relied
    upon by a theorem (statements are by membership or up to [Permutation]). *)

Lemma NoDup_app_intro {A} (l1 l2 : list A) :
  NoDup l1 -> NoDup l2 -> (forall x, In x l1 -> In x l2 -> False) -> NoDup (l1 ++ l2).
Proof.
  induction l1 as [|a l1 IH]; cbn; intros H1 H2 Hd; [assumption|].
  inversion H1 as [|? ? Hni H1']; subst. constructor.
  - rewrite in_app_iff. intros [H|H]; [contradiction|]. eapply Hd; eauto.
  - apply IH; auto. intros x Hx Hx'. eapply Hd; eauto.
Qed.

Lemma NoDup_app_intro_single {A} (l : list A) x :
  NoDup l -> ~ In x l -> NoDup (l ++ [x]).
Proof.
  intros H Hn. apply NoDup_app_intro; auto.
  - constructor; [intros []|constructor].
  - intros y Hy [<-|[]]. contradiction.
Qed.

Notation keys l := (map fst l).

Section Assoc.
Context {A : Type}.


Fixpoint assoc (k : string) (l : list (string * A)) : option A :=
  match l with
  | [] => None
  | kc :: l' => if String.eqb k (fst kc) then Some (snd kc) else assoc k l'
  end.

(** replace the binding of [k], or append one *)
Fixpoint aset (k : string) (a : A) (l : list (string * A)) : list (string * A) :=
  match l with
  | [] => [(k, a)]
  | kc :: l' => if String.eqb k (fst kc) then (fst kc, a) :: l' else kc :: aset k a l'
  end.

Fixpoint adel (k : string) (l : list (string * A)) : list (string * A) :=
  match l with
  | [] => []
  | kc :: l' => if String.eqb k (fst kc) then l' else kc :: adel k l'
  end.

Lemma assoc_In k a l : assoc k l = Some a -> In (k, a) l.
Proof.
  induction l as [|[k' a'] l IH]; cbn; [discriminate|].
  destruct (String.eqb_spec k k') as [->|Hn]; intros H.
  - inversion H; subst; auto.
  - auto.
Qed.

Lemma assoc_None k l : assoc k l = None <-> ~ In k (keys l).
Proof.
  induction l as [|[k' a'] l IH]; cbn; [tauto|].
  destruct (String.eqb_spec k k') as [->|Hn].
  - split; [discriminate|tauto].
  - rewrite IH. split; [intros H [E|E]; [congruence|contradiction]|tauto].
Qed.

Lemma In_assoc k a l : NoDup (keys l) -> In (k, a) l -> assoc k l = Some a.
Proof.
  induction l as [|[k' a'] l IH]; cbn; [tauto|].
  intros Hnd [E|Hin]; inversion Hnd as [|? ? Hni Hnd']; subst.
  - inversion E; subst. now rewrite String.eqb_refl.
  - destruct (String.eqb_spec k k') as [->|Hn]; auto.
    exfalso; apply Hni. change k' with (fst (k', a)). now apply in_map.
Qed.

Lemma assoc_Some_key k a l : assoc k l = Some a -> In k (keys l).
Proof. intros H; apply assoc_In in H. change k with (fst (k, a)). now apply in_map. Qed.

Lemma assoc_aset k k' a l :
  assoc k' (aset k a l) = if String.eqb k' k then Some a else assoc k' l.
Proof.
  induction l as [|[k0 a0] l IH]; cbn.
  - destruct (String.eqb k' k); reflexivity.
  - destruct (String.eqb_spec k k0) as [->|Hn]; cbn.
    + destruct (String.eqb k' k0); reflexivity.
    + rewrite IH. destruct (String.eqb_spec k' k0) as [->|Hn'].
      * destruct (String.eqb_spec k0 k); congruence.
      * reflexivity.
Qed.

Lemma keys_aset_in k a l : In k (keys l) -> keys (aset k a l) = keys l.
Proof.
  induction l as [|[k0 a0] l IH]; cbn; [tauto|].
  destruct (String.eqb_spec k k0) as [->|Hn]; cbn; [reflexivity|].
  intros [E|Hin]; [congruence|]. now rewrite IH.
Qed.

Lemma keys_aset_notin k a l : ~ In k (keys l) -> keys (aset k a l) = keys l ++ [k].
Proof.
  induction l as [|[k0 a0] l IH]; cbn; [reflexivity|].
  destruct (String.eqb_spec k k0) as [->|Hn]; cbn; [tauto|].
  intros H. rewrite IH; tauto.
Qed.

Lemma NoDup_keys_aset k a l : NoDup (keys l) -> NoDup (keys (aset k a l)).
Proof.
  intros Hnd. destruct (in_dec string_dec k (keys l)) as [Hin|Hni].
  - now rewrite keys_aset_in.
  - rewrite keys_aset_notin by assumption.
    apply NoDup_app_intro_single; assumption.
Qed.

Lemma In_aset_weak kc k a l :
  In kc (aset k a l) -> kc = (k, a) \/ In kc l.
Proof.
  induction l as [|[k0 a0] l IH]; cbn.
  - intros [<-|[]]; auto.
  - destruct (String.eqb_spec k k0) as [->|Hn]; cbn.
    + intros [<-|Hin]; auto.
    + intros [<-|Hin]; auto. destruct (IH Hin); auto.
Qed.

Lemma assoc_adel k k' l :
  NoDup (keys l) ->
  assoc k' (adel k l) = if String.eqb k' k then None else assoc k' l.
Proof.
  induction l as [|[k0 a0] l IH]; cbn; intros Hnd.
  - destruct (String.eqb k' k); reflexivity.
  - inversion Hnd as [|? ? Hni Hnd']; subst.
    destruct (String.eqb_spec k k0) as [->|Hn]; cbn.
    + destruct (String.eqb_spec k' k0) as [->|Hn']; [|reflexivity].
      now apply assoc_None.
    + rewrite IH by assumption. destruct (String.eqb_spec k' k0) as [->|Hn'].
      * destruct (String.eqb_spec k0 k); congruence.
      * reflexivity.
Qed.

Lemma keys_adel_incl k l x : In x (keys (adel k l)) -> In x (keys l).
Proof.
  induction l as [|[k0 a0] l IH]; cbn; [tauto|].
  destruct (String.eqb k k0); cbn; tauto.
Qed.

Lemma NoDup_keys_adel k l : NoDup (keys l) -> NoDup (keys (adel k l)).
Proof.
  induction l as [|[k0 a0] l IH]; cbn; intros Hnd; [constructor|].
  inversion Hnd as [|? ? Hni Hnd']; subst.
  destruct (String.eqb k k0); cbn; [assumption|].
  constructor; auto. intros H; apply Hni. eapply keys_adel_incl; eauto.
Qed.

End Assoc.

(** * Combinators through which nested-tree functions recurse.

    They are [Definition ... := fix ...] with the function argument outside the
    [fix], which is the form Coq's guard checker unfolds when the argument is a
    recursive call on a child. *)

Definition find_with {A B : Type} (f : A -> B) (d : B) (k : string)
  : list (string * A) -> B :=
  fix go l :=
    match l with
    | [] => d
    | kc :: l' => if String.eqb k (fst kc) then f (snd kc) else go l'
    end.

Lemma find_with_assoc {A B} (f : A -> B) d k l :
  find_with f d k l = match assoc k l with Some c => f c | None => d end.
Proof.
  induction l as [|[k' c] l IH]; cbn; [reflexivity|].
  destruct (String.eqb k k'); auto.
Qed.

(** [alter f dflt k l]: apply the partial update [f] to the child named [k];
    when there is none, insert [dflt].  [None] when [f] fails. *)
Definition alter {A : Type} (f : A -> option A) (dflt : A) (k : string)
  : list (string * A) -> option (list (string * A)) :=
  fix go l :=
    match l with
    | [] => Some [(k, dflt)]
    | kc :: l' =>
        if String.eqb k (fst kc)
        then match f (snd kc) with Some c' => Some ((fst kc, c') :: l') | None => None end
        else match go l' with Some l'' => Some (kc :: l'') | None => None end
    end.

Lemma alter_assoc {A} (f : A -> option A) dflt k l :
  alter f dflt k l =
  match assoc k l with
  | Some c => match f c with Some c' => Some (aset k c' l) | None => None end
  | None => Some (aset k dflt l)
  end.
Proof.
  induction l as [|[k' c] l IH]; cbn; [reflexivity|].
  destruct (String.eqb_spec k k') as [->|Hn]; cbn.
  - destruct (f c); reflexivity.
  - rewrite IH. destruct (assoc k l) as [c0|]; [destruct (f c0)|]; reflexivity.
Qed.

(** * String and path order (bytewise, as Go's [sort.Strings]) *)

Lemma string_ltb_lt a b : String.ltb a b = true <-> String_as_OT.lt a b.
Proof.
  unfold String.ltb. rewrite <- String_as_OT.cmp_lt. unfold String_as_OT.cmp.
  destruct (String.compare a b); split; congruence.
Qed.

Lemma string_ltb_trans a b c :
  String.ltb a b = true -> String.ltb b c = true -> String.ltb a c = true.
Proof. rewrite !string_ltb_lt. apply String_as_OT.lt_trans. Qed.

Lemma string_ltb_irrefl a : String.ltb a a = false.
Proof.
  destruct (String.ltb a a) eqn:E; [|reflexivity].
  apply string_ltb_lt in E. exfalso. eapply String_as_OT.lt_not_eq; eauto. reflexivity.
Qed.

Lemma string_leb_ltb a b : String.leb a b = true <-> String.ltb a b = true \/ a = b.
Proof.
  unfold String.leb, String.ltb. destruct (String.compare a b) eqn:E.
  - apply String.compare_eq_iff in E. tauto.
  - tauto.
  - split; [discriminate|]. intros [H| ->]; [discriminate|].
    assert (String.compare b b = Eq) by (apply (String_as_OT.cmp_eq b b); reflexivity). congruence.
Qed.

Lemma string_nleb_ltb a b : String.leb a b = false -> String.ltb b a = true.
Proof.
  unfold String.leb, String.ltb. rewrite (String.compare_antisym b a).
  destruct (String.compare a b); cbn; congruence.
Qed.

(** lexicographic strict order on paths *)
Fixpoint path_ltb (p q : path) : bool :=
  match p, q with
  | [], [] => false
  | [], _ :: _ => true
  | _ :: _, [] => false
  | a :: p', b :: q' =>
      if String.eqb a b then path_ltb p' q' else String.ltb a b
  end.

Definition path_leb (p q : path) : bool := path_eqb p q || path_ltb p q.

Lemma path_ltb_trans p q r :
  path_ltb p q = true -> path_ltb q r = true -> path_ltb p r = true.
Proof.
  revert q r; induction p as [|a p IH]; intros [|b q] [|c r]; cbn; try congruence.
  destruct (String.eqb_spec a b) as [->|Hab]; destruct (String.eqb_spec b c) as [->|Hbc].
  - apply IH.
  - auto.
  - destruct (String.eqb_spec a c); congruence.
  - intros H1 H2. pose proof (string_ltb_trans _ _ _ H1 H2) as H3.
    destruct (String.eqb_spec a c) as [->|Hac]; [|assumption].
    assert (String.ltb c c = true) by (eapply string_ltb_trans; eauto).
    rewrite string_ltb_irrefl in *; discriminate.
Qed.

Lemma path_ltb_irrefl p : path_ltb p p = false.
Proof. induction p as [|a p IH]; cbn; [reflexivity|]. now rewrite String.eqb_refl. Qed.

(** insertion sort on a key, used where the Go code sorts names *)
Section Sort.
Context {A : Type} (leb : A -> A -> bool).

Fixpoint insert_sorted (x : A) (l : list A) : list A :=
  match l with
  | [] => [x]
  | y :: l' => if leb x y then x :: l else y :: insert_sorted x l'
  end.

Fixpoint isort (l : list A) : list A :=
  match l with
  | [] => []
  | x :: l' => insert_sorted x (isort l')
  end.

Lemma insert_sorted_perm x l : Permutation (x :: l) (insert_sorted x l).
Proof.
  induction l as [|y l IH]; cbn; [reflexivity|].
  destruct (leb x y); [reflexivity|].
  rewrite perm_swap. now constructor.
Qed.

Lemma isort_perm l : Permutation l (isort l).
Proof.
  induction l as [|x l IH]; cbn; [reflexivity|].
  rewrite <- insert_sorted_perm. now constructor.
Qed.

Lemma In_isort x l : In x (isort l) <-> In x l.
Proof.
  split; apply Permutation_in; [symmetry|]; apply isort_perm.
Qed.

End Sort.

(** generic list facts *)

Lemma NoDup_flat_map {A B} (f : A -> list B) (l : list A) :
  NoDup l ->
  (forall a, In a l -> NoDup (f a)) ->
  (forall a a' b, In a l -> In a' l -> In b (f a) -> In b (f a') -> a = a') ->
  NoDup (flat_map f l).
Proof.
  induction l as [|x l IH]; cbn; intros Hnd Hf Hdisj; [constructor|].
  inversion Hnd as [|? ? Hni Hnd']; subst.
  apply NoDup_app_intro.
  - apply Hf; auto.
  - apply IH; auto. intros; eapply Hdisj; eauto.
  - intros b Hb Hb'. apply in_flat_map in Hb' as (a' & Ha' & Hba').
    assert (x = a') by (eapply Hdisj; eauto). subst. contradiction.
Qed.

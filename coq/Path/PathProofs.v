(** Proofs about the model of path/path.go (PathModel.v): the index of a path
    does not depend on the order in which Go happens to iterate the key maps,
    key values appear in key-name order right after their element, target and
    origin lead only when requested and non-empty, and the accept / reject rule
    of CompletePath.  All statements are for arbitrary paths over arbitrary
    byte strings. *)
From Gnmi Require Import Base.Prelude Path.PathModel.
From Coq Require Import Sorting.Sorted.
Open Scope list_scope.

(** * Sorting: insertion sort yields the unique sorted permutation *)

Section SortFacts.
Context {A : Type} (leb : A -> A -> bool).
Hypothesis leb_total : forall a b, leb a b = false -> leb b a = true.
Hypothesis leb_trans : forall a b c, leb a b = true -> leb b c = true -> leb a c = true.

Let le a b := leb a b = true.

Lemma insert_sorted_sorted x l :
  StronglySorted le l -> StronglySorted le (insert_sorted leb x l).
Proof.
  induction 1 as [|y l Hs IH Hy]; cbn.
  - constructor; constructor.
  - destruct (leb x y) eqn:E.
    + constructor; [constructor; assumption|]. constructor; [exact E|].
      rewrite Forall_forall in *. intros z Hz. eapply leb_trans; [exact E|]. now apply Hy.
    + constructor; [assumption|].
      rewrite Forall_forall in *. intros z Hz.
      apply (Permutation_in _ (Permutation_sym (insert_sorted_perm leb x l))) in Hz.
      destruct Hz as [<- |Hz]; [now apply leb_total|now apply Hy].
Qed.

Lemma isort_sorted l : StronglySorted le (isort leb l).
Proof. induction l; cbn; [constructor|now apply insert_sorted_sorted]. Qed.

Hypothesis leb_antisym : forall a b, leb a b = true -> leb b a = true -> a = b.

Lemma sorted_perm_unique l1 : forall l2,
  StronglySorted le l1 -> StronglySorted le l2 -> Permutation l1 l2 -> l1 = l2.
Proof.
  induction l1 as [|a l1 IH]; intros l2 H1 H2 Hp.
  - apply Permutation_nil in Hp. now subst.
  - destruct l2 as [|b l2]; [apply Permutation_sym, Permutation_nil in Hp; discriminate|].
    inversion H1 as [|? ? H1' Ha]; subst. inversion H2 as [|? ? H2' Hb]; subst.
    rewrite Forall_forall in Ha, Hb.
    assert (a = b).
    { assert (Hin1 : In a (b :: l2)) by (eapply Permutation_in; [exact Hp|now left]).
      assert (Hin2 : In b (a :: l1)) by (eapply Permutation_in; [exact (Permutation_sym Hp)|now left]).
      destruct Hin1 as [-> |Hin1]; [reflexivity|]. destruct Hin2 as [-> |Hin2]; [reflexivity|].
      apply leb_antisym; [now apply Ha|now apply Hb]. }
    subst b. f_equal. apply IH; auto. eapply Permutation_cons_inv; eauto.
Qed.

End SortFacts.

(** ** bytewise order on strings *)

Lemma string_leb_total a b : String.leb a b = false -> String.leb b a = true.
Proof. intros H. apply string_leb_ltb. left. now apply string_nleb_ltb. Qed.

Lemma string_leb_trans a b c :
  String.leb a b = true -> String.leb b c = true -> String.leb a c = true.
Proof.
  rewrite !string_leb_ltb. intros [H1| ->] [H2| ->]; auto.
  left. eapply string_ltb_trans; eauto.
Qed.

Lemma string_leb_antisym a b : String.leb a b = true -> String.leb b a = true -> a = b.
Proof.
  rewrite !string_leb_ltb. intros [H1| ->] [H2|H2]; auto.
  pose proof (string_ltb_trans _ _ _ H1 H2) as H. rewrite string_ltb_irrefl in H. discriminate.
Qed.

(** * Key maps *)

(** strictly increasing key names *)
Definition key_lt (a b : string * string) : Prop := String.ltb (fst a) (fst b) = true.

Lemma map_get_in m k v : NoDup (keys m) -> In (k, v) m -> map_get m k = v.
Proof. intros Hnd Hin. unfold map_get. now rewrite (In_assoc k v m Hnd Hin). Qed.

Lemma sorted_keys_of l :
  StronglySorted key_lt l -> StronglySorted (fun a b => String.leb a b = true) (keys l).
Proof.
  induction 1 as [|x l Hs IH Hx]; cbn; constructor; auto.
  rewrite Forall_forall in *. intros k Hk. apply in_map_iff in Hk as (y & <- & Hy).
  apply string_leb_ltb. left. now apply Hx.
Qed.

(** sortedVals is the list of values in key-name order: for ANY arrangement
    [l'] of the key map with strictly increasing key names, it is [map snd l']. *)
Lemma sorted_vals_spec m l' :
  NoDup (keys m) -> Permutation l' m -> StronglySorted key_lt l' ->
  sorted_vals m = map snd l'.
Proof.
  intros Hnd Hp Hs. unfold sorted_vals, sort_strings.
  assert (Hk : isort String.leb (keys m) = keys l').
  { apply (sorted_perm_unique String.leb string_leb_antisym).
    - apply isort_sorted; [apply string_leb_total|apply string_leb_trans].
    - now apply sorted_keys_of.
    - eapply Permutation_trans; [apply Permutation_sym, isort_perm|].
      apply Permutation_map. now apply Permutation_sym. }
  rewrite Hk. rewrite map_map. apply map_ext_in. intros [k v] Hin. cbn.
  apply map_get_in; auto. eapply Permutation_in; eauto.
Qed.

(** the contribution of one element: its name, then the key values in
    key-name order *)
Lemma elem_index_sorted e l' :
  pelem_wf e -> Permutation l' (snd e) -> StronglySorted key_lt l' ->
  elem_index e = fst e :: map snd l'.
Proof.
  intros Hwf Hp Hs. unfold elem_index. f_equal.
  destruct (snd e) as [|kv [|kv' m]] eqn:Em.
  - apply Permutation_sym, Permutation_nil in Hp. now subst.
  - apply Permutation_sym, Permutation_length_1_inv in Hp. now subst.
  - rewrite <- Em in *. now apply sorted_vals_spec.
Qed.

(** such an arrangement exists (insertion sort by key name), so the statement
    above is not vacuous *)
Definition kv_leb (a b : string * string) : bool := String.leb (fst a) (fst b).

Lemma kv_sorted_strict l :
  NoDup (keys l) -> StronglySorted (fun a b => kv_leb a b = true) l -> StronglySorted key_lt l.
Proof.
  induction 2 as [|x l Hs IH Hx]; constructor.
  - apply IH. now inversion H.
  - inversion H as [|? ? Hni Hnd]; subst. rewrite Forall_forall in *. intros y Hy.
    specialize (Hx y Hy). unfold kv_leb in Hx. apply string_leb_ltb in Hx as [Hx|Hx]; [exact Hx|].
    exfalso. apply Hni. rewrite Hx. now apply in_map.
Qed.

Lemma sorted_arrangement_exists m :
  NoDup (keys m) ->
  Permutation (isort kv_leb m) m /\ StronglySorted key_lt (isort kv_leb m).
Proof.
  intros Hnd. split; [apply Permutation_sym, isort_perm|].
  apply kv_sorted_strict.
  - eapply Permutation_NoDup; [|exact Hnd]. apply Permutation_map, isort_perm.
  - apply isort_sorted; unfold kv_leb; intros.
    + now apply string_leb_total.
    + eapply string_leb_trans; eauto.
Qed.

(** * ToStrings *)

(** the same path, the key maps possibly listed in another order *)
Definition pelem_equiv (e e' : pelem) : Prop := fst e = fst e' /\ Permutation (snd e) (snd e').

Definition gpath_equiv (p p' : gpath) : Prop :=
  gp_target p = gp_target p' /\ gp_origin p = gp_origin p' /\
  Forall2 pelem_equiv (gp_elems p) (gp_elems p') /\ gp_element p = gp_element p'.

Lemma elem_index_perm e e' : pelem_wf e -> pelem_equiv e e' -> elem_index e = elem_index e'.
Proof.
  intros Hwf [Hn Hp].
  destruct (sorted_arrangement_exists (snd e) Hwf) as [Hp' Hs].
  rewrite (elem_index_sorted e _ Hwf Hp' Hs).
  assert (Hwf' : pelem_wf e').
  { unfold pelem_wf in *. eapply Permutation_NoDup; [|exact Hwf]. now apply Permutation_map. }
  rewrite (elem_index_sorted e' (isort kv_leb (snd e)) Hwf'); [now rewrite Hn| |exact Hs].
  eapply Permutation_trans; eauto.
Qed.

Lemma flat_map_elem_index_perm l l' :
  Forall pelem_wf l -> Forall2 pelem_equiv l l' ->
  flat_map elem_index l = flat_map elem_index l'.
Proof.
  intros Hwf H. induction H as [|x x' l l' Hx Hl IH]; [reflexivity|].
  inversion Hwf; subst.
  change (elem_index x ++ flat_map elem_index l = elem_index x' ++ flat_map elem_index l').
  f_equal; [now apply elem_index_perm|now apply IH].
Qed.

(** independence of map order *)
Lemma to_strings_perm b p p' :
  gpath_wf p -> gpath_equiv p p' -> to_strings b p = to_strings b p'.
Proof.
  intros Hwf (Ht & Ho & He & Hel). unfold to_strings. rewrite Ht, Ho, Hel. f_equal.
  unfold gpath_wf in Hwf.
  pose proof (flat_map_elem_index_perm _ _ Hwf He) as Hf.
  destruct He; [reflexivity|exact Hf].
Qed.

(** shape of the index: leading target / origin, then per element the name
    followed by its key values in key-name order; the deprecated [element]
    form only when there is no [elem] *)
Definition index_of (arr : pelem -> list (string * string)) (prefix : bool) (p : gpath) : list string :=
  (if prefix then nonempty (gp_target p) ++ nonempty (gp_origin p) else []) ++
  match gp_elems p with
  | [] => gp_element p
  | _ :: _ => flat_map (fun e => fst e :: map snd (arr e)) (gp_elems p)
  end.

Lemma to_strings_keys_sorted prefix p (arr : pelem -> list (string * string)) :
  gpath_wf p ->
  (forall e, In e (gp_elems p) -> Permutation (arr e) (snd e) /\ StronglySorted key_lt (arr e)) ->
  to_strings prefix p = index_of arr prefix p.
Proof.
  intros Hwf Harr. unfold to_strings, index_of. f_equal.
  destruct (gp_elems p) as [|e0 l0] eqn:E; [reflexivity|].
  rewrite <- E in *. clear E e0 l0. unfold gpath_wf in Hwf.
  induction (gp_elems p) as [|e l IH]; [reflexivity|].
  inversion Hwf; subst. destruct (Harr e (or_introl eq_refl)) as [Hp Hs].
  change (elem_index e ++ flat_map elem_index l =
          (fst e :: map snd (arr e)) ++ flat_map (fun e => fst e :: map snd (arr e)) l).
  rewrite (elem_index_sorted e (arr e)); auto. f_equal.
  apply IH; auto. intros; apply Harr; now right.
Qed.

(** target and origin lead the index only when requested and non-empty, in
    that order; without the flag they play no role at all *)
Lemma to_strings_prefix_flag p :
  to_strings true p = nonempty (gp_target p) ++ nonempty (gp_origin p) ++ to_strings false p.
Proof. unfold to_strings. cbn. now rewrite app_assoc. Qed.

Lemma to_strings_noprefix_ignores t o t' o' es el :
  to_strings false (GPath t o es el) = to_strings false (GPath t' o' es el).
Proof. reflexivity. Qed.

Lemma nonempty_spec s : nonempty s = if String.eqb s "" then [] else [s].
Proof. reflexivity. Qed.

(** * CompletePath *)

Definition set (s : string) : Prop := s <> "".

Lemma eqb_empty_set s : String.eqb s "" = false <-> set s.
Proof. unfold set. destruct (String.eqb_spec s ""); split; congruence. Qed.

(** never a panic; rejected iff both origins are set, or the path carries an
    origin while the prefix has elements; otherwise the origin (whichever is
    set), the prefix index, the path index *)
Lemma complete_path_spec pre p :
  (forall w, complete_path pre p <> Panic w) /\
  ((exists c, complete_path pre p = Err c) <->
   (set (gp_origin pre) /\ set (gp_origin p)) \/
   (set (gp_origin p) /\ to_strings false pre <> [])) /\
  (forall r, complete_path pre p = Ok r ->
   r = nonempty (gp_origin pre) ++ nonempty (gp_origin p) ++ to_strings false pre ++ to_strings false p).
Proof.
  unfold complete_path, nonempty.
  generalize (to_strings false pre) as ip, (to_strings false p) as iq. intros ip iq.
  destruct (String.eqb_spec (gp_origin pre) "") as [E1|E1];
    destruct (String.eqb_spec (gp_origin p) "") as [E2|E2]; unfold set; cbn [negb andb app].
  - split; [discriminate|]. split.
    + split; [intros [c H]; discriminate|]. intros [[H _]|[H _]]; congruence.
    + intros r H; inversion H; reflexivity.
  - destruct ip as [|x l]; (split; [discriminate|]); split.
    + split; [intros [c H]; discriminate|]. intros [[H _]|[_ H]]; congruence.
    + intros r H; inversion H; reflexivity.
    + split; [|eauto]. intros _. right. split; [assumption|discriminate].
    + discriminate.
  - split; [discriminate|]. split.
    + split; [intros [c H]; discriminate|]. intros [[_ H]|[H _]]; congruence.
    + intros r H; inversion H; reflexivity.
  - split; [discriminate|]. split.
    + split; [|eauto]. intros _. left. split; assumption.
    + discriminate.
Qed.

(** * joinPrefixAndPath (cache): the target is dropped when there is one *)
Lemma join_prefix_and_path_target pr ph :
  set (gp_target pr) ->
  join_prefix_and_path pr ph = Ok (nonempty (gp_origin pr) ++ to_strings false pr ++ to_strings false ph).
Proof.
  intros Hs. apply eqb_empty_set in Hs. unfold join_prefix_and_path.
  rewrite to_strings_prefix_flag. unfold nonempty at 1. rewrite Hs. cbn. now rewrite app_assoc.
Qed.

(** * Examples (the hypotheses are satisfiable, the results non-trivial) *)

Example ex_path : gpath :=
  GPath "dev" "oc" [("a", []); ("b", [("k2", "v1"); ("k1", "v2")]); ("c", [("only", "x")])] [].
Example ex_path' : gpath :=
  GPath "dev" "oc" [("a", []); ("b", [("k1", "v2"); ("k2", "v1")]); ("c", [("only", "x")])] [].

Example ex_path_index : to_strings true ex_path = ["dev"; "oc"; "a"; "b"; "v2"; "v1"; "c"; "x"].
Proof. reflexivity. Qed.

Example ex_path_wf : gpath_wf ex_path.
Proof.
  repeat constructor; cbn; try (intuition discriminate).
Qed.

Example ex_path_equiv : gpath_equiv ex_path ex_path'.
Proof.
  unfold gpath_equiv, ex_path, ex_path'; cbn. repeat split.
  constructor; [split; reflexivity|]. constructor; [split; [reflexivity|apply perm_swap]|].
  constructor; [split; reflexivity|constructor].
Qed.

Example ex_complete_reject :
  complete_path (GPath "" "" [("a", [])] []) (GPath "" "oc" [("b", [])] []) = Err err_origin_after_elems.
Proof. reflexivity. Qed.

Example ex_complete_accept :
  complete_path (GPath "t" "oc" [("a", [])] []) (GPath "" "" [("b", [("k", "v")])] []) = Ok ["oc"; "a"; "b"; "v"].
Proof. reflexivity. Qed.

(** The client query round trip (QueryString.v): a query made of plain
    elements -- non-empty, without backslash, brackets or space; '/' and '='
    are allowed -- whose last element does not end in '/' is turned into a
    string by pathToString, split and parsed by ygot.StringToPath, and indexed
    by the server as exactly the same elements.  For all queries, all byte
    strings. *)
From Gnmi Require Import Base.Prelude Path.PathModel Path.QueryString Value.Utf8 Value.Utf8Proofs.
Open Scope string_scope.

(** * strings *)

Lemma sapp_nil_r s : s ++ "" = s.
Proof. induction s; cbn; congruence. Qed.

Lemma sapp_assoc a b c : (a ++ b) ++ c = a ++ (b ++ c).
Proof. induction a; cbn; congruence. Qed.

Lemma snoc_app buf c r : snoc buf c ++ r = buf ++ String c r.
Proof. unfold snoc. now rewrite sapp_assoc. Qed.

Lemma str_empty_false_app a b : str_empty b = false -> str_empty (a ++ b) = false.
Proof. destruct a; cbn; auto. Qed.

(** * plain characters *)

Lemma plain_char_spec c :
  plain_char c = true ->
  Ascii.eqb c ch_bslash = false /\ Ascii.eqb c ch_lbr = false /\
  Ascii.eqb c ch_rbr = false /\ Ascii.eqb c ch_space = false.
Proof.
  unfold plain_char. rewrite negb_true_iff, !orb_false_iff. tauto.
Qed.

Lemma slash_not_special :
  Ascii.eqb ch_slash ch_lbr = false /\ Ascii.eqb ch_slash ch_rbr = false /\
  Ascii.eqb ch_slash ch_bslash = false /\ Ascii.eqb ch_bslash ch_lbr = false /\
  Ascii.eqb ch_bslash ch_rbr = false.
Proof. repeat split; reflexivity. Qed.

(** * SplitPath on an escaped plain element *)

Lemma split_go_plain e : forall rest parts buf,
  all_chars plain_char e = true ->
  split_go (escape_slash e ++ rest) parts buf false false = split_go rest parts (buf ++ e) false false.
Proof.
  induction e as [|c e IH]; intros rest parts buf Hp; cbn.
  - now rewrite sapp_nil_r.
  - cbn in Hp. apply andb_true_iff in Hp as [Hc He].
    destruct (plain_char_spec c Hc) as (Hb & Hl & Hr & _).
    destruct (Ascii.eqb c ch_slash) eqn:Es.
    + apply Ascii.eqb_eq in Es. subst c. cbn. rewrite IH by assumption. now rewrite snoc_app.
    + cbn. rewrite Hl, Hr, Hb, Es. cbn. rewrite IH by assumption. now rewrite snoc_app.
Qed.

Lemma plain_nonempty e : plain e = true -> str_empty e = false /\ all_chars plain_char e = true.
Proof. unfold plain. rewrite !andb_true_iff, negb_true_iff. tauto. Qed.

Lemma plain_valid e : plain e = true -> utf8_valid e = true.
Proof. unfold plain. rewrite !andb_true_iff. tauto. Qed.

Lemma path_to_string_cons e e2 q :
  path_to_string (e :: e2 :: q) = escape_slash e ++ String ch_slash (path_to_string (e2 :: q)).
Proof. reflexivity. Qed.

(** the loop of SplitPath over a whole query: completed parts plus the buffer
    are the query elements *)
Lemma split_go_query q : forall e parts buf,
  forallb plain (e :: q) = true ->
  let r := split_go (path_to_string (e :: q)) parts buf false false in
  (fst r ++ [snd r])%list = (parts ++ (buf ++ e)%string :: q)%list /\ str_empty (snd r) = false.
Proof.
  induction q as [|e2 q IH]; intros e parts buf Hp.
  - cbn in Hp. rewrite andb_true_r in Hp. destruct (plain_nonempty e Hp) as [Hne Hpc].
    unfold path_to_string; cbn [map join_slash].
    rewrite <- (sapp_nil_r (escape_slash e)). rewrite split_go_plain by assumption. cbn.
    split; [reflexivity|]. now apply str_empty_false_app.
  - change (forallb plain (e :: e2 :: q)) with (plain e && forallb plain (e2 :: q)) in Hp.
    apply andb_true_iff in Hp as [Hpe Hq]. destruct (plain_nonempty e Hpe) as [Hne Hpc].
    rewrite path_to_string_cons, split_go_plain by assumption.
    cbn [split_go]. change (Ascii.eqb ch_slash ch_lbr) with false.
    change (Ascii.eqb ch_slash ch_rbr) with false. change (Ascii.eqb ch_slash ch_bslash) with false.
    change (Ascii.eqb ch_slash ch_slash) with true. cbn [andb negb].
    specialize (IH e2 (parts ++ [(buf ++ e)%string])%list "" Hq). cbn zeta in IH. destruct IH as [IH1 IH2].
    split; [|exact IH2]. rewrite IH1. now rewrite <- app_assoc.
Qed.

Lemma split_path_query e q :
  forallb plain (e :: q) = true -> split_path (path_to_string (e :: q)) = e :: q.
Proof.
  intros Hp. unfold split_path, split_path_gen.
  pose proof (split_go_query q e [] "" Hp) as H. cbn zeta in H.
  destruct (split_go (path_to_string (e :: q)) [] "" false false) as [parts buf].
  cbn [fst snd] in H. destruct H as [H1 H2]. rewrite H2. cbn [negb orb]. exact H1.
Qed.

(** * the trailing-slash test of PathStringToElements *)

Lemma ends_with_app c a b : str_empty b = false -> ends_with c (a ++ b) = ends_with c b.
Proof.
  intros Hb. induction a as [|d a IH]; cbn; [reflexivity|].
  rewrite IH. destruct (a ++ b) eqn:E; [|reflexivity].
  destruct a; cbn in E; [subst b; discriminate|discriminate].
Qed.

Lemma escape_slash_empty e : str_empty (escape_slash e) = str_empty e.
Proof. destruct e; cbn; [reflexivity|]. destruct (Ascii.eqb a ch_slash); reflexivity. Qed.

Lemma ends_with_cons c d r :
  ends_with c (String d r) = if str_empty r then Ascii.eqb d c else ends_with c r.
Proof. destruct r; reflexivity. Qed.

Lemma ends_with_escape e : ends_with ch_slash (escape_slash e) = ends_with ch_slash e.
Proof.
  induction e as [|c e IH]; [reflexivity|].
  rewrite (ends_with_cons ch_slash c e). cbn [escape_slash].
  destruct (Ascii.eqb c ch_slash) eqn:Es.
  - rewrite !ends_with_cons. cbn [str_empty]. rewrite escape_slash_empty, IH. reflexivity.
  - rewrite ends_with_cons, escape_slash_empty, IH, Es. reflexivity.
Qed.

Lemma path_to_string_nonempty e q : plain e = true -> str_empty (path_to_string (e :: q)) = false.
Proof.
  intros Hp. destruct (plain_nonempty e Hp) as [Hne _].
  destruct q; unfold path_to_string; cbn [map join_slash].
  - now rewrite escape_slash_empty.
  - destruct (escape_slash e) eqn:E; [|reflexivity].
    rewrite <- escape_slash_empty, E in Hne. discriminate.
Qed.

Lemma ends_with_query q : forall e,
  forallb plain (e :: q) = true ->
  ends_with ch_slash (path_to_string (e :: q)) = ends_with ch_slash (List.last (e :: q) "").
Proof.
  induction q as [|e2 q IH]; intros e Hp.
  - unfold path_to_string; cbn [map join_slash List.last]. apply ends_with_escape.
  - change (forallb plain (e :: e2 :: q)) with (plain e && forallb plain (e2 :: q)) in Hp.
    apply andb_true_iff in Hp as [Hpe Hq].
    rewrite path_to_string_cons.
    change (List.last (e :: e2 :: q) "") with (List.last (e2 :: q) "").
    rewrite <- IH by assumption.
    rewrite ends_with_app by reflexivity.
    assert (Hne : str_empty (path_to_string (e2 :: q)) = false).
    { apply path_to_string_nonempty. cbn in Hq. now apply andb_true_iff in Hq as [? _]. }
    destruct (path_to_string (e2 :: q)) eqn:E; [discriminate|]. reflexivity.
Qed.

Lemma elements_query e q :
  forallb plain (e :: q) = true -> last_ok (e :: q) = true ->
  path_string_to_elements (path_to_string (e :: q)) = e :: q.
Proof.
  intros Hp Hl. unfold path_string_to_elements, elements_gen. rewrite split_path_query by assumption.
  assert (Hpe : plain e = true) by (cbn in Hp; now apply andb_true_iff in Hp as [? _]).
  destruct (plain_nonempty e Hpe) as [Hne _].
  destruct e as [|c e]; [discriminate|].
  rewrite ends_with_query by assumption.
  unfold last_ok in Hl. apply negb_true_iff in Hl. now rewrite Hl.
Qed.

(** * extractKV on a plain element *)

Lemma kv_run_plain e : forall buf,
  all_chars plain_char e = true ->
  kv_run e (KV false false false "" "" buf []) = Some (KV false false false "" "" (buf ++ e) []).
Proof.
  induction e as [|c e IH]; intros buf Hp; cbn.
  - now rewrite sapp_nil_r.
  - cbn in Hp. apply andb_true_iff in Hp as [Hc He].
    destruct (plain_char_spec c Hc) as (Hb & Hl & Hr & _).
    rewrite Hl, Hr, Hb. cbn. rewrite andb_false_r. cbn.
    rewrite IH by assumption. now rewrite snoc_app.
Qed.

Lemma no_space e : all_chars plain_char e = true -> contains_char ch_space e = false.
Proof.
  induction e as [|c e IH]; cbn; [reflexivity|].
  intros Hp. apply andb_true_iff in Hp as [Hc He].
  destruct (plain_char_spec c Hc) as (_ & _ & _ & Hs). now rewrite Hs, IH.
Qed.

Lemma extract_kv_plain e : plain e = true -> extract_kv e = Some (e, []).
Proof.
  intros Hp. destruct (plain_nonempty e Hp) as [Hne Hpc].
  unfold extract_kv. rewrite (sanitize_valid e (plain_valid e Hp)).
  unfold extract_kv_bytes. rewrite kv_run_plain by assumption. cbn. now rewrite no_space.
Qed.

Lemma structured_plain q :
  forallb plain q = true -> structured q = Some (map (fun e => (e, [])) q).
Proof.
  induction q as [|e q IH]; cbn; [reflexivity|].
  intros Hp. apply andb_true_iff in Hp as [He Hq].
  now rewrite extract_kv_plain, IH.
Qed.

Lemma string_slice_plain q : forallb plain q = true -> string_slice q = Some q.
Proof.
  induction q as [|e q IH]; cbn; [reflexivity|].
  intros Hp. apply andb_true_iff in Hp as [He Hq].
  rewrite extract_kv_plain by assumption. destruct (plain_nonempty e He) as [Hne _].
  unfold elem_to_string. rewrite Hne. now rewrite IH.
Qed.

Lemma to_strings_plain_elems q el :
  q <> [] -> to_strings false (GPath "" "" (map (fun e => (e, [])) q) el) = q.
Proof.
  intros Hq. unfold to_strings. cbn [gp_elems gp_element app].
  destruct q as [|e q]; [congruence|]. clear Hq.
  change (map (fun e0 : string => (e0, [])) (e :: q)) with ((e, @nil (string * string)) :: map (fun e0 : string => (e0, [])) q).
  cbn [flat_map elem_index fst snd app]. f_equal.
  induction q as [|x q IH]; cbn; [reflexivity|]. now rewrite IH.
Qed.

(** * the query string of valid elements is valid UTF-8 *)

Lemma escape_slash_app a b : escape_slash (a ++ b) = escape_slash a ++ escape_slash b.
Proof.
  induction a as [|c a IH]; cbn; [reflexivity|].
  destruct (Ascii.eqb c ch_slash); cbn; now rewrite IH.
Qed.

Lemma high_not_slash c : (byte_of c <? 128)%N = false -> Ascii.eqb c ch_slash = false.
Proof.
  intros H. destruct (Ascii.eqb c ch_slash) eqn:E; [|reflexivity].
  apply Ascii.eqb_eq in E. subst c. discriminate.
Qed.

Lemma escape_slash_rune u :
  rune u -> utf8_valid (escape_slash u) = true /\ (forall r, utf8_valid (escape_slash u ++ r) = utf8_valid r).
Proof.
  destruct 1 as [c H1|c c1 H1 H2 H3|c c1 c2 H1 H2 H3 H4 H5|c c1 c2 c3 H1 H2 H3 H4 H5 H6 H7].
  - cbn [escape_slash]. destruct (Ascii.eqb c ch_slash) eqn:E.
    + split; reflexivity.
    + split; [cbn; now rewrite H1|intros r; cbn; now rewrite H1].
  - assert (E : escape_slash (String c (String c1 "")) = String c (String c1 "")).
    { cbn. now rewrite (high_not_slash c H1), (high_not_slash c1 (cont_high _ H3)). }
    rewrite E. assert (Hr : rune (String c (String c1 ""))) by now constructor.
    split; [rewrite <- (sapp_nil_r (String c (String c1 ""))); now rewrite utf8_valid_at|].
    intros r. now apply utf8_valid_at.
  - assert (E : escape_slash (String c (String c1 (String c2 ""))) = String c (String c1 (String c2 ""))).
    { cbn. now rewrite (high_not_slash c H1), (high_not_slash c1 (second3_high _ _ H4)),
        (high_not_slash c2 (cont_high _ H5)). }
    rewrite E. assert (Hr : rune (String c (String c1 (String c2 "")))) by now constructor.
    split; [rewrite <- (sapp_nil_r (String c (String c1 (String c2 "")))); now rewrite utf8_valid_at|].
    intros r. now apply utf8_valid_at.
  - assert (E : escape_slash (String c (String c1 (String c2 (String c3 "")))) =
                String c (String c1 (String c2 (String c3 "")))).
    { cbn. now rewrite (high_not_slash c H1), (high_not_slash c1 (second4_high _ _ H5)),
        (high_not_slash c2 (cont_high _ H6)), (high_not_slash c3 (cont_high _ H7)). }
    rewrite E. assert (Hr : rune (String c (String c1 (String c2 (String c3 ""))))) by now constructor.
    split; [rewrite <- (sapp_nil_r (String c (String c1 (String c2 (String c3 ""))))); now rewrite utf8_valid_at|].
    intros r. now apply utf8_valid_at.
Qed.

Lemma escape_slash_valid e : utf8_valid e = true -> utf8_valid (escape_slash e) = true.
Proof.
  revert e. apply utf8_ind; [reflexivity|]. intros u r Hu Hr IH.
  rewrite escape_slash_app. destruct (escape_slash_rune u Hu) as [_ H]. now rewrite H.
Qed.

Lemma path_to_string_valid q : forallb utf8_valid q = true -> utf8_valid (path_to_string q) = true.
Proof.
  induction q as [|e q IH]; [reflexivity|]. intros H. cbn in H. apply andb_true_iff in H as [He Hq].
  destruct q as [|e2 q]; [unfold path_to_string; cbn [map join_slash]; now apply escape_slash_valid|].
  rewrite path_to_string_cons. rewrite utf8_valid_app by now apply escape_slash_valid.
  change (utf8_valid (path_to_string (e2 :: q)) = true). now apply IH.
Qed.

Lemma plain_all_valid q : forallb plain q = true -> forallb utf8_valid q = true.
Proof.
  induction q as [|e q IH]; cbn; [reflexivity|]. intros H. apply andb_true_iff in H as [He Hq].
  now rewrite (plain_valid e He), IH.
Qed.

(** on a query of valid elements the rune loop and the byte loop coincide *)
Lemma go_elements_valid q :
  forallb utf8_valid q = true ->
  go_path_string_to_elements (path_to_string q) = path_string_to_elements (path_to_string q).
Proof.
  intros H. unfold go_path_string_to_elements, path_string_to_elements, split_path.
  now rewrite (sanitize_valid _ (path_to_string_valid q H)).
Qed.

(** * the round trip *)

Theorem query_roundtrip q :
  forallb plain q = true -> last_ok q = true -> query_index q = Ok q.
Proof.
  intros Hp Hl. destruct q as [|e q]; [reflexivity|].
  unfold query_index, query_path, string_to_path.
  rewrite go_elements_valid by now apply plain_all_valid.
  rewrite elements_query, structured_plain, string_slice_plain by assumption.
  rewrite to_strings_plain_elems by discriminate. reflexivity.
Qed.

(** the subscription path itself: one keyless PathElem per element, and the
    same elements in the deprecated string form *)
Theorem query_path_plain q :
  forallb plain q = true -> last_ok q = true ->
  query_path q = Ok (GPath "" "" (map (fun e => (e, [])) q) q).
Proof.
  intros Hp Hl. destruct q as [|e q]; [reflexivity|].
  unfold query_path, string_to_path.
  rewrite go_elements_valid by now apply plain_all_valid.
  now rewrite elements_query, structured_plain, string_slice_plain by assumption.
Qed.

(** without the side condition on the last element the statement is false:
    the element is lost (known finding KF-C19-3) *)
Lemma query_roundtrip_trailing_slash_refuted :
  exists q, forallb plain q = true /\ query_index q <> Ok q.
Proof. exists ["a"; "b/"]. split; [reflexivity|]. vm_compute. discriminate. Qed.

(** invalid UTF-8 does not survive the trip (each offending byte becomes U+FFFD) *)
Example query_invalid_utf8_mangled :
  query_index [String (ascii_of_N 255) "a"] = Ok [(fffd ++ "a")%string].
Proof. reflexivity. Qed.

(** elements that are not plain do arrive mangled -- the guard is needed *)
Example query_backslash_mangled : query_index ["a\"; "b"] = Ok ["a/b"].
Proof. reflexivity. Qed.
Example query_key_syntax_parsed : query_index ["a[x=1]"] = Ok ["a"; "1"].
Proof. reflexivity. Qed.

Example query_roundtrip_example :
  forallb plain ["interfaces"; "a/b"; "x=y"; "/c"] = true /\ last_ok ["interfaces"; "a/b"; "x=y"; "/c"] = true /\
  query_index ["interfaces"; "a/b"; "x=y"; "/c"] = Ok ["interfaces"; "a/b"; "x=y"; "/c"].
Proof. repeat split; reflexivity. Qed.

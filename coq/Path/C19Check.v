(** Correspondence evaluator and executable property checker (K_P) for C19.

    One case = one input handed to the real code together with what it
    returned, projected (error text dropped, NaNs compared as "some NaN").
    [check_case] compares the observation
      (a) with the model (PathModel / QueryString / ValueModel)  -- tag 1;
      (b) with the executable specification below, which is written
          independently of the model (different formulation: sorting pairs by
          key instead of sorting keys and looking up; "reject iff" instead of
          the switch; structural equality instead of the arm-by-arm
          comparison)                                            -- tags 2..9,
          or 10+k inside known-finding class k.

    Tags: 2 indexing not deterministic, 3 indexing differs from the
    specification, 4 CompletePath, 5 client query round trip, 6 scalar round
    trip, 7 FromScalar/ToScalar panicked, 8 Equal panicked, 9 Equal not
    symmetric or true on different values.
    An outcome that depends on the in-memory representation of an equal
    message ([RDiff]) fails the tag of its case kind (3, 4, 5, 6, 9).
    Known class: 13 last query element ending in '/' dropped (KF-C19-3).
    (Classes 11 / 12 were the nil dereferences of Equal / ToScalar, DEFECT
    C19_1 / C19_2, fixed by b28d6aa / e8be1b1: such a panic is now an ordinary
    failure, tag 8 / 7.) *)
From Gnmi Require Import Base.Prelude Path.PathModel Path.QueryString Value.ValueModel.
Open Scope list_scope.

(** observed outcome; the class of an error is not observed.  [RDiff]: the
    harness handed the function the SAME message in several in-memory
    representations (nil vs allocated-empty slices and maps, which protobuf
    does not distinguish: proto.Equal, identical wire bytes) or called it twice
    on the same input, and the outcomes differed.  The model sees only the
    message, so [RDiff] never equals a model outcome; under K_P it is a failure
    of "equal inputs index / convert / compare identically". *)
Inductive ores (A : Type) := ROk (a : A) | RErr | RPanic | RDiff.
Arguments ROk {A} a.
Arguments RErr {A}.
Arguments RPanic {A}.
Arguments RDiff {A}.

Definition project {A} (o : outcome A) : ores A :=
  match o with Ok a => ROk a | Err _ => RErr | Panic _ => RPanic end.

Definition qobs := (list pelem * list string * list string)%type.  (* Elem, Element, server index *)

Inductive case :=
| CIndex (prefix : bool) (p : option gpath) (runs : list (ores (list string)))
| CComplete (pre p : option gpath) (r : ores (list string))
| CJoin (pre p : option gpath) (r : ores (list string))
| CQuery (q : list string) (r : ores qobs)
| CFromTo (x : gscalar) (jvalid : list string) (r1 : ores tv) (r2 : ores gscalar)
| CToScalar (t : tv) (jvalid : list string) (r : ores gscalar)
| CEqual (a b : tv) (rab rba : ores bool).

(** ** decidable comparisons *)

Fixpoint list_eqb {A} (e : A -> A -> bool) (a b : list A) : bool :=
  match a, b with
  | [], [] => true
  | x :: a', y :: b' => e x y && list_eqb e a' b'
  | _, _ => false
  end.

Definition ores_eqb {A} (e : A -> A -> bool) (a b : ores A) : bool :=
  match a, b with
  | ROk x, ROk y => e x y
  | RErr, RErr => true
  | RPanic, RPanic => true
  | _, _ => false            (* RDiff equals nothing, not even itself *)
  end.

Definition strs_eqb := list_eqb String.eqb.

Definition kv_eqb (a b : string * string) := String.eqb (fst a) (fst b) && String.eqb (snd a) (snd b).
Definition kv_leb (a b : string * string) := String.leb (fst a) (fst b).

(** key maps are compared as maps: sorted by key name *)
Definition pelem_eqb (a b : pelem) : bool :=
  String.eqb (fst a) (fst b) && list_eqb kv_eqb (isort kv_leb (snd a)) (isort kv_leb (snd b)).

Definition f64_same (a b : N) : bool := N.eqb a b || (f64_is_nan a && f64_is_nan b).
Definition f32_same (a b : N) : bool := N.eqb a b || (f32_is_nan a && f32_is_nan b).

Definition tvs_eqb (e : tv -> tv -> bool) : list tv -> list tv -> bool :=
  fix go a b :=
    match a, b with
    | [], [] => true
    | x :: a', y :: b' => e x y && go a' b'
    | _, _ => false
    end.

(** structural equality of TypedValues (NaNs as one value) *)
Fixpoint tv_eqb (a b : tv) {struct a} : bool :=
  match a, b with
  | TVnil, TVnil | TVunset, TVunset | TVDecimalNil, TVDecimalNil
  | TVLeaflistNil, TVLeaflistNil | TVAny, TVAny => true
  | TVString x, TVString y | TVBytes x, TVBytes y | TVJson x, TVJson y
  | TVJsonIetf x, TVJsonIetf y | TVAscii x, TVAscii y | TVProtoBytes x, TVProtoBytes y => String.eqb x y
  | TVInt x, TVInt y => Z.eqb x y
  | TVUint x, TVUint y => N.eqb x y
  | TVBool x, TVBool y => Bool.eqb x y
  | TVFloat x, TVFloat y => f32_same x y
  | TVDouble x, TVDouble y => f64_same x y
  | TVDecimal g p, TVDecimal g' p' => Z.eqb g g' && N.eqb p p'
  | TVLeaflist l, TVLeaflist l' => tvs_eqb tv_eqb l l'
  | _, _ => false
  end.

Definition iwidth_eqb (a b : iwidth) : bool :=
  match a, b with
  | W0, W0 | W8, W8 | W16, W16 | W32, W32 | W64, W64 => true
  | _, _ => false
  end.

Definition gs_list_eqb (e : gscalar -> gscalar -> bool) : list gscalar -> list gscalar -> bool :=
  fix go a b :=
    match a, b with
    | [], [] => true
    | x :: a', y :: b' => e x y && go a' b'
    | _, _ => false
    end.

(** decimalToFloat: float32(float64(digits) / math.Pow(10, precision)) is
    symbolic in the model; the observed float32 must be the decimal's value
    g / 10^p to within one unit in its last place (the double rounding and the
    inexact power stay far below that).  Beyond 10^400 the power overflows to
    +Inf in Go and the quotient is a zero. *)
Definition decimal_ok (g : Z) (p : N) (b : N) : bool :=
  if N.eqb (f32_exp b) 255 then false
  else
    let m := (if N.eqb (f32_exp b) 0 then f32_man b else f32_man b + 2 ^ 23)%N in
    let e := (if N.eqb (f32_exp b) 0 then -149 else Z.of_N (f32_exp b) - 150)%Z in
    if N.ltb 400 p then N.eqb m 0
    else
      let v := (if N.eqb (f32_sign b) 1 then - Z.of_N m else Z.of_N m)%Z in
      let t := (10 ^ Z.of_N p)%Z in
      if (0 <=? e)%Z then (Z.abs (v * t * 2 ^ e - g) <=? t * 2 ^ e)%Z
      else (Z.abs (v * t - g * 2 ^ (- e)) <=? t)%Z.

(** equality of Go scalars as observed. *)
Fixpoint gs_eqb (a b : gscalar) {struct a} : bool :=
  match a, b with
  | GString x, GString y | GBytes x, GBytes y => String.eqb x y
  | GInt w x, GInt w' y => iwidth_eqb w w' && Z.eqb x y
  | GUint w x, GUint w' y => iwidth_eqb w w' && N.eqb x y
  | GFloat32 x, GFloat32 y => f32_same x y
  | GFloat64 x, GFloat64 y => f64_same x y
  | GBool x, GBool y => Bool.eqb x y
  | GStrings x, GStrings y => strs_eqb x y
  | GList x, GList y => gs_list_eqb gs_eqb x y
  | GDecimalFloat g p, GFloat32 b | GFloat32 b, GDecimalFloat g p => decimal_ok g p b
  | GDecimalFloat g p, GDecimalFloat g' p' => Z.eqb g g' && N.eqb p p'
  | GDeprecated i x, GDeprecated i' y => Bool.eqb i i' && String.eqb x y
  | GOther, GOther => true
  | _, _ => false
  end.

Definition qobs_eqb (a b : qobs) : bool :=
  let '(e1, l1, i1) := a in
  let '(e2, l2, i2) := b in
  list_eqb pelem_eqb e1 e2 && strs_eqb l1 l2 && strs_eqb i1 i2.

(** ** the specification side *)

Definition is_nil {A} (l : list A) : bool := match l with [] => true | _ => false end.


(** index form: target / origin lead when requested and non-empty; each
    element's name is followed by its key values in key-name order; the
    deprecated [element] form is used only when there is no [elem]. *)
Definition spec_elem (e : pelem) : list string := fst e :: map snd (isort kv_leb (snd e)).

Definition nonempty_b (s : string) : bool := negb (String.eqb s "").

Definition spec_index (prefix : bool) (p : gpath) : list string :=
  (if prefix then filter nonempty_b [gp_target p; gp_origin p] else []) ++
  match gp_elems p with
  | [] => gp_element p
  | _ :: _ => List.concat (map spec_elem (gp_elems p))
  end.


(** CompletePath: reject iff both origins are set, or the path has an origin
    and the prefix has elements; otherwise origin (whichever is set), prefix
    index, path index. *)
Definition spec_complete (pre p : gpath) : ores (list string) :=
  let both := nonempty_b (gp_origin pre) && nonempty_b (gp_origin p) in
  let late := nonempty_b (gp_origin p) && negb (is_nil (spec_index false pre)) in
  if both || late then RErr
  else ROk (filter nonempty_b [gp_origin pre; gp_origin p] ++ spec_index false pre ++ spec_index false p).

(** scalars FromScalar accepts *)
Definition gs_forall (f : gscalar -> bool) : list gscalar -> bool :=
  fix go l := match l with [] => true | x :: l' => f x && go l' end.

Fixpoint supported (x : gscalar) : bool :=
  match x with
  | GString s => utf8_valid s
  | GList l => gs_forall supported l
  | GDecimalFloat _ _ | GDeprecated _ _ | GOther => false
  | _ => true
  end.

(** "the same value": structural, +0 = -0, a nil inner message = the empty one *)
Definition tv_norm_top (t : tv) : tv :=
  match t with
  | TVDecimalNil => TVDecimal 0 0
  | TVLeaflistNil => TVLeaflist []
  | _ => t
  end.

Definition tvs_same (e : tv -> tv -> bool) : list tv -> list tv -> bool :=
  fix go a b :=
    match a, b with
    | [], [] => true
    | x :: a', y :: b' => e x y && go a' b'
    | _, _ => false
    end.

Fixpoint tv_same (a b : tv) {struct a} : bool :=
  match a, b with
  | TVDouble x, TVDouble y => N.eqb x y || (f64_is_zero x && f64_is_zero y)
  | TVFloat x, TVFloat y => N.eqb x y || (f32_is_zero x && f32_is_zero y)
  | TVLeaflist l, TVLeaflist l' => tvs_same tv_same l l'
  | TVLeaflist l, TVLeaflistNil | TVLeaflistNil, TVLeaflist l => is_nil l
  | TVDecimal g p, TVDecimalNil | TVDecimalNil, TVDecimal g p => Z.eqb g 0 && N.eqb p 0
  | _, _ => tv_eqb a b
  end.

(** ** known-finding classes (narrow, computed from the input only) *)

Definition utf8_all (l : list string) : bool := forallb utf8_valid l.

Definition jv_of (valid : list string) (s : string) : bool := existsb (String.eqb s) valid.

(** ** verdicts *)

Definition flag (ok : bool) (tag : N) : list N := if ok then [] else [tag].

Definition bind_scalar (jv : string -> bool) (x : gscalar) : ores gscalar :=
  match from_scalar x with
  | Ok t => project (to_scalar jv t)
  | Err _ => RErr
  | Panic _ => RPanic
  end.

Definition is_panic {A} (r : ores A) : bool := match r with RPanic => true | _ => false end.
Definition is_err {A} (r : ores A) : bool := match r with RErr => true | _ => false end.
Definition is_diff {A} (r : ores A) : bool := match r with RDiff => true | _ => false end.

Definition check_case (c : case) : list N :=
  match c with
  | CIndex prefix p runs =>
      let g := gp_of_opt p in
      let m := ROk (to_strings prefix g) in
      let s := ROk (spec_index prefix g) in
      flag (forallb (ores_eqb strs_eqb m) runs) 1 ++
      flag (match runs with [] => true | r0 :: _ => forallb (ores_eqb strs_eqb r0) runs end) 2 ++
      flag (forallb (ores_eqb strs_eqb s) runs) 3
  | CComplete pre p r =>
      let a := gp_of_opt pre in
      let b := gp_of_opt p in
      flag (ores_eqb strs_eqb r (project (complete_path a b))) 1 ++
      flag (ores_eqb strs_eqb r (spec_complete a b)) 4
  | CJoin pre p r =>
      flag (ores_eqb strs_eqb r (project (join_prefix_and_path (gp_of_opt pre) (gp_of_opt p)))) 1
  | CQuery q r =>
      flag (ores_eqb qobs_eqb r
              (match query_path q with
               | Ok p => ROk (gp_elems p, gp_element p, to_strings false p)
               | Err _ => RErr
               | Panic _ => RPanic
               end)) 1 ++
      (if forallb plain q then
         let ok := match r with ROk (_, _, idx) => strs_eqb idx q | _ => false end in
         if ok then [] else if last_ok q then [5%N] else [13%N]
       else [])
  | CFromTo x jvalid r1 r2 =>
      let jv := jv_of jvalid in
      flag (ores_eqb tv_eqb r1 (project (from_scalar x)) && ores_eqb gs_eqb r2 (bind_scalar jv x)) 1 ++
      flag (negb (is_panic r1) && negb (is_panic r2)) 7 ++
      flag (match r1 with
            | ROk _ => supported x && ores_eqb gs_eqb r2 (ROk (widen x))
            | RErr => negb (supported x) && is_err r2
            | RPanic => true    (* reported under tag 7 *)
            | RDiff => false
            end && negb (is_diff r2)) 6
  | CToScalar t jvalid r =>
      flag (ores_eqb gs_eqb r (project (to_scalar (jv_of jvalid) t))) 1 ++
      (if is_panic r then [7%N] else if is_diff r then [6%N] else [])
  | CEqual a b rab rba =>
      flag (ores_eqb Bool.eqb rab (project (equal a b)) && ores_eqb Bool.eqb rba (project (equal b a))) 1 ++
      (if is_panic rab || is_panic rba
       then [8%N]
       else
         flag (negb (is_diff rab) && negb (is_diff rba) && ores_eqb Bool.eqb rab rba &&
               match rab with ROk true => tv_same a b | _ => true end &&
               match rba with ROk true => tv_same b a | _ => true end) 9)
  end.

Fixpoint check_all_from (i : nat) (cs : list case) : list (nat * nat * N) :=
  match cs with
  | [] => []
  | c :: cs' => map (fun t => (i, 0%nat, t)) (check_case c) ++ check_all_from (S i) cs'
  end.

Definition check_all (cs : list case) : list (nat * nat * N) := check_all_from 0 cs.

(** Executable model of path/path.go (ToStrings, sortedVals, CompletePath) and
    of cache.joinPrefixAndPath (cache/cache.go).

    A gNMI path is modelled concretely.  The keys of a path element are a Go
    [map[string]string]: an association list in ARBITRARY order whose key
    names are pairwise distinct ([NoDup (keys m)], predicate [gpath_wf]).  No
    function below may depend on that order; PathProofs.to_strings_perm says
    so.

    A nil [*gnmi.Path] behaves in every function of this file exactly like the
    empty path (all getters of the generated code are nil-safe, and ToStrings
    returns an empty slice for nil); users that receive an optional path write
    [gp_of_opt].  A nil [*gnmi.PathElem] inside [Elem] likewise behaves like
    an element with empty name and no keys ([GetName]/[GetKey] on nil).

    Definitions only (proofs: PathProofs.v), all evaluable by vm_compute. *)
From Gnmi Require Export Base.Prelude.

(** one path element: name and key map *)
Definition pelem := (string * list (string * string))%type.

Record gpath := GPath {
  gp_target  : string;
  gp_origin  : string;
  gp_elems   : list pelem;       (* Path.Elem *)
  gp_element : list string       (* Path.Element, deprecated, used when Elem is empty *)
}.

Definition empty_gpath : gpath := GPath "" "" [] [].

(** an absent (nil) path *)
Definition gp_of_opt (o : option gpath) : gpath :=
  match o with Some p => p | None => empty_gpath end.

(** plain constructors used by other components *)
Definition gp_of_names (names : list string) : gpath :=
  GPath "" "" (map (fun n => (n, [])) names) [].

Definition gp_prefix (target origin : string) (names : list string) : gpath :=
  GPath target origin (map (fun n => (n, [])) names) [].

(** well-formedness: key maps have distinct key names (they are Go maps) *)
Definition pelem_wf (e : pelem) : Prop := NoDup (keys (snd e)).
Definition gpath_wf (p : gpath) : Prop := Forall pelem_wf (gp_elems p).

(** Go's [m[k]] on a [map[string]string]: the zero value when absent. *)
Definition map_get (m : list (string * string)) (k : string) : string :=
  match assoc k m with Some v => v | None => "" end.

(** sortedVals: key names sorted bytewise (sort.Strings), then the values in
    that order. *)
Definition sort_strings (l : list string) : list string := isort String.leb l.

Definition sorted_vals (m : list (string * string)) : list string :=
  map (map_get m) (sort_strings (keys m)).

(** the body of the loop over Elem: name, then the key values.  The switch on
    [len(keys)] is kept as in the code (the single-key case ranges over the
    map and appends the only value). *)
Definition elem_index (e : pelem) : list string :=
  fst e ::
  match snd e with
  | [] => []
  | [kv] => [snd kv]
  | _ :: _ :: _ => sorted_vals (snd e)
  end.

Definition nonempty (s : string) : list string :=
  if String.eqb s "" then [] else [s].

(** ToStrings(p, prefix) *)
Definition to_strings (prefix : bool) (p : gpath) : list string :=
  (if prefix then nonempty (gp_target p) ++ nonempty (gp_origin p) else []) ++
  match gp_elems p with
  | [] => gp_element p
  | _ :: _ => flat_map elem_index (gp_elems p)
  end.

(** error classes of CompletePath *)
Definition err_both_origins : N := 1.       (* "origin is set both in prefix and path" *)
Definition err_origin_after_elems : N := 2. (* "path elements in prefix are set even though origin is set in path" *)

(** CompletePath(prefix, path); the switch is kept in the order of the code.
    The target is never part of the result. *)
Definition complete_path (prefix path : gpath) : outcome (list string) :=
  let o_pre := gp_origin prefix in
  let o_path := gp_origin path in
  let indexed_prefix := to_strings false prefix in
  if negb (String.eqb o_pre "") && negb (String.eqb o_path "") then Err err_both_origins
  else if negb (String.eqb o_pre "") then
    Ok ((o_pre :: indexed_prefix) ++ to_strings false path)
  else if negb (String.eqb o_path "") then
    match indexed_prefix with
    | _ :: _ => Err err_origin_after_elems
    | [] => Ok ([o_path] ++ to_strings false path)
    end
  else Ok (indexed_prefix ++ to_strings false path).

(** cache.joinPrefixAndPath(pr, ph): [p[1:]] of the concatenation; slicing an
    empty slice from 1 panics (slice bounds out of range [1:0]).  Note that the
    element removed is the target only when the prefix has one. *)
Definition panic_join_empty : N := 1.

Definition join_prefix_and_path (pr ph : gpath) : outcome (list string) :=
  match to_strings true pr ++ to_strings false ph with
  | [] => Panic panic_join_empty
  | _ :: rest => Ok rest
  end.

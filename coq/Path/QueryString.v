(** Executable model of the way a client query reaches the wire:
    client/gnmi/client.go [pathToString] (escape every '/' inside an element,
    join with '/'), then ygot.StringToPath(s, StructuredPath, StringSlicePath)
    = util.SplitPath / util.PathStringToElements, ygot.extractKV, addKey,
    elemToString (ygot v0.29.20, ygot/pathstrings.go and util/path.go).

    Strings are byte strings.  The ygot loops range over RUNES and write them
    back with WriteRune: a byte that does not start a valid encoding becomes
    U+FFFD.  Every character the loops test for is ASCII and every byte of a
    multi-byte encoding takes the default branch (append, clear the escape
    flag), so "loop over the runes of s" is exactly "loop over the bytes of
    [sanitize s]" (Value/Utf8.v).  The loops below are written over bytes and
    the entry points apply them to [sanitize s]; on valid UTF-8 [sanitize] is
    the identity (Utf8Proofs.sanitize_valid).

    Definitions only, evaluable by vm_compute. *)
From Gnmi Require Export Base.Prelude Path.PathModel Value.Utf8.
Open Scope string_scope.

Definition ch_slash : ascii := "/"%char.
Definition ch_bslash : ascii := "\"%char.
Definition ch_lbr : ascii := "["%char.
Definition ch_rbr : ascii := "]"%char.
Definition ch_eq : ascii := "="%char.
Definition ch_space : ascii := " "%char.

Definition snoc (s : string) (c : ascii) : string := s ++ String c "".

(** strings.Replace(e, "/", "\\/", -1) *)
Fixpoint escape_slash (s : string) : string :=
  match s with
  | EmptyString => EmptyString
  | String c r =>
      if Ascii.eqb c ch_slash then String ch_bslash (String ch_slash (escape_slash r))
      else String c (escape_slash r)
  end.

(** strings.Join(l, "/") *)
Fixpoint join_slash (l : list string) : string :=
  match l with
  | [] => ""
  | [x] => x
  | x :: l' => x ++ String ch_slash (join_slash l')
  end.

Definition path_to_string (q : list string) : string := join_slash (map escape_slash q).

(** util.SplitPath: the loop.  [parts] are the parts completed so far, [buf]
    the current buffer. *)
Fixpoint split_go (s : string) (parts : list string) (buf : string) (inKey inEsc : bool)
  : list string * string :=
  match s with
  | EmptyString => (parts, buf)
  | String c r =>
      if Ascii.eqb c ch_lbr && negb inEsc then split_go r parts (snoc buf c) true false
      else if Ascii.eqb c ch_rbr && negb inEsc then split_go r parts (snoc buf c) false false
      else if Ascii.eqb c ch_bslash && negb inEsc && negb inKey then split_go r parts buf inKey true
      else if Ascii.eqb c ch_slash && negb inEsc && negb inKey then split_go r (parts ++ [buf])%list "" inKey inEsc
      else split_go r parts (snoc buf c) inKey false
  end.

Fixpoint ends_with (c : ascii) (s : string) : bool :=
  match s with
  | EmptyString => false
  | String d EmptyString => Ascii.eqb d c
  | String _ r => ends_with c r
  end.

Definition str_empty (s : string) : bool := match s with EmptyString => true | _ => false end.

(** the end of SplitPath: [n] is len(path) and [last_slash] whether its last
    rune is '/', both of the string as given (before any re-encoding) *)
Definition split_path_gen (n : nat) (last_slash : bool) (p : string) : list string :=
  let '(parts, buf) := split_go p [] "" false false in
  if negb (str_empty buf) || (negb (Nat.eqb n 1) && last_slash)
  then (parts ++ [buf])%list else parts.

(** util.PathStringToElements after SplitPath: drop a leading empty part, drop
    the last part when the string ends in '/' *)
Definition elements_gen (last_slash : bool) (parts : list string) : list string :=
  let parts := match parts with "" :: r => r | _ => parts end in
  match parts with
  | [] => []
  | _ :: _ => if last_slash then removelast parts else parts
  end.

(** byte-level reading (what the Go code does on valid UTF-8) *)
Definition split_path (p : string) : list string :=
  split_path_gen (String.length p) (ends_with ch_slash p) p.

Definition path_string_to_elements (p : string) : list string :=
  elements_gen (ends_with ch_slash p) (split_path p).

(** the Go code on arbitrary bytes: the loop sees the re-encoded runes *)
Definition go_path_string_to_elements (p : string) : list string :=
  elements_gen (ends_with ch_slash p)
    (split_path_gen (String.length p) (ends_with ch_slash p) (sanitize p)).

(** ygot.extractKV *)
Record kvst := KV {
  kv_esc : bool; kv_inkey : bool; kv_inval : bool;
  kv_name : string; kv_cur : string; kv_buf : string;
  kv_keys : list (string * string)
}.

Fixpoint contains_char (c : ascii) (s : string) : bool :=
  match s with
  | EmptyString => false
  | String d r => Ascii.eqb d c || contains_char c r
  end.

Definition err_query : N := 1.

(** addKey(keys, e, k, v) *)
Definition add_key (keys : list (string * string)) (e k v : string)
  : option (list (string * string)) :=
  if contains_char ch_space k then None
  else if str_empty e then None
  else if str_empty k then None
  else if str_empty v then None
  else Some (aset k v keys).

Definition kv_step (st : kvst) (c : ascii) : option kvst :=
  let '(KV esc inkey inval name cur buf keys) := st in
  if Ascii.eqb c ch_lbr && negb esc && negb inval && inkey then None
  else if Ascii.eqb c ch_lbr && negb esc && negb inkey then
    match keys with
    | [] => if str_empty buf then None else Some (KV esc true inval buf cur "" keys)
    | _ :: _ => Some (KV esc true inval name cur buf keys)
    end
  else if Ascii.eqb c ch_rbr && negb esc && negb inkey then None
  else if Ascii.eqb c ch_rbr && negb esc then
    match add_key keys name cur buf with
    | Some keys' => Some (KV esc false false name "" "" keys')
    | None => None
    end
  else if Ascii.eqb c ch_bslash && negb esc then Some (KV true inkey inval name cur buf keys)
  else if Ascii.eqb c ch_eq && inkey && negb esc && negb inval then
    Some (KV esc inkey true name buf "" keys)
  else Some (KV false inkey inval name cur (snoc buf c) keys).

Fixpoint kv_run (s : string) (st : kvst) : option kvst :=
  match s with
  | EmptyString => Some st
  | String c r => match kv_step st c with Some st' => kv_run r st' | None => None end
  end.

Definition extract_kv_bytes (s : string) : option (string * list (string * string)) :=
  match kv_run s (KV false false false "" "" "" []) with
  | None => None
  | Some st =>
      let name := match kv_keys st with [] => kv_buf st | _ :: _ => kv_name st end in
      match kv_keys st with
      | _ :: _ => if negb (str_empty (kv_buf st)) then None
                  else if contains_char ch_space name then None else Some (name, kv_keys st)
      | [] => if contains_char ch_space name then None else Some (name, [])
      end
  end.

(** extractKV ranges over runes as well *)
Definition extract_kv (s : string) : option (string * list (string * string)) :=
  extract_kv_bytes (sanitize s).

(** strings.Replace(v, "=", "\\=", -1) then "]" -> "\\]" *)
Fixpoint escape_char (x : ascii) (s : string) : string :=
  match s with
  | EmptyString => EmptyString
  | String c r =>
      if Ascii.eqb c x then String ch_bslash (String c (escape_char x r))
      else String c (escape_char x r)
  end.

(** ygot.elemToString: name[k1=v1][k2=v2] with the key names sorted *)
Definition elem_to_string (name : string) (kv : list (string * string)) : option string :=
  if str_empty name then None
  else match kv with
       | [] => Some name
       | _ :: _ =>
           if existsb (fun k => str_empty k) (keys kv) then None
           else Some (fold_left
                        (fun nm k =>
                           nm ++ "[" ++ k ++ "=" ++ escape_char ch_rbr (escape_char ch_eq (map_get kv k)) ++ "]")
                        (sort_strings (keys kv)) name)
       end.

(** StringToStructuredPath / StringToStringSlicePath over the parts *)
Fixpoint structured (parts : list string) : option (list pelem) :=
  match parts with
  | [] => Some []
  | p :: r =>
      match extract_kv p with
      | None => None
      | Some e => match structured r with Some es => Some (e :: es) | None => None end
      end
  end.

Fixpoint string_slice (parts : list string) : option (list string) :=
  match parts with
  | [] => Some []
  | p :: r =>
      match extract_kv p with
      | None => None
      | Some (name, kv) =>
          match elem_to_string name kv with
          | None => None
          | Some f => match string_slice r with Some fs => Some (f :: fs) | None => None end
          end
      end
  end.

(** ygot.StringToPath(s, StructuredPath, StringSlicePath): both forms or an error *)
Definition string_to_path (s : string) : outcome gpath :=
  let parts := go_path_string_to_elements s in
  match structured parts, string_slice parts with
  | Some es, Some el => Ok (GPath "" "" es el)
  | _, _ => Err err_query
  end.

(** the path of one subscription built by client/gnmi [subscribe] for query [q] *)
Definition query_path (q : list string) : outcome gpath := string_to_path (path_to_string q).

(** ... and how the server indexes it (subscribe.go: path.ToStrings(p, false)) *)
Definition query_index (q : list string) : outcome (list string) :=
  match query_path q with
  | Ok p => Ok (to_strings false p)
  | Err c => Err c
  | Panic w => Panic w
  end.

(** plain element: non-empty valid UTF-8, none of backslash [ ] space *)
Definition plain_char (c : ascii) : bool :=
  negb (Ascii.eqb c ch_bslash || Ascii.eqb c ch_lbr || Ascii.eqb c ch_rbr || Ascii.eqb c ch_space).

Fixpoint all_chars (f : ascii -> bool) (s : string) : bool :=
  match s with
  | EmptyString => true
  | String c r => f c && all_chars f r
  end.

Definition plain (e : string) : bool := negb (str_empty e) && all_chars plain_char e && utf8_valid e.

(** the last element of the query must not end in '/': PathStringToElements
    drops the last part whenever the STRING ends in '/', escaped or not
    (known finding KF-C19-3) *)
Definition last_ok (q : list string) : bool := negb (ends_with ch_slash (List.last q "")).

(** Soundness of the executable specification K_P of C19Check.v: when
    [check_case] raises no property tag on an observation, the observation
    satisfies the property as a proposition; and the specification functions
    agree with the models wherever the theorems say they must. *)
From Gnmi Require Import Base.Prelude Path.PathModel Path.QueryString Value.ValueModel.
From Gnmi Require Import Path.PathProofs Path.QueryProofs Value.ValueProofs Path.C19Check.
From Coq Require Import Sorting.Sorted.
Open Scope list_scope.

(** * decidable comparisons decide equality *)

Lemma list_eqb_eq {A} (e : A -> A -> bool) :
  (forall x y, e x y = true -> x = y) -> forall a b, list_eqb e a b = true -> a = b.
Proof.
  intros He. induction a as [|x a IH]; intros [|y b]; cbn; try discriminate; auto.
  intros H. apply andb_true_iff in H as [H1 H2]. f_equal; auto.
Qed.

Lemma strs_eqb_eq a b : strs_eqb a b = true -> a = b.
Proof. apply list_eqb_eq. intros x y. apply String.eqb_eq. Qed.

Lemma ores_eqb_eq {A} (e : A -> A -> bool) :
  (forall x y, e x y = true -> x = y) -> forall a b, ores_eqb e a b = true -> a = b.
Proof. intros He [x| | |] [y| | |]; cbn; try discriminate; auto. intros H. f_equal. auto. Qed.

Lemma flag_nil ok tag : flag ok tag = [] -> ok = true.
Proof. destruct ok; cbn; [reflexivity|discriminate]. Qed.

Lemma app_nil_inv {A} (a b : list A) : a ++ b = [] -> a = [] /\ b = [].
Proof. destruct a; cbn; [auto|discriminate]. Qed.

(** * indexing *)

Lemma nonempty_filter t o :
  filter nonempty_b [t; o] = nonempty t ++ nonempty o.
Proof. unfold nonempty_b, nonempty. cbn. destruct (String.eqb t ""), (String.eqb o ""); reflexivity. Qed.

Lemma concat_map_flat_map {A B} (f : A -> list B) l : List.concat (map f l) = flat_map f l.
Proof. induction l; cbn; congruence. Qed.

(** the specification of the index is the index shape of PathProofs with the
    insertion-sorted arrangement of each key map *)
Lemma spec_index_shape prefix p :
  spec_index prefix p = index_of (fun e => isort C19Check.kv_leb (snd e)) prefix p.
Proof.
  unfold spec_index, index_of. rewrite nonempty_filter. f_equal.
  destruct (gp_elems p); [reflexivity|]. now rewrite concat_map_flat_map.
Qed.

(** model = specification on well-formed paths *)
Theorem spec_index_correct prefix p : gpath_wf p -> to_strings prefix p = spec_index prefix p.
Proof.
  intros Hwf. rewrite spec_index_shape. apply to_strings_keys_sorted; auto.
  intros e He. unfold gpath_wf in Hwf. rewrite Forall_forall in Hwf.
  apply (sorted_arrangement_exists (snd e)). now apply Hwf.
Qed.

(** K_P on an indexing case: every one of the runs returned the specified index *)
Theorem K_index_sound prefix p runs :
  check_case (CIndex prefix p runs) = [] ->
  Forall (fun r => r = ROk (spec_index prefix (gp_of_opt p))) runs.
Proof.
  unfold check_case. intros H.
  apply app_nil_inv in H as [_ H]. apply app_nil_inv in H as [_ H]. apply flag_nil in H.
  rewrite forallb_forall in H. apply Forall_forall. intros r Hr.
  symmetry. apply (ores_eqb_eq strs_eqb strs_eqb_eq). now apply H.
Qed.

(** * CompletePath *)

Lemma is_nil_spec {A} (l : list A) : is_nil l = true <-> l = [].
Proof. destruct l; cbn; split; congruence. Qed.

Theorem spec_complete_correct pre p :
  gpath_wf pre -> gpath_wf p -> project (complete_path pre p) = spec_complete pre p.
Proof.
  intros Hw1 Hw2. unfold spec_complete, complete_path.
  rewrite <- !spec_index_correct by assumption. rewrite nonempty_filter. unfold nonempty, nonempty_b.
  generalize (to_strings false pre) as ip, (to_strings false p) as iq. intros ip iq.
  destruct (String.eqb (gp_origin pre) ""), (String.eqb (gp_origin p) ""); cbn; try reflexivity.
  destruct ip; reflexivity.
Qed.

Theorem K_complete_sound pre p r :
  check_case (CComplete pre p r) = [] -> r = spec_complete (gp_of_opt pre) (gp_of_opt p).
Proof.
  unfold check_case. intros H. apply app_nil_inv in H as [_ H]. apply flag_nil in H.
  now apply (ores_eqb_eq strs_eqb strs_eqb_eq).
Qed.

(** * client queries *)

Theorem K_query_sound q r :
  check_case (CQuery q r) = [] -> forallb plain q = true ->
  exists es el, r = ROk (es, el, q).
Proof.
  unfold check_case. intros H Hp.
  apply app_nil_inv in H as [_ H]. rewrite Hp in H.
  destruct r as [[[es el] idx]| | |].
  - destruct (strs_eqb idx q) eqn:E.
    + apply strs_eqb_eq in E. subst. eauto.
    + destruct (last_ok q); discriminate.
  - destruct (last_ok q); discriminate.
  - destruct (last_ok q); discriminate.
  - destruct (last_ok q); discriminate.
Qed.

(** * Equal *)

Lemma tvs_eqb_refl l : Forall (fun t => tv_eqb t t = true) l -> tvs_eqb tv_eqb l l = true.
Proof. induction 1; cbn; [reflexivity|]. now rewrite H, IHForall. Qed.

Lemma tvs_same_equiv l : forall l',
  Forall (fun a => forall b, tv_same a b = true -> tv_equiv a b) l ->
  tvs_same tv_same l l' = true -> Forall2 tv_equiv l l'.
Proof.
  induction l as [|x l IH]; intros [|y l'] Hf; cbn; try discriminate; [constructor|].
  intros H. apply andb_true_iff in H as [H1 H2]. inversion Hf; subst. constructor; auto.
Qed.

Lemma tvs_eqb_equiv l : forall l',
  Forall (fun a => forall b, tv_eqb a b = true -> tv_equiv a b) l ->
  tvs_eqb tv_eqb l l' = true -> Forall2 tv_equiv l l'.
Proof.
  induction l as [|x l IH]; intros [|y l'] Hf; cbn; try discriminate; [constructor|].
  intros H. apply andb_true_iff in H as [H1 H2]. inversion Hf; subst. constructor; auto.
Qed.

(** structural equality up to NaN payload is NOT "the same value" for two
    distinct NaNs, so [tv_same] uses bit equality on floats; [tv_eqb] is only
    used by it on the arms without floats *)
Local Arguments Z.eqb : simpl never.
Local Arguments N.eqb : simpl never.

Lemma tv_same_sound a : forall b, tv_same a b = true -> tv_equiv a b.
Proof.
  induction a as [a Hnl|l IH] using tv_ind'; intros b.
  - destruct a; try (exfalso; eapply Hnl; reflexivity); destruct b; cbn; try discriminate;
      intros H; eqb_to_eq; try (now constructor).
    all: try (destruct l; cbn in *; [now constructor|discriminate]).
  - destruct b; try (destruct l; cbn; discriminate).
    + intros H. change (tvs_same tv_same l l0 = true) in H. apply EqvList. now apply tvs_same_equiv.
    + destruct l; cbn; [intros _; constructor|discriminate].
Qed.

(** K_P on an Equal case: no panic, both directions agree, and "true" only on
    the same value *)
Theorem K_equal_sound a b rab rba :
  check_case (CEqual a b rab rba) = [] ->
  rab <> RPanic /\ rba <> RPanic /\ rab <> RDiff /\ rba <> RDiff /\
  rab = rba /\ (rab = ROk true -> tv_equiv a b).
Proof.
  unfold check_case. intros H. apply app_nil_inv in H as [_ H].
  destruct (is_panic rab || is_panic rba) eqn:Ep.
  - discriminate.
  - apply orb_false_iff in Ep as [E1 E2]. apply flag_nil in H.
    apply andb_true_iff in H as [H H3]. apply andb_true_iff in H as [H H2].
    apply andb_true_iff in H as [H H1]. apply andb_true_iff in H as [Hd1 Hd2].
    apply negb_true_iff in Hd1, Hd2.
    assert (rab = rba).
    { apply (ores_eqb_eq Bool.eqb); [|assumption]. intros x y. apply Bool.eqb_prop. }
    repeat split; auto.
    + intros ->. discriminate.
    + intros ->. discriminate.
    + intros ->. discriminate.
    + intros ->. discriminate.
    + intros ->. now apply tv_same_sound.
Qed.

(** * scalars: the specification's [supported] is the one FromScalar obeys *)

Lemma supported_same x : C19Check.supported x = ValueProofs.supported x.
Proof.
  induction x as [x Hnl|l IH] using gscalar_ind'.
  - destruct x; try (exfalso; eapply Hnl; reflexivity); reflexivity.
  - cbn. induction IH as [|x l Hx Hl IHl]; cbn; [reflexivity|]. now rewrite Hx, IHl.
Qed.

Theorem K_fromto_sound x jvalid r1 r2 :
  check_case (CFromTo x jvalid r1 r2) = [] ->
  r1 <> RPanic /\ r2 <> RPanic /\ r1 <> RDiff /\ r2 <> RDiff /\
  (forall t, r1 = ROk t -> ores_eqb gs_eqb r2 (ROk (widen x)) = true) /\
  (r1 = RErr <-> C19Check.supported x = false).
Proof.
  unfold check_case. intros H. apply app_nil_inv in H as [_ H]. apply app_nil_inv in H as [H7 H6].
  apply flag_nil in H7. apply flag_nil in H6. apply andb_true_iff in H7 as [Hp1 Hp2].
  apply negb_true_iff in Hp1, Hp2. apply andb_true_iff in H6 as [H6 Hd2]. apply negb_true_iff in Hd2.
  repeat split.
  - intros ->. discriminate.
  - intros ->. discriminate.
  - intros ->. discriminate.
  - intros ->. discriminate.
  - intros t ->. now apply andb_true_iff in H6 as [_ ?].
  - intros ->. apply andb_true_iff in H6 as [H _]. now apply negb_true_iff in H.
  - intros Hs. destruct r1; [|reflexivity|discriminate|discriminate].
    apply andb_true_iff in H6 as [H _]. congruence.
Qed.

(** Proofs about the client LTS (C18): soundness of the acceptance check,
    invariants of the reachable states, the monitors of K_P hold on every
    trace of the model for every script and schedule, termination after
    Close. *)
From Gnmi Require Import Base.Prelude Client.ClientModel Client.ClientCheck.

(** * Generic: soundness of the subset construction *)

Section LtsFacts.
  Context {S L : Type}.
  Variable step : S -> list (option L * S).
  Variable eqb : S -> S -> bool.
  Variable leqb : L -> L -> bool.
  Hypothesis leqb_eq : forall a b, leqb a b = true -> a = b.

  Lemma run_app s tr1 s1 tr2 s2 :
    run step s tr1 s1 -> run step s1 tr2 s2 -> run step s (tr1 ++ tr2) s2.
  Proof.
    induction 1; intros; cbn.
    - assumption.
    - eapply run_tau; eauto.
    - eapply run_vis; eauto.
  Qed.

  Lemma run_tau_end s tr s1 s2 :
    run step s tr s1 -> In (None, s2) (step s1) -> run step s tr s2.
  Proof.
    intros H1 H2. rewrite <- (app_nil_r tr). eapply run_app; eauto.
    eapply run_tau; eauto. constructor.
  Qed.

  Lemma run_vis_end s tr s1 l s2 :
    run step s tr s1 -> In (Some l, s2) (step s1) -> run step s (tr ++ [l]) s2.
  Proof.
    intros H1 H2. eapply run_app; eauto. eapply run_vis; eauto. constructor.
  Qed.

  Lemma add_all_in new acc x :
    In x (add_all eqb new acc) -> In x new \/ In x acc.
  Proof.
    revert acc; induction new as [|y new IH]; cbn; intros acc H; auto.
    destruct (mem eqb y acc).
    - apply IH in H. tauto.
    - apply IH in H. rewrite in_app_iff in H. cbn in H. tauto.
  Qed.

  Lemma tau_succ_in s s1 : In s1 (tau_succ step s) -> In (None, s1) (step s).
  Proof.
    unfold tau_succ. rewrite in_flat_map. intros [[l s2] [Hin H]]. cbn in H.
    destruct l; cbn in H; [tauto|]. destruct H as [<-|[]]. exact Hin.
  Qed.

  Lemma vis_succ_in l s s1 : In s1 (vis_succ step leqb l s) -> In (Some l, s1) (step s).
  Proof.
    unfold vis_succ. rewrite in_flat_map. intros [[l' s2] [Hin H]]. cbn in H.
    destruct l' as [l'|]; cbn in H; [|tauto].
    destruct (leqb l l') eqn:E; [|destruct H]. apply leqb_eq in E. subst.
    destruct H as [<-|[]]. exact Hin.
  Qed.

  Lemma tau_close_sound s0 tr fuel ss :
    (forall s, In s ss -> run step s0 tr s) ->
    forall s, In s (tau_close step eqb fuel ss) -> run step s0 tr s.
  Proof.
    revert ss; induction fuel as [|f IH]; cbn; intros ss H s Hin; auto.
    destruct (Nat.eqb _ _); auto.
    eapply IH; [|exact Hin]. intros s1 H1.
    apply add_all_in in H1. destruct H1 as [H1|H1]; auto.
    apply in_flat_map in H1. destruct H1 as [s2 [H2 H3]].
    apply tau_succ_in in H3. eapply run_tau_end; eauto.
  Qed.

  Lemma accept_from_sound s0 fuel tr : forall i ss pre ss',
    (forall s, In s ss -> run step s0 pre s) ->
    accept_from step eqb leqb fuel i ss tr = inr ss' ->
    forall s, In s ss' -> run step s0 (pre ++ tr) s.
  Proof.
    induction tr as [|l tr IH]; cbn; intros i ss pre ss' H Hacc s Hin.
    - inversion Hacc; subst. rewrite app_nil_r. auto.
    - destruct (add_all eqb (flat_map (vis_succ step leqb l) ss) []) as [|x xs] eqn:E; [discriminate|].
      replace (pre ++ l :: tr) with ((pre ++ [l]) ++ tr) by (rewrite <- app_assoc; reflexivity).
      eapply IH; [|exact Hacc|exact Hin].
      apply tau_close_sound. intros s1 H1. rewrite <- E in H1.
      apply add_all_in in H1. destruct H1 as [H1|[]].
      apply in_flat_map in H1. destruct H1 as [s2 [H2 H3]].
      apply vis_succ_in in H3. eapply run_vis_end; eauto.
  Qed.

  Lemma add_all_nonempty new acc : acc <> [] -> add_all eqb new acc <> [].
  Proof.
    revert acc; induction new as [|y new IH]; cbn; intros acc H; auto.
    destruct (mem eqb y acc); apply IH; auto. destruct acc; cbn; congruence.
  Qed.

  Lemma tau_close_nonempty f : forall l1, l1 <> [] -> tau_close step eqb f l1 <> [].
  Proof.
    induction f as [|f IHf]; cbn; auto. intros l1 Hl.
    destruct (Nat.eqb _ _); auto. apply IHf. apply add_all_nonempty; auto.
  Qed.

  Lemma accept_from_nonempty fuel tr : forall i ss ss',
    ss <> [] -> accept_from step eqb leqb fuel i ss tr = inr ss' -> ss' <> [].
  Proof.
    induction tr as [|l tr IH]; cbn; intros i ss ss' Hne Hacc.
    - inversion Hacc; subst; auto.
    - destruct (add_all eqb (flat_map (vis_succ step leqb l) ss) []) as [|x xs] eqn:E; [discriminate|].
      eapply IH; [|exact Hacc]. apply tau_close_nonempty. discriminate.
  Qed.

  (** What the acceptance check establishes: some schedule of the model
      shows exactly the recorded sequence. *)
  Theorem accepts_sound fuel s0 tr ss :
    accepts step eqb leqb fuel s0 tr = inr ss ->
    forall s, In s ss -> run step s0 tr s.
  Proof.
    unfold accepts. intros H s Hin.
    change tr with ([] ++ tr). eapply accept_from_sound; eauto.
    apply tau_close_sound. intros s1 [<-|[]]. constructor.
  Qed.

  Corollary accepts_run fuel s0 tr ss :
    accepts step eqb leqb fuel s0 tr = inr ss -> exists s, run step s0 tr s.
  Proof.
    intros H. assert (Hne : ss <> []).
    { unfold accepts in H. eapply accept_from_nonempty; [|exact H].
      apply tau_close_nonempty. discriminate. }
    destruct ss as [|s ss]; [congruence|]. exists s. eapply accepts_sound; eauto. left; auto.
  Qed.

  (** Monitors: a relation between model states and monitor states that is
      kept by silent steps and advanced by visible ones, without the monitor
      ever going wrong, makes the monitor accept every trace. *)
  Section Mon.
    Context {M : Type}.
    Variable mstep : M -> L -> M.
    Variable bad : M -> bool.
    Variable R : S -> M -> Prop.
    Hypothesis R_tau : forall s m s1, R s m -> In (None, s1) (step s) -> R s1 m.
    Hypothesis R_vis : forall s m l s1, R s m -> In (Some l, s1) (step s) ->
                                        bad (mstep m l) = false /\ R s1 (mstep m l).

    Fixpoint gmon_from (i : nat) (m : M) (tr : list L) : option nat :=
      match tr with
      | [] => None
      | e :: tr' => let m' := mstep m e in if bad m' then Some i else gmon_from (Datatypes.S i) m' tr'
      end.

    Lemma monitor_holds s tr s' : run step s tr s' ->
      forall m i, R s m -> gmon_from i m tr = None /\ R s' (fold_left mstep tr m).
    Proof.
      induction 1; intros m i HR; cbn.
      - auto.
      - eapply IHrun. eapply R_tau; eauto.
      - destruct (R_vis _ _ _ _ HR H) as [Hb HR']. rewrite Hb. eapply IHrun; eauto.
    Qed.
  End Mon.
End LtsFacts.

(** * The client model *)

Ltac split_step H :=
  unfold step in H; rewrite !in_app_iff in H; destruct H as [H|[H|[H|H]]];
  [unfold sstep, end_attempt, do_cancel, pwake in H | unfold cstep, do_cancel, pwake in H | unfold xstep in H
  | unfold pstep in H].

Ltac crunch H :=
  repeat (cbn in H;
          match type of H with
          | In _ (match ?x with _ => _ end) => destruct x eqn:?
          | In _ [] => destruct H
          | In _ (_ :: _) => destruct H as [H|H]
          | _ \/ _ => destruct H as [H|H]
          | (_, _) = (_, _) => inversion H; subst; clear H
          | False => destruct H
          end).

Ltac splitifs :=
  repeat (match goal with
          | H : context[if ?c then _ else _] |- _ => destruct c eqn:?
          | |- context[if ?c then _ else _] => destruct c eqn:?
          | H : context[match ?c with SDNil => _ | _ => _ end] |- _ => destruct c eqn:?
          | |- context[match ?c with SDNil => _ | _ => _ end] => destruct c eqn:?
          | H : context[match ?c with PIdle => _ | _ => _ end] |- _ => destruct c eqn:?
          | |- context[match ?c with PIdle => _ | _ => _ end] => destruct c eqn:?
          end; cbn in *).

Ltac fin :=
  intuition (try congruence; try discriminate);
  try (match goal with |- match ?p with _ => _ end => destruct p end;
       rewrite ?orb_true_r in *; intuition (try congruence; try discriminate)).

Definition reach (rc : bool) (sc : script) (s : st) : Prop :=
  exists tr, run (step rc sc) init tr s.

Lemma reach_ind' (rc : bool) (sc : script) (P : st -> Prop) :
  P init ->
  (forall s l s1, P s -> In (l, s1) (step rc sc s) -> P s1) ->
  forall s, reach rc sc s -> P s.
Proof.
  intros H0 Hs s [tr Hr].
  assert (G : forall a tr b, run (step rc sc) a tr b -> P a -> P b).
  { induction 1; intros; eauto. }
  eapply G; eauto.
Qed.

(** ** basic invariant: who may have set what *)

Definition is_recon_pc (p : spc) : bool :=
  match p with SInit | SDisc | SCtxChk | SSleep | SReset | SDone => true | _ => false end.

Definition inv1 (rc : bool) (s : st) : Prop :=
  (ctx_r s = true -> c_pc s <> CIdle) /\
  (r_closed s = true -> c_pc s <> CIdle) /\
  (ctx_p s = true -> x_pc s <> XIdle) /\
  (b_closed s = true -> c_pc s <> CIdle) /\
  (rc = false -> is_recon_pc (s_pc s) = false /\ c_pc s <> CLock /\ ctx_r s = false) /\
  (rc = true -> match s_pc s with
                | SDone | SFin => cancelled s = true
                | SRet r => cancelled s = true /\ r = RCanceled
                | _ => True end).

Lemma inv1_step rc sc s l s1 : inv1 rc s -> In (l, s1) (step rc sc s) -> inv1 rc s1.
Proof.
  intros I H. destruct s, rc; unfold inv1, cancelled in *; cbn in *;
  split_step H; crunch H; cbn in *; splitifs; fin.
Qed.

Lemma inv1_init rc : inv1 rc init.
Proof. unfold inv1, init, cancelled; cbn. intuition discriminate. Qed.

Lemma inv1_reach rc sc s : reach rc sc s -> inv1 rc s.
Proof. apply reach_ind'; [apply inv1_init|]. intros; eapply inv1_step; eauto. Qed.

(** ** one disconnect per ended attempt, reset before every retry,
       resubscription unless closed / cancelled (monitor [disc_step]) *)

Definition phase_of (rc : bool) (s : st) : phase :=
  match s_pc s with
  | SIdle | SInit | SClear | SFactory => PStart (s_att s)
  | SCtxChk | SSleep | SReset | SDone => PDisc (s_att s)
  | SRet _ => if rc then PDisc (s_att s) else PAtt (s_att s)
  | SFin => PEnd (s_att s)
  | _ => PAtt (s_att s)
  end.

Definition stopped_of (s : st) : bool :=
  negb (match c_pc s with CIdle => true | _ => false end)
  || negb (match x_pc s with XIdle => true | _ => false end).

Definition R_disc (rc : bool) (s : st) (m : bool * phase) : Prop :=
  inv1 rc s /\ m = (stopped_of s, phase_of rc s).

Lemma R_disc_tau rc sc s m s1 :
  R_disc rc s m -> In (None, s1) (step rc sc s) -> R_disc rc s1 m.
Proof.
  intros [I ->] H. split; [eapply inv1_step; eauto|].
  destruct s, rc; unfold stopped_of, phase_of, inv1 in *; cbn in *;
  split_step H; crunch H; cbn in *; splitifs; try reflexivity.
  all: cbn in I; intuition discriminate.
Qed.

Lemma phase_of_not_bad rc s : phase_bad (phase_of rc s) = false.
Proof. unfold phase_of. destruct (s_pc s), rc; reflexivity. Qed.

Lemma disc_step_vis rc sc s l s1 :
  inv1 rc s -> In (Some l, s1) (step rc sc s) ->
  disc_step rc (stopped_of s, phase_of rc s) l = (stopped_of s1, phase_of rc s1).
Proof.
  intros I H.
  destruct s, rc; unfold stopped_of, phase_of, inv1, cancelled in *; cbn in *;
  split_step H; crunch H; cbn in *; rewrite ?Nat.eqb_refl; cbn; splitifs;
  try reflexivity; try discriminate.
  all: decompose [and] I; clear I;
       repeat match goal with
             | v : cpc |- _ => destruct v
             | v : xpc |- _ => destruct v
             | H : ?a || ?b = true |- _ => is_var a; is_var b; destruct a; destruct b
             | H : True -> _ |- _ => specialize (H Logic.I)
             | H : ?x = ?x -> _ |- _ => specialize (H eq_refl)
             | H : _ /\ _ |- _ => destruct H
             end; cbn in *; intuition (try congruence; try discriminate).
Qed.

Lemma R_disc_vis rc sc s m l s1 :
  R_disc rc s m -> In (Some l, s1) (step rc sc s) ->
  phase_bad (snd (disc_step rc m l)) = false /\ R_disc rc s1 (disc_step rc m l).
Proof.
  intros [I ->] H. rewrite (disc_step_vis _ _ _ _ _ I H). cbn.
  split; [apply phase_of_not_bad|]. split; [eapply inv1_step; eauto|reflexivity].
Qed.

Theorem model_k_disc rc sc tr s :
  run (step rc sc) init tr s -> k_disc rc tr = None.
Proof.
  intros H. unfold k_disc.
  destruct (monitor_holds (step rc sc) (disc_step rc) (fun m => phase_bad (snd m)) (R_disc rc)
              (R_disc_tau rc sc) (R_disc_vis rc sc) _ _ _ H (false, PStart 0) 0) as [G _].
  - split; [apply inv1_init|reflexivity].
  - exact G.
Qed.

(** ** termination after Close *)

(** Upper bound on the subscriber's remaining steps inside one attempt, from
    the items not yet received. *)
Fixpoint rw (its : list item) : nat :=
  match its with
  | IMsg n :: r => n + 5 + rw r
  | _ => 8
  end.

Lemma rw_ge its : 8 <= rw its.
Proof. induction its as [|[n| | | |] r IH]; cbn; lia. Qed.

Lemma skipn_nth_some {A} (l : list A) i x :
  nth_error l i = Some x -> skipn i l = x :: skipn (S i) l.
Proof.
  revert i; induction l as [|a l IH]; intros [|i]; cbn; try discriminate.
  - intros [= ->]. reflexivity.
  - intros H. rewrite (IH _ H). reflexivity.
Qed.

Lemma skipn_nth_none {A} (l : list A) i : nth_error l i = None -> skipn i l = [].
Proof.
  revert i; induction l as [|a l IH]; intros [|i]; cbn; try discriminate; auto.
Qed.

Definition mu_s (sc : script) (s : st) : nat :=
  let its := a_items (sc (s_att s)) in
  let nxt := a_items (sc (S (s_att s))) in
  match s_pc s with
  | SFin => 0 | SRet _ => 1 | SDone => 2 | SCtxChk => 3 | SDisc => 4
  | SRunClose | SSubFailClose | SInstClosed => 5
  | SSyncEnd _ => 6
  | SChk i => rw (skipn (S i) its) + 1
  | SDeliver i j n => (n - j) + 2 + rw (skipn (S i) its)
  | SItem i => rw (skipn i its) - 1
  | SRecv i => rw (skipn i its)
  | SInstall2 => rw its + 1 | SInstall => rw its + 2 | SImplSubChk => rw its + 3
  | SImplSub => rw its + 4 | SFacChk => rw its + 5 | SFactory => rw its + 6
  | SClear => rw its + 7 | SInit => rw its + 8 | SIdle => rw its + 9
  | SReset => rw nxt + 8 | SSleep => rw nxt + 9
  end.

Definition mu_c (s : st) : nat :=
  match c_pc s with
  | CFin => 0 | CRet => 1 | CWait => 2 | CBaseHold => 3 | CBase => 4 | CLock => 5 | CIdle => 6
  end.

Definition mu_x (s : st) : nat :=
  match x_pc s with XFin => 0 | XCalled => 1 | XIdle => 2 end.

Definition mu_p (s : st) : nat :=
  match p_pc s with PIdle => 0 | PRet _ => 1 | PClose _ => 2 | PRound _ _ => 3 | PImpl _ => 4 end.

Definition mu (sc : script) (s : st) : nat := mu_s sc s + mu_c s + mu_x s + mu_p s.

(** The close has taken effect: [p.closed] is set, and the context is
    cancelled unless Subscribe has not got to [initDone] yet (which will then
    cancel it). *)
Definition closing (s : st) : Prop :=
  r_closed s = true /\
  (ctx_r s = true \/ (r_hascancel s = false /\ (s_pc s = SIdle \/ s_pc s = SInit))).

Local Arguments Nat.ltb : simpl never.
Local Arguments skipn : simpl never.

Definition slp (s : st) : nat := match s_pc s with SSleep => 1 | _ => 0 end.

(** API calls (the application starting a new Subscribe or Close) are the only
    steps that are not bounded: the statements below are about what happens
    between them. *)
Definition is_call (l : option ev) : bool :=
  match l with Some ESubCall | Some ECloseCall | Some (EPollCall _) => true | _ => false end.

Lemma closing_step sc s l s1 :
  closing s -> In (l, s1) (step true sc s) -> is_call l = false ->
  closing s1 /\ mu sc s1 < mu sc s /\ nsleep s1 + slp s1 <= nsleep s + slp s.
Proof.
  intros [C1 C2] H Hn. unfold closing, mu, mu_s, mu_c, mu_x, mu_p, slp, cancelled in *.
  destruct s; cbn in *.
  split_step H; crunch H; cbn in *; subst; try discriminate.
  all: try (match goal with
            | E : nth_error _ _ = Some _ |- _ => rewrite (skipn_nth_some _ _ _ E); cbn
            | E : nth_error _ _ = None |- _ => rewrite (skipn_nth_none _ _ E); cbn
            end).
  all: splitifs; rewrite ?skipn_O; unfold cancelled in *; cbn in *.
  all: try (destruct C2 as [->|[? [?|?]]]; try discriminate; cbn in *; try discriminate).
  all: repeat match goal with
              | |- context[rw ?l] =>
                  lazymatch goal with H : 8 <= rw l |- _ => fail | _ => pose proof (rw_ge l) end
              end.
  all: try match goal with E : (_ <? _)%nat = true |- _ => apply Nat.ltb_lt in E end.
  all: try (intuition (try congruence; try discriminate; try lia); fail).
Qed.

Definition inv2 (rc : bool) (s : st) : Prop :=
  (b_mu s = true -> s_pc s = SInstall2 \/ c_pc s = CBaseHold) /\
  (rc = true -> match s_pc s with SRet _ | SFin => r_subdone s = SDClosed | _ => True end) /\
  (s_pc s = SInstall2 -> b_mu s = true) /\ (c_pc s = CBaseHold -> b_mu s = true) /\
  (s_pc s = SInstall2 -> c_pc s <> CBaseHold) /\
  (s_pc s = SIdle -> r_subdone s = SDNil) /\ (rc = true -> c_wait s = true -> r_subdone s <> SDNil).

Lemma inv2_step rc sc s l s1 : inv2 rc s -> In (l, s1) (step rc sc s) -> inv2 rc s1.
Proof.
  intros I H. destruct s, rc; unfold inv2 in *; cbn in *;
  split_step H; crunch H; cbn in *; splitifs;
  intuition (try congruence; try discriminate).
Qed.

Lemma inv2_reach rc sc s : reach rc sc s -> inv2 rc s.
Proof.
  apply reach_ind'; [|intros; eapply inv2_step; eauto].
  unfold inv2, init; cbn. intuition discriminate.
Qed.

(** steps other than new API calls *)
Definition nc (l : list (option ev * st)) : list (option ev * st) :=
  filter (fun ls => negb (is_call (fst ls))) l.

Definition nc_step (rc : bool) (sc : script) (s : st) : list (option ev * st) := nc (step rc sc s).

Lemma nc_in l s1 (ss : list (option ev * st)) :
  In (l, s1) (nc ss) <-> In (l, s1) ss /\ is_call l = false.
Proof.
  unfold nc. rewrite filter_In. cbn. rewrite negb_true_iff. tauto.
Qed.

Lemma nc_app_nil (a b : list (option ev * st)) : nc (a ++ b) = [] -> nc a = [] /\ nc b = [].
Proof. unfold nc. rewrite filter_app. apply app_eq_nil. Qed.

Ltac stuck_cases H :=
  repeat match type of H with
         | context[if ?c then _ else _] => destruct c eqn:?; cbn in H; try discriminate
         | context[match ?c with _ => _ end] => destruct c eqn:?; cbn in H; try discriminate
         end.

Definition inv3 (s : st) : Prop :=
  (r_hascancel s = false -> s_pc s = SIdle \/ s_pc s = SInit) /\
  (r_closed s = true ->
   ctx_r s = true \/ (r_hascancel s = false /\ (s_pc s = SIdle \/ s_pc s = SInit))).

Lemma inv3_step sc s l s1 : inv3 s -> In (l, s1) (step true sc s) -> inv3 s1.
Proof.
  intros I H. destruct s; unfold inv3 in *; cbn in *;
  split_step H; crunch H; cbn in *; splitifs;
  intuition (try congruence; try discriminate).
Qed.

Lemma inv3_reach sc s : reach true sc s -> inv3 s.
Proof.
  apply reach_ind'; [|intros; eapply inv3_step; eauto].
  unfold inv3, init; cbn. intuition discriminate.
Qed.

(** ** quiet streams: a Close that found a transport installed closes the
       transport the subscriber reads from *)

Definition rstreaming (p : spc) : bool :=
  match p with
  | SRecv _ | SItem _ | SDeliver _ _ _ | SSyncEnd _ | SChk _ | SRunClose => true
  | _ => false
  end.

Definition rconnected (p : spc) : bool :=
  match p with SImplSub | SImplSubChk | SInstall | SInstall2 => true | _ => false end.

Definition c_past_base (c : cpc) : bool :=
  match c with CBaseHold | CWait | CRet | CFin => true | _ => false end.

Definition inv8 (s : st) : Prop :=
  (rstreaming (s_pc s) = true -> b_impl s = Impl (s_att s)) /\
  (c_ok s = true -> b_impl s <> NoImpl) /\
  (r_closed s = true -> c_past_base (c_pc s) = true -> c_ok s = true ->
   (rstreaming (s_pc s) = true -> s_curcl s = true) /\
   (rconnected (s_pc s) = true -> b_closed s = true)).

Lemma inv8_step sc s l s1 : inv3 s -> inv8 s -> In (l, s1) (step true sc s) -> inv8 s1.
Proof.
  intros I3 I H.
  destruct s as [spc0 att0 conn0 curcl0 err0 cpc0 cw0 cok0 xpc0 rcl0 hc0 sd0 cr0 cp0 nc0 ns0 bc0 bi0 bm0 cd0 pp0 pw0];
  unfold inv3, inv8, cancelled in *; cbn in *;
  split_step H; crunch H; cbn in *; splitifs; rewrite ?Nat.eqb_refl in *;
  rewrite ?andb_false_r in *; try discriminate;
  try solve [intuition (try congruence; try discriminate)].
  all: repeat match goal with E : (_ =? _)%nat = false |- _ => apply Nat.eqb_neq in E end.
  all: try (destruct cpc0; cbn in *; try solve [intuition (try congruence; try discriminate)]).
  all: try (destruct spc0; cbn in *; try solve [intuition (try congruence; try discriminate)]).
  all: intuition (try congruence; try discriminate).
  all: unfold cancelled in *; cbn in *; subst; cbn in *; rewrite ?andb_false_r in *; try discriminate.
Qed.

Lemma inv8_reach sc s : reach true sc s -> inv3 s /\ inv8 s.
Proof.
  revert s. apply reach_ind'.
  - unfold inv3, inv8, init; cbn. intuition (try congruence; try discriminate).
  - intros s l s1 [I3 I8] H. split; [eapply inv3_step; eauto|eapply inv8_step; eauto].
Qed.

(** no quiet stream anywhere in the script *)
Definition noquiet (sc : script) : Prop :=
  forall k i, nth_error (a_items (sc k)) i <> Some IBlockQ.

(** a RE-subscribe situation: some transport has been installed on the inner
    client before, and the Close in progress has not yet reached its base part
    or found a transport there *)
Definition resub_ok (s : st) : Prop :=
  b_impl s <> NoImpl /\ (c_ok s = true \/ c_pc s = CLock \/ c_pc s = CBase).

Lemma resub_ok_step sc s l s1 :
  resub_ok s -> In (l, s1) (step true sc s) -> is_call l = false -> resub_ok s1.
Proof.
  intros [R1 R2] H Hn.
  destruct s as [spc0 att0 conn0 curcl0 err0 cpc0 cw0 cok0 xpc0 rcl0 hc0 sd0 cr0 cp0 nc0 ns0 bc0 bi0 bm0 cd0 pp0 pw0];
  unfold resub_ok in *; cbn in *;
  split_step H; crunch H; cbn in *; try discriminate; splitifs;
  try (split; [try assumption; try discriminate|]; auto; fail);
  try (split; [assumption|tauto]);
  try (destruct R2 as [R2|[R2|R2]]; try discriminate; split; [try assumption; try discriminate|auto]).
  all: try (exfalso; apply R1; reflexivity).
Qed.

(** No deadlock once Close has taken effect: when neither the subscriber nor
    the closer can move other than by a new API call (whatever the canceller
    does), the Subscribe call (if one was made) and the Close call have returned.
    With quiet streams (not woken by their context) this needs a transport to
    have been installed before ([resub_ok]): see docs/props/C18.md. *)
Lemma closing_progress sc s :
  inv1 true s -> inv2 true s -> inv8 s -> closing s -> (noquiet sc \/ resub_ok s) ->
  nc (sstep true sc s ++ cstep true s) = [] ->
  (s_pc s = SFin \/ s_pc s = SIdle) /\ c_pc s = CFin.
Proof.
  intros [_ [I1 _]] I I8 [C1 C2] Q H. apply nc_app_nil in H. destruct H as [Hs Hc].
  destruct s as [spc0 att0 conn0 curcl0 err0 cpc0 cw0 cok0 xpc0 rcl0 hc0 sd0 cr0 cp0 nc0 ns0 bc0 bi0 bm0 cd0 pp0 pw0];
  unfold inv2, inv8, resub_ok, sstep, cstep, end_attempt, do_cancel, cancelled in *; cbn in *; subst.
  specialize (I1 eq_refl).
  destruct spc0; cbn in Hs; try discriminate; stuck_cases Hs;
  destruct cpc0; cbn in Hc; try discriminate; stuck_cases Hc;
  cbn in *; rewrite ?andb_true_r in *;
  try (match goal with E : nth_error _ _ = Some IBlockQ |- _ =>
         destruct Q as [Q|Q]; [exfalso; exact (Q _ _ E)|] end);
  intuition (try congruence; try discriminate); subst; cbn in *; try discriminate.
Qed.

Lemma closing_exec sc s n s' :
  exec (nc_step true sc) s n s' -> closing s ->
  closing s' /\ n + mu sc s' <= mu sc s /\ nsleep s' + slp s' <= nsleep s + slp s.
Proof.
  induction 1; intros C.
  - split; [exact C|]. lia.
  - apply nc_in in H. destruct H as [H Hn].
    destruct (closing_step _ _ _ _ C H Hn) as [C1 [Hm Hs]].
    destruct (IHexec C1) as [C2 [Hm2 Hs2]]. split; [exact C2|]. lia.
Qed.

Lemma exec_reach rc sc s n s' : reach rc sc s -> exec (step rc sc) s n s' -> reach rc sc s'.
Proof.
  intros [tr Hr] He. revert tr Hr. induction He; intros tr Hr.
  - exists tr; exact Hr.
  - destruct l as [l|].
    + apply (IHHe (tr ++ [l])). eapply run_vis_end; eauto.
    + apply (IHHe tr). eapply run_tau_end; eauto.
Qed.

Lemma exec_nc rc sc s n s' : exec (nc_step rc sc) s n s' -> exec (step rc sc) s n s'.
Proof.
  induction 1; [constructor|]. apply nc_in in H. econstructor; [exact (proj1 H)|assumption].
Qed.

(** Termination of Subscribe and Close through a ReconnectClient, for any
    history of earlier calls: from any reachable state in which some Close has
    set [p.closed], as long as the application makes no new API call, (1) every
    continuation of the execution, under any schedule and any script, has at
    most [mu] steps, (2) it goes through at most one backoff sleep, and (3) it
    cannot get stuck before the Subscribe call in progress (if any) and the
    Close call have returned -- even if the caller's context is never cancelled
    and, in a re-subscribe situation ([resub_ok]: a transport was installed
    before; this covers the teardown of the previous transport, a step at which
    the closer can run), even if streams are quiet and not woken by their
    context.  Without [resub_ok] (3) needs [noquiet]. *)
Theorem close_subscribe_terminate_rc sc s :
  reach true sc s -> r_closed s = true ->
  forall n s', exec (nc_step true sc) s n s' ->
    n <= mu sc s /\
    nsleep s' <= nsleep s + 1 /\
    (noquiet sc \/ resub_ok s ->
     nc (sstep true sc s' ++ cstep true s') = [] ->
     (s_pc s' = SFin \/ s_pc s' = SIdle) /\ c_pc s' = CFin).
Proof.
  intros Hr Hc n s' He.
  assert (C : closing s).
  { split; [exact Hc|]. apply (inv3_reach _ _ Hr). exact Hc. }
  destruct (closing_exec _ _ _ _ He C) as [C' [Hm Hs]].
  split; [lia|]. split.
  - unfold slp in *. destruct (s_pc s), (s_pc s'); lia.
  - intros Q Hst.
    assert (Hr' : reach true sc s') by (eapply exec_reach; [exact Hr|]; apply exec_nc; exact He).
    assert (Q' : noquiet sc \/ resub_ok s').
    { destruct Q as [Q|Q]; [left; exact Q|right].
      clear Hst Hr Hr' C C' Hm Hs Hc. induction He; auto. apply nc_in in H. destruct H as [H Hn].
      apply IHHe. eapply resub_ok_step; eauto. }
    eapply closing_progress; eauto;
      [apply inv1_reach with (sc := sc)|apply inv2_reach with (sc := sc)|apply (inv8_reach sc)]; exact Hr'.
Qed.

Lemma close_takes_effect sc s :
  c_pc s = CLock -> exists s1, In (None, s1) (step true sc s) /\ r_closed s1 = true.
Proof.
  intros H. destruct s; cbn in *; subst. eexists. split.
  - unfold step. rewrite !in_app_iff. right; left. unfold cstep; cbn. left. reflexivity.
  - unfold do_cancel; cbn. destruct r_hascancel, ctx_r; reflexivity.
Qed.

(** ** exactly one of initDone / Close cancels the context *)

Definition inv4 (s : st) : Prop :=
  (ctx_r s = true <-> r_closed s = true /\ r_hascancel s = true) /\
  ncancel s = (if ctx_r s then 1 else 0).

Lemma inv4_step sc s l s1 : inv4 s -> In (l, s1) (step true sc s) -> inv4 s1.
Proof.
  intros I H.
  destruct s as [spc0 att0 conn0 curcl0 err0 cpc0 cw0 cok0 xpc0 rcl0 hc0 sd0 cr0 cp0 nc0 ns0 bc0 bi0 bm0 cd0 pp0 pw0];
  unfold inv4 in *; cbn in *;
  split_step H; crunch H; cbn in *; splitifs;
  try destruct rcl0; try destruct hc0; try destruct cr0; cbn in *;
  intuition (try congruence; try discriminate).
Qed.

Lemma inv4_reach sc s : reach true sc s -> inv4 s.
Proof.
  apply reach_ind'; [|intros; eapply inv4_step; eauto].
  unfold inv4, init; cbn. intuition discriminate.
Qed.

Theorem exactly_one_cancel_lemma sc s :
  reach true sc s ->
  (r_closed s = true /\ r_hascancel s = true -> ctx_r s = true /\ ncancel s = 1) /\
  (ncancel s <= 1) /\
  (ncancel s = 1 -> r_closed s = true /\ r_hascancel s = true).
Proof.
  intros H. destruct (inv4_reach _ _ H) as [I3 I4]. rewrite I4.
  destruct (ctx_r s); intuition (try lia; try discriminate).
Qed.

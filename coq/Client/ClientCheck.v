(** Correspondence evaluator (mode A: acceptance by the LTS of ClientModel.v)
    and executable property checker K_P for C18.

    A case is: which client was driven (ReconnectClient around a Base/Cache
    client, or the Base/Cache client alone), the script the transport played,
    and the sequence of events the harness recorded (calls into the transport,
    handler / disconnect / reset invocations, calls and returns of Subscribe
    and Close, [EHang] from the watchdog).

    K_P is written as four monitors over the recorded events and the script;
    it does not use the transition system. *)
From Gnmi Require Import Base.Prelude Client.ClientModel.

Scheme Equality for rcls.
Scheme Equality for ev.
Scheme Equality for st.

Definition is_handler (e : ev) : bool :=
  match e with EConn | EUpd _ _ _ | ESync => true | _ => false end.

Definition is_stop_call (e : ev) : bool :=
  match e with ECloseCall | ECancelCall => true | _ => false end.

(** ** tag 2: every call returns, nothing hangs or panics *)

Definition has (e : ev) (tr : list ev) : bool := existsb (ev_beq e) tr.
Definition has_subret (tr : list ev) : bool :=
  existsb (fun e => match e with ESubRet _ => true | _ => false end) tr.
Definition has_closeret (tr : list ev) : bool :=
  existsb (fun e => match e with ECloseRet _ => true | _ => false end) tr.

Definition count (p : ev -> bool) (tr : list ev) : nat := List.length (filter p tr).

Definition k_term (tr : list ev) : bool :=
  negb (has EHang tr) && negb (has EPanic tr)
  && Nat.eqb (count (ev_beq ESubCall) tr)
             (count (fun e => match e with ESubRet _ => true | _ => false end) tr)
  && Nat.eqb (count (ev_beq ECloseCall) tr)
             (count (fun e => match e with ECloseRet _ => true | _ => false end) tr).

(** ** tag 3: one disconnect per ended attempt, reset before every retry,
       resubscription after every failure unless closed / cancelled *)

Inductive phase := PStart (k : nat) | PAtt (k : nat) | PDisc (k : nat) | PEnd (k : nat) | PBad.

Definition disc_step (reconnect : bool) (m : bool * phase) (e : ev) : bool * phase :=
  let '(stopped, ph) := m in
  match e with
  | ECloseCall | ECancelCall => (true, ph)
  | ESubCall =>
      (* the first call, or a further call after the previous one returned *)
      (stopped, match ph with PStart k => PStart k | PEnd k => PStart (S k) | _ => PBad end)
  | EFactory k' =>
      (stopped, match ph with PStart k => if Nat.eqb k k' then PAtt k else PBad | _ => PBad end)
  | EDisc =>
      (stopped, if reconnect then match ph with PAtt k => PDisc k | _ => PBad end else PBad)
  | EReset => (stopped, match ph with PDisc k => PStart (S k) | _ => PBad end)
  | ESubRet _ =>
      (stopped,
       if reconnect
       then match ph with PDisc k => if stopped then PEnd k else PBad | _ => PBad end
       else match ph with PAtt k => PEnd k | _ => PBad end)
  | EConn | EUpd _ _ _ | ESync | ERecv _ _ | EImplSub _ =>
      (stopped, match ph with PAtt _ => ph | _ => PBad end)
  | ENoBackoff => (stopped, PBad)   (* a retry without the backoff sleep *)
  | _ => m
  end.

Definition phase_bad (p : phase) : bool := match p with PBad => true | _ => false end.

(** first index at which a monitor goes wrong *)
Section Monitor.
  Context {M : Type}.
  Variable mstep : M -> ev -> M.
  Variable bad : M -> bool.
  Fixpoint mon_from (i : nat) (m : M) (tr : list ev) : option nat :=
    match tr with
    | [] => None
    | e :: tr' => let m' := mstep m e in if bad m' then Some i else mon_from (S i) m' tr'
    end.
End Monitor.

Definition k_disc (reconnect : bool) (tr : list ev) : option nat :=
  mon_from (disc_step reconnect) (fun m => phase_bad (snd m)) 0 (false, PStart 0) tr.

(** ** tag 4: Connected first, order preserved, nothing lost, whole messages *)

Fixpoint exp_items (k i : nat) (conn : bool) (its : list item) : list (list ev) :=
  match its with
  | [] => [(if conn then [] else [EConn]) ++ [ESync]]
  | IMsg n :: r =>
      ((if conn then [] else [EConn]) ++ map (EUpd k i) (seq 0 n)) :: exp_items k (S i) true r
  | _ :: _ => []
  end.

Definition expected (k : nat) (a : attempt) : list (list ev) :=
  if a_init a && a_sub a then exp_items k 0 false (a_items a) else [].

Record ostate := { o_stopped : bool; o_rest : list (list ev); o_cur : list ev; o_bad : bool }.

Fixpoint drop_empty (l : list (list ev)) : list (list ev) :=
  match l with [] :: l' => drop_empty l' | _ => l end.

Definition is_nil {A} (l : list A) : bool := match l with [] => true | _ => false end.

Definition order_step (reconnect : bool) (sc : script) (m : ostate) (e : ev) : ostate :=
  let stream_end :=
    {| o_stopped := o_stopped m; o_rest := []; o_cur := [];
       o_bad := negb (is_nil (o_cur m))
                || negb (o_stopped m || is_nil (drop_empty (o_rest m))) |} in
  match e with
  | ECloseCall | ECancelCall =>
      {| o_stopped := true; o_rest := o_rest m; o_cur := o_cur m; o_bad := false |}
  | EFactory k =>
      {| o_stopped := o_stopped m; o_rest := expected k (sc k); o_cur := []; o_bad := false |}
  | EConn | EUpd _ _ _ | ESync =>
      match o_cur m with
      | h :: cur' =>
          {| o_stopped := o_stopped m; o_rest := o_rest m; o_cur := cur'; o_bad := negb (ev_beq h e) |}
      | [] =>
          match drop_empty (o_rest m) with
          | (h :: cur') :: rest' =>
              {| o_stopped := o_stopped m; o_rest := rest'; o_cur := cur'; o_bad := negb (ev_beq h e) |}
          | _ => {| o_stopped := o_stopped m; o_rest := []; o_cur := []; o_bad := true |}
          end
      end
  | ECorrupt =>   (* a delivered notification did not stay as delivered *)
      {| o_stopped := o_stopped m; o_rest := o_rest m; o_cur := o_cur m; o_bad := true |}
  | EDisc => if reconnect then stream_end else m
  | ESubRet _ => if reconnect then m else stream_end
  | _ => {| o_stopped := o_stopped m; o_rest := o_rest m; o_cur := o_cur m; o_bad := false |}
  end.

Definition k_order (reconnect : bool) (sc : script) (tr : list ev) : option nat :=
  mon_from (order_step reconnect sc) o_bad 0
           {| o_stopped := false; o_rest := []; o_cur := []; o_bad := false |} tr.

(** ** tag 5: after Close returned, at most one further message
       (none at all through a ReconnectClient, whose Close waits for Subscribe) *)

Record astate := { a_closed : option bool;            (* a Close that counts returned (with nil?) *)
                   a_curmsg : nat * nat;              (* the Recv in progress *)
                   a_seen : option (nat * nat);       (* the one message seen after Close *)
                   a_armed : bool;    (* bare client: the Subscribe call in progress has called its constructor *)
                   a_pend : bool;     (* bare client: the Close in progress was called while armed *)
                   a_bad : bool }.

Definition pair_eqb (a b : nat * nat) : bool := Nat.eqb (fst a) (fst b) && Nat.eqb (snd a) (snd b).

Definition amk c m s ar pe b : astate :=
  {| a_closed := c; a_curmsg := m; a_seen := s; a_armed := ar; a_pend := pe; a_bad := b |}.

(** ReconnectClient: closed is a latch, every returned Close counts.  A bare
    client is re-opened by a new Subscribe ([c.closed = false] on entry): the
    clause is per Subscribe call, and a Close counts for the call in progress
    when it was called after that call's first constructor call (a Close
    overlapping the very entry of Subscribe is taken to precede it). *)
Definition after_step (reconnect : bool) (m : astate) (e : ev) : astate :=
  let '(Build_astate c cm sn ar pe _) := m in
  match e with
  | ECloseCall => amk c cm sn ar (reconnect || ar) false
  | ECloseRet ok => amk (if reconnect || pe then Some ok else c) cm sn ar pe false
  | ERecv k i => amk c (k, i) sn ar pe false
  | EFactory _ => amk c cm sn true pe false
  | ESubRet _ => amk c cm sn false pe false
  | ESubCall =>
      if reconnect then amk c cm sn ar pe false else amk None cm None false pe false
  | EConn | EUpd _ _ _ | ESync =>
      match c with
      | None => amk c cm sn ar pe false
      | Some ok =>
          if reconnect then amk c cm sn ar pe true
          else if ok
               then match sn with
                    | None => amk c cm (Some cm) ar pe false
                    | Some c0 => amk c cm sn ar pe (negb (pair_eqb c0 cm))
                    end
               else amk c cm sn ar pe false
      end
  | _ => amk c cm sn ar pe false
  end.

Definition k_after (reconnect : bool) (tr : list ev) : option nat :=
  mon_from (after_step reconnect) a_bad 0
           (amk None (0, 0) None false false false) tr.

(** ** known findings

    former KF 1 (DEFECT C18_1, fixed): a bare client, Close called while a second
    or later Subscribe call is in progress. *)
Fixpoint stale_close (nsub nret : nat) (tr : list ev) : bool :=
  match tr with
  | [] => false
  | ESubCall :: tr' => stale_close (S nsub) nret tr'
  | ESubRet _ :: tr' => stale_close nsub (S nret) tr'
  | ECloseCall :: tr' => (Nat.leb 2 nsub && Nat.ltb nret nsub) || stale_close nsub nret tr'
  | _ :: tr' => stale_close nsub nret tr'
  end.

Definition known_class (reconnect : bool) (l : list attempt) (tr : list ev) : N := 0%N.
(** no open finding; KF 1 was fixed by /repo 4c160ca ([stale_close] is kept for the
    regression witness of the unpatched variant) *)

(** ** verdicts *)

(** (ReconnectClient?, callbacks observed?, script, recording).  With nil
    callbacks (second component false) disconnect / reset are invisible: the
    acceptance check hides them and the tag-3 monitor, which is about them, is
    not evaluated. *)
Definition case := (bool * bool * list attempt * list ev)%type.

Definition fuel := 200.

(** acceptance by the model of the code as it is now (with the DEFECT C18_1 branch) *)
Definition model_accepts (reconnect : bool) (l : list attempt) (tr : list ev) : nat + list st :=
  accepts (step_now reconnect (sc_of l)) st_beq ev_beq fuel init tr.

Definition model_accepts_nocb (reconnect : bool) (l : list attempt) (tr : list ev) : nat + list st :=
  accepts (step_nocb reconnect (sc_of l)) st_beq ev_beq fuel init tr.

(** acceptance by [step] alone, i.e. outside the known-finding class *)
Definition model_accepts_strict (reconnect : bool) (l : list attempt) (tr : list ev) : nat + list st :=
  accepts (step reconnect (sc_of l)) st_beq ev_beq fuel init tr.

Definition tagk (k : N) (t : N) : N := match k with 0%N => t | _ => (10 + k)%N end.

Definition check_case (c : case) : list (nat * N) :=
  let '(rc, cb, l, tr) := c in
  let kc := known_class rc l tr in
  (match (if cb then model_accepts rc l tr else model_accepts_nocb rc l tr) with
   | inl i => [(i, 1%N)] | inr _ => [] end)
  ++ (if k_term tr then [] else [(List.length tr, tagk kc 2%N)])
  ++ (if cb then match k_disc rc tr with Some i => [(i, tagk kc 3%N)] | None => [] end else [])
  ++ (match k_order (rc && cb) (sc_of l) tr with Some i => [(i, tagk kc 4%N)] | None => [] end)
  ++ (match k_after rc tr with Some i => [(i, tagk kc 5%N)] | None => [] end).

Fixpoint check_all_from (i : nat) (cs : list case) : list (nat * nat * N) :=
  match cs with
  | [] => []
  | c :: cs' => map (fun sn => (i, fst sn, snd sn)) (check_case c) ++ check_all_from (S i) cs'
  end.

Definition check_all (cs : list case) : list (nat * nat * N) := check_all_from 0 cs.

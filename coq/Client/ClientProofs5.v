(** C18, continued: what the monitors of K_P mean (soundness lemmas), and
    examples showing that the theorems' hypotheses are satisfiable and that
    the monitors reject bad traces. *)
From Gnmi Require Import Base.Prelude Client.ClientModel Client.ClientCheck
     Client.ClientProofs Client.ClientProofs2 Client.ClientProofs3 Client.ClientProofs4.

(** * K_P soundness *)

Definition cnt (p : ev -> bool) (tr : list ev) : nat := List.length (filter p tr).
Definition isF e := match e with EFactory _ => true | _ => false end.
Definition isD e := match e with EDisc => true | _ => false end.
Definition isR e := match e with EReset => true | _ => false end.

Lemma cnt_snoc p tr e : cnt p (tr ++ [e]) = cnt p tr + (if p e then 1 else 0).
Proof. unfold cnt. rewrite filter_app, app_length. cbn. destruct (p e); reflexivity. Qed.

Definition isS e := match e with ESubCall => true | _ => false end.

(** counts of constructor calls / disconnects / resets determined by the phase *)
Definition disc_counts (ph : phase) (pre : list ev) : Prop :=
  let f := cnt isF pre in let d := cnt isD pre in let r := cnt isR pre in
  let n := cnt isS pre in
  match ph with
  | PStart k => f = k /\ d = k /\ r <= k /\ k <= r + n
  | PAtt k => f = S k /\ d = k /\ r <= k /\ k <= r + n
  | PDisc k | PEnd k => f = S k /\ d = S k /\ r <= k /\ k <= r + n
  | PBad => False
  end.

Lemma disc_counts_step m e pre :
  disc_counts (snd m) pre -> phase_bad (snd (disc_step true m e)) = false ->
  disc_counts (snd (disc_step true m e)) (pre ++ [e]).
Proof.
  destruct m as [st ph]. unfold disc_counts. cbn [snd]. rewrite !cnt_snoc.
  intros H Hb.
  destruct ph, e; cbn in *; try discriminate; try lia;
  repeat match goal with
         | H : context[if ?c then _ else _] |- _ => destruct c eqn:?; cbn in *
         | |- context[if ?c then _ else _] => destruct c eqn:?; cbn in *
         | H : (_ =? _)%nat = true |- _ => apply Nat.eqb_eq in H; subst
         end; try discriminate; try lia; try tauto.
Qed.

(** One disconnect per attempt and a reset before every retry, read off the
    monitor: at every moment of an accepted recording of a ReconnectClient,
    #disconnect <= #attempts <= #disconnect + 1, #reset <= #disconnect, and
    #attempts <= #reset + #Subscribe calls + 1 (every attempt but the first of
    a call is preceded by its own reset). *)
Theorem k_disc_sound tr :
  k_disc true tr = None ->
  forall pre suf, tr = pre ++ suf ->
    cnt isD pre <= cnt isF pre <= S (cnt isD pre) /\
    cnt isF pre <= S (cnt isR pre + cnt isS pre) /\ cnt isR pre <= cnt isD pre.
Proof.
  unfold k_disc.
  assert (G : forall tr0 i m done,
             disc_counts (snd m) done ->
             mon_from (disc_step true) (fun m => phase_bad (snd m)) i m tr0 = None ->
             forall pre suf, tr0 = pre ++ suf ->
               exists ph, disc_counts ph (done ++ pre)).
  { intros tr0; induction tr0 as [|e tr0 IH]; intros i m done Hd Hm pre suf E.
    - destruct pre; [|discriminate]. rewrite app_nil_r. eauto.
    - cbn in Hm. destruct (phase_bad (snd (disc_step true m e))) eqn:Hb; [discriminate|].
      destruct pre as [|x pre].
      + rewrite app_nil_r. eauto.
      + cbn in E. injection E as E1 E. subst x.
        replace (done ++ e :: pre) with ((done ++ [e]) ++ pre) by (rewrite <- app_assoc; reflexivity).
        eapply IH; [|exact Hm|exact E]. apply disc_counts_step; auto. }
  intros H pre suf E.
  assert (D0 : disc_counts (snd (false, PStart 0)) []) by (cbn; lia).
  destruct (G tr 0 (false, PStart 0) [] D0 H pre suf E) as [ph Hp].
  cbn in Hp. unfold disc_counts in Hp. destruct ph; try lia; try (destruct Hp).
Qed.

(** Through a ReconnectClient nothing reaches the application after Close
    returned, read off the monitor. *)
Theorem k_after_sound_rc tr :
  k_after true tr = None ->
  forall pre e suf ok, tr = pre ++ e :: suf -> In (ECloseRet ok) pre -> is_handler e = false.
Proof.
  unfold k_after.
  assert (G : forall tr0 i m,
             mon_from (after_step true) a_bad i m tr0 = None ->
             forall pre e suf, tr0 = pre ++ e :: suf ->
               (a_closed m <> None \/ exists ok, In (ECloseRet ok) pre) -> is_handler e = false).
  { intros tr0; induction tr0 as [|x tr0 IH]; intros i m Hm pre e suf E Hc.
    - destruct pre; discriminate.
    - cbn in Hm. destruct (a_bad (after_step true m x)) eqn:Hb; [discriminate|].
      destruct pre as [|y pre]; cbn in E; injection E as E1 E; subst x.
      + destruct Hc as [Hc|[ok []]].
        destruct m as [mc mm ms mar mpe mb]; cbn in Hc.
        destruct e; try reflexivity; cbn in Hb; destruct mc; try congruence; discriminate.
      + eapply IH; [exact Hm|exact E|].
        destruct Hc as [Hc|[ok [Hc|Hc]]].
        * left. destruct m as [mc mm ms mar mpe mb]; cbn in Hc.
          destruct y; cbn; try exact Hc; try discriminate;
          destruct mc; try congruence; cbn; discriminate.
        * subst y. left. destruct m as [mc mm ms mar mpe mb]. cbn. discriminate.
        * right. eauto. }
  intros H pre e suf ok E Hin. eapply G; eauto.
Qed.

(** * Examples: the hypotheses are satisfiable, the monitors are not trivial *)

Definition ex_l : list attempt :=
  [ {| a_init := true; a_sub := true; a_items := [IMsg 1; IEof] |};
    {| a_init := true; a_sub := true; a_items := [IMsg 2; IBlock] |} ].

(** one reconnect, then Close while the second stream is idle *)
Definition ex_tr : list ev :=
  [ESubCall; EFactory 0; EImplSub 0; ERecv 0 0; EConn; EUpd 0 0 0; ERecv 0 1; EDisc; EReset;
   EFactory 1; EImplSub 1; EImplClose 0; ERecv 1 0; EConn; EUpd 1 0 0; EUpd 1 0 1; ERecv 1 1;
   ECloseCall].

Definition ex_states (rc : bool) (l : list attempt) (tr : list ev) : list st :=
  match model_accepts_strict rc l tr with inr ss => ss | inl _ => [] end.

Lemma ex_states_reach rc l tr s : In s (ex_states rc l tr) -> reach rc (sc_of l) s.
Proof.
  unfold ex_states. destruct (model_accepts_strict rc l tr) as [i|ss] eqn:E; [intros []|].
  intros H. exists tr. unfold model_accepts_strict in E.
  eapply accepts_sound with (leqb := ev_beq); [|exact E|exact H].
  intros a b Eb. apply internal_ev_dec_bl. exact Eb.
Qed.

Lemma find_reach rc l tr f s :
  find f (ex_states rc l tr) = Some s -> reach rc (sc_of l) s /\ f s = true.
Proof. intros H. apply find_some in H. split; [apply (ex_states_reach rc l tr)|]; tauto. Qed.

(** hypotheses of [close_subscribe_terminate_rc]: a reachable state with
    [p.closed] set while the subscriber is blocked in Recv *)
Example ex_closing :
  exists s, reach true (sc_of ex_l) s /\ r_closed s = true /\ s_pc s = SItem 1 /\ s_att s = 1.
Proof.
  destruct (find (fun s => r_closed s && match s_pc s with SItem 1 => true | _ => false end
                           && Nat.eqb (s_att s) 1) (ex_states true ex_l ex_tr)) as [s|] eqn:E;
    [|vm_compute in E; discriminate].
  apply find_reach in E. destruct E as [Hr Hf]. exists s.
  apply andb_prop in Hf. destruct Hf as [Hf H3]. apply andb_prop in Hf. destruct Hf as [H1 H2].
  apply Nat.eqb_eq in H3. destruct (s_pc s); try discriminate.
  destruct i as [|[|]]; try discriminate. auto.
Qed.

(** ... and the execution does reach the end: both calls return *)
Example ex_terminates :
  model_accepts true ex_l (ex_tr ++ [EImplClose 1; EImplClose 1; EDisc; ESubRet RCanceled; ECloseRet true])
  <> inl 0 /\
  check_case (true, true, ex_l, ex_tr ++ [EImplClose 1; EImplClose 1; EDisc; ESubRet RCanceled; ECloseRet true]) = [].
Proof. split; [vm_compute; discriminate|vm_compute; reflexivity]. Qed.

(** hypotheses of [close_subscribe_terminate_base] *)
Example ex_base_close :
  exists s, reach false (sc_of ex_l) s /\ close_succeeded s.
Proof.
  destruct (find (fun s => c_done s)
              (ex_states false ex_l [ESubCall; EFactory 0; EImplSub 0; ERecv 0 0; ECloseCall;
                                     EImplClose 0; ECloseRet true])) as [s|] eqn:E;
    [|vm_compute in E; discriminate].
  apply find_reach in E. destruct E as [Hr Hf]. exists s. split; [exact Hr|]. left. exact Hf.
Qed.

(** [exactly_one_cancel]: both orders occur -- Close before initDone (initDone
    cancels) and Close after (Close cancels) *)
Example ex_cancel_by_initdone :
  exists s, reach true (sc_of ex_l) s /\ ncancel s = 1 /\ c_pc s = CFin /\ s_pc s = SFacChk.
Proof.
  destruct (find (fun s => Nat.eqb (ncancel s) 1 && match c_pc s with CFin => true | _ => false end
                           && match s_pc s with SFacChk => true | _ => false end)
              (ex_states true ex_l [ECloseCall; ECloseRet false; ESubCall; EFactory 0])) as [s|] eqn:E;
    [|vm_compute in E; discriminate].
  apply find_reach in E. destruct E as [Hr Hf]. exists s. split; [exact Hr|].
  apply andb_prop in Hf. destruct Hf as [Hf H3]. apply andb_prop in Hf. destruct Hf as [H1 H2].
  apply Nat.eqb_eq in H1. destruct (c_pc s); try discriminate. destruct (s_pc s); try discriminate. auto.
Qed.

Example ex_cancel_by_close :
  exists s, reach true (sc_of ex_l) s /\ ncancel s = 1 /\ r_closed s = true /\ s_pc s = SItem 1.
Proof.
  destruct ex_closing as [s [Hr [Hc [Hp _]]]]. exists s. split; [exact Hr|].
  destruct (exactly_one_cancel_lemma _ _ Hr) as [H1 _].
  destruct (inv3_reach _ _ Hr) as [I3 _].
  assert (r_hascancel s = true).
  { destruct (r_hascancel s) eqn:E; auto. destruct (I3 eq_refl); congruence. }
  destruct (H1 (conj Hc H)). auto.
Qed.

(** the monitors reject what they should *)
Example ex_k_disc_rejects_missing_disconnect :
  k_disc true [ESubCall; EFactory 0; EImplSub 0; ERecv 0 0; EReset] = Some 4.
Proof. reflexivity. Qed.

Example ex_k_disc_rejects_giving_up :
  k_disc true [ESubCall; EFactory 0; EDisc; ESubRet RCanceled] = Some 3.
Proof. reflexivity. Qed.

Example ex_k_order_rejects_reordering :
  k_order true (sc_of ex_l)
    [ESubCall; EFactory 1; EImplSub 1; ERecv 1 0; EConn; EUpd 1 0 1; EUpd 1 0 0] = Some 5.
Proof. vm_compute. reflexivity. Qed.

Example ex_k_order_rejects_second_connected :
  k_order true (sc_of ex_l) [ESubCall; EFactory 1; ERecv 1 0; EConn; EUpd 1 0 0; EConn] = Some 5.
Proof. vm_compute. reflexivity. Qed.

Example ex_k_order_rejects_loss :
  k_order true (sc_of ex_l) [ESubCall; EFactory 0; EImplSub 0; ERecv 0 0; ERecv 0 1; EDisc] = Some 5.
Proof. vm_compute. reflexivity. Qed.

Example ex_k_after_rejects_two_messages :
  k_after false [ESubCall; EFactory 0; ERecv 0 0; ECloseCall; ECloseRet true; EConn; EUpd 0 0 0;
                 ERecv 0 1; EUpd 0 1 0] = Some 8.
Proof. vm_compute. reflexivity. Qed.

Example ex_k_after_rejects_delivery_after_reconnect_close :
  k_after true [ESubCall; EFactory 0; ERecv 0 0; ECloseCall; ECloseRet true; EConn] = Some 5.
Proof. vm_compute. reflexivity. Qed.

(** * Connected first, read off the monitor *)

Lemma mon_from_app {M} (mstep : M -> ev -> M) (bad : M -> bool) a : forall b i m,
  mon_from mstep bad i m (a ++ b) = None ->
  mon_from mstep bad (i + List.length a) (fold_left mstep a m) b = None.
Proof.
  induction a as [|x a IH]; intros b i m H; cbn in *.
  - rewrite Nat.add_0_r. exact H.
  - destruct (bad (mstep m x)); [discriminate|].
    replace (i + S (List.length a)) with (S i + List.length a) by lia. apply IH. exact H.
Qed.

Definition starts_conn (l : list (list ev)) : Prop :=
  match drop_empty l with [] => True | m :: _ => exists t, m = EConn :: t end.

Lemma expected_starts_conn k a : starts_conn (expected k a).
Proof.
  unfold expected, starts_conn. destruct (a_init a && a_sub a); [|exact Logic.I].
  destruct (a_items a) as [|[n| | | |] r]; cbn; unfold drop_empty; cbn; eauto; exact Logic.I.
Qed.

(** events that neither deliver anything nor start / end a stream *)
Definition quiet (e : ev) : bool :=
  match e with
  | EConn | EUpd _ _ _ | ESync | EFactory _ | EDisc | ESubRet _ => false
  | _ => true
  end.

Lemma quiet_keeps rc sc m e :
  quiet e = true ->
  o_rest (order_step rc sc m e) = o_rest m /\ o_cur (order_step rc sc m e) = o_cur m.
Proof. destruct e; cbn; intros H; try discriminate; auto. Qed.

(** On every (re)connected stream the first notification handed to the
    application is [Connected]. *)
Theorem k_order_connected_first rc sc tr :
  k_order rc sc tr = None ->
  forall pre k mid e suf,
    tr = pre ++ EFactory k :: mid ++ e :: suf ->
    forallb quiet mid = true -> is_handler e = true -> e = EConn.
Proof.
  unfold k_order. intros H pre k mid e suf E Hq He. subst tr.
  apply mon_from_app in H. cbn in H.
  match type of H with mon_from _ _ _ ?m _ = None => set (m1 := m) in H end.
  apply mon_from_app in H.
  assert (G : o_cur (fold_left (order_step rc sc) mid m1) = [] /\
              starts_conn (o_rest (fold_left (order_step rc sc) mid m1))).
  { assert (G0 : o_cur m1 = [] /\ starts_conn (o_rest m1)).
    { subst m1. cbn. split; [reflexivity|apply expected_starts_conn]. }
    clearbody m1. clear H. revert m1 G0. induction mid as [|x mid IH]; intros m1 G0; [exact G0|].
    cbn in Hq. apply andb_prop in Hq. destruct Hq as [Hx Hq]. cbn. apply IH; [exact Hq|].
    destruct (quiet_keeps rc sc m1 x Hx) as [E1 E2]. rewrite E1, E2. exact G0. }
  destruct G as [Gc Gr]. cbn in H.
  set (m2 := fold_left (order_step rc sc) mid m1) in *.
  destruct (o_bad (order_step rc sc m2 e)) eqn:Hb; [discriminate|].
  unfold starts_conn in Gr.
  destruct e; try discriminate; cbn in Hb; rewrite Gc in Hb;
  destruct (drop_empty (o_rest m2)) as [|[|h t] r]; cbn in Hb; try discriminate;
  try (destruct Gr as [t' Gr]; discriminate);
  destruct Gr as [t' Gr]; injection Gr as -> _; try reflexivity;
  apply negb_false_iff in Hb; apply internal_ev_dec_bl in Hb; congruence.
Qed.

(** * [p.closed] is a latch: every Subscribe after a returned Close ends at once *)

(** the subscriber's remaining steps on the path a closed ReconnectClient takes *)
Definition mq (s : st) : nat :=
  match s_pc s with
  | SFin => 0 | SRet _ => 1 | SDone => 2 | SCtxChk => 3 | SDisc => 4
  | SFacChk => 5 | SFactory => 6 | SClear => 7 | SInit => 8 | _ => 9
  end.

Lemma sticky_sstep sc s l s1 :
  inv3 s -> inv5 s -> c_done s = true ->
  In (l, s1) (sstep true sc s) -> is_call l = false ->
  mq s1 < mq s /\ (forall e, l = Some e -> is_handler e = false).
Proof.
  intros I3 I5 Hd H Hn.
  dst s; unfold inv3, inv5, mq, sstep, end_attempt, do_cancel, cancelled in *; cbn in *; subst.
  destruct I5 as [_ [Hc [Hl _]]]. specialize (Hc eq_refl). subst. specialize (Hl eq_refl).
  destruct I3 as [_ I3]. specialize (I3 eq_refl).
  destruct spc0; cbn in *;
    try (destruct (Hl eq_refl) as [Z _]; discriminate);
    crunch H; cbn in *; try discriminate;
    try (split; [lia|intros e [= <-]; reflexivity]);
    try (split; [lia|intros e [=]]).
  all: destruct I3 as [->|[_ [Z|Z]]]; try discriminate; cbn in *.
  all: rewrite ?andb_false_r in *; try discriminate.
Qed.

(** Once some Close call on a ReconnectClient has returned: this stays so and
    [p.closed] stays set whatever is called afterwards; the application is
    handed nothing any more; and every later Subscribe call returns after at
    most 8 steps of its own (initDone, re-opening the inner client, one
    constructor call that fails on the cancelled context, disconnect, context
    check, return) without a backoff
    sleep -- for every script, schedule and sequence of further calls. *)
Theorem closed_is_sticky sc s :
  reach true sc s -> c_done s = true ->
  r_closed s = true /\ emits (s_pc s) = false /\ mq s <= 9 /\
  (forall l s1, In (l, s1) (step true sc s) -> c_done s1 = true /\ r_closed s1 = true) /\
  (forall l s1, In (l, s1) (sstep true sc s) -> is_call l = false ->
     mq s1 < mq s /\ (forall e, l = Some e -> is_handler e = false)).
Proof.
  intros Hr Hd. pose proof (inv5_reach _ _ Hr) as I5. pose proof (inv3_reach _ _ Hr) as I3.
  assert (Hc : r_closed s = true) by (apply (proj1 (proj2 I5)); exact Hd).
  split; [exact Hc|]. split; [apply rc_closed_quiet; assumption|].
  split; [unfold mq; destruct (s_pc s); lia|]. split.
  - intros l s1 H. destruct (closed_latch _ _ _ _ H) as [L1 L2]. auto.
  - intros l s1 H Hn. eapply sticky_sstep; eauto.
Qed.

(** a second Subscribe after Subscribe/Close, and a third one: the recording is
    accepted, every call returns, nothing is delivered after the Close *)
Example ex_sequence_of_calls :
  check_case (true, true, ex_l,
              ex_tr ++ [EImplClose 1; EImplClose 1; EDisc; ESubRet RCanceled; ECloseRet true;
                        ESubCall; EFactory 2; EDisc; ESubRet RCanceled;
                        ECloseCall; EImplClose 1; ECloseRet true;
                        ESubCall; EFactory 3; EDisc; ESubRet RCanceled]) = [].
Proof. vm_compute. reflexivity. Qed.

Example ex_sticky_state :
  exists s, reach true (sc_of ex_l) s /\ c_done s = true /\ s_pc s = SInit.
Proof.
  destruct (find (fun s => c_done s && match s_pc s with SInit => true | _ => false end)
              (ex_states true ex_l
                 (ex_tr ++ [EImplClose 1; EImplClose 1; EDisc; ESubRet RCanceled; ECloseRet true; ESubCall])))
    as [s|] eqn:E; [|vm_compute in E; discriminate].
  apply find_reach in E. destruct E as [Hr Hf]. exists s. split; [exact Hr|].
  apply andb_prop in Hf. destruct Hf as [H1 H2]. split; [exact H1|]. destruct (s_pc s); try discriminate. reflexivity.
Qed.

(** the monitors reject a Subscribe that delivers, or does not return, after Close *)
Example ex_k_after_rejects_delivery_by_later_subscribe :
  k_after true [ESubCall; EFactory 0; EDisc; ECloseCall; ESubRet RCanceled; ECloseRet false;
                ESubCall; EFactory 1; EImplSub 1; ERecv 1 0; EConn] = Some 10.
Proof. vm_compute. reflexivity. Qed.

(** * DEFECT C18_1 (fixed by /repo 4c160ca): regression witness of the unpatched variant *)

Definition kf1_l : list attempt :=
  [ {| a_init := true; a_sub := true; a_items := [IMsg 1; IEof] |};
    {| a_init := true; a_sub := true; a_items := [IMsg 1; IMsg 1; IMsg 1; IEof] |} ].

(** recorded from the code before the patch *)
Definition kf1_tr : list ev :=
  [ESubCall; EFactory 0; EImplSub 0; ERecv 0 0; EConn; EUpd 0 0 0; ERecv 0 1; ESubRet RNil;
   ESubCall; EFactory 1; ECloseCall; EImplClose 0; ECloseRet true; EImplSub 1; EImplClose 0;
   ERecv 1 0; EConn; EUpd 1 0 0; ERecv 1 1; EUpd 1 1 0; ERecv 1 2; EUpd 1 2 0; ERecv 1 3;
   ESubRet RNil].

(** what the patched code does on the same script and Close timing *)
Definition kf1_tr_fixed : list ev :=
  [ESubCall; EFactory 0; EImplSub 0; ERecv 0 0; EConn; EUpd 0 0 0; ERecv 0 1; ESubRet RNil;
   ESubCall; EFactory 1; ECloseCall; EImplClose 0; ECloseRet true; EImplSub 1; EImplClose 0;
   EImplClose 1; ESubRet RNil].

(** A bare client that already served one Subscribe; Close arrives while the
    second Subscribe is connecting and returns nil.  Before the patch three
    whole messages were delivered afterwards: that recording fails the tag-5
    monitor, is a "stale close" recording, and is not a trace of the model any
    more; the recording of the patched code is accepted and passes K_P. *)
Theorem at_most_one_after_close_refuted :
  k_after false kf1_tr = Some 19 /\ stale_close 0 0 kf1_tr = true /\
  model_accepts false kf1_l kf1_tr = inl 15 /\
  check_case (false, true, kf1_l, kf1_tr_fixed) = [].
Proof. repeat split; vm_compute; reflexivity. Qed.

(** * Round 5v: Close inside the teardown of the previous transport, quiet streams *)

Definition rs_l : list attempt :=
  [ {| a_init := true; a_sub := true; a_items := [IMsg 1; IEof] |};
    {| a_init := true; a_sub := true; a_items := [IBlockQ] |} ].

(** the re-subscribe has connected and is tearing down transport 0 when Close is called *)
Definition rs_tr : list ev :=
  [ESubCall; EFactory 0; EImplSub 0; ERecv 0 0; EConn; EUpd 0 0 0; ERecv 0 1; EDisc; EReset;
   EFactory 1; EImplSub 1; EImplClose 0; ECloseCall].

(** hypotheses of [close_subscribe_terminate_rc] with a quiet stream: a reachable
    re-subscribe state, Close's critical section done, the subscriber still
    holding c.mu inside the teardown *)
Example ex_resub_state :
  exists s, reach true (sc_of rs_l) s /\ r_closed s = true /\ resub_ok s /\ s_pc s = SInstall2.
Proof.
  destruct (find (fun s => r_closed s && match s_pc s with SInstall2 => true | _ => false end
                           && match c_pc s with CBase => true | _ => false end
                           && match b_impl s with Impl _ => true | NoImpl => false end)
              (ex_states true rs_l rs_tr)) as [s|] eqn:E; [|vm_compute in E; discriminate].
  apply find_reach in E. destruct E as [Hr Hf]. exists s.
  apply andb_prop in Hf. destruct Hf as [Hf H4]. apply andb_prop in Hf. destruct Hf as [Hf H3].
  apply andb_prop in Hf. destruct Hf as [H1 H2].
  split; [exact Hr|]. split; [exact H1|]. split.
  - split.
    + destruct (b_impl s); [discriminate|discriminate].
    + right; right. destruct (c_pc s); try discriminate. reflexivity.
  - destruct (s_pc s); try discriminate. reflexivity.
Qed.

(** the recording of the unchanged code on that scenario terminates and passes K_P *)
Example ex_resub_terminates :
  check_case (true, true, rs_l,
              rs_tr ++ [ERecv 1 0; EImplClose 1; EImplClose 1; EDisc; ESubRet RCanceled; ECloseRet true]) = [].
Proof. vm_compute. reflexivity. Qed.

(** * Round 6: a Poll round outstanding while Close is called *)

(** The poller never holds a lock across a step, so the termination theorem
    (which now quantifies over executions with poller steps in them) says that
    Subscribe and Close return whatever Poll rounds are outstanding.  The
    poller itself is not left behind either: once the context of the
    transport is cancelled or the transport it reads from has been closed, a
    stalled poll round has a step, and Poll returns after at most [mu_p] of its
    own steps. *)
Lemma poll_round_wakes s a j :
  p_pc s = PRound a j -> (cancelled s = true \/ p_wake s = true \/ a = true) ->
  pstep s <> [].
Proof.
  intros H Hc. unfold pstep. rewrite H. destruct a; [discriminate|].
  destruct Hc as [Hc|[Hc|Hc]]; try discriminate; rewrite Hc; rewrite ?orb_true_r; discriminate.
Qed.

Lemma poll_steps_bounded s l s1 :
  In (l, s1) (pstep s) -> is_call l = false -> mu_p s1 < mu_p s.
Proof.
  intros H Hn. dst s; unfold pstep, mu_p in *; cbn in *;
  crunch H; cbn in *; try discriminate; splitifs; cbn; lia.
Qed.

(** Close called while a stalled Poll round is outstanding on the stream of a
    ReconnectClient: accepted, everything returns *)
Example ex_close_during_poll :
  check_case (true, true, [ {| a_init := true; a_sub := true; a_items := [IMsg 1; IBlock] |} ],
              [ESubCall; EFactory 0; EImplSub 0; ERecv 0 0; EConn; EUpd 0 0 0; ERecv 0 1;
               EPollCall false; ECloseCall; EImplClose 0; EImplClose 0; EPollRet false;
               EImplClose 0; EDisc; ESubRet RCanceled; ECloseRet true]) = [].
Proof. vm_compute. reflexivity. Qed.

(** C18, continued: what the monitors of K_P mean (soundness lemmas), and
    examples showing that the theorems' hypotheses are satisfiable and that
    the monitors reject bad traces. *)
From Gnmi Require Import Base.Prelude Client.ClientModel Client.ClientCheck
     Client.ClientProofs Client.ClientProofs2 Client.ClientProofs3 Client.ClientProofs4.

(** * K_P soundness *)

Definition cnt (p : ev -> bool) (tr : list ev) : nat := List.length (filter p tr).
Definition isF e := match e with EFactory _ => true | _ => false end.
Definition isD e := match e with EDisc => true | _ => false end.
Definition isR e := match e with EReset => true | _ => false end.

Lemma cnt_snoc p tr e : cnt p (tr ++ [e]) = cnt p tr + (if p e then 1 else 0).
Proof. unfold cnt. rewrite filter_app, app_length. cbn. destruct (p e); reflexivity. Qed.

(** counts of constructor calls / disconnects / resets determined by the phase *)
Definition disc_counts (ph : phase) (pre : list ev) : Prop :=
  let f := cnt isF pre in let d := cnt isD pre in let r := cnt isR pre in
  match ph with
  | PStart k => f = k /\ d = k /\ r = k
  | PAtt k => f = S k /\ d = k /\ r = k
  | PDisc k => f = S k /\ d = S k /\ r = k
  | PEnd => d <= f <= S d /\ f <= S r /\ r <= d
  | PBad => False
  end.

Lemma disc_counts_step m e pre :
  disc_counts (snd m) pre -> phase_bad (snd (disc_step true m e)) = false ->
  disc_counts (snd (disc_step true m e)) (pre ++ [e]).
Proof.
  destruct m as [st ph]. unfold disc_counts. cbn [snd]. rewrite !cnt_snoc.
  intros H Hb.
  destruct ph, e; cbn in *; try discriminate; try lia;
  repeat match goal with
         | H : context[if ?c then _ else _] |- _ => destruct c eqn:?; cbn in *
         | |- context[if ?c then _ else _] => destruct c eqn:?; cbn in *
         | H : (_ =? _)%nat = true |- _ => apply Nat.eqb_eq in H; subst
         end; try discriminate; try lia; try tauto.
Qed.

(** One disconnect per attempt and a reset before every retry, read off the
    monitor: at every moment of an accepted recording of a ReconnectClient,
    #disconnect <= #attempts <= #disconnect + 1, #attempts <= #reset + 1 and
    #reset <= #disconnect. *)
Theorem k_disc_sound tr :
  k_disc true tr = None ->
  forall pre suf, tr = pre ++ suf ->
    cnt isD pre <= cnt isF pre <= S (cnt isD pre) /\
    cnt isF pre <= S (cnt isR pre) /\ cnt isR pre <= cnt isD pre.
Proof.
  unfold k_disc.
  assert (G : forall tr i m done,
             disc_counts (snd m) done ->
             mon_from (disc_step true) (fun m => phase_bad (snd m)) i m tr = None ->
             forall pre suf, tr = pre ++ suf ->
               exists ph, disc_counts ph (done ++ pre)).
  { induction tr as [|e tr IH]; intros i m done Hd Hm pre suf E.
    - destruct pre; [|discriminate]. rewrite app_nil_r. eauto.
    - cbn in Hm. destruct (phase_bad (snd (disc_step true m e))) eqn:Hb; [discriminate|].
      destruct pre as [|x pre].
      + rewrite app_nil_r. eauto.
      + cbn in E. injection E as <- E.
        replace (done ++ x :: pre) with ((done ++ [x]) ++ pre) by (rewrite <- app_assoc; reflexivity).
        eapply IH; [|exact Hm|exact E]. apply disc_counts_step; auto. }
  intros H pre suf E.
  destruct (G tr 0 (false, PStart 0) [] (conj eq_refl (conj eq_refl eq_refl)) H pre suf E) as [ph Hp].
  cbn in Hp. unfold disc_counts in Hp. destruct ph; try lia. destruct Hp.
Qed.

(** Through a ReconnectClient nothing reaches the application after Close
    returned, read off the monitor. *)
Theorem k_after_sound_rc tr :
  k_after true tr = None ->
  forall pre e suf ok, tr = pre ++ e :: suf -> In (ECloseRet ok) pre -> is_handler e = false.
Proof.
  unfold k_after.
  assert (G : forall tr i m,
             mon_from (after_step true) a_bad i m tr = None ->
             forall pre e suf, tr = pre ++ e :: suf ->
               (a_closed m <> None \/ exists ok, In (ECloseRet ok) pre) -> is_handler e = false).
  { induction tr as [|x tr IH]; intros i m Hm pre e suf E Hc.
    - destruct pre; discriminate.
    - cbn in Hm. destruct (a_bad (after_step true m x)) eqn:Hb; [discriminate|].
      destruct pre as [|y pre]; cbn in E; injection E as <- E.
      + destruct Hc as [Hc|[ok []]].
        destruct x; try reflexivity; cbn in Hb; destruct (a_closed m); try congruence; discriminate.
      + eapply IH; [exact Hm|exact E|].
        destruct Hc as [Hc|[ok [Hc|Hc]]].
        * left. destruct y; cbn; try exact Hc; try discriminate;
          destruct (a_closed m); try congruence; cbn; discriminate.
        * subst y. left. cbn. discriminate.
        * right. eauto. }
  intros H pre e suf ok E Hin. eapply G; eauto.
Qed.

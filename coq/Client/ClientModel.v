(** Model of the client layer for C18: [BaseClient.Subscribe/run/Close]
    (client/client.go), [ReconnectClient.Subscribe/initDone/Close]
    (client/reconnect.go) and the transport ([Impl]) they drive, as a labelled
    transition system with three threads:

      - the subscriber (the goroutine that called [Subscribe]),
      - the closer (the goroutine that called [Close]),
      - the canceller (whoever cancels the context handed to [Subscribe]).

    Each of the first two may make any number of calls, one after the other
    (Subscribe ... Subscribe ..., Close ... Close ...), a Close overlapping a
    Subscribe at any point; on a bare client later calls are sequential.

    Atomic steps are the critical sections of [p.mu] / [c.mu], single channel
    operations and single calls into the transport or into the application's
    callbacks.  [CacheClient] (client/cache.go) only wraps the handler and is
    transparent here.

    The transport is the environment.  What one (re)connection attempt does is
    given by a script: does the constructor succeed, does [Impl.Subscribe]
    succeed, and what do the successive [Recv] calls do (deliver a message of
    [n] notifications, fail, report end of stream, block).  Assumptions on the
    transport (the Section hypothesis of DESIGN.md, built into [sstep]):
      - the constructor and [Impl.Subscribe] fail when their context is already
        cancelled (a dial on a cancelled context fails);
      - a [Recv] that blocks returns an error once the context is cancelled or
        the [Impl] is closed ([IBlock]), or only once the [Impl] is closed
        ([IBlockQ], a quiet stream not woken by its context); all other calls return;
      - data that is already available may still be delivered by [Recv] after
        cancellation (the transport is adversarial here);
      - the first [Recv] that decodes something emits [Connected] before it
        (client/fake/fake.go:96-105, client/gnmi/client.go:184-189 -- that code
        is exercised by the correspondence run).

    Definitions only; proofs are in ClientProofs.v. *)
From Gnmi Require Import Base.Prelude.

(** * Generic labelled transition systems (executable successor function) *)

Section Lts.
  Context {S L : Type}.
  Variable step : S -> list (option L * S).

  (** [run s tr s']: some schedule leads from [s] to [s'] and shows [tr]. *)
  Inductive run : S -> list L -> S -> Prop :=
  | run_nil s : run s [] s
  | run_tau s s1 tr s' : In (None, s1) (step s) -> run s1 tr s' -> run s tr s'
  | run_vis s l s1 tr s' : In (Some l, s1) (step s) -> run s1 tr s' -> run s (l :: tr) s'.

  (** [exec s n s']: exactly [n] steps (visible or not) lead from [s] to [s']. *)
  Inductive exec : S -> nat -> S -> Prop :=
  | exec_0 s : exec s 0 s
  | exec_S s l s1 n s' : In (l, s1) (step s) -> exec s1 n s' -> exec s (Datatypes.S n) s'.

  Definition stuck (s : S) : Prop := step s = [].

  Variable eqb : S -> S -> bool.

  Fixpoint mem (s : S) (l : list S) : bool :=
    match l with [] => false | x :: l' => eqb s x || mem s l' end.

  Fixpoint add_all (new acc : list S) : list S :=
    match new with
    | [] => acc
    | x :: new' => if mem x acc then add_all new' acc else add_all new' (acc ++ [x])
    end.

  Definition tau_succ (s : S) : list S :=
    flat_map (fun ls => match fst ls with None => [snd ls] | Some _ => [] end) (step s).

  Fixpoint tau_close (fuel : nat) (ss : list S) : list S :=
    match fuel with
    | 0 => ss
    | Datatypes.S f =>
        let ss' := add_all (flat_map tau_succ ss) ss in
        if Nat.eqb (List.length ss') (List.length ss) then ss else tau_close f ss'
    end.

  Variable leqb : L -> L -> bool.

  Definition vis_succ (l : L) (s : S) : list S :=
    flat_map (fun ls => match fst ls with
                        | Some l' => if leqb l l' then [snd ls] else []
                        | None => [] end) (step s).

  (** Subset construction: the set of states the system may be in after
      showing [tr]; [inl i] when the [i]-th label cannot be shown. *)
  Fixpoint accept_from (fuel : nat) (i : nat) (ss : list S) (tr : list L) : nat + list S :=
    match tr with
    | [] => inr ss
    | l :: tr' =>
        match add_all (flat_map (vis_succ l) ss) [] with
        | [] => inl i
        | ss1 => accept_from fuel (Datatypes.S i) (tau_close fuel ss1) tr'
        end
    end.

  Definition accepts (fuel : nat) (s0 : S) (tr : list L) : nat + list S :=
    accept_from fuel 0 (tau_close fuel [s0]) tr.
End Lts.

(** * Scripts *)

Inductive item :=
| IMsg (n : nat)   (* a message carrying n notifications arrives; Recv returns nil *)
| IErr             (* Recv returns an error *)
| IEof             (* Recv returns io.EOF / ErrStopReading *)
| IBlock           (* nothing arrives: Recv blocks until cancelled / closed, then fails *)
| IBlockQ.         (* a quiet stream whose Recv is NOT woken by the context: it blocks until
                      the Impl itself is closed, then fails *)

Record attempt := { a_init : bool; a_sub : bool; a_items : list item }.

(** After the scripted items the stream is exhausted: the transport emits
    [Sync] and returns [ErrStopReading] (what client/fake does). *)

Definition script := nat -> attempt.

(** * Observable events *)

Inductive rcls := RNil | RCanceled | ROther.

Inductive ev :=
| ESubCall | ECloseCall | ECancelCall          (* the application calls in *)
| EPollCall (answers : bool)                   (* Poll is called; will the target answer the round? *)
| EPollRet (ok : bool)                         (* Poll returns (nil?) *)
| EFactory (k : nat)                           (* transport constructor, attempt k *)
| EImplSub (k : nat)                           (* Impl.Subscribe of attempt k *)
| ERecv (k i : nat)                            (* Impl.Recv number i of attempt k *)
| EImplClose (k : nat)                         (* Impl.Close of the Impl of attempt k *)
| EConn | EUpd (k i j : nat) | ESync           (* NotificationHandler invocations *)
| EDisc | EReset                               (* ReconnectClient callbacks *)
| ESubRet (r : rcls) | ECloseRet (ok : bool)   (* the calls return *)
| EHang | EPanic                               (* watchdog / recovered panic: never shown by the model *)
| ECorrupt      (* a notification the application kept was modified afterwards: never shown by the model *)
| ENoBackoff    (* a retry followed its disconnect without the backoff sleep: never shown by the model *)
| ERace.        (* the Go race detector reported a data race inside the client packages (the critical
                   sections the model takes as atomic are not): never shown by the model *)

(** * State *)

Inductive spc :=
| SIdle | SInit | SClear
| SFactory | SFacChk | SImplSub | SImplSubChk | SSubFailClose
| SInstall | SInstall2 | SInstClosed
| SRecv (i : nat) | SItem (i : nat) | SDeliver (i j n : nat) | SSyncEnd (i : nat)
| SChk (i : nat) | SRunClose
| SDisc | SCtxChk | SSleep | SReset
| SDone | SRet (r : rcls) | SFin.

Inductive cpc := CIdle | CLock | CBase | CBaseHold | CWait | CRet | CFin.
Inductive xpc := XIdle | XCalled | XFin.
Inductive sdone := SDNil | SDOpen | SDClosed.
(** the poller: a goroutine calling Poll() -- BaseClient.Poll takes the current
    transport under c.mu and runs one read round on it, outside any lock *)
Inductive ppc := PIdle | PImpl (a : bool) | PRound (a : bool) (j : nat) | PClose (j : nat) | PRet (ok : bool).
Inductive oimpl := NoImpl | Impl (j : nat).   (* BaseClient.clientImpl: nil / the Impl of attempt j *)

Record st := mk {
  s_pc : spc; s_att : nat; s_conn : bool; s_curcl : bool; s_err : bool;
  c_pc : cpc; c_wait : bool; c_ok : bool;
  x_pc : xpc;
  r_closed : bool; r_hascancel : bool; r_subdone : sdone;
  ctx_r : bool; ctx_p : bool; ncancel : nat; nsleep : nat;
  b_closed : bool; b_impl : oimpl; b_mu : bool;
  c_done : bool   (* ghost: reconnect -- some Close call has returned; bare client -- a Close
                     call made after the current Subscribe call re-opened the client returned nil *) ;
  p_pc : ppc;     (* the poller *)
  p_wake : bool   (* the transport the poll round reads from has been closed *) }.

Definition init : st :=
  mk SIdle 0 false false false CIdle false false XIdle false false SDNil false false 0 0 false NoImpl false false PIdle false.

Definition cancelled (s : st) : bool := ctx_r s || ctx_p s.

(** field updates *)
Definition set_spc v s := let '(mk a b c d e f g h i j k l m n o p q r t u w y) := s in mk v b c d e f g h i j k l m n o p q r t u w y.
Definition set_att v s := let '(mk a b c d e f g h i j k l m n o p q r t u w y) := s in mk a v c d e f g h i j k l m n o p q r t u w y.
Definition set_conn v s := let '(mk a b c d e f g h i j k l m n o p q r t u w y) := s in mk a b v d e f g h i j k l m n o p q r t u w y.
Definition set_curcl v s := let '(mk a b c d e f g h i j k l m n o p q r t u w y) := s in mk a b c v e f g h i j k l m n o p q r t u w y.
Definition set_err v s := let '(mk a b c d e f g h i j k l m n o p q r t u w y) := s in mk a b c d v f g h i j k l m n o p q r t u w y.
Definition set_cpc v s := let '(mk a b c d e f g h i j k l m n o p q r t u w y) := s in mk a b c d e v g h i j k l m n o p q r t u w y.
Definition set_cwait v s := let '(mk a b c d e f g h i j k l m n o p q r t u w y) := s in mk a b c d e f v h i j k l m n o p q r t u w y.
Definition set_cok v s := let '(mk a b c d e f g h i j k l m n o p q r t u w y) := s in mk a b c d e f g v i j k l m n o p q r t u w y.
Definition set_xpc v s := let '(mk a b c d e f g h i j k l m n o p q r t u w y) := s in mk a b c d e f g h v j k l m n o p q r t u w y.
Definition set_rclosed v s := let '(mk a b c d e f g h i j k l m n o p q r t u w y) := s in mk a b c d e f g h i v k l m n o p q r t u w y.
Definition set_hascancel v s := let '(mk a b c d e f g h i j k l m n o p q r t u w y) := s in mk a b c d e f g h i j v l m n o p q r t u w y.
Definition set_subdone v s := let '(mk a b c d e f g h i j k l m n o p q r t u w y) := s in mk a b c d e f g h i j k v m n o p q r t u w y.
Definition set_ctxr v s := let '(mk a b c d e f g h i j k l m n o p q r t u w y) := s in mk a b c d e f g h i j k l v n o p q r t u w y.
Definition set_ctxp v s := let '(mk a b c d e f g h i j k l m n o p q r t u w y) := s in mk a b c d e f g h i j k l m v o p q r t u w y.
Definition set_ncancel v s := let '(mk a b c d e f g h i j k l m n o p q r t u w y) := s in mk a b c d e f g h i j k l m n v p q r t u w y.
Definition set_nsleep v s := let '(mk a b c d e f g h i j k l m n o p q r t u w y) := s in mk a b c d e f g h i j k l m n o v q r t u w y.
Definition set_bclosed v s := let '(mk a b c d e f g h i j k l m n o p q r t u w y) := s in mk a b c d e f g h i j k l m n o p v r t u w y.
Definition set_bimpl v s := let '(mk a b c d e f g h i j k l m n o p q r t u w y) := s in mk a b c d e f g h i j k l m n o p q v t u w y.
Definition set_bmu v s := let '(mk a b c d e f g h i j k l m n o p q r t u w y) := s in mk a b c d e f g h i j k l m n o p q r v u w y.
Definition set_cdone v s := let '(mk a b c d e f g h i j k l m n o p q r t u w y) := s in mk a b c d e f g h i j k l m n o p q r t v w y.
Definition set_ppc v s := let '(mk a b c d e f g h i j k l m n o p q r t u w y) := s in mk a b c d e f g h i j k l m n o p q r t u v y.
Definition set_pwake v s := let '(mk a b c d e f g h i j k l m n o p q r t u w y) := s in mk a b c d e f g h i j k l m n o p q r t u w v.

(** the transport of attempt [j] is being closed: a poll round reading from it wakes up *)
Definition pwake (j : nat) (s : st) : st :=
  match p_pc s with
  | PRound _ j' => if Nat.eqb j j' then set_pwake true s else s
  | _ => s
  end.

(** [p.cancel()]: cancels the derived context (idempotent); the ghost counter
    [ncancel] counts the calls that actually cancelled the current context. *)
Definition do_cancel (s : st) : st :=
  if ctx_r s then s else set_ncancel (S (ncancel s)) (set_ctxr true s).

Section Model.
  Variable reconnect : bool.   (* ReconnectClient around the BaseClient, or the BaseClient alone *)
  Variable sc : script.

  (** The inner [Client.Subscribe] returned ([s_err]: with an error). *)
  Definition end_attempt (e : bool) (s : st) : st :=
    if reconnect then set_spc SDisc (set_err e s)
    else set_spc (SRet (if e then ROther else RNil)) (set_err e s).

  (** ** the subscriber *)
  Definition sstep (s : st) : list (option ev * st) :=
    let k := s_att s in
    match s_pc s with
    | SIdle => [(Some ESubCall, set_spc (if reconnect then SInit else SClear) s)]
    | SInit =>
        (* initDone, under p.mu: subscribeDone = make(chan); ctx, p.cancel = WithCancel(ctx);
           if p.closed { p.cancel() } *)
        (* a fresh context and cancel function for this call *)
        let s1 := set_hascancel true (set_subdone SDOpen (set_ncancel 0 (set_ctxr false s))) in
        [(None, set_spc SClear (if r_closed s then do_cancel s1 else s1))]
    | SClear =>
        (* BaseClient.Subscribe, on entry: c.mu.Lock(); c.closed = false; c.mu.Unlock()
           (a new Subscribe re-opens the client before it connects) *)
        if b_mu s then [] else [(None, set_spc SFactory (set_bclosed false s))]
    | SFactory => [(Some (EFactory k), set_spc SFacChk s)]
    | SFacChk =>
        if a_init (sc k) && negb (cancelled s)
        then [(None, set_spc SImplSub (set_conn false (set_curcl false s)))]
        else [(None, end_attempt true s)]
    | SImplSub => [(Some (EImplSub k), set_spc SImplSubChk s)]
    | SImplSubChk =>
        if a_sub (sc k) && negb (cancelled s)
        then [(None, set_spc SInstall s)]
        else [(None, set_spc SSubFailClose s)]
    | SSubFailClose => [(Some (EImplClose k), end_attempt true (set_curcl true (pwake k s)))]
    | SInstall =>
        (* c.mu.Lock(); if c.clientImpl != nil { c.clientImpl.Close() } *)
        if b_mu s then []
        else match b_impl s with
             | NoImpl =>
                 [(None, set_spc (if b_closed s then SInstClosed else SRecv 0) (set_bimpl (Impl k) s))]
             | Impl j => [(Some (EImplClose j), set_spc SInstall2 (set_bmu true (pwake j s)))]
             end
    | SInstall2 =>
        (* c.clientImpl = impl; closed := c.closed; c.mu.Unlock() *)
        [(None, set_spc (if b_closed s then SInstClosed else SRecv 0)
                        (set_bmu false (set_bimpl (Impl k) s)))]
    | SInstClosed =>
        (* closed while connecting: impl.Close(); return nil *)
        [(Some (EImplClose k), end_attempt false (set_curcl true (pwake k s)))]
    | SRecv i => [(Some (ERecv k i), set_spc (SItem i) s)]
    | SItem i =>
        match nth_error (a_items (sc k)) i with
        | Some (IMsg n) =>
            if s_conn s then [(None, set_spc (SDeliver i 0 n) s)]
            else [(Some EConn, set_spc (SDeliver i 0 n) (set_conn true s))]
        | Some IErr => [(None, set_spc SRunClose s)]
        | Some IEof => [(None, end_attempt false s)]
        | Some IBlock =>
            if cancelled s || s_curcl s then [(None, set_spc SRunClose s)] else []
        | Some IBlockQ =>
            if s_curcl s then [(None, set_spc SRunClose s)] else []
        | None =>
            if s_conn s then [(Some ESync, end_attempt false s)]
            else [(Some EConn, set_spc (SSyncEnd i) (set_conn true s))]
        end
    | SDeliver i j n =>
        if Nat.ltb j n then [(Some (EUpd k i j), set_spc (SDeliver i (S j) n) s)]
        else [(None, set_spc (SChk i) s)]
    | SSyncEnd _ => [(Some ESync, end_attempt false s)]
    | SChk i =>
        (* c.mu.RLock(); closed := c.closed; c.mu.RUnlock(); if closed { return nil } *)
        if b_mu s then []
        else if b_closed s then [(None, end_attempt false s)]
             else [(None, set_spc (SRecv (S i)) s)]
    | SRunClose => [(Some (EImplClose k), end_attempt true (set_curcl true (pwake k s)))]
    | SDisc => [(Some EDisc, set_spc SCtxChk s)]
    | SCtxChk =>
        if cancelled s then [(None, set_spc SDone s)]
        else [(None, set_spc SSleep s)]
    | SSleep => [(None, set_spc SReset (set_nsleep (S (nsleep s)) s))]
    | SReset => [(Some EReset, set_spc SClear (set_att (S k) s))]
    | SDone => [(None, set_spc (SRet RCanceled) (set_subdone SDClosed s))]
    | SRet r => [(Some (ESubRet r), set_spc SFin s)]
    | SFin =>
        (* the application calls Subscribe again on the same client (calls on one
           client are sequential per kind; transport attempts keep their numbering).
           Bare client: not while a Close call is still in progress (such a Close
           is taken to precede the new call). *)
        if reconnect
        then [(Some ESubCall, set_spc SInit (set_att (S k) s))]
        else match c_pc s with
             | CIdle | CFin => [(Some ESubCall, set_spc SClear (set_att (S k) (set_cdone false s)))]
             | _ => []
             end
    end.

  (** ** the closer *)
  Definition cstep (s : st) : list (option ev * st) :=
    match c_pc s with
    | CIdle | CFin =>
        (* Close may be called any number of times, at any moment.  For a bare
           client [c_wait] is used as a ghost: was the call made after the
           Subscribe call in progress had re-opened the client ([SClear])? *)
        if reconnect then [(Some ECloseCall, set_cpc CLock s)]
        else [(Some ECloseCall,
               set_cpc CBase (set_cwait (match s_pc s with SIdle | SClear | SFin => false | _ => true end) s))]
    | CLock =>
        (* under p.mu: if p.cancel != nil { p.cancel() }; p.closed = true; return p.subscribeDone *)
        let s1 := if r_hascancel s then do_cancel s else s in
        [(None, set_cpc CBase (set_cwait (match r_subdone s with SDNil => false | _ => true end)
                                 (set_rclosed true s1)))]
    | CBase =>
        (* BaseClient.Close: c.mu.Lock(); if c.clientImpl == nil { return ErrClientInit };
           c.closed = true; return c.clientImpl.Close() *)
        if b_mu s then []
        else match b_impl s with
             | NoImpl => [(None, set_cpc CWait (set_cok false s))]
             | Impl j =>
                 [(Some (EImplClose j),
                   set_cpc CBaseHold (set_cok true (set_bmu true (set_bclosed true
                     (if Nat.eqb j (s_att s) then set_curcl true (pwake j s) else pwake j s)))))]
             end
    | CBaseHold => [(None, set_cpc CWait (set_bmu false s))]
    | CWait =>
        (* if subscribeDone != nil { <-subscribeDone } *)
        if c_wait s && reconnect
        then match r_subdone s with SDClosed => [(None, set_cpc CRet s)] | _ => [] end
        else [(None, set_cpc CRet s)]
    | CRet => [(Some (ECloseRet (c_ok s)),
                set_cpc CFin (set_cdone (if reconnect then true else c_done s || (c_ok s && c_wait s)) s))]
    end.

  (** ** the canceller of the caller's context *)
  Definition xstep (s : st) : list (option ev * st) :=
    match x_pc s with
    | XIdle => [(Some ECancelCall, set_xpc XCalled s)]
    | XCalled => [(None, set_xpc XFin (set_ctxp true s))]
    | XFin => []
    end.

  (** ** the poller ([ReconnectClient.Poll] forwards to [BaseClient.Poll];
         [CacheClient.Poll] only resets its synced channel first) *)
  Definition pstep (s : st) : list (option ev * st) :=
    match p_pc s with
    | PIdle => [(Some (EPollCall true), set_ppc (PImpl true) s); (Some (EPollCall false), set_ppc (PImpl false) s)]
    | PImpl a =>
        (* impl, err := c.Impl() under c.mu; nil: return ErrClientInit *)
        if b_mu s then []
        else match b_impl s with
             | NoImpl => [(None, set_ppc (PRet false) s)]
             | Impl j =>
                 (* a transport of an earlier attempt may or may not have been closed yet *)
                 [(None, set_ppc (PRound a j) (set_pwake (if Nat.eqb j (s_att s) then s_curcl s else true) s))]
             end
    | PRound a j =>
        (* impl.Poll(); run(impl): one read round, outside any lock *)
        if a then [(None, set_ppc (PRet true) s)]            (* the target answers: ErrStopReading *)
        else if cancelled s || p_wake s then [(None, set_ppc (PClose j) s)]   (* the stalled Recv fails *)
             else []
    | PClose j =>
        (* run: impl.Close() after the failed Recv; return err *)
        [(Some (EImplClose j), set_ppc (PRet false) (if Nat.eqb j (s_att s) then set_curcl true s else s))]
    | PRet ok => [(Some (EPollRet ok), set_ppc PIdle s)]
    end.

  Definition step (s : st) : list (option ev * st) := sstep s ++ cstep s ++ xstep s ++ pstep s.

  (* DEFECT C18_1 -- fixed by /repo 4c160ca; the model above is the patched code:
     [SClear], the [closed] test at the install step, [SInstClosed], no side
     condition on Close calls.  The text below describes the unpatched variant. *)
  (** The code as it is now also lets Close be called on a bare client while a
      second or later Subscribe call is still in progress.  [cstep] leaves that
      call out (its side condition on [CIdle | CFin]); this extra transition is
      the only difference between [step] and the code.  What follows it are
      ordinary steps: [BaseClient.Close] finds the transport of the PREVIOUS
      call installed, sets [closed], closes that transport and returns nil;
      the Subscribe in progress then installs its own transport with
      [c.closed = false] and streams on (fixes/C18_1_...diff).  Once the patch is
      in: switch [defect_C18_1] to [false]; Subscribe then clears [closed] when it
      is called instead of at the install step, and the install step, finding
      [closed] set, closes the new transport and returns nil -- to be modelled in
      [sstep] ([SInstall]) together with dropping the side condition in [cstep]. *)
  Definition defect_C18_1 : bool := false.

  Definition defect_steps (s : st) : list (option ev * st) :=
    if negb defect_C18_1 || reconnect then []
    else match c_pc s with
         | CIdle | CFin =>
             if Nat.eqb (s_att s) 0 || match s_pc s with SFin => true | _ => false end
             then [] else [(Some ECloseCall, set_cpc CBase s)]
         | _ => []
         end.

  (** the code as it is now *)
  Definition step_now (s : st) : list (option ev * st) := step s ++ defect_steps s.

  (** ... as seen when the ReconnectClient was built with nil disconnect / reset
      callbacks: those two steps are silent *)
  Definition step_nocb (s : st) : list (option ev * st) :=
    map (fun ls => (match fst ls with Some EDisc | Some EReset => None | l => l end, snd ls))
        (step_now s).
End Model.

(** A finite script: attempts beyond the list fail in the constructor. *)
Definition dflt_attempt : attempt := {| a_init := false; a_sub := false; a_items := [] |}.
Definition sc_of (l : list attempt) : script := fun k => nth k l dflt_attempt.

(** C18, continued: after Close returned at most one further message
    (monitor [after_step]). *)
From Gnmi Require Import Base.Prelude Client.ClientModel Client.ClientCheck Client.ClientProofs.

Local Arguments Nat.ltb : simpl never.

Ltac dst s :=
  destruct s as [spc0 att0 conn0 curcl0 err0 cpc0 cw0 cok0 xpc0 rcl0 hc0 sd0 cr0 cp0 nc0 ns0 bc0 bi0 bm0].

(** ** through a ReconnectClient: nothing at all after Close returned *)

Definition early (p : spc) : bool :=
  match p with
  | SIdle | SInit | SFactory | SFacChk | SDisc | SCtxChk | SDone | SRet _ | SFin => true
  | _ => false
  end.

Definition emits (p : spc) : bool :=
  match p with SItem _ | SDeliver _ _ _ | SSyncEnd _ => true | _ => false end.

Definition inv5 (s : st) : Prop :=
  (r_subdone s = SDNil <-> (s_pc s = SIdle \/ s_pc s = SInit)) /\
  (r_subdone s = SDClosed -> match s_pc s with SRet _ | SFin => True | _ => False end) /\
  (match c_pc s with CIdle | CLock => True
   | _ => r_closed s = true /\ (c_wait s = false -> early (s_pc s) = true) end) /\
  (match c_pc s with CRet | CFin => c_wait s = true -> r_subdone s = SDClosed | _ => True end).

Lemma inv5_step sc s l s1 : inv3 s -> inv5 s -> In (l, s1) (step true sc s) -> inv5 s1.
Proof.
  intros I3 I H. dst s; unfold inv5, inv3, cancelled in *; cbn in *;
  split_step H; crunch H; cbn in *; splitifs;
  try solve [intuition (try congruence; try discriminate)];
  try destruct cpc0; cbn in *;
  try solve [intuition (try congruence; try discriminate)];
  try destruct cr0; try destruct cw0; cbn in *;
  intuition (try congruence; try discriminate).
  all: rewrite ?andb_false_r in *; try discriminate.
  all: try (destruct spc0; cbn in *; try reflexivity; intuition (try congruence; try discriminate)).
Qed.

Lemma inv5_reach sc s : reach true sc s -> inv5 s.
Proof.
  intros H. assert (G : inv3 s /\ inv5 s).
  { revert s H. apply reach_ind'.
    - unfold inv3, inv5, init; cbn. intuition (try congruence; try discriminate).
    - intros s l s1 [I3 I5] H. split; [eapply inv3_step; eauto|eapply inv5_step; eauto]. }
  tauto.
Qed.

Lemma rc_closed_quiet s : inv5 s -> c_pc s = CFin -> emits (s_pc s) = false.
Proof.
  dst s; unfold inv5; cbn. intros [I1 [I2 [I3 I4]]] ->.
  destruct cw0.
  - specialize (I4 eq_refl). specialize (I2 I4). destruct spc0; try reflexivity; destruct I2.
  - destruct I3 as [_ I3]. specialize (I3 eq_refl). destruct spc0; try reflexivity; discriminate.
Qed.

Definition R_after_rc (s : st) (m : astate) : Prop :=
  inv3 s /\ inv5 s /\ a_bad m = false /\
  a_closed m = (match c_pc s with CFin => Some (c_ok s) | _ => None end).

Lemma R_after_rc_tau sc s m s1 :
  R_after_rc s m -> In (None, s1) (step true sc s) -> R_after_rc s1 m.
Proof.
  intros [I3 [I5 [B E]]] H. split; [eapply inv3_step; eauto|]. split; [eapply inv5_step; eauto|].
  split; [exact B|]. rewrite E. clear I3 I5 E. dst s; cbn in *.
  split_step H; crunch H; cbn in *; splitifs; try reflexivity.
Qed.

Lemma R_after_rc_vis sc s m l s1 :
  R_after_rc s m -> In (Some l, s1) (step true sc s) ->
  a_bad (after_step true m l) = false /\ R_after_rc s1 (after_step true m l).
Proof.
  intros [I3 [I5 [B E]]] H.
  assert (Q := rc_closed_quiet _ I5).
  assert (I3' := inv3_step _ _ _ _ I3 H). assert (I5' := inv5_step _ _ _ _ I3 I5 H).
  unfold R_after_rc. split; [|split; [exact I3'|split; [exact I5'|]]]; clear I3 I5 I3' I5';
  destruct m as [mc mm ms mb]; dst s; cbn in *; subst mc mb;
  split_step H; crunch H; cbn in *; splitifs; try (split; reflexivity); try reflexivity;
  try (destruct cpc0; try discriminate; specialize (Q eq_refl); discriminate).
Qed.

(** ** a bare Base/Cache client: at most one message after a successful Close *)

Definition post_install (p : spc) : bool :=
  match p with
  | SRecv _ | SItem _ | SDeliver _ _ _ | SSyncEnd _ | SChk _ | SRunClose | SRet _ | SFin => true
  | _ => false
  end.

Definition inv6 (s : st) : Prop :=
  (match b_impl s with NoImpl => True | Impl _ => post_install (s_pc s) = true end) /\
  (match c_pc s with
   | CBaseHold | CWait | CRet | CFin =>
       c_ok s = true -> b_closed s = true /\ b_impl s <> NoImpl
   | _ => True end).

Lemma inv6_step sc s l s1 : inv6 s -> In (l, s1) (step false sc s) -> inv6 s1.
Proof.
  intros I H. dst s; unfold inv6 in *; cbn in *;
  split_step H; crunch H; cbn in *; splitifs;
  try solve [intuition (try congruence; try discriminate)];
  try destruct cpc0; cbn in *;
  intuition (try congruence; try discriminate).
Qed.

Definition seen_ok (s : st) (m : astate) : Prop :=
  match a_seen m with
  | None => True
  | Some c => match s_pc s with
              | SDeliver i _ _ | SSyncEnd i => c = (s_att s, i)
              | SChk _ | SRet _ | SFin => True
              | _ => False
              end
  end.

Definition R_after_base (s : st) (m : astate) : Prop :=
  inv6 s /\ a_bad m = false /\
  a_closed m = (match c_pc s with CFin => Some (c_ok s) | _ => None end) /\
  (match s_pc s with
   | SItem i | SDeliver i _ _ | SSyncEnd i => a_curmsg m = (s_att s, i)
   | _ => True end) /\
  (match c_pc s with CFin => if c_ok s then seen_ok s m else a_seen m = None
   | _ => a_seen m = None end).

Lemma R_after_base_tau sc s m s1 :
  R_after_base s m -> In (None, s1) (step false sc s) -> R_after_base s1 m.
Proof.
  intros [I6 [B [E [Cm Sn]]]] H. split; [eapply inv6_step; eauto|]. split; [exact B|].
  destruct m as [mc mm ms mb]; dst s; unfold inv6, seen_ok in *; cbn in *; subst mc mb;
  split_step H; crunch H; cbn in *; splitifs;
  try solve [intuition (try congruence; try discriminate)];
  try destruct cpc0; try destruct cok0; try destruct ms; cbn in *;
  intuition (try congruence; try discriminate).
Qed.

Lemma pair_eqb_refl c : pair_eqb c c = true.
Proof. unfold pair_eqb. rewrite !Nat.eqb_refl. reflexivity. Qed.

Lemma R_after_base_vis sc s m l s1 :
  R_after_base s m -> In (Some l, s1) (step false sc s) ->
  a_bad (after_step false m l) = false /\ R_after_base s1 (after_step false m l).
Proof.
  intros [I6 [B [E [Cm Sn]]]] H.
  assert (I6' := inv6_step _ _ _ _ I6 H).
  unfold R_after_base. split; [|split; [exact I6'|]]; clear I6';
  destruct m as [mc mm ms mb]; dst s; unfold inv6, seen_ok in *; cbn in *; subst mc mb;
  split_step H; crunch H; cbn in *; splitifs; cbn in *;
  rewrite ?pair_eqb_refl;
  try solve [intuition (try congruence; try discriminate)];
  try destruct cpc0; try destruct cok0; try destruct ms; cbn in *; subst; rewrite ?pair_eqb_refl;
  intuition (try congruence; try discriminate).
Qed.

Definition astate0 : astate :=
  {| a_closed := None; a_curmsg := (0, 0); a_seen := None; a_bad := false |}.

Theorem model_k_after rc sc tr s :
  run (step rc sc) init tr s -> k_after rc tr = None.
Proof.
  intros H. unfold k_after. destruct rc.
  - destruct (monitor_holds (step true sc) (after_step true) a_bad R_after_rc
                (R_after_rc_tau sc) (R_after_rc_vis sc) _ _ _ H astate0 0) as [G _]; [|exact G].
    unfold R_after_rc, inv3, inv5, init; cbn. intuition (try congruence; try discriminate).
  - destruct (monitor_holds (step false sc) (after_step false) a_bad R_after_base
                (R_after_base_tau sc) (R_after_base_vis sc) _ _ _ H astate0 0) as [G _]; [|exact G].
    unfold R_after_base, inv6, init; cbn. intuition (try congruence; try discriminate).
Qed.

(** C18, continued: after Close returned at most one further message
    (monitor [after_step]). *)
From Gnmi Require Import Base.Prelude Client.ClientModel Client.ClientCheck Client.ClientProofs.

Local Arguments Nat.ltb : simpl never.

Ltac dst s :=
  destruct s as [spc0 att0 conn0 curcl0 err0 cpc0 cw0 cok0 xpc0 rcl0 hc0 sd0 cr0 cp0 nc0 ns0 bc0 bi0 bm0].

(** ** through a ReconnectClient: nothing at all after Close returned *)

Definition early (p : spc) : bool :=
  match p with
  | SIdle | SInit | SFactory | SFacChk | SDisc | SCtxChk | SDone | SRet _ | SFin => true
  | _ => false
  end.

Definition emits (p : spc) : bool :=
  match p with SItem _ | SDeliver _ _ _ | SSyncEnd _ => true | _ => false end.

Definition inv5 (s : st) : Prop :=
  (r_subdone s = SDNil <-> (s_pc s = SIdle \/ s_pc s = SInit)) /\
  (r_subdone s = SDClosed -> match s_pc s with SRet _ | SFin => True | _ => False end) /\
  (match c_pc s with CIdle | CLock => True
   | _ => r_closed s = true /\ (c_wait s = false -> early (s_pc s) = true) end) /\
  (match c_pc s with CRet | CFin => c_wait s = true -> r_subdone s = SDClosed | _ => True end).

Lemma inv5_step sc s l s1 : inv3 s -> inv5 s -> In (l, s1) (step true sc s) -> inv5 s1.
Proof.
  intros I3 I H. dst s; unfold inv5, inv3, cancelled in *; cbn in *;
  split_step H; crunch H; cbn in *; splitifs;
  try solve [intuition (try congruence; try discriminate)];
  try destruct cpc0; cbn in *;
  try solve [intuition (try congruence; try discriminate)];
  try destruct cr0; try destruct cw0; cbn in *;
  intuition (try congruence; try discriminate).
  all: rewrite ?andb_false_r in *; try discriminate.
  all: try (destruct spc0; cbn in *; try reflexivity; intuition (try congruence; try discriminate)).
Qed.

Lemma inv5_reach sc s : reach true sc s -> inv5 s.
Proof.
  intros H. assert (G : inv3 s /\ inv5 s).
  { revert s H. apply reach_ind'.
    - unfold inv3, inv5, init; cbn. intuition (try congruence; try discriminate).
    - intros s l s1 [I3 I5] H. split; [eapply inv3_step; eauto|eapply inv5_step; eauto]. }
  tauto.
Qed.

Lemma rc_closed_quiet s : inv5 s -> c_pc s = CFin -> emits (s_pc s) = false.
Proof.
  dst s; unfold inv5; cbn. intros [I1 [I2 [I3 I4]]] ->.
  destruct cw0.
  - specialize (I4 eq_refl). specialize (I2 I4). destruct spc0; try reflexivity; destruct I2.
  - destruct I3 as [_ I3]. specialize (I3 eq_refl). destruct spc0; try reflexivity; discriminate.
Qed.

(** C18, continued: after Close returned at most one further message
    (monitor [after_step]). *)
From Gnmi Require Import Base.Prelude Client.ClientModel Client.ClientCheck Client.ClientProofs.

Local Arguments Nat.ltb : simpl never.

Ltac dst s :=
  destruct s as [spc0 att0 conn0 curcl0 err0 cpc0 cw0 cok0 xpc0 rcl0 hc0 sd0 cr0 cp0 nc0 ns0 bc0 bi0 bm0 cd0 pp0 pw0].

(** ** through a ReconnectClient: nothing at all after a Close returned,
       whatever calls follow ([p.closed] is a latch) *)

(** inside an attempt whose constructor has succeeded, or backing off before a retry *)
Definition live (p : spc) : bool :=
  match p with
  | SImplSub | SImplSubChk | SSubFailClose | SInstall | SInstall2 | SRecv _ | SItem _
  | SDeliver _ _ _ | SSyncEnd _ | SChk _ | SRunClose | SSleep | SReset | SInstClosed => true
  | _ => false
  end.

(** between initDone and the deferred close(subscribeDone) of one call *)
Definition insub (p : spc) : bool :=
  match p with SIdle | SInit | SDone | SRet _ | SFin => false | _ => true end.

Definition emits (p : spc) : bool :=
  match p with SItem _ | SDeliver _ _ _ | SSyncEnd _ => true | _ => false end.

Definition inv5 (s : st) : Prop :=
  (insub (s_pc s) = true -> r_subdone s = SDOpen) /\
  (c_done s = true -> r_closed s = true) /\
  (r_closed s = true -> live (s_pc s) = true ->
   c_done s = false /\ c_wait s = true /\
   match c_pc s with CBase | CBaseHold | CWait => True | _ => False end) /\
  (match c_pc s with CIdle | CLock => True | _ => r_closed s = true end).

Lemma inv5_step sc s l s1 : inv3 s -> inv5 s -> In (l, s1) (step true sc s) -> inv5 s1.
Proof.
  intros I3 I H. dst s; unfold inv5, inv3, cancelled in *; cbn in *;
  split_step H; crunch H; cbn in *; splitifs;
  try solve [intuition (try congruence; try discriminate)];
  try destruct cpc0; cbn in *;
  try solve [intuition (try congruence; try discriminate)];
  try destruct cr0; try destruct cd0; try destruct rcl0; cbn in *;
  rewrite ?andb_false_r, ?andb_true_r in *; try discriminate;
  intuition (try congruence; try discriminate).
  all: try (destruct spc0; cbn in *; intuition (try congruence; try discriminate)).
Qed.

Lemma inv5_reach sc s : reach true sc s -> inv5 s.
Proof.
  intros H. assert (G : inv3 s /\ inv5 s).
  { revert s H. apply reach_ind'.
    - unfold inv3, inv5, init; cbn. intuition (try congruence; try discriminate).
    - intros s l s1 [I3 I5] H. split; [eapply inv3_step; eauto|eapply inv5_step; eauto]. }
  tauto.
Qed.

Lemma rc_closed_quiet s : inv5 s -> c_done s = true -> emits (s_pc s) = false.
Proof.
  dst s; unfold inv5; cbn. intros [I1 [I2 [I3 _]]] ->. specialize (I2 eq_refl).
  destruct spc0; try reflexivity; cbn in *; destruct (I3 I2 eq_refl) as [? _]; discriminate.
Qed.

(** [closed] is a latch, and so is "a Close call has returned" *)
Lemma closed_latch sc s l s1 :
  In (l, s1) (step true sc s) ->
  (r_closed s = true -> r_closed s1 = true) /\ (c_done s = true -> c_done s1 = true).
Proof.
  intros H. dst s; cbn in *; split_step H; crunch H; cbn in *; splitifs; auto.
Qed.

Definition c_inflight (c : cpc) : bool :=
  match c with CIdle | CFin => false | _ => true end.

Definition R_after_rc (s : st) (m : astate) : Prop :=
  inv3 s /\ inv5 s /\ a_bad m = false /\
  (c_inflight (c_pc s) = true -> a_pend m = true) /\
  match a_closed m with None => c_done s = false | Some _ => c_done s = true end.

Lemma R_after_rc_tau sc s m s1 :
  R_after_rc s m -> In (None, s1) (step true sc s) -> R_after_rc s1 m.
Proof.
  intros [I3 [I5 [B [P E]]]] H. split; [eapply inv3_step; eauto|]. split; [eapply inv5_step; eauto|].
  split; [exact B|]. clear I3 I5. destruct (a_closed m); dst s; cbn in *;
  split_step H; crunch H; cbn in *; splitifs; (split; [try assumption; try (intros; discriminate); auto|]);
  try assumption; try reflexivity.
Qed.

Lemma R_after_rc_vis sc s m l s1 :
  R_after_rc s m -> In (Some l, s1) (step true sc s) ->
  a_bad (after_step true m l) = false /\ R_after_rc s1 (after_step true m l).
Proof.
  intros [I3 [I5 [B [P E]]]] H.
  assert (Q := rc_closed_quiet _ I5).
  assert (I3' := inv3_step _ _ _ _ I3 H). assert (I5' := inv5_step _ _ _ _ I3 I5 H).
  unfold R_after_rc. split; [|split; [exact I3'|split; [exact I5'|]]]; clear I3 I5 I3' I5';
  destruct m as [mc mm ms mar mpe mb]; dst s; cbn in *; subst mb;
  split_step H; crunch H; cbn in *; try (rewrite (P eq_refl) in *); destruct mc; cbn in *; splitifs;
  try reflexivity; try discriminate;
  try (split; [reflexivity|]); try (split; [try assumption; try (intros; discriminate); auto|]);
  try reflexivity; try assumption;
  try (specialize (Q E); discriminate).
Qed.

(** ** a bare Base/Cache client: at most one message after a successful Close
       made during the Subscribe call in progress (a new Subscribe re-opens the client) *)

(** the Subscribe call in progress has re-opened the client ([SClear] done) *)
Definition cleared (p : spc) : bool :=
  match p with SIdle | SClear | SFin => false | _ => true end.

Definition streaming (p : spc) : bool :=
  match p with
  | SRecv _ | SItem _ | SDeliver _ _ _ | SSyncEnd _ | SChk _ | SRunClose => true
  | _ => false
  end.

Definition c_after_base (c : cpc) : bool :=
  match c with CBaseHold | CWait | CRet => true | _ => false end.

(** a Close that counts for the call in progress has set [closed] *)
Definition close_counts (s : st) : Prop :=
  c_done s = true \/ (c_ok s = true /\ c_wait s = true /\ c_after_base (c_pc s) = true).

Definition inv6 (s : st) : Prop :=
  (match b_impl s with
   | NoImpl => True
   | Impl j => j <= s_att s /\ (j = s_att s -> streaming (s_pc s) = true \/
                                 match s_pc s with SInstClosed | SRet _ | SFin => True | _ => False end)
   end) /\
  (c_inflight (c_pc s) = true -> c_wait s = true -> s_pc s <> SIdle /\ s_pc s <> SClear) /\
  (close_counts s -> b_closed s = true /\ s_pc s <> SIdle /\ s_pc s <> SClear) /\
  (s_pc s = SIdle -> s_att s = 0 /\ b_impl s = NoImpl) /\
  (b_closed s = true -> b_impl s <> NoImpl) /\
  (streaming (s_pc s) = true -> b_impl s = Impl (s_att s)) /\
  (c_done s = true -> c_after_base (c_pc s) = true -> c_ok s = true).

Lemma inv6_step sc s l s1 : inv1 false s -> inv6 s -> In (l, s1) (step false sc s) -> inv6 s1.
Proof.
  intros I1 I H. pose proof (proj1 (proj2 (proj2 (proj2 (proj2 I1)))) eq_refl) as [HR [HL _]]. clear I1.
  dst s; unfold inv6, close_counts in *; cbn in *;
  split_step H; crunch H; cbn in *; splitifs;
  try (exfalso; apply HL; reflexivity);
  repeat match goal with
         | E : (_ =? _)%nat = true |- _ => apply Nat.eqb_eq in E; subst
         | E : _ && _ = true |- _ => apply andb_prop in E; destruct E
         | E : _ || _ = true |- _ => apply orb_true_iff in E
         end;
  try solve [intuition (try congruence; try discriminate; try lia)];
  try destruct cpc0; try destruct bi0; cbn in *;
  try solve [intuition (try congruence; try discriminate; try lia)].
  all: try (destruct cd0; destruct cok0; destruct cw0; cbn in *; intuition (try congruence; try discriminate; try lia); fail).
  all: try (destruct spc0; cbn in *; try discriminate; intuition (try congruence; try discriminate; try lia); fail).
Qed.

Definition seen_ok (s : st) (m : astate) : Prop :=
  match a_seen m with
  | None => True
  | Some c => match s_pc s with
              | SDeliver i _ _ | SSyncEnd i => c = (s_att s, i)
              | SChk _ | SRunClose | SInstClosed | SRet _ | SFin => True
              | _ => False
              end
  end.

Definition R_after_base (s : st) (m : astate) : Prop :=
  inv1 false s /\ inv6 s /\ a_bad m = false /\
  (a_closed m = Some true -> c_done s = true) /\
  (a_armed m = true -> cleared (s_pc s) = true) /\
  (c_inflight (c_pc s) = true -> a_pend m = true -> c_wait s = true) /\
  (match s_pc s with
   | SItem i | SDeliver i _ _ | SSyncEnd i => a_curmsg m = (s_att s, i)
   | _ => True end) /\
  (match a_closed m with Some true => seen_ok s m | _ => a_seen m = None end).

Lemma R_after_base_tau sc s m s1 :
  R_after_base s m -> In (None, s1) (step false sc s) -> R_after_base s1 m.
Proof.
  intros [I1 [I6 [B [E [Ar [Pe [Cm Sn]]]]]]] H.
  split; [eapply inv1_step; eauto|]. split; [eapply inv6_step; eauto|]. split; [exact B|].
  pose proof (proj1 (proj2 (proj2 I6))) as K.
  pose proof (proj1 (proj2 (proj2 (proj2 (proj2 I1)))) eq_refl) as [HR [HL _]]. clear I1.
  destruct m as [mc mm ms mar mpe mb]; dst s; unfold inv6, close_counts, seen_ok in *; cbn in *; subst mb;
  split_step H; crunch H; cbn in *; try discriminate HR; try (exfalso; apply HL; reflexivity); splitifs;
  try solve [intuition (try congruence; try discriminate)];
  try (destruct mc as [[|]|]; cbn in *; try solve [intuition (try congruence; try discriminate)]).
  all: try (destruct ms; cbn in *; try solve [intuition (try congruence; try discriminate)]).
  all: try (exfalso; destruct K as [K _]; [left; apply E; reflexivity|congruence]).
  all: intuition (try congruence; try discriminate).
Qed.

Lemma pair_eqb_refl c : pair_eqb c c = true.
Proof. unfold pair_eqb. rewrite !Nat.eqb_refl. reflexivity. Qed.

Lemma R_after_base_vis sc s m l s1 :
  R_after_base s m -> In (Some l, s1) (step false sc s) ->
  a_bad (after_step false m l) = false /\ R_after_base s1 (after_step false m l).
Proof.
  intros [I1 [I6 [B [E [Ar [Pe [Cm Sn]]]]]]] H.
  assert (I6' := inv6_step _ _ _ _ I1 I6 H). assert (I1' := inv1_step _ _ _ _ _ I1 H).
  pose proof (proj1 (proj2 (proj2 I6))) as K.
  pose proof (proj1 (proj2 (proj2 (proj2 (proj2 I1)))) eq_refl) as [HR [HL _]].
  unfold R_after_base. split; [|split; [exact I1'|split; [exact I6'|]]]; clear I6' I1' I1;
  destruct m as [mc mm ms mar mpe mb]; dst s; unfold inv6, close_counts, seen_ok in *; cbn in *; subst mb;
  split_step H; crunch H; cbn in *; try discriminate HR; try (exfalso; apply HL; reflexivity);
  try destruct mc as [[|]|]; cbn in *; splitifs; cbn in *;
  rewrite ?pair_eqb_refl;
  try solve [intuition (try congruence; try discriminate)];
  try destruct ms; try destruct mpe; cbn in *; subst; rewrite ?pair_eqb_refl;
  try solve [intuition (try congruence; try discriminate)].
  all: try (destruct cd0; destruct cok0; destruct cw0; cbn in *; intuition (try congruence; try discriminate); fail).
  all: intuition (try congruence; try discriminate).
  all: try (subst; cbn; rewrite ?orb_true_r; reflexivity).
Qed.

Definition astate0 : astate := amk None (0, 0) None false false false.

Theorem model_k_after rc sc tr s :
  run (step rc sc) init tr s -> k_after rc tr = None.
Proof.
  intros H. unfold k_after. destruct rc.
  - destruct (monitor_holds (step true sc) (after_step true) a_bad R_after_rc
                (R_after_rc_tau sc) (R_after_rc_vis sc) _ _ _ H astate0 0) as [G _]; [|exact G].
    unfold R_after_rc, inv3, inv5, init; cbn. intuition (try congruence; try discriminate).
  - destruct (monitor_holds (step false sc) (after_step false) a_bad R_after_base
                (R_after_base_tau sc) (R_after_base_vis sc) _ _ _ H astate0 0) as [G _]; [|exact G].
    split; [apply inv1_init|]. unfold R_after_base, inv6, close_counts, init; cbn.
    intuition (try congruence; try discriminate).
Qed.

(** C18, continued: Connected first, order preserved, nothing lost, whole
    messages (monitor [order_step]). *)
From Gnmi Require Import Base.Prelude Client.ClientModel Client.ClientCheck
     Client.ClientProofs Client.ClientProofs2.

Local Arguments Nat.ltb : simpl never.
Local Arguments skipn : simpl never.

Definition rest_ok (m : ostate) (X : list (list ev)) : Prop :=
  drop_empty (o_rest m) = drop_empty X.

Definition Mj (k i j n : nat) : list ev := map (EUpd k i) (seq j (n - j)).

Lemma Mj_step k i j n : j < n -> Mj k i j n = EUpd k i j :: Mj k i (S j) n.
Proof.
  intros H. unfold Mj. replace (n - j) with (S (n - S j)) by lia. reflexivity.
Qed.

Lemma Mj_end k i n : Mj k i n n = [].
Proof. unfold Mj. rewrite Nat.sub_diag. reflexivity. Qed.

Lemma ev_beq_refl e : ev_beq e e = true.
Proof. apply internal_ev_dec_lb. reflexivity. Qed.

Definition R_order (rc : bool) (sc : script) (s : st) (m : ostate) : Prop :=
  inv1 rc s /\ o_bad m = false /\ o_stopped m = stopped_of s /\
  let k := s_att s in
  let its := a_items (sc k) in
  match s_pc s with
  | SFacChk => o_cur m = [] /\ rest_ok m (expected k (sc k))
  | SImplSub | SImplSubChk =>
      o_cur m = [] /\ s_conn s = false /\ a_init (sc k) = true /\ rest_ok m (expected k (sc k))
  | SInstall | SInstall2 =>
      o_cur m = [] /\ s_conn s = false /\ rest_ok m (exp_items k 0 false its)
  | SRecv i | SItem i => o_cur m = [] /\ rest_ok m (exp_items k i (s_conn s) (skipn i its))
  | SDeliver i j n =>
      s_conn s = true /\ j <= n /\
      ((o_cur m = Mj k i j n /\ rest_ok m (exp_items k (S i) true (skipn (S i) its))) \/
       (j = 0 /\ o_cur m = [] /\
        rest_ok m (Mj k i 0 n :: exp_items k (S i) true (skipn (S i) its))))
  | SSyncEnd _ => o_cur m = [ESync] /\ rest_ok m []
  | SChk i =>
      o_cur m = [] /\ s_conn s = true /\ rest_ok m (exp_items k (S i) true (skipn (S i) its))
  | SRunClose | SSubFailClose | SDisc => o_cur m = [] /\ (rest_ok m [] \/ o_stopped m = true)
  | SRet _ => if rc then True else o_cur m = [] /\ (rest_ok m [] \/ o_stopped m = true)
  | _ => True
  end.

(** steps of the closer and the canceller do not touch what the relation
    reads, except that a call makes [stopped] true on both sides *)
Lemma stopped_mono_c rc s l s1 : In (l, s1) (cstep rc s) ->
  s_pc s1 = s_pc s /\ s_att s1 = s_att s /\ s_conn s1 = s_conn s /\
  (stopped_of s = true -> stopped_of s1 = true) /\
  match l with
  | Some ECloseCall => stopped_of s1 = true
  | Some (EImplClose _) | Some (ECloseRet _) | None => stopped_of s1 = stopped_of s
  | _ => False
  end.
Proof.
  intros H. dst s; destruct rc; unfold cstep, stopped_of in *; cbn in *;
  crunch H; cbn in *; splitifs; repeat split; auto.
Qed.

Lemma stopped_mono_x s l s1 : In (l, s1) (xstep s) ->
  s_pc s1 = s_pc s /\ s_att s1 = s_att s /\ s_conn s1 = s_conn s /\
  match l with
  | Some ECancelCall => stopped_of s1 = true
  | None => stopped_of s1 = stopped_of s
  | _ => False
  end.
Proof.
  intros H. dst s; unfold xstep, stopped_of in *; cbn in *;
  crunch H; cbn in *; repeat split; auto; destruct cpc0; reflexivity.
Qed.

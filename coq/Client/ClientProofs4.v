(** C18, continued: Connected first, order preserved, nothing lost, whole
    messages (monitor [order_step]). *)
From Gnmi Require Import Base.Prelude Client.ClientModel Client.ClientCheck
     Client.ClientProofs Client.ClientProofs2.

Local Arguments Nat.ltb : simpl never.
Local Arguments skipn : simpl never.

Definition rest_ok (m : ostate) (X : list (list ev)) : Prop :=
  drop_empty (o_rest m) = drop_empty X.

Definition Mj (k i j n : nat) : list ev := map (EUpd k i) (seq j (n - j)).

Arguments Mj : simpl never.
Arguments drop_empty : simpl never.
Arguments ev_beq : simpl never.

Lemma Mj0 k i n : map (EUpd k i) (seq 0 n) = Mj k i 0 n.
Proof. unfold Mj. rewrite Nat.sub_0_r. reflexivity. Qed.

Lemma de_nil : drop_empty [] = [].
Proof. reflexivity. Qed.
Lemma de_cons h t X : drop_empty ((h :: t) :: X) = (h :: t) :: X.
Proof. reflexivity. Qed.
Lemma de_nilc X : drop_empty ([] :: X) = drop_empty X.
Proof. reflexivity. Qed.


Lemma Mj_step k i j n : j < n -> Mj k i j n = EUpd k i j :: Mj k i (S j) n.
Proof.
  intros H. unfold Mj. replace (n - j) with (S (n - S j)) by lia. reflexivity.
Qed.

Lemma Mj_end k i n : Mj k i n n = [].
Proof. unfold Mj. rewrite Nat.sub_diag. reflexivity. Qed.

Lemma ev_beq_refl e : ev_beq e e = true.
Proof. apply internal_ev_dec_lb. reflexivity. Qed.

Definition R_order (rc : bool) (sc : script) (s : st) (m : ostate) : Prop :=
  inv1 rc s /\ o_bad m = false /\ o_stopped m = stopped_of s /\
  let k := s_att s in
  let its := a_items (sc k) in
  match s_pc s with
  | SFacChk => o_cur m = [] /\ rest_ok m (expected k (sc k))
  | SImplSub | SImplSubChk =>
      o_cur m = [] /\ s_conn s = false /\ a_init (sc k) = true /\ rest_ok m (expected k (sc k))
  | SInstall | SInstall2 =>
      o_cur m = [] /\ s_conn s = false /\ rest_ok m (exp_items k 0 false its)
  | SRecv i | SItem i => o_cur m = [] /\ rest_ok m (exp_items k i (s_conn s) (skipn i its))
  | SDeliver i j n =>
      s_conn s = true /\ j <= n /\
      ((o_cur m = Mj k i j n /\ rest_ok m (exp_items k (S i) true (skipn (S i) its))) \/
       (j = 0 /\ o_cur m = [] /\
        rest_ok m (Mj k i 0 n :: exp_items k (S i) true (skipn (S i) its))))
  | SSyncEnd _ => o_cur m = [ESync] /\ rest_ok m []
  | SChk i =>
      o_cur m = [] /\ s_conn s = true /\ rest_ok m (exp_items k (S i) true (skipn (S i) its))
  | SRunClose | SSubFailClose | SInstClosed | SDisc => o_cur m = [] /\ (rest_ok m [] \/ o_stopped m = true)
  | SRet _ => if rc then True else o_cur m = [] /\ (rest_ok m [] \/ o_stopped m = true)
  | _ => True
  end.

(** steps of the closer and the canceller do not touch what the relation
    reads, except that a call makes [stopped] true on both sides *)
Lemma stopped_mono_c rc s l s1 : In (l, s1) (cstep rc s) ->
  s_pc s1 = s_pc s /\ s_att s1 = s_att s /\ s_conn s1 = s_conn s /\
  (stopped_of s = true -> stopped_of s1 = true) /\
  match l with
  | Some ECloseCall => stopped_of s1 = true
  | Some (EImplClose _) | Some (ECloseRet _) | None => stopped_of s1 = stopped_of s
  | _ => False
  end.
Proof.
  intros H. dst s; destruct rc; unfold cstep, do_cancel, pwake, stopped_of in *; cbn in *;
  crunch H; cbn in *; splitifs; repeat split; auto.
Qed.

Lemma stopped_mono_x s l s1 : In (l, s1) (xstep s) ->
  s_pc s1 = s_pc s /\ s_att s1 = s_att s /\ s_conn s1 = s_conn s /\
  match l with
  | Some ECancelCall => stopped_of s1 = true
  | None => stopped_of s1 = stopped_of s
  | _ => False
  end.
Proof.
  intros H. dst s; unfold xstep, stopped_of in *; cbn in *;
  crunch H; cbn in *; repeat split; auto; destruct cpc0; reflexivity.
Qed.

Lemma stopped_mono_p s l s1 : In (l, s1) (pstep s) ->
  s_pc s1 = s_pc s /\ s_att s1 = s_att s /\ s_conn s1 = s_conn s /\
  stopped_of s1 = stopped_of s /\
  match l with
  | Some (EPollCall _) | Some (EPollRet _) | Some (EImplClose _) | None => True
  | _ => False
  end.
Proof.
  intros H. dst s; unfold pstep, stopped_of in *; cbn in *;
  crunch H; cbn in *; splitifs; repeat split; auto.
Qed.

Lemma R_frame rc sc s m s1 m' :
  R_order rc sc s m -> inv1 rc s1 ->
  s_pc s1 = s_pc s -> s_att s1 = s_att s -> s_conn s1 = s_conn s ->
  o_rest m' = o_rest m -> o_cur m' = o_cur m -> o_bad m' = false ->
  o_stopped m' = stopped_of s1 -> (o_stopped m = true -> o_stopped m' = true) ->
  R_order rc sc s1 m'.
Proof.
  intros [I [B [St P]]] I1 E1 E2 E3 E4 E5 E6 E7 E8.
  unfold R_order. split; [exact I1|]. split; [exact E6|]. split; [exact E7|].
  cbv zeta in *. rewrite E1, E2, E3. unfold rest_ok in *. rewrite E4, E5.
  destruct (s_pc s); try exact P; try (destruct rc; [exact P|]); intuition.
Qed.

Lemma R_order_cx_tau rc sc s m s1 :
  R_order rc sc s m -> In (None, s1) (cstep rc s ++ xstep s ++ pstep s) ->
  inv1 rc s1 -> R_order rc sc s1 m.
Proof.
  intros R H I1. pose proof R as [_ [B [St _]]].
  apply in_app_iff in H. destruct H as [H|H].
  - destruct (stopped_mono_c _ _ _ _ H) as [E1 [E2 [E3 [E4 E5]]]].
    eapply R_frame; eauto; congruence.
  - apply in_app_iff in H. destruct H as [H|H].
    + destruct (stopped_mono_x _ _ _ H) as [E1 [E2 [E3 E5]]].
      eapply R_frame; eauto; congruence.
    + destruct (stopped_mono_p _ _ _ H) as [E1 [E2 [E3 [E4 E5]]]].
      eapply R_frame; eauto; congruence.
Qed.

Lemma R_order_cx_vis rc sc s m l s1 :
  R_order rc sc s m -> In (Some l, s1) (cstep rc s ++ xstep s ++ pstep s) ->
  inv1 rc s1 ->
  o_bad (order_step rc sc m l) = false /\ R_order rc sc s1 (order_step rc sc m l).
Proof.
  intros R H I1. pose proof R as [_ [B [St _]]].
  apply in_app_iff in H. destruct H as [H|H].
  - destruct (stopped_mono_c _ _ _ _ H) as [E1 [E2 [E3 [E4 E5]]]].
    destruct l; try contradiction; cbn; (split; [reflexivity|]);
    (eapply R_frame; eauto; cbn; congruence).
  - apply in_app_iff in H. destruct H as [H|H].
    + destruct (stopped_mono_x _ _ _ H) as [E1 [E2 [E3 E5]]].
      destruct l; try contradiction; cbn; (split; [reflexivity|]);
      (eapply R_frame; eauto; cbn; congruence).
    + destruct (stopped_mono_p _ _ _ H) as [E1 [E2 [E3 [E4 E5]]]].
      destruct l; try contradiction; cbn; (split; [reflexivity|]);
      (eapply R_frame; eauto; cbn; congruence).
Qed.

Lemma drop_empty_nil_cons X : drop_empty ([] :: X) = drop_empty X.
Proof. reflexivity. Qed.

Lemma inv1_bclosed_stopped rc s : inv1 rc s -> b_closed s = true -> stopped_of s = true.
Proof.
  intros [_ [_ [_ [I _]]]] H. specialize (I H). unfold stopped_of. destruct (c_pc s), (x_pc s); cbn; auto; congruence.
Qed.

Lemma inv1_cancelled_stopped rc s : inv1 rc s -> cancelled s = true -> stopped_of s = true.
Proof.
  intros [I1 [_ [I3 _]]] H. unfold cancelled in H. apply orb_true_iff in H. unfold stopped_of.
  destruct H as [H|H].
  - specialize (I1 H). destruct (c_pc s), (x_pc s); cbn; auto; congruence.
  - specialize (I3 H). destruct (c_pc s), (x_pc s); cbn; auto; congruence.
Qed.


Lemma R_order_s_tau rc sc s m s1 :
  R_order rc sc s m -> In (None, s1) (sstep rc sc s) -> inv1 rc s1 -> R_order rc sc s1 m.
Proof.
  intros [I [B [St P]]] H I1.
  pose proof (inv1_bclosed_stopped _ _ I) as HB.
  pose proof (inv1_cancelled_stopped _ _ I) as HC.
  pose proof (proj1 (proj2 (proj2 (proj2 (proj2 I))))) as HR.
  unfold R_order. split; [exact I1|]. split; [exact B|]. clear I I1.
  dst s; destruct rc; unfold stopped_of, sstep, end_attempt, do_cancel, pwake, rest_ok, expected, cancelled in *; cbv zeta in *; cbn in *;
  crunch H; cbn in *; splitifs; (split; [exact St|]).
  all: try exact Logic.I.
  all: try (match goal with
            | E : nth_error _ _ = Some _ |- _ => rewrite (skipn_nth_some _ _ _ E) in *; cbn in *
            | E : nth_error _ _ = None |- _ => rewrite (skipn_nth_none _ _ E) in *; cbn in *
            end).
  all: rewrite ?skipn_O in *.
  all: destruct (a_init (sc att0)) eqn:?; destruct (a_sub (sc att0)) eqn:?; cbn in *; try discriminate.
  all: rewrite ?St, ?Mj0 in *; rewrite ?de_nil, ?de_nilc in *.
  all: repeat match goal with
              | H : negb _ = false |- _ => apply negb_false_iff in H
              | H : negb _ = true |- _ => apply negb_true_iff in H
              end.
  all: try solve [intuition (try congruence; try lia)].
  all: try (apply Nat.ltb_ge in Heqb; destruct P as [Pc [Pj [[Pa Pr]|[Pz [Pa Pr]]]]];
            [assert (j = n) by lia; subst; rewrite Mj_end in Pa; auto
            |assert (n = 0) by lia; subst; rewrite Mj_end, de_nilc in Pr; auto]; fail).
  all: try (specialize (HR eq_refl); cbn in HR; destruct HR; discriminate).
Qed.

Lemma R_order_s_vis rc sc s m l s1 :
  R_order rc sc s m -> In (Some l, s1) (sstep rc sc s) -> inv1 rc s1 ->
  o_bad (order_step rc sc m l) = false /\ R_order rc sc s1 (order_step rc sc m l).
Proof.
  intros [I [B [St P]]] H I1.
  pose proof (inv1_bclosed_stopped _ _ I) as HB.
  pose proof (inv1_cancelled_stopped _ _ I) as HC.
  pose proof (proj1 (proj2 (proj2 (proj2 (proj2 I))))) as HR.
  unfold R_order. clear I.
  destruct m as [ms mr mc mb]; cbn in B; subst mb.
  dst s; destruct rc; unfold stopped_of, sstep, end_attempt, do_cancel, pwake, rest_ok, expected, cancelled in *; cbv zeta in *; cbn in *;
  crunch H; cbn in *; splitifs.
  all: try (match goal with
            | E : nth_error _ _ = Some _ |- _ => rewrite (skipn_nth_some _ _ _ E) in *; cbn in *
            | E : nth_error _ _ = None |- _ => rewrite (skipn_nth_none _ _ E) in *; cbn in *
            end).
  all: rewrite ?skipn_O in *.
  all: rewrite ?Mj0 in *; rewrite ?de_nil, ?de_nilc in *.
  all: unfold expected in *.
  all: destruct (a_init (sc att0)) eqn:?; destruct (a_sub (sc att0)) eqn:?; cbn in *; try discriminate.
  all: repeat match goal with
              | H : negb _ = false |- _ => apply negb_false_iff in H
              | H : negb _ = true |- _ => apply negb_true_iff in H
              | H : (_ <? _)%nat = true |- _ => apply Nat.ltb_lt in H
              end.
  all: try match type of P with _ /\ _ /\ (_ \/ _) => destruct P as [Pc [Pj [[Pa Pr]|[Pz [Pa Pr]]]]]; subst; rewrite ?Mj_step in * by assumption end.
  all: repeat match goal with H : _ /\ _ |- _ => destruct H end; subst.
  all: repeat match goal with H : drop_empty ?x = _ |- _ => is_var x; rewrite ?H in *; revert H end; intros.
  all: rewrite ?de_cons, ?de_nil, ?de_nilc in *; cbn; rewrite ?ev_beq_refl; cbn.
  all: (split; [try reflexivity | split; [exact I1 | split; [try reflexivity | split; [try reflexivity |]]]]).
  all: try match goal with H : _ \/ _ |- negb _ = false => destruct H as [H|H]; rewrite H; cbn; rewrite ?orb_true_r; reflexivity end.
  all: clear I1; try solve [intuition (try congruence; try lia)].
Qed.

Definition R_order' (rc : bool) (sc : script) (s : st) (m : ostate) : Prop := R_order rc sc s m.

Lemma R_order_tau rc sc s m s1 :
  R_order rc sc s m -> In (None, s1) (step rc sc s) -> R_order rc sc s1 m.
Proof.
  intros R H. assert (I1 : inv1 rc s1) by (eapply inv1_step; [exact (proj1 R)|exact H]).
  unfold step in H. apply in_app_iff in H. destruct H as [H|H].
  - eapply R_order_s_tau; eauto.
  - eapply R_order_cx_tau; eauto.
Qed.

Lemma R_order_vis rc sc s m l s1 :
  R_order rc sc s m -> In (Some l, s1) (step rc sc s) ->
  o_bad (order_step rc sc m l) = false /\ R_order rc sc s1 (order_step rc sc m l).
Proof.
  intros R H. assert (I1 : inv1 rc s1) by (eapply inv1_step; [exact (proj1 R)|exact H]).
  unfold step in H. apply in_app_iff in H. destruct H as [H|H].
  - eapply R_order_s_vis; eauto.
  - eapply R_order_cx_vis; eauto.
Qed.

(** connected_first, order_preserved, nothing lost before Close / cancel, whole
    messages only: the monitor [order_step] accepts every trace of the model. *)
Theorem model_k_order rc sc tr s :
  run (step rc sc) init tr s -> k_order rc sc tr = None.
Proof.
  intros H. unfold k_order.
  destruct (monitor_holds (step rc sc) (order_step rc sc) o_bad (R_order rc sc)
              (R_order_tau rc sc) (R_order_vis rc sc) _ _ _ H
              {| o_stopped := false; o_rest := []; o_cur := []; o_bad := false |} 0) as [G _]; [|exact G].
  unfold R_order. split; [apply inv1_init|]. cbn. auto.
Qed.

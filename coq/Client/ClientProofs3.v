(** C18, continued: termination for a bare Base/Cache client whose Close
    succeeded. *)
From Gnmi Require Import Base.Prelude Client.ClientModel Client.ClientCheck
     Client.ClientProofs Client.ClientProofs2.

Local Arguments Nat.ltb : simpl never.
Local Arguments skipn : simpl never.

Lemma base_step_decreases sc s l s1 :
  inv1 false s -> In (l, s1) (step false sc s) -> is_call l = false -> mu sc s1 < mu sc s.
Proof.
  intros I H Hn. unfold inv1, mu, mu_s, mu_c, mu_x, mu_p, cancelled in *.
  dst s; cbn in *.
  split_step H; crunch H; cbn in *; subst; try discriminate.
  all: try (match goal with
            | E : nth_error _ _ = Some _ |- _ => rewrite (skipn_nth_some _ _ _ E); cbn
            | E : nth_error _ _ = None |- _ => rewrite (skipn_nth_none _ _ E); cbn
            end).
  all: splitifs; rewrite ?skipn_O; cbn in *.
  all: repeat match goal with
              | |- context[rw ?l] =>
                  lazymatch goal with H : 8 <= rw l |- _ => fail | _ => pose proof (rw_ge l) end
              end.
  all: try match goal with E : (_ <? _)%nat = true |- _ => apply Nat.ltb_lt in E end.
  all: try lia.
  all: intuition (try congruence; try discriminate; try lia).
Qed.

(** Close has succeeded for the Subscribe call in progress: a Close call made
    after that call re-opened the client found a transport installed ([c_ok])
    and is past its critical section, or has returned nil. *)
Definition close_succeeded (s : st) : Prop := close_counts s.

Definition inv7 (s : st) : Prop :=
  close_counts s -> s_curcl s = true \/ streaming (s_pc s) = false.

Lemma inv7_step sc s l s1 :
  inv1 false s -> inv6 s -> inv7 s -> In (l, s1) (step false sc s) -> inv7 s1.
Proof.
  intros I1 I6 I H.
  pose proof (proj1 (proj2 (proj2 (proj2 (proj2 I1)))) eq_refl) as [HR [HL _]]. clear I1.
  pose proof (proj1 (proj2 (proj2 I6))) as K.
  dst s; unfold inv6, inv7, close_counts in *; cbn in *;
  split_step H; crunch H; cbn in *; try discriminate HR; try (exfalso; apply HL; reflexivity);
  splitifs; rewrite ?Nat.eqb_refl in *;
  try solve [intuition (try congruence; try discriminate)].
  all: repeat match goal with E : (_ =? _)%nat = false |- _ => apply Nat.eqb_neq in E end.
  all: try (destruct cd0; destruct cok0; destruct cw0; cbn in *;
            intuition (try congruence; try discriminate); fail).
  all: try (destruct spc0; cbn in *; intuition (try congruence; try discriminate); fail).
  all: intuition (try congruence; try discriminate).
Qed.

Lemma base_invs sc s : reach false sc s -> inv1 false s /\ inv2 false s /\ inv6 s /\ inv7 s.
Proof.
  revert s. apply reach_ind'.
  - unfold inv1, inv2, inv6, inv7, close_counts, init, cancelled; cbn.
    intuition (try congruence; try discriminate).
  - intros s l s1 [I1 [I2 [I6 I7]]] H.
    split; [eapply inv1_step; eauto|]. split; [eapply inv2_step; eauto|].
    split; [eapply inv6_step; eauto|eapply inv7_step; eauto].
Qed.

Lemma base_progress sc s :
  inv1 false s -> inv2 false s -> inv6 s -> inv7 s -> close_succeeded s ->
  nc (sstep false sc s ++ cstep false s) = [] -> s_pc s = SFin /\ c_pc s = CFin.
Proof.
  intros [_ [_ [_ [I1 [I1b _]]]]] I2 I6 I7 C H. specialize (I7 C).
  destruct (I1b eq_refl) as [HR [HL _]].
  pose proof (proj1 (proj2 (proj2 I6)) C) as [K1 [K2 K3]].
  apply nc_app_nil in H. destruct H as [Hs Hc].
  dst s; unfold inv2, inv6, close_succeeded, close_counts, sstep, cstep, end_attempt, do_cancel, cancelled in *;
  cbn in *; subst.
  destruct cpc0; cbn in Hc; try discriminate; stuck_cases Hc;
  destruct spc0; cbn in Hs; try discriminate; stuck_cases Hs;
  cbn in *; rewrite ?andb_false_r in *; try discriminate;
  intuition (try congruence; try discriminate); subst; cbn in *;
  rewrite ?orb_true_r in *; try discriminate.
Qed.

Lemma close_succeeded_step sc s l s1 :
  inv6 s -> close_succeeded s -> In (l, s1) (step false sc s) -> is_call l = false -> close_succeeded s1.
Proof.
  intros I6 C H Hn. dst s; unfold close_succeeded, close_counts in *; cbn in *.
  split_step H; crunch H; cbn in *; splitifs; try discriminate; try tauto;
  destruct C as [C|[C1 [C2 C3]]]; subst; cbn in *; try discriminate; auto;
  try (left; rewrite ?orb_true_r; reflexivity).
Qed.

(** A bare client, for any history of earlier (sequential) calls: as long as
    no new API call is made every execution is bounded (one call = one
    attempt), and once Close has succeeded for the Subscribe call in progress
    nothing can block before both have returned. *)
Theorem close_subscribe_terminate_base sc s :
  reach false sc s ->
  forall n s', exec (nc_step false sc) s n s' ->
    n <= mu sc s /\
    (close_succeeded s -> nc (sstep false sc s' ++ cstep false s') = [] ->
     s_pc s' = SFin /\ c_pc s' = CFin).
Proof.
  intros Hr n s' He. split.
  - revert Hr. induction He; intros Hr; [lia|].
    apply nc_in in H. destruct H as [H Hn].
    assert (Hr1 : reach false sc s1) by (eapply exec_reach; [exact Hr|]; econstructor; [eauto|constructor]).
    specialize (IHHe Hr1).
    pose proof (base_step_decreases _ _ _ _ (proj1 (base_invs _ _ Hr)) H Hn). lia.
  - intros Hc Hst.
    assert (Hc' : close_succeeded s').
    { clear Hst. induction He; auto. apply nc_in in H. destruct H as [H Hn].
      assert (Hr1 : reach false sc s1) by (eapply exec_reach; [exact Hr|]; econstructor; [eauto|constructor]).
      apply IHHe; [exact Hr1|]. eapply close_succeeded_step; eauto.
      apply (base_invs _ _ Hr). }
    destruct (base_invs _ _ (exec_reach _ _ _ _ _ Hr (exec_nc _ _ _ _ _ He))) as [I1 [I2 [I6 I7]]].
    eapply base_progress; eauto.
Qed.

(** ** what the correspondence check establishes for a recorded trace *)
Theorem model_accepts_sound rc l tr ss :
  model_accepts rc l tr = inr ss -> exists s, run (step_now rc (sc_of l)) init tr s.
Proof.
  unfold model_accepts. intros H.
  eapply accepts_run with (leqb := ev_beq); [|exact H].
  intros a b E. apply internal_ev_dec_bl. exact E.
Qed.

(** With the patch for DEFECT C18_1 in /repo the model is the code: no extra transition. *)
Lemma step_now_eq rc sc s : step_now rc sc s = step rc sc s.
Proof. unfold step_now, defect_steps. cbn. apply app_nil_r. Qed.

(** C18, continued: termination for a bare Base/Cache client whose Close
    succeeded. *)
From Gnmi Require Import Base.Prelude Client.ClientModel Client.ClientCheck
     Client.ClientProofs Client.ClientProofs2.

Local Arguments Nat.ltb : simpl never.
Local Arguments skipn : simpl never.

Lemma base_step_decreases sc s l s1 :
  inv1 false s -> In (l, s1) (step false sc s) -> mu sc s1 < mu sc s.
Proof.
  intros I H. unfold inv1, mu, mu_s, mu_c, mu_x, cancelled in *.
  dst s; cbn in *.
  split_step H; crunch H; cbn in *; subst.
  all: try (match goal with
            | E : nth_error _ _ = Some _ |- _ => rewrite (skipn_nth_some _ _ _ E); cbn
            | E : nth_error _ _ = None |- _ => rewrite (skipn_nth_none _ _ E); cbn
            end).
  all: splitifs; rewrite ?skipn_O; cbn in *.
  all: repeat match goal with
              | |- context[rw ?l] =>
                  lazymatch goal with H : 8 <= rw l |- _ => fail | _ => pose proof (rw_ge l) end
              end.
  all: try match goal with E : (_ <? _)%nat = true |- _ => apply Nat.ltb_lt in E end.
  all: try lia.
  all: intuition (try congruence; try discriminate; try lia).
Qed.

Definition inv7 (s : st) : Prop :=
  c_wait s = false /\
  (match b_impl s with NoImpl => True | Impl j => j = s_att s end) /\
  (match c_pc s with
   | CBaseHold | CWait | CRet | CFin => c_ok s = true -> s_curcl s = true
   | _ => True end).

Lemma inv7_step sc s l s1 :
  inv1 false s -> inv6 s -> inv7 s -> In (l, s1) (step false sc s) -> inv7 s1.
Proof.
  intros I1 I6 I H. dst s; unfold inv1, inv6, inv7 in *; cbn in *;
  split_step H; crunch H; cbn in *; splitifs; rewrite ?Nat.eqb_refl in *;
  try solve [intuition (try congruence; try discriminate)];
  try destruct cpc0; try destruct bi0; cbn in *; subst; rewrite ?Nat.eqb_refl in *;
  intuition (try congruence; try discriminate).
  all: subst; rewrite ?Nat.eqb_refl in *; try discriminate.
Qed.

Lemma base_invs sc s : reach false sc s -> inv1 false s /\ inv2 false s /\ inv6 s /\ inv7 s.
Proof.
  revert s. apply reach_ind'.
  - unfold inv1, inv2, inv6, inv7, init, cancelled; cbn. intuition (try congruence; try discriminate).
  - intros s l s1 [I1 [I2 [I6 I7]]] H.
    split; [eapply inv1_step; eauto|]. split; [eapply inv2_step; eauto|].
    split; [eapply inv6_step; eauto|eapply inv7_step; eauto].
Qed.

Definition close_succeeded (s : st) : Prop :=
  c_ok s = true /\ match c_pc s with CBaseHold | CWait | CRet | CFin => True | _ => False end.

Lemma base_progress sc s :
  inv2 false s -> inv6 s -> inv7 s -> close_succeeded s ->
  sstep false sc s ++ cstep false s = [] -> s_pc s = SFin /\ c_pc s = CFin.
Proof.
  intros I2 I6 I7 [C1 C2] H. apply app_eq_nil in H. destruct H as [Hs Hc].
  dst s; unfold inv2, inv6, inv7, sstep, cstep, end_attempt, cancelled in *; cbn in *; subst.
  destruct cpc0; try destruct C2; cbn in Hc; try discriminate;
  repeat match type of Hc with
         | (if ?c then _ else _) = [] => destruct c eqn:?; cbn in Hc; try discriminate
         | match ?c with _ => _ end = [] => destruct c eqn:?; cbn in Hc; try discriminate
         end;
  destruct spc0; cbn in Hs; try discriminate;
  repeat match type of Hs with
         | (if ?c then _ else _) = [] => destruct c eqn:?; cbn in Hs; try discriminate
         | match ?c with _ => _ end = [] => destruct c eqn:?; cbn in Hs; try discriminate
         end;
  cbn in *; intuition (try congruence; try discriminate); subst; cbn in *;
  rewrite ?orb_true_r in *; try discriminate.
Qed.

Lemma close_succeeded_step sc s l s1 :
  close_succeeded s -> In (l, s1) (step false sc s) -> close_succeeded s1.
Proof.
  intros [C1 C2] H. dst s; unfold close_succeeded in *; cbn in *; subst.
  split_step H; crunch H; cbn in *; splitifs; try tauto; try (destruct C2).
Qed.

(** A bare client: every execution is bounded (there is a single attempt),
    and once Close has succeeded (it found the transport installed) nothing
    can block before both Subscribe and Close have returned. *)
Theorem close_subscribe_terminate_base sc s :
  reach false sc s ->
  forall n s', exec (step false sc) s n s' ->
    n <= mu sc s /\
    (close_succeeded s -> sstep false sc s' ++ cstep false s' = [] ->
     s_pc s' = SFin /\ c_pc s' = CFin).
Proof.
  intros Hr n s' He. split.
  - revert Hr. induction He; intros Hr; [lia|].
    assert (Hr1 : reach false sc s1) by (eapply exec_reach; [exact Hr|]; econstructor; [eauto|constructor]).
    specialize (IHHe Hr1).
    pose proof (base_step_decreases _ _ _ _ (proj1 (base_invs _ _ Hr)) H). lia.
  - intros Hc Hst.
    assert (Hc' : close_succeeded s').
    { clear Hst Hr. induction He; auto. apply IHHe. eapply close_succeeded_step; eauto. }
    destruct (base_invs _ _ (exec_reach _ _ _ _ _ Hr He)) as [_ [I2 [I6 I7]]].
    eapply base_progress; eauto.
Qed.

(** ** what the correspondence check establishes for a recorded trace *)
Theorem model_accepts_sound rc l tr ss :
  model_accepts rc l tr = inr ss -> exists s, run (step rc (sc_of l)) init tr s.
Proof.
  unfold model_accepts. intros H.
  eapply accepts_run with (leqb := ev_beq); [|exact H].
  intros a b E. apply internal_ev_dec_bl. exact E.
Qed.

(** Soundness of the executable specification K_P of C16, remaining clauses.

    ConnProofs.v proves, on the observations alone, the clauses
    no-use-after-close and one-dial-in-flight of a case that K_P accepts
    ([kaccepts c = true]: every observation equals what [kstep] predicts).
    This file does the same for the other clauses of the property text:

    - closed at a release only, and once (never seen open again);
    - releasing twice / releasing after a failed request shows nothing;
    - after the close the address is forgotten: the next request dials afresh;
    - requesters that joined while one Dial call was in flight share its outcome;
    - manager family ([mcheck_from]): after every cycle each connection
      dialled so far is closed (every acquire was matched by a release).

    A recorded run is a [trace]: the script's events, each with the
    observation made once the implementation was at rest again. *)
From Coq Require Import List Bool ZArith NArith Lia Arith.
From Gnmi Require Import Conn.ConnLts Conn.ConnCheck Conn.ConnProofs.
Import ListNotations.

(** * Manager family: acquire / release balance *)

Definition xtrace := list (xevent * xobs).

Definition xdialed_in (c : xtrace) (d : nat) : Prop :=
  exists e r a, In (e, r) c /\ In (d, a) (o_dials (canon (x_o r))).

Lemma forallb_existsb_In (l m : list nat) :
  forallb (fun h => existsb (Nat.eqb h) m) l = true -> forall h, In h l -> In h m.
Proof.
  intros H h Hin. rewrite forallb_forall in H. specialize (H h Hin).
  apply existsb_exists in H. destruct H as (x & Hx & E). apply Nat.eqb_eq in E. now subst.
Qed.

Lemma mcheck_sound pre : forall n made c e r post,
  mcheck_from n made c = [] -> c = pre ++ (e, r) :: post ->
  o_bad (canon (x_o r)) = 0%N /\
  forall d, In d made \/ xdialed_in (pre ++ [(e, r)]) d -> In d (o_closed (canon (x_o r))).
Proof.
  induction pre as [|[e0 r0] pre IH]; intros n made c e r post Hm ->.
  - cbn [app mcheck_from] in Hm. apply app_eq_nil in Hm. destruct Hm as [Hm _].
    destruct (N.eqb (o_bad (canon (x_o r))) 0) eqn:Eb; cbn [negb] in Hm; [|discriminate].
    split; [now apply N.eqb_eq|].
    match type of Hm with (if ?b then _ else _) = _ => destruct b eqn:Ef end; [|discriminate].
    intros d Hd. apply (forallb_existsb_In _ _ Ef). apply in_or_app.
    destruct Hd as [Hd|(e1 & r1 & a & [E|[]] & Hin)]; [left; exact Hd|right].
    inversion E; subst e1 r1. apply in_map_iff. exists (d, a). auto.
  - cbn [app mcheck_from] in Hm. apply app_eq_nil in Hm. destruct Hm as [_ Hm].
    destruct (IH _ _ _ e r post Hm eq_refl) as [Hb Hc]. split; [exact Hb|].
    intros d [Hd|(e1 & r1 & a & Hin & Hda)]; apply Hc.
    + left. apply in_or_app. left. exact Hd.
    + cbn [app] in Hin. destruct Hin as [E|Hin].
      * inversion E; subst e1 r1. left. apply in_or_app. right. apply in_map_iff. exists (d, a). auto.
      * right. exists e1, r1, a. auto.
Qed.

(** manager family: in a case the manager check accepts, after every cycle
    nothing panicked or hung, and every connection dialled up to and including
    that cycle is Shutdown -- each reference the target manager acquired has
    been released *)
Theorem K_sound_manager_balance c :
  mcheck_from 0 [] c = [] ->
  forall pre e r post, c = pre ++ (e, r) :: post ->
  o_bad (canon (x_o r)) = 0%N /\
  forall d, xdialed_in (pre ++ [(e, r)]) d -> In d (o_closed (canon (x_o r))).
Proof.
  intros Hm pre e r post Hc. destruct (mcheck_sound pre 0 [] c e r post Hm Hc) as [Hb Hd].
  split; [exact Hb|]. intros d H. apply Hd. right. exact H.
Qed.

Definition mk_mobs (dials : list (nat * nat)) (closed : list nat) : xobs :=
  XObs (Obs false [] [] dials [] closed 0%N) [] [].

Example ex_manager_accept :
  let c := [(XManager 2, mk_mobs [(0, 0); (1, 1)] [0; 1]); (XManager 1, mk_mobs [(2, 0)] [0; 1; 2])]%nat in
  mcheck_from 0 [] c = [] /\ xdialed_in c 2.
Proof.
  cbv zeta. split; [vm_compute; reflexivity|].
  do 3 eexists. split; [right; left; reflexivity|vm_compute; left; reflexivity].
Qed.

(** a cycle that leaves connection 1 open (the mechanism of seed_vb) is rejected *)
Example ex_manager_reject :
  mcheck_from 0 [] [(XManager 2, mk_mobs [(0, 0); (1, 1)] [0])]%nat = [(0%nat, 5%N)].
Proof. vm_compute; reflexivity. Qed.

(** * Facts about one step of the specification machine *)

Lemma In_dedup_nat' x l : In x l -> In x (dedup_nat l).
Proof.
  induction l as [|y l IH]; [auto|]. destruct l as [|z l']; [auto|].
  cbn [dedup_nat]. destruct (Nat.eqb_spec y z).
  - intros [E|H]; apply IH; [left; congruence|exact H].
  - intros [E|H]; [left; exact E|right; exact (IH H)].
Qed.

Lemma In_closed_canon h l : In h (dedup_nat (sort_nat l)) <-> In h l.
Proof.
  split.
  - intros H. apply In_dedup_nat in H. now apply In_sort_nat.
  - intros H. apply In_dedup_nat'. now apply In_sort_nat.
Qed.

Lemma obs_eqb_eq a b : obs_eqb a b = true -> a = b.
Proof.
  unfold obs_eqb. intros H. repeat (apply andb_true_iff in H; destruct H as [H ?]).
  destruct a, b; cbn in *.
  apply Bool.eqb_prop in H. apply rets_eqb_eq in H5. apply nats_eqb_eq in H4. apply pairs_eqb_eq in H3.
  apply nats_eqb_eq in H2. apply nats_eqb_eq in H1. apply N.eqb_eq in H0. congruence.
Qed.

Ltac kcases :=
  unfold kstep, kignored;
  repeat match goal with
         | |- context[match ?x with _ => _ end] => destruct x eqn:?
         | |- context[if ?x then _ else _] => destruct x eqn:?
         end; cbn [fst snd].

Ltac kwakes :=
  repeat match goal with
         | H : kwake _ = (_, _) |- _ =>
             apply kwake_rel in H;
             let Ha := fresh "Wa" in let Hd := fresh "Wd" in let Hi := fresh "Wi" in
             let Hc := fresh "Wc" in let Hcl := fresh "Wcl" in let Ht := fresh "Wt" in let Ho := fresh "Wo" in
             destruct H as (Ha & Hd & Hi & Hc & Hcl & Ht & Ho)
         end.

(** the closed set shown after an event is the specification's closed set *)
Lemma kstep_obs_closed ks e :
  o_closed (snd (kstep ks e)) = dedup_nat (sort_nat (k_closed (fst (kstep ks e)))).
Proof. kcases; reflexivity. Qed.

(** the closed set only grows, and only by the handle of an applied first
    release of a thread that returned that handle *)
Lemma kstep_closed_step ks e :
  (forall h, In h (k_closed ks) -> In h (k_closed (fst (kstep ks e)))) /\
  (forall h, In h (k_closed (fst (kstep ks e))) -> ~ In h (k_closed ks) ->
     exists i t, e = ERelease i /\ o_ign (snd (kstep ks e)) = false /\
                 k_thr ks i = Some t /\ k_ret t = Some (OConn h) /\ k_rel t = false).
Proof.
  split; intros h; kcases; kwakes; cbn; try rewrite ?Wcl; cbn; auto; try tauto.
  all: intros [E|H] Hn; [|tauto]; subst; do 2 eexists; repeat split; eauto.
Qed.

(** threads of the specification machine: the source never changes, a
    release flag and a return value, once set, stay *)
Definition thr_mono (ks ks' : kstate) (j : nat) : Prop :=
  forall t, k_thr ks j = Some t ->
  exists t', k_thr ks' j = Some t' /\ k_src t' = k_src t /\
             (k_rel t = true -> k_rel t' = true) /\ (forall r, k_ret t = Some r -> k_ret t' = Some r).

Lemma thr_mono_refl ks j : thr_mono ks ks j.
Proof. intros t E. exists t. auto. Qed.

Lemma thr_mono_wake ks ks1 ks2 out j :
  thr_mono ks ks1 j -> wake_rel ks1 ks2 out -> thr_mono ks ks2 j.
Proof.
  intros H1 (_ & _ & _ & _ & _ & Ht & _) t E. destruct (H1 t E) as (t1 & E1 & Hs & Hr & Hret).
  specialize (Ht j). rewrite E1 in Ht. destruct Ht as (t2 & E2 & Hs2 & Hr2 & Hret2).
  exists t2. split; [exact E2|]. split; [congruence|]. split; [intros X; rewrite Hr2; auto|].
  intros r Hx. specialize (Hret r Hx). destruct Hret2 as [Hy|[Hy _]]; congruence.
Qed.

Lemma thr_mono_upd ks ks' i j t0 t1 :
  k_thr ks i = Some t0 -> k_thr ks' = upd (k_thr ks) i (Some t1) ->
  k_src t1 = k_src t0 -> (k_rel t0 = true -> k_rel t1 = true) ->
  (forall r, k_ret t0 = Some r -> k_ret t1 = Some r) ->
  thr_mono ks ks' j.
Proof.
  intros E0 Hk Hs Hr Hret t E. rewrite Hk. upd_cases j i.
  - subst j. assert (t = t0) by congruence. subst t. exists t1. auto.
  - exists t. auto.
Qed.

Lemma thr_mono_new ks ks' i j t1 :
  k_thr ks i = None -> k_thr ks' = upd (k_thr ks) i (Some t1) -> thr_mono ks ks' j.
Proof.
  intros E0 Hk t E. rewrite Hk. upd_cases j i; [subst j; congruence|exists t; auto].
Qed.

Lemma kstep_thr_mono ks e j : thr_mono ks (fst (kstep ks e)) j.
Proof.
  destruct e as [i a known|i|d ok|d|i|i]; cbn [kstep].
  - destruct (k_thr ks i) eqn:Ei; [apply thr_mono_refl|].
    destruct (k_cancel ks i); [eapply thr_mono_new; [exact Ei|reflexivity]|].
    destruct (k_as ks a); [destruct known|..]; cbn [fst]; (eapply thr_mono_new; [exact Ei|reflexivity]).
  - destruct (k_thr ks i) as [t|] eqn:Ei; [|apply thr_mono_refl].
    destruct (k_ret t) eqn:Er; [apply thr_mono_refl|].
    destruct (k_passed t); [apply thr_mono_refl|].
    match goal with |- context[kwake ?x] => destruct (kwake x) as [ks2 rets] eqn:Ew end.
    cbn [fst]. eapply thr_mono_wake; [|apply kwake_rel; exact Ew].
    eapply thr_mono_upd; [exact Ei|reflexivity|reflexivity|auto|cbn; intros; congruence].
  - destruct (k_d ks d) as [[a [| |cls f]]|]; try apply thr_mono_refl.
    destruct ok.
    + match goal with |- context[kwake ?x] => destruct (kwake x) as [ks2 rets] eqn:Ew end.
      cbn [fst]. eapply thr_mono_wake; [|apply kwake_rel; exact Ew]. intros t E. exists t. auto.
    + cbn [fst]. intros t E. exists t. auto.
  - destruct (k_d ks d) as [[a [| |cls [|]]]|]; try apply thr_mono_refl.
    match goal with |- context[kwake ?x] => destruct (kwake x) as [ks2 rets] eqn:Ew end.
    cbn [fst]. eapply thr_mono_wake; [|apply kwake_rel; exact Ew]. intros t E. exists t. auto.
  - destruct (k_thr ks i) as [t|] eqn:Ei; [|apply thr_mono_refl].
    destruct (k_ret t) as [[h| |cls]|] eqn:Er; try apply thr_mono_refl.
    destruct (k_rel t) eqn:Erl; [apply thr_mono_refl|].
    match goal with |- context[existsb ?f ?l] => destruct (existsb f l) end; cbn [fst];
      (eapply thr_mono_upd; [exact Ei|reflexivity|reflexivity|auto|cbn; intros; congruence]).
  - destruct (k_d ks i) as [[a [| |cls f]]|]; cbn [fst]; intros t E; exists t; auto.
Qed.

(** an applied release leaves its thread returned, and released unless what
    it returned was not a connection *)
Definition rel_done (ks : kstate) (i : nat) : Prop :=
  exists t r, k_thr ks i = Some t /\ k_ret t = Some r /\ (k_rel t = true \/ forall h, r <> OConn h).

Lemma kstep_release_done ks i :
  o_ign (snd (kstep ks (ERelease i))) = false -> rel_done (fst (kstep ks (ERelease i))) i.
Proof.
  cbn [kstep]. destruct (k_thr ks i) as [t|] eqn:Ei; [|cbn; discriminate].
  destruct (k_ret t) as [[h| |cls]|] eqn:Er; try (cbn; discriminate).
  - destruct (k_rel t) eqn:Erl.
    + intros _. cbn [fst]. exists t. eexists. eauto.
    + match goal with |- context[existsb ?f ?l] => destruct (existsb f l) end; cbn [fst snd]; intros _;
        (eexists; exists (OConn h); split; [cbn; rewrite upd_same; reflexivity|cbn; auto]).
  - intros _. cbn [fst]. exists t. eexists. split; [exact Ei|]. split; [exact Er|]. right. discriminate.
  - intros _. cbn [fst]. exists t. eexists. split; [exact Ei|]. split; [exact Er|]. right. discriminate.
Qed.

Lemma rel_done_mono ks ks' i : thr_mono ks ks' i -> rel_done ks i -> rel_done ks' i.
Proof.
  intros Hm (t & r & E & Hr & Hor). destruct (Hm t E) as (t' & E' & _ & Hrel & Hret).
  exists t', r. split; [exact E'|]. split; [auto|]. destruct Hor; auto.
Qed.

(** what a release of a thread that is [rel_done] shows: nothing *)
Lemma kstep_release_noop ks i :
  rel_done ks i ->
  kstep ks (ERelease i) = (ks, Obs false [] [] [] [] (dedup_nat (sort_nat (k_closed ks))) 0%N).
Proof.
  intros (t & r & E & Hr & Hor). cbn [kstep]. rewrite E, Hr.
  destruct r as [h| |cls]; try reflexivity.
  destruct Hor as [Hrel|Hn]; [rewrite Hrel; reflexivity|]. exfalso. exact (Hn h eq_refl).
Qed.

(** * Coupling with the recorded run *)

(** the closed set shown by the last observation of a run *)
Definition closed_after (c : trace) : list nat :=
  match rev c with [] => [] | (_, o) :: _ => o_closed (canon o) end.

Lemma closed_after_snoc c e o : closed_after (c ++ [(e, o)]) = o_closed (canon o).
Proof. unfold closed_after. rewrite rev_unit. reflexivity. Qed.

Lemma kreach_inv2 c ks :
  kreach c ks ->
  closed_after c = dedup_nat (sort_nat (k_closed ks)) /\
  (forall i, released_in c i -> rel_done ks i).
Proof.
  induction 1 as [|c ks e o Hr (J1 & J2) Hacc].
  - split; [reflexivity|]. intros i (o & [] & _).
  - apply obs_eqb_eq in Hacc. split.
    + rewrite closed_after_snoc, Hacc. apply kstep_obs_closed.
    + intros i (o0 & Hin & Hig). apply in_app_iff in Hin. destruct Hin as [Hin|[E|[]]].
      * apply (rel_done_mono ks); [apply kstep_thr_mono|]. apply J2. exists o0. auto.
      * inversion E; subst e o0. apply kstep_release_done. rewrite <- Hacc. exact Hig.
Qed.

Lemma kaccepts_split c pre e o post :
  kaccepts c = true -> c = pre ++ (e, o) :: post ->
  exists ks, kreach pre ks /\ canon o = snd (kstep ks e) /\ kreach (pre ++ [(e, o)]) (fst (kstep ks e)) /\
             kaccepts_from (fst (kstep ks e)) post = true.
Proof.
  intros Ha ->. destruct (kaccepts_kreach pre [] kinit ((e, o) :: post) kr_nil Ha) as (ks & Hk & Hacc).
  cbn [app] in Hk. exists ks. split; [exact Hk|]. cbn in Hacc.
  destruct (kstep ks e) as [ks' rk] eqn:Es. apply andb_true_iff in Hacc. destruct Hacc as [H1 H2].
  cbn [fst snd]. split; [now apply obs_eqb_eq|]. split; [|exact H2].
  replace ks' with (fst (kstep ks e)) by now rewrite Es. constructor; [exact Hk|]. now rewrite Es.
Qed.

(** ** releasing twice, releasing after a failed request: no effect *)

(** In a case that K_P accepts, a release by a thread that already has an
    applied release, or whose request returned something that is not a
    connection (an error), is applied and shows nothing at all: no return, no
    arrival, no Dial call, no failure, no panic, and the closed set is the one
    shown before. *)
Theorem K_sound_noop_release c :
  kaccepts c = true ->
  forall pre i o post, c = pre ++ (ERelease i, o) :: post ->
  released_in pre i \/ (exists r, returned_in pre i r /\ forall h, r <> OConn h) ->
  canon o = Obs false [] [] [] [] (closed_after pre) 0%N.
Proof.
  intros Ha pre i o post Hc Hor.
  destruct (kaccepts_split c pre _ o post Ha Hc) as (ks & Hk & Ho & _).
  destruct (kreach_inv2 pre ks Hk) as (Jc & Jr). destruct (kreach_inv pre ks Hk) as (_ & J1 & _).
  assert (Hd : rel_done ks i).
  { destruct Hor as [Hrel|(r & Hret & Hn)]; [now apply Jr|].
    destruct (J1 i r Hret) as (t & Et & Hrt). exists t, r. auto. }
  rewrite Ho, (kstep_release_noop ks i Hd), Jc. reflexivity.
Qed.

(** ** closed at a release only, and once *)

(** In a case that K_P accepts, a handle shown closed stays closed (it is
    closed once: the observation is the set of Shutdown connections, and a
    member never leaves it), and a handle that is newly shown closed after an
    event is so after an applied release event of a thread that had no applied
    release before.  With [K_sound_no_use_after_close] (by then every receiver
    of the handle has an applied release) this is: closed at the last release,
    not before, and by nothing else. *)
Theorem K_sound_closed_by_release c :
  kaccepts c = true ->
  forall pre e o post, c = pre ++ (e, o) :: post ->
  (forall h, In h (closed_after pre) -> In h (o_closed (canon o))) /\
  (forall h, In h (o_closed (canon o)) -> ~ In h (closed_after pre) ->
     exists i, e = ERelease i /\ o_ign (canon o) = false /\ ~ released_in pre i).
Proof.
  intros Ha pre e o post Hc.
  destruct (kaccepts_split c pre _ o post Ha Hc) as (ks & Hk & Ho & _).
  destruct (kreach_inv2 pre ks Hk) as (Jc & Jr).
  destruct (kstep_closed_step ks e) as (Hmono & Hnew).
  rewrite Ho, kstep_obs_closed, Jc. split.
  - intros h Hh. apply (proj2 (In_closed_canon _ _)). apply Hmono. exact (proj1 (In_closed_canon _ _) Hh).
  - intros h Hh Hn. apply (proj1 (In_closed_canon _ _)) in Hh.
    destruct (Hnew h Hh) as (i & t & -> & Hig & Et & Hrt & Hrl).
    { intros X. apply Hn. exact (proj2 (In_closed_canon _ _) X). }
    exists i. split; [reflexivity|]. split; [exact Hig|].
    intros Hrel. destruct (Jr i Hrel) as (t' & r & Et' & Hr' & Hor).
    assert (t' = t) by congruence. subst t'. destruct Hor as [X|X]; [congruence|].
    apply (X h). congruence.
Qed.


(** ** forgotten after the close: the next request dials afresh *)

Lemma kstep_release_idle ks i h a o :
  k_d ks h = Some (a, o) ->
  In h (k_closed (fst (kstep ks (ERelease i)))) -> ~ In h (k_closed ks) ->
  k_as (fst (kstep ks (ERelease i))) a = AIdle.
Proof.
  intros Hd. cbn [kstep]. destruct (k_thr ks i) as [t|]; [|cbn; tauto].
  destruct (k_ret t) as [[h'| |cls]|]; try (cbn; tauto).
  destruct (k_rel t); [cbn; tauto|].
  match goal with |- context[existsb ?f ?l] => destruct (existsb f l) end; cbn [fst]; [cbn; tauto|].
  cbn. intros [E|H] Hn; [|tauto]. subst h'. rewrite Hd. now rewrite upd_same.
Qed.

Lemma kstep_idle_keeps ks e a :
  kinv ks -> k_as ks a = AIdle -> (forall j k, e <> EReq j a k) ->
  k_as (fst (kstep ks e)) a = AIdle.
Proof.
  intros K Hi Hne.
  assert (U : forall a1 X, (a1 = a -> X = AIdle) -> upd (k_as ks) a1 X a = AIdle).
  { intros a1 X HX. upd_cases a a1; [subst; auto|exact Hi]. }
  assert (P : forall d a1, k_d ks d = Some (a1, DPend) -> a1 <> a).
  { intros d a1 Hd ->. pose proof (kj_d_as ks K d a DPend Hd) as X. cbn in X. congruence. }
  destruct e as [i a0 known|i|d ok|d|i|i]; cbn [kstep].
  - assert (a0 <> a) by (intros ->; exact (Hne i known eq_refl)).
    destruct (k_thr ks i); [exact Hi|]. destruct (k_cancel ks i); [exact Hi|].
    destruct (k_as ks a0); [destruct known|..]; cbn; try exact Hi; apply U; intros; congruence.
  - destruct (k_thr ks i) as [t|]; [|exact Hi]. destruct (k_ret t); [exact Hi|].
    destruct (k_passed t); [exact Hi|].
    match goal with |- context[kwake ?x] => destruct (kwake x) as [ks2 rets] eqn:Ew end.
    cbn [fst]. destruct (kwake_rel _ _ _ Ew) as (Wa & _). rewrite Wa. exact Hi.
  - destruct (k_d ks d) as [[a1 [| |cls f]]|] eqn:Ed; try exact Hi.
    pose proof (P d a1 Ed) as Hn. destruct ok.
    + match goal with |- context[kwake ?x] => destruct (kwake x) as [ks2 rets] eqn:Ew end.
      cbn [fst]. destruct (kwake_rel _ _ _ Ew) as (Wa & _). rewrite Wa. cbn. apply U. intros; congruence.
    + cbn. apply U. intros; congruence.
  - destruct (k_d ks d) as [[a1 [| |cls [|]]]|] eqn:Ed; try exact Hi.
    match goal with |- context[kwake ?x] => destruct (kwake x) as [ks2 rets] eqn:Ew end.
    cbn [fst]. destruct (kwake_rel _ _ _ Ew) as (Wa & _). rewrite Wa. cbn. apply U. auto.
  - destruct (k_thr ks i) as [t|]; [|exact Hi].
    destruct (k_ret t) as [[h| |cls]|]; try exact Hi. destruct (k_rel t); [exact Hi|].
    match goal with |- context[existsb ?f ?l] => destruct (existsb f l) end; cbn; [exact Hi|].
    apply U. auto.
  - destruct (k_d ks i) as [[a1 [| |cls f]]|] eqn:Ed; cbn; try exact Hi.
    pose proof (P i a1 Ed) as Hn. apply U. intros; congruence.
Qed.

Definition no_req_for (a : nat) (m : trace) : Prop := forall j k o, ~ In (EReq j a k, o) m.

Lemma idle_through mid a : forall c0 ks rest,
  kreach c0 ks -> k_as ks a = AIdle -> no_req_for a mid ->
  kaccepts_from ks (mid ++ rest) = true ->
  exists ks', k_as ks' a = AIdle /\ kaccepts_from ks' rest = true.
Proof.
  induction mid as [|[e o] mid IH]; intros c0 ks rest Hk Hi Hn Ha.
  - exists ks. auto.
  - cbn in Ha. destruct (kstep ks e) as [ks1 rk] eqn:Es.
    apply andb_true_iff in Ha. destruct Ha as [Ha1 Ha2].
    destruct (kreach_inv c0 ks Hk) as (K & _).
    assert (Hk1 : kreach (c0 ++ [(e, o)]) ks1).
    { replace ks1 with (fst (kstep ks e)) by now rewrite Es. constructor; [exact Hk|]. now rewrite Es. }
    apply (IH (c0 ++ [(e, o)]) ks1 rest Hk1); [| |exact Ha2].
    + replace ks1 with (fst (kstep ks e)) by now rewrite Es. apply kstep_idle_keeps; auto.
      intros j k ->. apply (Hn j k o). left. reflexivity.
    + intros j k o' Hin. apply (Hn j k o'). right. exact Hin.
Qed.

(** In a case that K_P accepts: when handle h, dialled for address a, is newly
    shown closed after a release, then the first request for a that follows
    and reaches the join point (it is applied and its context is not
    cancelled) has a Dial call of its own -- the closed connection is not
    handed out again, the address was forgotten. *)
Theorem K_sound_fresh_dial_after_close c :
  kaccepts c = true ->
  forall pre i o1 mid j o2 post h a,
  c = pre ++ (ERelease i, o1) :: mid ++ (EReq j a true, o2) :: post ->
  dial_in pre h a -> In h (o_closed (canon o1)) -> ~ In h (closed_after pre) ->
  no_req_for a mid -> In j (o_joined (canon o2)) ->
  In (j, a) (o_dials (canon o2)).
Proof.
  intros Ha pre i o1 mid j o2 post h a Hc Hd Hcl Hncl Hmid Hj.
  destruct (kaccepts_split c pre _ o1 _ Ha Hc) as (ks & Hk & Ho1 & Hk1 & Hacc).
  destruct (kreach_inv2 pre ks Hk) as (Jc & _).
  destruct (kreach_dials pre ks Hk h a Hd) as (od & Hkd & _).
  assert (Hidle : k_as (fst (kstep ks (ERelease i))) a = AIdle).
  { apply (kstep_release_idle ks i h a od Hkd).
    - rewrite Ho1, kstep_obs_closed in Hcl. exact (proj1 (In_closed_canon _ _) Hcl).
    - intros X. apply Hncl. rewrite Jc. exact (proj2 (In_closed_canon _ _) X). }
  destruct (idle_through mid a _ _ _ Hk1 Hidle Hmid Hacc) as (ks2 & Hi2 & Ha2).
  cbn [kaccepts_from] in Ha2. destruct (kstep ks2 (EReq j a true)) as [ks3 rk] eqn:Es.
  apply andb_true_iff in Ha2. destruct Ha2 as [Ha2 _]. apply obs_eqb_eq in Ha2.
  rewrite Ha2 in Hj |- *. clear Ha2. cbn [kstep] in Es.
  destruct (k_thr ks2 j); [inversion Es; subst rk; cbn in Hj; contradiction|].
  destruct (k_cancel ks2 j); [inversion Es; subst rk; cbn in Hj; contradiction|].
  rewrite Hi2 in Es. inversion Es; subst rk. cbn. left. reflexivity.
Qed.

(** ** non-vacuity: accepted and rejected recorded runs for each clause

    [ex_case] (ConnProofs): two requests share dial 0, thread 0 releases twice,
    thread 1 releases (handle 0 closed), thread 2 asks again and dials afresh. *)

Example ex_noop_release_accept :
  kaccepts ex_case = true /\
  (exists o, ex_case = firstn 6 ex_case ++ (ERelease 0%nat, o) :: skipn 7 ex_case /\
             canon o = Obs false [] [] [] [] (closed_after (firstn 6 ex_case)) 0%N) /\
  released_in (firstn 6 ex_case) 0.
Proof.
  split; [vm_compute; reflexivity|]. split.
  - eexists. split; vm_compute; reflexivity.
  - eexists. split; [vm_compute; do 5 right; left; reflexivity|vm_compute; reflexivity].
Qed.

(** the second release of thread 0 closes the connection thread 1 still holds: rejected, tag 4 *)
Definition ex_double_bad : trace :=
  firstn 6 ex_case ++ [(ERelease 0%nat, Obs false [] [] [] [] [0%nat] 0%N)].

Example ex_noop_release_reject :
  kaccepts ex_double_bad = false /\ check_case ex_double_bad = [(6%nat, 1%N); (6%nat, 4%N)] /\
  released_in (firstn 6 ex_double_bad) 0.
Proof.
  split; [vm_compute; reflexivity|]. split; [vm_compute; reflexivity|].
  eexists. split; [vm_compute; do 5 right; left; reflexivity|vm_compute; reflexivity].
Qed.

(** a release after a failed request that shows a Dial call: rejected, tag 2 *)
Definition ex_failrel_script : list event := [EReq 0 0 true; EPass 0; EDial 0 false; EFailGo 0; ERelease 0]%nat.
Definition ex_failrel : trace := combine ex_failrel_script (ktrace kinit ex_failrel_script).
Definition ex_failrel_bad : trace :=
  firstn 4 ex_failrel ++ [(ERelease 0%nat, Obs false [] [] [(0, 0)%nat] [] [] 0%N)].

Example ex_release_after_failure :
  kaccepts ex_failrel = true /\ returned_in (firstn 4 ex_failrel) 0 (OErr 2%N) /\
  kaccepts ex_failrel_bad = false /\ check_case ex_failrel_bad = [(4%nat, 1%N); (4%nat, 2%N)].
Proof.
  split; [vm_compute; reflexivity|]. split.
  - do 2 eexists. split; [vm_compute; do 3 right; left; reflexivity|vm_compute; left; reflexivity].
  - split; vm_compute; reflexivity.
Qed.

Example ex_closed_by_release_accept :
  kaccepts ex_case = true /\
  (exists o, nth_error ex_case 7 = Some (ERelease 1%nat, o) /\ In 0%nat (o_closed (canon o))) /\
  closed_after (firstn 7 ex_case) = [].
Proof.
  split; [vm_compute; reflexivity|]. split; [|vm_compute; reflexivity].
  eexists. split; [vm_compute; reflexivity|vm_compute; left; reflexivity].
Qed.

(** the connection is shown Shutdown when its Dial returns, nobody having released: rejected, tag 4 *)
Definition ex_early_close : trace :=
  firstn 4 ex_case ++ [(EDial 0%nat true, Obs false [(0, OConn 0); (1, OConn 0)]%nat [] [] [] [0%nat] 0%N)].

(** ... or is never shown closed although both holders released: rejected, tag 5 *)
Definition ex_leak : trace :=
  firstn 7 ex_case ++ [(ERelease 1%nat, Obs false [] [] [] [] [] 0%N)].

Example ex_closed_by_release_reject :
  kaccepts ex_early_close = false /\ check_case ex_early_close = [(4%nat, 1%N); (4%nat, 4%N)] /\
  kaccepts ex_leak = false /\ check_case ex_leak = [(7%nat, 1%N); (7%nat, 5%N)].
Proof. repeat split; vm_compute; reflexivity. Qed.

Example ex_fresh_dial_accept :
  kaccepts ex_case = true /\
  (exists o1 o2, ex_case = firstn 7 ex_case ++ (ERelease 1%nat, o1) :: [] ++ (EReq 2 0 true, o2)%nat :: [] /\
     In 0%nat (o_closed (canon o1)) /\ In 2%nat (o_joined (canon o2)) /\ In (2, 0)%nat (o_dials (canon o2))) /\
  dial_in (firstn 7 ex_case) 0 0 /\ ~ In 0%nat (closed_after (firstn 7 ex_case)) /\ no_req_for 0 [].
Proof.
  split; [vm_compute; reflexivity|]. split.
  - do 2 eexists. split; [vm_compute; reflexivity|].
    split; [|split]; vm_compute; left; reflexivity.
  - split; [|split; [vm_compute; tauto|intros j k o []]].
    exists (EReq 0 0 true)%nat. eexists. split; [vm_compute; left; reflexivity|vm_compute; left; reflexivity].
Qed.

(** the request after the close joins the dead entry (no Dial call): rejected, tag 2 *)
Definition ex_stale : trace :=
  firstn 8 ex_case ++ [(EReq 2 0 true, Obs false [] [2] [] [] [0] 0%N)]%nat.

Example ex_fresh_dial_reject :
  kaccepts ex_stale = false /\ check_case ex_stale = [(8%nat, 1%N); (8%nat, 2%N)].
Proof. split; vm_compute; reflexivity. Qed.

(** Soundness of the executable specification K_P of C16, remaining clauses.

    ConnProofs.v proves, on the observations alone, the clauses
    no-use-after-close and one-dial-in-flight of a case that K_P accepts
    ([kaccepts c = true]: every observation equals what [kstep] predicts).
    This file does the same for the other clauses of the property text:

    - closed at a release only, and once (never seen open again);
    - releasing twice / releasing after a failed request shows nothing;
    - after the close the address is forgotten: the next request dials afresh;
    - requesters that joined while one Dial call was in flight share its outcome;
    - manager family ([mcheck_from]): after every cycle each connection
      dialled so far is closed (every acquire was matched by a release).

    A recorded run is a [trace]: the script's events, each with the
    observation made once the implementation was at rest again. *)
From Coq Require Import List Bool ZArith NArith Lia Arith.
From Gnmi Require Import Conn.ConnLts Conn.ConnCheck Conn.ConnProofs.
Import ListNotations.

(** * Manager family: acquire / release balance *)

Definition xtrace := list (xevent * xobs).

Definition xdialed_in (c : xtrace) (d : nat) : Prop :=
  exists e r a, In (e, r) c /\ In (d, a) (o_dials (canon (x_o r))).

Lemma forallb_existsb_In (l m : list nat) :
  forallb (fun h => existsb (Nat.eqb h) m) l = true -> forall h, In h l -> In h m.
Proof.
  intros H h Hin. rewrite forallb_forall in H. specialize (H h Hin).
  apply existsb_exists in H. destruct H as (x & Hx & E). apply Nat.eqb_eq in E. now subst.
Qed.

Lemma mcheck_sound pre : forall n made c e r post,
  mcheck_from n made c = [] -> c = pre ++ (e, r) :: post ->
  o_bad (canon (x_o r)) = 0%N /\
  forall d, In d made \/ xdialed_in (pre ++ [(e, r)]) d -> In d (o_closed (canon (x_o r))).
Proof.
  induction pre as [|[e0 r0] pre IH]; intros n made c e r post Hm ->.
  - cbn [app mcheck_from] in Hm. apply app_eq_nil in Hm. destruct Hm as [Hm _].
    destruct (N.eqb (o_bad (canon (x_o r))) 0) eqn:Eb; cbn [negb] in Hm; [|discriminate].
    split; [now apply N.eqb_eq|].
    match type of Hm with (if ?b then _ else _) = _ => destruct b eqn:Ef end; [|discriminate].
    intros d Hd. apply (forallb_existsb_In _ _ Ef). apply in_or_app.
    destruct Hd as [Hd|(e1 & r1 & a & [E|[]] & Hin)]; [left; exact Hd|right].
    inversion E; subst e1 r1. apply in_map_iff. exists (d, a). auto.
  - cbn [app mcheck_from] in Hm. apply app_eq_nil in Hm. destruct Hm as [_ Hm].
    destruct (IH _ _ _ e r post Hm eq_refl) as [Hb Hc]. split; [exact Hb|].
    intros d [Hd|(e1 & r1 & a & Hin & Hda)]; apply Hc.
    + left. apply in_or_app. left. exact Hd.
    + cbn [app] in Hin. destruct Hin as [E|Hin].
      * inversion E; subst e1 r1. left. apply in_or_app. right. apply in_map_iff. exists (d, a). auto.
      * right. exists e1, r1, a. auto.
Qed.

(** manager family: in a case the manager check accepts, after every cycle
    nothing panicked or hung, and every connection dialled up to and including
    that cycle is Shutdown -- each reference the target manager acquired has
    been released *)
Theorem K_sound_manager_balance c :
  mcheck_from 0 [] c = [] ->
  forall pre e r post, c = pre ++ (e, r) :: post ->
  o_bad (canon (x_o r)) = 0%N /\
  forall d, xdialed_in (pre ++ [(e, r)]) d -> In d (o_closed (canon (x_o r))).
Proof.
  intros Hm pre e r post Hc. destruct (mcheck_sound pre 0 [] c e r post Hm Hc) as [Hb Hd].
  split; [exact Hb|]. intros d H. apply Hd. right. exact H.
Qed.

Definition mk_mobs (dials : list (nat * nat)) (closed : list nat) : xobs :=
  XObs (Obs false [] [] dials [] closed 0%N) [] [].

Example ex_manager_accept :
  let c := [(XManager 2, mk_mobs [(0, 0); (1, 1)] [0; 1]); (XManager 1, mk_mobs [(2, 0)] [0; 1; 2])]%nat in
  mcheck_from 0 [] c = [] /\ xdialed_in c 2.
Proof.
  cbv zeta. split; [vm_compute; reflexivity|].
  do 3 eexists. split; [right; left; reflexivity|vm_compute; left; reflexivity].
Qed.

(** a cycle that leaves connection 1 open (the mechanism of seed_vb) is rejected *)
Example ex_manager_reject :
  mcheck_from 0 [] [(XManager 2, mk_mobs [(0, 0); (1, 1)] [0])]%nat = [(0%nat, 5%N)].
Proof. vm_compute; reflexivity. Qed.

(** * Facts about one step of the specification machine *)

Lemma In_dedup_nat' x l : In x l -> In x (dedup_nat l).
Proof.
  induction l as [|y l IH]; [auto|]. destruct l as [|z l']; [auto|].
  cbn [dedup_nat]. destruct (Nat.eqb_spec y z).
  - intros [E|H]; apply IH; [left; congruence|exact H].
  - intros [E|H]; [left; exact E|right; exact (IH H)].
Qed.

Lemma In_closed_canon h l : In h (dedup_nat (sort_nat l)) <-> In h l.
Proof.
  split.
  - intros H. apply In_dedup_nat in H. now apply In_sort_nat.
  - intros H. apply In_dedup_nat'. now apply In_sort_nat.
Qed.

Lemma obs_eqb_eq a b : obs_eqb a b = true -> a = b.
Proof.
  unfold obs_eqb. intros H. repeat (apply andb_true_iff in H; destruct H as [H ?]).
  destruct a, b; cbn in *.
  apply Bool.eqb_prop in H. apply rets_eqb_eq in H5. apply nats_eqb_eq in H4. apply pairs_eqb_eq in H3.
  apply nats_eqb_eq in H2. apply nats_eqb_eq in H1. apply N.eqb_eq in H0. congruence.
Qed.

Ltac kcases :=
  unfold kstep, kignored;
  repeat match goal with
         | |- context[match ?x with _ => _ end] => destruct x eqn:?
         | |- context[if ?x then _ else _] => destruct x eqn:?
         end; cbn [fst snd].

Ltac kwakes :=
  repeat match goal with
         | H : kwake _ = (_, _) |- _ =>
             apply kwake_rel in H;
             let Ha := fresh "Wa" in let Hd := fresh "Wd" in let Hi := fresh "Wi" in
             let Hc := fresh "Wc" in let Hcl := fresh "Wcl" in let Ht := fresh "Wt" in let Ho := fresh "Wo" in
             destruct H as (Ha & Hd & Hi & Hc & Hcl & Ht & Ho)
         end.

(** the closed set shown after an event is the specification's closed set *)
Lemma kstep_obs_closed ks e :
  o_closed (snd (kstep ks e)) = dedup_nat (sort_nat (k_closed (fst (kstep ks e)))).
Proof. kcases; reflexivity. Qed.

(** the closed set only grows, and only by the handle of an applied first
    release of a thread that returned that handle *)
Lemma kstep_closed_step ks e :
  (forall h, In h (k_closed ks) -> In h (k_closed (fst (kstep ks e)))) /\
  (forall h, In h (k_closed (fst (kstep ks e))) -> ~ In h (k_closed ks) ->
     exists i t, e = ERelease i /\ o_ign (snd (kstep ks e)) = false /\
                 k_thr ks i = Some t /\ k_ret t = Some (OConn h) /\ k_rel t = false).
Proof.
  split; intros h; kcases; kwakes; cbn; try rewrite ?Wcl; cbn; auto; try tauto.
  all: intros [E|H] Hn; [|tauto]; subst; do 2 eexists; repeat split; eauto.
Qed.

(** threads of the specification machine: the source never changes, a
    release flag and a return value, once set, stay *)
Definition thr_mono (ks ks' : kstate) (j : nat) : Prop :=
  forall t, k_thr ks j = Some t ->
  exists t', k_thr ks' j = Some t' /\ k_src t' = k_src t /\
             (k_rel t = true -> k_rel t' = true) /\ (forall r, k_ret t = Some r -> k_ret t' = Some r).

Lemma thr_mono_refl ks j : thr_mono ks ks j.
Proof. intros t E. exists t. auto. Qed.

Lemma thr_mono_wake ks ks1 ks2 out j :
  thr_mono ks ks1 j -> wake_rel ks1 ks2 out -> thr_mono ks ks2 j.
Proof.
  intros H1 (_ & _ & _ & _ & _ & Ht & _) t E. destruct (H1 t E) as (t1 & E1 & Hs & Hr & Hret).
  specialize (Ht j). rewrite E1 in Ht. destruct Ht as (t2 & E2 & Hs2 & Hr2 & Hret2).
  exists t2. split; [exact E2|]. split; [congruence|]. split; [intros X; rewrite Hr2; auto|].
  intros r Hx. specialize (Hret r Hx). destruct Hret2 as [Hy|[Hy _]]; congruence.
Qed.

Lemma thr_mono_upd ks ks' i j t0 t1 :
  k_thr ks i = Some t0 -> k_thr ks' = upd (k_thr ks) i (Some t1) ->
  k_src t1 = k_src t0 -> (k_rel t0 = true -> k_rel t1 = true) ->
  (forall r, k_ret t0 = Some r -> k_ret t1 = Some r) ->
  thr_mono ks ks' j.
Proof.
  intros E0 Hk Hs Hr Hret t E. rewrite Hk. upd_cases j i.
  - subst j. assert (t = t0) by congruence. subst t. exists t1. auto.
  - exists t. auto.
Qed.

Lemma thr_mono_new ks ks' i j t1 :
  k_thr ks i = None -> k_thr ks' = upd (k_thr ks) i (Some t1) -> thr_mono ks ks' j.
Proof.
  intros E0 Hk t E. rewrite Hk. upd_cases j i; [subst j; congruence|exists t; auto].
Qed.

Lemma kstep_thr_mono ks e j : thr_mono ks (fst (kstep ks e)) j.
Proof.
  destruct e as [i a known|i|d ok|d|i|i]; cbn [kstep].
  - destruct (k_thr ks i) eqn:Ei; [apply thr_mono_refl|].
    destruct (k_cancel ks i); [eapply thr_mono_new; [exact Ei|reflexivity]|].
    destruct (k_as ks a); [destruct known|..]; cbn [fst]; (eapply thr_mono_new; [exact Ei|reflexivity]).
  - destruct (k_thr ks i) as [t|] eqn:Ei; [|apply thr_mono_refl].
    destruct (k_ret t) eqn:Er; [apply thr_mono_refl|].
    destruct (k_passed t); [apply thr_mono_refl|].
    match goal with |- context[kwake ?x] => destruct (kwake x) as [ks2 rets] eqn:Ew end.
    cbn [fst]. eapply thr_mono_wake; [|apply kwake_rel; exact Ew].
    eapply thr_mono_upd; [exact Ei|reflexivity|reflexivity|auto|cbn; intros; congruence].
  - destruct (k_d ks d) as [[a [| |cls f]]|]; try apply thr_mono_refl.
    destruct ok.
    + match goal with |- context[kwake ?x] => destruct (kwake x) as [ks2 rets] eqn:Ew end.
      cbn [fst]. eapply thr_mono_wake; [|apply kwake_rel; exact Ew]. intros t E. exists t. auto.
    + cbn [fst]. intros t E. exists t. auto.
  - destruct (k_d ks d) as [[a [| |cls [|]]]|]; try apply thr_mono_refl.
    match goal with |- context[kwake ?x] => destruct (kwake x) as [ks2 rets] eqn:Ew end.
    cbn [fst]. eapply thr_mono_wake; [|apply kwake_rel; exact Ew]. intros t E. exists t. auto.
  - destruct (k_thr ks i) as [t|] eqn:Ei; [|apply thr_mono_refl].
    destruct (k_ret t) as [[h| |cls]|] eqn:Er; try apply thr_mono_refl.
    destruct (k_rel t) eqn:Erl; [apply thr_mono_refl|].
    match goal with |- context[existsb ?f ?l] => destruct (existsb f l) end; cbn [fst];
      (eapply thr_mono_upd; [exact Ei|reflexivity|reflexivity|auto|cbn; intros; congruence]).
  - destruct (k_d ks i) as [[a [| |cls f]]|]; cbn [fst]; intros t E; exists t; auto.
Qed.

(** an applied release leaves its thread returned, and released unless what
    it returned was not a connection *)
Definition rel_done (ks : kstate) (i : nat) : Prop :=
  exists t r, k_thr ks i = Some t /\ k_ret t = Some r /\ (k_rel t = true \/ forall h, r <> OConn h).

Lemma kstep_release_done ks i :
  o_ign (snd (kstep ks (ERelease i))) = false -> rel_done (fst (kstep ks (ERelease i))) i.
Proof.
  cbn [kstep]. destruct (k_thr ks i) as [t|] eqn:Ei; [|cbn; discriminate].
  destruct (k_ret t) as [[h| |cls]|] eqn:Er; try (cbn; discriminate).
  - destruct (k_rel t) eqn:Erl.
    + intros _. cbn [fst]. exists t. eexists. eauto.
    + match goal with |- context[existsb ?f ?l] => destruct (existsb f l) end; cbn [fst snd]; intros _;
        (eexists; exists (OConn h); split; [cbn; rewrite upd_same; reflexivity|cbn; auto]).
  - intros _. cbn [fst]. exists t. eexists. split; [exact Ei|]. split; [exact Er|]. right. discriminate.
  - intros _. cbn [fst]. exists t. eexists. split; [exact Ei|]. split; [exact Er|]. right. discriminate.
Qed.

Lemma rel_done_mono ks ks' i : thr_mono ks ks' i -> rel_done ks i -> rel_done ks' i.
Proof.
  intros Hm (t & r & E & Hr & Hor). destruct (Hm t E) as (t' & E' & _ & Hrel & Hret).
  exists t', r. split; [exact E'|]. split; [auto|]. destruct Hor; auto.
Qed.

(** what a release of a thread that is [rel_done] shows: nothing *)
Lemma kstep_release_noop ks i :
  rel_done ks i ->
  kstep ks (ERelease i) = (ks, Obs false [] [] [] [] (dedup_nat (sort_nat (k_closed ks))) 0%N).
Proof.
  intros (t & r & E & Hr & Hor). cbn [kstep]. rewrite E, Hr.
  destruct r as [h| |cls]; try reflexivity.
  destruct Hor as [Hrel|Hn]; [rewrite Hrel; reflexivity|]. exfalso. exact (Hn h eq_refl).
Qed.

(** * Coupling with the recorded run *)

(** the closed set shown by the last observation of a run *)
Definition closed_after (c : trace) : list nat :=
  match rev c with [] => [] | (_, o) :: _ => o_closed (canon o) end.

Lemma closed_after_snoc c e o : closed_after (c ++ [(e, o)]) = o_closed (canon o).
Proof. unfold closed_after. rewrite rev_unit. reflexivity. Qed.

Lemma kreach_inv2 c ks :
  kreach c ks ->
  closed_after c = dedup_nat (sort_nat (k_closed ks)) /\
  (forall i, released_in c i -> rel_done ks i).
Proof.
  induction 1 as [|c ks e o Hr (J1 & J2) Hacc].
  - split; [reflexivity|]. intros i (o & [] & _).
  - apply obs_eqb_eq in Hacc. split.
    + rewrite closed_after_snoc, Hacc. apply kstep_obs_closed.
    + intros i (o0 & Hin & Hig). apply in_app_iff in Hin. destruct Hin as [Hin|[E|[]]].
      * apply (rel_done_mono ks); [apply kstep_thr_mono|]. apply J2. exists o0. auto.
      * inversion E; subst e o0. apply kstep_release_done. rewrite <- Hacc. exact Hig.
Qed.

Lemma kaccepts_split c pre e o post :
  kaccepts c = true -> c = pre ++ (e, o) :: post ->
  exists ks, kreach pre ks /\ canon o = snd (kstep ks e) /\ kreach (pre ++ [(e, o)]) (fst (kstep ks e)) /\
             kaccepts_from (fst (kstep ks e)) post = true.
Proof.
  intros Ha ->. destruct (kaccepts_kreach pre [] kinit ((e, o) :: post) kr_nil Ha) as (ks & Hk & Hacc).
  cbn [app] in Hk. exists ks. split; [exact Hk|]. cbn in Hacc.
  destruct (kstep ks e) as [ks' rk] eqn:Es. apply andb_true_iff in Hacc. destruct Hacc as [H1 H2].
  cbn [fst snd]. split; [now apply obs_eqb_eq|]. split; [|exact H2].
  replace ks' with (fst (kstep ks e)) by now rewrite Es. constructor; [exact Hk|]. now rewrite Es.
Qed.

(** ** releasing twice, releasing after a failed request: no effect *)

(** In a case that K_P accepts, a release by a thread that already has an
    applied release, or whose request returned something that is not a
    connection (an error), is applied and shows nothing at all: no return, no
    arrival, no Dial call, no failure, no panic, and the closed set is the one
    shown before. *)
Theorem K_sound_noop_release c :
  kaccepts c = true ->
  forall pre i o post, c = pre ++ (ERelease i, o) :: post ->
  released_in pre i \/ (exists r, returned_in pre i r /\ forall h, r <> OConn h) ->
  canon o = Obs false [] [] [] [] (closed_after pre) 0%N.
Proof.
  intros Ha pre i o post Hc Hor.
  destruct (kaccepts_split c pre _ o post Ha Hc) as (ks & Hk & Ho & _).
  destruct (kreach_inv2 pre ks Hk) as (Jc & Jr). destruct (kreach_inv pre ks Hk) as (_ & J1 & _).
  assert (Hd : rel_done ks i).
  { destruct Hor as [Hrel|(r & Hret & Hn)]; [now apply Jr|].
    destruct (J1 i r Hret) as (t & Et & Hrt). exists t, r. auto. }
  rewrite Ho, (kstep_release_noop ks i Hd), Jc. reflexivity.
Qed.

(** ** closed at a release only, and once *)

(** In a case that K_P accepts, a handle shown closed stays closed (it is
    closed once: the observation is the set of Shutdown connections, and a
    member never leaves it), and a handle that is newly shown closed after an
    event is so after an applied release event of a thread that had no applied
    release before.  With [K_sound_no_use_after_close] (by then every receiver
    of the handle has an applied release) this is: closed at the last release,
    not before, and by nothing else. *)
Theorem K_sound_closed_by_release c :
  kaccepts c = true ->
  forall pre e o post, c = pre ++ (e, o) :: post ->
  (forall h, In h (closed_after pre) -> In h (o_closed (canon o))) /\
  (forall h, In h (o_closed (canon o)) -> ~ In h (closed_after pre) ->
     exists i, e = ERelease i /\ o_ign (canon o) = false /\ ~ released_in pre i).
Proof.
  intros Ha pre e o post Hc.
  destruct (kaccepts_split c pre _ o post Ha Hc) as (ks & Hk & Ho & _).
  destruct (kreach_inv2 pre ks Hk) as (Jc & Jr).
  destruct (kstep_closed_step ks e) as (Hmono & Hnew).
  rewrite Ho, kstep_obs_closed, Jc. split.
  - intros h Hh. apply (proj2 (In_closed_canon _ _)). apply Hmono. exact (proj1 (In_closed_canon _ _) Hh).
  - intros h Hh Hn. apply (proj1 (In_closed_canon _ _)) in Hh.
    destruct (Hnew h Hh) as (i & t & -> & Hig & Et & Hrt & Hrl).
    { intros X. apply Hn. exact (proj2 (In_closed_canon _ _) X). }
    exists i. split; [reflexivity|]. split; [exact Hig|].
    intros Hrel. destruct (Jr i Hrel) as (t' & r & Et' & Hr' & Hor).
    assert (t' = t) by congruence. subst t'. destruct Hor as [X|X]; [congruence|].
    apply (X h). congruence.
Qed.


(** ** forgotten after the close: the next request dials afresh *)

Lemma kstep_release_idle ks i h a o :
  k_d ks h = Some (a, o) ->
  In h (k_closed (fst (kstep ks (ERelease i)))) -> ~ In h (k_closed ks) ->
  k_as (fst (kstep ks (ERelease i))) a = AIdle.
Proof.
  intros Hd. cbn [kstep]. destruct (k_thr ks i) as [t|]; [|cbn; tauto].
  destruct (k_ret t) as [[h'| |cls]|]; try (cbn; tauto).
  destruct (k_rel t); [cbn; tauto|].
  match goal with |- context[existsb ?f ?l] => destruct (existsb f l) end; cbn [fst]; [cbn; tauto|].
  cbn. intros [E|H] Hn; [|tauto]. subst h'. rewrite Hd. now rewrite upd_same.
Qed.

Lemma kstep_idle_keeps ks e a :
  kinv ks -> k_as ks a = AIdle -> (forall j k, e <> EReq j a k) ->
  k_as (fst (kstep ks e)) a = AIdle.
Proof.
  intros K Hi Hne.
  assert (U : forall a1 X, (a1 = a -> X = AIdle) -> upd (k_as ks) a1 X a = AIdle).
  { intros a1 X HX. upd_cases a a1; [subst; auto|exact Hi]. }
  assert (P : forall d a1, k_d ks d = Some (a1, DPend) -> a1 <> a).
  { intros d a1 Hd ->. pose proof (kj_d_as ks K d a DPend Hd) as X. cbn in X. congruence. }
  destruct e as [i a0 known|i|d ok|d|i|i]; cbn [kstep].
  - assert (a0 <> a) by (intros ->; exact (Hne i known eq_refl)).
    destruct (k_thr ks i); [exact Hi|]. destruct (k_cancel ks i); [exact Hi|].
    destruct (k_as ks a0); [destruct known|..]; cbn; try exact Hi; apply U; intros; congruence.
  - destruct (k_thr ks i) as [t|]; [|exact Hi]. destruct (k_ret t); [exact Hi|].
    destruct (k_passed t); [exact Hi|].
    match goal with |- context[kwake ?x] => destruct (kwake x) as [ks2 rets] eqn:Ew end.
    cbn [fst]. destruct (kwake_rel _ _ _ Ew) as (Wa & _). rewrite Wa. exact Hi.
  - destruct (k_d ks d) as [[a1 [| |cls f]]|] eqn:Ed; try exact Hi.
    pose proof (P d a1 Ed) as Hn. destruct ok.
    + match goal with |- context[kwake ?x] => destruct (kwake x) as [ks2 rets] eqn:Ew end.
      cbn [fst]. destruct (kwake_rel _ _ _ Ew) as (Wa & _). rewrite Wa. cbn. apply U. intros; congruence.
    + cbn. apply U. intros; congruence.
  - destruct (k_d ks d) as [[a1 [| |cls [|]]]|] eqn:Ed; try exact Hi.
    match goal with |- context[kwake ?x] => destruct (kwake x) as [ks2 rets] eqn:Ew end.
    cbn [fst]. destruct (kwake_rel _ _ _ Ew) as (Wa & _). rewrite Wa. cbn. apply U. auto.
  - destruct (k_thr ks i) as [t|]; [|exact Hi].
    destruct (k_ret t) as [[h| |cls]|]; try exact Hi. destruct (k_rel t); [exact Hi|].
    match goal with |- context[existsb ?f ?l] => destruct (existsb f l) end; cbn; [exact Hi|].
    apply U. auto.
  - destruct (k_d ks i) as [[a1 [| |cls f]]|] eqn:Ed; cbn; try exact Hi.
    pose proof (P i a1 Ed) as Hn. apply U. intros; congruence.
Qed.

Definition no_req_for (a : nat) (m : trace) : Prop := forall j k o, ~ In (EReq j a k, o) m.

Lemma idle_through mid a : forall c0 ks rest,
  kreach c0 ks -> k_as ks a = AIdle -> no_req_for a mid ->
  kaccepts_from ks (mid ++ rest) = true ->
  exists ks', k_as ks' a = AIdle /\ kaccepts_from ks' rest = true.
Proof.
  induction mid as [|[e o] mid IH]; intros c0 ks rest Hk Hi Hn Ha.
  - exists ks. auto.
  - cbn in Ha. destruct (kstep ks e) as [ks1 rk] eqn:Es.
    apply andb_true_iff in Ha. destruct Ha as [Ha1 Ha2].
    destruct (kreach_inv c0 ks Hk) as (K & _).
    assert (Hk1 : kreach (c0 ++ [(e, o)]) ks1).
    { replace ks1 with (fst (kstep ks e)) by now rewrite Es. constructor; [exact Hk|]. now rewrite Es. }
    apply (IH (c0 ++ [(e, o)]) ks1 rest Hk1); [| |exact Ha2].
    + replace ks1 with (fst (kstep ks e)) by now rewrite Es. apply kstep_idle_keeps; auto.
      intros j k ->. apply (Hn j k o). left. reflexivity.
    + intros j k o' Hin. apply (Hn j k o'). right. exact Hin.
Qed.

(** In a case that K_P accepts: when handle h, dialled for address a, is newly
    shown closed after a release, then the first request for a that follows
    and reaches the join point (it is applied and its context is not
    cancelled) has a Dial call of its own -- the closed connection is not
    handed out again, the address was forgotten. *)
Theorem K_sound_fresh_dial_after_close c :
  kaccepts c = true ->
  forall pre i o1 mid j o2 post h a,
  c = pre ++ (ERelease i, o1) :: mid ++ (EReq j a true, o2) :: post ->
  dial_in pre h a -> In h (o_closed (canon o1)) -> ~ In h (closed_after pre) ->
  no_req_for a mid -> In j (o_joined (canon o2)) ->
  In (j, a) (o_dials (canon o2)).
Proof.
  intros Ha pre i o1 mid j o2 post h a Hc Hd Hcl Hncl Hmid Hj.
  destruct (kaccepts_split c pre _ o1 _ Ha Hc) as (ks & Hk & Ho1 & Hk1 & Hacc).
  destruct (kreach_inv2 pre ks Hk) as (Jc & _).
  destruct (kreach_dials pre ks Hk h a Hd) as (od & Hkd & _).
  assert (Hidle : k_as (fst (kstep ks (ERelease i))) a = AIdle).
  { apply (kstep_release_idle ks i h a od Hkd).
    - rewrite Ho1, kstep_obs_closed in Hcl. exact (proj1 (In_closed_canon _ _) Hcl).
    - intros X. apply Hncl. rewrite Jc. exact (proj2 (In_closed_canon _ _) X). }
  destruct (idle_through mid a _ _ _ Hk1 Hidle Hmid Hacc) as (ks2 & Hi2 & Ha2).
  cbn [kaccepts_from] in Ha2. destruct (kstep ks2 (EReq j a true)) as [ks3 rk] eqn:Es.
  apply andb_true_iff in Ha2. destruct Ha2 as [Ha2 _]. apply obs_eqb_eq in Ha2.
  rewrite Ha2 in Hj |- *. clear Ha2. cbn [kstep] in Es.
  destruct (k_thr ks2 j); [inversion Es; subst rk; cbn in Hj; contradiction|].
  destruct (k_cancel ks2 j); [inversion Es; subst rk; cbn in Hj; contradiction|].
  rewrite Hi2 in Es. inversion Es; subst rk. cbn. left. reflexivity.
Qed.

(** ** non-vacuity: accepted and rejected recorded runs for each clause

    [ex_case] (ConnProofs): two requests share dial 0, thread 0 releases twice,
    thread 1 releases (handle 0 closed), thread 2 asks again and dials afresh. *)

Example ex_noop_release_accept :
  kaccepts ex_case = true /\
  (exists o, ex_case = firstn 6 ex_case ++ (ERelease 0%nat, o) :: skipn 7 ex_case /\
             canon o = Obs false [] [] [] [] (closed_after (firstn 6 ex_case)) 0%N) /\
  released_in (firstn 6 ex_case) 0.
Proof.
  split; [vm_compute; reflexivity|]. split.
  - eexists. split; vm_compute; reflexivity.
  - eexists. split; [vm_compute; do 5 right; left; reflexivity|vm_compute; reflexivity].
Qed.

(** the second release of thread 0 closes the connection thread 1 still holds: rejected, tag 4 *)
Definition ex_double_bad : trace :=
  firstn 6 ex_case ++ [(ERelease 0%nat, Obs false [] [] [] [] [0%nat] 0%N)].

Example ex_noop_release_reject :
  kaccepts ex_double_bad = false /\ check_case ex_double_bad = [(6%nat, 1%N); (6%nat, 4%N)] /\
  released_in (firstn 6 ex_double_bad) 0.
Proof.
  split; [vm_compute; reflexivity|]. split; [vm_compute; reflexivity|].
  eexists. split; [vm_compute; do 5 right; left; reflexivity|vm_compute; reflexivity].
Qed.

(** a release after a failed request that shows a Dial call: rejected, tag 2 *)
Definition ex_failrel_script : list event := [EReq 0 0 true; EPass 0; EDial 0 false; EFailGo 0; ERelease 0]%nat.
Definition ex_failrel : trace := combine ex_failrel_script (ktrace kinit ex_failrel_script).
Definition ex_failrel_bad : trace :=
  firstn 4 ex_failrel ++ [(ERelease 0%nat, Obs false [] [] [(0, 0)%nat] [] [] 0%N)].

Example ex_release_after_failure :
  kaccepts ex_failrel = true /\ returned_in (firstn 4 ex_failrel) 0 (OErr 2%N) /\
  kaccepts ex_failrel_bad = false /\ check_case ex_failrel_bad = [(4%nat, 1%N); (4%nat, 2%N)].
Proof.
  split; [vm_compute; reflexivity|]. split.
  - do 2 eexists. split; [vm_compute; do 3 right; left; reflexivity|vm_compute; left; reflexivity].
  - split; vm_compute; reflexivity.
Qed.

Example ex_closed_by_release_accept :
  kaccepts ex_case = true /\
  (exists o, nth_error ex_case 7 = Some (ERelease 1%nat, o) /\ In 0%nat (o_closed (canon o))) /\
  closed_after (firstn 7 ex_case) = [].
Proof.
  split; [vm_compute; reflexivity|]. split; [|vm_compute; reflexivity].
  eexists. split; [vm_compute; reflexivity|vm_compute; left; reflexivity].
Qed.

(** the connection is shown Shutdown when its Dial returns, nobody having released: rejected, tag 4 *)
Definition ex_early_close : trace :=
  firstn 4 ex_case ++ [(EDial 0%nat true, Obs false [(0, OConn 0); (1, OConn 0)]%nat [] [] [] [0%nat] 0%N)].

(** ... or is never shown closed although both holders released: rejected, tag 5 *)
Definition ex_leak : trace :=
  firstn 7 ex_case ++ [(ERelease 1%nat, Obs false [] [] [] [] [] 0%N)].

Example ex_closed_by_release_reject :
  kaccepts ex_early_close = false /\ check_case ex_early_close = [(4%nat, 1%N); (4%nat, 4%N)] /\
  kaccepts ex_leak = false /\ check_case ex_leak = [(7%nat, 1%N); (7%nat, 5%N)].
Proof. repeat split; vm_compute; reflexivity. Qed.

Example ex_fresh_dial_accept :
  kaccepts ex_case = true /\
  (exists o1 o2, ex_case = firstn 7 ex_case ++ (ERelease 1%nat, o1) :: [] ++ (EReq 2 0 true, o2)%nat :: [] /\
     In 0%nat (o_closed (canon o1)) /\ In 2%nat (o_joined (canon o2)) /\ In (2, 0)%nat (o_dials (canon o2))) /\
  dial_in (firstn 7 ex_case) 0 0 /\ ~ In 0%nat (closed_after (firstn 7 ex_case)) /\ no_req_for 0 [].
Proof.
  split; [vm_compute; reflexivity|]. split.
  - do 2 eexists. split; [vm_compute; reflexivity|].
    split; [|split]; vm_compute; left; reflexivity.
  - split; [|split; [vm_compute; tauto|intros j k o []]].
    exists (EReq 0 0 true)%nat. eexists. split; [vm_compute; left; reflexivity|vm_compute; left; reflexivity].
Qed.

(** the request after the close joins the dead entry (no Dial call): rejected, tag 2 *)
Definition ex_stale : trace :=
  firstn 8 ex_case ++ [(EReq 2 0 true, Obs false [] [2] [] [] [0] 0%N)]%nat.

Example ex_fresh_dial_reject :
  kaccepts ex_stale = false /\ check_case ex_stale = [(8%nat, 1%N); (8%nat, 2%N)].
Proof. split; vm_compute; reflexivity. Qed.

(** * Shared outcome

    Invariant of the specification machine: what a thread has returned is
    [kexpect] of its source, and [kexpect], once decided, never changes. *)

Lemma kstep_d_final ks e d a o :
  kinv ks -> k_d ks d = Some (a, o) -> (o = DOk \/ exists cls, o = DFail cls true) ->
  k_d (fst (kstep ks e)) d = Some (a, o).
Proof.
  intros K Hd Hfin.
  assert (U : forall x v, (k_d ks x = None \/ (exists a1, k_d ks x = Some (a1, DPend)) \/
                           (exists a1 cls, k_d ks x = Some (a1, DFail cls false))) ->
                          upd (k_d ks) x v d = Some (a, o)).
  { intros x v Hx. upd_cases d x; [|exact Hd]. subst x. exfalso.
    destruct Hx as [Hx|[(a1 & Hx)|(a1 & cls & Hx)]]; rewrite Hd in Hx; try discriminate;
      inversion Hx; subst; destruct Hfin as [X|(c & X)]; discriminate. }
  destruct e as [i a0 known|i|d0 ok|d0|i|i]; cbn [kstep].
  - destruct (k_thr ks i) eqn:Ei; [exact Hd|].
    pose proof (kd_none_of_fresh ks i K Ei) as Hdi.
    destruct (k_cancel ks i); [exact Hd|].
    destruct (k_as ks a0); [destruct known|..]; cbn; try exact Hd; apply U; auto.
  - destruct (k_thr ks i) as [t|]; [|exact Hd]. destruct (k_ret t); [exact Hd|].
    destruct (k_passed t); [exact Hd|].
    match goal with |- context[kwake ?x] => destruct (kwake x) as [ks2 rets] eqn:Ew end.
    cbn [fst]. destruct (kwake_rel _ _ _ Ew) as (_ & Wd & _). rewrite Wd. exact Hd.
  - destruct (k_d ks d0) as [[a1 [| |cls f]]|] eqn:Ed; try exact Hd.
    destruct ok.
    + match goal with |- context[kwake ?x] => destruct (kwake x) as [ks2 rets] eqn:Ew end.
      cbn [fst]. destruct (kwake_rel _ _ _ Ew) as (_ & Wd & _). rewrite Wd. cbn. apply U. eauto.
    + cbn. apply U. eauto.
  - destruct (k_d ks d0) as [[a1 [| |cls [|]]]|] eqn:Ed; try exact Hd.
    match goal with |- context[kwake ?x] => destruct (kwake x) as [ks2 rets] eqn:Ew end.
    cbn [fst]. destruct (kwake_rel _ _ _ Ew) as (_ & Wd & _). rewrite Wd. cbn. apply U. eauto 6.
  - destruct (k_thr ks i) as [t|]; [|exact Hd].
    destruct (k_ret t) as [[h| |cls]|]; try exact Hd. destruct (k_rel t); [exact Hd|].
    match goal with |- context[existsb ?f ?l] => destruct (existsb f l) end; cbn; exact Hd.
  - destruct (k_d ks i) as [[a1 [| |cls f]]|] eqn:Ed; cbn; try exact Hd. apply U. eauto.
Qed.

Lemma kstep_expect_stable ks e src r :
  kinv ks -> kexpect ks src = Some r -> kexpect (fst (kstep ks e)) src = Some r.
Proof.
  intros K. destruct src as [|d|h]; cbn; auto.
  destruct (k_d ks d) as [[a [| |cls [|]]]|] eqn:Ed; try discriminate; intros H.
  - rewrite (kstep_d_final ks e d a DOk K Ed); auto.
  - rewrite (kstep_d_final ks e d a (DFail cls true) K Ed); eauto.
Qed.

(** where a thread of the next state comes from *)
Definition thr_origin (ks ks' : kstate) (i : nat) : Prop :=
  forall t', k_thr ks' i = Some t' ->
  k_ret t' = None \/ k_ret t' = kexpect ks' (k_src t') \/
  (exists t, k_thr ks i = Some t /\ k_src t' = k_src t /\ k_ret t' = k_ret t).

Lemma thr_origin_refl ks i : thr_origin ks ks i.
Proof. intros t E. right. right. exists t. auto. Qed.

Lemma thr_origin_wake ks ks1 ks2 out i :
  thr_origin ks ks1 i -> k_d ks1 = k_d ks1 -> wake_rel ks1 ks2 out -> thr_origin ks ks2 i.
Proof.
  intros H1 _ (_ & Wd & _ & _ & _ & Ht & _) t2 E2. specialize (Ht i).
  destruct (k_thr ks1 i) as [t1|] eqn:E1; [|congruence].
  destruct Ht as (t' & E' & Hs & _ & Hret). assert (t' = t2) by congruence. subst t'.
  destruct Hret as [Hret|[_ Hret]].
  - destruct (H1 t1 E1) as [X|[X|(t & Et & Hst & Hrt)]].
    + left. congruence.
    + right. left. rewrite Hret, Hs, (kexpect_d ks1 ks2) by exact Wd. exact X.
    + right. right. exists t. split; [exact Et|]. split; congruence.
  - right. left. rewrite Hret, Hs. symmetry. apply kexpect_d. exact Wd.
Qed.

Lemma thr_origin_upd ks ks' i j t0 t1 :
  k_thr ks i = Some t0 -> k_thr ks' = upd (k_thr ks) i (Some t1) ->
  k_src t1 = k_src t0 -> k_ret t1 = k_ret t0 -> thr_origin ks ks' j.
Proof.
  intros E0 Hk Hs Hr t'. rewrite Hk. upd_cases j i.
  - subst j. intros E; inversion E; subst t'. right. right. exists t0. auto.
  - intros E. right. right. exists t'. auto.
Qed.

Lemma thr_origin_same ks ks' j : k_thr ks' = k_thr ks -> thr_origin ks ks' j.
Proof. intros Hk t'. rewrite Hk. intros E. right. right. exists t'. auto. Qed.

Lemma thr_origin_new ks ks' i j src ret :
  k_thr ks' = upd (k_thr ks) i (Some {| k_src := src; k_passed := false; k_ret := ret; k_rel := false |}) ->
  ret = None \/ ret = kexpect ks' src -> thr_origin ks ks' j.
Proof.
  intros Hk Hr t'. rewrite Hk. upd_cases j i.
  - intros E; inversion E; subst t'. cbn. destruct Hr; auto.
  - intros E. right. right. exists t'. auto.
Qed.

Lemma kstep_thr_origin ks e j : thr_origin ks (fst (kstep ks e)) j.
Proof.
  destruct e as [i a known|i|d ok|d|i|i]; cbn [kstep].
  - destruct (k_thr ks i) eqn:Ei; [apply thr_origin_refl|].
    destruct (k_cancel ks i); [eapply thr_origin_new; [reflexivity|right; reflexivity]|].
    destruct (k_as ks a); [destruct known|..]; cbn [fst]; (eapply thr_origin_new; [reflexivity|left; reflexivity]).
  - destruct (k_thr ks i) as [t|] eqn:Ei; [|apply thr_origin_refl].
    destruct (k_ret t) eqn:Er; [apply thr_origin_refl|].
    destruct (k_passed t); [apply thr_origin_refl|].
    match goal with |- context[kwake ?x] => destruct (kwake x) as [ks2 rets] eqn:Ew end.
    cbn [fst]. eapply thr_origin_wake; [|reflexivity|apply kwake_rel; exact Ew].
    eapply thr_origin_upd; [exact Ei|reflexivity|reflexivity|cbn; congruence].
  - destruct (k_d ks d) as [[a [| |cls f]]|]; try apply thr_origin_refl.
    destruct ok.
    + match goal with |- context[kwake ?x] => destruct (kwake x) as [ks2 rets] eqn:Ew end.
      cbn [fst]. eapply thr_origin_wake; [|reflexivity|apply kwake_rel; exact Ew].
      apply thr_origin_same. reflexivity.
    + cbn [fst]. apply thr_origin_same. reflexivity.
  - destruct (k_d ks d) as [[a [| |cls [|]]]|]; try apply thr_origin_refl.
    match goal with |- context[kwake ?x] => destruct (kwake x) as [ks2 rets] eqn:Ew end.
    cbn [fst]. eapply thr_origin_wake; [|reflexivity|apply kwake_rel; exact Ew].
    apply thr_origin_same. reflexivity.
  - destruct (k_thr ks i) as [t|] eqn:Ei; [|apply thr_origin_refl].
    destruct (k_ret t) as [[h| |cls]|] eqn:Er; try apply thr_origin_refl.
    destruct (k_rel t) eqn:Erl; [apply thr_origin_refl|].
    match goal with |- context[existsb ?f ?l] => destruct (existsb f l) end; cbn [fst];
      (eapply thr_origin_upd; [exact Ei|reflexivity|reflexivity|cbn; congruence]).
  - destruct (k_d ks i) as [[a [| |cls f]]|]; cbn [fst]; apply thr_origin_same; reflexivity.
Qed.

Definition ret_expect (ks : kstate) : Prop :=
  forall i t r, k_thr ks i = Some t -> k_ret t = Some r -> kexpect ks (k_src t) = Some r.

Lemma ret_expect_step ks e : kinv ks -> ret_expect ks -> ret_expect (fst (kstep ks e)).
Proof.
  intros K R i t' r E Hr. destruct (kstep_thr_origin ks e i t' E) as [X|[X|(t & Et & Hs & Hrt)]].
  - congruence.
  - congruence.
  - rewrite Hs. apply kstep_expect_stable; [exact K|]. apply (R i t r Et). congruence.
Qed.

Lemma kreach_ret_expect c ks : kreach c ks -> ret_expect ks.
Proof.
  induction 1 as [|c ks e o Hr IH Hacc].
  - intros i t r E. discriminate.
  - destruct (kreach_inv c ks Hr) as (K & _). now apply ret_expect_step.
Qed.

(** the state the specification machine ends in *)
Fixpoint kend (ks : kstate) (c : trace) : kstate :=
  match c with [] => ks | (e, _) :: c' => kend (fst (kstep ks e)) c' end.

Lemma kend_reach post : forall c0 ks,
  kreach c0 ks -> kaccepts_from ks post = true -> kreach (c0 ++ post) (kend ks post).
Proof.
  induction post as [|[e o] post IH]; intros c0 ks Hk Ha; cbn [kend].
  - now rewrite app_nil_r.
  - cbn [kaccepts_from] in Ha. destruct (kstep ks e) as [ks1 rk] eqn:Es.
    apply andb_true_iff in Ha. destruct Ha as [Ha1 Ha2]. cbn [fst].
    replace (c0 ++ (e, o) :: post) with ((c0 ++ [(e, o)]) ++ post) by (rewrite <- app_assoc; reflexivity).
    apply IH; [|exact Ha2].
    replace ks1 with (fst (kstep ks e)) by now rewrite Es. constructor; [exact Hk|]. now rewrite Es.
Qed.

Lemma kend_app a : forall ks b, kend ks (a ++ b) = kend (kend ks a) b.
Proof. induction a as [|[e o] a IH]; intros ks b; cbn [app kend]; [reflexivity|apply IH]. Qed.

Lemma kreach_kend c ks : kreach c ks -> ks = kend kinit c.
Proof.
  induction 1 as [|c ks e o Hr IH Hacc]; [reflexivity|].
  rewrite kend_app. cbn [kend]. now rewrite <- IH.
Qed.

Lemma kend_src post : forall ks j t,
  k_thr ks j = Some t -> exists t', k_thr (kend ks post) j = Some t' /\ k_src t' = k_src t.
Proof.
  induction post as [|[e o] post IH]; intros ks j t E; cbn [kend]; [eauto|].
  destruct (kstep_thr_mono ks e j t E) as (t1 & E1 & Hs & _).
  destruct (IH _ j t1 E1) as (t' & E' & Hs'). exists t'. split; [exact E'|congruence].
Qed.

(** thread j asked for address a and reached the join point while the Dial
    call of d to a was in flight (observed and not ended), or its own request
    is the one for which that Dial call was made *)
Definition joins (c : trace) (j d : nat) : Prop :=
  exists pre a k o post, c = pre ++ (EReq j a k, o) :: post /\ In j (o_joined (canon o)) /\
    ((dial_in pre d a /\ ~ ended_in pre d) \/ In (d, a) (o_dials (canon o))).

Lemma kobs_joined ign ks r jn dl f x : In x (o_joined (kobs ign ks r jn dl f)) <-> In x jn.
Proof. unfold kobs, canon. cbn. apply In_sort_nat. Qed.

Lemma join_src ks j a k d :
  kinv ks -> In j (o_joined (snd (kstep ks (EReq j a k)))) ->
  k_d ks d = Some (a, DPend) \/ In (d, a) (o_dials (snd (kstep ks (EReq j a k)))) ->
  exists t, k_thr (fst (kstep ks (EReq j a k))) j = Some t /\ k_src t = SDial d.
Proof.
  intros K. cbn [kstep].
  destruct (k_thr ks j); [intros H; cbn in H; contradiction|].
  destruct (k_cancel ks j); [intros H; cbn in H; contradiction|].
  assert (P : k_d ks d = Some (a, DPend) -> k_as ks a = ADialing d).
  { intros Hd. exact (kj_d_as ks K d a DPend Hd). }
  destruct (k_as ks a) as [|d0|d0|h] eqn:Ea; [destruct k|..]; cbn [fst snd]; intros _ [Hd|Hd];
    try (apply P in Hd; try discriminate);
    try (apply kobs_dials in Hd; cbn in Hd);
    try contradiction.
  - destruct Hd as [Hd|[]]. inversion Hd; subst. cbn. rewrite upd_same. eauto.
  - inversion Hd; subst d0. cbn. rewrite upd_same. eauto.
Qed.

(** In a case that K_P accepts, two requests that joined one Dial call (made
    while it was in flight, or being the one that caused it) and both returned,
    returned the same thing. *)
Theorem K_sound_share_outcome c :
  kaccepts c = true ->
  forall i j d ri rj, joins c i d -> joins c j d ->
  returned_in c i ri -> returned_in c j rj -> ri = rj.
Proof.
  intros Ha i j d ri rj Hi Hj Hri Hrj.
  assert (Hf : kreach c (kend kinit c)) by (apply (kend_reach c [] kinit kr_nil Ha)).
  assert (S : forall x, joins c x d -> exists t, k_thr (kend kinit c) x = Some t /\ k_src t = SDial d).
  { intros x (pre & a & k & o & post & Hc & Hjn & Hor).
    destruct (kaccepts_split c pre _ o post Ha Hc) as (ks & Hk & Ho & Hk1 & Hacc).
    destruct (kreach_inv pre ks Hk) as (K & _).
    rewrite Ho in Hjn, Hor.
    assert (Hor' : k_d ks d = Some (a, DPend) \/ In (d, a) (o_dials (snd (kstep ks (EReq x a k))))).
    { destruct Hor as [[Hd Hne]|Hd]; [left|right; exact Hd].
      destruct (kreach_dials pre ks Hk d a Hd) as (o1 & Hk1' & [->|He]); [exact Hk1'|contradiction]. }
    destruct (join_src ks x a k d K Hjn Hor') as (t & Et & Hs).
    assert (E : kend kinit c = kend (fst (kstep ks (EReq x a k))) post).
    { rewrite Hc, kend_app. cbn [kend]. rewrite <- (kreach_kend pre ks Hk). reflexivity. }
    rewrite E. destruct (kend_src post _ x t Et) as (t' & Et' & Hs'). exists t'. split; [exact Et'|congruence]. }
  destruct (S i Hi) as (ti & Eti & Hsi). destruct (S j Hj) as (tj & Etj & Hsj).
  destruct (kreach_inv c _ Hf) as (_ & J1 & _).
  destruct (J1 i ri Hri) as (ti' & Eti' & Hreti). destruct (J1 j rj Hrj) as (tj' & Etj' & Hretj).
  assert (ti' = ti) by congruence. assert (tj' = tj) by congruence. subst ti' tj'.
  pose proof (kreach_ret_expect c _ Hf i ti ri Eti Hreti) as X1.
  pose proof (kreach_ret_expect c _ Hf j tj rj Etj Hretj) as X2.
  rewrite Hsi in X1. rewrite Hsj in X2. congruence.
Qed.

Example ex_share_outcome_accept :
  kaccepts ex_case = true /\ joins ex_case 0 0 /\ joins ex_case 1 0 /\
  returned_in ex_case 0 (OConn 0) /\ returned_in ex_case 1 (OConn 0).
Proof.
  split; [vm_compute; reflexivity|]. split; [|split; [|split]].
  - exists [], 0%nat, true. eexists. exists (skipn 1 ex_case).
    split; [vm_compute; reflexivity|]. split; [vm_compute; left; reflexivity|].
    right. vm_compute. left. reflexivity.
  - exists (firstn 1 ex_case), 0%nat, true. eexists. exists (skipn 2 ex_case).
    split; [vm_compute; reflexivity|]. split; [vm_compute; left; reflexivity|]. left. split.
    + exists (EReq 0 0 true)%nat. eexists. split; [vm_compute; left; reflexivity|vm_compute; left; reflexivity].
    + intros (e & o & [E|[]] & _ & [H|[H|H]]); rewrite H in E; vm_compute in E; discriminate.
  - exists (EDial 0 true)%nat. eexists. split; [vm_compute; do 4 right; left; reflexivity|vm_compute; left; reflexivity].
  - exists (EDial 0 true)%nat. eexists. split; [vm_compute; do 4 right; left; reflexivity|vm_compute; right; left; reflexivity].
Qed.

(** the joiner gets nil where the creator gets the connection: rejected, tag 3 *)
Definition ex_unshared : trace :=
  firstn 4 ex_case ++ [(EDial 0%nat true, Obs false [(0, OConn 0); (1, ONil)]%nat [] [] [] [] 0%N)].

Example ex_share_outcome_reject :
  kaccepts ex_unshared = false /\ check_case ex_unshared = [(4%nat, 1%N); (4%nat, 3%N)] /\
  joins ex_unshared 0 0 /\ returned_in ex_unshared 0 (OConn 0) /\ returned_in ex_unshared 1 ONil.
Proof.
  split; [vm_compute; reflexivity|]. split; [vm_compute; reflexivity|]. split; [|split].
  - exists [], 0%nat, true. eexists. exists (skipn 1 ex_unshared).
    split; [vm_compute; reflexivity|]. split; [vm_compute; left; reflexivity|].
    right. vm_compute. left. reflexivity.
  - exists (EDial 0 true)%nat. eexists. split; [vm_compute; do 4 right; left; reflexivity|vm_compute; left; reflexivity].
  - exists (EDial 0 true)%nat. eexists. split; [vm_compute; do 4 right; left; reflexivity|vm_compute; right; left; reflexivity].
Qed.

(** * Closed at the last release (no leak) *)

(** thread j asked for address a and reached the join point *)
Definition asked (c : trace) (j a : nat) : Prop :=
  exists k o, In (EReq j a k, o) c /\ In j (o_joined (canon o)).

(** thread j may hold, or come to hold, the connection made by Dial call h:
    it asked for the address h was dialled for and reached the join point
    (whether it has returned yet or not) *)
Definition entitled (c : trace) (j h : nat) : Prop := exists a, dial_in c h a /\ asked c j a.

Lemma wake_none ks1 ks2 out j : wake_rel ks1 ks2 out -> k_thr ks1 j = None -> k_thr ks2 j = None.
Proof. intros (_ & _ & _ & _ & _ & Ht & _) E. specialize (Ht j). now rewrite E in Ht. Qed.

Lemma kstep_thr_dom ks e j :
  k_thr ks j = None -> (forall a k, e <> EReq j a k) -> k_thr (fst (kstep ks e)) j = None.
Proof.
  intros E Hne.
  assert (U : forall i v, i <> j -> upd (k_thr ks) i v j = None).
  { intros i v Hn. upd_cases j i; [congruence|exact E]. }
  destruct e as [i a known|i|d ok|d|i|i]; cbn [kstep].
  - destruct (k_thr ks i) eqn:Ei; [exact E|].
    assert (i <> j) by (intros ->; exact (Hne a known eq_refl)).
    destruct (k_cancel ks i); [cbn; now apply U|].
    destruct (k_as ks a); [destruct known|..]; cbn; now apply U.
  - destruct (k_thr ks i) as [t|] eqn:Ei; [|exact E]. destruct (k_ret t); [exact E|].
    destruct (k_passed t); [exact E|].
    match goal with |- context[kwake ?x] => destruct (kwake x) as [ks2 rets] eqn:Ew end.
    cbn [fst]. apply (wake_none _ _ _ j (kwake_rel _ _ _ Ew)). cbn. apply U. congruence.
  - destruct (k_d ks d) as [[a [| |cls f]]|]; try exact E. destruct ok; [|exact E].
    match goal with |- context[kwake ?x] => destruct (kwake x) as [ks2 rets] eqn:Ew end.
    cbn [fst]. apply (wake_none _ _ _ j (kwake_rel _ _ _ Ew)). exact E.
  - destruct (k_d ks d) as [[a [| |cls [|]]]|]; try exact E.
    match goal with |- context[kwake ?x] => destruct (kwake x) as [ks2 rets] eqn:Ew end.
    cbn [fst]. apply (wake_none _ _ _ j (kwake_rel _ _ _ Ew)). exact E.
  - destruct (k_thr ks i) as [t|] eqn:Ei; [|exact E].
    destruct (k_ret t) as [[h| |cls]|]; try exact E. destruct (k_rel t); [exact E|].
    match goal with |- context[existsb ?f ?l] => destruct (existsb f l) end; cbn; apply U; congruence.
  - destruct (k_d ks i) as [[a [| |cls f]]|]; cbn; exact E.
Qed.

(** a new thread whose source is a dial: it reached the join point, and the
    dial is one for the address it asked for *)
Lemma req_new ks j a k t' d :
  kinv ks -> k_thr ks j = None -> k_thr (fst (kstep ks (EReq j a k))) j = Some t' ->
  k_src t' = SDial d \/ k_src t' = SConn d ->
  In j (o_joined (snd (kstep ks (EReq j a k)))) /\ exists o, k_d (fst (kstep ks (EReq j a k))) d = Some (a, o).
Proof.
  intros K E. cbn [kstep]. rewrite E.
  assert (J : forall ks' r dl f, In j (o_joined (kobs false ks' r [j] dl f))).
  { intros. apply kobs_joined. left. reflexivity. }
  destruct (k_cancel ks j).
  { cbn. rewrite upd_same. intros X; inversion X; subst t'. cbn. intros [H|H]; discriminate. }
  destruct (k_as ks a) as [|d0|d0|h] eqn:Ea; [destruct k|..]; cbn [fst snd]; cbn [k_thr kset_thr kset_d kset_as kset_ids];
    rewrite upd_same; intros X; inversion X; subst t'; cbn [k_src]; intros [H|H]; try discriminate;
    inversion H; subst; (split; [apply J|]); cbn [k_d kset_d kset_as kset_thr kset_ids].
  - rewrite upd_same. eauto.
  - rewrite upd_same. eauto.
  - rewrite (kj_dialing ks K a d Ea). eauto.
  - destruct (kj_failing ks K a d Ea) as (cls & ->). eauto.
  - destruct (kj_live ks K a d Ea) as (_ & ->). eauto.
Qed.

(** a dial that is pending or established was pending before, or its Dial
    call is observed in this step *)
Lemma kstep_d_back ks e d a o :
  k_d (fst (kstep ks e)) d = Some (a, o) -> o = DPend \/ o = DOk ->
  (exists o0, k_d ks d = Some (a, o0) /\ (o0 = DPend \/ o0 = DOk)) \/
  In (d, a) (o_dials (snd (kstep ks e))).
Proof.
  intros H Ho.
  assert (Same : k_d ks d = Some (a, o) ->
                 (exists o0, k_d ks d = Some (a, o0) /\ (o0 = DPend \/ o0 = DOk)) \/
                 In (d, a) (o_dials (snd (kstep ks e)))) by (intros X; left; eauto).
  revert H. destruct e as [i a0 known|i|d0 ok|d0|i|i]; cbn [kstep] in *.
  - destruct (k_thr ks i) eqn:Ei; [exact Same|]. destruct (k_cancel ks i); [exact Same|].
    destruct (k_as ks a0); [destruct known|..]; cbn [fst snd]; cbn [k_d kset_d kset_as kset_thr kset_ids];
      try exact Same.
    + upd_cases d i; [|intros X; left; eauto]. intros X; inversion X; subst. right.
      apply kobs_dials. left. reflexivity.
    + upd_cases d i; [|intros X; left; eauto]. intros X; inversion X; subst. destruct Ho; discriminate.
  - destruct (k_thr ks i) as [t|]; [|exact Same]. destruct (k_ret t); [exact Same|].
    destruct (k_passed t); [exact Same|].
    match goal with |- context[kwake ?x] => destruct (kwake x) as [ks2 rets] eqn:Ew end.
    cbn [fst snd]. destruct (kwake_rel _ _ _ Ew) as (_ & Wd & _). rewrite Wd. cbn. intros X; left; eauto.
  - destruct (k_d ks d0) as [[a1 [| |cls f]]|] eqn:Ed; try exact Same.
    destruct ok.
    + match goal with |- context[kwake ?x] => destruct (kwake x) as [ks2 rets] eqn:Ew end.
      cbn [fst snd]. destruct (kwake_rel _ _ _ Ew) as (_ & Wd & _). rewrite Wd. cbn.
      upd_cases d d0; [|intros X; left; eauto]. subst d0. intros X; inversion X; subst. left. eauto.
    + cbn. upd_cases d d0; [|intros X; left; eauto]. intros X; inversion X; subst. destruct Ho; discriminate.
  - destruct (k_d ks d0) as [[a1 [| |cls [|]]]|] eqn:Ed; try exact Same.
    match goal with |- context[kwake ?x] => destruct (kwake x) as [ks2 rets] eqn:Ew end.
    cbn [fst snd]. destruct (kwake_rel _ _ _ Ew) as (_ & Wd & _). rewrite Wd. cbn.
    upd_cases d d0; [|intros X; left; eauto]. intros X; inversion X; subst. destruct Ho; discriminate.
  - destruct (k_thr ks i) as [t|]; [|exact Same].
    destruct (k_ret t) as [[h| |cls]|]; try exact Same. destruct (k_rel t); [exact Same|].
    match goal with |- context[existsb ?f ?l] => destruct (existsb f l) end; cbn; intros X; left; eauto.
  - destruct (k_d ks i) as [[a1 [| |cls f]]|] eqn:Ed; cbn; try (intros X; left; eauto; fail).
    upd_cases d i; [|intros X; left; eauto]. intros X; inversion X; subst. destruct Ho; discriminate.
Qed.

Lemma dial_in_snoc c x d a : dial_in c d a -> dial_in (c ++ [x]) d a.
Proof. intros (e & o & Hin & H). exists e, o. split; [apply in_app_iff; auto|exact H]. Qed.

Lemma asked_snoc c x j a : asked c j a -> asked (c ++ [x]) j a.
Proof. intros (k & o & Hin & H). exists k, o. split; [apply in_app_iff; auto|exact H]. Qed.

Lemma kreach_inv3 c ks :
  kreach c ks ->
  (forall d a o, k_d ks d = Some (a, o) -> o = DPend \/ o = DOk -> dial_in c d a) /\
  (forall j t d, k_thr ks j = Some t -> k_src t = SDial d \/ k_src t = SConn d ->
     exists a o, k_d ks d = Some (a, o) /\ asked c j a).
Proof.
  induction 1 as [|c ks e o Hr (Jd & Je) Hacc].
  - split; intros; discriminate.
  - destruct (kreach_inv c ks Hr) as (K & _). apply obs_eqb_eq in Hacc. split.
    + intros d a o1 Hd Ho1. destruct (kstep_d_back ks e d a o1 Hd Ho1) as [(o0 & Hd0 & Ho0)|Hin].
      * apply dial_in_snoc. eapply Jd; eauto.
      * exists e, o. split; [apply in_app_iff; right; left; reflexivity|]. now rewrite Hacc.
    + intros j t' d Et' Hs. destruct (k_thr ks j) as [t|] eqn:Et.
      * destruct (kstep_thr_mono ks e j t Et) as (t2 & Et2 & Hs2 & _).
        assert (t2 = t') by congruence. subst t2. rewrite Hs2 in Hs.
        destruct (Je j t d Et Hs) as (a & o0 & Hd0 & Hask).
        destruct (kstep_d_mono ks e d a o0 K Hd0) as (o' & Hd' & _).
        exists a, o'. split; [exact Hd'|now apply asked_snoc].
      * destruct e as [i a k| | | | | ];
          try (rewrite kstep_thr_dom in Et' by (auto; intros; discriminate); discriminate).
        destruct (Nat.eq_dec i j) as [->|Hn];
          [|rewrite kstep_thr_dom in Et' by (auto; intros ? ? X; inversion X; congruence); discriminate].
        destruct (req_new ks j a k t' d K Et Et' Hs) as (Hjn & o1 & Hd1).
        exists a, o1. split; [exact Hd1|]. exists k, o.
        split; [apply in_app_iff; right; left; reflexivity|]. now rewrite Hacc.
Qed.

Lemma khandle_expect ks src h : khandle ks src = Some h -> kexpect ks src = Some (OConn h).
Proof.
  destruct src as [|d|h']; cbn; try discriminate; [|congruence].
  destruct (k_d ks d) as [[a [| |cls f]]|]; try discriminate. congruence.
Qed.

Lemma kstep_release_closes ks i t h :
  k_thr ks i = Some t -> k_ret t = Some (OConn h) -> k_rel t = false ->
  (forall j, j <> i -> kholds ks h j = false) ->
  In h (k_closed (fst (kstep ks (ERelease i)))).
Proof.
  intros E Hr Hrl Hn. cbn [kstep]. rewrite E, Hr, Hrl.
  match goal with |- context[existsb ?f ?l] => destruct (existsb f l) eqn:Ex end; [exfalso|cbn; left; reflexivity].
  apply existsb_exists in Ex. destruct Ex as (j & _ & Hj).
  unfold kholds in Hj. cbn [k_thr kset_thr] in Hj. revert Hj. upd_cases j i.
  - cbn. discriminate.
  - intros Hj. specialize (Hn j n). unfold kholds in Hn.
    destruct (k_thr ks j) as [tj|]; [|discriminate].
    rewrite (khandle_d ks) in Hj by reflexivity.
    congruence.
Qed.

(** In a case that K_P accepts: when a thread that was handed handle h
    releases it for the first time and every other thread entitled to h
    (it asked for h's address and reached the join point -- returned or not)
    already has an applied release, then h is shown closed after that very
    release: no connection is left open by its last holder. *)
Theorem K_sound_closed_at_last_release c :
  kaccepts c = true ->
  forall pre i o post h, c = pre ++ (ERelease i, o) :: post ->
  returned_in pre i (OConn h) -> ~ released_in pre i ->
  (forall j, entitled pre j h -> j = i \/ released_in pre j) ->
  In h (o_closed (canon o)).
Proof.
  intros Ha pre i o post h Hc Hret Hnrel Hall.
  destruct (kaccepts_split c pre _ o post Ha Hc) as (ks & Hk & Ho & _).
  destruct (kreach_inv pre ks Hk) as (K & J1 & J2).
  destruct (kreach_inv2 pre ks Hk) as (_ & Jr).
  destruct (kreach_inv3 pre ks Hk) as (Jd & Je).
  pose proof (kreach_ret_expect pre ks Hk) as RE.
  destruct (J1 i _ Hret) as (t & Et & Hrt).
  assert (Hrl : k_rel t = false).
  { destruct (k_rel t) eqn:X; [|reflexivity]. exfalso. apply Hnrel. exact (J2 i t Et X). }
  rewrite Ho, kstep_obs_closed. apply (proj2 (In_closed_canon _ _)).
  apply (kstep_release_closes ks i t h Et Hrt Hrl).
  intros j Hji. destruct (kholds ks h j) eqn:Hh; [exfalso|reflexivity].
  unfold kholds in Hh. destruct (k_thr ks j) as [tj|] eqn:Etj; [|discriminate].
  apply andb_true_iff in Hh. destruct Hh as [Hnr Hkh].
  destruct (khandle ks (k_src tj)) as [h'|] eqn:Ekh; [|discriminate].
  apply Nat.eqb_eq in Hkh. subst h'.
  assert (Hsrc : k_src tj = SDial h \/ k_src tj = SConn h).
  { destruct (k_src tj) as [|d|h']; cbn in Ekh; try discriminate.
    - destruct (k_d ks d) as [[a [| |cls f]]|]; try discriminate. left. congruence.
    - right. congruence. }
  destruct (Je j tj h Etj Hsrc) as (a & o0 & Hd0 & Hask).
  assert (Hok : o0 = DOk).
  { destruct Hsrc as [Hs|Hs]; rewrite Hs in Ekh; cbn in Ekh.
    - rewrite Hd0 in Ekh. destruct o0; try discriminate. reflexivity.
    - destruct (kj_sconn ks K j tj h Etj Hs) as (a' & Hd'). congruence. }
  assert (Hent : entitled pre j h).
  { exists a. split; [|exact Hask]. apply (Jd h a o0 Hd0). right. exact Hok. }
  destruct (Hall j Hent) as [->|Hrelj]; [congruence|].
  destruct (Jr j Hrelj) as (tj' & r & Etj' & Hr' & Hor).
  assert (tj' = tj) by congruence. subst tj'.
  destruct Hor as [X|X].
  - rewrite X in Hnr. discriminate.
  - pose proof (RE j tj r Etj Hr') as Y. rewrite (khandle_expect ks _ h Ekh) in Y.
    apply (X h). congruence.
Qed.

Example ex_last_release_accept :
  kaccepts ex_case = true /\
  (exists o, ex_case = firstn 7 ex_case ++ (ERelease 1%nat, o) :: skipn 8 ex_case /\ In 0%nat (o_closed (canon o))) /\
  returned_in (firstn 7 ex_case) 1 (OConn 0) /\ ~ released_in (firstn 7 ex_case) 1 /\
  (forall j, entitled (firstn 7 ex_case) j 0 -> j = 1%nat \/ released_in (firstn 7 ex_case) j).
Proof.
  split; [vm_compute; reflexivity|]. split; [|split; [|split]].
  - eexists. split; [vm_compute; reflexivity|vm_compute; left; reflexivity].
  - exists (EDial 0 true)%nat. eexists. split; [vm_compute; do 4 right; left; reflexivity|vm_compute; right; left; reflexivity].
  - intros (o & Hin & _). vm_compute in Hin.
    repeat (destruct Hin as [E|Hin]; [discriminate E|]). destruct Hin.
  - intros j (a & _ & k & o & Hin & _). vm_compute in Hin.
    repeat (destruct Hin as [E|Hin]; [try discriminate E; inversion E; subst|]); try destruct Hin.
    + right. eexists. split; [vm_compute; do 5 right; left; reflexivity|vm_compute; reflexivity].
    + left. reflexivity.
Qed.

(** both holders released and the connection is still open ([ex_leak]): rejected, tag 5 *)
Example ex_last_release_reject :
  kaccepts ex_leak = false /\ check_case ex_leak = [(7%nat, 1%N); (7%nat, 5%N)] /\
  returned_in (firstn 7 ex_leak) 1 (OConn 0) /\
  (exists o, nth_error ex_leak 7 = Some (ERelease 1%nat, o) /\ ~ In 0%nat (o_closed (canon o))).
Proof.
  split; [vm_compute; reflexivity|]. split; [vm_compute; reflexivity|]. split.
  - exists (EDial 0 true)%nat. eexists. split; [vm_compute; do 4 right; left; reflexivity|vm_compute; right; left; reflexivity].
  - eexists. split; [vm_compute; reflexivity|vm_compute; tauto].
Qed.

(** Liveness of the connection manager under fairness (C16).

    Runs are infinite sequences of states with an optional label per step
    ([None]: nobody moves; a finite maximal trace is a run that stutters for
    ever).  A thread is weakly fair in a run if, from every point on, it
    eventually takes one of its steps or none of them is enabled.

    Threads of the LTS of ConnLts.v and the labels they own:
      requester i        [LPass i], [LWait i]      (inside Connection)
      dialer of object c [LSpawn c], [LFailLock c], [LFailReady c]
      releasing caller   [LRelease i]              (inside the done function, past the Once)
    The return of the Dial function ([LDialRet c _], [LDialCtx c]) belongs to
    the environment: "every started dial eventually completes or its context
    is cancelled" is a hypothesis, not fairness.  Requests ([LReq]), the entry
    into a done function ([LRelBegin]) and cancellations are free decisions of
    the users of the manager.

    Proved here, over all such runs from the initial state, without axioms:
      - [request_returns]: a request that joined attempt c returns, with the
        outcome of c, if it, the dialer of c are fair and the Dial of c
        completes; [joiners_return_shared]: two such requests return the same;
      - [release_completes]: a done function that was entered runs to its end;
        if it was the last holder the handle is closed and the entry deleted;
        [fresh_request_dials]: the dialer of a fresh entry invokes Dial;
      - [request_returns_refuted_dead_entry]: the same statement is false for
        the mechanism of seeded change C16/seed_va (an unknown-dialer request
        leaves its entry behind, without a dialer goroutine). *)
From Coq Require Import List Bool ZArith NArith Lia Arith.
From Gnmi Require Import Conn.ConnLts Conn.ConnProofs.
Import ListNotations.
Open Scope nat_scope.

(** * Runs and fairness, generic in the step function *)
Section Runs.
Variable stp : state -> label -> option state.

Definition is_run (rn : nat -> state) (lab : nat -> option label) : Prop :=
  forall k, match lab k with
            | Some l => stp (rn k) l = Some (rn (S k))
            | None => rn (S k) = rn k
            end.

Definition taken (lab : nat -> option label) (P : label -> Prop) (k : nat) : Prop :=
  exists l, lab k = Some l /\ P l.

Definition can (P : label -> Prop) (s : state) : Prop := exists l, P l /\ stp s l <> None.

Definition wfair (rn : nat -> state) (lab : nat -> option label) (P : label -> Prop) : Prop :=
  forall k, exists j, k <= j /\ (taken lab P j \/ ~ can P (rn j)).
End Runs.

Definition req_label (i : nat) (l : label) : Prop := l = LPass i \/ l = LWait i.
Definition dial_label (c : nat) (l : label) : Prop := l = LSpawn c \/ l = LFailLock c \/ l = LFailReady c.
Definition dialret_label (c : nat) (l : label) : Prop := (exists ok, l = LDialRet c ok) \/ l = LDialCtx c.
Definition rel_label (i : nat) (l : label) : Prop := l = LRelease i.

Lemma label_eq_dec (a b : label) : {a = b} + {a <> b}.
Proof. decide equality; try apply Nat.eq_dec; apply bool_dec. Qed.

Lemma req_label_dec i l : {req_label i l} + {~ req_label i l}.
Proof.
  unfold req_label. destruct (label_eq_dec l (LPass i)); [left; auto|].
  destruct (label_eq_dec l (LWait i)); [left; auto|right; tauto].
Qed.

Lemma dial_label_dec c l : {dial_label c l} + {~ dial_label c l}.
Proof.
  unfold dial_label. destruct (label_eq_dec l (LSpawn c)); [left; auto|].
  destruct (label_eq_dec l (LFailLock c)); [left; auto|].
  destruct (label_eq_dec l (LFailReady c)); [left; auto|right; tauto].
Qed.

Lemma rel_label_dec i l : {rel_label i l} + {~ rel_label i l}.
Proof. unfold rel_label. apply label_eq_dec. Qed.

(** * One-step case analysis: what a step does to one object, to one thread *)

Definition ds_rank (d : dstate) : nat :=
  match d with DStart => 4 | DInDial => 3 | DFailing _ => 2 | DClosing => 1 | DDone => 0 end.

Definition same_obj (o o' : conn) : Prop :=
  c_addr o' = c_addr o /\ c_ds o' = c_ds o /\ c_ready o' = c_ready o /\ c_err o' = c_err o /\
  c_cc o' = c_cc o /\ c_known o' = c_known o.

Inductive obj_move (c : nat) (l : label) (o o' : conn) : Prop :=
| OM_same : same_obj o o' -> ~ dial_label c l -> ~ dialret_label c l -> obj_move c l o o'
| OM_prog : dial_label c l \/ dialret_label c l -> (dialret_label c l -> c_ds o = DInDial) ->
            ds_rank (c_ds o') < ds_rank (c_ds o) -> c_addr o' = c_addr o -> c_known o' = c_known o ->
            (l = LSpawn c -> c_known o = true -> c_ds o' = DInDial) ->
            obj_move c l o o'.

Lemma objs_remove s a : objs (remove s a) = objs s.
Proof.
  unfold remove. destruct (conns s a) as [c|]; [|reflexivity].
  destruct (objs s c) as [o|]; [|reflexivity]. destruct (c_cc o); reflexivity.
Qed.

Lemma same_obj_refl o : same_obj o o.
Proof. repeat split. Qed.

Ltac notlab :=
  unfold dial_label, dialret_label;
  let H := fresh "H" in
  intros H; decompose [or ex] H; congruence.

Lemma step_obj s l s' c o :
  step s l = Some s' -> panicked s' = false -> objs s c = Some o ->
  exists o', objs s' c = Some o' /\ obj_move c l o o'.
Proof.
  intros H Hnp Hc. unfold step in H. destruct (panicked s); [discriminate|].
  destruct l as [i a k|c0|c0 ok|c0|c0|c0|i|i|i|i|i].
  - (* LReq *)
    destruct (thr s i); [discriminate|]. destruct (objs s i) eqn:Ei; [discriminate|].
    assert (Hne : c <> i) by congruence.
    destruct (cancelled s i).
    + inversion H; subst s'; cbn. exists o. split; [exact Hc|]. apply OM_same; [apply same_obj_refl|notlab|notlab].
    + destruct (conns s a) as [cid|].
      * destruct (objs s cid) as [o1|] eqn:E1; [|discriminate]. inversion H; subst s'; cbn.
        unfold upd. destruct (Nat.eqb_spec c cid) as [->|Hn].
        -- assert (o1 = o) by congruence; subst o1. eexists. split; [reflexivity|].
           apply OM_same; [repeat split|notlab|notlab].
        -- exists o. split; [exact Hc|]. apply OM_same; [apply same_obj_refl|notlab|notlab].
      * inversion H; subst s'; cbn. unfold upd. destruct (Nat.eqb_spec c i); [contradiction|].
        exists o. split; [exact Hc|]. apply OM_same; [apply same_obj_refl|notlab|notlab].
  - (* LSpawn *)
    destruct (objs s c0) as [o1|] eqn:E1; [|discriminate]. destruct (c_ds o1) eqn:Ed; try discriminate.
    destruct (c_known o1) eqn:Ek; inversion H; subst s'; cbn; unfold upd;
      (destruct (Nat.eqb_spec c c0) as [->|Hn];
       [assert (o1 = o) by congruence; subst o1; eexists; split; [reflexivity|];
        apply OM_prog; cbn; try rewrite Ed; cbn; auto; try (left; left; reflexivity); try notlab; try congruence; try lia
       |exists o; split; [exact Hc|]; apply OM_same; [apply same_obj_refl|notlab|notlab]]).
  - (* LDialRet *)
    destruct (objs s c0) as [o1|] eqn:E1; [|discriminate]. destruct (c_ds o1) eqn:Ed; try discriminate.
    destruct ok; inversion H; subst s'; cbn; unfold upd;
      (destruct (Nat.eqb_spec c c0) as [->|Hn];
       [assert (o1 = o) by congruence; subst o1; eexists; split; [reflexivity|];
        apply OM_prog; cbn; try rewrite Ed; cbn; auto; try (right; left; eexists; reflexivity); try discriminate; try lia
       |exists o; split; [exact Hc|]; apply OM_same; [apply same_obj_refl|notlab|notlab]]).
  - (* LDialCtx *)
    destruct (objs s c0) as [o1|] eqn:E1; [|discriminate]. destruct (c_ds o1) eqn:Ed; try discriminate.
    destruct (cancelled s c0); inversion H; subst s'; cbn; unfold upd.
    destruct (Nat.eqb_spec c c0) as [->|Hn].
    + assert (o1 = o) by congruence; subst o1. eexists. split; [reflexivity|].
      apply OM_prog; cbn; try rewrite Ed; cbn; auto; try (right; right; reflexivity); try discriminate; lia.
    + exists o. split; [exact Hc|]. apply OM_same; [apply same_obj_refl|notlab|notlab].
  - (* LFailLock *)
    destruct (objs s c0) as [o1|] eqn:E1; [|discriminate]. destruct (c_ds o1) eqn:Ed; try discriminate.
    destruct (panicked (remove s (c_addr o1))) eqn:Ep; inversion H; subst s'; [congruence|].
    cbn. rewrite objs_remove. unfold upd. destruct (Nat.eqb_spec c c0) as [->|Hn].
    + assert (o1 = o) by congruence; subst o1. eexists. split; [reflexivity|].
      apply OM_prog; cbn; try rewrite Ed; cbn; auto; try (left; right; left; reflexivity); try notlab; try discriminate; lia.
    + exists o. split; [exact Hc|]. apply OM_same; [apply same_obj_refl|notlab|notlab].
  - (* LFailReady *)
    destruct (objs s c0) as [o1|] eqn:E1; [|discriminate]. destruct (c_ds o1) eqn:Ed; try discriminate.
    inversion H; subst s'; cbn; unfold upd. destruct (Nat.eqb_spec c c0) as [->|Hn].
    + assert (o1 = o) by congruence; subst o1. eexists. split; [reflexivity|].
      apply OM_prog; cbn; try rewrite Ed; cbn; auto; try (left; right; right; reflexivity); try notlab; try discriminate; lia.
    + exists o. split; [exact Hc|]. apply OM_same; [apply same_obj_refl|notlab|notlab].
  - (* LPass *)
    destruct (thr s i) as [t|]; [|discriminate]. destruct (t_pc t); try discriminate.
    inversion H; subst s'; cbn. exists o. split; [exact Hc|]. apply OM_same; [apply same_obj_refl|notlab|notlab].
  - (* LWait *)
    destruct (thr s i) as [t|]; [|discriminate]. destruct (t_pc t); try discriminate.
    destruct (t_obj t) as [c1|]; [|discriminate]. destruct (objs s c1) as [o1|]; [|discriminate].
    destruct (c_ready o1); [|discriminate].
    destruct (c_err o1); inversion H; subst s'; cbn; exists o; (split; [exact Hc|]);
      (apply OM_same; [apply same_obj_refl|notlab|notlab]).
  - (* LRelBegin *)
    destruct (thr s i) as [t|]; [|discriminate]. destruct (t_pc t) as [| |[e|h]]; try discriminate.
    + inversion H; subst s'. exists o. split; [exact Hc|]. apply OM_same; [apply same_obj_refl|notlab|notlab].
    + destruct (t_obj t); [|discriminate].
      destruct (t_once t || t_run t); inversion H; subst s'; cbn; exists o; (split; [exact Hc|]);
        (apply OM_same; [apply same_obj_refl|notlab|notlab]).
  - (* LRelease *)
    destruct (thr s i) as [t|]; [|discriminate]. destruct (t_pc t) as [| |[e|h]]; try discriminate.
    + inversion H; subst s'. exists o. split; [exact Hc|]. apply OM_same; [apply same_obj_refl|notlab|notlab].
    + destruct (t_obj t) as [c1|]; [|discriminate].
      destruct (t_once t); [inversion H; subst s'; exists o; split; [exact Hc|]; apply OM_same; [apply same_obj_refl|notlab|notlab]|].
      destruct (negb (t_run t)); [discriminate|].
      destruct (objs s c1) as [o1|] eqn:E1; [|discriminate].
      assert (G : exists o', upd (objs s) c1 (Some (with_ref o1 (c_ref o1 - 1)%Z)) c = Some o' /\ obj_move c (LRelease i) o o').
      { unfold upd. destruct (Nat.eqb_spec c c1) as [->|Hn].
        - assert (o1 = o) by congruence; subst o1. eexists. split; [reflexivity|].
          apply OM_same; [repeat split|notlab|notlab].
        - exists o. split; [exact Hc|]. apply OM_same; [apply same_obj_refl|notlab|notlab]. }
      destruct (Z.leb _ 0); inversion H; subst s'; try rewrite objs_remove; cbn; exact G.
  - (* LCancel *)
    inversion H; subst s'; cbn. exists o. split; [exact Hc|]. apply OM_same; [apply same_obj_refl|notlab|notlab].
Qed.

Inductive thr_move (i : nat) (l : label) (t t' : thread) : Prop :=
| TM_same : t_pc t' = t_pc t -> t_obj t' = t_obj t -> t_addr t' = t_addr t -> ~ req_label i l ->
            (l <> LRelease i -> t_once t' = t_once t) -> (t_run t = true -> t_run t' = true) ->
            thr_move i l t t'
| TM_pass : l = LPass i -> t_pc t = PJoined -> t_pc t' = PWaiting -> t_obj t' = t_obj t -> thr_move i l t t'
| TM_wait : l = LWait i -> t_pc t = PWaiting -> (exists r, t_pc t' = PRet r) -> t_obj t' = t_obj t ->
            thr_move i l t t'.

Ltac notreq := unfold req_label; let H := fresh "H" in intros H; decompose [or] H; congruence.

Lemma step_thr s l s' i t :
  step s l = Some s' -> thr s i = Some t -> exists t', thr s' i = Some t' /\ thr_move i l t t'.
Proof.
  intros H Ht. unfold step in H. destruct (panicked s); [discriminate|].
  assert (Same : forall s1, thr s1 = thr s -> ~ req_label i l -> l <> LRelease i ->
                 exists t', thr s1 i = Some t' /\ thr_move i l t t').
  { intros s1 E Hn Hr. exists t. rewrite E. split; [exact Ht|]. apply TM_same; auto. }
  destruct l as [i0 a k|c0|c0 ok|c0|c0|c0|i0|i0|i0|i0|i0].
  - destruct (thr s i0) eqn:Ei0; [discriminate|]. destruct (objs s i0); [discriminate|].
    assert (Hne : i <> i0) by congruence.
    assert (G : forall s1 t0, thr s1 = upd (thr s) i0 (Some t0) -> exists t', thr s1 i = Some t' /\ thr_move i (LReq i0 a k) t t').
    { intros s1 t0 E. exists t. rewrite E. unfold upd. destruct (Nat.eqb_spec i i0); [contradiction|].
      split; [exact Ht|]. apply TM_same; auto; try notreq; try congruence. }
    destruct (cancelled s i0); [inversion H; subst s'; eapply G; reflexivity|].
    destruct (conns s a) as [cid|].
    + destruct (objs s cid); [|discriminate]. inversion H; subst s'; eapply G; reflexivity.
    + inversion H; subst s'; eapply G; reflexivity.
  - destruct (objs s c0) as [o1|]; [|discriminate]. destruct (c_ds o1); try discriminate.
    destruct (c_known o1); inversion H; subst s'; apply Same; try reflexivity; try notreq; congruence.
  - destruct (objs s c0) as [o1|]; [|discriminate]. destruct (c_ds o1); try discriminate.
    destruct ok; inversion H; subst s'; apply Same; try reflexivity; try notreq; congruence.
  - destruct (objs s c0) as [o1|]; [|discriminate]. destruct (c_ds o1); try discriminate.
    destruct (cancelled s c0); inversion H; subst s'; apply Same; try reflexivity; try notreq; congruence.
  - destruct (objs s c0) as [o1|]; [|discriminate]. destruct (c_ds o1); try discriminate.
    destruct (panicked (remove s (c_addr o1))); inversion H; subst s'; apply Same; cbn; try rewrite thr_remove;
      try reflexivity; try notreq; congruence.
  - destruct (objs s c0) as [o1|]; [|discriminate]. destruct (c_ds o1); try discriminate.
    inversion H; subst s'; apply Same; try reflexivity; try notreq; congruence.
  - destruct (thr s i0) as [t0|] eqn:E0; [|discriminate]. destruct (t_pc t0) eqn:Ep; try discriminate.
    inversion H; subst s'; cbn. unfold upd. destruct (Nat.eqb_spec i i0) as [->|Hn].
    + assert (t0 = t) by congruence; subst t0. eexists. split; [reflexivity|]. apply TM_pass; auto.
    + exists t. split; [exact Ht|]. apply TM_same; auto; try notreq; try congruence.
  - destruct (thr s i0) as [t0|] eqn:E0; [|discriminate]. destruct (t_pc t0) eqn:Ep; try discriminate.
    destruct (t_obj t0) as [c1|]; [|discriminate]. destruct (objs s c1) as [o1|]; [|discriminate].
    destruct (c_ready o1); [|discriminate].
    destruct (c_err o1); inversion H; subst s'; cbn; unfold upd;
      (destruct (Nat.eqb_spec i i0) as [->|Hn];
       [assert (t0 = t) by congruence; subst t0; eexists; split; [reflexivity|]; apply TM_wait; cbn; eauto
       |exists t; split; [exact Ht|]; apply TM_same; auto; try notreq; try congruence]).
  - destruct (thr s i0) as [t0|] eqn:E0; [|discriminate]. destruct (t_pc t0) as [| |[e|h]] eqn:Ep; try discriminate.
    + inversion H; subst s'. apply Same; try reflexivity; try notreq; congruence.
    + destruct (t_obj t0); [|discriminate].
      destruct (t_once t0 || t_run t0); inversion H; subst s'; [apply Same; try reflexivity; try notreq; congruence|].
      cbn. unfold upd. destruct (Nat.eqb_spec i i0) as [->|Hn].
      * assert (t0 = t) by congruence; subst t0. eexists. split; [reflexivity|].
        apply TM_same; cbn; auto; try notreq; try congruence.
      * exists t. split; [exact Ht|]. apply TM_same; auto; try notreq; try congruence.
  - destruct (thr s i0) as [t0|] eqn:E0; [|discriminate]. destruct (t_pc t0) as [| |[e|h]] eqn:Ep; try discriminate.
    + inversion H; subst s'. exists t. split; [exact Ht|]. apply TM_same; auto; notreq.
    + destruct (t_obj t0) as [c1|]; [|discriminate].
      destruct (t_once t0); [inversion H; subst s'; exists t; split; [exact Ht|]; apply TM_same; auto; notreq|].
      destruct (negb (t_run t0)); [discriminate|]. destruct (objs s c1) as [o1|]; [|discriminate].
      assert (G : exists t', upd (thr s) i0 (Some (with_once t0)) i = Some t' /\ thr_move i (LRelease i0) t t').
      { unfold upd. destruct (Nat.eqb_spec i i0) as [->|Hn].
        - assert (t0 = t) by congruence; subst t0. eexists. split; [reflexivity|].
          apply TM_same; cbn; auto; try notreq; try congruence.
        - exists t. split; [exact Ht|]. apply TM_same; auto; try notreq; try congruence. }
      destruct (Z.leb _ 0); inversion H; subst s'; try rewrite thr_remove; cbn; exact G.
  - inversion H; subst s'. apply Same; try reflexivity; try notreq; congruence.
Qed.

(** * Runs of the connection manager *)
Section Live.
Variable rn : nat -> state.
Variable lab : nat -> option label.
Hypothesis Hrun : is_run step rn lab.
Hypothesis Hinit : rn 0 = init.

Lemma rn_reachable k : reachable (rn k).
Proof.
  induction k as [|k IH]; [rewrite Hinit; apply reachable_init|].
  specialize (Hrun k). destruct (lab k) as [l|].
  - eapply reachable_step; eauto.
  - now rewrite Hrun.
Qed.

Lemma rn_np k : panicked (rn k) = false.
Proof. apply never_panics, rn_reachable. Qed.

(** a thread that keeps being enabled while a condition [Q] lasts, and whose
    condition only its own steps can end, eventually steps from a [Q]-state *)
Lemma fair_take (P : label -> Prop) (Pdec : forall l, {P l} + {~ P l}) (Q : state -> Prop) :
  wfair step rn lab P ->
  (forall s, reachable s -> Q s -> can step P s) ->
  (forall s l s', reachable s -> Q s -> step s l = Some s' -> ~ P l -> Q s') ->
  forall k, Q (rn k) -> exists j, k <= j /\ Q (rn j) /\ taken lab P j.
Proof.
  intros Hf Hcan Hst k Hq.
  assert (G : forall d, (exists j, k <= j /\ j <= k + d /\ Q (rn j) /\ taken lab P j) \/ Q (rn (k + d))).
  { induction d as [|d IH]; [right; now rewrite Nat.add_0_r|].
    destruct IH as [(j & H1 & H2 & H3 & H4)|Hqd]; [left; exists j; repeat split; auto; lia|].
    pose proof (Hrun (k + d)) as Hs. destruct (lab (k + d)) as [l|] eqn:El.
    - destruct (Pdec l) as [Hp|Hn].
      + left. exists (k + d). repeat split; auto; try lia. exists l. auto.
      + right. replace (k + S d) with (S (k + d)) by lia.
        eapply Hst; eauto. apply rn_reachable.
    - right. replace (k + S d) with (S (k + d)) by lia. now rewrite Hs. }
  destruct (Hf k) as (j0 & Hj0 & Hor).
  destruct (G (j0 - k)) as [(j & H1 & H2 & H3 & H4)|Hq0]; [exists j; auto|].
  replace (k + (j0 - k)) with j0 in Hq0 by lia.
  destruct Hor as [Ht|Hnc]; [exists j0; auto|].
  exfalso. apply Hnc. apply Hcan; auto. apply rn_reachable.
Qed.

Lemma step_at k l : lab k = Some l -> step (rn k) l = Some (rn (S k)).
Proof. intros E. pose proof (Hrun k) as H. now rewrite E in H. Qed.

Lemma obj_next c k o :
  objs (rn k) c = Some o ->
  exists o', objs (rn (S k)) c = Some o' /\
             match lab k with Some l => obj_move c l o o' | None => o' = o end.
Proof.
  intros Ho. pose proof (Hrun k) as H. destruct (lab k) as [l|].
  - eapply step_obj; eauto. apply rn_np.
  - rewrite H. eauto.
Qed.

Lemma obj_persist c k o :
  objs (rn k) c = Some o ->
  forall d, exists o', objs (rn (k + d)) c = Some o' /\ ds_rank (c_ds o') <= ds_rank (c_ds o) /\
                       c_addr o' = c_addr o /\ c_known o' = c_known o.
Proof.
  intros Ho. induction d as [|d (o1 & H1 & H2 & H3 & H4)].
  - rewrite Nat.add_0_r. eauto.
  - replace (k + S d) with (S (k + d)) by lia.
    destruct (obj_next c (k + d) o1 H1) as (o2 & H5 & H6). exists o2. split; [exact H5|].
    destruct (lab (k + d)) as [l|]; [|subst o2; auto].
    destruct H6 as [(Ea & Ed & _ & _ & _ & Ek) _ _|_ _ Hlt Ea Ek _]; [rewrite Ed|]; repeat split; try congruence; lia.
Qed.

Definition dial_completes (c : nat) : Prop :=
  forall k o, objs (rn k) c = Some o -> c_ds o = DInDial -> exists j, k <= j /\ taken lab (dialret_label c) j.

Definition has_ds (c : nat) (d : dstate) (s : state) : Prop :=
  exists o, objs s c = Some o /\ c_ds o = d.

Lemma dialer_can c d s :
  reachable s -> has_ds c d s -> d <> DInDial -> d <> DDone -> can step (dial_label c) s.
Proof.
  intros Hr (o & Ho & Hd) H1 H2. pose proof (never_panics s Hr) as Hnp.
  destruct d as [| |e| |]; try congruence.
  - exists (LSpawn c). split; [left; reflexivity|]. unfold step. rewrite Hnp, Ho, Hd.
    destruct (c_known o); discriminate.
  - exists (LFailLock c). split; [right; left; reflexivity|]. unfold step. rewrite Hnp, Ho, Hd.
    destruct (panicked (remove s (c_addr o))); discriminate.
  - exists (LFailReady c). split; [right; right; reflexivity|]. unfold step. rewrite Hnp, Ho, Hd. discriminate.
Qed.

Lemma has_ds_stable c d s l s' :
  reachable s -> has_ds c d s -> d <> DInDial -> step s l = Some s' -> ~ dial_label c l -> has_ds c d s'.
Proof.
  intros Hr (o & Ho & Hd) H1 Hs Hn.
  assert (Hnp : panicked s' = false) by (apply never_panics; eapply reachable_step; eauto).
  destruct (step_obj s l s' c o Hs Hnp Ho) as (o' & Ho' & Hm). exists o'. split; [exact Ho'|].
  destruct Hm as [(_ & Ed & _) _ _|[Hl|Hl] Hdr _ _ _ _]; [congruence|contradiction|].
  exfalso. apply H1. rewrite <- Hd. auto.
Qed.

(** the attempt on object [c] finishes: ready is signalled *)
Lemma attempt_finishes c :
  wfair step rn lab (dial_label c) -> dial_completes c ->
  forall n k o, objs (rn k) c = Some o -> ds_rank (c_ds o) <= n ->
  exists j o', k <= j /\ objs (rn j) c = Some o' /\ c_ds o' = DDone.
Proof.
  intros Hf Hdc. induction n as [|n IH]; intros k o Ho Hr.
  - exists k, o. repeat split; auto. destruct (c_ds o); cbn in Hr; try lia. reflexivity.
  - destruct (c_ds o) eqn:Ed.
    5: { exists k, o. auto. }
    2: { (* inside Dial: the environment lets it return *)
      destruct (Hdc k o Ho Ed) as (j & Hj & (l & El & Hl)).
      destruct (obj_persist c k o Ho (j - k)) as (o1 & H1 & H2 & _). replace (k + (j - k)) with j in H1 by lia.
      destruct (obj_next c j o1 H1) as (o2 & H3 & H4). rewrite El in H4.
      destruct H4 as [_ _ Hn|_ _ Hlt _ _ _]; [contradiction|].
      destruct (IH (S j) o2 H3) as (j' & o' & H5 & H6); [rewrite Ed in H2; cbn in *; lia|].
      exists j', o'. split; [lia|exact H6]. }
    all: match goal with Ed : c_ds ?oo = ?d |- _ =>
      assert (Hq : has_ds c d (rn k)) by (exists oo; auto);
      destruct (fair_take (dial_label c) (dial_label_dec c) (has_ds c d) Hf
                  (fun s Hs Hh => dialer_can c d s Hs Hh ltac:(discriminate) ltac:(discriminate))
                  (fun s l s' Hs Hh Hst Hn => has_ds_stable c d s l s' Hs Hh ltac:(discriminate) Hst Hn)
                  k Hq) as (j & Hj & (o1 & H1 & H2) & (l & El & Hl))
      end;
      destruct (obj_next c j o1 H1) as (o2 & H3 & H4); rewrite El in H4;
      (destruct H4 as [_ Hn _|_ _ Hlt _ _ _]; [contradiction|]);
      (destruct (IH (S j) o2 H3) as (j' & o' & H5 & H6); [rewrite H2 in Hlt; cbn in *; lia|]);
      exists j', o'; (split; [lia|exact H6]).
Qed.

Lemma done_stable c k o :
  objs (rn k) c = Some o -> c_ds o = DDone -> forall d, has_ds c DDone (rn (k + d)).
Proof.
  intros Ho Hd d. destruct (obj_persist c k o Ho d) as (o' & H1 & H2 & _). exists o'. split; [exact H1|].
  rewrite Hd in H2. destruct (c_ds o'); cbn in H2; try lia. reflexivity.
Qed.

Lemma thr_next i k t :
  thr (rn k) i = Some t ->
  exists t', thr (rn (S k)) i = Some t' /\
             match lab k with Some l => thr_move i l t t' | None => t' = t end.
Proof.
  intros Ht. pose proof (Hrun k) as H. destruct (lab k) as [l|].
  - eapply step_thr; eauto.
  - rewrite H. eauto.
Qed.

Lemma thr_persist i k t :
  thr (rn k) i = Some t -> forall d, exists t', thr (rn (k + d)) i = Some t' /\ t_obj t' = t_obj t /\
    (forall r, t_pc t = PRet r -> t_pc t' = PRet r).
Proof.
  intros Ht. induction d as [|d (t1 & H1 & H2 & H3)].
  - rewrite Nat.add_0_r. eauto.
  - replace (k + S d) with (S (k + d)) by lia.
    destruct (thr_next i (k + d) t1 H1) as (t2 & H4 & H5). exists t2. split; [exact H4|].
    destruct (lab (k + d)) as [l|]; [|subst t2; auto].
    destruct H5 as [Ep Eo _ _ _ _|_ Ep _ Eo|_ Ep _ Eo]; split; try congruence.
    + intros r Hr. rewrite Ep. auto.
    + intros r Hr. rewrite (H3 r Hr) in Ep. discriminate.
    + intros r Hr. rewrite (H3 r Hr) in Ep. discriminate.
Qed.

Definition at_pc (i c : nat) (p : pc) (s : state) : Prop :=
  exists t, thr s i = Some t /\ t_pc t = p /\ t_obj t = Some c.

Lemma at_pc_stable i c p s l s' :
  at_pc i c p s -> step s l = Some s' -> ~ req_label i l -> at_pc i c p s'.
Proof.
  intros (t & Ht & Hp & Ho) Hs Hn. destruct (step_thr s l s' i t Hs Ht) as (t' & Ht' & Hm).
  exists t'. split; [exact Ht'|].
  destruct Hm as [Ep Eo _ _ _ _|El _ _ _|El _ _ _]; [split; congruence| |]; exfalso; apply Hn; rewrite El; [left|right]; reflexivity.
Qed.

Lemma returned_outcome i c k r :
  at_pc i c (PRet r) (rn k) -> exists o, objs (rn k) c = Some o /\ r = outcome o.
Proof.
  intros (t & Ht & Hp & Ho). pose proof (inv_reachable _ (rn_reachable k)) as I.
  pose proof (i_thread _ I i t Ht) as Hto. unfold thread_ok in Hto. rewrite Ho, Hp in Hto.
  destruct Hto as (o & Hc & _ & _ & Hr & _). eauto.
Qed.

(** a thread waiting on a finished attempt returns *)
Lemma waiting_returns i c :
  wfair step rn lab (req_label i) ->
  forall k, at_pc i c PWaiting (rn k) -> has_ds c DDone (rn k) ->
  exists j r, k <= j /\ at_pc i c (PRet r) (rn j).
Proof.
  intros Hf k Hw Hd.
  set (Q := fun s => at_pc i c PWaiting s /\ has_ds c DDone s).
  assert (Hcan : forall s, reachable s -> Q s -> can step (req_label i) s).
  { intros s Hr ((t & Ht & Hp & Ho) & (o & Hc & Hdd)).
    pose proof (inv_reachable s Hr) as I. pose proof (i_obj s I c o Hc) as Hob.
    unfold obj_ok, obj_ok' in Hob. rewrite Hdd in Hob. destruct Hob as [Hrd _].
    exists (LWait i). split; [right; reflexivity|]. unfold step.
    rewrite (i_np s I), Ht, Hp, Ho, Hc, Hrd. destruct (c_err o); discriminate. }
  assert (Hst : forall s l s', reachable s -> Q s -> step s l = Some s' -> ~ req_label i l -> Q s').
  { intros s l s' Hr [Ha (o & Hc & Hdd)] Hs Hn. split; [eapply at_pc_stable; eauto|].
    assert (Hnp : panicked s' = false) by (apply never_panics; eapply reachable_step; eauto).
    destruct (step_obj s l s' c o Hs Hnp Hc) as (o' & Ho' & Hm). exists o'. split; [exact Ho'|].
    destruct Hm as [(_ & Ed & _) _ _|_ _ Hlt _ _ _]; [congruence|]. rewrite Hdd in Hlt. cbn in Hlt. lia. }
  destruct (fair_take (req_label i) (req_label_dec i) Q Hf Hcan Hst k (conj Hw Hd))
    as (j & Hj & [(t & Ht & Hp & Ho) _] & (l & El & Hl)).
  destruct (thr_next i j t Ht) as (t' & Ht' & Hm). rewrite El in Hm.
  destruct Hm as [_ _ _ Hn _ _|_ Ep _ _|_ _ (r & Er) Eo]; [contradiction|congruence|].
  exists (S j), r. split; [lia|]. exists t'. repeat split; congruence.
Qed.

Lemma joined_passes i c :
  wfair step rn lab (req_label i) ->
  forall k, at_pc i c PJoined (rn k) -> exists j, k <= j /\ at_pc i c PWaiting (rn j).
Proof.
  intros Hf k Hw.
  assert (Hcan : forall s, reachable s -> at_pc i c PJoined s -> can step (req_label i) s).
  { intros s Hr (t & Ht & Hp & Ho). exists (LPass i). split; [left; reflexivity|].
    unfold step. rewrite (never_panics s Hr), Ht, Hp. discriminate. }
  destruct (fair_take (req_label i) (req_label_dec i) (at_pc i c PJoined) Hf Hcan
              (fun s l s' _ Ha Hs Hn => at_pc_stable i c PJoined s l s' Ha Hs Hn) k Hw)
    as (j & Hj & (t & Ht & Hp & Ho) & (l & El & Hl)).
  destruct (thr_next i j t Ht) as (t' & Ht' & Hm). rewrite El in Hm.
  destruct Hm as [_ _ _ Hn _ _|_ _ Ep Eo|_ Ep _ _]; [contradiction| |congruence].
  exists (S j). split; [lia|]. exists t'. repeat split; congruence.
Qed.

(** (1) every request that joined an attempt returns, with that attempt's outcome *)
Theorem request_returns_run i c k p :
  wfair step rn lab (req_label i) -> wfair step rn lab (dial_label c) -> dial_completes c ->
  at_pc i c p (rn k) ->
  exists j o, k <= j /\ objs (rn j) c = Some o /\ at_pc i c (PRet (outcome o)) (rn j).
Proof.
  intros Hfi Hfc Hdc (t & Ht & Hp & Ho).
  pose proof (inv_reachable _ (rn_reachable k)) as I.
  pose proof (i_thread _ I i t Ht) as Hto. unfold thread_ok in Hto. rewrite Ho in Hto.
  destruct Hto as (o & Hc & _).
  destruct (attempt_finishes c Hfc Hdc _ k o Hc (le_n _)) as (j1 & o1 & Hj1 & Ho1 & Hd1).
  destruct (thr_persist i k t Ht (j1 - k)) as (t1 & Ht1 & Hob1 & _).
  replace (k + (j1 - k)) with j1 in Ht1 by lia.
  assert (Fin : forall j r, j1 <= j -> at_pc i c (PRet r) (rn j) ->
                exists j o, k <= j /\ objs (rn j) c = Some o /\ at_pc i c (PRet (outcome o)) (rn j)).
  { intros j r Hj Ha. destruct (returned_outcome i c j r Ha) as (o2 & Ho2 & ->). exists j, o2. repeat split; auto; lia. }
  assert (FromW : forall j, j1 <= j -> at_pc i c PWaiting (rn j) ->
                  exists j o, k <= j /\ objs (rn j) c = Some o /\ at_pc i c (PRet (outcome o)) (rn j)).
  { intros j Hj Ha. pose proof (done_stable c j1 o1 Ho1 Hd1 (j - j1)) as Hdd.
    replace (j1 + (j - j1)) with j in Hdd by lia.
    destruct (waiting_returns i c Hfi j Ha Hdd) as (j2 & r & Hj2 & Hr). apply (Fin j2 r); [lia|exact Hr]. }
  assert (Ha1 : at_pc i c (t_pc t1) (rn j1)) by (exists t1; repeat split; congruence).
  destruct (t_pc t1) as [| |r] eqn:Ep1.
  - destruct (joined_passes i c Hfi j1 Ha1) as (j2 & Hj2 & Ha2). apply (FromW j2); [lia|exact Ha2].
  - apply (FromW j1); [lia|exact Ha1].
  - apply (Fin j1 r); [lia|exact Ha1].
Qed.


Lemma ret_stable i c r k d : at_pc i c (PRet r) (rn k) -> at_pc i c (PRet r) (rn (k + d)).
Proof.
  intros (t & Ht & Hp & Ho). destruct (thr_persist i k t Ht d) as (t' & Ht' & Ho' & Hr).
  exists t'. repeat split; [exact Ht'|auto|congruence].
Qed.

(** all requests that joined one attempt return the same result *)
Theorem joiners_return_shared_run i1 i2 c k p1 p2 :
  wfair step rn lab (req_label i1) -> wfair step rn lab (req_label i2) ->
  wfair step rn lab (dial_label c) -> dial_completes c ->
  at_pc i1 c p1 (rn k) -> at_pc i2 c p2 (rn k) ->
  exists j r, k <= j /\ at_pc i1 c (PRet r) (rn j) /\ at_pc i2 c (PRet r) (rn j).
Proof.
  intros F1 F2 Fc Hdc A1 A2.
  destruct (request_returns_run i1 c k p1 F1 Fc Hdc A1) as (j1 & o1 & Hj1 & _ & R1).
  destruct (request_returns_run i2 c k p2 F2 Fc Hdc A2) as (j2 & o2 & Hj2 & _ & R2).
  pose proof (ret_stable i1 c _ j1 j2 R1) as S1.
  pose proof (ret_stable i2 c _ j2 j1 R2) as S2.
  rewrite (Nat.add_comm j2 j1) in S2.
  set (j := j1 + j2) in *.
  destruct S1 as (t1 & Ht1 & Hp1 & Hb1). destruct S2 as (t2 & Ht2 & Hp2 & Hb2).
  assert (E : outcome o1 = outcome o2).
  { eapply (share_outcome (rn j) i1 i2 t1 t2 c); eauto. apply rn_reachable. }
  exists j, (outcome o1). split; [unfold j; lia|]. split.
  - exists t1. auto.
  - exists t2. rewrite E. auto.
Qed.

(** (2) a done function that has been entered runs to its end; the last
    holder's run closes the handle and deletes the entry *)
Definition releasing (i c : nat) (h : option nat) (a : nat) (s : state) : Prop :=
  exists t, thr s i = Some t /\ t_pc t = PRet (RConn h) /\ t_obj t = Some c /\
            t_run t = true /\ t_once t = false /\ t_addr t = a.

Theorem release_completes_run i c h a k :
  wfair step rn lab (rel_label i) -> releasing i c h a (rn k) ->
  exists j, k <= j /\ lab j = Some (LRelease i) /\ releasing i c h a (rn j) /\
            (exists t', thr (rn (S j)) i = Some t' /\ t_once t' = true) /\
            (holders (rn j) c = 1 -> In c (close_log (rn (S j))) /\ conns (rn (S j)) a = None).
Proof.
  intros Hf Hq.
  assert (Hcan : forall s, reachable s -> releasing i c h a s -> can step (rel_label i) s).
  { intros s Hr (t & Ht & Hp & Ho & Hrun' & Hon & _).
    pose proof (inv_reachable s Hr) as I. pose proof (i_thread s I i t Ht) as Hto.
    unfold thread_ok in Hto. rewrite Ho in Hto. destruct Hto as (o & Hc & _).
    exists (LRelease i). split; [reflexivity|]. unfold step.
    rewrite (i_np s I), Ht, Hp, Ho, Hon, Hrun', Hc. cbn. destruct (Z.leb _ 0); discriminate. }
  assert (Hst : forall s l s', reachable s -> releasing i c h a s -> step s l = Some s' -> ~ rel_label i l ->
                releasing i c h a s').
  { intros s l s' _ (t & Ht & Hp & Ho & Hrun' & Hon & Ha) Hs Hn.
    destruct (step_thr s l s' i t Hs Ht) as (t' & Ht' & Hm). exists t'. split; [exact Ht'|].
    destruct Hm as [Ep Eo Ea _ Eon Er|_ Ep _ _|_ Ep _ _]; try congruence.
    repeat split; try congruence; [exact (Er Hrun')|]. rewrite Eon; [exact Hon|]. intros E. apply Hn. exact E. }
  destruct (fair_take (rel_label i) (rel_label_dec i) (releasing i c h a) Hf Hcan Hst k Hq)
    as (j & Hj & Hrel & (l & El & Hl)).
  unfold rel_label in Hl. subst l. exists j. split; [exact Hj|]. split; [exact El|]. split; [exact Hrel|].
  destruct Hrel as (t & Ht & Hp & Ho & Hrun' & Hon & Ha).
  pose proof (step_at j _ El) as Hs.
  destruct (release_runs_once (rn j) i t h (rn (S j)) (rn_reachable j) Ht Hp Hon Hs) as (_ & t' & Ht' & Ho' & _).
  split; [eauto|]. intros Hone.
  destruct (last_release_closes (rn j) i t c h (rn (S j)) (rn_reachable j) Ht Ho Hp Hon Hrun' Hone Hs) as (H1 & H2 & _).
  rewrite Ha in H2. auto.
Qed.

(** ... and a request that finds no entry gets a fresh Dial call *)
Theorem fresh_request_dials_run i a k :
  lab k = Some (LReq i a true) -> conns (rn k) a = None -> cancelled (rn k) i = false ->
  wfair step rn lab (dial_label i) ->
  exists j, k < j /\ In (i, a) (dial_log (rn j)).
Proof.
  intros El Hn Hc Hf. pose proof (step_at k _ El) as Hs.
  assert (Ho : exists o, objs (rn (S k)) i = Some o /\ c_ds o = DStart /\ c_known o = true /\ c_addr o = a).
  { unfold step in Hs. rewrite (rn_np k) in Hs.
    destruct (thr (rn k) i); [discriminate|]. destruct (objs (rn k) i); [discriminate|].
    rewrite Hc, Hn in Hs. inversion Hs as [E]. cbn. rewrite upd_same. eexists. split; [reflexivity|]. cbn. auto. }
  destruct Ho as (o & Ho & Hd & Hk & Ha).
  assert (Hq : has_ds i DStart (rn (S k))) by (exists o; auto).
  destruct (fair_take (dial_label i) (dial_label_dec i) (has_ds i DStart) Hf
              (fun s Hs' Hh => dialer_can i DStart s Hs' Hh ltac:(discriminate) ltac:(discriminate))
              (fun s l s' Hs' Hh Hst Hnl => has_ds_stable i DStart s l s' Hs' Hh ltac:(discriminate) Hst Hnl)
              (S k) Hq) as (j & Hj & (o1 & H1 & H2) & (l & Elj & Hl)).
  destruct (obj_persist i (S k) o Ho (j - S k)) as (o1' & H1' & _ & Ha1 & Hk1).
  replace (S k + (j - S k)) with j in H1' by lia. assert (o1' = o1) by congruence; subst o1'.
  pose proof (step_at j _ Elj) as Hsj.
  exists (S j). split; [lia|].
  unfold step in Hsj. rewrite (rn_np j) in Hsj.
  destruct Hl as [->|[->| ->]]; rewrite H1, H2 in Hsj; try discriminate.
  rewrite Hk1, Hk in Hsj. inversion Hsj as [E]. cbn. left. congruence.
Qed.

End Live.

(** * The statements, closed over runs from [init] and generic in the step
    function (so that they can be tested against a different mechanism) *)

Definition returns_statement (stp : state -> label -> option state) : Prop :=
  forall rn lab i c k p,
    is_run stp rn lab -> rn 0 = init ->
    wfair stp rn lab (req_label i) -> wfair stp rn lab (dial_label c) ->
    (forall k o, objs (rn k) c = Some o -> c_ds o = DInDial ->
                 exists j, k <= j /\ taken lab (dialret_label c) j) ->
    at_pc i c p (rn k) ->
    exists j r, k <= j /\ at_pc i c (PRet r) (rn j).

Theorem request_returns : returns_statement step.
Proof.
  intros rn lab i c k p Hr H0 Fi Fc Hdc Ha.
  destruct (request_returns_run rn lab Hr H0 i c k p Fi Fc Hdc Ha) as (j & o & Hj & _ & R). eauto.
Qed.

Theorem request_returns_outcome rn lab i c k p :
  is_run step rn lab -> rn 0 = init ->
  wfair step rn lab (req_label i) -> wfair step rn lab (dial_label c) -> dial_completes rn lab c ->
  at_pc i c p (rn k) ->
  exists j o, k <= j /\ objs (rn j) c = Some o /\ at_pc i c (PRet (outcome o)) (rn j).
Proof. intros Hr H0. exact (request_returns_run rn lab Hr H0 i c k p). Qed.

Theorem joiners_return_shared rn lab i1 i2 c k p1 p2 :
  is_run step rn lab -> rn 0 = init ->
  wfair step rn lab (req_label i1) -> wfair step rn lab (req_label i2) ->
  wfair step rn lab (dial_label c) -> dial_completes rn lab c ->
  at_pc i1 c p1 (rn k) -> at_pc i2 c p2 (rn k) ->
  exists j r, k <= j /\ at_pc i1 c (PRet r) (rn j) /\ at_pc i2 c (PRet r) (rn j).
Proof. intros Hr H0. exact (joiners_return_shared_run rn lab Hr H0 i1 i2 c k p1 p2). Qed.

Theorem release_completes rn lab i c h a k :
  is_run step rn lab -> rn 0 = init ->
  wfair step rn lab (rel_label i) -> releasing i c h a (rn k) ->
  exists j, k <= j /\ lab j = Some (LRelease i) /\ releasing i c h a (rn j) /\
            (exists t', thr (rn (S j)) i = Some t' /\ t_once t' = true) /\
            (holders (rn j) c = 1 -> In c (close_log (rn (S j))) /\ conns (rn (S j)) a = None).
Proof. intros Hr H0. exact (release_completes_run rn lab Hr H0 i c h a k). Qed.

Theorem fresh_request_dials rn lab i a k :
  is_run step rn lab -> rn 0 = init ->
  lab k = Some (LReq i a true) -> conns (rn k) a = None -> cancelled (rn k) i = false ->
  wfair step rn lab (dial_label i) ->
  exists j, k < j /\ In (i, a) (dial_log (rn j)).
Proof. intros Hr H0. exact (fresh_request_dials_run rn lab Hr H0 i a k). Qed.

(** * Finite runs (a list of labels, then nobody moves) *)
Section Finite.
Variable stp : state -> label -> option state.

Definition try_stp (s : state) (l : label) : state :=
  match stp s l with Some s' => s' | None => s end.

Definition exec (s : state) (ls : list label) : state := fold_left try_stp ls s.

Fixpoint enabled_all (s : state) (ls : list label) : bool :=
  match ls with
  | [] => true
  | l :: ls' => match stp s l with Some s' => enabled_all s' ls' | None => false end
  end.

Definition frun (ls : list label) (k : nat) : state := exec init (firstn k ls).
Definition flab (ls : list label) (k : nat) : option label := nth_error ls k.

Lemma enabled_all_app s l1 l l2 :
  enabled_all s (l1 ++ l :: l2) = true -> stp (exec s l1) l <> None.
Proof.
  revert s. induction l1 as [|x l1 IH]; intros s; cbn.
  - destruct (stp s l); [discriminate|discriminate].
  - unfold try_stp at 2. destruct (stp s x) as [s'|]; [apply IH|discriminate].
Qed.

Lemma frun_is_run ls : enabled_all init ls = true -> is_run stp (frun ls) (flab ls).
Proof.
  intros He k. unfold frun, flab. destruct (nth_error ls k) as [l|] eqn:En.
  - destruct (nth_error_split ls k En) as (l1 & l2 & -> & Hlen).
    rewrite firstn_app, <- Hlen, firstn_all, Nat.sub_diag, firstn_O, app_nil_r.
    replace (firstn (S (length l1)) (l1 ++ l :: l2)) with (l1 ++ [l]).
    + unfold exec. rewrite fold_left_app. cbn [fold_left].
      pose proof (enabled_all_app init l1 l l2 He) as Hn. unfold exec in Hn.
      set (X := fold_left try_stp l1 init) in *. unfold try_stp.
      destruct (stp X l); [reflexivity|congruence].
    + rewrite firstn_app, firstn_all2 by lia. replace (S (length l1) - length l1) with 1 by lia. reflexivity.
  - apply nth_error_None in En. rewrite !firstn_all2 by lia. reflexivity.
Qed.

Lemma frun_late ls k : length ls <= k -> frun ls k = exec init ls.
Proof. intros H. unfold frun. now rewrite firstn_all2. Qed.

Lemma flab_late ls k : length ls <= k -> flab ls k = None.
Proof. intros H. unfold flab. now apply nth_error_None. Qed.

(** in a finite run a thread none of whose steps is enabled at the end is fair *)
Lemma frun_fair ls lab (P : label -> Prop) :
  (forall l, P l -> stp (exec init ls) l = None) -> wfair stp (frun ls) lab P.
Proof.
  intros H k. exists (k + length ls). split; [lia|]. right.
  rewrite frun_late by lia. intros (l & Hp & Hn). apply Hn. auto.
Qed.
End Finite.

(** * (3) The statement discriminates: it fails for the mechanism of seeded
    change C16/seed_va

    There the dialer-name look-up sits after the new entry has been stored:
    for an unknown name [Connection] returns "no such dialer" at once, leaves
    the entry in the map and starts no dialer goroutine.  A later request for
    the same address joins the dead entry and waits for ever. *)
Definition vstep (s : state) (l : label) : option state :=
  match l with
  | LReq i a false =>
      if panicked s then None else
      match thr s i, objs s i with
      | None, None =>
          if cancelled s i then step s l
          else match conns s a with
               | Some _ => step s l
               | None =>
                   let s0 := set_tids s (i :: tids s) in
                   Some (set_thread (set_obj (set_conns s0 (upd (conns s) a (Some i))) i (new_conn a false)) i
                           {| t_addr := a; t_obj := None; t_pc := PRet (RErr ErrNoDialer);
                              t_run := false; t_once := false |})
               end
      | _, _ => None
      end
  | LSpawn c =>
      match objs s c with
      | Some o => if c_known o then step s l else None     (* no goroutine was started for it *)
      | None => None
      end
  | _ => step s l
  end.

Definition v_labs : list label := [LReq 0 0 false; LReq 1 0 true; LPass 1].

Theorem request_returns_refuted_dead_entry : ~ returns_statement vstep.
Proof.
  intros H.
  assert (He : enabled_all vstep init v_labs = true) by (vm_compute; reflexivity).
  assert (F1 : wfair vstep (frun vstep v_labs) (flab v_labs) (req_label 1))
    by (apply frun_fair; intros l [-> | ->]; vm_compute; reflexivity).
  assert (F2 : wfair vstep (frun vstep v_labs) (flab v_labs) (dial_label 0))
    by (apply frun_fair; intros l [-> | [-> | ->]]; vm_compute; reflexivity).
  assert (F3 : forall k o, objs (frun vstep v_labs k) 0 = Some o -> c_ds o = DInDial ->
               exists j, k <= j /\ taken (flab v_labs) (dialret_label 0) j).
  { intros k o Ho Hd. exfalso.
    assert (G : forall s, (s = frun vstep v_labs 0 \/ s = frun vstep v_labs 1 \/ s = frun vstep v_labs 2 \/
                           s = exec vstep init v_labs) -> objs s 0 = Some o -> False).
    { intros s [-> | [-> | [-> | ->]]] E; vm_compute in E; try discriminate E;
        inversion E as [E']; rewrite <- E' in Hd; discriminate Hd. }
    destruct k as [|[|[|k]]].
    - apply (G _ (or_introl eq_refl) Ho).
    - apply (G _ (or_intror (or_introl eq_refl)) Ho).
    - apply (G _ (or_intror (or_intror (or_introl eq_refl))) Ho).
    - rewrite frun_late in Ho by (cbn; lia). apply (G _ (or_intror (or_intror (or_intror eq_refl))) Ho). }
  assert (F4 : at_pc 1 0 PWaiting (frun vstep v_labs 3)).
  { eexists. split; [vm_compute; reflexivity|]. split; reflexivity. }
  destruct (H (frun vstep v_labs) (flab v_labs) 1 0 3 PWaiting (frun_is_run vstep v_labs He) eq_refl F1 F2 F3 F4)
    as (j & r & Hj & (t & Ht & Hp & _)).
  rewrite frun_late in Ht by (cbn; lia). vm_compute in Ht. inversion Ht; subst t. discriminate.
Qed.

(** * (4) Satisfiability: a fair run in which two requests share one dial,
    both release, the handle is closed, and a third request dials afresh *)
Definition e_labs : list label :=
  [LReq 0 0 true; LSpawn 0; LReq 1 0 true; LPass 0; LPass 1; LDialRet 0 true; LWait 0; LWait 1;
   LRelBegin 0; LRelease 0; LRelBegin 1; LRelease 1; LReq 2 0 true; LSpawn 2].

Definition e_run := frun step e_labs.
(** after the list, the (by then idle) done function of thread 1 is called again and again *)
Definition e_lab (k : nat) : option label :=
  match nth_error e_labs k with Some l => Some l | None => Some (LRelease 1) end.

Lemma e_is_run : is_run step e_run e_lab.
Proof.
  assert (He : enabled_all step init e_labs = true) by (vm_compute; reflexivity).
  intros k. pose proof (frun_is_run step e_labs He k) as H. unfold e_lab, flab in *.
  destruct (nth_error e_labs k) eqn:En; [exact H|].
  apply nth_error_None in En. unfold e_run. rewrite !frun_late by lia. vm_compute. reflexivity.
Qed.

Example ex_live :
  is_run step e_run e_lab /\ e_run 0 = init /\
  wfair step e_run e_lab (req_label 0) /\ wfair step e_run e_lab (req_label 1) /\
  wfair step e_run e_lab (dial_label 0) /\ dial_completes e_run e_lab 0 /\
  at_pc 0 0 PJoined (e_run 3) /\ at_pc 1 0 PJoined (e_run 3) /\
  (* ... and what the theorems promise is there *)
  at_pc 0 0 (PRet (RConn (Some 0))) (e_run 8) /\ at_pc 1 0 (PRet (RConn (Some 0))) (e_run 8) /\
  wfair step e_run e_lab (rel_label 1) /\ releasing 1 0 (Some 0) 0 (e_run 11) /\ holders (e_run 11) 0 = 1 /\
  close_log (e_run 12) = [0] /\ conns (e_run 12) 0 = None /\
  e_lab 12 = Some (LReq 2 0 true) /\ cancelled (e_run 12) 2 = false /\
  wfair step e_run e_lab (dial_label 2) /\ In (2, 0) (dial_log (e_run 14)).
Proof.
  split; [exact e_is_run|]. split; [reflexivity|].
  split; [apply frun_fair; intros l [-> | ->]; vm_compute; reflexivity|].
  split; [apply frun_fair; intros l [-> | ->]; vm_compute; reflexivity|].
  split; [apply frun_fair; intros l [-> | [-> | ->]]; vm_compute; reflexivity|].
  split.
  { intros k o Ho Hd. destruct (le_lt_dec k 5) as [Hk|Hk].
    - exists 5. split; [exact Hk|]. exists (LDialRet 0 true). split; [reflexivity|]. left. eauto.
    - exfalso.
      assert (H6 : exists o6, objs (e_run 6) 0 = Some o6 /\ c_ds o6 = DDone)
        by (eexists; split; [vm_compute; reflexivity|reflexivity]).
      destruct H6 as (o6 & Ho6 & Hd6).
      destruct (obj_persist e_run e_lab e_is_run eq_refl 0 6 o6 Ho6 (k - 6)) as (o' & H1 & H2 & _).
      replace (6 + (k - 6)) with k in H1 by lia. assert (o' = o) by congruence; subst o'.
      rewrite Hd6, Hd in H2. cbn in H2. lia. }
  split; [eexists; split; [vm_compute; reflexivity|split; reflexivity]|].
  split; [eexists; split; [vm_compute; reflexivity|split; reflexivity]|].
  split; [eexists; split; [vm_compute; reflexivity|split; reflexivity]|].
  split; [eexists; split; [vm_compute; reflexivity|split; reflexivity]|].
  split.
  { intros k. exists (k + 14). split; [lia|]. left. exists (LRelease 1). split; [|reflexivity].
    unfold e_lab. assert (E : nth_error e_labs (k + 14) = None) by (apply nth_error_None; cbn; lia).
    now rewrite E. }
  split; [eexists; split; [vm_compute; reflexivity|repeat split]|].
  split; [vm_compute; reflexivity|].
  split; [vm_compute; reflexivity|].
  split; [vm_compute; reflexivity|].
  split; [reflexivity|].
  split; [vm_compute; reflexivity|].
  split; [apply frun_fair; intros l [-> | [-> | ->]]; vm_compute; reflexivity|].
  vm_compute. left. reflexivity.
Qed.

(** Labelled transition system mirroring connection/connection.go
    (Manager.Connection, Manager.dial, connection.done, Manager.remove).

    Definitions only (this file must keep evaluating when a proof breaks);
    the lemmas are in ConnProofs.v, the evaluator used by cases_k.v in
    ConnCheck.v.

    Atomic steps are exactly the critical sections and channel operations of
    the Go code:

      LReq i a k    thread i calls Connection(ctx_i, a, dialer): the ctx check,
                    then under m.mu create-or-join + ref++ (+ `go m.dial`),
                    up to the schedule point `connection:joined`.
                    (The ctx check and the critical section are one step: a
                    cancel that falls between them commutes with the check.)
      LSpawn c      the dialer goroutine of connection object c starts: looks
                    the dialer up and, if it exists, invokes the Dial function
      LDialRet c ok the environment lets that Dial return (success / error);
                    on success `c.c = cc` and `close(c.ready)` (c.c is only
                    read after ready, so the two are one step)
      LDialCtx c    the Dial returns ctx.Err(); enabled once the creator's
                    context is cancelled (a Dial that honours its context)
      LFailLock c   failure path of dial: m.mu.Lock; m.remove(addr);
                    c.err = err; m.mu.Unlock        (after `dial:failed`)
      LFailReady c  the deferred close(c.ready) of a failed dial
      LPass i       thread i leaves the schedule point `connection:joined`
      LWait i       `<-c.ready` succeeds and Connection returns
      LRelBegin i   a goroutine calls the done function of thread i: the
                    check-and-set of once.Do (any number of callers, any time)
      LRelease i    the function under the Once: lock, ref--, remove at <= 0
      LCancel i     the context of thread i is cancelled

    Go maps and the heap are total functions nat -> option _ (executable under
    vm_compute; the finite domain is [tids]).  Connection objects are named by
    the thread that created them (each thread issues one request), and the
    *grpc.ClientConn a successful Dial hands back is named by the object. *)
From Coq Require Import List Bool ZArith NArith Lia Arith.
Import ListNotations.
Open Scope Z_scope.

Inductive errc := ErrCtx | ErrDial | ErrNoDialer.

Inductive dstate :=
| DStart                (* goroutine created, Dial not yet invoked *)
| DInDial               (* inside the Dial function *)
| DFailing (e : errc)   (* Dial returned an error (or no such dialer); at `dial:failed` *)
| DClosing              (* entry removed, c.err written, ready not yet closed *)
| DDone.                (* ready closed *)

Record conn := {
  c_addr : nat;            (* connection.id *)
  c_ref : Z;               (* connection.ref *)
  c_ready : bool;          (* ready channel closed *)
  c_err : option errc;     (* connection.err *)
  c_cc : option nat;       (* connection.c : the handle *)
  c_known : bool;          (* the dialer name given by the creator exists in m.d *)
  c_ds : dstate }.

Inductive result :=
| RErr (e : errc)              (* nil, func(){}, err *)
| RConn (h : option nat).      (* c.c, c.done(m), nil *)

Inductive pc :=
| PJoined                      (* at `connection:joined` *)
| PWaiting                     (* at `<-c.ready` *)
| PRet (r : result).

Record thread := {
  t_addr : nat;
  t_obj : option nat;          (* the connection object joined (None: refused at the ctx check) *)
  t_pc : pc;
  t_run : bool;                (* some caller has entered once.Do of its done function (check + set) *)
  t_once : bool }.             (* the function under the Once has run: c.ref was given back *)

Record state := {
  conns : nat -> option nat;   (* m.conns : address -> connection object *)
  objs : nat -> option conn;   (* the connection objects ever allocated *)
  thr : nat -> option thread;
  tids : list nat;             (* threads started, newest first (domain of thr and objs) *)
  cancelled : nat -> bool;     (* ctx of thread i is cancelled *)
  dial_log : list (nat * nat); (* Dial invocations (object, address), newest first *)
  close_log : list nat;        (* Close() calls on handles, newest first *)
  panicked : bool }.

Definition upd {A} (f : nat -> A) (k : nat) (v : A) : nat -> A :=
  fun x => if Nat.eqb x k then v else f x.

Definition init : state :=
  {| conns := fun _ => None; objs := fun _ => None; thr := fun _ => None; tids := [];
     cancelled := fun _ => false; dial_log := []; close_log := []; panicked := false |}.

Definition set_conns s v := {| conns := v; objs := objs s; thr := thr s; tids := tids s;
  cancelled := cancelled s; dial_log := dial_log s; close_log := close_log s; panicked := panicked s |}.
Definition set_objs s v := {| conns := conns s; objs := v; thr := thr s; tids := tids s;
  cancelled := cancelled s; dial_log := dial_log s; close_log := close_log s; panicked := panicked s |}.
Definition set_thr s v := {| conns := conns s; objs := objs s; thr := v; tids := tids s;
  cancelled := cancelled s; dial_log := dial_log s; close_log := close_log s; panicked := panicked s |}.
Definition set_tids s v := {| conns := conns s; objs := objs s; thr := thr s; tids := v;
  cancelled := cancelled s; dial_log := dial_log s; close_log := close_log s; panicked := panicked s |}.
Definition set_cancelled s v := {| conns := conns s; objs := objs s; thr := thr s; tids := tids s;
  cancelled := v; dial_log := dial_log s; close_log := close_log s; panicked := panicked s |}.
Definition set_dial_log s v := {| conns := conns s; objs := objs s; thr := thr s; tids := tids s;
  cancelled := cancelled s; dial_log := v; close_log := close_log s; panicked := panicked s |}.
Definition set_close_log s v := {| conns := conns s; objs := objs s; thr := thr s; tids := tids s;
  cancelled := cancelled s; dial_log := dial_log s; close_log := v; panicked := panicked s |}.
Definition set_panicked s := {| conns := conns s; objs := objs s; thr := thr s; tids := tids s;
  cancelled := cancelled s; dial_log := dial_log s; close_log := close_log s; panicked := true |}.

Definition set_obj s c o := set_objs s (upd (objs s) c (Some o)).
Definition set_thread s i t := set_thr s (upd (thr s) i (Some t)).

Definition with_ref o r := {| c_addr := c_addr o; c_ref := r; c_ready := c_ready o; c_err := c_err o;
  c_cc := c_cc o; c_known := c_known o; c_ds := c_ds o |}.
Definition with_ds o d := {| c_addr := c_addr o; c_ref := c_ref o; c_ready := c_ready o; c_err := c_err o;
  c_cc := c_cc o; c_known := c_known o; c_ds := d |}.
Definition with_ready o := {| c_addr := c_addr o; c_ref := c_ref o; c_ready := true; c_err := c_err o;
  c_cc := c_cc o; c_known := c_known o; c_ds := c_ds o |}.
Definition with_err o e := {| c_addr := c_addr o; c_ref := c_ref o; c_ready := c_ready o; c_err := Some e;
  c_cc := c_cc o; c_known := c_known o; c_ds := c_ds o |}.
Definition with_cc o h := {| c_addr := c_addr o; c_ref := c_ref o; c_ready := c_ready o; c_err := c_err o;
  c_cc := Some h; c_known := c_known o; c_ds := c_ds o |}.

Definition with_pc t p := {| t_addr := t_addr t; t_obj := t_obj t; t_pc := p; t_run := t_run t; t_once := t_once t |}.
Definition with_once t := {| t_addr := t_addr t; t_obj := t_obj t; t_pc := t_pc t; t_run := t_run t; t_once := true |}.
Definition with_run t := {| t_addr := t_addr t; t_obj := t_obj t; t_pc := t_pc t; t_run := true; t_once := t_once t |}.

(** [Manager.remove(addr)], called with m.mu held:
<<
	c, ok := m.conns[addr]
	if !ok { log.Errorf(...) }          // falls through
	delete(m.conns, addr)
	if c.c != nil { c.c.Close() }       // c == nil when !ok: nil dereference
>> *)
Definition remove (s : state) (a : nat) : state :=
  match conns s a with
  | None => set_panicked s                       (* the `!ok` branch: c is nil, c.c panics *)
  | Some cid =>
      match objs s cid with
      | None => set_panicked s                   (* not Go code: a map entry always points to an allocated object *)
      | Some o =>
          let s1 := set_conns s (upd (conns s) a None) in
          match c_cc o with
          | Some h => set_close_log s1 (h :: close_log s1)
          | None => s1
          end
      end
  end.

Inductive label :=
| LReq (i a : nat) (known : bool)
| LSpawn (c : nat)
| LDialRet (c : nat) (ok : bool)
| LDialCtx (c : nat)
| LFailLock (c : nat)
| LFailReady (c : nat)
| LPass (i : nat)
| LWait (i : nat)
| LRelBegin (i : nat)
| LRelease (i : nat)
| LCancel (i : nat).

Definition new_conn (a : nat) (known : bool) : conn :=
  {| c_addr := a; c_ref := 0; c_ready := false; c_err := None; c_cc := None;
     c_known := known; c_ds := DStart |}.

(** [None]: the label is not enabled in [s]. *)
Definition step (s : state) (l : label) : option state :=
  if panicked s then None else
  match l with
  | LReq i a known =>
      match thr s i, objs s i with
      | None, None =>
          let s0 := set_tids s (i :: tids s) in
          if cancelled s i then
            (* case <-ctx.Done(): return nil, func(){}, ctx.Err() *)
            Some (set_thread s0 i {| t_addr := a; t_obj := None; t_pc := PRet (RErr ErrCtx); t_run := false; t_once := false |})
          else
            match conns s a with
            | Some cid =>
                match objs s cid with
                | Some o =>
                    Some (set_thread (set_obj s0 cid (with_ref o (c_ref o + 1))) i
                            {| t_addr := a; t_obj := Some cid; t_pc := PJoined; t_run := false; t_once := false |})
                | None => None
                end
            | None =>
                (* c = newConnection(addr); m.conns[addr] = c; go m.dial(...); c.ref++ *)
                let o := with_ref (new_conn a known) 1 in
                Some (set_thread (set_obj (set_conns s0 (upd (conns s) a (Some i))) i o) i
                        {| t_addr := a; t_obj := Some i; t_pc := PJoined; t_run := false; t_once := false |})
            end
      | _, _ => None
      end
  | LSpawn c =>
      match objs s c with
      | Some o =>
          match c_ds o with
          | DStart =>
              if c_known o
              then Some (set_dial_log (set_obj s c (with_ds o DInDial)) ((c, c_addr o) :: dial_log s))
              else Some (set_obj s c (with_ds o (DFailing ErrNoDialer)))
          | _ => None
          end
      | None => None
      end
  | LDialRet c ok =>
      match objs s c with
      | Some o =>
          match c_ds o with
          | DInDial =>
              if ok
              then Some (set_obj s c (with_ds (with_ready (with_cc o c)) DDone))
              else Some (set_obj s c (with_ds o (DFailing ErrDial)))
          | _ => None
          end
      | None => None
      end
  | LDialCtx c =>
      match objs s c with
      | Some o =>
          match c_ds o with
          | DInDial => if cancelled s c then Some (set_obj s c (with_ds o (DFailing ErrCtx))) else None
          | _ => None
          end
      | None => None
      end
  | LFailLock c =>
      match objs s c with
      | Some o =>
          match c_ds o with
          | DFailing e =>
              let s1 := remove s (c_addr o) in
              if panicked s1 then Some s1
              else Some (set_obj s1 c (with_ds (with_err o e) DClosing))
          | _ => None
          end
      | None => None
      end
  | LFailReady c =>
      match objs s c with
      | Some o =>
          match c_ds o with
          | DClosing => Some (set_obj s c (with_ds (with_ready o) DDone))
          | _ => None
          end
      | None => None
      end
  | LPass i =>
      match thr s i with
      | Some t => match t_pc t with
                  | PJoined => Some (set_thread s i (with_pc t PWaiting))
                  | _ => None
                  end
      | None => None
      end
  | LWait i =>
      match thr s i with
      | Some t =>
          match t_pc t, t_obj t with
          | PWaiting, Some c =>
              match objs s c with
              | Some o =>
                  if c_ready o then
                    match c_err o with
                    | Some e => Some (set_thread s i (with_pc t (PRet (RErr e))))
                    | None => Some (set_thread s i (with_pc t (PRet (RConn (c_cc o)))))
                    end
                  else None
              | None => None
              end
          | _, _ => None
          end
      | None => None
      end
  | LRelBegin i =>
      (* some goroutine calls the done function of thread i: the check-and-set
         of once.Do.  Only the first caller goes on to run the function; a
         caller that finds the Once entered has no effect (sync.Once makes it
         wait until the first caller's function has returned). *)
      match thr s i with
      | Some t =>
          match t_pc t, t_obj t with
          | PRet (RErr _), _ => Some s                     (* func(){} *)
          | PRet (RConn _), Some _ =>
              if t_once t || t_run t then Some s
              else Some (set_thread s i (with_run t))
          | _, _ => None
          end
      | None => None
      end
  | LRelease i =>
      (* the function under the Once, run by the caller that entered it:
         m.mu.Lock(); c.ref--; if c.ref <= 0 { m.remove(c.id) }; m.mu.Unlock() *)
      match thr s i with
      | Some t =>
          match t_pc t, t_obj t with
          | PRet (RErr _), _ => Some s                     (* func(){} *)
          | PRet (RConn _), Some c =>
              if t_once t then Some s                      (* already run *)
              else if negb (t_run t) then None             (* nobody has entered the Once *)
              else
                match objs s c with
                | Some o =>
                    let o' := with_ref o (c_ref o - 1) in
                    let s1 := set_thread (set_obj s c o') i (with_once t) in
                    if Z.leb (c_ref o') 0 then Some (remove s1 (c_addr o')) else Some s1
                | None => None
                end
          | _, _ => None
          end
      | None => None
      end
  | LCancel i => Some (set_cancelled s (upd (cancelled s) i true))
  end.

(** * Schedules *)

Fixpoint run (s : state) (ls : list label) : option state :=
  match ls with
  | [] => Some s
  | l :: ls' => match step s l with Some s' => run s' ls' | None => None end
  end.

Definition reachable (s : state) : Prop := exists ls, run init ls = Some s.

(** * Derived notions used by the theorems *)

(** thread [t] counts as a holder of object [c]: it has been counted in
    c.ref (joined) and has not given the count back (released). *)
Definition holds (c : nat) (t : thread) : bool :=
  match t_obj t with
  | Some c' =>
      Nat.eqb c' c &&
      match t_pc t with
      | PJoined | PWaiting => true
      | PRet (RConn _) => negb (t_once t)
      | PRet (RErr _) => false
      end
  | None => false
  end.

Definition holds_at (s : state) (c i : nat) : bool :=
  match thr s i with Some t => holds c t | None => false end.

Definition holders (s : state) (c : nat) : nat :=
  List.length (filter (holds_at s c) (tids s)).

Definition outcome (o : conn) : result :=
  match c_err o with Some e => RErr e | None => RConn (c_cc o) end.

Definition in_dial (s : state) (c : nat) : Prop :=
  exists o, objs s c = Some o /\ c_ds o = DInDial.

(** Lemmas about the LTS of ConnLts.v: the invariant of the connection manager
    and its consequences over every schedule. *)
From Coq Require Import List Bool ZArith NArith Lia Arith.
From Gnmi Require Import Conn.ConnLts.
Import ListNotations.
Open Scope Z_scope.

(** * Reachability over schedules, invariants by induction (generic part) *)

Lemma run_app s l1 l2 :
  run s (l1 ++ l2) = match run s l1 with Some s' => run s' l2 | None => None end.
Proof.
  revert s; induction l1 as [|l l1 IH]; intros s; cbn; [reflexivity|].
  destruct (step s l); auto.
Qed.

Lemma reachable_init : reachable init.
Proof. exists []; reflexivity. Qed.

Lemma reachable_step s l s' : reachable s -> step s l = Some s' -> reachable s'.
Proof.
  intros [ls H] Hs. exists (ls ++ [l]). rewrite run_app, H. cbn. now rewrite Hs.
Qed.

Lemma reachable_run s ls s' : reachable s -> run s ls = Some s' -> reachable s'.
Proof.
  revert s; induction ls as [|l ls IH]; intros s Hr H; cbn in H.
  - inversion H; subst; assumption.
  - destruct (step s l) eqn:E; [|discriminate]. eapply IH; eauto using reachable_step.
Qed.

Lemma invariant_induction (I : state -> Prop) :
  I init ->
  (forall s l s', reachable s -> I s -> step s l = Some s' -> I s') ->
  forall s, reachable s -> I s.
Proof.
  intros H0 Hstep s [ls H]. revert s H.
  induction ls as [|l ls IH] using rev_ind; intros s H.
  - cbn in H. inversion H; subst; assumption.
  - rewrite run_app in H. destruct (run init ls) as [s1|] eqn:E; [|discriminate].
    cbn in H. destruct (step s1 l) eqn:E2; [|discriminate]. inversion H; subst.
    eapply Hstep; eauto. now exists ls.
Qed.

(** * Counting *)

Definition b2n (b : bool) : nat := if b then 1%nat else 0%nat.

Lemma count_ext (f g : nat -> bool) l :
  (forall j, In j l -> f j = g j) -> List.length (filter f l) = List.length (filter g l).
Proof.
  induction l as [|x l IH]; cbn; intros H; [reflexivity|].
  rewrite (H x) by auto. destruct (g x); cbn; rewrite IH; auto.
Qed.

Lemma count_upd (f g : nat -> bool) l i :
  NoDup l -> In i l -> (forall j, j <> i -> f j = g j) ->
  (List.length (filter g l) + b2n (f i) = List.length (filter f l) + b2n (g i))%nat.
Proof.
  induction l as [|x l IH]; cbn; intros Hnd Hin Hext; [contradiction|].
  inversion Hnd as [|? ? Hni Hnd']; subst.
  destruct (Nat.eq_dec x i) as [->|Hne].
  - assert (E : List.length (filter g l) = List.length (filter f l)).
    { apply count_ext. intros j Hj. symmetry. apply Hext. intros ->; contradiction. }
    destruct (f i), (g i); cbn; lia.
  - destruct Hin as [?|Hin]; [contradiction|].
    specialize (IH Hnd' Hin Hext). rewrite (Hext x Hne).
    destruct (g x); cbn; lia.
Qed.

Lemma count_pos (f : nat -> bool) l i : In i l -> f i = true -> (1 <= List.length (filter f l))%nat.
Proof.
  intros Hin Hf. assert (In i (filter f l)) by (apply filter_In; auto).
  destruct (filter f l); [contradiction|cbn; lia].
Qed.

Lemma upd_same {A} (f : nat -> A) k v : upd f k v k = v.
Proof. unfold upd. now rewrite Nat.eqb_refl. Qed.

Lemma upd_other {A} (f : nat -> A) k v x : x <> k -> upd f k v x = f x.
Proof. unfold upd. intros H. destruct (Nat.eqb_spec x k); congruence. Qed.

(** * The invariant *)

Definition registered (s : state) (c : nat) (o : conn) : bool :=
  match conns s (c_addr o) with Some c' => Nat.eqb c' c | None => false end.

Definition closes (s : state) (h : nat) : nat := count_occ Nat.eq_dec (close_log s) h.

(** what must hold of object [c], as a function of: is it the entry of its
    address, how many threads hold it, how often its handle was closed, does
    its creator still hold it *)
Definition obj_ok' (reg : bool) (hn cl : nat) (ch : bool) (c : nat) (o : conn) : Prop :=
  match c_ds o with
  | DStart | DInDial | DFailing _ =>
      reg = true /\ c_ready o = false /\ c_err o = None /\ c_cc o = None /\
      c_ref o = Z.of_nat hn /\ ch = true
  | DClosing =>
      reg = false /\ c_ready o = false /\ c_err o <> None /\ c_cc o = None
  | DDone =>
      c_ready o = true /\
      match c_err o with
      | Some _ => c_cc o = None /\ reg = false
      | None =>
          c_cc o = Some c /\ c_ref o = Z.of_nat hn /\
          ((reg = true /\ (1 <= hn)%nat /\ cl = 0%nat) \/ (reg = false /\ hn = 0%nat /\ cl = 1%nat))
      end
  end.

Definition obj_ok (s : state) (c : nat) (o : conn) : Prop :=
  obj_ok' (registered s c o) (holders s c) (closes s c) (holds_at s c c) c o.

Definition thread_ok (s : state) (t : thread) : Prop :=
  match t_obj t with
  | None => t_pc t = PRet (RErr ErrCtx) /\ t_once t = false
  | Some c =>
      exists o, objs s c = Some o /\ c_addr o = t_addr t /\
      match t_pc t with
      | PJoined | PWaiting => t_once t = false
      | PRet r => c_ready o = true /\ r = outcome o /\ (t_once t = true -> exists h, r = RConn h)
      end
  end.

Record inv (s : state) : Prop := {
  i_np : panicked s = false;
  i_nd : NoDup (tids s);
  i_thr_dom : forall i, In i (tids s) <-> thr s i <> None;
  i_obj_dom : forall c o, objs s c = Some o -> In c (tids s);
  i_conns : forall a c, conns s a = Some c -> exists o, objs s c = Some o /\ c_addr o = a;
  i_obj : forall c o, objs s c = Some o -> obj_ok s c o;
  i_thread : forall i t, thr s i = Some t -> thread_ok s t;
  i_close : forall h, In h (close_log s) -> exists o, objs s h = Some o /\ c_cc o = Some h;
  i_dial : forall c a, In (c, a) (dial_log s) ->
           exists o, objs s c = Some o /\ c_addr o = a /\ c_known o = true /\ c_ds o <> DStart;
  i_dial_nd : NoDup (map fst (dial_log s))
}.

Lemma inv_init : inv init.
Proof.
  constructor; cbn; try (intros; discriminate); try (intros; contradiction); try constructor.
  - intros i; split; [intros []|intros H; now apply H].
Qed.

(** ** frame lemmas *)

Lemma holders_ext s s' c :
  tids s' = tids s -> (forall i, In i (tids s) -> holds_at s' c i = holds_at s c i) ->
  holders s' c = holders s c.
Proof. unfold holders. intros -> H. now apply count_ext. Qed.

Lemma closes_zero s h : inv s -> (forall o, objs s h = Some o -> c_cc o <> Some h) -> closes s h = 0%nat.
Proof.
  intros I H. unfold closes. apply count_occ_not_In. intros Hin.
  destruct (i_close s I h Hin) as (o & Ho & Hc). eapply H; eauto.
Qed.

Lemma registered_iff s c o : registered s c o = true <-> conns s (c_addr o) = Some c.
Proof.
  unfold registered. destruct (conns s (c_addr o)) as [c'|]; [|split; discriminate].
  destruct (Nat.eqb_spec c' c); split; congruence.
Qed.

Lemma registered_false s c o : registered s c o = false <-> conns s (c_addr o) <> Some c.
Proof.
  rewrite <- registered_iff. destruct (registered s c o); split; congruence.
Qed.

Lemma holds_at_creator_pos s c : inv s -> holds_at s c c = true -> (1 <= holders s c)%nat.
Proof.
  intros I H. unfold holders. eapply count_pos; eauto.
  apply (i_thr_dom s I). unfold holds_at in H. destruct (thr s c); congruence.
Qed.

(** Lemmas about the LTS of ConnLts.v: the invariant of the connection manager
    and its consequences over every schedule. *)
From Coq Require Import List Bool ZArith NArith Lia Arith.
From Gnmi Require Import Conn.ConnLts.
Import ListNotations.
Open Scope Z_scope.

(** * Reachability over schedules, invariants by induction (generic part) *)

Lemma run_app s l1 l2 :
  run s (l1 ++ l2) = match run s l1 with Some s' => run s' l2 | None => None end.
Proof.
  revert s; induction l1 as [|l l1 IH]; intros s; cbn; [reflexivity|].
  destruct (step s l); auto.
Qed.

Lemma reachable_init : reachable init.
Proof. exists []; reflexivity. Qed.

Lemma reachable_step s l s' : reachable s -> step s l = Some s' -> reachable s'.
Proof.
  intros [ls H] Hs. exists (ls ++ [l]). rewrite run_app, H. cbn. now rewrite Hs.
Qed.

Lemma reachable_run s ls s' : reachable s -> run s ls = Some s' -> reachable s'.
Proof.
  revert s; induction ls as [|l ls IH]; intros s Hr H; cbn in H.
  - inversion H; subst; assumption.
  - destruct (step s l) eqn:E; [|discriminate]. apply (IH s0); [eapply reachable_step; eauto|assumption].
Qed.

Lemma invariant_induction (I : state -> Prop) :
  I init ->
  (forall s l s', reachable s -> I s -> step s l = Some s' -> I s') ->
  forall s, reachable s -> I s.
Proof.
  intros H0 Hstep s [ls H]. revert s H.
  induction ls as [|l ls IH] using rev_ind; intros s H.
  - cbn in H. inversion H; subst; assumption.
  - rewrite run_app in H. destruct (run init ls) as [s1|] eqn:E; [|discriminate].
    cbn in H. destruct (step s1 l) eqn:E2; [|discriminate]. inversion H; subst.
    apply (Hstep s1 l s); [now exists ls|now apply IH|assumption].
Qed.

(** * Counting *)

Definition b2n (b : bool) : nat := if b then 1%nat else 0%nat.

Lemma count_ext (f g : nat -> bool) l :
  (forall j, In j l -> f j = g j) -> List.length (filter f l) = List.length (filter g l).
Proof.
  induction l as [|x l IH]; cbn; intros H; [reflexivity|].
  rewrite (H x) by auto. destruct (g x); cbn; rewrite IH; auto.
Qed.

Lemma count_upd (f g : nat -> bool) l i :
  NoDup l -> In i l -> (forall j, j <> i -> f j = g j) ->
  (List.length (filter g l) + b2n (f i) = List.length (filter f l) + b2n (g i))%nat.
Proof.
  induction l as [|x l IH]; cbn; intros Hnd Hin Hext; [contradiction|].
  inversion Hnd as [|? ? Hni Hnd']; subst.
  destruct (Nat.eq_dec x i) as [->|Hne].
  - assert (E : List.length (filter g l) = List.length (filter f l)).
    { apply count_ext. intros j Hj. symmetry. apply Hext. intros ->; contradiction. }
    destruct (f i), (g i); cbn; lia.
  - destruct Hin as [?|Hin]; [contradiction|].
    specialize (IH Hnd' Hin Hext). rewrite (Hext x Hne).
    destruct (g x); cbn; lia.
Qed.

Lemma count_pos (f : nat -> bool) l i : In i l -> f i = true -> (1 <= List.length (filter f l))%nat.
Proof.
  intros Hin Hf. assert (In i (filter f l)) by (apply filter_In; auto).
  destruct (filter f l); [contradiction|cbn; lia].
Qed.

Lemma upd_same {A} (f : nat -> A) k v : upd f k v k = v.
Proof. unfold upd. now rewrite Nat.eqb_refl. Qed.

Lemma upd_other {A} (f : nat -> A) k v x : x <> k -> upd f k v x = f x.
Proof. unfold upd. intros H. destruct (Nat.eqb_spec x k); congruence. Qed.

(** * The invariant *)

Definition registered (s : state) (c : nat) (o : conn) : bool :=
  match conns s (c_addr o) with Some c' => Nat.eqb c' c | None => false end.

Definition closes (s : state) (h : nat) : nat := count_occ Nat.eq_dec (close_log s) h.

(** what must hold of object [c], as a function of: is it the entry of its
    address, how many threads hold it, how often its handle was closed, does
    its creator still hold it *)
Definition obj_ok' (reg : bool) (hn cl : nat) (ch : bool) (c : nat) (o : conn) : Prop :=
  match c_ds o with
  | DStart | DInDial | DFailing _ =>
      reg = true /\ c_ready o = false /\ c_err o = None /\ c_cc o = None /\
      c_ref o = Z.of_nat hn /\ ch = true
  | DClosing =>
      reg = false /\ c_ready o = false /\ c_err o <> None /\ c_cc o = None
  | DDone =>
      c_ready o = true /\
      match c_err o with
      | Some _ => c_cc o = None /\ reg = false
      | None =>
          c_cc o = Some c /\ c_ref o = Z.of_nat hn /\
          ((reg = true /\ (1 <= hn)%nat /\ cl = 0%nat) \/ (reg = false /\ hn = 0%nat /\ cl = 1%nat))
      end
  end.

Definition obj_ok (s : state) (c : nat) (o : conn) : Prop :=
  obj_ok' (registered s c o) (holders s c) (closes s c) (holds_at s c c) c o.

Definition thread_ok (s : state) (t : thread) : Prop :=
  match t_obj t with
  | None => t_pc t = PRet (RErr ErrCtx) /\ t_once t = false
  | Some c =>
      exists o, objs s c = Some o /\ c_addr o = t_addr t /\
      match t_pc t with
      | PJoined | PWaiting => t_once t = false
      | PRet r => c_ready o = true /\ r = outcome o /\ (t_once t = true -> exists h, r = RConn h)
      end
  end.

Record inv (s : state) : Prop := {
  i_np : panicked s = false;
  i_nd : NoDup (tids s);
  i_thr_dom : forall i, In i (tids s) <-> thr s i <> None;
  i_obj_dom : forall c o, objs s c = Some o -> In c (tids s);
  i_conns : forall a c, conns s a = Some c -> exists o, objs s c = Some o /\ c_addr o = a;
  i_obj : forall c o, objs s c = Some o -> obj_ok s c o;
  i_thread : forall i t, thr s i = Some t -> thread_ok s t;
  i_close : forall h, In h (close_log s) -> exists o, objs s h = Some o /\ c_cc o = Some h;
  i_dial : forall c a, In (c, a) (dial_log s) ->
           exists o, objs s c = Some o /\ c_addr o = a /\ c_known o = true /\ c_ds o <> DStart;
  i_dial_nd : NoDup (map fst (dial_log s))
}.

Lemma inv_init : inv init.
Proof.
  constructor; cbn; try (intros; discriminate); try (intros; contradiction); try constructor.
  - intros [].
  - intros H; now apply H.
Qed.

(** ** frame lemmas *)

Lemma holders_ext s s' c :
  tids s' = tids s -> (forall i, In i (tids s) -> holds_at s' c i = holds_at s c i) ->
  holders s' c = holders s c.
Proof. unfold holders. intros -> H. now apply count_ext. Qed.

Lemma closes_zero s h : inv s -> (forall o, objs s h = Some o -> c_cc o <> Some h) -> closes s h = 0%nat.
Proof.
  intros I H. unfold closes. apply count_occ_not_In. intros Hin.
  destruct (i_close s I h Hin) as (o & Ho & Hc). eapply H; eauto.
Qed.

Lemma registered_iff s c o : registered s c o = true <-> conns s (c_addr o) = Some c.
Proof.
  unfold registered. destruct (conns s (c_addr o)) as [c'|]; [|split; discriminate].
  destruct (Nat.eqb_spec c' c); split; congruence.
Qed.

Lemma registered_false s c o : registered s c o = false <-> conns s (c_addr o) <> Some c.
Proof.
  rewrite <- registered_iff. destruct (registered s c o); split; congruence.
Qed.

Lemma holds_at_creator_pos s c : inv s -> holds_at s c c = true -> (1 <= holders s c)%nat.
Proof.
  intros I H. unfold holders. eapply count_pos; eauto.
  apply (i_thr_dom s I). unfold holds_at in H. destruct (thr s c); congruence.
Qed.

Lemma obj_ok'_failed reg hn cl ch reg' hn' cl' ch' c o :
  c_ds o = DDone -> c_err o <> None -> reg' = reg ->
  obj_ok' reg hn cl ch c o -> obj_ok' reg' hn' cl' ch' c o.
Proof.
  unfold obj_ok'. intros -> He ->. destruct (c_err o); [auto|congruence].
Qed.

Ltac upd_cases x k := unfold upd; destruct (Nat.eqb_spec x k).

(** ** component updates that keep the invariant *)

(** an object changes, keeping its address, reference count and registration *)
Lemma inv_set_obj s c o o' :
  inv s -> objs s c = Some o ->
  c_addr o' = c_addr o ->
  obj_ok' (registered s c o) (holders s c) (closes s c) (holds_at s c c) c o' ->
  (c_ready o = true -> c_ready o' = true /\ outcome o' = outcome o) ->
  (c_cc o = Some c -> c_cc o' = Some c) ->
  c_known o' = c_known o -> (c_ds o <> DStart -> c_ds o' <> DStart) ->
  inv (set_obj s c o').
Proof.
  intros I Ho Ha Hok Hr Hcc Hk Hds.
  constructor; cbn.
  - apply I.
  - apply I.
  - apply I.
  - intros c0 o0. upd_cases c0 c; [subst; intros _; eapply i_obj_dom; eauto|apply I].
  - intros a c0 H. destruct (i_conns s I a c0 H) as (o0 & Ho0 & Ha0).
    upd_cases c0 c; [subst|eauto]. exists o'. split; [reflexivity|]. congruence.
  - intros c0 o0. upd_cases c0 c.
    + subst. intros E; inversion E; subst o0; clear E.
      unfold obj_ok. replace (registered (set_obj s c o') c o') with (registered s c o); [exact Hok|].
      unfold registered. cbn. now rewrite Ha.
    + intros E. exact (i_obj s I c0 o0 E).
  - intros i t Ht. pose proof (i_thread s I i t Ht) as Hto. unfold thread_ok in *.
    destruct (t_obj t) as [c0|]; [|exact Hto].
    destruct Hto as (o0 & Ho0 & Ha0 & Hp). cbn. upd_cases c0 c; [subst c0|eauto].
    assert (o0 = o) by congruence; subst o0.
    exists o'. split; [reflexivity|]. split; [congruence|].
    destruct (t_pc t); auto. destruct Hp as (Hrd & Hout & Hon).
    destruct (Hr Hrd) as [Hr1 Hr2]. repeat split; auto. congruence.
  - intros h Hh. destruct (i_close s I h Hh) as (o0 & Ho0 & Hc0).
    upd_cases h c; [subst h|eauto]. assert (o0 = o) by congruence; subst o0. eauto.
  - intros c0 a Hd. destruct (i_dial s I c0 a Hd) as (o0 & Ho0 & Ha0 & Hk0 & Hd0).
    upd_cases c0 c; [subst c0|eauto]. assert (o0 = o) by congruence; subst o0.
    exists o'. repeat split; auto; congruence.
  - apply I.
Qed.

(** a thread moves on, staying with its object *)
Lemma inv_set_thread s i t t' :
  inv s -> thr s i = Some t -> thread_ok s t' ->
  (forall c, holds c t' = holds c t \/ exists o, objs s c = Some o /\ c_ds o = DDone /\ c_err o <> None) ->
  inv (set_thread s i t').
Proof.
  intros I Ht Hok Hh.
  assert (Hin : In i (tids s)) by (apply (i_thr_dom s I); congruence).
  constructor; cbn.
  - apply I.
  - apply I.
  - intros j. rewrite (i_thr_dom s I j). upd_cases j i; [subst|tauto]. split; congruence.
  - apply I.
  - apply I.
  - intros c o Ho. pose proof (i_obj s I c o Ho) as Hob. unfold obj_ok in *.
    change (registered (set_thread s i t') c o) with (registered s c o).
    change (closes (set_thread s i t') c) with (closes s c).
    destruct (Hh c) as [Heq|(o1 & Ho1 & Hd1 & He1)].
    + assert (Hat : forall j, holds_at (set_thread s i t') c j = holds_at s c j).
      { intros j. unfold holds_at. cbn. upd_cases j i; [subst|reflexivity]. now rewrite Ht. }
      rewrite Hat. rewrite (holders_ext s (set_thread s i t') c); auto.
    + assert (o1 = o) by congruence; subst o1.
      eapply obj_ok'_failed; eauto.
  - intros j tj. upd_cases j i; [subst; intros E; inversion E; subst; exact Hok|].
    intros Hj. exact (i_thread s I j tj Hj).
  - apply I.
  - apply I.
  - apply I.
Qed.

Lemma ready_done s c o : inv s -> objs s c = Some o -> c_ready o = true -> c_ds o = DDone.
Proof.
  intros I Ho Hr. pose proof (i_obj s I c o Ho) as H. unfold obj_ok, obj_ok' in H.
  destruct (c_ds o); try reflexivity; destruct H as (_ & H & _); congruence.
Qed.

Lemma holds_other c c' t : t_obj t = Some c -> c' <> c -> holds c' t = false.
Proof.
  intros Ho Hn. unfold holds. rewrite Ho. destruct (Nat.eqb_spec c c'); [congruence|reflexivity].
Qed.

(** ** the steps, one by one *)

Lemma inv_cancel s i : inv s -> inv (set_cancelled s (upd (cancelled s) i true)).
Proof. intros I. destruct I. constructor; assumption. Qed.

Lemma inv_pass s i s' : inv s -> step s (LPass i) = Some s' -> inv s'.
Proof.
  intros I H. unfold step in H. rewrite (i_np s I) in H.
  destruct (thr s i) as [t|] eqn:Et; [|discriminate].
  destruct (t_pc t) eqn:Ep; try discriminate. inversion H; subst s'; clear H.
  pose proof (i_thread s I i t Et) as Hto.
  eapply inv_set_thread; eauto.
  - unfold thread_ok in *. cbn. destruct (t_obj t); [|rewrite Ep in Hto; destruct Hto; discriminate].
    destruct Hto as (o & Ho & Ha & Hp). exists o. rewrite Ep in Hp. auto.
  - intros c. left. unfold holds. cbn. now rewrite Ep.
Qed.

Lemma inv_wait s i s' : inv s -> step s (LWait i) = Some s' -> inv s'.
Proof.
  intros I H. unfold step in H. rewrite (i_np s I) in H.
  destruct (thr s i) as [t|] eqn:Et; [|discriminate].
  destruct (t_pc t) eqn:Ep; try discriminate.
  destruct (t_obj t) as [c|] eqn:Eo; [|discriminate].
  destruct (objs s c) as [o|] eqn:Ec; [|discriminate].
  destruct (c_ready o) eqn:Er; [|discriminate].
  pose proof (i_thread s I i t Et) as Hto. unfold thread_ok in Hto. rewrite Eo, Ep in Hto.
  destruct Hto as (o1 & Ho1 & Ha1 & Hon). assert (o1 = o) by congruence; subst o1.
  pose proof (ready_done s c o I Ec Er) as Hdd.
  destruct (c_err o) as [e|] eqn:Ee; inversion H; subst s'; clear H.
  - eapply inv_set_thread; eauto.
    + unfold thread_ok. cbn. rewrite Eo. exists o. repeat split; auto.
      * unfold outcome. now rewrite Ee.
      * congruence.
    + intros c0. destruct (Nat.eq_dec c0 c) as [->|Hn].
      * right. exists o. repeat split; auto. congruence.
      * left. rewrite !(holds_other c c0); auto.
  - eapply inv_set_thread; eauto.
    + unfold thread_ok. cbn. rewrite Eo. exists o. repeat split; auto.
      * unfold outcome. now rewrite Ee.
      * congruence.
    + intros c0. left. unfold holds. cbn. rewrite Eo, Ep, Hon. reflexivity.
Qed.

Lemma inv_spawn s c s' : inv s -> step s (LSpawn c) = Some s' -> inv s'.
Proof.
  intros I H. unfold step in H. rewrite (i_np s I) in H.
  destruct (objs s c) as [o|] eqn:Ec; [|discriminate].
  destruct (c_ds o) eqn:Ed; try discriminate.
  pose proof (i_obj s I c o Ec) as Hob. unfold obj_ok, obj_ok' in Hob. rewrite Ed in Hob.
  destruct Hob as (Hreg & Hrd & Herr & Hcc & Href & Hch).
  destruct (c_known o) eqn:Ek; inversion H; subst s'; clear H.
  - assert (I1 : inv (set_obj s c (with_ds o DInDial))).
    { eapply inv_set_obj; eauto; cbn; try congruence.
      unfold obj_ok'. cbn. repeat split; auto. }
    assert (Hni : ~ In c (map fst (dial_log s))).
    { intros Hin. apply in_map_iff in Hin. destruct Hin as ([c1 a1] & E1 & Hin). cbn in E1. subst c1.
      destruct (i_dial s I c a1 Hin) as (o1 & Ho1 & _ & _ & Hd1). congruence. }
    destruct I1. constructor; try assumption.
    + cbn. intros c0 a [E|Hin].
      * inversion E; subst. exists (with_ds o DInDial). rewrite upd_same. cbn. repeat split; auto. discriminate.
      * apply (i_dial0 c0 a Hin).
    + cbn. constructor; assumption.
  - eapply inv_set_obj; eauto; cbn; try congruence.
    unfold obj_ok'. cbn. repeat split; auto.
Qed.

Lemma inv_dialret s c ok s' : inv s -> step s (LDialRet c ok) = Some s' -> inv s'.
Proof.
  intros I H. unfold step in H. rewrite (i_np s I) in H.
  destruct (objs s c) as [o|] eqn:Ec; [|discriminate].
  destruct (c_ds o) eqn:Ed; try discriminate.
  pose proof (i_obj s I c o Ec) as Hob. unfold obj_ok, obj_ok' in Hob. rewrite Ed in Hob.
  destruct Hob as (Hreg & Hrd & Herr & Hcc & Href & Hch).
  destruct ok; inversion H; subst s'; clear H.
  - eapply inv_set_obj; eauto; cbn; try congruence.
    unfold obj_ok'. cbn. rewrite Herr. repeat split; auto. left. repeat split; auto.
    + now apply holds_at_creator_pos.
    + apply closes_zero; auto. intros o1 Ho1. congruence.
  - eapply inv_set_obj; eauto; cbn; try congruence.
    unfold obj_ok'. cbn. repeat split; auto.
Qed.

Lemma inv_dialctx s c s' : inv s -> step s (LDialCtx c) = Some s' -> inv s'.
Proof.
  intros I H. unfold step in H. rewrite (i_np s I) in H.
  destruct (objs s c) as [o|] eqn:Ec; [|discriminate].
  destruct (c_ds o) eqn:Ed; try discriminate.
  pose proof (i_obj s I c o Ec) as Hob. unfold obj_ok, obj_ok' in Hob. rewrite Ed in Hob.
  destruct Hob as (Hreg & Hrd & Herr & Hcc & Href & Hch).
  destruct (cancelled s c); inversion H; subst s'; clear H.
  eapply inv_set_obj; eauto; cbn; try congruence.
  unfold obj_ok'. cbn. repeat split; auto.
Qed.

Lemma inv_failready s c s' : inv s -> step s (LFailReady c) = Some s' -> inv s'.
Proof.
  intros I H. unfold step in H. rewrite (i_np s I) in H.
  destruct (objs s c) as [o|] eqn:Ec; [|discriminate].
  destruct (c_ds o) eqn:Ed; try discriminate.
  pose proof (i_obj s I c o Ec) as Hob. unfold obj_ok, obj_ok' in Hob. rewrite Ed in Hob.
  destruct Hob as (Hreg & Hrd & Herr & Hcc).
  inversion H; subst s'; clear H.
  eapply inv_set_obj; eauto; cbn; try congruence.
  unfold obj_ok'. cbn. destruct (c_err o); [auto|congruence].
Qed.

(** another object's registration is not affected when the entry of [a],
    which points to [c], is deleted or when an empty entry is filled with [c] *)
Lemma registered_other s (cn : nat -> option nat) a c v c0 o0 :
  c0 <> c ->
  (conns s a = Some c \/ conns s a = None) -> (v = None \/ v = Some c) ->
  registered (set_conns s (upd (conns s) a v)) c0 o0 = registered s c0 o0.
Proof.
  intros Hn Hs Hv. unfold registered. cbn. upd_cases (c_addr o0) a; [|reflexivity].
  rewrite e.
  assert (E1 : match conns s a with Some c' => Nat.eqb c' c0 | None => false end = false).
  { destruct Hs as [->| ->]; [|reflexivity]. destruct (Nat.eqb_spec c c0); congruence. }
  rewrite E1. destruct Hv as [->| ->]; [reflexivity|]. destruct (Nat.eqb_spec c c0); congruence.
Qed.

Lemma inv_faillock s c s' : inv s -> step s (LFailLock c) = Some s' -> inv s'.
Proof.
  intros I H. unfold step in H. rewrite (i_np s I) in H.
  destruct (objs s c) as [o|] eqn:Ec; [|discriminate].
  destruct (c_ds o) eqn:Ed; try discriminate.
  pose proof (i_obj s I c o Ec) as Hob. unfold obj_ok, obj_ok' in Hob. rewrite Ed in Hob.
  destruct Hob as (Hreg & Hrd & Herr & Hcc & Href & Hch).
  apply registered_iff in Hreg.
  unfold remove in H. rewrite Hreg, Ec, Hcc in H. cbn in H. rewrite (i_np s I) in H.
  inversion H; subst s'; clear H.
  set (a := c_addr o) in *.
  constructor; cbn.
  - apply I.
  - apply I.
  - apply I.
  - intros c0 o0. upd_cases c0 c; [subst; intros _; eapply i_obj_dom; eauto|apply I].
  - intros a0 c0. upd_cases a0 a; [discriminate|]. intros H.
    destruct (i_conns s I a0 c0 H) as (o0 & Ho0 & Ha0).
    upd_cases c0 c; [|eauto]. subst c0. assert (o0 = o) by congruence; subst o0. exfalso. apply n. subst a. congruence.
  - intros c0 o0. upd_cases c0 c.
    + subst c0. intros E; inversion E; subst o0; clear E.
      unfold obj_ok, obj_ok'. cbn. repeat split; auto; try discriminate.
      unfold registered. cbn. subst a. now rewrite Nat.eqb_refl.
    + intros E. pose proof (i_obj s I c0 o0 E) as Hob. unfold obj_ok in *.
      match goal with |- obj_ok' ?r _ _ _ _ _ => replace r with (registered s c0 o0) end; [exact Hob|].
      symmetry. apply (registered_other s (conns s) a c None c0 o0); auto.
  - intros i t Ht. pose proof (i_thread s I i t Ht) as Hto. unfold thread_ok in *.
    destruct (t_obj t) as [c0|]; [|exact Hto].
    destruct Hto as (o0 & Ho0 & Ha0 & Hp). cbn. upd_cases c0 c; [subst c0|eauto].
    assert (o0 = o) by congruence; subst o0.
    eexists. split; [reflexivity|]. split; [exact Ha0|].
    destruct (t_pc t); auto. destruct Hp; congruence.
  - intros h Hh. destruct (i_close s I h Hh) as (o0 & Ho0 & Hc0).
    upd_cases h c; [subst h|eauto]. assert (o0 = o) by congruence; subst o0. congruence.
  - intros c0 a0 Hd. destruct (i_dial s I c0 a0 Hd) as (o0 & Ho0 & Ha0 & Hk0 & Hd0).
    upd_cases c0 c; [subst c0|eauto]. assert (o0 = o) by congruence; subst o0.
    eexists. split; [reflexivity|]. cbn. repeat split; auto. discriminate.
  - apply I.
Qed.

Arguments holders : simpl never.
Arguments holds_at : simpl never.
Arguments closes : simpl never.
Arguments registered : simpl never.

Lemma inv_release s i s' : inv s -> step s (LRelease i) = Some s' -> inv s'.
Proof.
  intros I H. unfold step in H. rewrite (i_np s I) in H.
  destruct (thr s i) as [t|] eqn:Et; [|discriminate].
  destruct (t_pc t) as [| |r] eqn:Ep; try discriminate.
  destruct r as [e|h]; [inversion H; subst; exact I|].
  destruct (t_obj t) as [c|] eqn:Eo; [|discriminate].
  destruct (t_once t) eqn:Eon; [inversion H; subst; exact I|].
  destruct (t_run t) eqn:Erun; [|discriminate]. cbn [negb] in H.
  destruct (objs s c) as [o|] eqn:Ec; [|discriminate].
  pose proof (i_thread s I i t Et) as Hto. unfold thread_ok in Hto. rewrite Eo, Ep in Hto.
  destruct Hto as (o1 & Ho1 & Ha1 & Hrd & Hout & _). assert (o1 = o) by congruence; subst o1.
  unfold outcome in Hout. destruct (c_err o) eqn:Eerr; [discriminate|].
  pose proof (ready_done s c o I Ec Hrd) as Hdd.
  pose proof (i_obj s I c o Ec) as Hob. unfold obj_ok, obj_ok' in Hob. rewrite Hdd, Eerr in Hob.
  destruct Hob as (_ & Hcc & Href & Hdisj).
  assert (Hhi : holds_at s c i = true).
  { unfold holds_at. rewrite Et. unfold holds. now rewrite Eo, Ep, Eon, Nat.eqb_refl. }
  assert (Hin : In i (tids s)) by (apply (i_thr_dom s I); congruence).
  assert (Hpos : (1 <= holders s c)%nat) by (unfold holders; eapply count_pos; eauto).
  destruct Hdisj as [(Hreg & _ & Hcl)|(_ & H0 & _)]; [|lia].
  apply registered_iff in Hreg.
  set (o' := with_ref o (c_ref o - 1)) in *. set (t' := with_once t) in *.
  set (s1 := set_thread (set_obj s c o') i t') in *.
  assert (Hti : forall c0, holds c0 t' = false).
  { intros c0. unfold holds, t'. cbn. rewrite Eo, Ep. cbn. apply andb_false_r. }
  assert (Hh1 : (holders s1 c + 1 = holders s c)%nat).
  { pose proof (count_upd (holds_at s c) (holds_at s1 c) (tids s) i (i_nd s I) Hin) as X.
    rewrite Hhi in X.
    assert (E : holds_at s1 c i = false) by (unfold holds_at, s1; cbn; rewrite upd_same; apply Hti).
    rewrite E in X. cbn in X. unfold holders. change (tids s1) with (tids s).
    assert (P : forall j, j <> i -> holds_at s c j = holds_at s1 c j).
    { intros j Hj. unfold holds_at, s1. cbn. now rewrite upd_other. }
    specialize (X P). lia. }
  assert (Hat : forall c0 j, c0 <> c -> holds_at s1 c0 j = holds_at s c0 j).
  { intros c0 j Hn. unfold holds_at, s1. cbn. upd_cases j i; [subst j|reflexivity].
    rewrite Et, Hti. symmetry. eapply holds_other; eauto. }
  assert (Hho : forall c0, c0 <> c -> holders s1 c0 = holders s c0).
  { intros c0 Hn. apply holders_ext; auto. }
  assert (Hthr : forall j tj, thr s1 j = Some tj -> thread_ok s1 tj).
  { intros j tj. unfold s1. cbn. upd_cases j i.
    - intros E; inversion E; subst tj; clear E. unfold thread_ok, t'. cbn. rewrite Eo.
      exists o'. rewrite upd_same. split; [reflexivity|]. split; [exact Ha1|]. rewrite Ep.
      repeat split; auto. unfold outcome, o'; cbn. now rewrite Eerr. intros _. eauto.
    - intros Hj. pose proof (i_thread s I j tj Hj) as Hto. unfold thread_ok in *.
      destruct (t_obj tj) as [c0|]; [|exact Hto]. destruct Hto as (o0 & Ho0 & Ha0 & Hp).
      cbn. upd_cases c0 c; [subst c0|eauto]. assert (o0 = o) by congruence; subst o0.
      exists o'. split; [reflexivity|]. split; [exact Ha0|]. exact Hp. }
  assert (Hthr_dom : forall j, In j (tids s) <-> thr s1 j <> None).
  { intros j. rewrite (i_thr_dom s I j). unfold s1; cbn. upd_cases j i; [subst|tauto]. split; congruence. }
  assert (Hobj_dom : forall c0 o0, objs s1 c0 = Some o0 -> In c0 (tids s)).
  { intros c0 o0. unfold s1; cbn. upd_cases c0 c; [subst; intros _; eapply i_obj_dom; eauto|apply I]. }
  assert (Hdial : forall c0 a0, In (c0, a0) (dial_log s) ->
            exists o0, objs s1 c0 = Some o0 /\ c_addr o0 = a0 /\ c_known o0 = true /\ c_ds o0 <> DStart).
  { intros c0 a0 Hd. destruct (i_dial s I c0 a0 Hd) as (o0 & Ho0 & Ha0 & Hk0 & Hd0).
    unfold s1; cbn. upd_cases c0 c; [subst c0|eauto]. assert (o0 = o) by congruence; subst o0.
    exists o'. repeat split; auto. }
  assert (Hclose : forall h0, In h0 (close_log s) -> exists o0, objs s1 h0 = Some o0 /\ c_cc o0 = Some h0).
  { intros h0 Hh. destruct (i_close s I h0 Hh) as (o0 & Ho0 & Hc0).
    unfold s1; cbn. upd_cases h0 c; [subst h0|eauto]. assert (o0 = o) by congruence; subst o0. eauto. }
  assert (Hother : forall c0 o0, c0 <> c -> objs s c0 = Some o0 ->
            obj_ok' (registered s c0 o0) (holders s1 c0) (closes s c0) (holds_at s1 c0 c0) c0 o0).
  { intros c0 o0 Hn E. rewrite Hho, Hat by auto. exact (i_obj s I c0 o0 E). }
  destruct (Z.leb (c_ref o') 0) eqn:Ele; inversion H; subst s'; clear H.
  - (* last holder: remove *)
    apply Z.leb_le in Ele. unfold o' in Ele; cbn in Ele.
    assert (Hz : holders s1 c = 0%nat) by lia.
    unfold remove. change (c_addr o') with (c_addr o).
    change (conns s1 (c_addr o)) with (conns s (c_addr o)). rewrite Hreg.
    change (objs s1 c) with (upd (objs s) c (Some o') c). rewrite upd_same.
    change (c_cc o') with (c_cc o). rewrite Hcc. cbn.
    constructor; cbn.
    + apply I.
    + apply I.
    + exact Hthr_dom.
    + exact Hobj_dom.
    + intros a0 c0. upd_cases a0 (c_addr o); [discriminate|]. intros H.
      destruct (i_conns s I a0 c0 H) as (o0 & Ho0 & Ha0).
      upd_cases c0 c; [|eauto]. subst c0. assert (o0 = o) by congruence; subst o0. congruence.
    + intros c0 o0. upd_cases c0 c.
      * subst c0. intros E; inversion E; subst o0; clear E.
        unfold obj_ok, obj_ok', o'. cbn [c_ds c_err c_cc c_ref c_ready with_ref]. rewrite Hdd, Eerr.
        change (holders _ c) with (holders s1 c).
        repeat split; auto.
        { lia. }
        right. repeat split.
        { unfold registered. cbn. now rewrite Nat.eqb_refl. }
        { exact Hz. }
        { unfold closes. cbn. destruct (Nat.eq_dec c c); [|congruence]. unfold closes in Hcl. now rewrite Hcl. }
      * intros E. pose proof (Hother c0 o0 n E) as Hob. unfold obj_ok.
        match goal with |- obj_ok' ?r ?hn ?cl ?ch _ _ =>
          replace r with (registered s c0 o0); [replace cl with (closes s c0); [exact Hob|]|] end.
        { unfold closes. cbn. destruct (Nat.eq_dec c c0); [congruence|reflexivity]. }
        { symmetry. apply (registered_other s (conns s) (c_addr o) c None c0 o0); auto. }
    + exact Hthr.
    + intros h0 [E|Hh]; [subst h0|exact (Hclose h0 Hh)]. exists o'. rewrite upd_same. auto.
    + exact Hdial.
    + apply I.
  - apply Z.leb_gt in Ele. unfold o' in Ele; cbn in Ele.
    constructor.
    + apply I.
    + apply I.
    + exact Hthr_dom.
    + exact Hobj_dom.
    + intros a0 c0 H. destruct (i_conns s I a0 c0 H) as (o0 & Ho0 & Ha0).
      unfold s1; cbn. upd_cases c0 c; [subst|eauto]. assert (o0 = o) by congruence; subst o0. eauto.
    + intros c0 o0. unfold s1 at 1. cbn. upd_cases c0 c.
      * subst c0. intros E; inversion E; subst o0; clear E.
        unfold obj_ok, obj_ok', o'. cbn [c_ds c_err c_cc c_ref c_ready with_ref]. rewrite Hdd, Eerr.
        repeat split; auto.
        { lia. }
        left. repeat split.
        { apply registered_iff. exact Hreg. }
        { lia. }
        { exact Hcl. }
      * intros E. exact (Hother c0 o0 n E).
    + exact Hthr.
    + exact Hclose.
    + exact Hdial.
    + apply I.
Qed.

Lemma holders_new s s' i t0 c :
  ~ In i (tids s) -> tids s' = i :: tids s -> thr s' = upd (thr s) i (Some t0) ->
  holders s' c = (b2n (holds c t0) + holders s c)%nat.
Proof.
  unfold holders. intros Hni -> Hthr. cbn. unfold holds_at at 1. rewrite Hthr, upd_same.
  assert (E : List.length (filter (holds_at s' c) (tids s)) = List.length (filter (holds_at s c) (tids s))).
  { apply count_ext. intros j Hj. unfold holds_at. rewrite Hthr, upd_other; auto. intros ->; contradiction. }
  destruct (holds c t0); cbn; rewrite E; reflexivity.
Qed.

Lemma inv_req s i a k s' : inv s -> step s (LReq i a k) = Some s' -> inv s'.
Proof.
  intros I H. unfold step in H. rewrite (i_np s I) in H.
  destruct (thr s i) as [t|] eqn:Et; [discriminate|].
  destruct (objs s i) as [oi|] eqn:Eoi; [discriminate|].
  assert (Hni : ~ In i (tids s)) by (rewrite (i_thr_dom s I); congruence).
  assert (Hobj_ne : forall c o, objs s c = Some o -> c <> i) by (intros c o Hc ->; congruence).
  assert (Hnd : NoDup (i :: tids s)) by (constructor; [exact Hni|apply I]).
  assert (Hdom : forall s1 t0, tids s1 = i :: tids s -> thr s1 = upd (thr s) i (Some t0) ->
            forall j, In j (tids s1) <-> thr s1 j <> None).
  { intros s1 t0 -> -> j. cbn. rewrite (i_thr_dom s I j). upd_cases j i; [subst|].
    - split; [congruence|auto].
    - split; [intros [E|E]; [congruence|exact E]|auto]. }
  assert (Hat : forall s1 t0 c j, thr s1 = upd (thr s) i (Some t0) -> j <> i -> holds_at s1 c j = holds_at s c j).
  { intros s1 t0 c j E Hn. unfold holds_at. now rewrite E, upd_other. }
  destruct (cancelled s i) eqn:Eca.
  - (* refused at the ctx check *)
    inversion H; subst s'; clear H.
    set (t0 := {| t_addr := a; t_obj := None; t_pc := PRet (RErr ErrCtx); t_run := false; t_once := false |}) in *.
    set (s1 := set_thread (set_tids s (i :: tids s)) i t0) in *.
    assert (Hh : forall c, holders s1 c = holders s c).
    { intros c. rewrite (holders_new s s1 i t0 c); auto. }
    constructor.
    + apply I.
    + exact Hnd.
    + eapply Hdom; reflexivity.
    + intros c o Hc. right. exact (i_obj_dom s I c o Hc).
    + apply I.
    + intros c o Hc. change (objs s1 c) with (objs s c) in Hc.
      pose proof (i_obj s I c o Hc) as Hob. unfold obj_ok in *.
      change (registered s1 c o) with (registered s c o). change (closes s1 c) with (closes s c).
      rewrite Hh, (Hat s1 t0 c c); auto. eapply Hobj_ne; eauto.
    + intros j tj. unfold s1; cbn. upd_cases j i.
      * intros E; inversion E; subst tj. unfold thread_ok; cbn. auto.
      * intros Hj. exact (i_thread s I j tj Hj).
    + apply I.
    + apply I.
    + apply I.
  - destruct (conns s a) as [cid|] eqn:Eca2.
    + (* join the entry of this address *)
      destruct (objs s cid) as [o|] eqn:Ec; [|discriminate].
      inversion H; subst s'; clear H.
      destruct (i_conns s I a cid Eca2) as (o1 & Ho1 & Ha1). assert (o1 = o) by congruence; subst o1.
      assert (Hci : cid <> i) by (eapply Hobj_ne; eauto).
      set (t0 := {| t_addr := a; t_obj := Some cid; t_pc := PJoined; t_run := false; t_once := false |}) in *.
      set (o' := with_ref o (c_ref o + 1)) in *.
      set (s1 := set_thread (set_obj (set_tids s (i :: tids s)) cid o') i t0) in *.
      assert (Hh : forall c, holders s1 c = (b2n (Nat.eqb cid c) + holders s c)%nat).
      { intros c. rewrite (holders_new s s1 i t0 c); auto. unfold holds, t0; cbn. now rewrite andb_true_r. }
      constructor.
      * apply I.
      * exact Hnd.
      * eapply Hdom; reflexivity.
      * intros c o0. unfold s1; cbn. upd_cases c cid; [subst; intros _; right; eapply i_obj_dom; eauto|].
        intros Hc; right; exact (i_obj_dom s I c o0 Hc).
      * intros a0 c0 H. destruct (i_conns s I a0 c0 H) as (o0 & Ho0 & Ha0).
        unfold s1; cbn. upd_cases c0 cid; [subst|eauto]. assert (o0 = o) by congruence; subst o0. eauto.
      * intros c o0. unfold s1 at 1; cbn. upd_cases c cid.
        -- subst c. intros E; inversion E; subst o0; clear E.
           pose proof (i_obj s I cid o Ec) as Hob. unfold obj_ok, obj_ok' in *.
           change (registered s1 cid o') with (registered s cid o). change (closes s1 cid) with (closes s cid).
           rewrite Hh, Nat.eqb_refl, (Hat s1 t0 cid cid); auto.
           assert (Hreg : registered s cid o = true) by (apply registered_iff; congruence).
           unfold o'; cbn [c_ds c_err c_cc c_ref c_ready with_ref].
           destruct (c_ds o).
           ++ destruct Hob as (? & ? & ? & ? & Hr & ?). repeat split; auto. rewrite Hr. cbn [b2n]. lia.
           ++ destruct Hob as (? & ? & ? & ? & Hr & ?). repeat split; auto. rewrite Hr. cbn [b2n]. lia.
           ++ destruct Hob as (? & ? & ? & ? & Hr & ?). repeat split; auto. rewrite Hr. cbn [b2n]. lia.
           ++ destruct Hob as (? & _). congruence.
           ++ destruct Hob as (Hrd & Hob). split; [exact Hrd|]. destruct (c_err o).
              ** destruct Hob; congruence.
              ** destruct Hob as (Hcc & Hr & Hd). repeat split; auto.
                 { rewrite Hr. cbn [b2n]. lia. }
                 destruct Hd as [(_ & Hp & Hcl)|(Hf & _)]; [|congruence].
                 left. repeat split; auto; cbn [b2n]; lia.
        -- intros E. pose proof (i_obj s I c o0 E) as Hob. unfold obj_ok in *.
           change (registered s1 c o0) with (registered s c o0). change (closes s1 c) with (closes s c).
           rewrite Hh, (Hat s1 t0 c c); auto.
           ++ destruct (Nat.eqb_spec cid c); [congruence|exact Hob].
           ++ eapply Hobj_ne; eauto.
      * intros j tj. unfold s1; cbn. upd_cases j i.
        -- intros E; inversion E; subst tj. unfold thread_ok, t0; cbn. rewrite upd_same.
           exists o'. auto.
        -- intros Hj. pose proof (i_thread s I j tj Hj) as Hto. unfold thread_ok in *.
           destruct (t_obj tj) as [c0|]; [|exact Hto]. destruct Hto as (o0 & Ho0 & Ha0 & Hp). cbn.
           upd_cases c0 cid; [subst c0|eauto]. assert (o0 = o) by congruence; subst o0.
           exists o'. auto.
      * intros h Hh0. destruct (i_close s I h Hh0) as (o0 & Ho0 & Hc0).
        unfold s1; cbn. upd_cases h cid; [subst h|eauto]. assert (o0 = o) by congruence; subst o0. eauto.
      * intros c0 a0 Hd. destruct (i_dial s I c0 a0 Hd) as (o0 & Ho0 & Ha0 & Hk0 & Hd0).
        unfold s1; cbn. upd_cases c0 cid; [subst c0|eauto]. assert (o0 = o) by congruence; subst o0.
        exists o'. repeat split; auto.
      * apply I.
    + (* no entry: create the object, start its dialer *)
      inversion H; subst s'; clear H.
      set (t0 := {| t_addr := a; t_obj := Some i; t_pc := PJoined; t_run := false; t_once := false |}) in *.
      set (o' := with_ref (new_conn a k) 1) in *.
      set (s1 := set_thread (set_obj (set_conns (set_tids s (i :: tids s)) (upd (conns s) a (Some i))) i o') i t0) in *.
      assert (Hh : forall c, holders s1 c = (b2n (Nat.eqb i c) + holders s c)%nat).
      { intros c. rewrite (holders_new s s1 i t0 c); auto. unfold holds, t0; cbn. now rewrite andb_true_r. }
      assert (Hz : holders s i = 0%nat).
      { unfold holders. destruct (filter (holds_at s i) (tids s)) as [|j l] eqn:Ef; [reflexivity|exfalso].
        assert (Hj : In j (filter (holds_at s i) (tids s))) by (rewrite Ef; left; reflexivity).
        apply filter_In in Hj. destruct Hj as [_ Hj]. unfold holds_at in Hj.
        destruct (thr s j) as [tj|] eqn:Etj; [|discriminate].
        pose proof (i_thread s I j tj Etj) as Hto. unfold thread_ok in Hto. unfold holds in Hj.
        destruct (t_obj tj) as [c0|]; [|discriminate].
        destruct (Nat.eqb_spec c0 i); [subst c0|discriminate].
        destruct Hto as (o0 & Ho0 & _). congruence. }
      constructor.
      * apply I.
      * exact Hnd.
      * eapply Hdom; reflexivity.
      * intros c o0. unfold s1; cbn. upd_cases c i; [subst; intros _; left; reflexivity|].
        intros Hc; right; exact (i_obj_dom s I c o0 Hc).
      * intros a0 c0. unfold s1; cbn. upd_cases a0 a.
        -- subst a0. intros E; inversion E; subst c0. rewrite Nat.eqb_refl. exists o'. auto.
        -- intros H. destruct (i_conns s I a0 c0 H) as (o0 & Ho0 & Ha0).
           upd_cases c0 i; [subst; congruence|eauto].
      * intros c o0. unfold s1 at 1; cbn. upd_cases c i.
        -- subst c. intros E; inversion E; subst o0; clear E.
           unfold obj_ok, obj_ok', o'. cbn [c_ds c_err c_cc c_ref c_ready with_ref new_conn].
           repeat split; auto.
           ++ unfold registered, s1; cbn. rewrite upd_same. apply Nat.eqb_refl.
           ++ rewrite Hh, Nat.eqb_refl, Hz. reflexivity.
           ++ unfold holds_at, s1; cbn. rewrite upd_same. unfold holds, t0; cbn. now rewrite Nat.eqb_refl.
        -- intros E. pose proof (i_obj s I c o0 E) as Hob. unfold obj_ok in *.
           change (closes s1 c) with (closes s c).
           rewrite Hh, (Hat s1 t0 c c); auto.
           destruct (Nat.eqb_spec i c); [congruence|]. cbn [b2n plus].
           replace (registered s1 c o0) with (registered s c o0); [exact Hob|].
           symmetry. apply (registered_other s (conns s) a i (Some i) c o0); auto.
      * intros j tj. unfold s1; cbn. upd_cases j i.
        -- intros E; inversion E; subst tj. unfold thread_ok, t0; cbn. rewrite upd_same.
           exists o'. auto.
        -- intros Hj. pose proof (i_thread s I j tj Hj) as Hto. unfold thread_ok in *.
           destruct (t_obj tj) as [c0|]; [|exact Hto]. destruct Hto as (o0 & Ho0 & Ha0 & Hp). cbn.
           upd_cases c0 i; [subst; congruence|eauto].
      * intros h Hh0. destruct (i_close s I h Hh0) as (o0 & Ho0 & Hc0).
        unfold s1; cbn. upd_cases h i; [subst; congruence|eauto].
      * intros c0 a0 Hd. destruct (i_dial s I c0 a0 Hd) as (o0 & Ho0 & Ha0 & Hk0 & Hd0).
        unfold s1; cbn. upd_cases c0 i; [subst; congruence|eauto].
      * apply I.
Qed.

Lemma inv_relbegin s i s' : inv s -> step s (LRelBegin i) = Some s' -> inv s'.
Proof.
  intros I H. unfold step in H. rewrite (i_np s I) in H.
  destruct (thr s i) as [t|] eqn:Et; [|discriminate].
  destruct (t_pc t) as [| |r] eqn:Ep; try discriminate.
  destruct r as [e|h]; [inversion H; subst; exact I|].
  destruct (t_obj t) as [c|] eqn:Eo; [|discriminate].
  destruct (t_once t || t_run t); inversion H; subst s'; clear H; [exact I|].
  pose proof (i_thread s I i t Et) as Hto.
  eapply inv_set_thread; eauto.
  all: try (intros c0; left; reflexivity).
Qed.

Lemma inv_step s l s' : inv s -> step s l = Some s' -> inv s'.
Proof.
  intros I H. destruct l.
  - eapply inv_req; eauto.
  - eapply inv_spawn; eauto.
  - eapply inv_dialret; eauto.
  - eapply inv_dialctx; eauto.
  - eapply inv_faillock; eauto.
  - eapply inv_failready; eauto.
  - eapply inv_pass; eauto.
  - eapply inv_wait; eauto.
  - eapply inv_relbegin; eauto.
  - eapply inv_release; eauto.
  - unfold step in H. rewrite (i_np s I) in H. inversion H; subst. now apply inv_cancel.
Qed.

Theorem inv_reachable s : reachable s -> inv s.
Proof.
  apply invariant_induction; [exact inv_init|]. intros s0 l s' _ I H. eapply inv_step; eauto.
Qed.

(** * The property, over every schedule *)

(** an attempt to connect to [a] is in progress on object [c]: the dialer has
    not yet decided, or has failed and not yet cleaned up *)
Definition pending (s : state) (c a : nat) : Prop :=
  exists o, objs s c = Some o /\ c_addr o = a /\
            (c_ds o = DStart \/ c_ds o = DInDial \/ exists e, c_ds o = DFailing e).

Lemma pending_registered s c a : inv s -> pending s c a -> conns s a = Some c.
Proof.
  intros I (o & Ho & Ha & Hd). pose proof (i_obj s I c o Ho) as Hob. unfold obj_ok, obj_ok' in Hob.
  subst a. apply registered_iff.
  destruct Hd as [Hd|[Hd|[e Hd]]]; rewrite Hd in Hob; tauto.
Qed.

(** remove_precondition: the process never panics, in particular the `!ok`
    branch of Manager.remove (nil dereference) is never taken; and both callers
    of remove delete the entry of their own connection object *)
Theorem never_panics s : reachable s -> panicked s = false.
Proof. intros H. apply (i_np s (inv_reachable s H)). Qed.

Theorem remove_finds_own_entry_on_failure s c o e :
  reachable s -> objs s c = Some o -> c_ds o = DFailing e -> conns s (c_addr o) = Some c.
Proof.
  intros H Ho Hd. apply pending_registered; [now apply inv_reachable|].
  exists o. repeat split; eauto.
Qed.

Lemma holder_facts s i t c h :
  inv s -> thr s i = Some t -> t_obj t = Some c -> t_pc t = PRet (RConn h) ->
  exists o, objs s c = Some o /\ c_addr o = t_addr t /\ c_ds o = DDone /\ c_err o = None /\
            h = Some c /\ c_cc o = Some c /\ c_ref o = Z.of_nat (holders s c).
Proof.
  intros I Ht Ho Hp. pose proof (i_thread s I i t Ht) as Hto. unfold thread_ok in Hto.
  rewrite Ho, Hp in Hto. destruct Hto as (o & Hc & Ha & Hr & Hout & _).
  pose proof (ready_done s c o I Hc Hr) as Hd.
  pose proof (i_obj s I c o Hc) as Hob. unfold obj_ok, obj_ok' in Hob. rewrite Hd in Hob.
  unfold outcome in Hout. destruct (c_err o) eqn:Ee; [discriminate|].
  destruct Hob as (_ & Hcc & Hrf & _). inversion Hout; subst h.
  exists o. repeat split; auto.
Qed.

Lemma holds_pos s c i : inv s -> holds_at s c i = true -> (1 <= holders s c)%nat.
Proof.
  intros I H. unfold holders. eapply count_pos; eauto.
  apply (i_thr_dom s I). unfold holds_at in H. destruct (thr s i); congruence.
Qed.

Theorem remove_finds_own_entry_on_release s i t c h o :
  reachable s -> thr s i = Some t -> t_obj t = Some c -> t_pc t = PRet (RConn h) -> t_once t = false ->
  objs s c = Some o -> conns s (c_addr o) = Some c.
Proof.
  intros H Ht Ho Hp Hon Hc. pose proof (inv_reachable s H) as I.
  destruct (holder_facts s i t c h I Ht Ho Hp) as (o1 & Hc1 & Ha & Hd & He & Hh & Hcc & Hrf).
  assert (o1 = o) by congruence; subst o1.
  assert (Hat : holds_at s c i = true).
  { unfold holds_at. rewrite Ht. unfold holds. now rewrite Ho, Hp, Hon, Nat.eqb_refl. }
  pose proof (holds_pos s c i I Hat) as Hpos.
  pose proof (i_obj s I c o Hc) as Hob. unfold obj_ok, obj_ok' in Hob. rewrite Hd, He in Hob.
  destruct Hob as (_ & _ & _ & [(Hreg & _)|(_ & Hz & _)]); [now apply registered_iff|lia].
Qed.

(** one_dial_in_flight: at most one attempt per address, hence at most one
    Dial call in flight per address; a request that arrives during an attempt
    joins it and starts nothing *)
Theorem one_attempt_per_address s c1 c2 a :
  reachable s -> pending s c1 a -> pending s c2 a -> c1 = c2.
Proof.
  intros H H1 H2. pose proof (inv_reachable s H) as I.
  pose proof (pending_registered s c1 a I H1). pose proof (pending_registered s c2 a I H2). congruence.
Qed.

Theorem one_dial_in_flight s c1 c2 o1 o2 :
  reachable s -> objs s c1 = Some o1 -> objs s c2 = Some o2 ->
  c_ds o1 = DInDial -> c_ds o2 = DInDial -> c_addr o1 = c_addr o2 -> c1 = c2.
Proof.
  intros H H1 H2 D1 D2 Ha. apply (one_attempt_per_address s c1 c2 (c_addr o1) H).
  - exists o1; auto.
  - exists o2; repeat split; auto.
Qed.

Theorem request_joins_pending_attempt s c a i k s' :
  reachable s -> pending s c a -> cancelled s i = false -> step s (LReq i a k) = Some s' ->
  dial_log s' = dial_log s /\
  (forall c', objs s c' = None -> objs s' c' = None) /\
  exists t, thr s' i = Some t /\ t_obj t = Some c /\ t_pc t = PJoined.
Proof.
  intros H Hp Hc Hs. pose proof (inv_reachable s H) as I.
  pose proof (pending_registered s c a I Hp) as Hreg.
  unfold step in Hs. rewrite (i_np s I) in Hs.
  destruct (thr s i); [discriminate|]. destruct (objs s i) eqn:Ei; [discriminate|].
  rewrite Hc, Hreg in Hs. destruct Hp as (o & Ho & _). rewrite Ho in Hs.
  inversion Hs; subst s'; clear Hs. cbn. repeat split.
  - intros c' Hn. upd_cases c' c; [congruence|exact Hn].
  - rewrite upd_same. eexists. split; [reflexivity|]. cbn. auto.
Qed.

(** share_outcome: everybody who joined one attempt returns the same result *)
Theorem share_outcome s i j ti tj c r r' :
  reachable s -> thr s i = Some ti -> thr s j = Some tj ->
  t_obj ti = Some c -> t_obj tj = Some c -> t_pc ti = PRet r -> t_pc tj = PRet r' -> r = r'.
Proof.
  intros H Hi Hj Hoi Hoj Hpi Hpj. pose proof (inv_reachable s H) as I.
  pose proof (i_thread s I i ti Hi) as H1. pose proof (i_thread s I j tj Hj) as H2.
  unfold thread_ok in *. rewrite Hoi, Hpi in H1. rewrite Hoj, Hpj in H2.
  destruct H1 as (o1 & Ho1 & _ & _ & E1 & _). destruct H2 as (o2 & Ho2 & _ & _ & E2 & _).
  congruence.
Qed.

(** a successful request returns the handle produced by the Dial of the
    attempt it joined (never nil), for the address it asked for *)
Theorem returned_handle_is_the_attempts s i t c h :
  reachable s -> thr s i = Some t -> t_obj t = Some c -> t_pc t = PRet (RConn h) ->
  h = Some c /\ exists o, objs s c = Some o /\ c_addr o = t_addr t /\ c_cc o = Some c.
Proof.
  intros H Ht Ho Hp. pose proof (inv_reachable s H) as I.
  destruct (holder_facts s i t c h I Ht Ho Hp) as (o & Hc & Ha & _ & _ & Hh & Hcc & _). eauto.
Qed.

(** no_use_after_close: a handle is not closed while some thread counts as a
    holder -- whether it already returned it and has not released, or is still
    on its way (joined, waiting) *)
Theorem no_use_after_close s i c :
  reachable s -> holds_at s c i = true -> ~ In c (close_log s).
Proof.
  intros H Hat Hin. pose proof (inv_reachable s H) as I.
  pose proof (holds_pos s c i I Hat) as Hpos.
  destruct (i_close s I c Hin) as (o & Ho & Hcc).
  pose proof (i_obj s I c o Ho) as Hob. unfold obj_ok, obj_ok' in Hob.
  destruct (c_ds o); try (destruct Hob as (_ & _ & _ & Hn & _); congruence).
  - destruct Hob as (_ & _ & _ & Hn); congruence.
  - destruct Hob as (_ & Hob). destruct (c_err o); [destruct Hob; congruence|].
    destruct Hob as (_ & _ & [(_ & _ & Hz)|(_ & Hz & _)]); [|lia].
    unfold closes in Hz. apply (count_occ_not_In Nat.eq_dec) in Hz. contradiction.
Qed.

Theorem no_use_after_close_returned s i t h :
  reachable s -> thr s i = Some t -> t_pc t = PRet (RConn (Some h)) -> t_once t = false ->
  ~ In h (close_log s).
Proof.
  intros H Ht Hp Hon. pose proof (inv_reachable s H) as I.
  pose proof (i_thread s I i t Ht) as Hto. unfold thread_ok in Hto.
  destruct (t_obj t) as [c|] eqn:Ho; [|rewrite Hp in Hto; destruct Hto; discriminate].
  destruct (holder_facts s i t c (Some h) I Ht Ho Hp) as (o & _ & _ & _ & _ & Hh & _).
  inversion Hh; subst h. apply (no_use_after_close s i c H).
  unfold holds_at. rewrite Ht. unfold holds. now rewrite Ho, Hp, Hon, Nat.eqb_refl.
Qed.

(** closed_exactly_once *)
Theorem closed_at_most_once s h : reachable s -> (count_occ Nat.eq_dec (close_log s) h <= 1)%nat.
Proof.
  intros H. pose proof (inv_reachable s H) as I.
  destruct (in_dec Nat.eq_dec h (close_log s)) as [Hin|Hni].
  - destruct (i_close s I h Hin) as (o & Ho & Hcc).
    pose proof (i_obj s I h o Ho) as Hob. unfold obj_ok, obj_ok' in Hob.
    destruct (c_ds o); try (destruct Hob as (_ & _ & _ & Hn & _); congruence).
    + destruct Hob as (_ & _ & _ & Hn); congruence.
    + destruct Hob as (_ & Hob). destruct (c_err o); [destruct Hob; congruence|].
      destruct Hob as (_ & _ & [(_ & _ & Hz)|(_ & _ & Hz)]); unfold closes in Hz; lia.
  - apply (count_occ_not_In Nat.eq_dec) in Hni. lia.
Qed.

(** a connection that was established is closed and forgotten exactly when
    nobody holds it any more (no leak, no early close) *)
Theorem closed_iff_no_holder s c o :
  reachable s -> objs s c = Some o -> c_cc o = Some c ->
  (holders s c = 0%nat <-> count_occ Nat.eq_dec (close_log s) c = 1%nat) /\
  (holders s c = 0%nat <-> conns s (c_addr o) <> Some c).
Proof.
  intros H Ho Hcc. pose proof (inv_reachable s H) as I.
  pose proof (i_obj s I c o Ho) as Hob. unfold obj_ok, obj_ok' in Hob.
  destruct (c_ds o); try (destruct Hob as (_ & _ & _ & Hn & _); congruence).
  - destruct Hob as (_ & _ & _ & Hn); congruence.
  - destruct Hob as (_ & Hob). destruct (c_err o); [destruct Hob; congruence|].
    destruct Hob as (_ & _ & [(Hr & Hp & Hz)|(Hr & Hp & Hz)]); unfold closes in Hz.
    + apply registered_iff in Hr. split; split; intros; try lia; congruence.
    + apply registered_false in Hr. split; split; intros; auto.
Qed.

(** the release by the last holder closes the handle and deletes the entry *)
Theorem last_release_closes s i t c h s' :
  reachable s -> thr s i = Some t -> t_obj t = Some c -> t_pc t = PRet (RConn h) -> t_once t = false ->
  t_run t = true ->
  holders s c = 1%nat -> step s (LRelease i) = Some s' ->
  In c (close_log s') /\ conns s' (t_addr t) = None /\ panicked s' = false.
Proof.
  intros H Ht Ho Hp Hon Hrun Hone Hs. pose proof (inv_reachable s H) as I.
  destruct (holder_facts s i t c h I Ht Ho Hp) as (o & Hc & Ha & Hd & He & Hh & Hcc & Hrf).
  pose proof (remove_finds_own_entry_on_release s i t c h o H Ht Ho Hp Hon Hc) as Hreg.
  unfold step in Hs. rewrite (i_np s I), Ht, Hp, Ho, Hon, Hrun, Hc in Hs. cbn in Hs.
  rewrite Hrf, Hone in Hs. cbn in Hs. inversion Hs; subst s'; clear Hs.
  unfold remove. cbn. rewrite Hreg, upd_same. cbn. rewrite Hcc. cbn.
  rewrite <- Ha, upd_same. repeat split; auto. apply I.
Qed.

(** forgotten_then_fresh: a closed handle is no longer the entry of its
    address, and a request that finds no entry creates a new attempt whose
    dialer invokes Dial *)
Theorem closed_is_forgotten s h o :
  reachable s -> In h (close_log s) -> objs s h = Some o -> conns s (c_addr o) <> Some h.
Proof.
  intros H Hin Ho. pose proof (inv_reachable s H) as I.
  destruct (i_close s I h Hin) as (o1 & Ho1 & Hcc). assert (o1 = o) by congruence; subst o1.
  destruct (closed_iff_no_holder s h o H Ho Hcc) as [H1 H2]. apply H2.
  destruct (Nat.eq_dec (holders s h) 0) as [E|E]; [exact E|exfalso].
  assert (Hex : exists i, holds_at s h i = true).
  { unfold holders in E. destruct (filter (holds_at s h) (tids s)) as [|j l] eqn:Ef; [contradiction|].
    exists j. assert (Hj : In j (filter (holds_at s h) (tids s))) by (rewrite Ef; left; reflexivity).
    apply filter_In in Hj. tauto. }
  destruct Hex as [i Hi]. exact (no_use_after_close s i h H Hi Hin).
Qed.

Theorem fresh_dial_when_no_entry s i a s' :
  reachable s -> conns s a = None -> cancelled s i = false -> step s (LReq i a true) = Some s' ->
  conns s' a = Some i /\
  exists s'', step s' (LSpawn i) = Some s'' /\ dial_log s'' = (i, a) :: dial_log s.
Proof.
  intros H Hn Hc Hs. pose proof (inv_reachable s H) as I.
  unfold step in Hs. rewrite (i_np s I) in Hs.
  destruct (thr s i); [discriminate|]. destruct (objs s i); [discriminate|].
  rewrite Hc, Hn in Hs. inversion Hs; subst s'; clear Hs. cbn. rewrite upd_same. split; [reflexivity|].
  unfold step. cbn. rewrite (i_np s I), upd_same. cbn. eexists. split; reflexivity.
Qed.

(** double_release_noop, release_after_failure_noop *)
Theorem double_release_noop s i t :
  reachable s -> thr s i = Some t -> t_once t = true -> step s (LRelease i) = Some s.
Proof.
  intros H Ht Hon. pose proof (inv_reachable s H) as I.
  pose proof (i_thread s I i t Ht) as Hto. unfold thread_ok in Hto.
  unfold step. rewrite (i_np s I), Ht.
  destruct (t_obj t) as [c|].
  - destruct Hto as (o & _ & _ & Hp). destruct (t_pc t) as [| |r]; try congruence.
    destruct Hp as (_ & _ & Hx). destruct (Hx Hon) as [h ->]. now rewrite Hon.
  - destruct Hto as [-> _]. reflexivity.
Qed.

Theorem release_after_failure_noop s i t e :
  reachable s -> thr s i = Some t -> t_pc t = PRet (RErr e) -> step s (LRelease i) = Some s.
Proof.
  intros H Ht Hp. unfold step. now rewrite (never_panics s H), Ht, Hp.
Qed.

(** a request that failed never counts as a holder *)
Theorem failed_request_holds_nothing s i t e c :
  thr s i = Some t -> t_pc t = PRet (RErr e) -> holds_at s c i = false.
Proof.
  intros Ht Hp. unfold holds_at. rewrite Ht. unfold holds. rewrite Hp.
  destruct (t_obj t); [apply andb_false_r|reflexivity].
Qed.

(** no waiter is stuck: a thread waiting on an attempt that is not finished
    can always be helped by a step of that attempt's dialer, and once the
    attempt is finished the thread itself can return *)
Theorem waiter_progress s i t c :
  reachable s -> thr s i = Some t -> t_pc t = PWaiting -> t_obj t = Some c ->
  exists l s', step s l = Some s' /\
    (l = LWait i \/ l = LSpawn c \/ l = LDialRet c true \/ l = LFailLock c \/ l = LFailReady c).
Proof.
  intros H Ht Hp Ho. pose proof (inv_reachable s H) as I.
  pose proof (i_thread s I i t Ht) as Hto. unfold thread_ok in Hto. rewrite Ho, Hp in Hto.
  destruct Hto as (o & Hc & Ha & _).
  pose proof (i_obj s I c o Hc) as Hob. unfold obj_ok, obj_ok' in Hob.
  destruct (c_ds o) eqn:Hd.
  - exists (LSpawn c). unfold step. rewrite (i_np s I), Hc, Hd. destruct (c_known o); eauto 8.
  - exists (LDialRet c true). unfold step. rewrite (i_np s I), Hc, Hd. eauto 8.
  - exists (LFailLock c). unfold step. rewrite (i_np s I), Hc, Hd.
    destruct (panicked (remove s (c_addr o))); eauto 8.
  - exists (LFailReady c). unfold step. rewrite (i_np s I), Hc, Hd. eauto 8.
  - exists (LWait i). destruct Hob as (Hr & _). unfold step. rewrite (i_np s I), Ht, Hp, Ho, Hc, Hr.
    destruct (c_err o); eauto 8.
Qed.

(** * The model run by the correspondence check is this LTS

    Every state the evaluator of ConnCheck.v visits while replaying a script
    is reachable, so every theorem above holds of it. *)
From Gnmi Require Import Conn.ConnCheck.

Lemma try_step_reachable s l : reachable s -> reachable (try_step s l).
Proof.
  intros H. unfold try_step. destruct (step s l) eqn:E; [eapply reachable_step; eauto|exact H].
Qed.

Lemma fold_try_reachable (f : nat -> label) ids s :
  reachable s -> reachable (fold_left (fun s c => try_step s (f c)) ids s).
Proof.
  revert s; induction ids as [|c ids IH]; intros s H; cbn; [exact H|].
  apply IH. now apply try_step_reachable.
Qed.

Lemma fold_try_list_reachable ls s : reachable s -> reachable (fold_left try_step ls s).
Proof.
  revert s; induction ls as [|l ls IH]; intros s H; cbn; [exact H|].
  apply IH. now apply try_step_reachable.
Qed.

Lemma settle_reachable s : reachable s -> reachable (settle s).
Proof.
  intros H. unfold settle.
  apply (fold_try_reachable (fun i => LWait i)).
  apply (fold_try_reachable (fun c => LFailReady c)).
  now apply (fold_try_reachable (fun c => LSpawn c)).
Qed.

Theorem mrun_reachable s e : reachable s -> reachable (fst (mrun s e)).
Proof.
  intros H. unfold mrun. destruct (labels_of s e) as [l more].
  destruct (step s l) as [s1|] eqn:E; cbn; [|exact H].
  apply settle_reachable, fold_try_list_reachable. eapply reachable_step; eauto.
Qed.

Fixpoint mstates (s : state) (es : list event) : list state :=
  match es with
  | [] => [s]
  | e :: es' => s :: mstates (fst (mrun s e)) es'
  end.

Theorem check_model_states_reachable es : Forall reachable (mstates init es).
Proof.
  assert (G : forall s, reachable s -> Forall reachable (mstates s es)).
  { induction es as [|e es IH]; intros s H; cbn; constructor; auto.
    apply IH. now apply mrun_reachable. }
  apply G, reachable_init.
Qed.

(** * Non-vacuity: the hypotheses of the theorems are met by reachable states *)

Definition st_of (ls : list label) : state :=
  match run init ls with Some s => s | None => init end.

Lemma st_of_reachable ls : run init ls <> None -> reachable (st_of ls).
Proof.
  unfold st_of. intros H. destruct (run init ls) eqn:E; [|congruence]. now exists ls.
Qed.

(** threads 0 and 1 share one successful dial to address 0; thread 0 has
    released twice; thread 1 still holds the handle *)
Definition sched_shared : list label :=
  [LReq 0 0 true; LSpawn 0; LReq 1 0 true; LPass 0; LPass 1; LDialRet 0 true; LWait 0; LWait 1;
   LRelBegin 0; LRelease 0; LRelBegin 0; LRelease 0]%nat.

(** ... then thread 1 releases too, and thread 2 asks for the same address *)
Definition sched_closed : list label := sched_shared ++ [LRelBegin 1; LRelease 1]%nat.
Definition sched_fresh : list label := sched_closed ++ [LReq 2 0 true; LSpawn 2]%nat.

(** threads 0,1,2 share one failing dial; 2 arrives between the Dial's return
    and the clean-up; meanwhile a dial to address 1 is in flight *)
Definition sched_failed : list label :=
  [LReq 0 0 true; LSpawn 0; LReq 1 0 true; LReq 3 1 true; LSpawn 3; LDialRet 0 false; LReq 2 0 true;
   LFailLock 0; LFailReady 0; LPass 0; LPass 1; LPass 2; LWait 0; LWait 1; LWait 2]%nat.

Definition sched_two_dials : list label :=
  [LReq 0 0 true; LSpawn 0; LReq 3 1 true; LSpawn 3; LReq 1 0 true; LPass 1]%nat.

Ltac ex_reach := apply st_of_reachable; vm_compute; discriminate.

Example ex_shared :
  let s := st_of sched_shared in
  reachable s /\
  (exists t0 t1, thr s 0%nat = Some t0 /\ thr s 1%nat = Some t1 /\
     t_obj t0 = Some 0%nat /\ t_obj t1 = Some 0%nat /\
     t_pc t0 = PRet (RConn (Some 0%nat)) /\ t_pc t1 = PRet (RConn (Some 0%nat)) /\
     t_once t0 = true /\ t_once t1 = false) /\
  holds_at s 0 1 = true /\ holders s 0 = 1%nat /\ close_log s = [] /\
  step s (LRelBegin 1) <> None.
Proof.
  cbv zeta. split; [ex_reach|]. split.
  - do 2 eexists. repeat split; vm_compute; reflexivity.
  - split; [vm_compute; reflexivity|]. split; [vm_compute; reflexivity|].
    split; [vm_compute; reflexivity|]. vm_compute; discriminate.
Qed.

Example ex_closed :
  let s := st_of sched_closed in
  reachable s /\ close_log s = [0%nat] /\ conns s 0%nat = None /\ holders s 0 = 0%nat /\
  cancelled s 2%nat = false /\ step s (LReq 2 0 true) <> None.
Proof.
  cbv zeta. split; [ex_reach|]. do 4 (split; [vm_compute; reflexivity|]). vm_compute; discriminate.
Qed.

Example ex_fresh :
  let s := st_of sched_fresh in
  reachable s /\ dial_log s = [(2, 0); (0, 0)]%nat /\ close_log s = [0%nat] /\ conns s 0%nat = Some 2%nat.
Proof. cbv zeta. split; [ex_reach|]. repeat split; vm_compute; reflexivity. Qed.

Example ex_failed :
  let s := st_of sched_failed in
  reachable s /\
  (forall i, In i [0; 1; 2]%nat -> exists t, thr s i = Some t /\ t_obj t = Some 0%nat /\ t_pc t = PRet (RErr ErrDial)) /\
  conns s 0%nat = None /\ dial_log s = [(3, 1); (0, 0)]%nat /\ step s (LRelease 2) = Some s.
Proof.
  cbv zeta. split; [ex_reach|]. split; [|split; [|split]].
  - intros i [<-|[<-|[<-|[]]]]; eexists; repeat split; vm_compute; reflexivity.
  - vm_compute; reflexivity.
  - vm_compute; reflexivity.
  - eapply release_after_failure_noop; [ex_reach|vm_compute; reflexivity|vm_compute; reflexivity].
Qed.

Example ex_two_dials :
  let s := st_of sched_two_dials in
  reachable s /\ pending s 0 0 /\ pending s 3 1 /\
  (exists o0 o3, objs s 0%nat = Some o0 /\ objs s 3%nat = Some o3 /\ c_ds o0 = DInDial /\ c_ds o3 = DInDial) /\
  (exists t, thr s 1%nat = Some t /\ t_pc t = PWaiting /\ t_obj t = Some 0%nat) /\
  cancelled s 2%nat = false /\ step s (LReq 2 0 true) <> None.
Proof.
  cbv zeta. split; [ex_reach|]. split; [|split; [|split; [|split; [|split]]]].
  - eexists. split; [vm_compute; reflexivity|]. split; [reflexivity|]. right; left; reflexivity.
  - eexists. split; [vm_compute; reflexivity|]. split; [reflexivity|]. right; left; reflexivity.
  - do 2 eexists. repeat split; vm_compute; reflexivity.
  - eexists. repeat split; vm_compute; reflexivity.
  - vm_compute; reflexivity.
  - vm_compute; discriminate.
Qed.

Example ex_failing_window :
  let s := st_of (firstn 7 sched_failed) in
  reachable s /\ (exists o, objs s 0%nat = Some o /\ c_ds o = DFailing ErrDial) /\ conns s 0%nat = Some 0%nat.
Proof.
  cbv zeta. split; [ex_reach|]. split; [eexists; split; vm_compute; reflexivity|vm_compute; reflexivity].
Qed.

(** * Soundness of the executable specification K_P

    [kaccepts c]: every observation of the case equals what [kstep] predicts
    (this is what the absence of tags 2..7 means, lemma [check_clean_kaccepts]).
    For an accepted case the observations themselves satisfy the property; the
    clause proved here is no-use-after-close, stated on the observations only:
    whenever a handle is reported closed, every thread that was reported to
    have received that handle has, by then, an applied release event. *)

Definition trace := list (event * obs).

Fixpoint kaccepts_from (ks : kstate) (c : trace) : bool :=
  match c with
  | [] => true
  | (e, r) :: c' => let '(ks', rk) := kstep ks e in obs_eqb (canon r) rk && kaccepts_from ks' c'
  end.

Definition kaccepts (c : trace) : bool := kaccepts_from kinit c.

Lemma ktag_not_1 want got : ktag want got <> 1%N.
Proof.
  unfold ktag.
  repeat match goal with |- context[if ?b then _ else _] => destruct b end; discriminate.
Qed.

Lemma check_clean_kaccepts_from c : forall n s ks mok,
  (forall m t, In (m, t) (check_from n s ks mok true c) -> t = 1%N) -> kaccepts_from ks c = true.
Proof.
  induction c as [|[e r] c IH]; intros n s ks mok H; cbn; [reflexivity|].
  cbn in H. destruct (mrun s e) as [s' rm]. destruct (kstep ks e) as [ks' rk].
  destruct (obs_eqb (canon r) rk) eqn:E; cbn in *.
  - eapply IH. intros m t Hin. apply (H m t). rewrite in_app_iff. right. exact Hin.
  - exfalso. specialize (H n (ktag rk (canon r))).
    apply (ktag_not_1 rk (canon r)). apply H. rewrite in_app_iff. right. left. reflexivity.
Qed.

Theorem check_clean_kaccepts c :
  (forall m t, In (m, t) (check_case c) -> t = 1%N) -> kaccepts c = true.
Proof. apply check_clean_kaccepts_from. Qed.

(** equality tests *)
Lemma list_eqb_eq {A} (e : A -> A -> bool) :
  (forall x y, e x y = true -> x = y) -> forall a b, list_eqb e a b = true -> a = b.
Proof.
  intros He. induction a as [|x a IH]; destruct b as [|y b]; cbn; try discriminate; auto.
  intros H. apply andb_true_iff in H. destruct H as [H1 H2]. f_equal; auto.
Qed.

Lemma nats_eqb_eq a b : nats_eqb a b = true -> a = b.
Proof. apply list_eqb_eq. intros x y. apply Nat.eqb_eq. Qed.

Lemma robs_eqb_eq a b : robs_eqb a b = true -> a = b.
Proof.
  destruct a, b; cbn; try discriminate; auto.
  - intros H; apply Nat.eqb_eq in H; congruence.
  - intros H; apply N.eqb_eq in H; congruence.
Qed.

Lemma rets_eqb_eq a b : rets_eqb a b = true -> a = b.
Proof.
  apply list_eqb_eq. intros [i r] [j r']; cbn. intros H. apply andb_true_iff in H. destruct H as [H1 H2].
  apply Nat.eqb_eq in H1. apply robs_eqb_eq in H2. congruence.
Qed.

Lemma obs_eqb_fields a b :
  obs_eqb a b = true ->
  o_ign a = o_ign b /\ o_rets a = o_rets b /\ o_closed a = o_closed b.
Proof.
  unfold obs_eqb. intros H. repeat (apply andb_true_iff in H; destruct H as [H ?]).
  repeat split.
  - now apply Bool.eqb_prop.
  - now apply rets_eqb_eq.
  - now apply nats_eqb_eq.
Qed.

(** membership through the canonical forms *)
Lemma In_ins_nat x y l : In x (ins_nat y l) <-> x = y \/ In x l.
Proof.
  induction l as [|z l IH]; cbn; [intuition|].
  destruct (Nat.leb y z); cbn; [intuition|]. rewrite IH. intuition.
Qed.

Lemma In_sort_nat x l : In x (sort_nat l) <-> In x l.
Proof.
  induction l as [|y l IH]; cbn; [tauto|]. rewrite In_ins_nat, IH. intuition.
Qed.

Lemma In_dedup_nat x l : In x (dedup_nat l) -> In x l.
Proof.
  induction l as [|y l IH]; [auto|]. destruct l as [|z l']; [auto|].
  cbn [dedup_nat]. destruct (Nat.eqb y z).
  - intros H. right. exact (IH H).
  - intros [->|H]; [left; reflexivity|right; exact (IH H)].
Qed.

Lemma In_ins_key {A} (x y : nat * A) l : In x (ins_key y l) <-> x = y \/ In x l.
Proof.
  induction l as [|z l IH]; cbn; [intuition|].
  destruct (Nat.leb (fst y) (fst z)); cbn; [intuition|]. rewrite IH. intuition.
Qed.

Lemma In_sort_key {A} (x : nat * A) l : In x (sort_key l) <-> In x l.
Proof.
  induction l as [|y l IH]; cbn; [tauto|]. rewrite In_ins_key, IH. intuition.
Qed.

(** ** invariant of the specification machine *)

Record kinv (ks : kstate) : Prop := {
  kj_closed : forall h, In h (k_closed ks) -> forall i t, k_thr ks i = Some t ->
              khandle ks (k_src t) = Some h -> k_rel t = true;
  kj_ret : forall i t h, k_thr ks i = Some t -> k_ret t = Some (OConn h) -> khandle ks (k_src t) = Some h;
  kj_dom : forall i t, k_thr ks i = Some t -> In i (k_ids ks);
  kj_live : forall a h, k_as ks a = ALive h -> ~ In h (k_closed ks) /\ k_d ks h = Some (a, DOk);
  kj_closed_ok : forall h, In h (k_closed ks) -> exists a, k_d ks h = Some (a, DOk);
  kj_dialing : forall a d, k_as ks a = ADialing d -> k_d ks d = Some (a, DPend);
  kj_failing : forall a d, k_as ks a = AFailing d -> exists cls, k_d ks d = Some (a, DFail cls false);
  kj_d_dom : forall d x, k_d ks d = Some x -> k_thr ks d <> None;
  kj_sconn : forall i t h, k_thr ks i = Some t -> k_src t = SConn h -> exists a, k_d ks h = Some (a, DOk);
  kj_d_as : forall d a o, k_d ks d = Some (a, o) ->
            match o with
            | DPend => k_as ks a = ADialing d
            | DFail _ false => k_as ks a = AFailing d
            | DOk => In d (k_closed ks) \/ k_as ks a = ALive d
            | DFail _ true => True
            end
}.

Lemma kinv_init : kinv kinit.
Proof. constructor; cbn; intros; try discriminate; try contradiction. Qed.

Lemma kexpect_handle ks src h : kexpect ks src = Some (OConn h) -> khandle ks src = Some h.
Proof.
  destruct src as [|d|h']; cbn; try discriminate.
  - destruct (k_d ks d) as [[a [| |cls [|]]]|]; try discriminate. congruence.
  - congruence.
Qed.

(** [kwake] only fills in returns *)
Definition wake_step (acc : kstate * list (nat * robs)) (i : nat) : kstate * list (nat * robs) :=
  let '(ks, out) := acc in
  match k_thr ks i with
  | Some t =>
      match k_ret t, k_passed t, kexpect ks (k_src t) with
      | None, true, Some r =>
          (kset_thr ks (upd (k_thr ks) i (Some {| k_src := k_src t; k_passed := true; k_ret := Some r; k_rel := k_rel t |})),
           (i, r) :: out)
      | _, _, _ => acc
      end
  | None => acc
  end.

Lemma kwake_fold ks : kwake ks = fold_left wake_step (k_ids ks) (ks, []).
Proof. reflexivity. Qed.

Definition wake_rel (ks ks' : kstate) (out : list (nat * robs)) : Prop :=
  k_as ks' = k_as ks /\ k_d ks' = k_d ks /\ k_ids ks' = k_ids ks /\ k_cancel ks' = k_cancel ks /\
  k_closed ks' = k_closed ks /\
  (forall i, match k_thr ks i with
             | None => k_thr ks' i = None
             | Some t => exists t', k_thr ks' i = Some t' /\ k_src t' = k_src t /\ k_rel t' = k_rel t /\
                                    (k_ret t' = k_ret t \/ (k_ret t = None /\ k_ret t' = kexpect ks (k_src t)))
             end) /\
  (forall i r, In (i, r) out -> exists t', k_thr ks' i = Some t' /\ k_ret t' = Some r).

Lemma kexpect_d ks ks' src : k_d ks' = k_d ks -> kexpect ks' src = kexpect ks src.
Proof. intros H. destruct src; cbn; try reflexivity. now rewrite H. Qed.

Lemma khandle_d ks ks' src : k_d ks' = k_d ks -> khandle ks' src = khandle ks src.
Proof. intros H. destruct src; cbn; try reflexivity. now rewrite H. Qed.

Lemma wake_rel_step ks ks1 out1 i :
  wake_rel ks ks1 out1 -> wake_rel ks (fst (wake_step (ks1, out1) i)) (snd (wake_step (ks1, out1) i)).
Proof.
  intros (Ha & Hd & Hi & Hc & Hcl & Ht & Ho). unfold wake_step, wake_rel.
  destruct (k_thr ks1 i) as [t1|] eqn:E1; [|cbn; repeat split; auto].
  destruct (k_ret t1) eqn:Er; [cbn; repeat split; auto|].
  destruct (k_passed t1); [|cbn; repeat split; auto].
  destruct (kexpect ks1 (k_src t1)) as [r|] eqn:Ee; [|cbn; repeat split; auto].
  cbn. repeat split; auto.
  - intros j. specialize (Ht j). destruct (k_thr ks j) as [t|] eqn:Ej.
    + destruct Ht as (t' & Ht' & Hs & Hr & Hret). upd_cases j i; [subst j|eauto 8].
      assert (t' = t1) by congruence; subst t'.
      eexists. split; [reflexivity|]. cbn. repeat split; auto.
      right. rewrite Er in Hret. destruct Hret as [Hret|[Hret _]]; [split; [congruence|]|split; [exact Hret|]].
      * rewrite <- Hs, <- (kexpect_d ks ks1) by exact Hd. now rewrite Ee.
      * rewrite <- Hs, <- (kexpect_d ks ks1) by exact Hd. now rewrite Ee.
    + upd_cases j i; [subst j; congruence|exact Ht].
  - intros j r0 [E|Hin].
    + inversion E; subst j r0. rewrite upd_same. eexists. split; [reflexivity|reflexivity].
    + destruct (Ho j r0 Hin) as (t' & Ht' & Hr'). upd_cases j i; [subst j|eauto].
      assert (t' = t1) by congruence; subst t'. congruence.
Qed.

Lemma wake_rel_fold ks l : forall ks1 out1,
  wake_rel ks ks1 out1 ->
  wake_rel ks (fst (fold_left wake_step l (ks1, out1))) (snd (fold_left wake_step l (ks1, out1))).
Proof.
  induction l as [|i l IH]; intros ks1 out1 H; cbn [fold_left]; [exact H|].
  pose proof (wake_rel_step ks ks1 out1 i H) as H1.
  destruct (wake_step (ks1, out1) i) as [ks2 out2]. apply IH. exact H1.
Qed.

Lemma kwake_rel ks ks' out : kwake ks = (ks', out) -> wake_rel ks ks' out.
Proof.
  intros H. rewrite kwake_fold in H.
  assert (H0 : wake_rel ks ks []).
  { repeat split; auto. intros i. destruct (k_thr ks i); eauto 8. intros i r []. }
  pose proof (wake_rel_fold ks (k_ids ks) ks [] H0) as H1. rewrite H in H1. exact H1.
Qed.

Lemma kinv_wake ks ks' out : kinv ks -> wake_rel ks ks' out -> kinv ks'.
Proof.
  intros K (Ha & Hd & Hi & Hc & Hcl & Ht & Ho).
  constructor.
  - intros h Hh i t' Hi' Hk. rewrite Hcl in Hh. specialize (Ht i).
    destruct (k_thr ks i) as [t|] eqn:E; [|congruence].
    destruct Ht as (t2 & Ht2 & Hs & Hr & _). assert (t2 = t') by congruence; subst t2.
    rewrite Hr. apply (kj_closed ks K h Hh i t E). rewrite <- Hs, <- (khandle_d ks ks') by exact Hd. exact Hk.
  - intros i t' h Hi' Hret. specialize (Ht i).
    destruct (k_thr ks i) as [t|] eqn:E; [|congruence].
    destruct Ht as (t2 & Ht2 & Hs & Hr & Hx). assert (t2 = t') by congruence; subst t2.
    rewrite (khandle_d ks ks') by exact Hd. rewrite Hs.
    destruct Hx as [Hx|[_ Hx]].
    + apply (kj_ret ks K i t h E). congruence.
    + apply kexpect_handle. congruence.
  - intros i t' Hi'. rewrite Hi. specialize (Ht i).
    destruct (k_thr ks i) as [t|] eqn:E; [|congruence]. eapply kj_dom; eauto.
  - intros a h. rewrite Ha, Hcl, Hd. apply K.
  - intros h. rewrite Hcl, Hd. apply K.
  - intros a d. rewrite Ha, Hd. apply K.
  - intros a d. rewrite Ha, Hd. apply K.
  - intros d x. rewrite Hd. intros Hx. specialize (Ht d).
    pose proof (kj_d_dom ks K d x Hx) as Hn.
    destruct (k_thr ks d); [|congruence]. destruct Ht as (t' & -> & _). discriminate.
  - intros i t' h Hi' Hsrc. rewrite Hd. specialize (Ht i).
    destruct (k_thr ks i) as [t|] eqn:E; [|congruence].
    destruct Ht as (t2 & Ht2 & Hs & _). assert (t2 = t') by congruence; subst t2.
    apply (kj_sconn ks K i t h E). congruence.
  - intros d a o. rewrite Hd, Ha, Hcl. apply K.
Qed.

Lemma kinv_new_thread ks i src ret :
  kinv ks -> k_thr ks i = None ->
  (forall h, khandle ks src = Some h -> ~ In h (k_closed ks)) ->
  (forall h, ret <> Some (OConn h)) ->
  (forall h, src = SConn h -> exists a, k_d ks h = Some (a, DOk)) ->
  kinv (kset_thr (kset_ids ks (i :: k_ids ks))
          (upd (k_thr ks) i (Some {| k_src := src; k_passed := false; k_ret := ret; k_rel := false |}))).
Proof.
  intros K Hn Hh Hr Hs. constructor; cbn.
  - intros h Hin j t. upd_cases j i.
    + intros E; inversion E; subst t; cbn. intros Hk. exfalso. exact (Hh h Hk Hin).
    + apply (kj_closed ks K h Hin j t).
  - intros j t h. upd_cases j i.
    + intros E; inversion E; subst t; cbn. intros Hx. exfalso. exact (Hr h Hx).
    + apply (kj_ret ks K j t h).
  - intros j t. upd_cases j i; [left; congruence|]. intros H. right. eapply kj_dom; eauto.
  - apply K.
  - apply K.
  - apply K.
  - apply K.
  - intros d x Hx. upd_cases d i; [discriminate|]. eapply kj_d_dom; eauto.
  - intros j t h. upd_cases j i.
    + intros E; inversion E; subst t; cbn. apply Hs.
    + apply (kj_sconn ks K j t h).
  - apply K.
Qed.

Lemma khandle_upd_d ks d a o src :
  (forall a', k_d ks d <> Some (a', DOk)) -> o <> DOk ->
  khandle (kset_d ks (upd (k_d ks) d (Some (a, o)))) src = khandle ks src.
Proof.
  intros H1 H2. destruct src as [|d'|h]; cbn; try reflexivity.
  upd_cases d' d; [subst d'|reflexivity].
  destruct o; try congruence; destruct (k_d ks d) as [[a' [| |]]|]; try reflexivity; exfalso; eapply H1; eauto.
Qed.

(** the record of a dial moves between undecided / failed, its address
    becomes dialing / failing / idle accordingly *)
Lemma kinv_set_dial ks a d o A :
  kinv ks ->
  (k_d ks d = None \/ exists o0, k_d ks d = Some (a, o0) /\ o0 <> DOk) -> o <> DOk ->
  k_thr ks d <> None ->
  match A with
  | ADialing d' => d' = d /\ o = DPend
  | AFailing d' => d' = d /\ exists cls, o = DFail cls false
  | AIdle => True
  | ALive _ => False
  end ->
  (o = DPend -> A = ADialing d) -> (forall cls, o = DFail cls false -> A = AFailing d) ->
  (k_as ks a = AIdle \/ k_as ks a = ADialing d \/ k_as ks a = AFailing d) ->
  kinv (kset_d (kset_as ks (upd (k_as ks) a A)) (upd (k_d ks) d (Some (a, o)))).
Proof.
  intros K Hd Ho Ht HA Hp Hf Hno.
  assert (Hnok : forall a', k_d ks d <> Some (a', DOk)).
  { intros a' E. destruct Hd as [Hd|(o0 & Hd & Hn)]; congruence. }
  assert (Hkh : forall src, khandle (kset_d (kset_as ks (upd (k_as ks) a A)) (upd (k_d ks) d (Some (a, o)))) src = khandle ks src).
  { intros src. apply (khandle_upd_d (kset_as ks (upd (k_as ks) a A)) d a o src); auto. }
  assert (Hother : forall a' d', a' <> a -> (k_as ks a' = ADialing d' \/ k_as ks a' = AFailing d') -> d' <> d).
  { intros a' d' Hne Has ->. destruct Has as [Has|Has].
    - pose proof (kj_dialing ks K a' d Has) as E. destruct Hd as [Hd|(o0 & Hd & _)]; congruence.
    - destruct (kj_failing ks K a' d Has) as (cls & E). destruct Hd as [Hd|(o0 & Hd & _)]; congruence. }
  constructor.
  - intros h Hin j t Hj Hk. rewrite Hkh in Hk. exact (kj_closed ks K h Hin j t Hj Hk).
  - intros j t h Hj Hr. rewrite Hkh. exact (kj_ret ks K j t h Hj Hr).
  - apply K.
  - cbn. intros a' h. upd_cases a' a.
    + intros E. subst A. contradiction.
    + intros E. destruct (kj_live ks K a' h E) as [H1 H2]. split; [exact H1|].
      upd_cases h d; [subst h; exfalso; eapply Hnok; eauto|exact H2].
  - cbn. intros h Hin. destruct (kj_closed_ok ks K h Hin) as (a0 & E).
    upd_cases h d; [subst h; exfalso; eapply Hnok; eauto|eauto].
  - cbn. intros a' d'. upd_cases a' a.
    + intros E. subst A a'. destruct HA as [-> ->]. now rewrite Nat.eqb_refl.
    + intros E. pose proof (Hother a' d' n (or_introl E)) as Hne.
      upd_cases d' d; [contradiction|]. exact (kj_dialing ks K a' d' E).
  - cbn. intros a' d'. upd_cases a' a.
    + intros E. subst A a'. destruct HA as [-> (cls & ->)]. rewrite Nat.eqb_refl. eauto.
    + intros E. pose proof (Hother a' d' n (or_intror E)) as Hne.
      upd_cases d' d; [contradiction|]. exact (kj_failing ks K a' d' E).
  - cbn. intros d' x. upd_cases d' d; [subst; intros _; exact Ht|]. apply (kj_d_dom ks K d' x).
  - cbn. intros j t h Hj Hs. destruct (kj_sconn ks K j t h Hj Hs) as (a0 & E).
    upd_cases h d; [subst h; exfalso; eapply Hnok; eauto|eauto].
  - cbn. intros d' a' o'. upd_cases d' d.
    + subst d'. intros E; inversion E; subst a' o'. rewrite Nat.eqb_refl.
      destruct o as [| |cls [|]]; auto; try congruence. eapply Hf; reflexivity.
    + intros E. pose proof (kj_d_as ks K d' a' o' E) as X. upd_cases a' a; [subst a'|exact X].
      destruct o' as [| |cls [|]]; auto.
      * exfalso. destruct Hno as [H|[H|H]]; congruence.
      * destruct X as [X|X]; [left; exact X|exfalso; destruct Hno as [H|[H|H]]; congruence].
      * exfalso. destruct Hno as [H|[H|H]]; congruence.
Qed.

(** a dial succeeds *)
Lemma kinv_dial_ok ks a d :
  kinv ks -> k_d ks d = Some (a, DPend) ->
  kinv (kset_d (kset_as ks (upd (k_as ks) a (ALive d))) (upd (k_d ks) d (Some (a, DOk)))).
Proof.
  intros K Hd.
  assert (Hncl : ~ In d (k_closed ks)).
  { intros Hin. destruct (kj_closed_ok ks K d Hin) as (a0 & E). congruence. }
  assert (Hkh : forall src, (forall h, khandle ks src = Some h -> khandle (kset_d (kset_as ks (upd (k_as ks) a (ALive d))) (upd (k_d ks) d (Some (a, DOk)))) src = Some h) /\
                      (forall h, khandle (kset_d (kset_as ks (upd (k_as ks) a (ALive d))) (upd (k_d ks) d (Some (a, DOk)))) src = Some h ->
                                 khandle ks src = Some h \/ (src = SDial d /\ h = d))).
  { intros src. destruct src as [|d'|h']; cbn; split; intros h; try congruence; auto.
    - upd_cases d' d; [subst d'; rewrite Hd; discriminate|auto].
    - upd_cases d' d; [subst d'; intros E; inversion E; auto|auto]. }
  constructor.
  - intros h Hin j t Hj Hk. cbn in Hin. destruct (proj2 (Hkh (k_src t)) h Hk) as [Hk'|[_ ->]].
    + exact (kj_closed ks K h Hin j t Hj Hk').
    + contradiction.
  - intros j t h Hj Hr. apply (proj1 (Hkh (k_src t)) h). exact (kj_ret ks K j t h Hj Hr).
  - apply K.
  - cbn. intros a' h. upd_cases a' a.
    + intros E; inversion E; subst h a'. split; [exact Hncl|]. now rewrite Nat.eqb_refl.
    + intros E. destruct (kj_live ks K a' h E) as [H1 H2]. split; [exact H1|].
      upd_cases h d; [subst h; congruence|exact H2].
  - cbn. intros h Hin. destruct (kj_closed_ok ks K h Hin) as (a0 & E).
    upd_cases h d; [subst h; congruence|eauto].
  - cbn. intros a' d'. upd_cases a' a; [discriminate|]. intros E.
    pose proof (kj_dialing ks K a' d' E) as E'. upd_cases d' d; [subst d'; congruence|exact E'].
  - cbn. intros a' d'. upd_cases a' a; [discriminate|]. intros E.
    destruct (kj_failing ks K a' d' E) as (cls & E'). upd_cases d' d; [subst d'; congruence|eauto].
  - cbn. intros d' x. upd_cases d' d; [subst; intros _; eapply kj_d_dom; eauto|]. apply (kj_d_dom ks K d' x).
  - cbn. intros j t h Hj Hs. destruct (kj_sconn ks K j t h Hj Hs) as (a0 & E).
    upd_cases h d; [subst h; congruence|eauto].
  - cbn. pose proof (kj_d_as ks K d a DPend Hd) as Hda. cbn in Hda.
    intros d' a' o'. upd_cases d' d.
    + subst d'. intros E; inversion E; subst a' o'. right. now rewrite Nat.eqb_refl.
    + intros E. pose proof (kj_d_as ks K d' a' o' E) as X. upd_cases a' a; [subst a'|exact X].
      destruct o' as [| |cls [|]]; auto; try congruence.
      destruct X as [X|X]; [left; exact X|congruence].
Qed.

(** a thread's flags change (passed / released), everything else stays *)
Lemma kinv_set_flags ks i t p (r : bool) :
  kinv ks -> k_thr ks i = Some t -> (k_rel t = true -> r = true) ->
  kinv (kset_thr ks (upd (k_thr ks) i (Some {| k_src := k_src t; k_passed := p; k_ret := k_ret t; k_rel := r |}))).
Proof.
  intros K Ht Hr. constructor; cbn.
  - intros h Hin j tj. upd_cases j i.
    + subst j. intros E; inversion E; subst tj; cbn. intros Hk. apply Hr. exact (kj_closed ks K h Hin i t Ht Hk).
    + apply (kj_closed ks K h Hin j tj).
  - intros j tj h. upd_cases j i.
    + subst j. intros E; inversion E; subst tj; cbn. apply (kj_ret ks K i t h Ht).
    + apply (kj_ret ks K j tj h).
  - intros j tj. upd_cases j i; [subst; intros _; eapply kj_dom; eauto|]. apply (kj_dom ks K j tj).
  - apply K.
  - apply K.
  - apply K.
  - apply K.
  - intros d x Hx. upd_cases d i; [discriminate|]. eapply kj_d_dom; eauto.
  - intros j tj h. upd_cases j i.
    + subst j. intros E; inversion E; subst tj; cbn. apply (kj_sconn ks K i t h Ht).
    + apply (kj_sconn ks K j tj h).
  - apply K.
Qed.

Lemma kinv_set_cancel ks v : kinv ks -> kinv (kset_cancel ks v).
Proof. intros K. destruct K. constructor; assumption. Qed.

Lemma kinv_close ks h a :
  kinv ks -> (forall j, In j (k_ids ks) -> kholds ks h j = false) -> k_d ks h = Some (a, DOk) ->
  ~ In h (k_closed ks) ->
  kinv (kset_closed (kset_as ks (upd (k_as ks) a AIdle)) (h :: k_closed ks)).
Proof.
  intros K Hno Hd Hnc.
  assert (Hlive : k_as ks a = ALive h).
  { pose proof (kj_d_as ks K h a DOk Hd) as X. cbn in X. destruct X; [contradiction|assumption]. }
  constructor; cbn.
  - intros h' [<-|Hin] j t Hj Hk.
    + pose proof (Hno j (kj_dom ks K j t Hj)) as Hf. unfold kholds in Hf. rewrite Hj in Hf.
      change (khandle (kset_closed (kset_as ks (upd (k_as ks) a AIdle)) (h :: k_closed ks)) (k_src t))
        with (khandle ks (k_src t)) in Hk. rewrite Hk, Nat.eqb_refl in Hf.
      destruct (k_rel t); [reflexivity|discriminate].
    + exact (kj_closed ks K h' Hin j t Hj Hk).
  - apply K.
  - apply K.
  - intros a' h'. upd_cases a' a; [discriminate|]. intros E.
    destruct (kj_live ks K a' h' E) as [H1 H2]. split; [|exact H2].
    intros [<-|Hin]; [congruence|contradiction].
  - intros h' [<-|Hin]; [eauto|]. exact (kj_closed_ok ks K h' Hin).
  - intros a' d. upd_cases a' a; [discriminate|]. apply (kj_dialing ks K a' d).
  - intros a' d. upd_cases a' a; [discriminate|]. apply (kj_failing ks K a' d).
  - apply K.
  - apply K.
  - intros d' a' o' E. pose proof (kj_d_as ks K d' a' o' E) as X. upd_cases a' a.
    + subst a'. destruct o' as [| |cls [|]]; auto; try congruence.
      destruct X as [X|X]; [left; right; exact X|]. left. left. congruence.
    + destruct o' as [| |cls [|]]; auto. destruct X as [X|X]; [left; right; exact X|right; exact X].
Qed.

Lemma kd_none_of_fresh ks i : kinv ks -> k_thr ks i = None -> k_d ks i = None.
Proof.
  intros K Hn. destruct (k_d ks i) as [x|] eqn:E; [|reflexivity].
  exfalso. exact (kj_d_dom ks K i x E Hn).
Qed.

Theorem kinv_kstep ks e : kinv ks -> kinv (fst (kstep ks e)).
Proof.
  intros K. destruct e as [i a known|i|d ok|d|i|i]; cbn [kstep].
  - (* EReq *)
    destruct (k_thr ks i) eqn:Ei; [exact K|].
    pose proof (kd_none_of_fresh ks i K Ei) as Hdi.
    destruct (k_cancel ks i).
    + cbn. apply kinv_new_thread; auto; cbn; try discriminate.
    + destruct (k_as ks a) as [|d|d|h] eqn:Ea.
      * assert (K1 : kinv (kset_thr (kset_ids ks (i :: k_ids ks))
                     (upd (k_thr ks) i (Some {| k_src := SDial i; k_passed := false; k_ret := None; k_rel := false |})))).
        { apply kinv_new_thread; auto; cbn; try discriminate. rewrite Hdi. discriminate. }
        destruct known; cbn.
        -- apply (kinv_set_dial _ a i DPend (ADialing i) K1); cbn; auto; try discriminate.
           rewrite upd_same. discriminate.
        -- apply (kinv_set_dial _ a i (DFail 3%N false) (AFailing i) K1); cbn; auto; try discriminate.
           ++ rewrite upd_same. discriminate.
           ++ split; eauto.
      * cbn. apply kinv_new_thread; auto; cbn; try discriminate.
        rewrite (kj_dialing ks K a d Ea). discriminate.
      * cbn. apply kinv_new_thread; auto; cbn; try discriminate.
        destruct (kj_failing ks K a d Ea) as (cls & ->). discriminate.
      * cbn. destruct (kj_live ks K a h Ea) as [H1 H2].
        apply kinv_new_thread; auto; cbn; try discriminate.
        -- intros h' E; inversion E; subst; exact H1.
        -- intros h' E; inversion E; subst; eauto.
  - (* EPass *)
    destruct (k_thr ks i) as [t|] eqn:Ei; [|exact K].
    destruct (k_ret t) eqn:Er; [exact K|]. destruct (k_passed t); [exact K|].
    match goal with |- context[kwake ?x] => destruct (kwake x) as [ks2 rets] eqn:Ew; set (ks1 := x) in * end.
    cbn. apply (kinv_wake ks1 ks2 rets); [|now apply kwake_rel].
    unfold ks1. rewrite <- Er. apply kinv_set_flags; auto.
  - (* EDial *)
    destruct (k_d ks d) as [[a [| |cls f]]|] eqn:Ed; try exact K.
    destruct ok.
    + match goal with |- context[kwake ?x] => destruct (kwake x) as [ks2 rets] eqn:Ew; set (ks1 := x) in * end.
      cbn. apply (kinv_wake ks1 ks2 rets); [|now apply kwake_rel].
      unfold ks1. now apply kinv_dial_ok.
    + cbn. pose proof (kj_d_as ks K d a DPend Ed) as Hda. cbn in Hda.
      apply (kinv_set_dial ks a d (DFail 2%N false) (AFailing d) K); cbn; try discriminate; auto.
      * right. exists DPend. split; [exact Ed|discriminate].
      * eapply kj_d_dom; eauto.
      * split; eauto.
  - (* EFailGo *)
    destruct (k_d ks d) as [[a [| |cls [|]]]|] eqn:Ed; try exact K.
    match goal with |- context[kwake ?x] => destruct (kwake x) as [ks2 rets] eqn:Ew; set (ks1 := x) in * end.
    cbn. apply (kinv_wake ks1 ks2 rets); [|now apply kwake_rel].
    unfold ks1. pose proof (kj_d_as ks K d a (DFail cls false) Ed) as Hda. cbn in Hda.
    apply (kinv_set_dial ks a d (DFail cls true) AIdle K); cbn; try discriminate; auto.
    + right. eexists. split; [exact Ed|discriminate].
    + eapply kj_d_dom; eauto.
  - (* ERelease *)
    destruct (k_thr ks i) as [t|] eqn:Ei; [|exact K].
    destruct (k_ret t) as [[h| |cls]|] eqn:Er; try exact K.
    destruct (k_rel t) eqn:Erl; [exact K|].
    assert (K1 : kinv (kset_thr ks (upd (k_thr ks) i
                  (Some {| k_src := k_src t; k_passed := k_passed t; k_ret := k_ret t; k_rel := true |})))).
    { apply kinv_set_flags; auto. }
    rewrite Er in K1.
    match goal with |- context[existsb ?f ?l] => destruct (existsb f l) eqn:Eex end; [exact K1|].
    cbn [fst].
    pose proof (kj_ret ks K i t h Ei Er) as Hk.
    assert (Hdok : exists a0, k_d ks h = Some (a0, DOk)).
    { destruct (k_src t) as [|d|h'] eqn:Es; cbn in Hk; try discriminate.
      - destruct (k_d ks d) as [[a0 [| |c0 f0]]|] eqn:E; try discriminate. inversion Hk; subst. eauto.
      - inversion Hk; subst. eapply kj_sconn; eauto. }
    destruct Hdok as (a0 & Ha0). rewrite Ha0.
    apply (kinv_close _ h a0 K1); [|exact Ha0|].
    2:{ cbn. intros Hin. pose proof (kj_closed ks K h Hin i t Ei Hk). congruence. }
    intros j Hj. destruct (kholds _ h j) eqn:Eh; [|reflexivity].
    assert (Hex : existsb (kholds (kset_thr ks (upd (k_thr ks) i
                  (Some {| k_src := k_src t; k_passed := k_passed t; k_ret := Some (OConn h); k_rel := true |}))) h)
                  (k_ids ks) = true) by (apply existsb_exists; exists j; split; [exact Hj|exact Eh]).
    cbn in Eex. rewrite Hex in Eex. discriminate.
  - (* ECancel *)
    destruct (k_d ks i) as [[a [| |cls f]]|] eqn:Ed; cbn; try (apply kinv_set_cancel; exact K).
    pose proof (kj_d_as ks K i a DPend Ed) as Hda. cbn in Hda.
    apply (kinv_set_dial (kset_cancel ks (upd (k_cancel ks) i true)) a i (DFail 1%N false) (AFailing i));
      cbn; try discriminate; auto.
    + apply kinv_set_cancel; exact K.
    + right. exists DPend. split; [exact Ed|discriminate].
    + eapply kj_d_dom; eauto.
    + split; eauto.
Qed.

(** ** coupling the specification state with the observed trace *)

Definition returned_in (c : trace) (i : nat) (r : robs) : Prop :=
  exists e o, In (e, o) c /\ In (i, r) (o_rets (canon o)).

Definition released_in (c : trace) (i : nat) : Prop :=
  exists o, In (ERelease i, o) c /\ o_ign (canon o) = false.

Definition thread_facts (ks ks' : kstate) (e : event) (rk : obs) (i : nat) : Prop :=
  (forall t r, k_thr ks i = Some t -> k_ret t = Some r -> exists t', k_thr ks' i = Some t' /\ k_ret t' = Some r) /\
  (forall t', k_thr ks' i = Some t' -> k_rel t' = true ->
     (exists t, k_thr ks i = Some t /\ k_rel t = true) \/ (e = ERelease i /\ o_ign rk = false)) /\
  (forall r, In (i, r) (o_rets rk) -> exists t', k_thr ks' i = Some t' /\ k_ret t' = Some r).

Lemma wake_threads ks1 ks2 out i :
  wake_rel ks1 ks2 out ->
  (forall t r, k_thr ks1 i = Some t -> k_ret t = Some r -> exists t', k_thr ks2 i = Some t' /\ k_ret t' = Some r) /\
  (forall t', k_thr ks2 i = Some t' -> k_rel t' = true -> exists t, k_thr ks1 i = Some t /\ k_rel t = true) /\
  (forall r, In (i, r) out -> exists t', k_thr ks2 i = Some t' /\ k_ret t' = Some r).
Proof.
  intros (_ & _ & _ & _ & _ & Ht & Ho). specialize (Ht i). repeat split.
  - intros t r E Hr. rewrite E in Ht. destruct Ht as (t' & E' & _ & _ & Hx).
    exists t'. split; [exact E'|]. destruct Hx as [Hx|[Hx _]]; congruence.
  - intros t' E' Hr. destruct (k_thr ks1 i) as [t|]; [|congruence].
    destruct Ht as (t2 & E2 & _ & Hrel & _). assert (t2 = t') by congruence; subst t2.
    exists t. split; [reflexivity|congruence].
  - intros r Hin. exact (Ho i r Hin).
Qed.

Lemma kobs_rets ign ks rets j d f x : In x (o_rets (kobs ign ks rets j d f)) <-> In x rets.
Proof. unfold kobs, canon. cbn. apply In_sort_key. Qed.

Lemma kobs_ign ign ks rets j d f : o_ign (kobs ign ks rets j d f) = ign.
Proof. reflexivity. Qed.

Lemma thread_facts_same ks e rk i :
  (forall r, ~ In (i, r) (o_rets rk)) -> thread_facts ks ks e rk i.
Proof.
  intros Hn. repeat split.
  - intros t r E Hr. eauto.
  - intros t' E Hr. left. eauto.
  - intros r Hin. exfalso. exact (Hn r Hin).
Qed.

(** threads unchanged by the first part of the step, then [kwake] *)
Lemma thread_facts_wake ks ks1 ks2 rets e i jn dl fl :
  (forall j, k_thr ks1 j = k_thr ks j) -> wake_rel ks1 ks2 rets ->
  thread_facts ks ks2 e (kobs false ks2 rets jn dl fl) i.
Proof.
  intros Hsame Hw. destruct (wake_threads ks1 ks2 rets i Hw) as (H1 & H2 & H3).
  rewrite Hsame in H1. repeat split.
  - exact H1.
  - intros t' E Hr. left. destruct (H2 t' E Hr) as (t & Et & Hrt). rewrite Hsame in Et. eauto.
  - intros r Hin. apply kobs_rets in Hin. exact (H3 r Hin).
Qed.

Ltac norets :=
  let r := fresh "r" in let H := fresh "H" in
  intros r H; try (apply kobs_rets in H); cbn in H; solve [exact H | contradiction].

Lemma kstep_thread_facts ks e i :
  thread_facts ks (fst (kstep ks e)) e (snd (kstep ks e)) i.
Proof.
  destruct e as [i0 a known|i0|d ok|d|i0|i0]; cbn [kstep].
  - (* EReq *)
    destruct (k_thr ks i0) eqn:Ei; [apply thread_facts_same; norets|].
    assert (G : forall src ret ks' rk,
              k_thr ks' = upd (k_thr ks) i0 (Some {| k_src := src; k_passed := false; k_ret := ret; k_rel := false |}) ->
              (forall r, In (i, r) (o_rets rk) -> i = i0 /\ ret = Some r) ->
              thread_facts ks ks' (EReq i0 a known) rk i).
    { intros src ret ks' rk Hk Hr. repeat split.
      - intros t r E Hret. rewrite Hk. upd_cases i i0; [subst; congruence|eauto].
      - intros t' E Hrel. rewrite Hk in E. revert E. upd_cases i i0.
        + intros E; inversion E; subst t'. discriminate.
        + intros E. left. eauto.
      - intros r Hin. destruct (Hr r Hin) as [-> ->]. rewrite Hk, upd_same. eexists. split; reflexivity. }
    destruct (k_cancel ks i0).
    + cbn [fst snd]. eapply G; [reflexivity|]. intros r H. apply kobs_rets in H.
      destruct H as [H|[]]. inversion H; auto.
    + destruct (k_as ks a); [destruct known|..]; cbn [fst snd];
        (eapply G; [reflexivity|norets]).
  - (* EPass *)
    destruct (k_thr ks i0) as [t|] eqn:Ei; [|apply thread_facts_same; norets].
    destruct (k_ret t) eqn:Er; [apply thread_facts_same; norets|].
    destruct (k_passed t); [apply thread_facts_same; norets|].
    match goal with |- context[kwake ?x] => destruct (kwake x) as [ks2 rets] eqn:Ew; set (ks1 := x) in * end.
    cbn [fst snd]. pose proof (kwake_rel ks1 ks2 rets Ew) as Hw.
    destruct (wake_threads ks1 ks2 rets i Hw) as (H1 & H2 & H3). repeat split.
    + intros t0 r E Hret. unfold ks1 in H1. cbn in H1. revert H1. upd_cases i i0.
      * subst i0. intros H1. assert (t0 = t) by congruence; subst t0. congruence.
      * intros H1. eapply H1; eauto.
    + intros t' E Hrel. left. destruct (H2 t' E Hrel) as (t1 & Et1 & Hr1).
      unfold ks1 in Et1. cbn in Et1. revert Et1. upd_cases i i0.
      * subst i0. intros E1; inversion E1; subst t1. cbn in Hr1. eauto.
      * eauto.
    + intros r Hin. apply kobs_rets in Hin. exact (H3 r Hin).
  - (* EDial *)
    destruct (k_d ks d) as [[a [| |cls f]]|] eqn:Ed;
      try (apply thread_facts_same; norets).
    destruct ok.
    + match goal with |- context[kwake ?x] => destruct (kwake x) as [ks2 rets] eqn:Ew; set (ks1 := x) in * end.
      cbn [fst snd]. apply (thread_facts_wake ks ks1 ks2); [reflexivity|now apply kwake_rel].
    + cbn [fst snd]. repeat split; cbn; eauto. norets.
  - (* EFailGo *)
    destruct (k_d ks d) as [[a [| |cls [|]]]|] eqn:Ed;
      try (apply thread_facts_same; norets).
    match goal with |- context[kwake ?x] => destruct (kwake x) as [ks2 rets] eqn:Ew; set (ks1 := x) in * end.
    cbn [fst snd]. apply (thread_facts_wake ks ks1 ks2); [reflexivity|now apply kwake_rel].
  - (* ERelease *)
    destruct (k_thr ks i0) as [t|] eqn:Ei; [|apply thread_facts_same; norets].
    destruct (k_ret t) as [[h| |cls]|] eqn:Er;
      try (apply thread_facts_same; norets).
    destruct (k_rel t) eqn:Erl; [apply thread_facts_same; norets|].
    assert (G : forall ks' rk,
              k_thr ks' = upd (k_thr ks) i0 (Some {| k_src := k_src t; k_passed := k_passed t; k_ret := Some (OConn h); k_rel := true |}) ->
              o_ign rk = false -> (forall r, ~ In (i, r) (o_rets rk)) ->
              thread_facts ks ks' (ERelease i0) rk i).
    { intros ks' rk Hk Hig Hr. repeat split.
      - intros t0 r E Hret. rewrite Hk. upd_cases i i0; [subst i0|eauto].
        assert (t0 = t) by congruence; subst t0. eexists. split; [reflexivity|]. cbn. congruence.
      - intros t' E Hrel. rewrite Hk in E. revert E. upd_cases i i0.
        + subst i0. intros _. right. auto.
        + intros E. left. eauto.
      - intros r Hin. exfalso. exact (Hr r Hin). }
    match goal with |- context[existsb ?f ?l] => destruct (existsb f l) end; cbn [fst snd].
    + apply G; [reflexivity|reflexivity|]. norets.
    + apply G; [reflexivity|reflexivity|]. norets.
  - (* ECancel *)
    destruct (k_d ks i0) as [[a [| |cls f]]|] eqn:Ed; cbn [fst snd];
      (repeat split; cbn; eauto; norets).
Qed.

Inductive kreach : trace -> kstate -> Prop :=
| kr_nil : kreach [] kinit
| kr_snoc c ks e o :
    kreach c ks -> obs_eqb (canon o) (snd (kstep ks e)) = true ->
    kreach (c ++ [(e, o)]) (fst (kstep ks e)).

Lemma kreach_inv c ks :
  kreach c ks ->
  kinv ks /\
  (forall i r, returned_in c i r -> exists t, k_thr ks i = Some t /\ k_ret t = Some r) /\
  (forall i t, k_thr ks i = Some t -> k_rel t = true -> released_in c i).
Proof.
  induction 1 as [|c ks e o Hr (K & J1 & J2) Hacc].
  - split; [exact kinv_init|]. split.
    + intros i r (e & o & [] & _).
    + cbn. intros; discriminate.
  - split; [now apply kinv_kstep|].
    destruct (obs_eqb_fields _ _ Hacc) as (Hign & Hrets & Hcl).
    split.
    + intros i r (e0 & o0 & Hin & Hret). destruct (kstep_thread_facts ks e i) as (F1 & _ & F3).
      apply in_app_iff in Hin. destruct Hin as [Hin|[E|[]]].
      * destruct (J1 i r) as (t & Et & Hrt); [exists e0, o0; auto|]. exact (F1 t r Et Hrt).
      * inversion E; subst e0 o0. rewrite Hrets in Hret. exact (F3 r Hret).
    + intros i t' Et' Hrel. destruct (kstep_thread_facts ks e i) as (_ & F2 & _).
      destruct (F2 t' Et' Hrel) as [(t & Et & Hrt)|[-> Hig]].
      * destruct (J2 i t Et Hrt) as (o0 & Hin & Hi0). exists o0. split; [apply in_app_iff; auto|exact Hi0].
      * exists o. split; [apply in_app_iff; right; left; reflexivity|congruence].
Qed.

Lemma kaccepts_kreach pre : forall c0 ks0 post,
  kreach c0 ks0 -> kaccepts_from ks0 (pre ++ post) = true ->
  exists ks, kreach (c0 ++ pre) ks /\ kaccepts_from ks post = true.
Proof.
  induction pre as [|[e o] pre IH]; intros c0 ks0 post Hr Ha.
  - exists ks0. rewrite app_nil_r. auto.
  - cbn in Ha. destruct (kstep ks0 e) as [ks1 rk] eqn:Es.
    apply andb_true_iff in Ha. destruct Ha as [Ha1 Ha2].
    assert (Hr1 : kreach (c0 ++ [(e, o)]) ks1).
    { replace ks1 with (fst (kstep ks0 e)) by now rewrite Es.
      constructor; [exact Hr|]. now rewrite Es. }
    destruct (IH (c0 ++ [(e, o)]) ks1 post Hr1 Ha2) as (ks & Hk & Hp).
    exists ks. rewrite <- app_assoc in Hk. auto.
Qed.

Lemma kstep_closed ks e : forall h, In h (o_closed (snd (kstep ks e))) -> In h (k_closed (fst (kstep ks e))).
Proof.
  assert (G : forall ign ks' a b c d h, In h (o_closed (kobs ign ks' a b c d)) -> In h (k_closed ks')).
  { intros ign ks' a b c d h H. change (In h (dedup_nat (sort_nat (k_closed ks')))) in H.
    apply In_dedup_nat in H. exact (proj1 (In_sort_nat h (k_closed ks')) H). }
  intros h. unfold kstep, kignored.
  repeat match goal with
         | |- context[match ?x with _ => _ end] => destruct x eqn:?
         | |- context[if ?x then _ else _] => destruct x eqn:?
         end; cbn [fst snd]; apply G.
Qed.

(** K_P soundness, no-use-after-close clause: in a case that K_P accepts,
    whenever a handle is observed closed after some event, every thread
    observed (so far) to have been handed that handle has an applied release
    event (so far). *)
Theorem K_sound_no_use_after_close c :
  kaccepts c = true ->
  forall pre e o post, c = pre ++ (e, o) :: post ->
  forall h, In h (o_closed (canon o)) ->
  forall i, returned_in (pre ++ [(e, o)]) i (OConn h) -> released_in (pre ++ [(e, o)]) i.
Proof.
  intros Ha pre e o post -> h Hh i Hret.
  replace (pre ++ (e, o) :: post) with ((pre ++ [(e, o)]) ++ post) in Ha by (rewrite <- app_assoc; reflexivity).
  destruct (kaccepts_kreach (pre ++ [(e, o)]) [] kinit post kr_nil Ha) as (ks & Hk & _).
  cbn in Hk. destruct (kreach_inv _ _ Hk) as (K & J1 & J2).
  inversion Hk as [E|c1 ks1 e1 o1 Hk1 Hacc E1 E2].
  - destruct pre; discriminate.
  - apply app_inj_tail in E1. destruct E1 as [-> E1]. inversion E1; subst e1 o1.
    destruct (obs_eqb_fields _ _ Hacc) as (_ & _ & Hcl).
    rewrite Hcl in Hh. apply kstep_closed in Hh. rewrite E2 in Hh.
    destruct (J1 i (OConn h) Hret) as (t & Et & Hrt).
    pose proof (kj_ret ks K i t h Et Hrt) as Hkh.
    exact (J2 i t Et (kj_closed ks K h Hh i t Et Hkh)).
Qed.

(** * [settle] reaches a quiescent state: after it, no dialer can start, no
    failed dial can signal, no waiter can return without a further event *)

Definition quiescent (s : state) : Prop :=
  (forall c, step s (LSpawn c) = None) /\ (forall c, step s (LFailReady c) = None) /\
  (forall i, step s (LWait i) = None).

Definition not_ds (d : dstate) (s : state) (c : nat) : Prop :=
  forall o, objs s c = Some o -> c_ds o <> d.

Definition wait_done (s : state) (i : nat) : Prop := step s (LWait i) = None.

Lemma fold_try_each (f : nat -> label) (P : state -> nat -> Prop) (Q : state -> Prop) :
  (forall s c, Q s -> Q (try_step s (f c))) ->
  (forall s c, Q s -> P (try_step s (f c)) c) ->
  (forall s c c', Q s -> P s c -> P (try_step s (f c')) c) ->
  forall l s, Q s ->
  Q (fold_left (fun s c => try_step s (f c)) l s) /\
  forall c, In c l -> P (fold_left (fun s c => try_step s (f c)) l s) c.
Proof.
  intros HQ Hdo Hst. induction l as [|x l IH]; intros s Hq; cbn; [split; [exact Hq|intros c []]|].
  destruct (IH (try_step s (f x)) (HQ s x Hq)) as [H1 H2]. split; [exact H1|].
  intros c [<-|Hin]; [|exact (H2 c Hin)].
  clear H2 IH. assert (G : forall l s, Q s -> P s x -> P (fold_left (fun s c => try_step s (f c)) l s) x).
  { induction l0 as [|y l0 IH]; intros s0 Hq0 Hp; cbn; [exact Hp|]. apply IH; [now apply HQ|now apply Hst]. }
  apply G; [now apply HQ|now apply Hdo].
Qed.

Lemma fold_try_keeps (f : nat -> label) (Q : state -> Prop) :
  (forall s c, Q s -> Q (try_step s (f c))) ->
  forall l s, Q s -> Q (fold_left (fun s c => try_step s (f c)) l s).
Proof.
  intros HQ. induction l as [|x l IH]; intros s Hq; cbn; [exact Hq|]. apply IH. now apply HQ.
Qed.

Ltac step_cases H :=
  unfold try_step, step in H |- *;
  repeat match goal with
         | |- context[match ?x with _ => _ end] => destruct x eqn:?
         | |- context[if ?x then _ else _] => destruct x eqn:?
         end.

Lemma try_spawn_np s c : panicked s = false -> panicked (try_step s (LSpawn c)) = false.
Proof. intros H. unfold try_step, step. rewrite H. destruct (objs s c) as [o|]; [|exact H]. destruct (c_ds o); try exact H. destruct (c_known o); exact H. Qed.

Lemma try_spawn_self s c : panicked s = false -> not_ds DStart (try_step s (LSpawn c)) c.
Proof.
  intros H o. unfold try_step, step. rewrite H. destruct (objs s c) as [o0|] eqn:E; [|congruence].
  destruct (c_ds o0) eqn:Ed; try (rewrite E; intros X; inversion X; subst; congruence).
  destruct (c_known o0); cbn; rewrite upd_same; intros X; inversion X; subst; cbn; discriminate.
Qed.

Lemma try_spawn_other s c c' : not_ds DStart s c -> not_ds DStart (try_step s (LSpawn c')) c.
Proof.
  intros Hn o. unfold try_step, step. destruct (panicked s); [apply Hn|].
  destruct (objs s c') as [o0|] eqn:E; [|apply Hn]. destruct (c_ds o0) eqn:Ed; try apply Hn.
  destruct (c_known o0); cbn; (upd_cases c c'; [subst c'; intros _ _; exact (Hn o0 E Ed)|apply Hn]).
Qed.

Lemma try_failready_np s c : panicked s = false -> panicked (try_step s (LFailReady c)) = false.
Proof. intros H. unfold try_step, step. rewrite H. destruct (objs s c) as [o|]; [|exact H]. destruct (c_ds o); exact H. Qed.

Lemma try_failready_self s c : panicked s = false -> not_ds DClosing (try_step s (LFailReady c)) c.
Proof.
  intros H o. unfold try_step, step. rewrite H. destruct (objs s c) as [o0|] eqn:E; [|congruence].
  destruct (c_ds o0) eqn:Ed; try (rewrite E; intros X; inversion X; subst; congruence).
  cbn; rewrite upd_same; intros X; inversion X; subst; cbn; discriminate.
Qed.

Lemma try_failready_other d s c c' : d <> DDone -> not_ds d s c -> not_ds d (try_step s (LFailReady c')) c.
Proof.
  intros Hd Hn o. unfold try_step, step. destruct (panicked s); [apply Hn|].
  destruct (objs s c') as [o0|] eqn:E; [|apply Hn]. destruct (c_ds o0) eqn:Ed; try apply Hn.
  cbn. upd_cases c c'; [|apply Hn]. intros X; inversion X; subst; cbn. congruence.
Qed.

Lemma try_wait_objs s i : objs (try_step s (LWait i)) = objs s.
Proof.
  unfold try_step, step. destruct (panicked s); [reflexivity|].
  destruct (thr s i) as [t|]; [|reflexivity]. destruct (t_pc t); try reflexivity.
  destruct (t_obj t) as [c|]; [|reflexivity]. destruct (objs s c) as [o|]; [|reflexivity].
  destruct (c_ready o); [|reflexivity]. destruct (c_err o); reflexivity.
Qed.

Lemma try_wait_np s i : panicked s = false -> panicked (try_step s (LWait i)) = false.
Proof.
  intros H. unfold try_step, step. rewrite H.
  destruct (thr s i) as [t|]; [|exact H]. destruct (t_pc t); try exact H.
  destruct (t_obj t) as [c|]; [|exact H]. destruct (objs s c) as [o|]; [|exact H].
  destruct (c_ready o); [|exact H]. destruct (c_err o); exact H.
Qed.

Lemma try_wait_self s i : wait_done (try_step s (LWait i)) i.
Proof.
  unfold wait_done. destruct (step s (LWait i)) as [s'|] eqn:E; unfold try_step; rewrite E; [|exact E].
  unfold step in E |- *. destruct (panicked s) eqn:Ep; [discriminate|].
  destruct (thr s i) as [t|] eqn:Et; [|discriminate]. destruct (t_pc t) eqn:Epc; try discriminate.
  destruct (t_obj t) as [c|] eqn:Eo; [|discriminate]. destruct (objs s c) as [o|] eqn:Ec; [|discriminate].
  destruct (c_ready o); [|discriminate].
  destruct (c_err o); inversion E; subst s'; cbn; rewrite Ep, upd_same; reflexivity.
Qed.

Lemma try_wait_other s i j : wait_done s i -> wait_done (try_step s (LWait j)) i.
Proof.
  intros H. destruct (Nat.eq_dec i j) as [->|Hn]; [apply try_wait_self|].
  unfold wait_done in *. destruct (step s (LWait j)) as [s'|] eqn:E; unfold try_step; rewrite E; [|exact H].
  assert (Ho : objs s' = objs s) by (pose proof (try_wait_objs s j) as X; unfold try_step in X; now rewrite E in X).
  assert (Hp : panicked s' = panicked s /\ thr s' i = thr s i).
  { unfold step in E. destruct (panicked s) eqn:Ep; [discriminate|].
    destruct (thr s j) as [t|]; [|discriminate]. destruct (t_pc t); try discriminate.
    destruct (t_obj t) as [c|]; [|discriminate]. destruct (objs s c) as [o|]; [|discriminate].
    destruct (c_ready o); [|discriminate].
    destruct (c_err o); inversion E; subst s'; cbn; rewrite upd_other by exact Hn; auto. }
  destruct Hp as [Hp Ht]. unfold step in H |- *. rewrite Hp, Ht, Ho.
  destruct (panicked s); [reflexivity|]. destruct (thr s i) as [t|]; [|reflexivity].
  destruct (t_pc t); try reflexivity. destruct (t_obj t) as [c|]; [|reflexivity].
  destruct (objs s c) as [o|]; [|reflexivity]. destruct (c_ready o); [|reflexivity].
  destruct (c_err o); discriminate H.
Qed.

Theorem settle_quiescent s : reachable s -> quiescent (settle s).
Proof.
  intros Hr. pose proof (inv_reachable s Hr) as I.
  pose proof (inv_reachable _ (settle_reachable s Hr)) as I'.
  unfold settle in *.
  set (s1 := fold_left (fun s c => try_step s (LSpawn c)) (tids s) s) in *.
  set (s2 := fold_left (fun s c => try_step s (LFailReady c)) (tids s) s1) in *.
  set (s3 := fold_left (fun s i => try_step s (LWait i)) (tids s) s2) in *.
  (* phase 1 *)
  destruct (fold_try_each (fun c => LSpawn c) (not_ds DStart) (fun s => panicked s = false)
              try_spawn_np try_spawn_self (fun s c c' _ H => try_spawn_other s c c' H) (tids s) s (i_np s I))
    as [Hp1 H1]. fold s1 in Hp1, H1.
  (* phase 2 *)
  destruct (fold_try_each (fun c => LFailReady c) (not_ds DClosing) (fun s => panicked s = false)
              try_failready_np try_failready_self
              (fun s c c' _ H => try_failready_other DClosing s c c' ltac:(discriminate) H) (tids s) s1 Hp1)
    as [Hp2 H2]. fold s2 in Hp2, H2.
  assert (H1' : forall c, In c (tids s) -> not_ds DStart s2 c).
  { intros c Hin. unfold s2.
    apply (fold_try_keeps (fun c => LFailReady c) (fun s => not_ds DStart s c)); [|exact (H1 c Hin)].
    intros s0 c' Hn. apply try_failready_other; [discriminate|exact Hn]. }
  (* phase 3 *)
  destruct (fold_try_each (fun i => LWait i) wait_done (fun _ => True)
              (fun _ _ _ => Logic.I) (fun s i _ => try_wait_self s i) (fun s i j _ H => try_wait_other s i j H)
              (tids s) s2 Logic.I) as [_ H3]. fold s3 in H3.
  assert (Hobjs : objs s3 = objs s2).
  { unfold s3. apply (fold_try_keeps (fun i => LWait i) (fun s0 => objs s0 = objs s2)); [|reflexivity].
    intros s0 i E. now rewrite try_wait_objs. }
  assert (Htids : forall c o, objs s3 c = Some o -> In c (tids s)).
  { intros c o Ho. rewrite Hobjs in Ho.
    assert (G : forall (f : nat -> label) l s0, (forall c0 s', objs (try_step s' (f c0)) c = None <-> objs s' c = None) ->
                objs (fold_left (fun s c => try_step s (f c)) l s0) c = None <-> objs s0 c = None).
    { intros f l. induction l as [|x l IH]; intros s0 Hf; cbn; [tauto|]. rewrite IH by exact Hf. apply Hf. }
    destruct (objs s c) as [o0|] eqn:E; [eapply i_obj_dom; eauto|exfalso].
    assert (E2 : objs s2 c = None).
    { unfold s2. apply G.
      - intros c0 s'. unfold try_step, step. destruct (panicked s'); [tauto|].
        destruct (objs s' c0) as [o1|] eqn:E1; [|tauto]. destruct (c_ds o1); try tauto.
        cbn. upd_cases c c0; [subst; split; congruence|tauto].
      - unfold s1. apply G; [|exact E].
        intros c0 s'. unfold try_step, step. destruct (panicked s'); [tauto|].
        destruct (objs s' c0) as [o1|] eqn:E1; [|tauto]. destruct (c_ds o1); try tauto.
        destruct (c_known o1); cbn; (upd_cases c c0; [subst; split; congruence|tauto]). }
    congruence. }
  assert (Hth : forall i t, thr s3 i = Some t -> In i (tids s)).
  { intros i t Ht.
    assert (Ht3 : tids s3 = tids s).
    { unfold s3, s2, s1.
      assert (G : forall (f : nat -> label) l s0, (forall c0 s', tids (try_step s' (f c0)) = tids s') ->
                  tids (fold_left (fun s c => try_step s (f c)) l s0) = tids s0).
      { intros f l. induction l as [|x l IH]; intros s0 Hf; cbn; [reflexivity|]. rewrite IH by exact Hf. apply Hf. }
      rewrite !G; auto; intros c0 s'; unfold try_step;
        match goal with |- context[step ?a ?b] => destruct (step a b) as [s4|] eqn:E4 end; try reflexivity;
        unfold step in E4;
        repeat match type of E4 with
               | context[match ?x with _ => _ end] => destruct x
               | context[if ?x then _ else _] => destruct x
               end; try discriminate; inversion E4; reflexivity. }
    rewrite <- Ht3. apply (i_thr_dom s3 I'). congruence. }
  repeat split.
  - intros c. unfold step. destruct (panicked s3); [reflexivity|].
    destruct (objs s3 c) as [o|] eqn:E; [|reflexivity].
    destruct (c_ds o) eqn:Ed; try reflexivity. exfalso.
    rewrite Hobjs in E. exact (H1' c (Htids c o ltac:(now rewrite Hobjs)) o E Ed).
  - intros c. unfold step. destruct (panicked s3); [reflexivity|].
    destruct (objs s3 c) as [o|] eqn:E; [|reflexivity].
    destruct (c_ds o) eqn:Ed; try reflexivity. exfalso.
    rewrite Hobjs in E. exact (H2 c (Htids c o ltac:(now rewrite Hobjs)) o E Ed).
  - intros i. destruct (thr s3 i) as [t|] eqn:Et.
    + exact (H3 i (Hth i t Et)).
    + unfold step. rewrite Et. destruct (panicked s3); reflexivity.
Qed.

Theorem mrun_quiescent s e :
  reachable s -> o_ign (snd (mrun s e)) = false -> quiescent (fst (mrun s e)).
Proof.
  intros Hr. unfold mrun. destruct (labels_of s e) as [l more].
  destruct (step s l) as [s1|] eqn:E; cbn [fst snd].
  - intros _. apply settle_quiescent, fold_try_list_reachable. eapply reachable_step; eauto.
  - unfold observe, canon. cbn. discriminate.
Qed.

(** non-vacuity of the K_P soundness theorem: an accepted case in which a
    handle is observed closed after both threads that received it released *)
Definition ex_script : list event :=
  [EReq 0 0 true; EReq 1 0 true; EPass 0; EPass 1; EDial 0 true; ERelease 0; ERelease 0; ERelease 1;
   EReq 2 0 true]%nat.

Definition ex_case : trace := combine ex_script (ktrace kinit ex_script).

Example ex_kaccepts :
  kaccepts ex_case = true /\ check_case ex_case = [] /\
  returned_in (firstn 8 ex_case) 1 (OConn 0) /\
  (exists e o, nth_error ex_case 7 = Some (e, o) /\ In 0%nat (o_closed (canon o))).
Proof.
  split; [vm_compute; reflexivity|]. split; [vm_compute; reflexivity|]. split.
  - exists (EDial 0 true). eexists. split.
    + vm_compute. do 4 right. left. reflexivity.
    + vm_compute. right. left. reflexivity.
  - do 2 eexists. split; [vm_compute; reflexivity|]. vm_compute. left. reflexivity.
Qed.

(** ** K_P soundness, one-dial-in-flight clause *)

Definition dial_in (c : trace) (d a : nat) : Prop :=
  exists e o, In (e, o) c /\ In (d, a) (o_dials (canon o)).

Definition ended_in (c : trace) (d : nat) : Prop :=
  exists e o, In (e, o) c /\ o_ign (canon o) = false /\
              (e = EDial d true \/ e = EDial d false \/ e = ECancel d).

Lemma pairs_eqb_eq a b : pairs_eqb a b = true -> a = b.
Proof.
  apply list_eqb_eq. intros [x y] [x' y']; cbn. intros H. apply andb_true_iff in H. destruct H as [H1 H2].
  apply Nat.eqb_eq in H1. apply Nat.eqb_eq in H2. congruence.
Qed.

Lemma obs_eqb_dials a b : obs_eqb a b = true -> o_dials a = o_dials b.
Proof.
  unfold obs_eqb. intros H. repeat (apply andb_true_iff in H; destruct H as [H ?]).
  now apply pairs_eqb_eq.
Qed.

Lemma kobs_dials ign ks r j dl f x : In x (o_dials (kobs ign ks r j dl f)) <-> In x dl.
Proof. unfold kobs, canon. cbn. apply In_sort_key. Qed.

Lemma kstep_dials ks e d a :
  In (d, a) (o_dials (snd (kstep ks e))) ->
  e = EReq d a true /\ k_as ks a = AIdle /\ k_d (fst (kstep ks e)) d = Some (a, DPend).
Proof.
  unfold kstep, kignored.
  repeat match goal with
         | |- context[match ?x with _ => _ end] => destruct x eqn:?
         | |- context[if ?x then _ else _] => destruct x eqn:?
         end; cbn [fst snd]; intros H; apply (proj1 (kobs_dials _ _ _ _ _ _ _)) in H;
    try contradiction.
  destruct H as [H|[]]. inversion H; subst. cbn. rewrite upd_same. auto.
Qed.

Lemma kstep_d_mono ks e d a o :
  kinv ks -> k_d ks d = Some (a, o) ->
  exists o', k_d (fst (kstep ks e)) d = Some (a, o') /\
    (o = DPend -> o' = DPend \/
       (o_ign (snd (kstep ks e)) = false /\ (e = EDial d true \/ e = EDial d false \/ e = ECancel d))).
Proof.
  intros K Hd.
  assert (Same : forall ks' (X : Prop), k_d ks' = k_d ks ->
            exists o', k_d ks' d = Some (a, o') /\ (o = DPend -> o' = DPend \/ X)).
  { intros ks' X E. exists o. rewrite E. auto. }
  destruct e as [i a0 known|i|d0 ok|d0|i|i]; cbn [kstep].
  - destruct (k_thr ks i) eqn:Ei; [apply Same; reflexivity|].
    pose proof (kd_none_of_fresh ks i K Ei) as Hdi.
    assert (Hne : d <> i) by congruence.
    destruct (k_cancel ks i); [exists o; cbn; auto|].
    destruct (k_as ks a0); [destruct known|..]; cbn [fst snd]; exists o; cbn; try rewrite upd_other by exact Hne; auto.
  - destruct (k_thr ks i) as [t|]; [|exists o; auto].
    destruct (k_ret t); [exists o; auto|]. destruct (k_passed t); [exists o; auto|].
    match goal with |- context[kwake ?x] => destruct (kwake x) as [ks2 rets] eqn:Ew end.
    cbn [fst snd]. destruct (kwake_rel _ _ _ Ew) as (_ & Hd2 & _). exists o. rewrite Hd2. cbn. auto.
  - destruct (k_d ks d0) as [[a1 [| |cls f]]|] eqn:Ed; try (exists o; auto; fail).
    destruct ok.
    + match goal with |- context[kwake ?x] => destruct (kwake x) as [ks2 rets] eqn:Ew end.
      cbn [fst snd]. destruct (kwake_rel _ _ _ Ew) as (_ & Hd2 & _). rewrite Hd2. cbn.
      upd_cases d d0; [subst d0|exists o; auto].
      assert (a1 = a /\ o = DPend) by (split; congruence). destruct H as [-> ->].
      exists DOk. split; [reflexivity|]. intros _. right. auto.
    + cbn. upd_cases d d0; [subst d0|exists o; auto].
      assert (a1 = a /\ o = DPend) by (split; congruence). destruct H as [-> ->].
      eexists. split; [reflexivity|]. intros _. right. auto.
  - destruct (k_d ks d0) as [[a1 [| |cls [|]]]|] eqn:Ed; try (exists o; auto; fail).
    match goal with |- context[kwake ?x] => destruct (kwake x) as [ks2 rets] eqn:Ew end.
    cbn [fst snd]. destruct (kwake_rel _ _ _ Ew) as (_ & Hd2 & _). rewrite Hd2. cbn.
    upd_cases d d0; [subst d0|exists o; auto].
    assert (a1 = a) by congruence. subst a1.
    eexists. split; [reflexivity|]. intros ->. congruence.
  - destruct (k_thr ks i) as [t|]; [|exists o; auto].
    destruct (k_ret t) as [[h| |cls]|]; try (exists o; auto; fail).
    destruct (k_rel t); [exists o; auto|].
    match goal with |- context[existsb ?f ?l] => destruct (existsb f l) end; cbn [fst snd]; [exists o; auto|].
    destruct (k_d ks h) as [[a1 o1]|]; exists o; cbn; auto.
  - destruct (k_d ks i) as [[a1 [| |cls f]]|] eqn:Ed; cbn [fst snd]; try (exists o; cbn; auto; fail).
    cbn. upd_cases d i; [subst i|exists o; auto].
    assert (a1 = a /\ o = DPend) by (split; congruence). destruct H as [-> ->].
    eexists. split; [reflexivity|]. intros _. right. auto.
Qed.

Lemma kreach_dials c ks :
  kreach c ks -> forall d a, dial_in c d a -> exists o, k_d ks d = Some (a, o) /\ (o = DPend \/ ended_in c d).
Proof.
  induction 1 as [|c ks e o Hr IH Hacc]; intros d a (e0 & o0 & Hin & Hd).
  - destruct Hin.
  - destruct (kreach_inv c ks Hr) as (K & _ & _).
    destruct (obs_eqb_fields _ _ Hacc) as (Hign & _ & _).
    pose proof (obs_eqb_dials _ _ Hacc) as Hdl.
    apply in_app_iff in Hin. destruct Hin as [Hin|[E|[]]].
    + destruct (IH d a) as (o1 & Hk & Ho1); [exists e0, o0; auto|].
      destruct (kstep_d_mono ks e d a o1 K Hk) as (o' & Hk' & Hm). exists o'. split; [exact Hk'|].
      destruct Ho1 as [->|(e1 & ob1 & Hin1 & Hx)].
      * destruct (Hm eq_refl) as [->|(Hig & He)]; [left; reflexivity|right].
        exists e, o. split; [apply in_app_iff; right; left; reflexivity|]. split; [congruence|exact He].
      * right. exists e1, ob1. split; [apply in_app_iff; left; exact Hin1|exact Hx].
    + inversion E; subst e0 o0. rewrite Hdl in Hd.
      destruct (kstep_dials ks e d a Hd) as (_ & _ & Hk). exists DPend. auto.
Qed.

(** in a case that K_P accepts, when a Dial call to an address is observed,
    every Dial call to the same address observed before it has been ended
    (let return, or its context cancelled) by an applied event: no two Dial
    calls to one address are in flight together *)
Theorem K_sound_one_dial_in_flight c :
  kaccepts c = true ->
  forall pre e o post, c = pre ++ (e, o) :: post ->
  forall d2 a, In (d2, a) (o_dials (canon o)) ->
  forall d1, dial_in pre d1 a -> ended_in pre d1.
Proof.
  intros Ha pre e o post -> d2 a Hd2 d1 Hd1.
  destruct (kaccepts_kreach pre [] kinit ((e, o) :: post) kr_nil Ha) as (ks & Hk & Hacc).
  cbn [app] in Hk. cbn in Hacc. destruct (kstep ks e) as [ks' rk] eqn:Es.
  apply andb_true_iff in Hacc. destruct Hacc as [Hacc _].
  destruct (kreach_inv pre ks Hk) as (K & _ & _).
  rewrite (obs_eqb_dials _ _ Hacc) in Hd2.
  assert (Hd2' : In (d2, a) (o_dials (snd (kstep ks e)))) by now rewrite Es.
  destruct (kstep_dials ks e d2 a Hd2') as (_ & Hidle & _).
  destruct (kreach_dials pre ks Hk d1 a Hd1) as (o1 & Hk1 & [->|Hend]); [|exact Hend].
  pose proof (kj_d_as ks K d1 a DPend Hk1) as X. cbn in X. congruence.
Qed.

Example ex_kaccepts_dials :
  kaccepts ex_case = true /\ dial_in (firstn 8 ex_case) 0 0 /\
  (exists e o, nth_error ex_case 8 = Some (e, o) /\ In (2, 0)%nat (o_dials (canon o))).
Proof.
  split; [vm_compute; reflexivity|]. split.
  - exists (EReq 0 0 true). eexists. split; [vm_compute; left; reflexivity|vm_compute; left; reflexivity].
  - do 2 eexists. split; [vm_compute; reflexivity|vm_compute; left; reflexivity].
Qed.

(** * Concurrent calls of one done function

    [LRelBegin i] is the check-and-set of the Once of thread i's done function;
    any goroutine may execute it at any time.  Only one caller ever runs the
    function under the Once ([LRelease i]): every other call, wherever it is
    scheduled -- before, between or after the first caller's two steps -- is
    the identity on the state. *)

Definition run_ok (t : thread) : Prop :=
  t_run t = true -> exists h c, t_pc t = PRet (RConn h) /\ t_obj t = Some c.

Definition run_inv (s : state) : Prop := forall i t, thr s i = Some t -> run_ok t.

Lemma thr_remove s a : thr (remove s a) = thr s.
Proof.
  unfold remove. destruct (conns s a) as [c|]; [|reflexivity].
  destruct (objs s c) as [o|]; [|reflexivity]. destruct (c_cc o); reflexivity.
Qed.

Lemma run_inv_upd s (f : nat -> option thread) i t' :
  run_inv s -> (forall j, f j = upd (thr s) i (Some t') j) -> run_ok t' ->
  forall j t, f j = Some t -> run_ok t.
Proof.
  intros R Hf Hok j t. rewrite Hf. upd_cases j i; [intros E; inversion E; subst; exact Hok|apply R].
Qed.

Lemma run_inv_step s l s' : run_inv s -> step s l = Some s' -> run_inv s'.
Proof.
  intros R H. unfold step in H. destruct (panicked s); [discriminate|].
  destruct l as [i a k|c|c ok|c|c|c|i|i|i|i|i].
  - destruct (thr s i) eqn:Ei; [discriminate|]. destruct (objs s i); [discriminate|].
    destruct (cancelled s i).
    + inversion H; subst s'. unfold run_inv; cbn. eapply run_inv_upd; eauto. intros X; discriminate.
    + destruct (conns s a) as [cid|].
      * destruct (objs s cid); [|discriminate]. inversion H; subst s'. unfold run_inv; cbn.
        eapply run_inv_upd; eauto. intros X; discriminate.
      * inversion H; subst s'. unfold run_inv; cbn. eapply run_inv_upd; eauto. intros X; discriminate.
  - destruct (objs s c) as [o|]; [|discriminate]. destruct (c_ds o); try discriminate.
    destruct (c_known o); inversion H; subst s'; exact R.
  - destruct (objs s c) as [o|]; [|discriminate]. destruct (c_ds o); try discriminate.
    destruct ok; inversion H; subst s'; exact R.
  - destruct (objs s c) as [o|]; [|discriminate]. destruct (c_ds o); try discriminate.
    destruct (cancelled s c); inversion H; subst s'; exact R.
  - destruct (objs s c) as [o|]; [|discriminate]. destruct (c_ds o); try discriminate.
    destruct (panicked (remove s (c_addr o))); inversion H; subst s'; unfold run_inv; cbn;
      rewrite thr_remove; exact R.
  - destruct (objs s c) as [o|]; [|discriminate]. destruct (c_ds o); try discriminate.
    inversion H; subst s'; exact R.
  - destruct (thr s i) as [t|] eqn:Ei; [|discriminate]. destruct (t_pc t) eqn:Ep; try discriminate.
    inversion H; subst s'. unfold run_inv; cbn. eapply run_inv_upd; eauto.
    intros X. cbn in X. destruct (R i t Ei X) as (h & c & E & _). congruence.
  - destruct (thr s i) as [t|] eqn:Ei; [|discriminate]. destruct (t_pc t) eqn:Ep; try discriminate.
    destruct (t_obj t) as [c|] eqn:Eo; [|discriminate]. destruct (objs s c) as [o|]; [|discriminate].
    destruct (c_ready o); [|discriminate].
    assert (Hnr : t_run t = false).
    { destruct (t_run t) eqn:Er; [|reflexivity]. destruct (R i t Ei Er) as (h & c' & E & _). congruence. }
    destruct (c_err o); inversion H; subst s'; unfold run_inv; cbn; eapply run_inv_upd; eauto;
      intros X; cbn in X; congruence.
  - destruct (thr s i) as [t|] eqn:Ei; [|discriminate]. destruct (t_pc t) as [| |[e|h]] eqn:Ep; try discriminate.
    + inversion H; subst; exact R.
    + destruct (t_obj t) as [c|] eqn:Eo; [|discriminate].
      destruct (t_once t || t_run t); inversion H; subst s'; [exact R|].
      unfold run_inv; cbn. eapply run_inv_upd; eauto. intros _. cbn. eauto.
  - destruct (thr s i) as [t|] eqn:Ei; [|discriminate]. destruct (t_pc t) as [| |[e|h]] eqn:Ep; try discriminate.
    + inversion H; subst; exact R.
    + destruct (t_obj t) as [c|] eqn:Eo; [|discriminate].
      destruct (t_once t); [inversion H; subst; exact R|].
      destruct (t_run t) eqn:Er; [|discriminate]. cbn [negb] in H.
      destruct (objs s c) as [o|]; [|discriminate].
      assert (Hok : run_ok (with_once t)) by (intros _; cbn; eauto).
      destruct (Z.leb _ 0); inversion H; subst s'; unfold run_inv; cbn; try rewrite thr_remove; cbn;
        eapply run_inv_upd; eauto.
  - inversion H; subst s'; exact R.
Qed.

Lemma run_inv_reachable s : reachable s -> run_inv s.
Proof.
  apply invariant_induction.
  - intros i t E. discriminate.
  - intros s0 l s' _ R H. eapply run_inv_step; eauto.
Qed.

(** a call of the done function of thread i that finds its Once entered (by a
    caller that may still be waiting for m.mu) or finished changes nothing *)
Theorem concurrent_release_noop s i t :
  reachable s -> thr s i = Some t -> t_run t = true \/ t_once t = true ->
  step s (LRelBegin i) = Some s.
Proof.
  intros H Ht Hor. pose proof (inv_reachable s H) as I.
  unfold step. rewrite (i_np s I), Ht.
  destruct Hor as [Hr|Ho].
  - destruct (run_inv_reachable s H i t Ht Hr) as (h & c & -> & ->). rewrite Hr, orb_true_r. reflexivity.
  - pose proof (i_thread s I i t Ht) as Hto. unfold thread_ok in Hto.
    destruct (t_obj t) as [c|].
    + destruct Hto as (o & _ & _ & Hp). destruct (t_pc t) as [| |r]; try congruence.
      destruct Hp as (_ & _ & Hx). destruct (Hx Ho) as [h ->]. now rewrite Ho.
    + destruct Hto as [-> _]. reflexivity.
Qed.

(** the function under the Once runs at most once: its (only effective) run
    marks the Once finished, after which both steps are identities
    ([double_release_noop], [concurrent_release_noop]) *)
Theorem release_runs_once s i t h s' :
  reachable s -> thr s i = Some t -> t_pc t = PRet (RConn h) -> t_once t = false ->
  step s (LRelease i) = Some s' ->
  t_run t = true /\ exists t', thr s' i = Some t' /\ t_once t' = true /\
  step s' (LRelease i) = Some s' /\ step s' (LRelBegin i) = Some s'.
Proof.
  intros H Ht Hp Hon Hs.
  assert (Hr' : reachable s') by (eapply reachable_step; eauto).
  pose proof (inv_reachable s H) as I.
  assert (Hrun : t_run t = true).
  { unfold step in Hs. rewrite (i_np s I), Ht, Hp, Hon in Hs. destruct (t_obj t); [|discriminate].
    destruct (t_run t); [reflexivity|discriminate]. }
  split; [exact Hrun|].
  assert (E : exists t', thr s' i = Some t' /\ t_once t' = true).
  { unfold step in Hs. rewrite (i_np s I), Ht, Hp, Hon, Hrun in Hs. cbn [negb] in Hs.
    destruct (t_obj t) as [c|]; [|discriminate]. destruct (objs s c) as [o|]; [|discriminate].
    destruct (Z.leb _ 0); inversion Hs; subst s'; try rewrite thr_remove; cbn; rewrite upd_same; eauto. }
  destruct E as (t' & Ht' & Ho'). exists t'. repeat split; auto.
  - eapply double_release_noop; eauto.
  - eapply concurrent_release_noop; eauto.
Qed.

(** non-vacuity: two callers enter the Once of thread 0 while thread 1 also
    holds the connection; whatever the order, one decrement *)
Example ex_concurrent_release :
  let s := st_of [LReq 0 0 true; LSpawn 0; LReq 1 0 true; LPass 0; LPass 1; LDialRet 0 true; LWait 0; LWait 1;
                  LRelBegin 0; LRelBegin 0]%nat in
  reachable s /\ (exists t, thr s 0%nat = Some t /\ t_run t = true /\ t_once t = false /\
                             t_pc t = PRet (RConn (Some 0%nat))) /\
  holders s 0 = 2%nat /\ step s (LRelBegin 0) = Some s /\
  (exists s', step s (LRelease 0) = Some s' /\ holders s' 0 = 1%nat /\ close_log s' = []).
Proof.
  cbv zeta. split; [ex_reach|]. split; [eexists; repeat split; vm_compute; reflexivity|].
  split; [vm_compute; reflexivity|]. split.
  - eapply concurrent_release_noop; [ex_reach|vm_compute; reflexivity|left; vm_compute; reflexivity].
  - eexists. split; [vm_compute; reflexivity|]. split; vm_compute; reflexivity.
Qed.

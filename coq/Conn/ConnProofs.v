(** Lemmas about the LTS of ConnLts.v: the invariant of the connection manager
    and its consequences over every schedule. *)
From Coq Require Import List Bool ZArith NArith Lia Arith.
From Gnmi Require Import Conn.ConnLts.
Import ListNotations.
Open Scope Z_scope.

(** * Reachability over schedules, invariants by induction (generic part) *)

Lemma run_app s l1 l2 :
  run s (l1 ++ l2) = match run s l1 with Some s' => run s' l2 | None => None end.
Proof.
  revert s; induction l1 as [|l l1 IH]; intros s; cbn; [reflexivity|].
  destruct (step s l); auto.
Qed.

Lemma reachable_init : reachable init.
Proof. exists []; reflexivity. Qed.

Lemma reachable_step s l s' : reachable s -> step s l = Some s' -> reachable s'.
Proof.
  intros [ls H] Hs. exists (ls ++ [l]). rewrite run_app, H. cbn. now rewrite Hs.
Qed.

Lemma reachable_run s ls s' : reachable s -> run s ls = Some s' -> reachable s'.
Proof.
  revert s; induction ls as [|l ls IH]; intros s Hr H; cbn in H.
  - inversion H; subst; assumption.
  - destruct (step s l) eqn:E; [|discriminate]. apply (IH s0); [eapply reachable_step; eauto|assumption].
Qed.

Lemma invariant_induction (I : state -> Prop) :
  I init ->
  (forall s l s', reachable s -> I s -> step s l = Some s' -> I s') ->
  forall s, reachable s -> I s.
Proof.
  intros H0 Hstep s [ls H]. revert s H.
  induction ls as [|l ls IH] using rev_ind; intros s H.
  - cbn in H. inversion H; subst; assumption.
  - rewrite run_app in H. destruct (run init ls) as [s1|] eqn:E; [|discriminate].
    cbn in H. destruct (step s1 l) eqn:E2; [|discriminate]. inversion H; subst.
    apply (Hstep s1 l s); [now exists ls|now apply IH|assumption].
Qed.

(** * Counting *)

Definition b2n (b : bool) : nat := if b then 1%nat else 0%nat.

Lemma count_ext (f g : nat -> bool) l :
  (forall j, In j l -> f j = g j) -> List.length (filter f l) = List.length (filter g l).
Proof.
  induction l as [|x l IH]; cbn; intros H; [reflexivity|].
  rewrite (H x) by auto. destruct (g x); cbn; rewrite IH; auto.
Qed.

Lemma count_upd (f g : nat -> bool) l i :
  NoDup l -> In i l -> (forall j, j <> i -> f j = g j) ->
  (List.length (filter g l) + b2n (f i) = List.length (filter f l) + b2n (g i))%nat.
Proof.
  induction l as [|x l IH]; cbn; intros Hnd Hin Hext; [contradiction|].
  inversion Hnd as [|? ? Hni Hnd']; subst.
  destruct (Nat.eq_dec x i) as [->|Hne].
  - assert (E : List.length (filter g l) = List.length (filter f l)).
    { apply count_ext. intros j Hj. symmetry. apply Hext. intros ->; contradiction. }
    destruct (f i), (g i); cbn; lia.
  - destruct Hin as [?|Hin]; [contradiction|].
    specialize (IH Hnd' Hin Hext). rewrite (Hext x Hne).
    destruct (g x); cbn; lia.
Qed.

Lemma count_pos (f : nat -> bool) l i : In i l -> f i = true -> (1 <= List.length (filter f l))%nat.
Proof.
  intros Hin Hf. assert (In i (filter f l)) by (apply filter_In; auto).
  destruct (filter f l); [contradiction|cbn; lia].
Qed.

Lemma upd_same {A} (f : nat -> A) k v : upd f k v k = v.
Proof. unfold upd. now rewrite Nat.eqb_refl. Qed.

Lemma upd_other {A} (f : nat -> A) k v x : x <> k -> upd f k v x = f x.
Proof. unfold upd. intros H. destruct (Nat.eqb_spec x k); congruence. Qed.

(** * The invariant *)

Definition registered (s : state) (c : nat) (o : conn) : bool :=
  match conns s (c_addr o) with Some c' => Nat.eqb c' c | None => false end.

Definition closes (s : state) (h : nat) : nat := count_occ Nat.eq_dec (close_log s) h.

(** what must hold of object [c], as a function of: is it the entry of its
    address, how many threads hold it, how often its handle was closed, does
    its creator still hold it *)
Definition obj_ok' (reg : bool) (hn cl : nat) (ch : bool) (c : nat) (o : conn) : Prop :=
  match c_ds o with
  | DStart | DInDial | DFailing _ =>
      reg = true /\ c_ready o = false /\ c_err o = None /\ c_cc o = None /\
      c_ref o = Z.of_nat hn /\ ch = true
  | DClosing =>
      reg = false /\ c_ready o = false /\ c_err o <> None /\ c_cc o = None
  | DDone =>
      c_ready o = true /\
      match c_err o with
      | Some _ => c_cc o = None /\ reg = false
      | None =>
          c_cc o = Some c /\ c_ref o = Z.of_nat hn /\
          ((reg = true /\ (1 <= hn)%nat /\ cl = 0%nat) \/ (reg = false /\ hn = 0%nat /\ cl = 1%nat))
      end
  end.

Definition obj_ok (s : state) (c : nat) (o : conn) : Prop :=
  obj_ok' (registered s c o) (holders s c) (closes s c) (holds_at s c c) c o.

Definition thread_ok (s : state) (t : thread) : Prop :=
  match t_obj t with
  | None => t_pc t = PRet (RErr ErrCtx) /\ t_once t = false
  | Some c =>
      exists o, objs s c = Some o /\ c_addr o = t_addr t /\
      match t_pc t with
      | PJoined | PWaiting => t_once t = false
      | PRet r => c_ready o = true /\ r = outcome o /\ (t_once t = true -> exists h, r = RConn h)
      end
  end.

Record inv (s : state) : Prop := {
  i_np : panicked s = false;
  i_nd : NoDup (tids s);
  i_thr_dom : forall i, In i (tids s) <-> thr s i <> None;
  i_obj_dom : forall c o, objs s c = Some o -> In c (tids s);
  i_conns : forall a c, conns s a = Some c -> exists o, objs s c = Some o /\ c_addr o = a;
  i_obj : forall c o, objs s c = Some o -> obj_ok s c o;
  i_thread : forall i t, thr s i = Some t -> thread_ok s t;
  i_close : forall h, In h (close_log s) -> exists o, objs s h = Some o /\ c_cc o = Some h;
  i_dial : forall c a, In (c, a) (dial_log s) ->
           exists o, objs s c = Some o /\ c_addr o = a /\ c_known o = true /\ c_ds o <> DStart;
  i_dial_nd : NoDup (map fst (dial_log s))
}.

Lemma inv_init : inv init.
Proof.
  constructor; cbn; try (intros; discriminate); try (intros; contradiction); try constructor.
  - intros [].
  - intros H; now apply H.
Qed.

(** ** frame lemmas *)

Lemma holders_ext s s' c :
  tids s' = tids s -> (forall i, In i (tids s) -> holds_at s' c i = holds_at s c i) ->
  holders s' c = holders s c.
Proof. unfold holders. intros -> H. now apply count_ext. Qed.

Lemma closes_zero s h : inv s -> (forall o, objs s h = Some o -> c_cc o <> Some h) -> closes s h = 0%nat.
Proof.
  intros I H. unfold closes. apply count_occ_not_In. intros Hin.
  destruct (i_close s I h Hin) as (o & Ho & Hc). eapply H; eauto.
Qed.

Lemma registered_iff s c o : registered s c o = true <-> conns s (c_addr o) = Some c.
Proof.
  unfold registered. destruct (conns s (c_addr o)) as [c'|]; [|split; discriminate].
  destruct (Nat.eqb_spec c' c); split; congruence.
Qed.

Lemma registered_false s c o : registered s c o = false <-> conns s (c_addr o) <> Some c.
Proof.
  rewrite <- registered_iff. destruct (registered s c o); split; congruence.
Qed.

Lemma holds_at_creator_pos s c : inv s -> holds_at s c c = true -> (1 <= holders s c)%nat.
Proof.
  intros I H. unfold holders. eapply count_pos; eauto.
  apply (i_thr_dom s I). unfold holds_at in H. destruct (thr s c); congruence.
Qed.

Lemma obj_ok'_failed reg hn cl ch reg' hn' cl' ch' c o :
  c_ds o = DDone -> c_err o <> None -> reg' = reg ->
  obj_ok' reg hn cl ch c o -> obj_ok' reg' hn' cl' ch' c o.
Proof.
  unfold obj_ok'. intros -> He ->. destruct (c_err o); [auto|congruence].
Qed.

Ltac upd_cases x k := unfold upd; destruct (Nat.eqb_spec x k).

(** ** component updates that keep the invariant *)

(** an object changes, keeping its address, reference count and registration *)
Lemma inv_set_obj s c o o' :
  inv s -> objs s c = Some o ->
  c_addr o' = c_addr o ->
  obj_ok' (registered s c o) (holders s c) (closes s c) (holds_at s c c) c o' ->
  (c_ready o = true -> c_ready o' = true /\ outcome o' = outcome o) ->
  (c_cc o = Some c -> c_cc o' = Some c) ->
  c_known o' = c_known o -> (c_ds o <> DStart -> c_ds o' <> DStart) ->
  inv (set_obj s c o').
Proof.
  intros I Ho Ha Hok Hr Hcc Hk Hds.
  constructor; cbn.
  - apply I.
  - apply I.
  - apply I.
  - intros c0 o0. upd_cases c0 c; [subst; intros _; eapply i_obj_dom; eauto|apply I].
  - intros a c0 H. destruct (i_conns s I a c0 H) as (o0 & Ho0 & Ha0).
    upd_cases c0 c; [subst|eauto]. exists o'. split; [reflexivity|]. congruence.
  - intros c0 o0. upd_cases c0 c.
    + subst. intros E; inversion E; subst o0; clear E.
      unfold obj_ok. replace (registered (set_obj s c o') c o') with (registered s c o); [exact Hok|].
      unfold registered. cbn. now rewrite Ha.
    + intros E. exact (i_obj s I c0 o0 E).
  - intros i t Ht. pose proof (i_thread s I i t Ht) as Hto. unfold thread_ok in *.
    destruct (t_obj t) as [c0|]; [|exact Hto].
    destruct Hto as (o0 & Ho0 & Ha0 & Hp). cbn. upd_cases c0 c; [subst c0|eauto].
    assert (o0 = o) by congruence; subst o0.
    exists o'. split; [reflexivity|]. split; [congruence|].
    destruct (t_pc t); auto. destruct Hp as (Hrd & Hout & Hon).
    destruct (Hr Hrd) as [Hr1 Hr2]. repeat split; auto. congruence.
  - intros h Hh. destruct (i_close s I h Hh) as (o0 & Ho0 & Hc0).
    upd_cases h c; [subst h|eauto]. assert (o0 = o) by congruence; subst o0. eauto.
  - intros c0 a Hd. destruct (i_dial s I c0 a Hd) as (o0 & Ho0 & Ha0 & Hk0 & Hd0).
    upd_cases c0 c; [subst c0|eauto]. assert (o0 = o) by congruence; subst o0.
    exists o'. repeat split; auto; congruence.
  - apply I.
Qed.

(** a thread moves on, staying with its object *)
Lemma inv_set_thread s i t t' :
  inv s -> thr s i = Some t -> thread_ok s t' ->
  (forall c, holds c t' = holds c t \/ exists o, objs s c = Some o /\ c_ds o = DDone /\ c_err o <> None) ->
  inv (set_thread s i t').
Proof.
  intros I Ht Hok Hh.
  assert (Hin : In i (tids s)) by (apply (i_thr_dom s I); congruence).
  constructor; cbn.
  - apply I.
  - apply I.
  - intros j. rewrite (i_thr_dom s I j). upd_cases j i; [subst|tauto]. split; congruence.
  - apply I.
  - apply I.
  - intros c o Ho. pose proof (i_obj s I c o Ho) as Hob. unfold obj_ok in *.
    change (registered (set_thread s i t') c o) with (registered s c o).
    change (closes (set_thread s i t') c) with (closes s c).
    destruct (Hh c) as [Heq|(o1 & Ho1 & Hd1 & He1)].
    + assert (Hat : forall j, holds_at (set_thread s i t') c j = holds_at s c j).
      { intros j. unfold holds_at. cbn. upd_cases j i; [subst|reflexivity]. now rewrite Ht. }
      rewrite Hat. rewrite (holders_ext s (set_thread s i t') c); auto.
    + assert (o1 = o) by congruence; subst o1.
      eapply obj_ok'_failed; eauto.
  - intros j tj. upd_cases j i; [subst; intros E; inversion E; subst; exact Hok|].
    intros Hj. exact (i_thread s I j tj Hj).
  - apply I.
  - apply I.
  - apply I.
Qed.

Lemma ready_done s c o : inv s -> objs s c = Some o -> c_ready o = true -> c_ds o = DDone.
Proof.
  intros I Ho Hr. pose proof (i_obj s I c o Ho) as H. unfold obj_ok, obj_ok' in H.
  destruct (c_ds o); try reflexivity; destruct H as (_ & H & _); congruence.
Qed.

Lemma holds_other c c' t : t_obj t = Some c -> c' <> c -> holds c' t = false.
Proof.
  intros Ho Hn. unfold holds. rewrite Ho. destruct (Nat.eqb_spec c c'); [congruence|reflexivity].
Qed.

(** ** the steps, one by one *)

Lemma inv_cancel s i : inv s -> inv (set_cancelled s (upd (cancelled s) i true)).
Proof. intros I. destruct I. constructor; assumption. Qed.

Lemma inv_pass s i s' : inv s -> step s (LPass i) = Some s' -> inv s'.
Proof.
  intros I H. unfold step in H. rewrite (i_np s I) in H.
  destruct (thr s i) as [t|] eqn:Et; [|discriminate].
  destruct (t_pc t) eqn:Ep; try discriminate. inversion H; subst s'; clear H.
  pose proof (i_thread s I i t Et) as Hto.
  eapply inv_set_thread; eauto.
  - unfold thread_ok in *. cbn. destruct (t_obj t); [|rewrite Ep in Hto; destruct Hto; discriminate].
    destruct Hto as (o & Ho & Ha & Hp). exists o. rewrite Ep in Hp. auto.
  - intros c. left. unfold holds. cbn. now rewrite Ep.
Qed.

Lemma inv_wait s i s' : inv s -> step s (LWait i) = Some s' -> inv s'.
Proof.
  intros I H. unfold step in H. rewrite (i_np s I) in H.
  destruct (thr s i) as [t|] eqn:Et; [|discriminate].
  destruct (t_pc t) eqn:Ep; try discriminate.
  destruct (t_obj t) as [c|] eqn:Eo; [|discriminate].
  destruct (objs s c) as [o|] eqn:Ec; [|discriminate].
  destruct (c_ready o) eqn:Er; [|discriminate].
  pose proof (i_thread s I i t Et) as Hto. unfold thread_ok in Hto. rewrite Eo, Ep in Hto.
  destruct Hto as (o1 & Ho1 & Ha1 & Hon). assert (o1 = o) by congruence; subst o1.
  pose proof (ready_done s c o I Ec Er) as Hdd.
  destruct (c_err o) as [e|] eqn:Ee; inversion H; subst s'; clear H.
  - eapply inv_set_thread; eauto.
    + unfold thread_ok. cbn. rewrite Eo. exists o. repeat split; auto.
      * unfold outcome. now rewrite Ee.
      * congruence.
    + intros c0. destruct (Nat.eq_dec c0 c) as [->|Hn].
      * right. exists o. repeat split; auto. congruence.
      * left. rewrite !(holds_other c c0); auto.
  - eapply inv_set_thread; eauto.
    + unfold thread_ok. cbn. rewrite Eo. exists o. repeat split; auto.
      * unfold outcome. now rewrite Ee.
      * congruence.
    + intros c0. left. unfold holds. cbn. rewrite Eo, Ep, Hon. reflexivity.
Qed.

Lemma inv_spawn s c s' : inv s -> step s (LSpawn c) = Some s' -> inv s'.
Proof.
  intros I H. unfold step in H. rewrite (i_np s I) in H.
  destruct (objs s c) as [o|] eqn:Ec; [|discriminate].
  destruct (c_ds o) eqn:Ed; try discriminate.
  pose proof (i_obj s I c o Ec) as Hob. unfold obj_ok, obj_ok' in Hob. rewrite Ed in Hob.
  destruct Hob as (Hreg & Hrd & Herr & Hcc & Href & Hch).
  destruct (c_known o) eqn:Ek; inversion H; subst s'; clear H.
  - assert (I1 : inv (set_obj s c (with_ds o DInDial))).
    { eapply inv_set_obj; eauto; cbn; try congruence.
      unfold obj_ok'. cbn. repeat split; auto. }
    assert (Hni : ~ In c (map fst (dial_log s))).
    { intros Hin. apply in_map_iff in Hin. destruct Hin as ([c1 a1] & E1 & Hin). cbn in E1. subst c1.
      destruct (i_dial s I c a1 Hin) as (o1 & Ho1 & _ & _ & Hd1). congruence. }
    destruct I1. constructor; try assumption.
    + cbn. intros c0 a [E|Hin].
      * inversion E; subst. exists (with_ds o DInDial). rewrite upd_same. cbn. repeat split; auto. discriminate.
      * apply (i_dial0 c0 a Hin).
    + cbn. constructor; assumption.
  - eapply inv_set_obj; eauto; cbn; try congruence.
    unfold obj_ok'. cbn. repeat split; auto.
Qed.

Lemma inv_dialret s c ok s' : inv s -> step s (LDialRet c ok) = Some s' -> inv s'.
Proof.
  intros I H. unfold step in H. rewrite (i_np s I) in H.
  destruct (objs s c) as [o|] eqn:Ec; [|discriminate].
  destruct (c_ds o) eqn:Ed; try discriminate.
  pose proof (i_obj s I c o Ec) as Hob. unfold obj_ok, obj_ok' in Hob. rewrite Ed in Hob.
  destruct Hob as (Hreg & Hrd & Herr & Hcc & Href & Hch).
  destruct ok; inversion H; subst s'; clear H.
  - eapply inv_set_obj; eauto; cbn; try congruence.
    unfold obj_ok'. cbn. rewrite Herr. repeat split; auto. left. repeat split; auto.
    + now apply holds_at_creator_pos.
    + apply closes_zero; auto. intros o1 Ho1. congruence.
  - eapply inv_set_obj; eauto; cbn; try congruence.
    unfold obj_ok'. cbn. repeat split; auto.
Qed.

Lemma inv_dialctx s c s' : inv s -> step s (LDialCtx c) = Some s' -> inv s'.
Proof.
  intros I H. unfold step in H. rewrite (i_np s I) in H.
  destruct (objs s c) as [o|] eqn:Ec; [|discriminate].
  destruct (c_ds o) eqn:Ed; try discriminate.
  pose proof (i_obj s I c o Ec) as Hob. unfold obj_ok, obj_ok' in Hob. rewrite Ed in Hob.
  destruct Hob as (Hreg & Hrd & Herr & Hcc & Href & Hch).
  destruct (cancelled s c); inversion H; subst s'; clear H.
  eapply inv_set_obj; eauto; cbn; try congruence.
  unfold obj_ok'. cbn. repeat split; auto.
Qed.

Lemma inv_failready s c s' : inv s -> step s (LFailReady c) = Some s' -> inv s'.
Proof.
  intros I H. unfold step in H. rewrite (i_np s I) in H.
  destruct (objs s c) as [o|] eqn:Ec; [|discriminate].
  destruct (c_ds o) eqn:Ed; try discriminate.
  pose proof (i_obj s I c o Ec) as Hob. unfold obj_ok, obj_ok' in Hob. rewrite Ed in Hob.
  destruct Hob as (Hreg & Hrd & Herr & Hcc).
  inversion H; subst s'; clear H.
  eapply inv_set_obj; eauto; cbn; try congruence.
  unfold obj_ok'. cbn. destruct (c_err o); [auto|congruence].
Qed.

(** another object's registration is not affected when the entry of [a],
    which points to [c], is deleted or when an empty entry is filled with [c] *)
Lemma registered_other s (cn : nat -> option nat) a c v c0 o0 :
  c0 <> c ->
  (conns s a = Some c \/ conns s a = None) -> (v = None \/ v = Some c) ->
  registered (set_conns s (upd (conns s) a v)) c0 o0 = registered s c0 o0.
Proof.
  intros Hn Hs Hv. unfold registered. cbn. upd_cases (c_addr o0) a; [|reflexivity].
  rewrite e.
  assert (E1 : match conns s a with Some c' => Nat.eqb c' c0 | None => false end = false).
  { destruct Hs as [->| ->]; [|reflexivity]. destruct (Nat.eqb_spec c c0); congruence. }
  rewrite E1. destruct Hv as [->| ->]; [reflexivity|]. destruct (Nat.eqb_spec c c0); congruence.
Qed.

Lemma inv_faillock s c s' : inv s -> step s (LFailLock c) = Some s' -> inv s'.
Proof.
  intros I H. unfold step in H. rewrite (i_np s I) in H.
  destruct (objs s c) as [o|] eqn:Ec; [|discriminate].
  destruct (c_ds o) eqn:Ed; try discriminate.
  pose proof (i_obj s I c o Ec) as Hob. unfold obj_ok, obj_ok' in Hob. rewrite Ed in Hob.
  destruct Hob as (Hreg & Hrd & Herr & Hcc & Href & Hch).
  apply registered_iff in Hreg.
  unfold remove in H. rewrite Hreg, Ec, Hcc in H. cbn in H. rewrite (i_np s I) in H.
  inversion H; subst s'; clear H.
  set (a := c_addr o) in *.
  constructor; cbn.
  - apply I.
  - apply I.
  - apply I.
  - intros c0 o0. upd_cases c0 c; [subst; intros _; eapply i_obj_dom; eauto|apply I].
  - intros a0 c0. upd_cases a0 a; [discriminate|]. intros H.
    destruct (i_conns s I a0 c0 H) as (o0 & Ho0 & Ha0).
    upd_cases c0 c; [|eauto]. subst c0. assert (o0 = o) by congruence; subst o0. exfalso. apply n. subst a. congruence.
  - intros c0 o0. upd_cases c0 c.
    + subst c0. intros E; inversion E; subst o0; clear E.
      unfold obj_ok, obj_ok'. cbn. repeat split; auto; try discriminate.
      unfold registered. cbn. subst a. now rewrite Nat.eqb_refl.
    + intros E. pose proof (i_obj s I c0 o0 E) as Hob. unfold obj_ok in *.
      match goal with |- obj_ok' ?r _ _ _ _ _ => replace r with (registered s c0 o0) end; [exact Hob|].
      symmetry. apply (registered_other s (conns s) a c None c0 o0); auto.
  - intros i t Ht. pose proof (i_thread s I i t Ht) as Hto. unfold thread_ok in *.
    destruct (t_obj t) as [c0|]; [|exact Hto].
    destruct Hto as (o0 & Ho0 & Ha0 & Hp). cbn. upd_cases c0 c; [subst c0|eauto].
    assert (o0 = o) by congruence; subst o0.
    eexists. split; [reflexivity|]. split; [exact Ha0|].
    destruct (t_pc t); auto. destruct Hp; congruence.
  - intros h Hh. destruct (i_close s I h Hh) as (o0 & Ho0 & Hc0).
    upd_cases h c; [subst h|eauto]. assert (o0 = o) by congruence; subst o0. congruence.
  - intros c0 a0 Hd. destruct (i_dial s I c0 a0 Hd) as (o0 & Ho0 & Ha0 & Hk0 & Hd0).
    upd_cases c0 c; [subst c0|eauto]. assert (o0 = o) by congruence; subst o0.
    eexists. split; [reflexivity|]. cbn. repeat split; auto. discriminate.
  - apply I.
Qed.

Arguments holders : simpl never.
Arguments holds_at : simpl never.
Arguments closes : simpl never.
Arguments registered : simpl never.

Lemma inv_release s i s' : inv s -> step s (LRelease i) = Some s' -> inv s'.
Proof.
  intros I H. unfold step in H. rewrite (i_np s I) in H.
  destruct (thr s i) as [t|] eqn:Et; [|discriminate].
  destruct (t_pc t) as [| |r] eqn:Ep; try discriminate.
  destruct r as [e|h]; [inversion H; subst; exact I|].
  destruct (t_obj t) as [c|] eqn:Eo; [|discriminate].
  destruct (t_once t) eqn:Eon; [inversion H; subst; exact I|].
  destruct (objs s c) as [o|] eqn:Ec; [|discriminate].
  pose proof (i_thread s I i t Et) as Hto. unfold thread_ok in Hto. rewrite Eo, Ep in Hto.
  destruct Hto as (o1 & Ho1 & Ha1 & Hrd & Hout & _). assert (o1 = o) by congruence; subst o1.
  unfold outcome in Hout. destruct (c_err o) eqn:Eerr; [discriminate|].
  pose proof (ready_done s c o I Ec Hrd) as Hdd.
  pose proof (i_obj s I c o Ec) as Hob. unfold obj_ok, obj_ok' in Hob. rewrite Hdd, Eerr in Hob.
  destruct Hob as (_ & Hcc & Href & Hdisj).
  assert (Hhi : holds_at s c i = true).
  { unfold holds_at. rewrite Et. unfold holds. now rewrite Eo, Ep, Eon, Nat.eqb_refl. }
  assert (Hin : In i (tids s)) by (apply (i_thr_dom s I); congruence).
  assert (Hpos : (1 <= holders s c)%nat) by (unfold holders; eapply count_pos; eauto).
  destruct Hdisj as [(Hreg & _ & Hcl)|(_ & H0 & _)]; [|lia].
  apply registered_iff in Hreg.
  set (o' := with_ref o (c_ref o - 1)) in *. set (t' := with_once t) in *.
  set (s1 := set_thread (set_obj s c o') i t') in *.
  assert (Hti : forall c0, holds c0 t' = false).
  { intros c0. unfold holds, t'. cbn. rewrite Eo, Ep. cbn. apply andb_false_r. }
  assert (Hh1 : (holders s1 c + 1 = holders s c)%nat).
  { pose proof (count_upd (holds_at s c) (holds_at s1 c) (tids s) i (i_nd s I) Hin) as X.
    rewrite Hhi in X.
    assert (E : holds_at s1 c i = false) by (unfold holds_at, s1; cbn; rewrite upd_same; apply Hti).
    rewrite E in X. cbn in X. unfold holders. change (tids s1) with (tids s).
    assert (P : forall j, j <> i -> holds_at s c j = holds_at s1 c j).
    { intros j Hj. unfold holds_at, s1. cbn. now rewrite upd_other. }
    specialize (X P). lia. }
  assert (Hat : forall c0 j, c0 <> c -> holds_at s1 c0 j = holds_at s c0 j).
  { intros c0 j Hn. unfold holds_at, s1. cbn. upd_cases j i; [subst j|reflexivity].
    rewrite Et, Hti. symmetry. eapply holds_other; eauto. }
  assert (Hho : forall c0, c0 <> c -> holders s1 c0 = holders s c0).
  { intros c0 Hn. apply holders_ext; auto. }
  assert (Hthr : forall j tj, thr s1 j = Some tj -> thread_ok s1 tj).
  { intros j tj. unfold s1. cbn. upd_cases j i.
    - intros E; inversion E; subst tj; clear E. unfold thread_ok, t'. cbn. rewrite Eo.
      exists o'. rewrite upd_same. split; [reflexivity|]. split; [exact Ha1|]. rewrite Ep.
      repeat split; auto. unfold outcome, o'; cbn. now rewrite Eerr. intros _. eauto.
    - intros Hj. pose proof (i_thread s I j tj Hj) as Hto. unfold thread_ok in *.
      destruct (t_obj tj) as [c0|]; [|exact Hto]. destruct Hto as (o0 & Ho0 & Ha0 & Hp).
      cbn. upd_cases c0 c; [subst c0|eauto]. assert (o0 = o) by congruence; subst o0.
      exists o'. split; [reflexivity|]. split; [exact Ha0|]. exact Hp. }
  assert (Hthr_dom : forall j, In j (tids s) <-> thr s1 j <> None).
  { intros j. rewrite (i_thr_dom s I j). unfold s1; cbn. upd_cases j i; [subst|tauto]. split; congruence. }
  assert (Hobj_dom : forall c0 o0, objs s1 c0 = Some o0 -> In c0 (tids s)).
  { intros c0 o0. unfold s1; cbn. upd_cases c0 c; [subst; intros _; eapply i_obj_dom; eauto|apply I]. }
  assert (Hdial : forall c0 a0, In (c0, a0) (dial_log s) ->
            exists o0, objs s1 c0 = Some o0 /\ c_addr o0 = a0 /\ c_known o0 = true /\ c_ds o0 <> DStart).
  { intros c0 a0 Hd. destruct (i_dial s I c0 a0 Hd) as (o0 & Ho0 & Ha0 & Hk0 & Hd0).
    unfold s1; cbn. upd_cases c0 c; [subst c0|eauto]. assert (o0 = o) by congruence; subst o0.
    exists o'. repeat split; auto. }
  assert (Hclose : forall h0, In h0 (close_log s) -> exists o0, objs s1 h0 = Some o0 /\ c_cc o0 = Some h0).
  { intros h0 Hh. destruct (i_close s I h0 Hh) as (o0 & Ho0 & Hc0).
    unfold s1; cbn. upd_cases h0 c; [subst h0|eauto]. assert (o0 = o) by congruence; subst o0. eauto. }
  assert (Hother : forall c0 o0, c0 <> c -> objs s c0 = Some o0 ->
            obj_ok' (registered s c0 o0) (holders s1 c0) (closes s c0) (holds_at s1 c0 c0) c0 o0).
  { intros c0 o0 Hn E. rewrite Hho, Hat by auto. exact (i_obj s I c0 o0 E). }
  destruct (Z.leb (c_ref o') 0) eqn:Ele; inversion H; subst s'; clear H.
  - (* last holder: remove *)
    apply Z.leb_le in Ele. unfold o' in Ele; cbn in Ele.
    assert (Hz : holders s1 c = 0%nat) by lia.
    unfold remove. change (c_addr o') with (c_addr o).
    change (conns s1 (c_addr o)) with (conns s (c_addr o)). rewrite Hreg.
    change (objs s1 c) with (upd (objs s) c (Some o') c). rewrite upd_same.
    change (c_cc o') with (c_cc o). rewrite Hcc. cbn.
    constructor; cbn.
    + apply I.
    + apply I.
    + exact Hthr_dom.
    + exact Hobj_dom.
    + intros a0 c0. upd_cases a0 (c_addr o); [discriminate|]. intros H.
      destruct (i_conns s I a0 c0 H) as (o0 & Ho0 & Ha0).
      upd_cases c0 c; [|eauto]. subst c0. assert (o0 = o) by congruence; subst o0. congruence.
    + intros c0 o0. upd_cases c0 c.
      * subst c0. intros E; inversion E; subst o0; clear E.
        unfold obj_ok, obj_ok', o'. cbn [c_ds c_err c_cc c_ref c_ready with_ref]. rewrite Hdd, Eerr.
        change (holders _ c) with (holders s1 c).
        repeat split; auto.
        { lia. }
        right. repeat split.
        { unfold registered. cbn. now rewrite Nat.eqb_refl. }
        { exact Hz. }
        { unfold closes. cbn. destruct (Nat.eq_dec c c); [|congruence]. unfold closes in Hcl. now rewrite Hcl. }
      * intros E. pose proof (Hother c0 o0 n E) as Hob. unfold obj_ok.
        match goal with |- obj_ok' ?r ?hn ?cl ?ch _ _ =>
          replace r with (registered s c0 o0); [replace cl with (closes s c0); [exact Hob|]|] end.
        { unfold closes. cbn. destruct (Nat.eq_dec c c0); [congruence|reflexivity]. }
        { symmetry. apply (registered_other s (conns s) (c_addr o) c None c0 o0); auto. }
    + exact Hthr.
    + intros h0 [E|Hh]; [subst h0|exact (Hclose h0 Hh)]. exists o'. rewrite upd_same. auto.
    + exact Hdial.
    + apply I.
  - apply Z.leb_gt in Ele. unfold o' in Ele; cbn in Ele.
    constructor.
    + apply I.
    + apply I.
    + exact Hthr_dom.
    + exact Hobj_dom.
    + intros a0 c0 H. destruct (i_conns s I a0 c0 H) as (o0 & Ho0 & Ha0).
      unfold s1; cbn. upd_cases c0 c; [subst|eauto]. assert (o0 = o) by congruence; subst o0. eauto.
    + intros c0 o0. unfold s1 at 1. cbn. upd_cases c0 c.
      * subst c0. intros E; inversion E; subst o0; clear E.
        unfold obj_ok, obj_ok', o'. cbn [c_ds c_err c_cc c_ref c_ready with_ref]. rewrite Hdd, Eerr.
        repeat split; auto.
        { lia. }
        left. repeat split.
        { apply registered_iff. exact Hreg. }
        { lia. }
        { exact Hcl. }
      * intros E. exact (Hother c0 o0 n E).
    + exact Hthr.
    + exact Hclose.
    + exact Hdial.
    + apply I.
Qed.

Lemma holders_new s s' i t0 c :
  ~ In i (tids s) -> tids s' = i :: tids s -> thr s' = upd (thr s) i (Some t0) ->
  holders s' c = (b2n (holds c t0) + holders s c)%nat.
Proof.
  unfold holders. intros Hni -> Hthr. cbn. unfold holds_at at 1. rewrite Hthr, upd_same.
  assert (E : List.length (filter (holds_at s' c) (tids s)) = List.length (filter (holds_at s c) (tids s))).
  { apply count_ext. intros j Hj. unfold holds_at. rewrite Hthr, upd_other; auto. intros ->; contradiction. }
  destruct (holds c t0); cbn; rewrite E; reflexivity.
Qed.

Lemma inv_req s i a k s' : inv s -> step s (LReq i a k) = Some s' -> inv s'.
Proof.
  intros I H. unfold step in H. rewrite (i_np s I) in H.
  destruct (thr s i) as [t|] eqn:Et; [discriminate|].
  destruct (objs s i) as [oi|] eqn:Eoi; [discriminate|].
  assert (Hni : ~ In i (tids s)) by (rewrite (i_thr_dom s I); congruence).
  assert (Hobj_ne : forall c o, objs s c = Some o -> c <> i) by (intros c o Hc ->; congruence).
  assert (Hnd : NoDup (i :: tids s)) by (constructor; [exact Hni|apply I]).
  assert (Hdom : forall s1 t0, tids s1 = i :: tids s -> thr s1 = upd (thr s) i (Some t0) ->
            forall j, In j (tids s1) <-> thr s1 j <> None).
  { intros s1 t0 -> -> j. cbn. rewrite (i_thr_dom s I j). upd_cases j i; [subst|].
    - split; [congruence|auto].
    - split; [intros [E|E]; [congruence|exact E]|auto]. }
  assert (Hat : forall s1 t0 c j, thr s1 = upd (thr s) i (Some t0) -> j <> i -> holds_at s1 c j = holds_at s c j).
  { intros s1 t0 c j E Hn. unfold holds_at. now rewrite E, upd_other. }
  destruct (cancelled s i) eqn:Eca.
  - (* refused at the ctx check *)
    inversion H; subst s'; clear H.
    set (t0 := {| t_addr := a; t_obj := None; t_pc := PRet (RErr ErrCtx); t_once := false |}) in *.
    set (s1 := set_thread (set_tids s (i :: tids s)) i t0) in *.
    assert (Hh : forall c, holders s1 c = holders s c).
    { intros c. rewrite (holders_new s s1 i t0 c); auto. }
    constructor.
    + apply I.
    + exact Hnd.
    + eapply Hdom; reflexivity.
    + intros c o Hc. right. exact (i_obj_dom s I c o Hc).
    + apply I.
    + intros c o Hc. change (objs s1 c) with (objs s c) in Hc.
      pose proof (i_obj s I c o Hc) as Hob. unfold obj_ok in *.
      change (registered s1 c o) with (registered s c o). change (closes s1 c) with (closes s c).
      rewrite Hh, (Hat s1 t0 c c); auto. eapply Hobj_ne; eauto.
    + intros j tj. unfold s1; cbn. upd_cases j i.
      * intros E; inversion E; subst tj. unfold thread_ok; cbn. auto.
      * intros Hj. exact (i_thread s I j tj Hj).
    + apply I.
    + apply I.
    + apply I.
  - destruct (conns s a) as [cid|] eqn:Eca2.
    + (* join the entry of this address *)
      destruct (objs s cid) as [o|] eqn:Ec; [|discriminate].
      inversion H; subst s'; clear H.
      destruct (i_conns s I a cid Eca2) as (o1 & Ho1 & Ha1). assert (o1 = o) by congruence; subst o1.
      assert (Hci : cid <> i) by (eapply Hobj_ne; eauto).
      set (t0 := {| t_addr := a; t_obj := Some cid; t_pc := PJoined; t_once := false |}) in *.
      set (o' := with_ref o (c_ref o + 1)) in *.
      set (s1 := set_thread (set_obj (set_tids s (i :: tids s)) cid o') i t0) in *.
      assert (Hh : forall c, holders s1 c = (b2n (Nat.eqb cid c) + holders s c)%nat).
      { intros c. rewrite (holders_new s s1 i t0 c); auto. unfold holds, t0; cbn. now rewrite andb_true_r. }
      constructor.
      * apply I.
      * exact Hnd.
      * eapply Hdom; reflexivity.
      * intros c o0. unfold s1; cbn. upd_cases c cid; [subst; intros _; right; eapply i_obj_dom; eauto|].
        intros Hc; right; exact (i_obj_dom s I c o0 Hc).
      * intros a0 c0 H. destruct (i_conns s I a0 c0 H) as (o0 & Ho0 & Ha0).
        unfold s1; cbn. upd_cases c0 cid; [subst|eauto]. assert (o0 = o) by congruence; subst o0. eauto.
      * intros c o0. unfold s1 at 1; cbn. upd_cases c cid.
        -- subst c. intros E; inversion E; subst o0; clear E.
           pose proof (i_obj s I cid o Ec) as Hob. unfold obj_ok, obj_ok' in *.
           change (registered s1 cid o') with (registered s cid o). change (closes s1 cid) with (closes s cid).
           rewrite Hh, Nat.eqb_refl, (Hat s1 t0 cid cid); auto.
           assert (Hreg : registered s cid o = true) by (apply registered_iff; congruence).
           unfold o'; cbn [c_ds c_err c_cc c_ref c_ready with_ref].
           destruct (c_ds o).
           ++ destruct Hob as (? & ? & ? & ? & Hr & ?). repeat split; auto. rewrite Hr. cbn [b2n]. lia.
           ++ destruct Hob as (? & ? & ? & ? & Hr & ?). repeat split; auto. rewrite Hr. cbn [b2n]. lia.
           ++ destruct Hob as (? & ? & ? & ? & Hr & ?). repeat split; auto. rewrite Hr. cbn [b2n]. lia.
           ++ destruct Hob as (? & _). congruence.
           ++ destruct Hob as (Hrd & Hob). split; [exact Hrd|]. destruct (c_err o).
              ** destruct Hob; congruence.
              ** destruct Hob as (Hcc & Hr & Hd). repeat split; auto.
                 { rewrite Hr. cbn [b2n]. lia. }
                 destruct Hd as [(_ & Hp & Hcl)|(Hf & _)]; [|congruence].
                 left. repeat split; auto; cbn [b2n]; lia.
        -- intros E. pose proof (i_obj s I c o0 E) as Hob. unfold obj_ok in *.
           change (registered s1 c o0) with (registered s c o0). change (closes s1 c) with (closes s c).
           rewrite Hh, (Hat s1 t0 c c); auto.
           ++ destruct (Nat.eqb_spec cid c); [congruence|exact Hob].
           ++ eapply Hobj_ne; eauto.
      * intros j tj. unfold s1; cbn. upd_cases j i.
        -- intros E; inversion E; subst tj. unfold thread_ok, t0; cbn. rewrite upd_same.
           exists o'. auto.
        -- intros Hj. pose proof (i_thread s I j tj Hj) as Hto. unfold thread_ok in *.
           destruct (t_obj tj) as [c0|]; [|exact Hto]. destruct Hto as (o0 & Ho0 & Ha0 & Hp). cbn.
           upd_cases c0 cid; [subst c0|eauto]. assert (o0 = o) by congruence; subst o0.
           exists o'. auto.
      * intros h Hh0. destruct (i_close s I h Hh0) as (o0 & Ho0 & Hc0).
        unfold s1; cbn. upd_cases h cid; [subst h|eauto]. assert (o0 = o) by congruence; subst o0. eauto.
      * intros c0 a0 Hd. destruct (i_dial s I c0 a0 Hd) as (o0 & Ho0 & Ha0 & Hk0 & Hd0).
        unfold s1; cbn. upd_cases c0 cid; [subst c0|eauto]. assert (o0 = o) by congruence; subst o0.
        exists o'. repeat split; auto.
      * apply I.
    + (* no entry: create the object, start its dialer *)
      inversion H; subst s'; clear H.
      set (t0 := {| t_addr := a; t_obj := Some i; t_pc := PJoined; t_once := false |}) in *.
      set (o' := with_ref (new_conn a k) 1) in *.
      set (s1 := set_thread (set_obj (set_conns (set_tids s (i :: tids s)) (upd (conns s) a (Some i))) i o') i t0) in *.
      assert (Hh : forall c, holders s1 c = (b2n (Nat.eqb i c) + holders s c)%nat).
      { intros c. rewrite (holders_new s s1 i t0 c); auto. unfold holds, t0; cbn. now rewrite andb_true_r. }
      assert (Hz : holders s i = 0%nat).
      { unfold holders. destruct (filter (holds_at s i) (tids s)) as [|j l] eqn:Ef; [reflexivity|exfalso].
        assert (Hj : In j (filter (holds_at s i) (tids s))) by (rewrite Ef; left; reflexivity).
        apply filter_In in Hj. destruct Hj as [_ Hj]. unfold holds_at in Hj.
        destruct (thr s j) as [tj|] eqn:Etj; [|discriminate].
        pose proof (i_thread s I j tj Etj) as Hto. unfold thread_ok in Hto. unfold holds in Hj.
        destruct (t_obj tj) as [c0|]; [|discriminate].
        destruct (Nat.eqb_spec c0 i); [subst c0|discriminate].
        destruct Hto as (o0 & Ho0 & _). congruence. }
      constructor.
      * apply I.
      * exact Hnd.
      * eapply Hdom; reflexivity.
      * intros c o0. unfold s1; cbn. upd_cases c i; [subst; intros _; left; reflexivity|].
        intros Hc; right; exact (i_obj_dom s I c o0 Hc).
      * intros a0 c0. unfold s1; cbn. upd_cases a0 a.
        -- subst a0. intros E; inversion E; subst c0. rewrite Nat.eqb_refl. exists o'. auto.
        -- intros H. destruct (i_conns s I a0 c0 H) as (o0 & Ho0 & Ha0).
           upd_cases c0 i; [subst; congruence|eauto].
      * intros c o0. unfold s1 at 1; cbn. upd_cases c i.
        -- subst c. intros E; inversion E; subst o0; clear E.
           unfold obj_ok, obj_ok', o'. cbn [c_ds c_err c_cc c_ref c_ready with_ref new_conn].
           repeat split; auto.
           ++ unfold registered, s1; cbn. rewrite upd_same. apply Nat.eqb_refl.
           ++ rewrite Hh, Nat.eqb_refl, Hz. reflexivity.
           ++ unfold holds_at, s1; cbn. rewrite upd_same. unfold holds, t0; cbn. now rewrite Nat.eqb_refl.
        -- intros E. pose proof (i_obj s I c o0 E) as Hob. unfold obj_ok in *.
           change (closes s1 c) with (closes s c).
           rewrite Hh, (Hat s1 t0 c c); auto.
           destruct (Nat.eqb_spec i c); [congruence|]. cbn [b2n plus].
           replace (registered s1 c o0) with (registered s c o0); [exact Hob|].
           symmetry. apply (registered_other s (conns s) a i (Some i) c o0); auto.
      * intros j tj. unfold s1; cbn. upd_cases j i.
        -- intros E; inversion E; subst tj. unfold thread_ok, t0; cbn. rewrite upd_same.
           exists o'. auto.
        -- intros Hj. pose proof (i_thread s I j tj Hj) as Hto. unfold thread_ok in *.
           destruct (t_obj tj) as [c0|]; [|exact Hto]. destruct Hto as (o0 & Ho0 & Ha0 & Hp). cbn.
           upd_cases c0 i; [subst; congruence|eauto].
      * intros h Hh0. destruct (i_close s I h Hh0) as (o0 & Ho0 & Hc0).
        unfold s1; cbn. upd_cases h i; [subst; congruence|eauto].
      * intros c0 a0 Hd. destruct (i_dial s I c0 a0 Hd) as (o0 & Ho0 & Ha0 & Hk0 & Hd0).
        unfold s1; cbn. upd_cases c0 i; [subst; congruence|eauto].
      * apply I.
Qed.

Lemma inv_step s l s' : inv s -> step s l = Some s' -> inv s'.
Proof.
  intros I H. destruct l.
  - eapply inv_req; eauto.
  - eapply inv_spawn; eauto.
  - eapply inv_dialret; eauto.
  - eapply inv_dialctx; eauto.
  - eapply inv_faillock; eauto.
  - eapply inv_failready; eauto.
  - eapply inv_pass; eauto.
  - eapply inv_wait; eauto.
  - eapply inv_release; eauto.
  - unfold step in H. rewrite (i_np s I) in H. inversion H; subst. now apply inv_cancel.
Qed.

Theorem inv_reachable s : reachable s -> inv s.
Proof.
  apply invariant_induction; [exact inv_init|]. intros s0 l s' _ I H. eapply inv_step; eauto.
Qed.

(** * The property, over every schedule *)

(** an attempt to connect to [a] is in progress on object [c]: the dialer has
    not yet decided, or has failed and not yet cleaned up *)
Definition pending (s : state) (c a : nat) : Prop :=
  exists o, objs s c = Some o /\ c_addr o = a /\
            (c_ds o = DStart \/ c_ds o = DInDial \/ exists e, c_ds o = DFailing e).

Lemma pending_registered s c a : inv s -> pending s c a -> conns s a = Some c.
Proof.
  intros I (o & Ho & Ha & Hd). pose proof (i_obj s I c o Ho) as Hob. unfold obj_ok, obj_ok' in Hob.
  subst a. apply registered_iff.
  destruct Hd as [Hd|[Hd|[e Hd]]]; rewrite Hd in Hob; tauto.
Qed.

(** remove_precondition: the process never panics, in particular the `!ok`
    branch of Manager.remove (nil dereference) is never taken; and both callers
    of remove delete the entry of their own connection object *)
Theorem never_panics s : reachable s -> panicked s = false.
Proof. intros H. apply (i_np s (inv_reachable s H)). Qed.

Theorem remove_finds_own_entry_on_failure s c o e :
  reachable s -> objs s c = Some o -> c_ds o = DFailing e -> conns s (c_addr o) = Some c.
Proof.
  intros H Ho Hd. apply pending_registered; [now apply inv_reachable|].
  exists o. repeat split; eauto.
Qed.

Lemma holder_facts s i t c h :
  inv s -> thr s i = Some t -> t_obj t = Some c -> t_pc t = PRet (RConn h) ->
  exists o, objs s c = Some o /\ c_addr o = t_addr t /\ c_ds o = DDone /\ c_err o = None /\
            h = Some c /\ c_cc o = Some c /\ c_ref o = Z.of_nat (holders s c).
Proof.
  intros I Ht Ho Hp. pose proof (i_thread s I i t Ht) as Hto. unfold thread_ok in Hto.
  rewrite Ho, Hp in Hto. destruct Hto as (o & Hc & Ha & Hr & Hout & _).
  pose proof (ready_done s c o I Hc Hr) as Hd.
  pose proof (i_obj s I c o Hc) as Hob. unfold obj_ok, obj_ok' in Hob. rewrite Hd in Hob.
  unfold outcome in Hout. destruct (c_err o) eqn:Ee; [discriminate|].
  destruct Hob as (_ & Hcc & Hrf & _). inversion Hout; subst h.
  exists o. repeat split; auto.
Qed.

Lemma holds_pos s c i : inv s -> holds_at s c i = true -> (1 <= holders s c)%nat.
Proof.
  intros I H. unfold holders. eapply count_pos; eauto.
  apply (i_thr_dom s I). unfold holds_at in H. destruct (thr s i); congruence.
Qed.

Theorem remove_finds_own_entry_on_release s i t c h o :
  reachable s -> thr s i = Some t -> t_obj t = Some c -> t_pc t = PRet (RConn h) -> t_once t = false ->
  objs s c = Some o -> conns s (c_addr o) = Some c.
Proof.
  intros H Ht Ho Hp Hon Hc. pose proof (inv_reachable s H) as I.
  destruct (holder_facts s i t c h I Ht Ho Hp) as (o1 & Hc1 & Ha & Hd & He & Hh & Hcc & Hrf).
  assert (o1 = o) by congruence; subst o1.
  assert (Hat : holds_at s c i = true).
  { unfold holds_at. rewrite Ht. unfold holds. now rewrite Ho, Hp, Hon, Nat.eqb_refl. }
  pose proof (holds_pos s c i I Hat) as Hpos.
  pose proof (i_obj s I c o Hc) as Hob. unfold obj_ok, obj_ok' in Hob. rewrite Hd, He in Hob.
  destruct Hob as (_ & _ & _ & [(Hreg & _)|(_ & Hz & _)]); [now apply registered_iff|lia].
Qed.

(** one_dial_in_flight: at most one attempt per address, hence at most one
    Dial call in flight per address; a request that arrives during an attempt
    joins it and starts nothing *)
Theorem one_attempt_per_address s c1 c2 a :
  reachable s -> pending s c1 a -> pending s c2 a -> c1 = c2.
Proof.
  intros H H1 H2. pose proof (inv_reachable s H) as I.
  pose proof (pending_registered s c1 a I H1). pose proof (pending_registered s c2 a I H2). congruence.
Qed.

Theorem one_dial_in_flight s c1 c2 o1 o2 :
  reachable s -> objs s c1 = Some o1 -> objs s c2 = Some o2 ->
  c_ds o1 = DInDial -> c_ds o2 = DInDial -> c_addr o1 = c_addr o2 -> c1 = c2.
Proof.
  intros H H1 H2 D1 D2 Ha. apply (one_attempt_per_address s c1 c2 (c_addr o1) H).
  - exists o1; auto.
  - exists o2; repeat split; auto.
Qed.

Theorem request_joins_pending_attempt s c a i k s' :
  reachable s -> pending s c a -> cancelled s i = false -> step s (LReq i a k) = Some s' ->
  dial_log s' = dial_log s /\
  (forall c', objs s c' = None -> objs s' c' = None) /\
  exists t, thr s' i = Some t /\ t_obj t = Some c /\ t_pc t = PJoined.
Proof.
  intros H Hp Hc Hs. pose proof (inv_reachable s H) as I.
  pose proof (pending_registered s c a I Hp) as Hreg.
  unfold step in Hs. rewrite (i_np s I) in Hs.
  destruct (thr s i); [discriminate|]. destruct (objs s i) eqn:Ei; [discriminate|].
  rewrite Hc, Hreg in Hs. destruct Hp as (o & Ho & _). rewrite Ho in Hs.
  inversion Hs; subst s'; clear Hs. cbn. repeat split.
  - intros c' Hn. upd_cases c' c; [congruence|exact Hn].
  - rewrite upd_same. eexists. split; [reflexivity|]. cbn. auto.
Qed.

(** share_outcome: everybody who joined one attempt returns the same result *)
Theorem share_outcome s i j ti tj c r r' :
  reachable s -> thr s i = Some ti -> thr s j = Some tj ->
  t_obj ti = Some c -> t_obj tj = Some c -> t_pc ti = PRet r -> t_pc tj = PRet r' -> r = r'.
Proof.
  intros H Hi Hj Hoi Hoj Hpi Hpj. pose proof (inv_reachable s H) as I.
  pose proof (i_thread s I i ti Hi) as H1. pose proof (i_thread s I j tj Hj) as H2.
  unfold thread_ok in *. rewrite Hoi, Hpi in H1. rewrite Hoj, Hpj in H2.
  destruct H1 as (o1 & Ho1 & _ & _ & E1 & _). destruct H2 as (o2 & Ho2 & _ & _ & E2 & _).
  congruence.
Qed.

(** a successful request returns the handle produced by the Dial of the
    attempt it joined (never nil), for the address it asked for *)
Theorem returned_handle_is_the_attempts s i t c h :
  reachable s -> thr s i = Some t -> t_obj t = Some c -> t_pc t = PRet (RConn h) ->
  h = Some c /\ exists o, objs s c = Some o /\ c_addr o = t_addr t /\ c_cc o = Some c.
Proof.
  intros H Ht Ho Hp. pose proof (inv_reachable s H) as I.
  destruct (holder_facts s i t c h I Ht Ho Hp) as (o & Hc & Ha & _ & _ & Hh & Hcc & _). eauto.
Qed.

(** no_use_after_close: a handle is not closed while some thread counts as a
    holder -- whether it already returned it and has not released, or is still
    on its way (joined, waiting) *)
Theorem no_use_after_close s i c :
  reachable s -> holds_at s c i = true -> ~ In c (close_log s).
Proof.
  intros H Hat Hin. pose proof (inv_reachable s H) as I.
  pose proof (holds_pos s c i I Hat) as Hpos.
  destruct (i_close s I c Hin) as (o & Ho & Hcc).
  pose proof (i_obj s I c o Ho) as Hob. unfold obj_ok, obj_ok' in Hob.
  destruct (c_ds o); try (destruct Hob as (_ & _ & _ & Hn & _); congruence).
  - destruct Hob as (_ & _ & _ & Hn); congruence.
  - destruct Hob as (_ & Hob). destruct (c_err o); [destruct Hob; congruence|].
    destruct Hob as (_ & _ & [(_ & _ & Hz)|(_ & Hz & _)]); [|lia].
    unfold closes in Hz. apply (count_occ_not_In Nat.eq_dec) in Hz. contradiction.
Qed.

Theorem no_use_after_close_returned s i t h :
  reachable s -> thr s i = Some t -> t_pc t = PRet (RConn (Some h)) -> t_once t = false ->
  ~ In h (close_log s).
Proof.
  intros H Ht Hp Hon. pose proof (inv_reachable s H) as I.
  pose proof (i_thread s I i t Ht) as Hto. unfold thread_ok in Hto.
  destruct (t_obj t) as [c|] eqn:Ho; [|rewrite Hp in Hto; destruct Hto; discriminate].
  destruct (holder_facts s i t c (Some h) I Ht Ho Hp) as (o & _ & _ & _ & _ & Hh & _).
  inversion Hh; subst h. apply (no_use_after_close s i c H).
  unfold holds_at. rewrite Ht. unfold holds. now rewrite Ho, Hp, Hon, Nat.eqb_refl.
Qed.

(** closed_exactly_once *)
Theorem closed_at_most_once s h : reachable s -> (count_occ Nat.eq_dec (close_log s) h <= 1)%nat.
Proof.
  intros H. pose proof (inv_reachable s H) as I.
  destruct (in_dec Nat.eq_dec h (close_log s)) as [Hin|Hni].
  - destruct (i_close s I h Hin) as (o & Ho & Hcc).
    pose proof (i_obj s I h o Ho) as Hob. unfold obj_ok, obj_ok' in Hob.
    destruct (c_ds o); try (destruct Hob as (_ & _ & _ & Hn & _); congruence).
    + destruct Hob as (_ & _ & _ & Hn); congruence.
    + destruct Hob as (_ & Hob). destruct (c_err o); [destruct Hob; congruence|].
      destruct Hob as (_ & _ & [(_ & _ & Hz)|(_ & _ & Hz)]); unfold closes in Hz; lia.
  - apply (count_occ_not_In Nat.eq_dec) in Hni. lia.
Qed.

(** a connection that was established is closed and forgotten exactly when
    nobody holds it any more (no leak, no early close) *)
Theorem closed_iff_no_holder s c o :
  reachable s -> objs s c = Some o -> c_cc o = Some c ->
  (holders s c = 0%nat <-> count_occ Nat.eq_dec (close_log s) c = 1%nat) /\
  (holders s c = 0%nat <-> conns s (c_addr o) <> Some c).
Proof.
  intros H Ho Hcc. pose proof (inv_reachable s H) as I.
  pose proof (i_obj s I c o Ho) as Hob. unfold obj_ok, obj_ok' in Hob.
  destruct (c_ds o); try (destruct Hob as (_ & _ & _ & Hn & _); congruence).
  - destruct Hob as (_ & _ & _ & Hn); congruence.
  - destruct Hob as (_ & Hob). destruct (c_err o); [destruct Hob; congruence|].
    destruct Hob as (_ & _ & [(Hr & Hp & Hz)|(Hr & Hp & Hz)]); unfold closes in Hz.
    + apply registered_iff in Hr. split; split; intros; try lia; congruence.
    + apply registered_false in Hr. split; split; intros; auto.
Qed.

(** the release by the last holder closes the handle and deletes the entry *)
Theorem last_release_closes s i t c h s' :
  reachable s -> thr s i = Some t -> t_obj t = Some c -> t_pc t = PRet (RConn h) -> t_once t = false ->
  holders s c = 1%nat -> step s (LRelease i) = Some s' ->
  In c (close_log s') /\ conns s' (t_addr t) = None /\ panicked s' = false.
Proof.
  intros H Ht Ho Hp Hon Hone Hs. pose proof (inv_reachable s H) as I.
  destruct (holder_facts s i t c h I Ht Ho Hp) as (o & Hc & Ha & Hd & He & Hh & Hcc & Hrf).
  pose proof (remove_finds_own_entry_on_release s i t c h o H Ht Ho Hp Hon Hc) as Hreg.
  unfold step in Hs. rewrite (i_np s I), Ht, Hp, Ho, Hon, Hc in Hs. cbn in Hs.
  rewrite Hrf, Hone in Hs. cbn in Hs. inversion Hs; subst s'; clear Hs.
  unfold remove. cbn. rewrite Hreg, upd_same. cbn. rewrite Hcc. cbn.
  rewrite <- Ha, upd_same. repeat split; auto. apply I.
Qed.

(** forgotten_then_fresh: a closed handle is no longer the entry of its
    address, and a request that finds no entry creates a new attempt whose
    dialer invokes Dial *)
Theorem closed_is_forgotten s h o :
  reachable s -> In h (close_log s) -> objs s h = Some o -> conns s (c_addr o) <> Some h.
Proof.
  intros H Hin Ho. pose proof (inv_reachable s H) as I.
  destruct (i_close s I h Hin) as (o1 & Ho1 & Hcc). assert (o1 = o) by congruence; subst o1.
  destruct (closed_iff_no_holder s h o H Ho Hcc) as [H1 H2]. apply H2.
  destruct (Nat.eq_dec (holders s h) 0) as [E|E]; [exact E|exfalso].
  assert (Hex : exists i, holds_at s h i = true).
  { unfold holders in E. destruct (filter (holds_at s h) (tids s)) as [|j l] eqn:Ef; [contradiction|].
    exists j. assert (Hj : In j (filter (holds_at s h) (tids s))) by (rewrite Ef; left; reflexivity).
    apply filter_In in Hj. tauto. }
  destruct Hex as [i Hi]. exact (no_use_after_close s i h H Hi Hin).
Qed.

Theorem fresh_dial_when_no_entry s i a s' :
  reachable s -> conns s a = None -> cancelled s i = false -> step s (LReq i a true) = Some s' ->
  conns s' a = Some i /\
  exists s'', step s' (LSpawn i) = Some s'' /\ dial_log s'' = (i, a) :: dial_log s.
Proof.
  intros H Hn Hc Hs. pose proof (inv_reachable s H) as I.
  unfold step in Hs. rewrite (i_np s I) in Hs.
  destruct (thr s i); [discriminate|]. destruct (objs s i); [discriminate|].
  rewrite Hc, Hn in Hs. inversion Hs; subst s'; clear Hs. cbn. rewrite upd_same. split; [reflexivity|].
  unfold step. cbn. rewrite (i_np s I), upd_same. cbn. eexists. split; reflexivity.
Qed.

(** double_release_noop, release_after_failure_noop *)
Theorem double_release_noop s i t :
  reachable s -> thr s i = Some t -> t_once t = true -> step s (LRelease i) = Some s.
Proof.
  intros H Ht Hon. pose proof (inv_reachable s H) as I.
  pose proof (i_thread s I i t Ht) as Hto. unfold thread_ok in Hto.
  unfold step. rewrite (i_np s I), Ht.
  destruct (t_obj t) as [c|].
  - destruct Hto as (o & _ & _ & Hp). destruct (t_pc t) as [| |r]; try congruence.
    destruct Hp as (_ & _ & Hx). destruct (Hx Hon) as [h ->]. now rewrite Hon.
  - destruct Hto as [-> _]. reflexivity.
Qed.

Theorem release_after_failure_noop s i t e :
  reachable s -> thr s i = Some t -> t_pc t = PRet (RErr e) -> step s (LRelease i) = Some s.
Proof.
  intros H Ht Hp. unfold step. now rewrite (never_panics s H), Ht, Hp.
Qed.

(** a request that failed never counts as a holder *)
Theorem failed_request_holds_nothing s i t e c :
  thr s i = Some t -> t_pc t = PRet (RErr e) -> holds_at s c i = false.
Proof.
  intros Ht Hp. unfold holds_at. rewrite Ht. unfold holds. rewrite Hp.
  destruct (t_obj t); [apply andb_false_r|reflexivity].
Qed.

(** no waiter is stuck: a thread waiting on an attempt that is not finished
    can always be helped by a step of that attempt's dialer, and once the
    attempt is finished the thread itself can return *)
Theorem waiter_progress s i t c :
  reachable s -> thr s i = Some t -> t_pc t = PWaiting -> t_obj t = Some c ->
  exists l s', step s l = Some s' /\
    (l = LWait i \/ l = LSpawn c \/ l = LDialRet c true \/ l = LFailLock c \/ l = LFailReady c).
Proof.
  intros H Ht Hp Ho. pose proof (inv_reachable s H) as I.
  pose proof (i_thread s I i t Ht) as Hto. unfold thread_ok in Hto. rewrite Ho, Hp in Hto.
  destruct Hto as (o & Hc & Ha & _).
  pose proof (i_obj s I c o Hc) as Hob. unfold obj_ok, obj_ok' in Hob.
  destruct (c_ds o) eqn:Hd.
  - exists (LSpawn c). unfold step. rewrite (i_np s I), Hc, Hd. destruct (c_known o); eauto 8.
  - exists (LDialRet c true). unfold step. rewrite (i_np s I), Hc, Hd. eauto 8.
  - exists (LFailLock c). unfold step. rewrite (i_np s I), Hc, Hd.
    destruct (panicked (remove s (c_addr o))); eauto 8.
  - exists (LFailReady c). unfold step. rewrite (i_np s I), Hc, Hd. eauto 8.
  - exists (LWait i). destruct Hob as (Hr & _). unfold step. rewrite (i_np s I), Ht, Hp, Ho, Hc, Hr.
    destruct (c_err o); eauto 8.
Qed.

(** * The model run by the correspondence check is this LTS

    Every state the evaluator of ConnCheck.v visits while replaying a script
    is reachable, so every theorem above holds of it. *)
From Gnmi Require Import Conn.ConnCheck.

Lemma try_step_reachable s l : reachable s -> reachable (try_step s l).
Proof.
  intros H. unfold try_step. destruct (step s l) eqn:E; [eapply reachable_step; eauto|exact H].
Qed.

Lemma fold_try_reachable (f : nat -> label) ids s :
  reachable s -> reachable (fold_left (fun s c => try_step s (f c)) ids s).
Proof.
  revert s; induction ids as [|c ids IH]; intros s H; cbn; [exact H|].
  apply IH. now apply try_step_reachable.
Qed.

Lemma fold_try_list_reachable ls s : reachable s -> reachable (fold_left try_step ls s).
Proof.
  revert s; induction ls as [|l ls IH]; intros s H; cbn; [exact H|].
  apply IH. now apply try_step_reachable.
Qed.

Lemma settle_reachable s : reachable s -> reachable (settle s).
Proof.
  intros H. unfold settle.
  apply (fold_try_reachable (fun i => LWait i)).
  apply (fold_try_reachable (fun c => LFailReady c)).
  now apply (fold_try_reachable (fun c => LSpawn c)).
Qed.

Theorem mrun_reachable s e : reachable s -> reachable (fst (mrun s e)).
Proof.
  intros H. unfold mrun. destruct (labels_of s e) as [l more].
  destruct (step s l) as [s1|] eqn:E; cbn; [|exact H].
  apply settle_reachable, fold_try_list_reachable. eapply reachable_step; eauto.
Qed.

Fixpoint mstates (s : state) (es : list event) : list state :=
  match es with
  | [] => [s]
  | e :: es' => s :: mstates (fst (mrun s e)) es'
  end.

Theorem check_model_states_reachable es : Forall reachable (mstates init es).
Proof.
  assert (G : forall s, reachable s -> Forall reachable (mstates s es)).
  { induction es as [|e es IH]; intros s H; cbn; constructor; auto.
    apply IH. now apply mrun_reachable. }
  apply G, reachable_init.
Qed.

(** * Non-vacuity: the hypotheses of the theorems are met by reachable states *)

Definition st_of (ls : list label) : state :=
  match run init ls with Some s => s | None => init end.

Lemma st_of_reachable ls : run init ls <> None -> reachable (st_of ls).
Proof.
  unfold st_of. intros H. destruct (run init ls) eqn:E; [|congruence]. now exists ls.
Qed.

(** threads 0 and 1 share one successful dial to address 0; thread 0 has
    released twice; thread 1 still holds the handle *)
Definition sched_shared : list label :=
  [LReq 0 0 true; LSpawn 0; LReq 1 0 true; LPass 0; LPass 1; LDialRet 0 true; LWait 0; LWait 1;
   LRelease 0; LRelease 0]%nat.

(** ... then thread 1 releases too, and thread 2 asks for the same address *)
Definition sched_closed : list label := sched_shared ++ [LRelease 1]%nat.
Definition sched_fresh : list label := sched_closed ++ [LReq 2 0 true; LSpawn 2]%nat.

(** threads 0,1,2 share one failing dial; 2 arrives between the Dial's return
    and the clean-up; meanwhile a dial to address 1 is in flight *)
Definition sched_failed : list label :=
  [LReq 0 0 true; LSpawn 0; LReq 1 0 true; LReq 3 1 true; LSpawn 3; LDialRet 0 false; LReq 2 0 true;
   LFailLock 0; LFailReady 0; LPass 0; LPass 1; LPass 2; LWait 0; LWait 1; LWait 2]%nat.

Definition sched_two_dials : list label :=
  [LReq 0 0 true; LSpawn 0; LReq 3 1 true; LSpawn 3; LReq 1 0 true; LPass 1]%nat.

Ltac ex_reach := apply st_of_reachable; vm_compute; discriminate.

Example ex_shared :
  let s := st_of sched_shared in
  reachable s /\
  (exists t0 t1, thr s 0%nat = Some t0 /\ thr s 1%nat = Some t1 /\
     t_obj t0 = Some 0%nat /\ t_obj t1 = Some 0%nat /\
     t_pc t0 = PRet (RConn (Some 0%nat)) /\ t_pc t1 = PRet (RConn (Some 0%nat)) /\
     t_once t0 = true /\ t_once t1 = false) /\
  holds_at s 0 1 = true /\ holders s 0 = 1%nat /\ close_log s = [] /\
  step s (LRelease 1) <> None.
Proof.
  cbv zeta. split; [ex_reach|]. split.
  - do 2 eexists. repeat split; vm_compute; reflexivity.
  - split; [vm_compute; reflexivity|]. split; [vm_compute; reflexivity|].
    split; [vm_compute; reflexivity|]. vm_compute; discriminate.
Qed.

Example ex_closed :
  let s := st_of sched_closed in
  reachable s /\ close_log s = [0%nat] /\ conns s 0%nat = None /\ holders s 0 = 0%nat /\
  cancelled s 2%nat = false /\ step s (LReq 2 0 true) <> None.
Proof.
  cbv zeta. split; [ex_reach|]. do 4 (split; [vm_compute; reflexivity|]). vm_compute; discriminate.
Qed.

Example ex_fresh :
  let s := st_of sched_fresh in
  reachable s /\ dial_log s = [(2, 0); (0, 0)]%nat /\ close_log s = [0%nat] /\ conns s 0%nat = Some 2%nat.
Proof. cbv zeta. split; [ex_reach|]. repeat split; vm_compute; reflexivity. Qed.

Example ex_failed :
  let s := st_of sched_failed in
  reachable s /\
  (forall i, In i [0; 1; 2]%nat -> exists t, thr s i = Some t /\ t_obj t = Some 0%nat /\ t_pc t = PRet (RErr ErrDial)) /\
  conns s 0%nat = None /\ dial_log s = [(3, 1); (0, 0)]%nat /\ step s (LRelease 2) = Some s.
Proof.
  cbv zeta. split; [ex_reach|]. split; [|split; [|split]].
  - intros i [<-|[<-|[<-|[]]]]; eexists; repeat split; vm_compute; reflexivity.
  - vm_compute; reflexivity.
  - vm_compute; reflexivity.
  - eapply release_after_failure_noop; [ex_reach|vm_compute; reflexivity|vm_compute; reflexivity].
Qed.

Example ex_two_dials :
  let s := st_of sched_two_dials in
  reachable s /\ pending s 0 0 /\ pending s 3 1 /\
  (exists o0 o3, objs s 0%nat = Some o0 /\ objs s 3%nat = Some o3 /\ c_ds o0 = DInDial /\ c_ds o3 = DInDial) /\
  (exists t, thr s 1%nat = Some t /\ t_pc t = PWaiting /\ t_obj t = Some 0%nat) /\
  cancelled s 2%nat = false /\ step s (LReq 2 0 true) <> None.
Proof.
  cbv zeta. split; [ex_reach|]. split; [|split; [|split; [|split; [|split]]]].
  - eexists. split; [vm_compute; reflexivity|]. split; [reflexivity|]. right; left; reflexivity.
  - eexists. split; [vm_compute; reflexivity|]. split; [reflexivity|]. right; left; reflexivity.
  - do 2 eexists. repeat split; vm_compute; reflexivity.
  - eexists. repeat split; vm_compute; reflexivity.
  - vm_compute; reflexivity.
  - vm_compute; discriminate.
Qed.

Example ex_failing_window :
  let s := st_of (firstn 7 sched_failed) in
  reachable s /\ (exists o, objs s 0%nat = Some o /\ c_ds o = DFailing ErrDial) /\ conns s 0%nat = Some 0%nat.
Proof.
  cbv zeta. split; [ex_reach|]. split; [eexists; split; vm_compute; reflexivity|vm_compute; reflexivity].
Qed.

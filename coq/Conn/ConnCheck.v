(** Correspondence evaluator and executable specification (K_P) for C16.

    A case is the script the harness played against one real
    connection.Manager -- a list of events, each followed by what became
    observable once every goroutine was parked again (at a schedule point,
    inside the scripted Dial, blocked on the ready channel, or returned).

    [mrun]  replays the script through the LTS of ConnLts.v: one event is the
            event's own step followed by every internal step that needs no
            further permission ([settle]).  tag 1 = the implementation showed
            something else than the model.
    [kstep] is the specification side, independent of the model: per address
            idle / one dial in flight / one failed dial being cleaned up /
            live connection with its holders -- no reference count, no ready
            channel, no connection objects.  tags 2..7 = the property fails
            on what the implementation itself showed. *)
From Coq Require Import List Bool ZArith NArith Lia Arith.
From Gnmi Require Import Conn.ConnLts.
Import ListNotations.
Open Scope Z_scope.

Inductive event :=
| EReq (i a : nat) (known : bool)   (* thread i: Connection(ctx_i, addr a, existing / unknown dialer name) *)
| EPass (i : nat)                   (* let thread i leave `connection:joined` *)
| EDial (c : nat) (ok : bool)       (* let the Dial started for thread c's request return *)
| EFailGo (c : nat)                 (* let that dialer leave `dial:failed` *)
| ERelease (i : nat)                (* thread i calls its done function *)
| ECancel (i : nat).                (* cancel ctx_i *)

Inductive robs := OConn (h : nat) | ONil | OErr (cls : N).

Record obs := Obs {
  o_ign : bool;                     (* the event did not apply (nothing was done) *)
  o_rets : list (nat * robs);       (* Connection calls that returned during this event *)
  o_joined : list nat;              (* threads that arrived at `connection:joined` *)
  o_dials : list (nat * nat);       (* Dial invocations: (creator's thread, address) *)
  o_failing : list nat;             (* dialers that arrived at `dial:failed` *)
  o_closed : list nat;              (* every handle whose state is Shutdown after the event *)
  o_bad : N }.                      (* 0; 1 = panic; 2 = a call that cannot block did not come back *)

(** ** sorting and equality of observations *)

Fixpoint ins_nat (x : nat) (l : list nat) : list nat :=
  match l with
  | [] => [x]
  | y :: l' => if Nat.leb x y then x :: l else y :: ins_nat x l'
  end.
Definition sort_nat (l : list nat) : list nat := fold_right ins_nat [] l.

Fixpoint ins_key {A} (x : nat * A) (l : list (nat * A)) : list (nat * A) :=
  match l with
  | [] => [x]
  | y :: l' => if Nat.leb (fst x) (fst y) then x :: l else y :: ins_key x l'
  end.
Definition sort_key {A} (l : list (nat * A)) : list (nat * A) := fold_right ins_key [] l.

Fixpoint dedup_nat (l : list nat) : list nat :=   (* on a sorted list *)
  match l with
  | x :: ((y :: _) as l') => if Nat.eqb x y then dedup_nat l' else x :: dedup_nat l'
  | _ => l
  end.

Fixpoint list_eqb {A} (e : A -> A -> bool) (a b : list A) : bool :=
  match a, b with
  | [], [] => true
  | x :: a', y :: b' => e x y && list_eqb e a' b'
  | _, _ => false
  end.

Definition robs_eqb (a b : robs) : bool :=
  match a, b with
  | OConn x, OConn y => Nat.eqb x y
  | ONil, ONil => true
  | OErr x, OErr y => N.eqb x y
  | _, _ => false
  end.

Definition rets_eqb := list_eqb (fun a b : nat * robs => Nat.eqb (fst a) (fst b) && robs_eqb (snd a) (snd b)).
Definition nats_eqb := list_eqb Nat.eqb.
Definition pairs_eqb := list_eqb (fun a b : nat * nat => Nat.eqb (fst a) (fst b) && Nat.eqb (snd a) (snd b)).

Definition canon (o : obs) : obs :=
  Obs (o_ign o) (sort_key (o_rets o)) (sort_nat (o_joined o)) (sort_key (o_dials o))
      (sort_nat (o_failing o)) (dedup_nat (sort_nat (o_closed o))) (o_bad o).

Definition obs_eqb (a b : obs) : bool :=
  Bool.eqb (o_ign a) (o_ign b) && rets_eqb (o_rets a) (o_rets b) && nats_eqb (o_joined a) (o_joined b)
  && pairs_eqb (o_dials a) (o_dials b) && nats_eqb (o_failing a) (o_failing b)
  && nats_eqb (o_closed a) (o_closed b) && N.eqb (o_bad a) (o_bad b).

(** ** the model side *)

Definition try_step (s : state) (l : label) : state :=
  match step s l with Some s' => s' | None => s end.

(** everything that runs on without a schedule point or an environment
    decision: dialer goroutines start and reach the Dial function (or
    `dial:failed` when the dialer name is unknown), failed dials close
    [ready], waiters whose [ready] is closed return. *)
Definition settle (s : state) : state :=
  let ids := tids s in
  let s1 := fold_left (fun s c => try_step s (LSpawn c)) ids s in
  let s2 := fold_left (fun s c => try_step s (LFailReady c)) ids s1 in
  fold_left (fun s i => try_step s (LWait i)) ids s2.

Definition errc_cls (e : errc) : N :=
  match e with ErrCtx => 1 | ErrDial => 2 | ErrNoDialer => 3 end%N.

Definition result_obs (r : result) : robs :=
  match r with
  | RErr e => OErr (errc_cls e)
  | RConn (Some h) => OConn h
  | RConn None => ONil
  end.

Definition ret_of (s : state) (i : nat) : option result :=
  match thr s i with
  | Some t => match t_pc t with PRet r => Some r | _ => None end
  | None => None
  end.

Definition is_joined (s : state) (i : nat) : bool :=
  match thr s i with
  | Some t => match t_pc t with PJoined => true | _ => false end
  | None => false
  end.

Definition is_failing (s : state) (c : nat) : bool :=
  match objs s c with
  | Some o => match c_ds o with DFailing _ => true | _ => false end
  | None => false
  end.

Definition observe (ign : bool) (s s' : state) : obs :=
  let ids := tids s' in
  canon (Obs ign
    (flat_map (fun i => match ret_of s i, ret_of s' i with
                        | None, Some r => [(i, result_obs r)]
                        | _, _ => []
                        end) ids)
    (filter (fun i => is_joined s' i && negb (is_joined s i)) ids)
    (firstn (List.length (dial_log s') - List.length (dial_log s)) (dial_log s'))
    (filter (fun c => is_failing s' c && negb (is_failing s c)) ids)
    (close_log s')
    (if panicked s' then 1%N else 0%N)).

Definition labels_of (s : state) (e : event) : label * list label :=
  match e with
  | EReq i a k => (LReq i a k, [])
  | EPass i => (LPass i, [])
  | EDial c ok => (LDialRet c ok, [])
  | EFailGo c => (LFailLock c, [])
  | ERelease i => (LRelBegin i, [LRelease i])
  | ECancel i => (LCancel i, [LDialCtx i])   (* the scripted Dial honours its context *)
  end.

Definition mrun (s : state) (e : event) : state * obs :=
  let '(l, more) := labels_of s e in
  match step s l with
  | None => (s, observe true s s)
  | Some s1 =>
      let s2 := settle (fold_left try_step more s1) in
      (s2, observe false s s2)
  end.

(** ** the specification side *)

Inductive astate := AIdle | ADialing (d : nat) | AFailing (d : nat) | ALive (h : nat).
Inductive dout := DPend | DOk | DFail (cls : N) (final : bool).
Inductive ksrc := SCtx | SDial (d : nat) | SConn (h : nat).

Record kthread := {
  k_src : ksrc;          (* whose outcome this request must share *)
  k_passed : bool;       (* it has been let past the join point *)
  k_ret : option robs;   (* what it must have returned by now *)
  k_rel : bool }.        (* it has released (first release of a successful request) *)

Record kstate := {
  k_as : nat -> astate;               (* per address *)
  k_d : nat -> option (nat * dout);   (* per dial (named by its creator): address, outcome *)
  k_thr : nat -> option kthread;
  k_ids : list nat;
  k_cancel : nat -> bool;
  k_closed : list nat }.

Definition kinit : kstate :=
  {| k_as := fun _ => AIdle; k_d := fun _ => None; k_thr := fun _ => None; k_ids := [];
     k_cancel := fun _ => false; k_closed := [] |}.

Definition kset_as ks v := {| k_as := v; k_d := k_d ks; k_thr := k_thr ks; k_ids := k_ids ks; k_cancel := k_cancel ks; k_closed := k_closed ks |}.
Definition kset_d ks v := {| k_as := k_as ks; k_d := v; k_thr := k_thr ks; k_ids := k_ids ks; k_cancel := k_cancel ks; k_closed := k_closed ks |}.
Definition kset_thr ks v := {| k_as := k_as ks; k_d := k_d ks; k_thr := v; k_ids := k_ids ks; k_cancel := k_cancel ks; k_closed := k_closed ks |}.
Definition kset_ids ks v := {| k_as := k_as ks; k_d := k_d ks; k_thr := k_thr ks; k_ids := v; k_cancel := k_cancel ks; k_closed := k_closed ks |}.
Definition kset_cancel ks v := {| k_as := k_as ks; k_d := k_d ks; k_thr := k_thr ks; k_ids := k_ids ks; k_cancel := v; k_closed := k_closed ks |}.
Definition kset_closed ks v := {| k_as := k_as ks; k_d := k_d ks; k_thr := k_thr ks; k_ids := k_ids ks; k_cancel := k_cancel ks; k_closed := v |}.

(** what a request sharing [src] must return, once that is decided *)
Definition kexpect (ks : kstate) (src : ksrc) : option robs :=
  match src with
  | SCtx => Some (OErr 1%N)
  | SConn h => Some (OConn h)
  | SDial d =>
      match k_d ks d with
      | Some (_, DOk) => Some (OConn d)
      | Some (_, DFail cls true) => Some (OErr cls)
      | _ => None
      end
  end.

(** the handle a request holds / will hold *)
Definition khandle (ks : kstate) (src : ksrc) : option nat :=
  match src with
  | SCtx => None
  | SConn h => Some h
  | SDial d => match k_d ks d with Some (_, DOk) => Some d | _ => None end
  end.

Definition kholds (ks : kstate) (h i : nat) : bool :=
  match k_thr ks i with
  | Some t => negb (k_rel t) &&
              match khandle ks (k_src t) with Some h' => Nat.eqb h h' | None => false end
  | None => false
  end.

(** requests past the join point whose outcome is decided return *)
Definition kwake (ks : kstate) : kstate * list (nat * robs) :=
  fold_left (fun (acc : kstate * list (nat * robs)) i =>
    let '(ks, out) := acc in
    match k_thr ks i with
    | Some t =>
        match k_ret t, k_passed t, kexpect ks (k_src t) with
        | None, true, Some r =>
            (kset_thr ks (upd (k_thr ks) i (Some {| k_src := k_src t; k_passed := true; k_ret := Some r; k_rel := k_rel t |})),
             (i, r) :: out)
        | _, _, _ => acc
        end
    | None => acc
    end) (k_ids ks) (ks, []).

Definition kobs (ign : bool) (ks : kstate) rets joined dials failing : obs :=
  canon (Obs ign rets joined dials failing (k_closed ks) 0%N).

Definition kignored (ks : kstate) : kstate * obs := (ks, kobs true ks [] [] [] []).

Definition kstep (ks : kstate) (e : event) : kstate * obs :=
  match e with
  | EReq i a known =>
      match k_thr ks i with
      | Some _ => kignored ks
      | None =>
          let ks0 := kset_ids ks (i :: k_ids ks) in
          let mk src ret := Some {| k_src := src; k_passed := false; k_ret := ret; k_rel := false |} in
          if k_cancel ks i then
            let ks1 := kset_thr ks0 (upd (k_thr ks) i (mk SCtx (Some (OErr 1%N)))) in
            (ks1, kobs false ks1 [(i, OErr 1%N)] [] [] [])
          else
            match k_as ks a with
            | AIdle =>
                (* nobody is dialling and nothing is live: this request dials afresh *)
                let ks1 := kset_thr ks0 (upd (k_thr ks) i (mk (SDial i) None)) in
                if known then
                  let ks2 := kset_d (kset_as ks1 (upd (k_as ks) a (ADialing i))) (upd (k_d ks) i (Some (a, DPend))) in
                  (ks2, kobs false ks2 [] [i] [(i, a)] [])
                else
                  let ks2 := kset_d (kset_as ks1 (upd (k_as ks) a (AFailing i))) (upd (k_d ks) i (Some (a, DFail 3%N false))) in
                  (ks2, kobs false ks2 [] [i] [] [i])
            | ADialing d | AFailing d =>
                (* a dial for this address is in flight (or failing): share it, never a second dial *)
                let ks1 := kset_thr ks0 (upd (k_thr ks) i (mk (SDial d) None)) in
                (ks1, kobs false ks1 [] [i] [] [])
            | ALive h =>
                let ks1 := kset_thr ks0 (upd (k_thr ks) i (mk (SConn h) None)) in
                (ks1, kobs false ks1 [] [i] [] [])
            end
      end
  | EPass i =>
      match k_thr ks i with
      | Some t =>
          match k_ret t, k_passed t with
          | None, false =>
              let ks1 := kset_thr ks (upd (k_thr ks) i (Some {| k_src := k_src t; k_passed := true; k_ret := None; k_rel := k_rel t |})) in
              let '(ks2, rets) := kwake ks1 in
              (ks2, kobs false ks2 rets [] [] [])
          | _, _ => kignored ks
          end
      | None => kignored ks
      end
  | EDial d ok =>
      match k_d ks d with
      | Some (a, DPend) =>
          if ok then
            let ks1 := kset_d (kset_as ks (upd (k_as ks) a (ALive d))) (upd (k_d ks) d (Some (a, DOk))) in
            let '(ks2, rets) := kwake ks1 in
            (ks2, kobs false ks2 rets [] [] [])
          else
            let ks1 := kset_d (kset_as ks (upd (k_as ks) a (AFailing d))) (upd (k_d ks) d (Some (a, DFail 2%N false))) in
            (ks1, kobs false ks1 [] [] [] [d])
      | _ => kignored ks
      end
  | EFailGo d =>
      match k_d ks d with
      | Some (a, DFail cls false) =>
          (* the failed attempt is forgotten; everybody who shared it gets its error *)
          let ks1 := kset_d (kset_as ks (upd (k_as ks) a AIdle)) (upd (k_d ks) d (Some (a, DFail cls true))) in
          let '(ks2, rets) := kwake ks1 in
          (ks2, kobs false ks2 rets [] [] [])
      | _ => kignored ks
      end
  | ERelease i =>
      match k_thr ks i with
      | Some t =>
          match k_ret t with
          | Some (OConn h) =>
              if k_rel t then (ks, kobs false ks [] [] [] [])        (* second release: nothing *)
              else
                let ks1 := kset_thr ks (upd (k_thr ks) i (Some {| k_src := k_src t; k_passed := k_passed t; k_ret := k_ret t; k_rel := true |})) in
                if existsb (kholds ks1 h) (k_ids ks1) then (ks1, kobs false ks1 [] [] [] [])
                else
                  (* last holder: closed and forgotten *)
                  let a := match k_d ks h with Some (a, _) => a | None => 0%nat end in
                  let ks2 := kset_closed (kset_as ks1 (upd (k_as ks1) a AIdle)) (h :: k_closed ks1) in
                  (ks2, kobs false ks2 [] [] [] [])
          | Some _ => (ks, kobs false ks [] [] [] [])                (* release after a failed request: nothing *)
          | None => kignored ks
          end
      | None => kignored ks
      end
  | ECancel i =>
      let ks1 := kset_cancel ks (upd (k_cancel ks) i true) in
      match k_d ks i with
      | Some (a, DPend) =>
          let ks2 := kset_d (kset_as ks1 (upd (k_as ks) a (AFailing i))) (upd (k_d ks) i (Some (a, DFail 1%N false))) in
          (ks2, kobs false ks2 [] [] [] [i])
      | _ => (ks1, kobs false ks1 [] [] [] [])
      end
  end.

(** which clause of the property an observation contradicts *)
Definition subset (a b : list nat) : bool := forallb (fun x => existsb (Nat.eqb x) b) a.

Definition ktag (want got : obs) : N :=
  if negb (N.eqb (o_bad got) 0) then 6%N                       (* panic / deadlock *)
  else if negb (pairs_eqb (o_dials want) (o_dials got)) then 2%N     (* one dial per address, fresh dial after forgetting *)
  else if negb (nats_eqb (o_closed want) (o_closed got)) then
         (if subset (o_closed got) (o_closed want) then 5%N    (* not closed at the last release *)
          else 4%N)                                            (* closed while held / by a no-op release *)
  else if negb (rets_eqb (o_rets want) (o_rets got)) then
         (if Nat.ltb (List.length (o_rets got)) (List.length (o_rets want)) then 6%N   (* a waiter was not woken *)
          else 3%N)                                            (* outcome not shared *)
  else 7%N.                                                    (* join / failure points not as specified *)

(** ** known findings: none for C16 (class 0 = not a known finding) *)
Definition known_class (ks : kstate) (e : event) (got : obs) : N := 0%N.

(** ** verdicts: first correspondence break and first property failure of a case *)

Fixpoint check_from (n : nat) (s : state) (ks : kstate) (m_ok k_ok : bool)
         (c : list (event * obs)) : list (nat * N) :=
  match c with
  | [] => []
  | (e, r) :: c' =>
      let r' := canon r in
      let '(s', rm) := mrun s e in
      let '(ks', rk) := kstep ks e in
      let bad1 := m_ok && negb (obs_eqb r' rm) in
      let bad2 := k_ok && negb (obs_eqb r' rk) in
      (if bad1 then [(n, 1%N)] else []) ++
      (if bad2 then [(n, match known_class ks e r' with
                         | 0%N => ktag rk r'
                         | k => (10 + k)%N
                         end)] else []) ++
      check_from (S n) s' ks' (m_ok && negb bad1) (k_ok && negb bad2) c'
  end.

Definition check_case (c : list (event * obs)) : list (nat * N) :=
  check_from 0 init kinit true true c.

Fixpoint check_all_from (i : nat) (cs : list (list (event * obs))) : list (nat * nat * N) :=
  match cs with
  | [] => []
  | c :: cs' => map (fun sn => (i, fst sn, snd sn)) (check_case c) ++ check_all_from (S i) cs'
  end.

Definition check_all (cs : list (list (event * obs))) : list (nat * nat * N) :=
  check_all_from 0 cs.

(** the model's own prediction for a script (used to print expected traces) *)
Fixpoint mtrace (s : state) (es : list event) : list obs :=
  match es with
  | [] => []
  | e :: es' => let '(s', o) := mrun s e in o :: mtrace s' es'
  end.

Fixpoint ktrace (ks : kstate) (es : list event) : list obs :=
  match es with
  | [] => []
  | e :: es' => let '(ks', o) := kstep ks e in o :: ktrace ks' es'
  end.

(** * Handles whose Close can be held open by the script

    [XDialSlow c] is [EDial c true] with a handle whose Close() parks until
    [XCloseGo h].  In connection.go the last release closes the handle inside
    the critical section, so while a Close is parked m.mu is held: an event
    that needs the lock (a request that passes the ctx check, the clean-up of
    a failed dial, an effective release) blocks and takes effect when the
    Close returns.  The sequentialised harness plays at most one such event
    per parked Close (further ones are ignored, on both sides), so the order
    in which blocked goroutines get the mutex never matters.

    The layer below is generic in the inner step function: it wraps [mrun]
    (model) and [kstep] (specification) alike; the LTS itself keeps the
    release critical section atomic. *)

Inductive xevent :=
| XE (e : event)
| XDialSlow (c : nat)
| XCloseGo (h : nat)
| XHoldReq (i a : nat) (known : bool)
                      (* a request that is stopped at the schedule point `connection:locked`, i.e. inside
                         its critical section, holding m.mu; let go by [XCloseGo (1000 + i)].  Only
                         generated when the repository has that schedule point. *)
| XCancelDeaf (i : nat)
                      (* cancel ctx_i where the Dial started for thread i does not listen to its context:
                         while that Dial is in flight nothing may happen; otherwise an ordinary cancel *)
| XStress (workers : nat)
                      (* stress family: that many goroutines cycle Connection()/done() freely; observation:
                         (thread, handle) pairs where a holder saw its handle Shutdown before its own release
                         (o_rets), handles left open after everybody released (o_failing), panic / hang *)
| XManager (hops : nat)
                      (* manager family: one Add / (Reconnect)* / Remove cycle of a real manager.Manager
                         on top of the real connection.Manager, for a target with that many distinct
                         next hops; observation: the Dial calls of the cycle, the handles Shutdown after it *)
| XBreak (h : nat)    (* drive handle h to TRANSIENT_FAILURE (must change nothing in the manager) *)
| XAgain (i : nat).   (* one more goroutine calls the done function of thread i while a call of it is in flight *)

Record xobs := XObs {
  x_o : obs;
  x_inclose : list nat;     (* handles whose Close() was entered and is parked *)
  x_reldone : list nat }.   (* calls of done() that returned during this event, by thread (with multiplicity) *)

Definition xcanon (x : xobs) : xobs :=
  XObs (canon (x_o x)) (sort_nat (x_inclose x)) (sort_nat (x_reldone x)).

Definition xobs_eqb (a b : xobs) : bool :=
  obs_eqb (x_o a) (x_o b) && nats_eqb (x_inclose a) (x_inclose b) && nats_eqb (x_reldone a) (x_reldone b).

Definition lock_kind (e : event) : bool :=
  match e with EReq _ _ _ | EFailGo _ | ERelease _ => true | _ => false end.

Section Wrap.
Context {S : Type}.
Variable inner : S -> event -> S * obs.
Variable needs_lock : S -> event -> bool.
Variable has_handle : S -> nat -> bool.
Variable dial_pending : S -> nat -> bool.

Record wst := {
  w_s : S;
  w_slow : list nat;                (* handles made by XDialSlow *)
  w_closed : list nat;              (* closed handles as of the last observation *)
  w_park : option (nat * nat);      (* handle whose Close is parked, thread that is closing it *)
  w_used : nat;                     (* lock-kind events already played during this park (at most 2) *)
  w_def : list event;               (* the events blocked on the mutex, in the order they were issued
                                       (sync.Mutex hands the lock to sleeping waiters first come first served) *)
  w_again : list nat }.             (* extra calls of a done function that is in flight (waiting in once.Do) *)

Definition wmk s sl cl p u d ag :=
  {| w_s := s; w_slow := sl; w_closed := cl; w_park := p; w_used := u; w_def := d; w_again := ag |}.

Definition mem (x : nat) (l : list nat) : bool := existsb (Nat.eqb x) l.

Definition quiet_obs (ign : bool) (w : wst) : obs := Obs ign [] [] [] [] (w_closed w) 0%N.

(** play [e] on the inner machine now; a release that closes a slow handle
    parks inside Close (its done() does not return yet) *)
Definition run_now (w : wst) (e : event) : wst * xobs :=
  let '(s', o) := inner (w_s w) e in
  let slowc := filter (fun h => negb (mem h (w_closed w)) && mem h (w_slow w)) (o_closed o) in
  match e, slowc with
  | ERelease i, h :: _ =>
      (wmk s' (w_slow w) (o_closed o) (Some (h, i)) 0%nat [] (w_again w), XObs o [h] [])
  | ERelease i, [] =>
      (wmk s' (w_slow w) (o_closed o) (w_park w) (w_used w) (w_def w) (w_again w),
       XObs o [] (if o_ign o then [] else [i]))
  | _, _ =>
      (wmk s' (w_slow w) (o_closed o) (w_park w) (w_used w) (w_def w) (w_again w), XObs o [] [])
  end.

Definition xignored (w : wst) : wst * xobs := (w, XObs (quiet_obs true w) [] []).

Definition same_subject (e e' : event) : bool :=
  match e, e' with
  | EReq i _ _, EReq j _ _ => Nat.eqb i j
  | EFailGo c, EFailGo d => Nat.eqb c d
  | ERelease i, ERelease j => Nat.eqb i j
  | _, _ => false
  end.

Definition merge_obs (a b : obs) : obs :=
  Obs false (o_rets a ++ o_rets b) (o_joined a ++ o_joined b) (o_dials a ++ o_dials b)
      (o_failing a ++ o_failing b) (o_closed b) (N.max (o_bad a) (o_bad b)).

(** the blocked events get the mutex one after the other; if one of them parks
    in another slow Close, the rest stay blocked behind that one *)
Fixpoint drain (w : wst) (q : list event) (acc : xobs) : wst * xobs :=
  match q with
  | [] => (w, acc)
  | e :: q' =>
      match w_park w with
      | Some _ =>
          (wmk (w_s w) (w_slow w) (w_closed w) (w_park w) 2%nat (w_def w ++ q) (w_again w), acc)
      | None =>
          let '(w', xo) := run_now w e in
          drain w' q' (XObs (merge_obs (x_o acc) (x_o xo)) (x_inclose acc ++ x_inclose xo)
                            (x_reldone acc ++ x_reldone xo))
      end
  end.

Definition xrun (w : wst) (xe : xevent) : wst * xobs :=
  match xe with
  | XE e =>
      match w_park w with
      | None => run_now w e
      | Some (h, closer) =>
          if lock_kind e then
            if Nat.leb 2 (w_used w) then xignored w
            else
              let w1 := wmk (w_s w) (w_slow w) (w_closed w) (w_park w) (Datatypes.S (w_used w)) (w_def w) (w_again w) in
              if match e with ERelease i => Nat.eqb i closer | _ => false end
                 || existsb (same_subject e) (w_def w) then xignored w1
              else if needs_lock (w_s w) e
                   then (wmk (w_s w) (w_slow w) (w_closed w) (w_park w) (Datatypes.S (w_used w)) (w_def w ++ [e]) (w_again w),
                         XObs (quiet_obs false w) [] [])
                   else run_now w1 e
          else
            match e with
            | ECancel i =>
                if existsb (fun d => match d with EReq j _ _ => Nat.eqb i j | _ => false end) (w_def w)
                then xignored w else run_now w e
            | _ => run_now w e
            end
      end
  | XDialSlow c =>
      let '(s', o) := inner (w_s w) (EDial c true) in
      (wmk s' (if o_ign o then w_slow w else c :: w_slow w) (o_closed o) (w_park w) (w_used w) (w_def w) (w_again w),
       XObs o [] [])
  | XHoldReq i a k =>
      match w_park w with
      | Some _ => xignored w
      | None =>
          if needs_lock (w_s w) (EReq i a k)
          then (wmk (w_s w) (w_slow w) (w_closed w) (Some ((1000 + i)%nat, (1000 + i)%nat)) 0%nat [EReq i a k] (w_again w),
                XObs (quiet_obs false w) [(1000 + i)%nat] [])
          else run_now w (EReq i a k)
      end
  | XCloseGo h =>
      match w_park w with
      | Some (h', closer) =>
          if Nat.eqb h h' then
            let w1 := wmk (w_s w) (w_slow w) (w_closed w) None 0%nat [] (w_again w) in
            let '(w2, xo) := drain w1 (w_def w) (XObs (quiet_obs false w) [] []) in
            (* a park that begins while the blocked events run admits no further lock-kind event *)
            let u2 := match w_park w2 with Some _ => 2%nat | None => w_used w2 end in
            (* the closer's done() returns, then the blocked events run; callers
               waiting in once.Do of a done function that has now returned
               return too (sync.Once lets them go when the function is through) *)
            let rel := if Nat.ltb closer 1000 then closer :: x_reldone xo else x_reldone xo in
            let back := filter (fun a => mem a rel) (w_again w) in
            let keep := filter (fun a => negb (mem a rel)) (w_again w) in
            (wmk (w_s w2) (w_slow w2) (w_closed w2) (w_park w2) u2 (w_def w2) keep,
             XObs (x_o xo) (x_inclose xo) (rel ++ back))
          else xignored w
      | None => xignored w
      end
  | XCancelDeaf i =>
      if dial_pending (w_s w) i then (w, XObs (quiet_obs false w) [] [])
      else
        match w_park w with
        | Some _ =>
            if existsb (fun d => match d with EReq j _ _ => Nat.eqb i j | _ => false end) (w_def w)
            then xignored w else run_now w (ECancel i)
        | None => run_now w (ECancel i)
        end
  | XManager _ => xignored w
  | XStress _ => xignored w
  | XBreak h =>
      if has_handle (w_s w) h && negb (mem h (w_closed w))
      then (w, XObs (quiet_obs false w) [] [])
      else xignored w
  | XAgain i =>
      match w_park w with
      | Some (h, closer) =>
          if Nat.eqb i closer || existsb (fun d => match d with ERelease j => Nat.eqb i j | _ => false end) (w_def w)
          then (wmk (w_s w) (w_slow w) (w_closed w) (w_park w) (w_used w) (w_def w) (i :: w_again w),
                XObs (quiet_obs false w) [] [])
          else xignored w
      | None => xignored w
      end
  end.
End Wrap.

Definition m_needs (s : state) (e : event) : bool :=
  match e with
  | EReq i _ _ =>
      match thr s i, objs s i with
      | None, None => negb (cancelled s i)
      | _, _ => false
      end
  | EFailGo c => is_failing s c
  | ERelease i =>
      match thr s i with
      | Some t => match t_pc t with PRet (RConn _) => negb (t_once t) | _ => false end
      | None => false
      end
  | _ => false
  end.

Definition k_needs (ks : kstate) (e : event) : bool :=
  match e with
  | EReq i _ _ => match k_thr ks i with None => negb (k_cancel ks i) | Some _ => false end
  | EFailGo d => match k_d ks d with Some (_, DFail _ false) => true | _ => false end
  | ERelease i =>
      match k_thr ks i with
      | Some t => match k_ret t with Some (OConn _) => negb (k_rel t) | _ => false end
      | None => false
      end
  | _ => false
  end.

Definition xm_init : @wst state := wmk init [] [] None 0%nat [] [].
Definition xk_init : @wst kstate := wmk kinit [] [] None 0%nat [] [].

Definition m_handle (s : state) (h : nat) : bool :=
  match objs s h with Some o => match c_cc o with Some _ => true | None => false end | None => false end.

Definition k_handle (ks : kstate) (h : nat) : bool :=
  match k_d ks h with Some (_, DOk) => true | _ => false end.

Definition m_pending (s : state) (i : nat) : bool :=
  match objs s i with Some o => match c_ds o with DInDial => true | _ => false end | None => false end.

Definition k_pending (ks : kstate) (i : nat) : bool :=
  match k_d ks i with Some (_, DPend) => true | _ => false end.

Definition xmrun := xrun mrun m_needs m_handle m_pending.
Definition xkstep := xrun kstep k_needs k_handle k_pending.

(** a thread is handed a connection that is already shut down *)
Definition handed_closed (o : obs) : bool :=
  existsb (fun ir => match snd ir with OConn h => existsb (Nat.eqb h) (o_closed o) | _ => false end) (o_rets o).

Definition xtag (want got : xobs) : N :=
  if handed_closed (x_o got) then 4%N
  else if obs_eqb (x_o want) (x_o got) then 7%N     (* Close / done() progress not as specified *)
  else ktag (x_o want) (x_o got).

Fixpoint xcheck_from (n : nat) (w : @wst state) (wk : @wst kstate) (m_ok k_ok : bool)
         (c : list (xevent * xobs)) : list (nat * N) :=
  match c with
  | [] => []
  | (e, r) :: c' =>
      let r' := xcanon r in
      let '(w', rm) := xmrun w e in
      let '(wk', rk) := xkstep wk e in
      let rm := xcanon rm in
      let rk := xcanon rk in
      let bad1 := m_ok && negb (xobs_eqb r' rm) in
      let bad2 := k_ok && negb (xobs_eqb r' rk) in
      (if bad1 then [(n, 1%N)] else []) ++
      (* a deviation from the specification machine that contradicts no clause of
         the property (something progressed where HEAD blocks, or the other way
         round) is a broken correspondence, not a property failure *)
      (if bad2 then (if N.eqb (xtag rk r') 7 then (if bad1 then [] else [(n, 1%N)]) else [(n, xtag rk r')]) else []) ++
      (* checked on the observation alone, whatever happened before: nobody is
         handed a connection that is already shut down *)
      (if handed_closed (x_o r') && negb bad2 then [(n, 4%N)] else []) ++
      xcheck_from (S n) w' wk' (m_ok && negb bad1) (k_ok && negb bad2) c'
  end.

Definition xcheck_case (c : list (xevent * xobs)) : list (nat * N) :=
  xcheck_from 0 xm_init xk_init true true c.

(** A case without slow handles is checked by [check_case] itself (the
    function the K_P soundness theorems are about); of its extra observations
    only "done() returned" remains, which must be exactly the applied
    releases. *)
Fixpoint unlift (n : nat) (c : list (xevent * xobs)) : option (list (event * obs) * option nat) :=
  match c with
  | [] => Some ([], None)
  | (XE e, x) :: c' =>
      match unlift (S n) c' with
      | Some (p, bad) =>
          let exp := match e with
                     | ERelease i => if o_ign (canon (x_o x)) then [] else [i]
                     | _ => []
                     end in
          let ok := nats_eqb (x_inclose x) [] && nats_eqb (sort_nat (x_reldone x)) exp in
          Some ((e, x_o x) :: p, if ok then bad else Some n)
      | None => None
      end
  | _ => None
  end.

(** ** clauses of the property checked on the observations alone

    Independent of the model and of the specification machine, and never
    switched off by an earlier deviation: from the script and the observations
    only, (tag 4) a thread that was handed handle h and for which no release
    has been issued sees h closed / Shutdown; (tag 2) a Dial call to an address
    is observed while an earlier Dial call to the same address has not been
    ended (let return, or -- for a Dial that listens to its context --
    cancelled). *)
Record ost := {
  os_held : list (nat * nat);   (* thread, handle: handed out, no release issued *)
  os_fly : list (nat * nat);    (* dial (creator), address: invoked, not ended *)
  os_t4 : bool;                 (* already reported *)
  os_t2 : bool }.

Definition ostep (st : ost) (xe : xevent) (o : obs) : ost * list N :=
  let applied := negb (o_ign o) in
  let held1 := match xe with
               | XE (ERelease i) => if applied then filter (fun ih => negb (Nat.eqb (fst ih) i)) (os_held st) else os_held st
               | _ => os_held st
               end in
  let drop d := filter (fun da : nat * nat => negb (Nat.eqb (fst da) d)) (os_fly st) in
  let fly1 := match xe with
              | XE (EDial d _) => if applied then drop d else os_fly st
              | XDialSlow d => if applied then drop d else os_fly st
              | XE (ECancel d) => if applied then drop d else os_fly st
              | _ => os_fly st
              end in
  let clash :=
    existsb (fun da : nat * nat =>
      existsb (fun fa : nat * nat => Nat.eqb (snd fa) (snd da) && negb (Nat.eqb (fst fa) (fst da)))
              (fly1 ++ o_dials o)) (o_dials o) in
  let fly2 := fly1 ++ o_dials o in
  let held2 := held1 ++ flat_map (fun ir : nat * robs => match snd ir with OConn h => [(fst ir, h)] | _ => [] end) (o_rets o) in
  let seen := existsb (fun ih : nat * nat => existsb (Nat.eqb (snd ih)) (o_closed o)) held2 in
  ({| os_held := held2; os_fly := fly2; os_t4 := os_t4 st || seen; os_t2 := os_t2 st || clash |},
   (if clash && negb (os_t2 st) then [2%N] else []) ++ (if seen && negb (os_t4 st) then [4%N] else [])).

Fixpoint ocheck_from (n : nat) (st : ost) (c : list (xevent * xobs)) : list (nat * N) :=
  match c with
  | [] => []
  | (e, r) :: c' =>
      let '(st', ts) := ostep st e (canon (x_o r)) in
      map (fun t => (n, t)) ts ++ ocheck_from (S n) st' c'
  end.

Definition ocheck (c : list (xevent * xobs)) : list (nat * N) :=
  ocheck_from 0 {| os_held := []; os_fly := []; os_t4 := false; os_t2 := false |} c.

Definition has_tag (l : list (nat * N)) (x : nat * N) : bool :=
  existsb (fun y => Nat.eqb (fst x) (fst y) && N.eqb (snd x) (snd y)) l.

Fixpoint add_new (l extra : list (nat * N)) : list (nat * N) :=
  match extra with
  | [] => l
  | x :: extra' => if has_tag l x then add_new l extra' else add_new (l ++ [x]) extra'
  end.

(** tag 7 of the plain checker (join / failure points not as specified) is a
    correspondence matter as well *)
Definition demote7 (l : list (nat * N)) : list (nat * N) :=
  add_new [] (map (fun x : nat * N => if N.eqb (snd x) 7 then (fst x, 1%N) else x) l).

(** ** manager family: every handle a holder was given is given back

    The target manager is a well-behaved holder: when a target has been removed
    (Remove returns after its monitor has finished), every reference it took
    from the connection manager must have been released, so every connection
    dialled so far is closed (tag 5 otherwise); tag 6 for a panic or a Remove
    that does not return. *)
Fixpoint mcheck_from (n : nat) (made : list nat) (c : list (xevent * xobs)) : list (nat * N) :=
  match c with
  | [] => []
  | (_, r) :: c' =>
      let o := canon (x_o r) in
      let made' := made ++ map fst (o_dials o) in
      (if negb (N.eqb (o_bad o) 0) then [(n, 6%N)]
       else if forallb (fun h => existsb (Nat.eqb h) (o_closed o)) made' then [] else [(n, 5%N)])
      ++ mcheck_from (S n) made' c'
  end.

Definition is_mgr (c : list (xevent * xobs)) : bool :=
  match c with (XManager _, _) :: _ => true | _ => false end.

(** ** stress family, on the observations alone: tag 4 a holder saw the
    connection it was handed Shutdown before its own release; tag 5 a
    connection left open after every holder released; tag 6 panic / hang *)
Fixpoint scheck_from (n : nat) (c : list (xevent * xobs)) : list (nat * N) :=
  match c with
  | [] => []
  | (_, r) :: c' =>
      let o := x_o r in
      (if negb (N.eqb (o_bad o) 0) then [(n, 6%N)]
       else match o_rets o, o_failing o with
            | _ :: _, _ => [(n, 4%N)]
            | [], _ :: _ => [(n, 5%N)]
            | [], [] => []
            end) ++ scheck_from (S n) c'
  end.

Definition is_stress (c : list (xevent * xobs)) : bool :=
  match c with (XStress _, _) :: _ => true | _ => false end.

Definition xcheck_case' (c : list (xevent * xobs)) : list (nat * N) :=
  if is_mgr c then mcheck_from 0 [] c else
  if is_stress c then scheck_from 0 c else
  let base :=
    match unlift 0 c with
    | Some (p, bad) =>
        let r := check_case p in
        demote7 (r ++ match bad with
                      | Some n => if existsb (fun mt => negb (N.eqb (snd mt) 1)) r then [] else [(n, 1%N)]
                      | None => []
                      end)
    | None => xcheck_case c
    end in
  add_new base (ocheck c).

Fixpoint xcheck_all_from (i : nat) (cs : list (list (xevent * xobs))) : list (nat * nat * N) :=
  match cs with
  | [] => []
  | c :: cs' => map (fun sn => (i, fst sn, snd sn)) (xcheck_case' c) ++ xcheck_all_from (S i) cs'
  end.

Definition xcheck_all (cs : list (list (xevent * xobs))) : list (nat * nat * N) :=
  xcheck_all_from 0 cs.

Fixpoint xmtrace (w : @wst state) (es : list xevent) : list xobs :=
  match es with
  | [] => []
  | e :: es' => let '(w', o) := xmrun w e in xcanon o :: xmtrace w' es'
  end.

Fixpoint xktrace (w : @wst kstate) (es : list xevent) : list xobs :=
  match es with
  | [] => []
  | e :: es' => let '(w', o) := xkstep w e in xcanon o :: xktrace w' es'
  end.

(** Facts about Go's view of UTF-8 (Utf8.v): an induction principle following
    the encoded runes of a valid string, validity of concatenations, and
    "ranging over a valid string and writing the runes back" is the identity. *)
From Gnmi Require Import Base.Prelude Value.Utf8.
Open Scope N_scope.

Lemma string_length_ind (P : string -> Prop) :
  (forall s, (forall t, (String.length t < String.length s)%nat -> P t) -> P s) -> forall s, P s.
Proof.
  intros H s. remember (String.length s) as n eqn:En. revert s En.
  induction n as [n IH] using lt_wf_ind. intros s ->. apply H. intros t Ht. eapply IH; eauto.
Qed.

(** one encoded rune, as the boolean facts the definitions of [utf8_valid] /
    [sanitize] test, in the order they test them *)
Inductive rune : string -> Prop :=
| R1 c : (byte_of c <? 128) = true -> rune (String c EmptyString)
| R2 c c1 :
    (byte_of c <? 128) = false -> in_range 194 223 (byte_of c) = true ->
    cont (byte_of c1) = true ->
    rune (String c (String c1 EmptyString))
| R3 c c1 c2 :
    (byte_of c <? 128) = false -> in_range 194 223 (byte_of c) = false ->
    in_range 224 239 (byte_of c) = true ->
    second3 (byte_of c) (byte_of c1) = true -> cont (byte_of c2) = true ->
    rune (String c (String c1 (String c2 EmptyString)))
| R4 c c1 c2 c3 :
    (byte_of c <? 128) = false -> in_range 194 223 (byte_of c) = false ->
    in_range 224 239 (byte_of c) = false -> in_range 240 244 (byte_of c) = true ->
    second4 (byte_of c) (byte_of c1) = true -> cont (byte_of c2) = true -> cont (byte_of c3) = true ->
    rune (String c (String c1 (String c2 (String c3 EmptyString)))).

Open Scope string_scope.
Open Scope N_scope.

Lemma rune_longer u r : rune u -> (String.length r < String.length (u ++ r))%nat.
Proof. destruct 1; cbn; lia. Qed.

(** a valid non-empty string starts with an encoded rune and the rest is valid *)
Lemma utf8_valid_head c s :
  utf8_valid (String c s) = true -> exists u r, String c s = u ++ r /\ rune u /\ utf8_valid r = true.
Proof.
  cbn. destruct (byte_of c <? 128) eqn:E1.
  - intros H. exists (String c ""), s. repeat split; [now constructor|assumption].
  - destruct (in_range 194 223 (byte_of c)) eqn:E2.
    + destruct s as [|c1 r]; [discriminate|]. intros H. apply andb_true_iff in H as [H1 H2].
      exists (String c (String c1 "")), r. repeat split; [now constructor|assumption].
    + destruct (in_range 224 239 (byte_of c)) eqn:E3.
      * destruct s as [|c1 [|c2 r]]; try discriminate. intros H.
        apply andb_true_iff in H as [H H3]. apply andb_true_iff in H as [H1 H2].
        exists (String c (String c1 (String c2 ""))), r. repeat split; [now constructor|assumption].
      * destruct (in_range 240 244 (byte_of c)) eqn:E4; [|discriminate].
        destruct s as [|c1 [|c2 [|c3 r]]]; try discriminate. intros H.
        apply andb_true_iff in H as [H H4]. apply andb_true_iff in H as [H H3].
        apply andb_true_iff in H as [H1 H2].
        exists (String c (String c1 (String c2 (String c3 "")))), r.
        repeat split; [now constructor|assumption].
Qed.

(** induction over the encoded runes of a valid string *)
Lemma utf8_ind (P : string -> Prop) :
  P "" ->
  (forall u r, rune u -> utf8_valid r = true -> P r -> P (u ++ r)) ->
  forall s, utf8_valid s = true -> P s.
Proof.
  intros H0 Hs s. induction s as [s IH] using string_length_ind. intros Hv.
  destruct s as [|c s]; [exact H0|].
  destruct (utf8_valid_head c s Hv) as (u & r & E & Hu & Hr). rewrite E in *.
  apply Hs; auto. apply IH; [now apply rune_longer|assumption].
Qed.

Ltac use_facts :=
  repeat match goal with H : _ = true |- _ => rewrite H; clear H | H : _ = false |- _ => rewrite H; clear H end.

(** unfolding both functions at an encoded rune *)
Lemma utf8_valid_at u r : rune u -> utf8_valid (u ++ r) = utf8_valid r.
Proof. destruct 1; cbn [append utf8_valid]; use_facts; reflexivity. Qed.

Lemma sanitize_at u r : rune u -> sanitize (u ++ r) = u ++ sanitize r.
Proof. destruct 1; cbn [append sanitize]; use_facts; reflexivity. Qed.

(** ranging over a valid string and writing the runes back changes nothing *)
Theorem sanitize_valid s : utf8_valid s = true -> sanitize s = s.
Proof.
  revert s. apply utf8_ind; [reflexivity|]. intros u r Hu Hr IH.
  rewrite sanitize_at by assumption. now rewrite IH.
Qed.

Lemma sapp_assoc' a b c : (a ++ b) ++ c = a ++ (b ++ c).
Proof. induction a; cbn; congruence. Qed.

Theorem utf8_valid_app a b : utf8_valid a = true -> utf8_valid (a ++ b) = utf8_valid b.
Proof.
  revert a. apply (utf8_ind (fun a => utf8_valid (a ++ b) = utf8_valid b)); [reflexivity|].
  intros u r Hu Hr IH. rewrite sapp_assoc', utf8_valid_at by assumption. assumption.
Qed.

Close Scope string_scope.

(** every byte of a multi-byte encoding is at least 128 *)
Lemma cont_high b : cont b = true -> (b <? 128) = false.
Proof.
  unfold cont, in_range. rewrite andb_true_iff, N.leb_le, N.ltb_ge. tauto.
Qed.

Lemma second3_high l b : second3 l b = true -> (b <? 128) = false.
Proof.
  unfold second3, cont, in_range. destruct (l =? 224); [|destruct (l =? 237)];
    rewrite andb_true_iff, !N.leb_le, N.ltb_ge; lia.
Qed.

Lemma second4_high l b : second4 l b = true -> (b <? 128) = false.
Proof.
  unfold second4, cont, in_range. destruct (l =? 240); [|destruct (l =? 244)];
    rewrite andb_true_iff, !N.leb_le, N.ltb_ge; lia.
Qed.

Example utf8_valid_example : utf8_valid "é/日本" = true /\ sanitize "é/日本" = "é/日本"%string.
Proof. split; reflexivity. Qed.

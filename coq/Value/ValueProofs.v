(** Proofs about the model of value/value.go (ValueModel.v): totality,
    symmetry and soundness of Equal, the scalar round trip, totality of
    FromScalar / ToScalar.  Every statement is for all values (arbitrary
    nesting of leaf-lists). *)
From Gnmi Require Import Base.Prelude Value.ValueModel.
Open Scope list_scope.

(** * Induction principles for the nested types *)

Lemma tv_ind' (P : tv -> Prop)
  (Hbase : forall t, (forall l, t <> TVLeaflist l) -> P t)
  (Hlist : forall l, Forall P l -> P (TVLeaflist l)) : forall t, P t.
Proof.
  fix IH 1. intros t. destruct t; try (apply Hbase; congruence).
  apply Hlist. induction l as [|x l IHl]; constructor; [apply IH|apply IHl].
Qed.

Lemma gscalar_ind' (P : gscalar -> Prop)
  (Hbase : forall x, (forall l, x <> GList l) -> P x)
  (Hlist : forall l, Forall P l -> P (GList l)) : forall x, P x.
Proof.
  fix IH 1. intros x. destruct x; try (apply Hbase; congruence).
  apply Hlist. induction l as [|x l IHl]; constructor; [apply IH|apply IHl].
Qed.

(** * Go's float comparison *)

Lemma f64_eq_sym a b : f64_eq a b = f64_eq b a.
Proof.
  unfold f64_eq. rewrite (orb_comm (f64_is_nan a)), (andb_comm (f64_is_zero a)), (N.eqb_sym a b).
  reflexivity.
Qed.

Lemma f32_eq_sym a b : f32_eq a b = f32_eq b a.
Proof.
  unfold f32_eq. rewrite (orb_comm (f32_is_nan a)), (andb_comm (f32_is_zero a)), (N.eqb_sym a b).
  reflexivity.
Qed.

Lemma f64_eq_true a b :
  f64_eq a b = true ->
  f64_is_nan a = false /\ f64_is_nan b = false /\
  (a = b \/ (f64_is_zero a = true /\ f64_is_zero b = true)).
Proof.
  unfold f64_eq. destruct (f64_is_nan a), (f64_is_nan b); cbn; try discriminate.
  destruct (f64_is_zero a), (f64_is_zero b); cbn; intros H; repeat split; auto;
    left; now apply N.eqb_eq.
Qed.

Lemma f32_eq_true a b :
  f32_eq a b = true ->
  f32_is_nan a = false /\ f32_is_nan b = false /\
  (a = b \/ (f32_is_zero a = true /\ f32_is_zero b = true)).
Proof.
  unfold f32_eq. destruct (f32_is_nan a), (f32_is_nan b); cbn; try discriminate.
  destruct (f32_is_zero a), (f32_is_zero b); cbn; intros H; repeat split; auto;
    left; now apply N.eqb_eq.
Qed.

(** NaN is not equal to itself, +0 equals -0: the two places where Go's [==]
    is not bit equality. *)
Example f64_eq_nan : f64_eq 9221120237041090561 9221120237041090561 = false.
Proof. reflexivity. Qed.
Example f64_eq_zeros : f64_eq 0 9223372036854775808 = true.
Proof. reflexivity. Qed.

Global Opaque f64_eq f32_eq.
Local Arguments Z.eqb : simpl never.
Local Arguments N.eqb : simpl never.

(** * "The same value" *)

(** [tv_equiv a b]: the two messages denote the same value -- identical, or
    differing only in the sign of a floating-point zero, or in a nil inner
    message standing for the empty one (which is how a nil sub-message reads
    through the generated getters and on the wire). *)
Inductive tv_equiv : tv -> tv -> Prop :=
| EqvRefl a : tv_equiv a a
| EqvDZero x y : f64_is_zero x = true -> f64_is_zero y = true -> tv_equiv (TVDouble x) (TVDouble y)
| EqvFZero x y : f32_is_zero x = true -> f32_is_zero y = true -> tv_equiv (TVFloat x) (TVFloat y)
| EqvDecNilL : tv_equiv TVDecimalNil (TVDecimal 0 0)
| EqvDecNilR : tv_equiv (TVDecimal 0 0) TVDecimalNil
| EqvListNilL : tv_equiv TVLeaflistNil (TVLeaflist [])
| EqvListNilR : tv_equiv (TVLeaflist []) TVLeaflistNil
| EqvList l l' : Forall2 tv_equiv l l' -> tv_equiv (TVLeaflist l) (TVLeaflist l').

(** * Equal *)

(** the pair is outside the class of DEFECT C19_1, or the defect is absent *)
Definition okpair (d : bool) (a b : tv) : Prop :=
  d = false \/ (has_nil a = false /\ has_nil b = false).

Lemma has_nil_list_in l x : tvs_exists has_nil l = false -> In x l -> has_nil x = false.
Proof.
  induction l as [|y l IH]; cbn; [tauto|].
  intros H [->|Hin]; apply orb_false_iff in H as [H1 H2]; auto.
Qed.

Lemma okpair_elems d l l' x y :
  okpair d (TVLeaflist l) (TVLeaflist l') -> In x l -> In y l' -> okpair d x y.
Proof.
  intros [->|[H1 H2]] Hx Hy; [now left|right].
  cbn in H1, H2. split; [apply (has_nil_list_in l)|apply (has_nil_list_in l')]; auto.
Qed.

Lemma equal_elems_total (eq : tv -> tv -> outcome bool) ae be :
  List.length ae = List.length be ->
  (forall x y, In x ae -> In y be -> exists r, eq x y = Ok r) ->
  exists r, equal_elems eq ae be = Ok r.
Proof.
  revert be; induction ae as [|x ae IH]; intros [|y be] Hl Hf; cbn in *; try discriminate; eauto.
  destruct (Hf x y) as [r Hr]; auto. rewrite Hr. destruct r; [|eauto].
  apply IH; [lia|]. intros; apply Hf; cbn; auto.
Qed.

(** Equal never returns an error class (it has no error result), whatever the
    defect flag *)
Lemma equal_elems_no_err (eq : tv -> tv -> outcome bool) ae be c :
  (forall x y, In x ae -> eq x y <> Err c) -> equal_elems eq ae be <> Err c.
Proof.
  revert be; induction ae as [|x ae IH]; intros [|y be] Hf; cbn; try discriminate.
  destruct (eq x y) as [[|]| |] eqn:E; try discriminate.
  - apply IH. intros; apply Hf; cbn; auto.
  - intros H; inversion H; subst. eapply Hf; [left; reflexivity|eauto].
Qed.

(** ** totality *)

Lemma equal_gen_total d a : forall b, okpair d a b -> exists r, equal_gen d a b = Ok r.
Proof.
  induction a as [a Hnl|ae IH] using tv_ind'; intros b Hok.
  - destruct a; try (exfalso; eapply Hnl; reflexivity); destruct b; cbn; eauto;
      destruct Hok as [->|[H1 H2]]; cbn in *; eauto; discriminate.
  - cbn. destruct b; cbn; eauto.
    + destruct (Nat.eqb (List.length ae) (List.length l)) eqn:El; cbn; eauto.
      apply Nat.eqb_eq in El. apply equal_elems_total; auto.
      intros x y Hx Hy. rewrite Forall_forall in IH. apply IH; auto.
      eapply okpair_elems; eauto.
    + destruct Hok as [->|[H1 H2]]; cbn in *; [|discriminate].
      destruct ae; cbn; eauto.
Qed.

(** ** symmetry *)

Lemma bool_eqb_sym a b : Bool.eqb a b = Bool.eqb b a.
Proof. destruct a, b; reflexivity. Qed.

Lemma equal_elems_sym (eq : tv -> tv -> outcome bool) ae be :
  List.length ae = List.length be ->
  (forall x y, In x ae -> In y be -> eq x y = eq y x) ->
  equal_elems eq ae be = equal_elems eq be ae.
Proof.
  revert be; induction ae as [|x ae IH]; intros [|y be] Hl Hf; cbn in *; try discriminate; auto.
  rewrite (Hf x y) by auto. destruct (eq y x) as [[|]| |]; auto;
  try (apply IH; [lia|]; intros; apply Hf; cbn; auto).
Qed.

Lemma equal_gen_sym d a : forall b, okpair d a b -> equal_gen d a b = equal_gen d b a.
Proof.
  induction a as [a Hnl|ae IH] using tv_ind'; intros b Hok.
  - destruct a; try (exfalso; eapply Hnl; reflexivity); destruct b; cbn; auto;
      try (f_equal;
           match goal with
           | |- String.eqb _ _ = _ => apply String.eqb_sym
           | |- Z.eqb _ _ = _ => apply Z.eqb_sym
           | |- N.eqb _ _ = _ => apply N.eqb_sym
           | |- Bool.eqb _ _ = _ => apply bool_eqb_sym
           | |- f64_eq _ _ = _ => apply f64_eq_sym
           | |- f32_eq _ _ = _ => apply f32_eq_sym
           end);
      try (destruct Hok as [->|[H1 H2]]; cbn in *; auto; discriminate).
    all: try (f_equal; f_equal; [apply Z.eqb_sym|apply N.eqb_sym]).
    all: destruct Hok as [->|[H1 H2]]; cbn in *; try discriminate.
    all: try (f_equal; f_equal; [apply Z.eqb_sym|apply N.eqb_sym]).
    all: try (destruct l; cbn; reflexivity).
  - cbn. destruct b; cbn; auto.
    + rewrite (Nat.eqb_sym (List.length ae)).
      destruct (Nat.eqb (List.length l) (List.length ae)) eqn:El; cbn; auto.
      apply Nat.eqb_eq in El. apply equal_elems_sym; auto.
      intros x y Hx Hy. rewrite Forall_forall in IH. apply IH; auto.
      eapply okpair_elems; eauto.
    + destruct Hok as [->|[H1 H2]]; cbn in *; [|discriminate].
      destruct ae; cbn; reflexivity.
Qed.

(** ** soundness *)

Lemma equal_elems_sound (eq : tv -> tv -> outcome bool) ae be :
  List.length ae = List.length be ->
  (forall x y, In x ae -> eq x y = Ok true -> tv_equiv x y) ->
  equal_elems eq ae be = Ok true -> Forall2 tv_equiv ae be.
Proof.
  revert be; induction ae as [|x ae IH]; intros [|y be] Hl Hf; cbn in *; try discriminate.
  - constructor.
  - destruct (eq x y) as [[|]| |] eqn:E; try discriminate. intros H. constructor.
    + apply Hf; auto.
    + apply IH; auto; intros; apply Hf; cbn; auto.
Qed.

Ltac eqb_to_eq :=
  repeat match goal with
  | H : Ok _ = Ok _ |- _ => inversion H; clear H
  | H : andb _ _ = true |- _ => apply andb_true_iff in H as [? ?]
  | H : orb _ _ = true |- _ => apply orb_true_iff in H as [H|H]
  | H : String.eqb _ _ = true |- _ => apply String.eqb_eq in H
  | H : Z.eqb _ _ = true |- _ => apply Z.eqb_eq in H
  | H : N.eqb _ _ = true |- _ => apply N.eqb_eq in H
  | H : Bool.eqb _ _ = true |- _ => apply Bool.eqb_prop in H
  | H : Nat.eqb _ _ = true |- _ => apply Nat.eqb_eq in H
  | H : f64_eq _ _ = true |- _ => apply f64_eq_true in H as (_ & _ & [H|[? ?]])
  | H : f32_eq _ _ = true |- _ => apply f32_eq_true in H as (_ & _ & [H|[? ?]])
  end; subst.

Lemma equal_gen_sound d a : forall b, equal_gen d a b = Ok true -> tv_equiv a b.
Proof.
  induction a as [a Hnl|ae IH] using tv_ind'; intros b.
  - destruct a; try (exfalso; eapply Hnl; reflexivity); destruct b; cbn; try discriminate;
      try (destruct d; cbn; try discriminate); intros H; eqb_to_eq; try (now constructor).
    all: try (destruct l; cbn in *; [now constructor|discriminate]).
  - cbn. destruct b; cbn; try discriminate.
    + destruct (Nat.eqb (List.length ae) (List.length l)) eqn:El; cbn; try discriminate.
      apply Nat.eqb_eq in El. intros H. apply EqvList.
      eapply equal_elems_sound; eauto.
      intros x y Hx. rewrite Forall_forall in IH. apply IH; auto.
    + destruct d; cbn; try discriminate.
      destruct ae; cbn; try discriminate. intros _. constructor.
Qed.

(** Equal is reflexive on everything it handles except NaN (completeness of
    the handled arms; not part of C19, kept as a sanity lemma) *)
Example equal_refl_example :
  equal (TVLeaflist [TVString "a"; TVInt 1]) (TVLeaflist [TVString "a"; TVInt 1]) = Ok true.
Proof. reflexivity. Qed.

(** ** the defect, on the model *)

Lemma equal_panics_on_nil : equal_gen true (TVDouble 4607182418800017408) TVnil = Panic panic_nil_deref.
Proof. reflexivity. Qed.

Lemma equal_not_sym_on_nil :
  equal_gen true (TVDouble 4607182418800017408) TVnil <> equal_gen true TVnil (TVDouble 4607182418800017408).
Proof. cbn. discriminate. Qed.

Lemma equal_total_refuted : exists a b w, equal_gen true a b = Panic w.
Proof. exists (TVDouble 4607182418800017408), TVnil, panic_nil_deref. reflexivity. Qed.

Lemma equal_sym_refuted : exists a b, equal_gen true a b <> equal_gen true b a.
Proof. exists (TVDouble 4607182418800017408), TVnil. exact equal_not_sym_on_nil. Qed.

(** * FromScalar / ToScalar *)

Lemma map_outcome_strings d jv l :
  map_outcome (to_scalar_gen d jv) (map TVString l) = Ok (map GString l).
Proof. induction l as [|s l IH]; cbn; [reflexivity|]. cbn in IH. now rewrite IH. Qed.

Lemma map_outcome_roundtrip d jv l :
  Forall (fun x => forall t, from_scalar x = Ok t -> to_scalar_gen d jv t = Ok (widen x)) l ->
  forall ts, map_outcome from_scalar l = Ok ts ->
  map_outcome (to_scalar_gen d jv) ts = Ok (map widen l).
Proof.
  induction 1 as [|x l Hx Hl IH]; cbn; intros ts H.
  - inversion H; reflexivity.
  - destruct (from_scalar x) as [t| |] eqn:E; try discriminate.
    destruct (map_outcome from_scalar l) as [ts'| |] eqn:E'; try discriminate.
    inversion H; subst. cbn. rewrite (Hx t eq_refl). cbn.
    change (map_outcome (to_scalar_gen d jv) ts') with (map_outcome (to_scalar_gen d jv) ts').
    now rewrite (IH ts' eq_refl).
Qed.

(** the round trip: whatever FromScalar accepts comes back from ToScalar as
    the same scalar, widened (ints to 64 bits, float32 to float64, []string to
    []interface{}); independent of the defect flag and of the JSON oracle *)
Lemma scalar_roundtrip_gen d jv x :
  forall t, from_scalar x = Ok t -> to_scalar_gen d jv t = Ok (widen x).
Proof.
  induction x as [x Hnl|l IH] using gscalar_ind'; intros t.
  - destruct x; try (exfalso; eapply Hnl; reflexivity); cbn; try discriminate;
      try (intros H; inversion H; subst; reflexivity).
    + destruct (utf8_valid s); [|discriminate]. intros H; inversion H; reflexivity.
    + intros H; inversion H; subst. cbn. now rewrite map_outcome_strings.
  - cbn. destruct (map_outcome from_scalar l) as [ts| |] eqn:E; try discriminate.
    intros H; inversion H; subst. cbn.
    now rewrite (map_outcome_roundtrip d jv l IH ts E).
Qed.

(** FromScalar: no panic; an error exactly on unsupported input *)
Definition gs_forallb (f : gscalar -> bool) : list gscalar -> bool :=
  fix go l := match l with [] => true | x :: l' => f x && go l' end.

Fixpoint supported (x : gscalar) : bool :=
  match x with
  | GString s => utf8_valid s
  | GList l => gs_forallb supported l
  | GDecimalFloat _ _ | GDeprecated _ _ | GOther => false
  | _ => true
  end.

Lemma map_outcome_from_scalar l :
  Forall (fun x => if supported x then exists t, from_scalar x = Ok t else exists c, from_scalar x = Err c) l ->
  if gs_forallb supported l then exists ts, map_outcome from_scalar l = Ok ts
  else exists c, map_outcome from_scalar l = Err c.
Proof.
  induction 1 as [|x l Hx Hl IH]; cbn; [eauto|].
  destruct (supported x); cbn.
  - destruct Hx as [t ->]. destruct (gs_forallb supported l).
    + destruct IH as [ts ->]. eauto.
    + destruct IH as [c ->]. eauto.
  - destruct Hx as [c ->]. eauto.
Qed.

Lemma from_scalar_supported x :
  if supported x then exists t, from_scalar x = Ok t else exists c, from_scalar x = Err c.
Proof.
  induction x as [x Hnl|l IH] using gscalar_ind'.
  - destruct x; try (exfalso; eapply Hnl; reflexivity); cbn; eauto.
    destruct (utf8_valid s); eauto.
  - cbn. pose proof (map_outcome_from_scalar l IH) as H.
    destruct (gs_forallb supported l).
    + destruct H as [ts ->]. eauto.
    + destruct H as [c ->]. eauto.
Qed.

Lemma from_scalar_no_panic x w : from_scalar x <> Panic w.
Proof.
  pose proof (from_scalar_supported x) as H. destruct (supported x).
  - destruct H as [t ->]. discriminate.
  - destruct H as [c ->]. discriminate.
Qed.

(** ToScalar without DEFECT C19_2 never panics *)
Lemma map_outcome_no_panic {A B} (f : A -> outcome B) l w :
  Forall (fun x => f x <> Panic w) l -> map_outcome f l <> Panic w.
Proof.
  induction 1 as [|x l Hx Hl IH]; cbn; [discriminate|].
  destruct (f x) eqn:E; try discriminate.
  - destruct (map_outcome f l); try discriminate. intros H; inversion H; subst. now apply IH.
  - intros H; inversion H; subst. now apply Hx.
Qed.

Lemma to_scalar_fixed_total jv t w : to_scalar_gen false jv t <> Panic w.
Proof.
  induction t as [t Hnl|l IH] using tv_ind'.
  - destruct t; try (exfalso; eapply Hnl; reflexivity); cbn; try discriminate.
    + destruct (jv s); discriminate.
    + destruct (jv s); discriminate.
  - cbn. pose proof (map_outcome_no_panic (to_scalar_gen false jv) l w IH) as H.
    destruct (map_outcome (to_scalar_gen false jv) l); try discriminate.
    intros E; inversion E; subst. now apply H.
Qed.

(** with the defect: total outside the nil class *)
Lemma to_scalar_total_partial d jv t w : has_nil t = false -> to_scalar_gen d jv t <> Panic w.
Proof.
  induction t as [t Hnl|l IH] using tv_ind'; intros Hn.
  - destruct t; try (exfalso; eapply Hnl; reflexivity); cbn in *; try discriminate.
    + destruct (jv s); discriminate.
    + destruct (jv s); discriminate.
  - cbn in *.
    assert (H : map_outcome (to_scalar_gen d jv) l <> Panic w).
    { apply map_outcome_no_panic. rewrite Forall_forall in *. intros x Hx.
      apply IH; auto. eapply has_nil_list_in; eauto. }
    destruct (map_outcome (to_scalar_gen d jv) l); try discriminate.
    intros E; inversion E; subst. now apply H.
Qed.

Lemma to_scalar_panics_on_nil jv : to_scalar_gen true jv TVnil = Panic panic_nil_deref.
Proof. reflexivity. Qed.

Lemma to_scalar_total_refuted : exists jv t w, to_scalar_gen true jv t = Panic w.
Proof. exists (fun _ => true), TVnil, panic_nil_deref. reflexivity. Qed.

(** * the statements for the code as it is (both defects fixed: the switches
      ValueModel.defect_C19_1 / defect_C19_2 are [false]) *)

Lemma equal_total a b : exists r, equal a b = Ok r.
Proof. apply equal_gen_total. now left. Qed.

Lemma equal_sym a b : equal a b = equal b a.
Proof. apply equal_gen_sym. now left. Qed.

Lemma equal_sound a b : equal a b = Ok true -> tv_equiv a b.
Proof. apply equal_gen_sound. Qed.

Lemma equal_outside_nil_class d a b :
  has_nil a = false -> has_nil b = false ->
  (exists r, equal_gen d a b = Ok r) /\ equal_gen d a b = equal_gen d b a.
Proof.
  intros Ha Hb. split; [apply equal_gen_total|apply equal_gen_sym]; right; auto.
Qed.

Lemma scalar_roundtrip jv x t : from_scalar x = Ok t -> to_scalar jv t = Ok (widen x).
Proof. apply scalar_roundtrip_gen. Qed.

Lemma to_scalar_total jv t w : to_scalar jv t <> Panic w.
Proof. apply to_scalar_fixed_total. Qed.

Example equal_total_example : equal (TVDouble 4607182418800017408) TVnil = Ok false.
Proof. reflexivity. Qed.
Example to_scalar_total_example : to_scalar (fun _ => true) (TVLeaflist [TVInt 1; TVnil]) = Err err_non_scalar.
Proof. reflexivity. Qed.

(** * widen32 is exact: the float64 denotes the same number *)

(** the rational denoted by a finite bit pattern, as (sign, mantissa, binary
    exponent): value = (-1)^s * m * 2^e *)
Definition f32_decode (b : N) : bool * N * Z :=
  let s := N.eqb (f32_sign b) 1 in
  if f32_exp b =? 0 then (s, f32_man b, (-149)%Z)
  else (s, (f32_man b + 2 ^ 23)%N, (Z.of_N (f32_exp b) - 150)%Z).

Definition f64_decode (b : N) : bool * N * Z :=
  let s := N.eqb (N.land (N.shiftr b 63) 1) 1 in
  if f64_exp b =? 0 then (s, f64_man b, (-1074)%Z)
  else (s, (f64_man b + 2 ^ 52)%N, (Z.of_N (f64_exp b) - 1075)%Z).

(** same number: signs agree (or both are zero) and m1 * 2^e1 = m2 * 2^e2 *)
Definition same_number (x y : bool * N * Z) : bool :=
  let '(s1, m1, e1) := x in
  let '(s2, m2, e2) := y in
  Bool.eqb s1 s2 &&
  let e := Z.min e1 e2 in
  (Z.of_N m1 * 2 ^ (e1 - e) =? Z.of_N m2 * 2 ^ (e2 - e))%Z.

Example widen32_exact_samples :
  forallb (fun b => same_number (f32_decode b) (f64_decode (widen32 b)))
    [0; 1; 3; 1024; 8388607; 8388608; 1065353216; 1069547520; 2139095039; 2147483648; 2147484672;
     3212836864; 1036831949; 4286578687]%N = true.
Proof. vm_compute. reflexivity. Qed.

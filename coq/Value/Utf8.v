(** UTF-8 as Go sees it, over byte strings.

    [utf8_valid] is unicode/utf8.ValidString (shortest encodings only, no
    surrogates, nothing above U+10FFFF).

    [sanitize] is what a Go loop [for _, ch := range s { buf.WriteRune(ch) }]
    writes: every valid encoded rune is copied as it is, every byte that does
    not start a valid encoding is replaced by the encoding of U+FFFD and ONE
    byte is consumed (utf8.DecodeRuneInString returns (RuneError, 1)).

    Definitions only. *)
From Gnmi Require Export Base.Prelude.
Open Scope N_scope.

Definition byte_of (c : ascii) : N := N_of_ascii c.

Definition in_range (lo hi b : N) : bool := (lo <=? b) && (b <=? hi).
Definition cont (b : N) : bool := in_range 128 191 b.

(** admissible second byte after a three-byte / four-byte lead *)
Definition second3 (lead b : N) : bool :=
  if lead =? 224 then in_range 160 191 b
  else if lead =? 237 then in_range 128 159 b
  else cont b.

Definition second4 (lead b : N) : bool :=
  if lead =? 240 then in_range 144 191 b
  else if lead =? 244 then in_range 128 143 b
  else cont b.

Fixpoint utf8_valid (s : string) : bool :=
  match s with
  | EmptyString => true
  | String c r =>
      let x := byte_of c in
      if x <? 128 then utf8_valid r
      else if in_range 194 223 x then
        match r with
        | String c1 r1 => cont (byte_of c1) && utf8_valid r1
        | _ => false
        end
      else if in_range 224 239 x then
        match r with
        | String c1 (String c2 r2) =>
            second3 x (byte_of c1) && cont (byte_of c2) && utf8_valid r2
        | _ => false
        end
      else if in_range 240 244 x then
        match r with
        | String c1 (String c2 (String c3 r3)) =>
            second4 x (byte_of c1) && cont (byte_of c2) && cont (byte_of c3) && utf8_valid r3
        | _ => false
        end
      else false
  end.

(** the encoding of U+FFFD *)
Definition fffd : string :=
  String (ascii_of_N 239) (String (ascii_of_N 191) (String (ascii_of_N 189) EmptyString)).

Fixpoint sanitize (s : string) : string :=
  match s with
  | EmptyString => EmptyString
  | String c r =>
      let x := byte_of c in
      if x <? 128 then String c (sanitize r)
      else if in_range 194 223 x then
        match r with
        | String c1 r1 =>
            if cont (byte_of c1) then String c (String c1 (sanitize r1))
            else (fffd ++ sanitize r)%string
        | _ => (fffd ++ sanitize r)%string
        end
      else if in_range 224 239 x then
        match r with
        | String c1 (String c2 r2) =>
            if second3 x (byte_of c1) && cont (byte_of c2)
            then String c (String c1 (String c2 (sanitize r2)))
            else (fffd ++ sanitize r)%string
        | _ => (fffd ++ sanitize r)%string
        end
      else if in_range 240 244 x then
        match r with
        | String c1 (String c2 (String c3 r3)) =>
            if second4 x (byte_of c1) && cont (byte_of c2) && cont (byte_of c3)
            then String c (String c1 (String c2 (String c3 (sanitize r3))))
            else (fffd ++ sanitize r)%string
        | _ => (fffd ++ sanitize r)%string
        end
      else (fffd ++ sanitize r)%string
  end.

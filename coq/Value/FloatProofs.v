(** [widen32] (the model of Go's float64(x) for a float32 x) is exact: for
    every finite float32 bit pattern the float64 bit pattern it yields denotes
    the same real number, with the same sign; infinities go to infinities and
    NaNs to NaNs.  Numbers are compared as (sign, integer mantissa, binary
    exponent) triples, value = (-1)^s * m * 2^e. *)
From Gnmi Require Import Base.Prelude Value.ValueModel Value.ValueProofs.
Open Scope N_scope.

(** * bit fields as div / mod *)

Lemma land_ones_mod a n : N.land a (2 ^ n - 1) = a mod 2 ^ n.
Proof.
  replace (2 ^ n - 1) with (N.ones n) by (rewrite N.ones_equiv, N.pred_sub; reflexivity).
  apply N.land_ones.
Qed.

Lemma f32_man_mod b : f32_man b = b mod 2 ^ 23.
Proof. unfold f32_man. apply (land_ones_mod b 23). Qed.

Lemma f32_exp_mod b : f32_exp b = (b / 2 ^ 23) mod 2 ^ 8.
Proof. unfold f32_exp. rewrite N.shiftr_div_pow2. apply (land_ones_mod _ 8). Qed.

Lemma f32_sign_mod b : f32_sign b = (b / 2 ^ 31) mod 2 ^ 1.
Proof. unfold f32_sign. rewrite N.shiftr_div_pow2. apply (land_ones_mod _ 1). Qed.

Lemma f64_man_mod b : f64_man b = b mod 2 ^ 52.
Proof. unfold f64_man. apply (land_ones_mod b 52). Qed.

Lemma f64_exp_mod b : f64_exp b = (b / 2 ^ 52) mod 2 ^ 11.
Proof. unfold f64_exp. rewrite N.shiftr_div_pow2. apply (land_ones_mod _ 11). Qed.

(** a float64 assembled from its fields *)
Definition pack64 (s e m : N) : N := s * 2 ^ 63 + e * 2 ^ 52 + m.

Section Pack.
Variables s e m : N.
Hypothesis Hs : s < 2.
Hypothesis He : e < 2 ^ 11.
Hypothesis Hm : m < 2 ^ 52.

Lemma pack64_div52 : pack64 s e m / 2 ^ 52 = s * 2 ^ 11 + e.
Proof.
  unfold pack64. symmetry. apply (N.div_unique _ _ _ m); [exact Hm|].
  change (2 ^ 63) with (2 ^ 11 * 2 ^ 52). lia.
Qed.

Lemma pack64_man : f64_man (pack64 s e m) = m.
Proof.
  rewrite f64_man_mod. unfold pack64. symmetry.
  apply (N.mod_unique _ _ (s * 2 ^ 11 + e)); [exact Hm|].
  change (2 ^ 63) with (2 ^ 11 * 2 ^ 52). lia.
Qed.

Lemma pack64_exp : f64_exp (pack64 s e m) = e.
Proof.
  rewrite f64_exp_mod, pack64_div52. symmetry.
  apply (N.mod_unique _ _ s); [exact He|]. lia.
Qed.

Lemma pack64_sign : N.land (N.shiftr (pack64 s e m) 63) 1 = s.
Proof.
  rewrite N.shiftr_div_pow2. change 1 with (2 ^ 1 - 1). rewrite land_ones_mod.
  assert (Hd : pack64 s e m / 2 ^ 63 = s).
  { symmetry. apply (N.div_unique _ _ _ (e * 2 ^ 52 + m)).
    - change (2 ^ 63) with (2 ^ 11 * 2 ^ 52). nia.
    - unfold pack64. lia. }
  rewrite Hd. apply N.mod_small. exact Hs.
Qed.

End Pack.

(** * decomposition of a float32 *)

Lemma f32_fields_bounds b :
  f32_sign b < 2 /\ f32_exp b < 2 ^ 8 /\ f32_man b < 2 ^ 23.
Proof.
  rewrite f32_sign_mod, f32_exp_mod, f32_man_mod.
  repeat split; apply N.mod_lt; discriminate.
Qed.

(** [widen32] written with [pack64] *)
Lemma widen32_pack b :
  widen32 b =
  let s := f32_sign b in let e := f32_exp b in let m := f32_man b in
  if e =? 255 then pack64 s 2047 (if m =? 0 then 0 else N.lor (N.shiftl m 29) (2 ^ 51))
  else if e =? 0 then
    if m =? 0 then pack64 s 0 0
    else let k := N.log2 m in pack64 s (k + 874) ((m - 2 ^ k) * 2 ^ (52 - k))
  else pack64 s (e + 896) (m * 2 ^ 29).
Proof.
  unfold widen32, pack64. cbn zeta. rewrite !N.shiftl_mul_pow2.
  destruct (f32_exp b =? 255); [reflexivity|].
  destruct (f32_exp b =? 0); [|reflexivity].
  destruct (f32_man b =? 0); [lia|reflexivity].
Qed.

(** * exactness *)

Lemma pow2_Z n : Z.of_N (2 ^ n) = (2 ^ Z.of_N n)%Z.
Proof. rewrite N2Z.inj_pow. reflexivity. Qed.

Theorem widen32_exact b :
  f32_exp b <> 255 -> same_number (f32_decode b) (f64_decode (widen32 b)) = true.
Proof.
  intros Hfin. destruct (f32_fields_bounds b) as (Hs & He & Hm).
  rewrite widen32_pack. cbn zeta.
  apply N.eqb_neq in Hfin. rewrite Hfin.
  unfold f32_decode, f64_decode.
  destruct (f32_exp b =? 0) eqn:E0.
  - destruct (f32_man b =? 0) eqn:Em.
    + (* zero *)
      rewrite pack64_sign, pack64_exp, pack64_man by (try assumption; reflexivity).
      apply N.eqb_eq in Em. rewrite Em. cbn. now rewrite Bool.eqb_reflx.
    + (* sub-normal float32 = normal float64 *)
      apply N.eqb_neq in Em. set (m := f32_man b) in *. set (k := N.log2 m).
      assert (Hk : k < 23).
      { apply N.log2_lt_pow2; [lia|exact Hm]. }
      assert (Hlo : 2 ^ k <= m) by (apply N.log2_spec; lia).
      assert (Hhi : m < 2 ^ N.succ k) by (apply N.log2_spec; lia).
      assert (Hsplit : 2 ^ 52 = 2 ^ k * 2 ^ (52 - k)).
      { rewrite <- N.pow_add_r. f_equal. lia. }
      assert (Hm' : (m - 2 ^ k) * 2 ^ (52 - k) < 2 ^ 52).
      { rewrite Hsplit. apply N.mul_lt_mono_pos_r; [apply N.neq_0_lt_0, N.pow_nonzero; discriminate|].
        rewrite N.pow_succ_r' in Hhi. lia. }
      assert (He' : k + 874 < 2 ^ 11) by (change (2 ^ 11) with 2048; lia).
      rewrite pack64_sign, pack64_exp, pack64_man by assumption.
      assert (Hne : (k + 874 =? 0) = false) by (apply N.eqb_neq; lia). rewrite Hne.
      unfold same_number. rewrite Bool.eqb_reflx. cbn [andb].
      assert (Emin : Z.min (-149) (Z.of_N (k + 874) - 1075) = (Z.of_N k - 201)%Z) by lia.
      rewrite Emin.
      replace (-149 - (Z.of_N k - 201))%Z with (Z.of_N (52 - k)) by lia.
      replace (Z.of_N (k + 874) - 1075 - (Z.of_N k - 201))%Z with 0%Z by lia.
      apply Z.eqb_eq. rewrite Z.pow_0_r, Z.mul_1_r, <- pow2_Z, <- N2Z.inj_mul. f_equal.
      rewrite Hsplit at 1. rewrite N.mul_sub_distr_r.
      assert (2 ^ k * 2 ^ (52 - k) <= m * 2 ^ (52 - k)) by (apply N.mul_le_mono_r; exact Hlo).
      lia.
  - (* normal *)
    apply N.eqb_neq in E0. set (e := f32_exp b) in *. set (m := f32_man b) in *.
    assert (Hm' : m * 2 ^ 29 < 2 ^ 52).
    { change (2 ^ 52) with (2 ^ 23 * 2 ^ 29). apply N.mul_lt_mono_pos_r; [reflexivity|exact Hm]. }
    assert (He' : e + 896 < 2 ^ 11).
    { change (2 ^ 11) with 2048. change (2 ^ 8) with 256 in He. lia. }
    rewrite pack64_sign, pack64_exp, pack64_man by assumption.
    assert (Hne : (e + 896 =? 0) = false) by (apply N.eqb_neq; lia). rewrite Hne.
    unfold same_number. rewrite Bool.eqb_reflx. cbn [andb].
    assert (Emin : Z.min (Z.of_N e - 150) (Z.of_N (e + 896) - 1075) = (Z.of_N e - 179)%Z) by lia.
    rewrite Emin.
    replace (Z.of_N e - 150 - (Z.of_N e - 179))%Z with 29%Z by lia.
    replace (Z.of_N (e + 896) - 1075 - (Z.of_N e - 179))%Z with 0%Z by lia.
    apply Z.eqb_eq. rewrite Z.pow_0_r, Z.mul_1_r.
    rewrite !N2Z.inj_add, N2Z.inj_mul. change (Z.of_N (2 ^ 23)) with (2 ^ 23)%Z.
    change (Z.of_N (2 ^ 29)) with (2 ^ 29)%Z. change (Z.of_N (2 ^ 52)) with (2 ^ 23 * 2 ^ 29)%Z. ring.
Qed.

(** infinities and NaNs keep their class and sign *)
Theorem widen32_special b :
  f32_exp b = 255 ->
  f64_exp (widen32 b) = 2047 /\
  (f64_man (widen32 b) = 0 <-> f32_man b = 0) /\
  N.land (N.shiftr (widen32 b) 63) 1 = f32_sign b.
Proof.
  intros Hexp. destruct (f32_fields_bounds b) as (Hs & He & Hm).
  rewrite widen32_pack. cbn zeta. rewrite Hexp. cbn [N.eqb Pos.eqb].
  set (m := f32_man b) in *.
  assert (Hm' : (if m =? 0 then 0 else N.lor (N.shiftl m 29) (2 ^ 51)) < 2 ^ 52).
  { destruct (m =? 0); [reflexivity|].
    apply N.log2_lt_pow2.
    - assert (N.lor (N.shiftl m 29) (2 ^ 51) <> 0); [|lia].
      intros H. apply N.lor_eq_0_iff in H as [_ H]. discriminate.
    - rewrite N.log2_lor. apply N.max_lub_lt; [|reflexivity].
      destruct (N.eq_dec m 0) as [->|Hn]; [reflexivity|].
      rewrite N.log2_shiftl by assumption.
      assert (N.log2 m < 23) by (apply N.log2_lt_pow2; [lia|exact Hm]). lia. }
  rewrite pack64_exp, pack64_man, pack64_sign by (try assumption; reflexivity).
  repeat split; try reflexivity.
  - destruct (m =? 0) eqn:E; [intros _; now apply N.eqb_eq|].
    intros H. apply N.lor_eq_0_iff in H as [_ H]. discriminate.
  - intros ->. reflexivity.
Qed.

(** the hypotheses are satisfiable and the conclusion is not trivial: the
    smallest sub-normal float32, 2^-149, is the NORMAL float64 0x36A0000000000000 *)
Example widen32_exact_example :
  f32_exp 1 <> 255 /\ widen32 1 = 3936146074321813504 /\
  f64_decode (widen32 1) = (false, 2 ^ 52, (-201)%Z).
Proof. repeat split. discriminate. Qed.

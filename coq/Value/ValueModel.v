(** Executable model of value/value.go: FromScalar, ToScalar, Equal.

    A [*gnmi.TypedValue] is modelled with one constructor per arm of the
    [value] oneof, plus
      [TVnil]          the nil pointer,
      [TVunset]        a non-nil message whose oneof is not set,
      [TVDecimalNil]   the decimal arm holding a nil [*Decimal64],
      [TVLeaflistNil]  the leaf-list arm holding a nil [*ScalarArray].
    (A typed-nil oneof wrapper, i.e. a nil pointer of type TypedValue_StringVal stored in the interface, cannot be
    produced by the protobuf runtime and is not modelled.)

    float64 / float32 are their IEEE-754 bit patterns ([N], below 2^64 resp.
    2^32).  Go's [==] on floats is [f64_eq] / [f32_eq]: false as soon as one
    side is a NaN, true on +0 / -0, bit equality otherwise.

    [[]byte] is a [string] (bytes); a nil slice and an empty slice are the
    same value for every function of value.go (they are only compared through
    [string(b)] and returned as they are).

    Definitions only (proofs: ValueProofs.v), all evaluable by vm_compute. *)
From Gnmi Require Export Base.Prelude Value.Utf8.
Open Scope N_scope.

(** * IEEE-754 bit patterns *)

Definition f64_exp (b : N) : N := N.land (N.shiftr b 52) 2047.
Definition f64_man (b : N) : N := N.land b (2 ^ 52 - 1).
Definition f64_is_nan (b : N) : bool := (f64_exp b =? 2047) && negb (f64_man b =? 0).
Definition f64_is_zero (b : N) : bool := N.land b (2 ^ 63 - 1) =? 0.

(** Go's [a == b] on float64 *)
Definition f64_eq (a b : N) : bool :=
  if f64_is_nan a || f64_is_nan b then false
  else if f64_is_zero a && f64_is_zero b then true
  else a =? b.

Definition f32_exp (b : N) : N := N.land (N.shiftr b 23) 255.
Definition f32_man (b : N) : N := N.land b (2 ^ 23 - 1).
Definition f32_sign (b : N) : N := N.land (N.shiftr b 31) 1.
Definition f32_is_nan (b : N) : bool := (f32_exp b =? 255) && negb (f32_man b =? 0).
Definition f32_is_zero (b : N) : bool := N.land b (2 ^ 31 - 1) =? 0.

Definition f32_eq (a b : N) : bool :=
  if f32_is_nan a || f32_is_nan b then false
  else if f32_is_zero a && f32_is_zero b then true
  else a =? b.

(** [float64(x)] for a float32 [x]: exact.  Sub-normal float32 values are
    normal float64 values (renormalised); a NaN keeps its payload and is made
    quiet (what the conversion instruction does; the checker compares NaNs
    only as "some NaN"). *)
Definition widen32 (b : N) : N :=
  let s := N.shiftl (f32_sign b) 63 in
  let e := f32_exp b in
  let m := f32_man b in
  if e =? 255 then
    s + N.shiftl 2047 52 + (if m =? 0 then 0 else N.lor (N.shiftl m 29) (2 ^ 51))
  else if e =? 0 then
    if m =? 0 then s
    else
      let k := N.log2 m in                       (* highest set bit, 0..22 *)
      s + N.shiftl (k + 874) 52 + N.shiftl (m - 2 ^ k) (52 - k)   (* k - 149 + 1023 *)
  else s + N.shiftl (e + 896) 52 + N.shiftl m 29. (* e - 127 + 1023 *)

(** UTF-8 validity (unicode/utf8.ValidString): [utf8_valid] of Value/Utf8.v *)

(** * TypedValue *)

Inductive tv :=
| TVnil
| TVunset
| TVString (s : string)
| TVInt (z : Z)
| TVUint (n : N)
| TVBool (b : bool)
| TVBytes (s : string)
| TVFloat (bits : N)
| TVDouble (bits : N)
| TVDecimal (digits : Z) (precision : N)
| TVDecimalNil
| TVLeaflist (l : list tv)
| TVLeaflistNil
| TVAny
| TVJson (s : string)
| TVJsonIetf (s : string)
| TVAscii (s : string)
| TVProtoBytes (s : string).


(** a nil message somewhere in the value: the nil TypedValue, a decimal arm
    with nil Decimal64, a leaf-list arm with nil ScalarArray, directly or as
    an element of a leaf-list (the class of DEFECT C19_1 / C19_2) *)
Definition tvs_exists (f : tv -> bool) : list tv -> bool :=
  fix go l := match l with [] => false | x :: l' => f x || go l' end.

Fixpoint has_nil (t : tv) : bool :=
  match t with
  | TVnil | TVDecimalNil | TVLeaflistNil => true
  | TVLeaflist l => tvs_exists has_nil l
  | _ => false
  end.

(** * Equal *)

Definition panic_nil_deref : N := 1.
Definition panic_index : N := 2.

(** DEFECT C19_1 (value.Equal dereferenced nil), FIXED in /repo by b28d6aa.
    With [true] the model is the code before the fix: the DoubleVal arm read
    [b.Value] without the nil-safe getter, and the DecimalVal / LeaflistVal
    arms read fields of a possibly nil inner message.  [false] is the code as
    it is now: the nil pointer counts as "not a double" and a nil inner message
    as the empty message (nil-safe getters). *)
Definition defect_C19_1 : bool := false.

(** the element loop of the LeaflistVal arm: early exit on the first
    difference, a panic of an element comparison propagates *)
Definition equal_elems (eq : tv -> tv -> outcome bool) : list tv -> list tv -> outcome bool :=
  fix go ae be :=
    match ae with
    | [] => Ok true
    | x :: ae' =>
        match be with
        | [] => Panic panic_index     (* be[i] out of range; excluded by the length test *)
        | y :: be' =>
            match eq x y with
            | Ok true => go ae' be'
            | o => o
            end
        end
    end.

Definition leaflist_elems (d : bool) (t : tv) : option (outcome (list tv)) :=
  match t with
  | TVLeaflist l => Some (Ok l)
  | TVLeaflistNil => Some (if d then Panic panic_nil_deref else Ok [])
  | _ => None
  end.

Definition decimal_fields (d : bool) (t : tv) : option (outcome (Z * N)) :=
  match t with
  | TVDecimal g p => Some (Ok (g, p))
  | TVDecimalNil => Some (if d then Panic panic_nil_deref else Ok (0%Z, 0))
  | _ => None
  end.

(** [equal_gen d a b] is Equal(a, b); [d] says whether the nil dereferences of
    DEFECT C19_1 are present. *)
Fixpoint equal_gen (d : bool) (a b : tv) {struct a} : outcome bool :=
  match a with
  | TVString x => match b with TVString y => Ok (String.eqb x y) | _ => Ok false end
  | TVInt x => match b with TVInt y => Ok (Z.eqb x y) | _ => Ok false end
  | TVUint x => match b with TVUint y => Ok (N.eqb x y) | _ => Ok false end
  | TVBool x => match b with TVBool y => Ok (Bool.eqb x y) | _ => Ok false end
  | TVBytes x => match b with TVBytes y => Ok (String.eqb x y) | _ => Ok false end
  | TVDouble x =>
      match b with
      | TVnil => if d then Panic panic_nil_deref   (* before b28d6aa: b.Value on nil b *)
                 else Ok false
      | TVDouble y => Ok (f64_eq x y)
      | _ => Ok false
      end
  | TVFloat x => match b with TVFloat y => Ok (f32_eq x y) | _ => Ok false end
  | TVDecimal _ _ | TVDecimalNil =>
      match decimal_fields d b with
      | None => Ok false                       (* b is not the decimal arm *)
      | Some fb =>
          match decimal_fields d a with
          | Some (Ok (ga, pa)) =>
              match fb with
              | Ok (gb, pb) => Ok (Z.eqb ga gb && N.eqb pa pb)
              | Panic w => Panic w
              | Err c => Err c
              end
          | Some (Panic w) => Panic w          (* av.DecimalVal.Digits is read first *)
          | _ => Ok false
          end
      end
  | TVLeaflist ae =>
      match leaflist_elems d b with
      | None => Ok false
      | Some (Ok be) =>
          if negb (Nat.eqb (List.length ae) (List.length be)) then Ok false
          else equal_elems (equal_gen d) ae be
      | Some (Panic w) => Panic w
      | Some (Err c) => Err c
      end
  | TVLeaflistNil =>
      match leaflist_elems d b with
      | None => Ok false
      | Some fb =>
          if d then Panic panic_nil_deref      (* av.LeaflistVal.Element on nil *)
          else match fb with
               | Ok be => Ok (Nat.eqb 0 (List.length be))
               | Panic w => Panic w
               | Err c => Err c
               end
      end
  | TVnil | TVunset | TVAny | TVJson _ | TVJsonIetf _ | TVAscii _ | TVProtoBytes _ => Ok false
  end.

Definition equal (a b : tv) : outcome bool := equal_gen defect_C19_1 a b.

(** * Go scalars (the dynamic type and value of an [interface{}]) *)

Inductive iwidth := W0 (* int / uint *) | W8 | W16 | W32 | W64.

Inductive gscalar :=
| GString (s : string)
| GInt (w : iwidth) (z : Z)
| GUint (w : iwidth) (n : N)
| GFloat32 (bits : N)
| GFloat64 (bits : N)
| GBool (b : bool)
| GStrings (l : list string)          (* []string *)
| GBytes (s : string)                 (* []byte *)
| GList (l : list gscalar)            (* []interface{} *)
| GDecimalFloat (digits : Z) (precision : N)
      (* the float32 that decimalToFloat computes: float32(float64(digits) / math.Pow(10, precision));
         kept symbolic (math.Pow is not modelled) *)
| GDeprecated (ietf : bool) (json : string)
      (* DeprecatedScalar wrapping whatever encoding/json decoded from [json] *)
| GOther.                             (* nil, structs, maps, ... : any other dynamic type *)

Definition err_non_utf8 : N := 1.
Definition err_in_list : N := 2.
Definition err_non_scalar : N := 3.
Definition err_json : N := 4.

(** sequential map with the first failure returned *)
Definition map_outcome {A B} (f : A -> outcome B) : list A -> outcome (list B) :=
  fix go l :=
    match l with
    | [] => Ok []
    | x :: l' =>
        match f x with
        | Ok y => match go l' with Ok ys => Ok (y :: ys) | Err c => Err c | Panic w => Panic w end
        | Err c => Err c
        | Panic w => Panic w
        end
    end.

Fixpoint from_scalar (x : gscalar) : outcome tv :=
  match x with
  | GString s => if utf8_valid s then Ok (TVString s) else Err err_non_utf8
  | GInt _ z => Ok (TVInt z)
  | GUint _ n => Ok (TVUint n)
  | GFloat32 b => Ok (TVDouble (widen32 b))
  | GFloat64 b => Ok (TVDouble b)
  | GBool b => Ok (TVBool b)
  | GStrings l => Ok (TVLeaflist (map TVString l))      (* no UTF-8 test on this arm *)
  | GBytes s => Ok (TVBytes s)
  | GList l =>
      match map_outcome from_scalar l with
      | Ok ts => Ok (TVLeaflist ts)
      | Err _ => Err err_in_list
      | Panic w => Panic w
      end
  | GDecimalFloat _ _ | GDeprecated _ _ | GOther => Err err_non_scalar
  end.

(** DEFECT C19_2 (value.ToScalar dereferenced nil), FIXED in /repo by e8be1b1.
    With [true] the model is the code before the fix: the default arm formatted
    [tv.Value] of a nil [tv] (also for a nil leaf-list element), and
    decimalToFloat read [d.Digits] of a nil [*Decimal64].  [false] is the code
    as it is now: a nil value is the "non-scalar type" error and a nil decimal
    is the zero decimal. *)
Definition defect_C19_2 : bool := false.

(** [jv] is encoding/json's verdict on a byte string (json.Unmarshal into an
    empty interface fails exactly on invalid JSON); an external oracle. *)
Fixpoint to_scalar_gen (d : bool) (jv : string -> bool) (t : tv) : outcome gscalar :=
  match t with
  | TVDecimal g p => Ok (GDecimalFloat g p)
  | TVDecimalNil => if d then Panic panic_nil_deref else Ok (GDecimalFloat 0 0)
  | TVString s => Ok (GString s)
  | TVInt z => Ok (GInt W64 z)
  | TVUint n => Ok (GUint W64 n)
  | TVBool b => Ok (GBool b)
  | TVFloat b => Ok (GFloat32 b)
  | TVDouble b => Ok (GFloat64 b)
  | TVLeaflist l =>
      match map_outcome (to_scalar_gen d jv) l with
      | Ok xs => Ok (GList xs)
      | Err c => Err c
      | Panic w => Panic w
      end
  | TVLeaflistNil => Ok (GList [])
  | TVBytes s => Ok (GBytes s)
  | TVJson s => if jv s then Ok (GDeprecated false s) else Err err_json
  | TVJsonIetf s => if jv s then Ok (GDeprecated true s) else Err err_json
  | TVnil => if d then Panic panic_nil_deref else Err err_non_scalar
  | TVunset | TVAny | TVAscii _ | TVProtoBytes _ => Err err_non_scalar
  end.

Definition to_scalar (jv : string -> bool) (t : tv) : outcome gscalar :=
  to_scalar_gen defect_C19_2 jv t.

(** what a scalar looks like after the trip through a TypedValue: integers at
    64 bits, float32 as float64, []string as []interface{} of strings *)
Fixpoint widen (x : gscalar) : gscalar :=
  match x with
  | GInt _ z => GInt W64 z
  | GUint _ n => GUint W64 n
  | GFloat32 b => GFloat64 (widen32 b)
  | GStrings l => GList (map GString l)
  | GList l => GList (map widen l)
  | _ => x
  end.

(** Glue: the coalescing queue.

    Coalesce/QueueModel.v + QueueLts.v (C11) are the authoritative models of
    coalesce/coalesce.go: the concrete state ([q_queue], [q_counts], token,
    closed), the critical sections [locked_insert]/[locked_next], the LTS with
    any number of producers and one consumer, and the ABSTRACT coalescing
    queue [aq] (pending items in order of first insertion, each with its
    duplicate count), to which C11 proves the concrete queue refines along
    every schedule.

    Two other models carry an abstract queue of their own:

      Stream/StreamLts.v        [queue := list (item * nat)], [q_insert],
                                head removal in [LDeq]            (C04, C08)
      Pipeline/PipelineModel.v  [list qitem], [q_insert_leaf], unconditional
                                append of delete entries, head removal in
                                [send_one]                         (C01)

    Items of C11 are numbers ([N]); any injective numbering [enc] of the other
    model's items is an abstraction function.  Proved for EVERY injective
    [enc] (a concrete one is given at the end):

      - StreamLts.q_insert / the head removal of LDeq ARE [aq_insert] /
        [aq_next] on the image ([stream_insert_is_aq_insert],
        [stream_deq_is_aq_next]), duplicate counts included;
      - hence they are simulated by the concrete critical sections
        ([qsim_insert], [qsim_next]) and by the steps of C11's LTS from every
        reachable state ([stream_insert_in_queue_lts],
        [stream_deq_in_queue_lts]);
      - the pipeline's queue is the abstract queue with the duplicate counts
        forgotten ([pipe_insert_leaf_keys]); a delete entry is a fresh pointer,
        i.e. an item not pending ([aq_insert_fresh_keys]). *)
From Gnmi Require Import Base.Prelude Base.Lts Coalesce.QueueModel Coalesce.QueueLts Coalesce.QueueProofs
  Coalesce.QueueLive.
From Gnmi Require Stream.StreamLts Pipeline.PipelineModel.
Open Scope list_scope.

(** * Facts about the abstract queue *)

Lemma aq_insert_keys i q :
  map fst (fst (aq_insert i q)) = if aq_mem i q then map fst q else map fst q ++ [i].
Proof.
  unfold aq_insert. destruct (aq_mem i q); cbn [fst].
  - apply keys_bump.
  - now rewrite map_app.
Qed.

(** a fresh item goes last *)
Lemma aq_insert_fresh_keys i q :
  ~ In i (map fst q) -> map fst (fst (aq_insert i q)) = map fst q ++ [i] /\ snd (aq_insert i q) = true.
Proof.
  intros H. rewrite aq_insert_keys. unfold aq_insert.
  destruct (aq_mem i q) eqn:E; [apply aq_mem_In in E; contradiction|]. auto.
Qed.

Lemma iter_shift {A} (f : A -> A) n : forall x, Nat.iter (S n) f x = Nat.iter n f (f x).
Proof.
  induction n as [|n IH]; intros x; [reflexivity|].
  change (Nat.iter (S (S n)) f x) with (f (Nat.iter (S n) f x)). rewrite IH. reflexivity.
Qed.

(** * StreamLts *)

Lemma item_eqb_eq a b : StreamLts.item_eqb a b = true <-> a = b.
Proof.
  destruct a, b; cbn; try (split; [discriminate|congruence]); try tauto;
    rewrite Nat.eqb_eq; split; congruence.
Qed.

Section Enc.
Variable enc : StreamLts.item -> item.
Hypothesis enc_inj : forall a b, enc a = enc b -> a = b.

Definition abs_entry (xd : StreamLts.item * nat) : item * N := (enc (fst xd), N.of_nat (snd xd)).
Definition abs_q (q : StreamLts.queue) : aq := map abs_entry q.

Lemma enc_eqb a b : N.eqb (enc a) (enc b) = StreamLts.item_eqb b a.
Proof.
  destruct (StreamLts.item_eqb b a) eqn:E.
  - apply item_eqb_eq in E. subst. apply N.eqb_refl.
  - apply N.eqb_neq. intros H. apply enc_inj in H. subst.
    assert (StreamLts.item_eqb b b = true) by now apply item_eqb_eq. congruence.
Qed.

Lemma abs_q_mem it q :
  aq_mem (enc it) (abs_q q) = existsb (fun xd => StreamLts.item_eqb (fst xd) it) q.
Proof.
  unfold abs_q. induction q as [|[x d] q IH]; [reflexivity|].
  cbn [map abs_entry aq_mem existsb fst snd]. now rewrite IH, enc_eqb.
Qed.

(** coalesce.Queue.Insert *)
Theorem stream_insert_is_aq_insert it q :
  abs_q (StreamLts.q_insert it q) = fst (aq_insert (enc it) (abs_q q)).
Proof.
  unfold aq_insert. induction q as [|[x d] q IH]; [reflexivity|].
  cbn [StreamLts.q_insert abs_q map aq_mem abs_entry fst snd aq_bump].
  rewrite enc_eqb. destruct (StreamLts.item_eqb x it) eqn:E; cbn [orb map abs_entry fst snd].
  - f_equal. unfold abs_entry. cbn [fst snd]. f_equal. lia.
  - change (map abs_entry (StreamLts.q_insert it q)) with (abs_q (StreamLts.q_insert it q)).
    rewrite IH. change (map abs_entry q) with (abs_q q).
    destruct (aq_mem (enc it) (abs_q q)); reflexivity.
Qed.

(** the result Insert reports: "new" iff the item was not pending *)
Theorem stream_insert_new_flag it q :
  snd (aq_insert (enc it) (abs_q q)) = negb (existsb (fun xd => StreamLts.item_eqb (fst xd) it) q).
Proof. unfold aq_insert. rewrite abs_q_mem. now destruct (existsb _ q). Qed.

Theorem stream_insert_n_is_aq_insert n it : forall q,
  abs_q (StreamLts.q_insert_n n it q) =
  Nat.iter n (fun a => fst (aq_insert (enc it) a)) (abs_q q).
Proof.
  induction n as [|n IH]; intros q; [reflexivity|].
  cbn [StreamLts.q_insert_n]. rewrite IH, stream_insert_is_aq_insert.
  symmetry. apply (iter_shift (fun a => fst (aq_insert (enc it) a))).
Qed.

(** coalesce.Queue.Next on a non-empty queue: what LDeq hands to the sender *)
Theorem stream_deq_is_aq_next x q :
  aq_next (abs_q (x :: q)) = Some (enc (fst x), N.of_nat (snd x), abs_q q).
Proof. destruct x; reflexivity. Qed.

Theorem stream_deq_empty : aq_next (abs_q []) = None.
Proof. reflexivity. Qed.

(** ** against the concrete state of coalesce.Queue *)

Definition qsim (sq : StreamLts.queue) (cs : qstate) : Prop := qwf cs /\ q_abs cs = abs_q sq.

Lemma qsim_init : qsim [] q_init.
Proof. split; [apply qwf_init|reflexivity]. Qed.

Theorem qsim_insert sq cs it :
  qsim sq cs ->
  qsim (StreamLts.q_insert it sq) (fst (locked_insert cs (enc it))) /\
  snd (locked_insert cs (enc it)) = negb (existsb (fun xd => StreamLts.item_eqb (fst xd) it) sq).
Proof.
  intros [Hwf Habs]. pose proof (locked_insert_spec cs (enc it) Hwf) as H. cbn zeta in H.
  destruct H as (Hwf' & Hc & Hnew & _).
  rewrite <- (q_abs_counts _ Hwf) in Hc, Hnew. rewrite <- (q_abs_counts _ Hwf') in Hc.
  rewrite Habs in Hc, Hnew. split; [split; [assumption|]|].
  - now rewrite Hc, stream_insert_is_aq_insert.
  - now rewrite Hnew, stream_insert_new_flag.
Qed.

Theorem qsim_next x sq cs :
  qsim (x :: sq) cs ->
  exists cs', locked_next cs = Some (enc (fst x), N.of_nat (snd x), cs') /\ qsim sq cs'.
Proof.
  intros [Hwf Habs]. pose proof (locked_next_spec cs Hwf) as H.
  rewrite (q_abs_counts _ Hwf) in Habs.
  destruct (locked_next cs) as [[[i d] cs']|].
  - destruct H as (Hwf' & Hc & _). rewrite Hc in Habs. cbn in Habs. inversion Habs; subst.
    exists cs'. split; [reflexivity|]. split; [assumption|]. now rewrite (q_abs_counts _ Hwf').
  - destruct H as [Hc _]. rewrite Hc in Habs. discriminate.
Qed.

Theorem qsim_next_empty cs : qsim [] cs -> locked_next cs = None.
Proof.
  intros [Hwf Habs]. pose proof (locked_next_spec cs Hwf) as H.
  rewrite (q_abs_counts _ Hwf) in Habs.
  destruct (locked_next cs) as [[[i d] cs']|]; [|reflexivity].
  destruct H as (_ & Hc & _). rewrite Hc in Habs. discriminate.
Qed.

(** ** against C11's transition system (any number of producers, one
       consumer, every schedule) *)

Theorem stream_insert_in_queue_lts s n it sq :
  lreach s -> l_pp s n = PChecked (enc it) -> q_abs (l_q s) = abs_q sq ->
  exists s', lstep s (LP n) = Some s' /\
             q_abs (l_q s') = abs_q (StreamLts.q_insert it sq) /\
             l_pp s' n = PInserted (enc it)
                           (negb (existsb (fun xd => StreamLts.item_eqb (fst xd) it) sq)).
Proof.
  intros Hr Hp Habs. destruct (insert_reports_new s n (enc it) Hr Hp) as (s' & Hst & Hpp & Hq & _).
  exists s'. split; [assumption|]. rewrite Habs in Hq, Hpp. split.
  - now rewrite Hq, stream_insert_is_aq_insert.
  - now rewrite Hpp, abs_q_mem.
Qed.

Theorem stream_deq_in_queue_lts s x sq :
  lreach s -> l_cp s = CIdle \/ l_cp s = CTry -> q_abs (l_q s) = abs_q (x :: sq) ->
  exists s' pre,
    lstep s LC = Some s' /\ l_cp s' = CIdle /\ q_abs (l_q s') = abs_q sq /\
    l_hist s' = ERetNext (NItem (enc (fst x)) (N.of_nat (snd x)))
                  :: EPop (enc (fst x)) (N.of_nat (snd x)) :: pre.
Proof.
  intros Hr Hcp Habs. destruct (linv_reachable s Hr) as [Hwf _ _ _ _ _].
  destruct (qsim_next x sq (l_q s) (conj Hwf Habs)) as (cs' & Hn & _ & Habs').
  destruct (next_delivers_first s _ _ _ Hr Hcp Hn) as ((s' & pre & Hst & Hc & Hq & Hh & _) & _).
  exists s', pre. subst cs'. auto.
Qed.

(** ** fair runs (C11's liveness, Coalesce/QueueLive.v)

    StreamLts has no fairness notion of its own: its convergence theorems
    (C04_stream_converges) ASSUME a quiescent state, one clause of which is
    "the subscriber's queue is empty".  What the queue contributes to that is
    C11's [fair_delivery]: in every run of the queue LTS from the initial state
    that is weakly fair to the consumer and to the producers, whenever the
    queue abstracts to a StreamLts queue [sq], EVERY item of [sq] is eventually
    popped by [Next] (with its duplicate count: [next_delivers_first]) -- so a
    queue that is no longer inserted into drains. *)
Theorem stream_queue_item_eventually_delivered run lab :
  run 0%nat = l_init -> is_run lstep run lab ->
  wfair lstep run lab cons_label ->
  (forall n, wfair lstep run lab (fun l => l = LP n)) ->
  forall k sq it,
    q_abs (l_q (run k)) = abs_q sq -> In it (map fst sq) ->
    exists j, (k <= j)%nat /\ delivers run lab j (enc it).
Proof.
  intros H0 Hrun Hc Hp k sq it Habs Hin.
  apply (fair_delivery run lab H0 Hrun Hc Hp k (enc it)).
  assert (E : q_queue (l_q (run k)) = map fst (q_abs (l_q (run k)))).
  { unfold q_abs. rewrite map_map. cbn [fst]. now rewrite map_id. }
  rewrite E, Habs. unfold abs_q. rewrite map_map. cbn [abs_entry fst].
  apply in_map_iff in Hin as (xd & <- & Hx). apply in_map_iff. exists xd. auto.
Qed.

End Enc.

(** * PipelineModel: the queue with the counts forgotten *)

Section PipeEnc.
Variable enc : PipelineModel.qitem -> item.

Lemma pipe_mem_keys g (q : list PipelineModel.qitem) (a : aq) :
  map fst a = map enc q ->
  (forall x, In x q -> enc x = enc (PipelineModel.QLeaf g) -> x = PipelineModel.QLeaf g) ->
  aq_mem (enc (PipelineModel.QLeaf g)) a = existsb (PipelineModel.qitem_is_leaf g) q.
Proof.
  intros Hk Hinj.
  destruct (existsb (PipelineModel.qitem_is_leaf g) q) eqn:E.
  - apply aq_mem_In. rewrite Hk. apply existsb_exists in E as (x & Hx & Hl).
    destruct x as [g'| |]; try discriminate. cbn in Hl. apply Nat.eqb_eq in Hl. subst g'.
    now apply in_map.
  - destruct (aq_mem (enc (PipelineModel.QLeaf g)) a) eqn:M; [|reflexivity].
    apply aq_mem_In in M. rewrite Hk in M. apply in_map_iff in M as (x & Hex & Hx).
    apply (Hinj x Hx) in Hex. subst x.
    assert (existsb (PipelineModel.qitem_is_leaf g) q = true).
    { apply existsb_exists. exists (PipelineModel.QLeaf g). split; [assumption|]. cbn. apply Nat.eqb_refl. }
    congruence.
Qed.

(** matchClient.Update -> Queue.Insert of a leaf pointer: the pending items
    afterwards are those of [aq_insert] *)
Theorem pipe_insert_leaf_keys g (q : list PipelineModel.qitem) (a : aq) :
  map fst a = map enc q ->
  (forall x, In x q -> enc x = enc (PipelineModel.QLeaf g) -> x = PipelineModel.QLeaf g) ->
  map fst (fst (aq_insert (enc (PipelineModel.QLeaf g)) a)) = map enc (PipelineModel.q_insert_leaf q g).
Proof.
  intros Hk Hinj. rewrite aq_insert_keys, (pipe_mem_keys g q a Hk Hinj).
  unfold PipelineModel.q_insert_leaf.
  destruct (existsb (PipelineModel.qitem_is_leaf g) q); [assumption|].
  now rewrite map_app, Hk.
Qed.

(** a delete notification is a freshly allocated leaf: an item not pending *)
Theorem pipe_insert_del_keys d (q : list PipelineModel.qitem) (a : aq) :
  map fst a = map enc q -> ~ In (enc (PipelineModel.QDel d)) (map enc q) ->
  map fst (fst (aq_insert (enc (PipelineModel.QDel d)) a)) = map enc (q ++ [PipelineModel.QDel d]).
Proof.
  intros Hk Hfresh. rewrite <- Hk in Hfresh.
  destruct (aq_insert_fresh_keys _ _ Hfresh) as [H _]. now rewrite H, map_app, Hk.
Qed.

(** send_one takes the head *)
Theorem pipe_send_one_keys i (q : list PipelineModel.qitem) (a : aq) :
  map fst a = map enc (i :: q) ->
  exists d a', aq_next a = Some (enc i, d, a') /\ map fst a' = map enc q.
Proof.
  destruct a as [|[k d] a']; cbn; [discriminate|]. intros H. inversion H; subst. eauto.
Qed.

End PipeEnc.

(** * A concrete numbering (the statements above are not vacuous) *)

Definition enc_item (it : StreamLts.item) : item :=
  match it with
  | StreamLts.ISync => 0%N
  | StreamLts.ILeaf l => (1 + 2 * N.of_nat l)%N
  | StreamLts.IDel k => (2 + 2 * N.of_nat k)%N
  end.

Lemma enc_item_inj a b : enc_item a = enc_item b -> a = b.
Proof. destruct a, b; unfold enc_item; intros H; try reflexivity; try lia; f_equal; lia. Qed.

Example ex_stream_queue :
  abs_q enc_item (StreamLts.q_insert (StreamLts.ILeaf 3)
                    (StreamLts.q_insert StreamLts.ISync
                       (StreamLts.q_insert (StreamLts.ILeaf 3) [])))
  = [(7%N, 1%N); (0%N, 0%N)].
Proof. reflexivity. Qed.

Example ex_qsim_reachable :
  qsim enc_item
       (StreamLts.q_insert (StreamLts.ILeaf 3) (StreamLts.q_insert (StreamLts.ILeaf 3) []))
       (fst (locked_insert (fst (locked_insert q_init 7%N)) 7%N)).
Proof.
  apply (qsim_insert enc_item enc_item_inj). apply (qsim_insert enc_item enc_item_inj). apply qsim_init.
Qed.

(** Glue: the weak query specification that C05 ASSUMES for ONCE / POLL
    snapshots under concurrent writers ([SubProofs.weak_query], hypothesis of
    [C05_once_weak_partial] through [conc_walk]) is IMPLIED by what C10 proves
    over the transition system of ctree's locking protocol
    ([C10_query_stability_with_delete] = CTreeConcDel.query_reports_present_D /
    query_reports_all_D).

    The two formulations, and how they are lined up here:

    - C10 speaks of RUNS of the ctree LTS (heap of lock-carrying nodes, one API
      call per thread, values in Z); the content of a state is [absf (hp s)],
      a partial map from paths to Z.  C05 speaks of a list of cache states
      [hist] (per target a [tree noti]) "during the walk" and only ever uses
      [lookup].  The abstraction from runs to C05's writer history is the
      relation [rep nu tr s]: the tree [tr] holds at every path the
      notification [nu v] where the LTS state [s] holds the number [v]
      ([nu : Z -> noti] names the notification objects the leaves point to).
      The bridge needs ONE direction: every state the run passes through
      between the invocation of the Query and its return is represented by some
      tree of the history ([cqr_rep]).  Extra trees in the history only weaken
      C05's conclusion (its "during the call" is the whole ONCE call, the
      per-tree query runs during a part of it).

    - C10's clause (1) is about the moment of each VISIT ("what is reported is
      stored, with that value, when it is reported"), C05 wants it about the
      returned LIST, and wants every reported path to MATCH the query, which
      C10's theorem does not say.  Both are supplied here by a new invariant of
      the query thread over b10's model ([TI], [query_thread_inv]): the
      pending sub-queries only cover paths the original query selects, and
      everything accumulated so far matched and was stored, with that value, in
      some state of the run so far.  C10's clause (1) is used at each visit;
      C10's clause (2) gives completeness directly ([steps_all]).

    - Programs: C10's proved fragment -- Add, GetLeafValue, Query/Walk,
      Leaf.Value, the current Delete; NO Leaf.Update through a retained handle
      ([no_hupd_op]).  This matters for the cache: Target.gnmiUpdate overwrites
      an EXISTING leaf through [GetLeaf] + [Leaf.Update], which is exactly the
      excluded operation.  The bridge therefore covers walks concurrent with
      writers that add new leaves (or re-Add) and delete; for in-place updates
      of existing leaves the hypothesis of C05 remains an assumption (see
      docs/Glue.md).

    Result: [once_weak_from_ctree_lts] -- C05's conclusion for every walk whose
    per-tree queries are Query calls in runs of the ctree LTS, WITHOUT the
    assumed specification. *)
From Gnmi Require Import Base.Prelude CTree.CTreeModel CTree.CTreeConc CTree.CTreeConcProofs
  CTree.CTreeConcAbs CTree.CTreeConcDel.
From Gnmi Require Subscribe.SubModel Subscribe.SubProofs CTree.CTreeProofs.
Open Scope list_scope.

Module SM := SubModel.
Module SPf := SubProofs.

Lemma Forall2_impl_glue {A B} (R R' : A -> B -> Prop) xs ys :
  (forall x y, R x y -> R' x y) -> Forall2 R xs ys -> Forall2 R' xs ys.
Proof. intros H. induction 1; constructor; auto. Qed.

(** * Runs, with the states they pass through *)

(** [lrun s1 sts s2]: a run from [s1] to [s2]; [sts] = every state on the way,
    both ends included (newest first) *)
Inductive lrun : state -> list state -> state -> Prop :=
| lrun_refl s : lrun s [s] s
| lrun_step s1 l s j s' : lrun s1 l s -> step s j = Some s' -> lrun s1 (s' :: l) s'.

Lemma lrun_last_in s1 l s2 : lrun s1 l s2 -> In s2 l.
Proof. destruct 1; now left. Qed.

Lemma lrun_reach ops s1 l s2 : reach ops s1 -> lrun s1 l s2 -> reach ops s2.
Proof.
  intros R. induction 1 as [s|s1 l s j s' _ IH Hst]; [exact R|].
  eapply reach_step; [apply IH; exact R|exact Hst].
Qed.

Lemma lrun_steps_all (P : state -> Prop) s1 l s2 :
  lrun s1 l s2 -> (forall s, In s l -> P s) -> steps_all P s1 s2.
Proof.
  induction 1 as [s|s1 l s j s' Hr IH Hst]; intros HP.
  - constructor. apply HP. now left.
  - econstructor; [apply IH; intros x Hx; apply HP; now right|exact Hst|apply HP; now left].
Qed.

(** stored with that value in some state of the run *)
Definition seen (sts : list state) (p : path) (v : Z) : Prop :=
  exists s, In s sts /\ absf (hp s) p = Some v.

(** * The invariant of a query thread *)

Section QInv.
Variable q0 : path.

(** the sub-query [qr] below [pre] only selects paths the original query selects *)
Definition sub_ok (pre qr : path) : Prop :=
  forall s, qmatch qr s = true -> qmatch q0 (pre ++ s) = true.

Definition item_sub (it : qitem) : Prop := sub_ok (snd (fst it)) (snd it).

Definition acc_ok (sn : path -> Z -> Prop) (acc : list (path * Z)) : Prop :=
  forall p v, In (p, v) acc -> qmatch q0 p = true /\ sn p v.

Definition QI (sn : path -> Z -> Prop) (p : pc) : Prop :=
  match p with
  | PStart o => o = CQuery q0 None
  | PQEnter _ pre qr acc fr | PQRead _ pre qr acc fr =>
      sub_ok pre qr /\ Forall (Forall item_sub) fr /\ acc_ok sn acc
  | PQVisit pre v acc fr =>
      qmatch q0 pre = true /\ sn pre v /\ Forall (Forall item_sub) fr /\ acc_ok sn acc
  | PQNext acc fr => Forall (Forall item_sub) fr /\ acc_ok sn acc
  | PDone (XLeaves acc) => acc_ok sn acc
  | _ => False
  end.

Definition TI (sn : path -> Z -> Prop) (t : thread) : Prop :=
  top t = CQuery q0 None /\ QI sn (tpc t).

Lemma acc_ok_mono (sn sn' : path -> Z -> Prop) acc :
  (forall p v, sn p v -> sn' p v) -> acc_ok sn acc -> acc_ok sn' acc.
Proof. intros H A p v Hin. destruct (A p v Hin). auto. Qed.

Lemma TI_mono (sn sn' : path -> Z -> Prop) t :
  (forall p v, sn p v -> sn' p v) -> TI sn t -> TI sn' t.
Proof.
  intros H [Ht Hq]. split; [exact Ht|].
  destruct (tpc t); cbn [QI] in *; auto;
    try (match goal with r : cres |- _ => destruct r end; auto; eapply acc_ok_mono; eauto);
    intuition eauto using acc_ok_mono.
Qed.

(** qmatch under one more element *)
Lemma qmatch_cons_glob k r a s :
  is_glob k = true -> qmatch r s = true -> qmatch (k :: r) (a :: s) = true.
Proof. intros G H. cbn. rewrite G. destruct r; auto. Qed.

Lemma qmatch_cons_same k r s :
  is_glob k = false -> qmatch r s = true -> qmatch (k :: r) (k :: s) = true.
Proof. intros G H. cbn. rewrite G, String.eqb_refl. exact H. Qed.

Lemma query_items_sub c pre qr :
  sub_ok pre qr -> Forall item_sub (query_items c pre qr).
Proof.
  intros Hs. unfold query_items.
  assert (ALL : forall cs r', (forall a s, qmatch r' s = true -> qmatch qr (a :: s) = true) ->
            Forall item_sub (map (fun kc : string * nat => (snd kc, pre ++ [fst kc], r')) cs)).
  { intros cs r' Hr. apply Forall_forall. intros it Hin. apply in_map_iff in Hin as ([k c0] & <- & _).
    unfold item_sub, sub_ok. cbn [fst snd]. intros s Hm. rewrite <- app_assoc. cbn [app].
    apply Hs. now apply Hr. }
  destruct qr as [|k r].
  - destruct c; try constructor. apply ALL. reflexivity.
  - destruct (is_glob k) eqn:G.
    + destruct c; try constructor. apply ALL. intros a s Hm. now apply qmatch_cons_glob.
    + destruct c as [| |cs]; try constructor. destruct (assoc k cs) as [br|]; [|constructor].
      constructor; [|constructor]. unfold item_sub, sub_ok. cbn [fst snd]. intros s Hm.
      rewrite <- app_assoc. cbn [app]. apply Hs. now apply qmatch_cons_same.
Qed.

Lemma query_visits_match c qr v : query_visits c qr = Some v -> qmatch qr [] = true.
Proof.
  unfold query_visits. destruct c; try discriminate. destruct qr as [|k [|? ?]]; try discriminate; auto.
  cbn. destruct (is_glob k); [reflexivity|discriminate].
Qed.

(** one step of the thread itself *)
Lemma TI_tstep (sn : path -> Z -> Prop) h t h' t' :
  tstep_gen false h t = Some (h', t') -> TI sn t ->
  (forall t0 pre qr acc fr v, tpc t = PQRead t0 pre qr acc fr ->
      query_visits (get_cont h t0) qr = Some v -> sn pre v) ->
  TI sn t'.
Proof.
  intros ST [Htop HQ] Hpres. pose proof (tstep_shape _ _ _ _ _ ST) as SH.
  destruct t as [o p hs]. cbn [top tpc held] in *. subst o.
  destruct p as [o'|r| | | | | | | | | | | | | | | | | | | | |t0 pre qr acc fr|t0 pre qr acc fr|pre v acc fr|acc fr| | | | | | | | ];
    cbn [QI] in HQ; try contradiction.
  - (* PStart *)
    subst o'. cbn [lockop_of tpc] in SH. destruct SH as [_ ->]. split; [reflexivity|].
    cbn. split; [|split; [constructor|intros p v []]]. intros s Hm. exact Hm.
  - (* PDone: no step *)
    unfold tstep_gen in ST. cbn in ST. discriminate.
  - (* PQEnter: RLock *)
    cbn [lockop_of tpc] in SH. destruct SH as (_ & _ & ->). split; [reflexivity|exact HQ].
  - (* PQRead *)
    cbn [lockop_of tpc] in SH. destruct SH as [_ ->]. split; [reflexivity|].
    destruct HQ as (Hs & Hfr & Hacc). cbn [top tpc held local_step snd].
    destruct (query_visits (get_cont h t0) qr) as [v|] eqn:QV; cbn [snd visit_override QI].
    + split; [|split; [eapply Hpres; eauto|split; [constructor; [constructor|exact Hfr]|exact Hacc]]].
      pose proof (Hs [] (query_visits_match _ _ _ QV)) as H. now rewrite app_nil_r in H.
    + split; [|exact Hacc]. constructor; [now apply query_items_sub|exact Hfr].
  - (* PQVisit *)
    cbn [lockop_of tpc] in SH. destruct SH as [_ ->]. split; [reflexivity|].
    destruct HQ as (Hm & Hsn & Hfr & Hacc). cbn [top tpc held local_step snd visit_override QI].
    split; [exact Hfr|]. intros p v' Hin. apply in_app_iff in Hin as [Hin|[E|[]]]; [now apply Hacc|].
    inversion E; subst. auto.
  - (* PQNext *)
    destruct HQ as (Hfr & Hacc). destruct fr as [|[|[[c pre] qr] todo] fr].
    + cbn [lockop_of tpc] in SH. destruct SH as [_ ->]. split; [reflexivity|exact Hacc].
    + cbn [lockop_of tpc] in SH. destruct SH as (n & m & hs' & _ & _ & ->).
      split; [reflexivity|]. cbn [tpc top after_lock QI].
      inversion Hfr; subst. auto.
    + cbn [lockop_of tpc] in SH. destruct SH as [_ ->]. split; [reflexivity|].
      cbn [top tpc held local_step snd visit_override QI].
      inversion Hfr as [|? ? Hl Hfr']; subst. inversion Hl as [|? ? Hit Htodo]; subst.
      split; [exact Hit|]. split; [constructor; assumption|exact Hacc].
Qed.

End QInv.

(** the invariant along a run, for the thread that executes the Query *)
Theorem query_thread_inv ops q s1 sts s2 i t1 :
  forallb no_hupd_op ops = true -> reach ops s1 ->
  nth_error (thr s1) i = Some t1 -> tpc t1 = PStart (CQuery q None) ->
  lrun s1 sts s2 ->
  exists t2, nth_error (thr s2) i = Some t2 /\ TI q (seen sts) t2.
Proof.
  intros Q R1 E1 P1 Hrun. induction Hrun as [s|s1 l s j s' Hr IH Hst].
  - exists t1. split; [exact E1|]. split.
    + destruct (Forall_nth_error _ _ _ _ (reach_fam_ok _ _ R1) E1) as [_ S1]. symmetry. now apply S1.
    + rewrite P1. reflexivity.
  - destruct (IH R1 E1) as (t & Et & HT).
    assert (Rs : reach ops s) by (eapply lrun_reach; eauto).
    assert (Hmono : forall p v, seen l p v -> seen (s' :: l) p v).
    { intros p v (x & Hx & Hv). exists x. split; [now right|exact Hv]. }
    pose proof Hst as Hst0. unfold step, step_gen in Hst.
    destruct (nth_error (thr s) j) as [tj|] eqn:Ej; [|discriminate].
    destruct (tstep_gen false (hp s) tj) as [[h' tj']|] eqn:Ets; [|discriminate].
    inversion Hst; subst s'. cbn [thr].
    destruct (Nat.eq_dec j i) as [->|D].
    + rewrite Et in Ej. inversion Ej; subst tj. exists tj'.
      split; [eapply nth_error_set_nth_eq; eauto|].
      eapply TI_tstep; [exact Ets|eapply TI_mono; [exact Hmono|exact HT]|].
      intros t0 pre qr acc fr v Pc QV.
      destruct (query_reports_present_D ops s i t t0 pre qr acc fr v Q Rs Et Pc QV) as [Habs _].
      exists s. split; [right; eapply lrun_last_in; eauto|exact Habs].
    + exists t. split; [rewrite nth_error_set_nth_neq by auto; exact Et|].
      eapply TI_mono; [exact Hmono|exact HT].
Qed.

(** * The weak query specification of C05, from the LTS *)

(** tree [tr] (C05's cache content for one target) represents LTS state [s] *)
Definition rep (nu : Z -> SM.noti) (tr : tree SM.noti) (s : state) : Prop :=
  forall p, lookup tr p = option_map nu (absf (hp s) p).

(** [l] is what a Query call returned in a run of the ctree LTS all of whose
    states, from the invocation to the return, are represented in [trs] *)
Definition ctree_query_run (nu : Z -> SM.noti) (trs : list (tree SM.noti)) (q : path)
  (l : list (path * SM.noti)) : Prop :=
  exists ops s1 sts s2 i t1 t2 acc,
    forallb no_hupd_op ops = true /\ reach ops s1 /\ lrun s1 sts s2 /\
    nth_error (thr s1) i = Some t1 /\ tpc t1 = PStart (CQuery q None) /\
    nth_error (thr s2) i = Some t2 /\ tpc t2 = PDone (XLeaves acc) /\
    l = map (fun pv => (fst pv, nu (snd pv))) acc /\
    (forall s, In s sts -> exists tr, In tr trs /\ rep nu tr s).

Theorem ctree_query_run_weak nu trs q l :
  ctree_query_run nu trs q l -> SPf.weak_query trs q l.
Proof.
  intros (ops & s1 & sts & s2 & i & t1 & t2 & acc & Q & R1 & Hrun & E1 & P1 & E2 & P2 & -> & Hrep).
  split.
  - (* soundness: C10 clause (1) at every visit + the invariant *)
    intros p v Hin. apply in_map_iff in Hin as ([p' z] & E & Hin). cbn [fst snd] in E. inversion E; subst p' v.
    destruct (query_thread_inv ops q s1 sts s2 i t1 Q R1 E1 P1 Hrun) as (t & Et & _ & HQ).
    rewrite E2 in Et. inversion Et; subst t. rewrite P2 in HQ. cbn [QI] in HQ.
    destruct (HQ p z Hin) as (Hm & s & Hs & Habs). split; [exact Hm|].
    destruct (Hrep s Hs) as (tr & Htr & Hr). exists tr. split; [exact Htr|]. now rewrite Hr, Habs.
  - (* completeness: C10 clause (2) *)
    intros p Hm Hall.
    assert (Hst : steps_all (fun s => absf (hp s) p <> None) s1 s2).
    { eapply lrun_steps_all; [exact Hrun|]. intros s Hs Habs.
      destruct (Hrep s Hs) as (tr & Htr & Hr). apply (Hall tr Htr). now rewrite Hr, Habs. }
    pose proof (query_reports_all_D ops s1 s2 i t1 t2 q acc p Q R1 Hst E1 P1 E2 P2 Hm) as Hin.
    apply in_map_iff in Hin as ([p' z] & E & Hin). cbn [fst] in E. subst p'.
    exists (nu z). apply in_map_iff. exists (p, z). auto.
Qed.

(** * The ONCE / POLL walk *)

(** the walk of processSubscription in which every per-tree query is a Query
    call in a run of the ctree LTS of that target's tree (concurrent Add /
    Delete / Query / GetLeafValue / Leaf.Value calls, any schedule), and [hist]
    holds, per target, a representative of every state those runs pass through *)
Inductive lts_walk (nu : Z -> SM.noti) (hist : list SM.cache) (names : list string)
  (pf : option SM.gpath) : list (option SM.gpath) -> list SM.resp -> Prop :=
| lw_nil : lts_walk nu hist names pf [] []
| lw_cons sp full r parts rest :
    SM.complete_path pf sp = Some full ->
    Forall2 (fun t l => ctree_query_run nu (SPf.trees_of hist t) full l) names parts ->
    lts_walk nu hist names pf r rest ->
    lts_walk nu hist names pf (sp :: r)
             (map (fun pv => SM.RUpd (snd pv)) (List.concat parts) ++ rest).

Theorem lts_walk_is_conc_walk nu hist names pf subs ups :
  lts_walk nu hist names pf subs ups -> SPf.conc_walk hist names pf subs ups.
Proof.
  induction 1 as [|sp full r parts rest Hc Hq _ IH]; [constructor|].
  econstructor; [exact Hc| |exact IH].
  exact (Forall2_impl_glue _ _ _ _ (fun t l H => ctree_query_run_weak nu _ _ _ H) Hq).
Qed.

(** C05's conclusion without the assumed specification *)
Theorem once_weak_from_ctree_lts nu hist names pf subs ups :
  lts_walk nu hist names pf subs ups ->
  (forall n, In (SM.RUpd n) ups ->
     exists c t tr p sp full,
       In c hist /\ In t names /\ assoc t c = Some tr /\ lookup tr p = Some n
       /\ In sp subs /\ SM.complete_path pf sp = Some full /\ qmatch full p = true)
  /\ (forall t p sp full,
        In t names -> In sp subs -> SM.complete_path pf sp = Some full -> qmatch full p = true ->
        (forall tr, In tr (SPf.trees_of hist t) -> lookup tr p <> None) ->
        exists n c tr, In (SM.RUpd n) ups /\ In c hist /\ assoc t c = Some tr /\ lookup tr p = Some n)
  /\ ~ In SM.RSync ups.
Proof. intros H. apply SPf.once_weak_partial. exact (lts_walk_is_conc_walk nu _ _ _ _ _ H). Qed.

(** * Non-vacuity: a run of the LTS, its history, the walk *)

Fixpoint run_states (s : state) (sch : list nat) (acc : list state) : list state * state :=
  match sch with
  | [] => (acc, s)
  | i :: r => match step s i with
              | Some s' => run_states s' r (s' :: acc)
              | None => (acc, s)
              end
  end.

Lemma run_states_lrun sch : forall s1 l s,
  lrun s1 l s -> lrun s1 (fst (run_states s sch l)) (snd (run_states s sch l)).
Proof.
  induction sch as [|i r IH]; intros s1 l s H; [exact H|]. cbn [run_states].
  destruct (step s i) as [s'|] eqn:E; [|exact H]. apply IH. econstructor; eauto.
Qed.

Definition ex_ops : list cop := [CAdd ["a"%string] 5; CQuery ["a"%string] None].
(** thread 0 adds a = 5 and returns; thread 1 has not started *)
Definition ex_s1 : state := run_sched (init_state ex_ops) (repeat 0%nat 12).
Definition ex_run := run_states ex_s1 (repeat 1%nat 20) [ex_s1].

Definition ex_nu (z : Z) : SM.noti := SM.NT z (SM.GP "dev" "" []) [(SM.GP "" "" [("a"%string, [])], z)] [] false.
Definition ex_tr : tree SM.noti := Some (Branch [("a"%string, Leaf (ex_nu 5))]).

Lemma absf_single h n :
  get_cont h 0 = CBranch [("a"%string, n)] -> get_cont h n = CLeaf 5 ->
  forall p, absf h p = if path_eqb p ["a"%string] then Some 5%Z else None.
Proof.
  intros H0 Hn p. unfold absf. destruct p as [|k r]; cbn [resolve path_eqb].
  - rewrite H0. reflexivity.
  - rewrite H0. cbn [assoc fst snd]. destruct (String.eqb k "a"); cbn [andb]; [|reflexivity].
    destruct r as [|k2 r]; cbn [resolve path_eqb].
    + now rewrite Hn.
    + now rewrite Hn.
Qed.

Lemma ex_rep s :
  get_cont (hp s) 0 = CBranch [("a"%string, 1%nat)] -> get_cont (hp s) 1 = CLeaf 5 -> rep ex_nu ex_tr s.
Proof.
  intros H0 H1 p. rewrite (absf_single _ _ H0 H1). unfold ex_tr. cbn [lookup].
  destruct p as [|k r]; [reflexivity|]. rewrite CTreeProofs.lookup_branch_cons. cbn [assoc fst snd path_eqb].
  destruct (String.eqb k "a"); cbn [andb]; [|reflexivity].
  destruct r as [|k2 r]; reflexivity.
Qed.

Example ex_query_run :
  ctree_query_run ex_nu [ex_tr] ["a"%string] [(["a"%string], ex_nu 5)].
Proof.
  exists ex_ops, ex_s1, (fst ex_run), (snd ex_run), 1%nat.
  eexists _, _, [(["a"%string], 5%Z)].
  split; [reflexivity|]. split; [apply reach_run_sched|].
  split; [apply run_states_lrun; constructor|].
  split; [vm_compute; reflexivity|]. split; [reflexivity|].
  split; [vm_compute; reflexivity|]. split; [reflexivity|]. split; [reflexivity|].
  intros s Hs. exists ex_tr. split; [left; reflexivity|].
  assert (F : Forall (fun s => get_cont (hp s) 0 = CBranch [("a"%string, 1%nat)] /\ get_cont (hp s) 1 = CLeaf 5)
                     (fst ex_run)) by (vm_compute; repeat constructor).
  rewrite Forall_forall in F. destruct (F s Hs) as [F0 F1]. apply ex_rep; assumption.
Qed.

Example ex_lts_walk :
  lts_walk ex_nu [[("dev"%string, ex_tr)]] ["dev"%string] (Some (SM.GP "dev" "" []))
           [Some (SM.GP "" "" [("a"%string, [])])] [SM.RUpd (ex_nu 5)].
Proof.
  apply (lw_cons ex_nu _ _ _ _ ["a"%string] [] [[(["a"%string], ex_nu 5)]] []);
    [reflexivity| |constructor].
  constructor; [exact ex_query_run|constructor].
Qed.

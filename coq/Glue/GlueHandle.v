(** Glue: "the sender reads the leaf at send time" -- StreamLts's leaf handles
    (C04, C08) against the handle layer of CTree/CTreeHandle.v (C09, round 5v).

    StreamLts: a subscriber's queue holds leaf HANDLES ([ILeaf l], an index in
    [st_leaves]); the response is built at [LRead] from what the handle holds
    THEN ([build]).  Writers update the handle's content in place while the
    leaf is attached ([st_tree]), a delete detaches it (the handle keeps its
    last content), a later write at the same path makes a NEW handle.

    CTreeHandle: [hmstep] runs handle slots next to the tree model: [HHold]
    takes a handle on a stored leaf, [HValue] reads it -- [HLive p]: the
    current value at [p]; [HStale p e v]: detached by tree operation number
    [e], holding [v] for good.

    The handle layer's tree is a [tree Z] and its conditional delete tests the
    stored number ([CLt k]); StreamLts's conditional delete tests the leaf's
    TIMESTAMP.  So the exact simulation is on the timestamp component: the
    handle-layer tree is [ts_tree tr] (the timestamps of the ctree [tr] that
    GlueCacheStream relates to StreamLts by [Rs]), an accepted [WUpd (name :: p)
    v ts] is [OAdd p ts], [WDel (name :: d) ts _] is [ODelete d (CLt ts)],
    [WDelSub (name :: d)] is [ODelete d CAll], writes to other targets and
    rejected writes are no operation.  Proved for all inputs:

      [stream_hold_at_enqueue]     a handle [l] attached at [name :: p] IS what
                                   [HHold s p] takes ([HLive p], related by [hrel])
      [stream_write_handle_step]   one [write] (any operation, any target, any
                                   outcome) = the corresponding [hmstep]s: the
                                   trees stay related and the slot evolves as
                                   the handle does (live stays live or is
                                   detached with its last timestamp; detached
                                   stays as it is)
      [stream_writes_handle_run]   any sequence of writes between enqueue and send
      [stream_read_is_handle_value] [build st (ILeaf l) d = RUpd _ _ ts _] reads
                                   [HValue]: the current timestamp if live, the
                                   last one if detached.

    The VALUE component of the handle's content shares the slot (same handle,
    same liveness, same detachment step) but is not an [hmstep] run, because
    the layer cannot express "delete what is older than ts" on a tree of
    values; [stream_handle_value_kept] states the part that does not depend on
    it: once detached, no write changes what the handle holds (either
    component). *)
From Gnmi Require Import Base.Prelude CTree.CTreeModel CTree.CTreeProofs CTree.CTreeTheorems
  CTree.CTreeCheck CTree.CTreeHandle CTree.CTreeHandleProofs.
From Gnmi Require Subscribe.SubModel Stream.StreamLts Stream.StreamProofs.
From Gnmi Require Import Glue.GluePath Glue.GlueTree Glue.GlueCacheSub Glue.GlueCacheStream.
Open Scope string_scope.
Open Scope list_scope.
Open Scope Z_scope.

Module S := StreamLts.
Module SP := StreamProofs.

(** the handle-layer tree: the timestamps of the related ctree *)
Definition ts_tree (tr : tree SubModel.noti) : tree Z := tmap SubModel.n_ts tr.

Definition hrun (st : tree Z * hpart) (hs : list hop) : tree Z * hpart :=
  fold_left (fun s h => fst (hmstep s h)) hs st.

(** handle [l] of StreamLts is what slot [h] describes *)
Definition hrel (st : S.state) (name : string) (l : nat) (h : hslot) : Prop :=
  match h with
  | HNone => False
  | HLive p => S.tlookup (name :: p) (S.st_tree st) = Some l
  | HStale _ _ v =>
      (forall P, S.tlookup P (S.st_tree st) <> Some l) /\
      exists P c, nth_error (S.st_leaves st) l = Some (P, c) /\ snd c = v
  end.

(** * Taking the handle (enqueue time) and reading it (send time) *)

Lemma Rs_ts_lookup st name tr p :
  Rs st name tr -> lookup (ts_tree tr) p = option_map snd (S.cache_at st (name :: p)).
Proof.
  intros [_ HR]. unfold ts_tree. rewrite lookup_map, HR.
  destruct (S.cache_at st (name :: p)); reflexivity.
Qed.

Lemma attached_content st P l :
  SP.GInv st -> S.tlookup P (S.st_tree st) = Some l ->
  exists c, nth_error (S.st_leaves st) l = Some (P, c) /\ S.cache_at st P = Some c.
Proof.
  intros G Hl. pose proof (SP.tlookup_leaf st P l G Hl) as Hp. unfold S.leaf_path in Hp.
  destruct (nth_error (S.st_leaves st) l) as [[P' c]|] eqn:E; [|discriminate].
  cbn in Hp. inversion Hp; subst P'. exists c. split; [reflexivity|].
  unfold S.cache_at, S.leaf_cont. now rewrite Hl, E.
Qed.

Theorem stream_hold_at_enqueue st name tr k rest l sl n s :
  SP.GInv st -> Rs st name tr ->
  S.tlookup (name :: k :: rest) (S.st_tree st) = Some l ->
  hmstep (ts_tree tr, (sl, n)) (HHold s (k :: rest)) =
    ((ts_tree tr, (sset sl s (HLive (k :: rest)), n)), RBool true) /\
  hrel st name l (HLive (k :: rest)).
Proof.
  intros G HRs Hl. split; [|exact Hl].
  cbn [hmstep]. rewrite (Rs_ts_lookup st name tr (k :: rest) HRs).
  destruct (attached_content st _ l G Hl) as (c & _ & ->). reflexivity.
Qed.

Theorem stream_read_is_handle_value st name tr l h n d P v ts :
  SP.GInv st -> Rs st name tr -> hrel st name l h ->
  S.build st (S.ILeaf l) d = Some (S.RUpd P v ts d) ->
  hmstep (ts_tree tr, ([h], n)) (HValue 0) = ((ts_tree tr, ([h], n)), RKind (KLeaf ts)).
Proof.
  intros G HRs Hh Hb. cbn [S.build] in Hb.
  destruct (nth_error (S.st_leaves st) l) as [[P' [v' ts']]|] eqn:E; [|discriminate].
  inversion Hb; subst P' v' ts'. clear Hb.
  destruct h as [|p|p e x]; cbn [hrel] in Hh; [contradiction| |].
  - cbn [hmstep sget nth]. rewrite (Rs_ts_lookup st name tr p HRs).
    destruct (attached_content st _ l G Hh) as (c & Hc & ->). rewrite E in Hc. inversion Hc; subst. reflexivity.
  - destruct Hh as (_ & P' & c & Hc & Hx). rewrite E in Hc. inversion Hc; subst. reflexivity.
Qed.

(** * One write *)

(** the shape of the state after a write *)
Lemma write_shape h st w o st' res :
  S.write h st w o = Some (st', res) ->
  match o with
  | S.WUpd P v ts =>
      S.target_ok P = true /\
      ((res <> S.WOk /\ st' = st) \/
       (res = S.WOk /\ exists l0, S.tlookup P (S.st_tree st) = Some l0 /\
          S.st_tree st' = S.st_tree st /\
          S.st_leaves st' = S.upd_nth l0 (fun pc => (fst pc, (v, ts))) (S.st_leaves st) /\
          exists f, st' = S.mkState (S.st_leaves st') (S.st_dels st) (S.st_tree st) (S.set_feed st w f)
                                   (S.st_subs st) (S.st_locks st)) \/
       (res = S.WOk /\ S.tlookup P (S.st_tree st) = None /\ S.conflicts st P = false /\
          st' = S.mkState (S.st_leaves st ++ [(P, (v, ts))]) (S.st_dels st)
                          (S.st_tree st ++ [(P, List.length (S.st_leaves st))])
                          (S.set_feed st w [S.ILeaf (List.length (S.st_leaves st))])
                          (S.st_subs st) (S.st_locks st)))
  | S.WDel D ts order =>
      S.target_ok D = true /\ res = S.WOk /\
      exists dels' feeds',
        st' = S.mkState (S.st_leaves st) dels'
                (S.remove_paths (S.reorder order (S.victims st D (fun c => snd c <? ts))) (S.st_tree st))
                feeds' (S.st_subs st) (S.st_locks st)
  | S.WDelSub D =>
      S.target_ok D = true /\ res = S.WOk /\
      exists dels' feeds',
        st' = S.mkState (S.st_leaves st) dels'
                (S.remove_paths (S.victims st D (fun _ => true)) (S.st_tree st))
                feeds' (S.st_subs st) (S.st_locks st)
  end.
Proof.
  unfold S.write. destruct o as [P v ts|D ts order|D].
  - destruct (S.target_ok P) eqn:Hok; [|cbn; discriminate].
    destruct (negb (true && S.star_free P && negb (Nat.eqb (List.length P) 1))); [discriminate|].
    destruct (S.h_agree h && negb (S.agree_on st P)); [discriminate|].
    destruct (S.tlookup P (S.st_tree st)) as [l0|] eqn:Hl.
    + destruct (S.leaf_cont st l0) as [[v0 ts0]|]; [|discriminate].
      destruct (ts <? ts0); [intros [= <- <-]; split; [reflexivity|left; split; [discriminate|reflexivity]]|].
      destruct ((ts =? ts0) && (v =? v0)); [intros [= <- <-]; split; [reflexivity|left; split; [discriminate|reflexivity]]|].
      intros [= <- <-]. split; [reflexivity|]. right. left. split; [reflexivity|].
      exists l0. cbn [S.st_tree S.st_leaves]. repeat split. eexists. reflexivity.
    + destruct (S.conflicts st P) eqn:Hc; [intros [= <- <-]; split; [reflexivity|left; split; [discriminate|reflexivity]]|].
      intros [= <- <-]. split; [reflexivity|]. right. right. auto.
  - destruct (S.target_ok D) eqn:Hok; [|cbn; discriminate]. cbn [negb].
    destruct (S.tree_locked st (S.target_of D)); [discriminate|].
    intros [= <- <-]. split; [reflexivity|]. split; [reflexivity|]. eexists _, _. reflexivity.
  - destruct (S.target_ok D) eqn:Hok; [|cbn; discriminate].
    destruct (negb (true && S.star_free D)); [discriminate|].
    destruct (S.tree_locked st (S.target_of D)); [discriminate|].
    intros [= <- <-]. split; [reflexivity|]. split; [reflexivity|]. eexists _, _. reflexivity.
Qed.

(** the handle-layer operations one write stands for, seen from target [name] *)
Definition hops_of (name : string) (o : S.wop) (res : S.wres) : list hop :=
  match o with
  | S.WUpd (t :: p) v ts =>
      match res with
      | S.WOk => if String.eqb t name then [HOp (OAdd p ts)] else []
      | _ => []
      end
  | S.WDel (t :: d) ts _ => if String.eqb t name then [HOp (ODelete d (CLt ts))] else []
  | S.WDelSub (t :: d) => if String.eqb t name then [HOp (ODelete d CAll)] else []
  | _ => []
  end.

Lemma stale_by_nil n h : stale_by n [] h = h.
Proof. destruct h; reflexivity. Qed.

Lemma hrel_valid st name l h : SP.GInv st -> hrel st name l h -> (l < List.length (S.st_leaves st))%nat.
Proof.
  intros G Hh. apply nth_error_Some. destruct h as [|p|p e x]; cbn in Hh; [contradiction| |].
  - destruct (attached_content st _ l G Hh) as (c & -> & _). discriminate.
  - destruct Hh as (_ & P & c & -> & _). discriminate.
Qed.

(** ** accepted update *)

Lemma hrel_upd_existing st name l h l0 P c feeds' :
  SP.GInv st -> S.tlookup P (S.st_tree st) = Some l0 -> hrel st name l h ->
  hrel (S.mkState (S.upd_nth l0 (fun pc => (fst pc, c)) (S.st_leaves st)) (S.st_dels st) (S.st_tree st)
                  feeds' (S.st_subs st) (S.st_locks st)) name l h.
Proof.
  intros G Hl0 Hh. destruct h as [|p|p e x]; cbn [hrel S.st_tree S.st_leaves] in *; [contradiction|exact Hh|].
  destruct Hh as (Hno & P' & c' & Hc & Hx). split; [exact Hno|].
  exists P', c'. split; [|exact Hx].
  rewrite SP.nth_error_upd_nth_neq; [exact Hc|]. intros ->. now apply (Hno P).
Qed.

Lemma hrel_upd_new st name l h P c feeds' :
  SP.GInv st -> hrel st name l h ->
  hrel (S.mkState (S.st_leaves st ++ [(P, c)]) (S.st_dels st)
                  (S.st_tree st ++ [(P, List.length (S.st_leaves st))]) feeds'
                  (S.st_subs st) (S.st_locks st)) name l h.
Proof.
  intros G Hh. pose proof (hrel_valid st name l h G Hh) as Hlt.
  destruct h as [|p|p e x]; cbn [hrel S.st_tree S.st_leaves] in *; [contradiction| |].
  - rewrite SP.tlookup_app, Hh. reflexivity.
  - destruct Hh as (Hno & P' & c' & Hc & Hx). split.
    + intros Q. rewrite SP.tlookup_app. destruct (S.tlookup Q (S.st_tree st)) as [l'|] eqn:E.
      * intros [= ->]. now apply (Hno Q).
      * cbn [S.tlookup]. destruct (path_eqb P Q); [|discriminate]. intros [= <-]. lia.
    + exists P', c'. split; [|exact Hx]. now apply SP.nth_error_app_l.
Qed.

(** ** deletes (conditional or not) *)

Section DelStep.
Variables (st : S.state) (name t : string) (d : path) (condZ : Z -> bool) (cn : cnd)
          (vs : list (path * nat)) (dels' : list (path * Z)) (feeds' : list (list S.item)).
Hypothesis G : SP.GInv st.
Hypothesis Hstar : S.is_star t = false.
Hypothesis Hcn : forall z, cnd_eval cn z = condZ z.
Hypothesis Hvs : forall x, In x vs <-> In x (S.victims st (t :: d) (fun c => condZ (snd c))).

Let st' := S.mkState (S.st_leaves st) dels' (S.remove_paths vs (S.st_tree st)) feeds'
                     (S.st_subs st) (S.st_locks st).

Lemma del_tlookup P :
  S.tlookup P (S.st_tree st') =
  match S.tlookup P (S.st_tree st) with
  | Some l0 => if S.covers (t :: d) P &&
                  match S.leaf_cont st l0 with Some c => condZ (snd c) | None => false end
               then None else Some l0
  | None => None
  end.
Proof.
  unfold st'. cbn [S.st_tree]. rewrite SP.tlookup_remove_paths.
  rewrite (vs_path_hit st t d (fun c => condZ (snd c)) vs G Hvs P).
  destruct (S.tlookup P (S.st_tree st)); reflexivity.
Qed.

(** what becomes of a slot *)
Definition slot_after_del (n : nat) (l : nat) (h : hslot) : hslot :=
  match h with
  | HLive p =>
      if String.eqb t name && qmatch d p
      then match S.leaf_cont st l with
           | Some c => if condZ (snd c) then HStale p n (snd c) else h
           | None => h
           end
      else h
  | _ => h
  end.

Lemma hrel_del n l h : hrel st name l h -> hrel st' name l (slot_after_del n l h).
Proof.
  intros Hh. destruct h as [|p|p e x]; cbn [hrel slot_after_del] in *; [contradiction| |].
  - destruct (attached_content st _ l G Hh) as (c & Hc & _).
    assert (Hlc : S.leaf_cont st l = Some c) by (unfold S.leaf_cont; now rewrite Hc).
    rewrite Hlc.
    assert (Hcov : S.covers (t :: d) (name :: p) = String.eqb t name && qmatch d p).
    { destruct (String.eqb_spec t name) as [->|Hne].
      - now rewrite covers_same_target.
      - rewrite (covers_other_target t d Hstar name p); [reflexivity|congruence]. }
    destruct (String.eqb t name && qmatch d p) eqn:Hq; [destruct (condZ (snd c)) eqn:Hcd|].
    + (* detached now *)
      cbn [hrel]. split.
      * intros Q. rewrite del_tlookup.
        destruct (S.tlookup Q (S.st_tree st)) as [l0|] eqn:EQ; [|discriminate].
        destruct (Nat.eq_dec l0 l) as [->|Hne].
        -- pose proof (SP.tlookup_leaf st Q l G EQ) as H1. pose proof (SP.tlookup_leaf st _ l G Hh) as H2.
           rewrite H1 in H2. inversion H2; subst Q. rewrite Hcov, Hlc, Hcd. cbn. congruence.
        -- destruct (S.covers (t :: d) Q && _); congruence.
      * exists (name :: p), c. split; [exact Hc|reflexivity].
    + cbn [hrel]. rewrite del_tlookup, Hh, Hlc, Hcd, andb_false_r. reflexivity.
    + cbn [hrel]. rewrite del_tlookup, Hh, Hcov. reflexivity.
  - destruct Hh as (Hno & P' & c' & Hc & Hx). split.
    + intros Q. rewrite del_tlookup. destruct (S.tlookup Q (S.st_tree st)) as [l0|] eqn:EQ; [|discriminate].
      destruct (S.covers (t :: d) Q && _); [congruence|]. intros [= ->]. now apply (Hno Q).
    + exists P', c'. auto.
Qed.

(** the same target: the tree and the handle-layer step *)
Lemma Rs_del tr : Rs st name tr -> t = name ->
  Rs st' name (fst (delete_cond tr d (fun old => condZ (SubModel.n_ts old)))).
Proof.
  intros [Hwf HR] ->. destruct (delete_spec tr d (fun old => condZ (SubModel.n_ts old)) Hwf) as (Hwf' & Hl & _).
  split; [exact Hwf'|]. intros q. rewrite Hl, HR.
  unfold st'. rewrite (content_after_remove st name d (fun c => condZ (snd c)) vs G Hvs dels' feeds').
  unfold sel. rewrite (covers_same_target name d q).
  destruct (S.cache_at st (name :: q)) as [c|]; [|reflexivity]. cbn [option_map SubModel.n_ts s_noti].
  destruct (qmatch d q && condZ (snd c)); reflexivity.
Qed.

Lemma Rs_del_other tr : Rs st name tr -> t <> name -> Rs st' name tr.
Proof.
  intros [Hwf HR] Hne. split; [exact Hwf|]. intros q. rewrite HR.
  unfold st'. rewrite (content_after_remove st t d (fun c => condZ (snd c)) vs G Hvs dels' feeds').
  rewrite (covers_other_target t d Hstar name q); [|congruence].
  destruct (S.cache_at st (name :: q)); reflexivity.
Qed.

Lemma hmstep_del tr n l h :
  Rs st name tr -> hrel st name l h -> t = name ->
  fst (hmstep (ts_tree tr, ([h], n)) (HOp (ODelete d cn))) =
  (ts_tree (fst (delete_cond tr d (fun old => condZ (SubModel.n_ts old)))), ([slot_after_del n l h], S n)).
Proof.
  intros HRs Hh Ht. pose proof HRs as [Hwf HR].
  cbn [hmstep fst mstep deleted_of]. unfold ts_tree.
  rewrite (delete_cond_map SubModel.n_ts (fun old => condZ (SubModel.n_ts old)) (cnd_eval cn)
             (fun v => Hcn (SubModel.n_ts v)) tr d).
  cbn [fst snd map]. f_equal. f_equal. f_equal.
  destruct h as [|p|p e x]; cbn [stale_by slot_after_del hrel] in *; try reflexivity.
  rewrite Ht, String.eqb_refl. cbn [andb].
  destruct (attached_content st _ l G Hh) as (c & Hc & Hca).
  assert (Hlc : S.leaf_cont st l = Some c) by (unfold S.leaf_cont; now rewrite Hc).
  rewrite Hlc.
  destruct (delete_spec tr d (fun old => condZ (SubModel.n_ts old)) Hwf) as (_ & _ & Hr & Hnd).
  set (del := pmap SubModel.n_ts (snd (delete_cond tr d (fun old => condZ (SubModel.n_ts old))))).
  assert (Hnd' : NoDup (map fst del)).
  { unfold del, pmap. rewrite map_map. exact Hnd. }
  assert (Hin : forall z, In (p, z) del <-> (qmatch d p = true /\ condZ (snd c) = true /\ z = snd c)).
  { intros z. unfold del, pmap. rewrite in_map_iff. split.
    - intros ([q v] & E & Hv). cbn [fst snd] in E. inversion E; subst q z.
      apply Hr in Hv as (Hl & Hq & Hcd). rewrite HR, Hca in Hl. inversion Hl; subst v.
      cbn [SubModel.n_ts s_noti] in *. auto.
    - intros (Hq & Hcd & ->). exists (p, s_noti name p c). split; [reflexivity|].
      apply Hr. split; [now rewrite HR, Hca|]. split; [assumption|exact Hcd]. }
  destruct (assoc_path del p) as [z|] eqn:Ea.
  - apply (assoc_path_In del p z Hnd') in Ea. apply Hin in Ea as (Hq & Hcd & ->).
    now rewrite Hq, Hcd.
  - destruct (qmatch d p) eqn:Hq; [|reflexivity]. destruct (condZ (snd c)) eqn:Hcd; [|reflexivity].
    assert (In (p, snd c) del) by (apply Hin; auto).
    apply (assoc_path_In del p (snd c) Hnd') in H. congruence.
Qed.

Lemma slot_after_del_other n l h : t <> name -> slot_after_del n l h = h.
Proof.
  intros Hne. destruct h; try reflexivity. cbn [slot_after_del].
  destruct (String.eqb_spec t name); [contradiction|reflexivity].
Qed.
End DelStep.

(** ** the step theorem *)

Theorem stream_write_handle_step h st w o st' res name tr l slot n :
  SP.GInv st -> Rs st name tr -> hrel st name l slot ->
  S.write h st w o = Some (st', res) ->
  exists tr' slot',
    hrun (ts_tree tr, ([slot], n)) (hops_of name o res) =
      (ts_tree tr', ([slot'], (n + List.length (hops_of name o res))%nat)) /\
    Rs st' name tr' /\ hrel st' name l slot'.
Proof.
  intros G HRs Hh Hw. pose proof (write_shape h st w o st' res Hw) as Hs.
  destruct o as [P v ts|D ts order|D].
  - (* WUpd *)
    destruct Hs as [Hok Hs]. destruct P as [|t p]; [discriminate|].
    destruct Hs as [[Hne ->]|[(-> & l0 & Hl0 & Htree & Hleaves & f & Hst)|(-> & Hnone & Hcon & ->)]].
    + (* rejected *)
      exists tr, slot. cbn [hops_of]. destruct res; try congruence;
        (split; [cbn; now rewrite Nat.add_0_r|split; assumption]).
    + (* existing leaf *)
      rewrite Hleaves in Hst. subst st'.
      pose proof (content_set_existing st l0 (t :: p) (v, ts) f w G Hl0) as Hcs.
      pose proof (hrel_upd_existing st name l slot l0 (t :: p) (v, ts) (S.set_feed st w f) G Hl0 Hh) as Hh'.
      cbn [hops_of]. destruct (String.eqb_spec t name) as [->|Hne].
      * destruct (attached_content st _ l0 G Hl0) as (c0 & _ & Hca).
        pose proof HRs as [Hwf HR].
        assert (Hlk : lookup tr p = Some (s_noti name p c0)) by now rewrite HR, Hca.
        destruct (get_leaf_add tr p _ (s_noti name p (v, ts)) (lookup_get_leaf _ _ _ Hlk)) as [tr' Hadd].
        exists tr', slot. split; [|split; [eapply Rs_after_set; eauto|exact Hh']].
        cbn [hrun fold_left hmstep fst mstep deleted_of map List.length]. unfold ts_tree.
        change ts with (SubModel.n_ts (s_noti name p (v, ts))) at 1.
        rewrite add_map, Hadd. cbn [option_map fst]. rewrite stale_by_nil.
        repeat f_equal. lia.
      * exists tr, slot. split; [cbn; now rewrite Nat.add_0_r|].
        split; [|exact Hh']. eapply Rs_frame; [| exact Hcs | exact HRs]. congruence.
    + (* new leaf *)
      pose proof (content_set_new st (t :: p) (v, ts) [S.ILeaf (List.length (S.st_leaves st))] w G Hnone) as Hcs.
      pose proof (hrel_upd_new st name l slot (t :: p) (v, ts)
                    (S.set_feed st w [S.ILeaf (List.length (S.st_leaves st))]) G Hh) as Hh'.
      cbn [hops_of]. destruct (String.eqb_spec t name) as [->|Hne].
      * pose proof HRs as [Hwf HR].
        assert (Hok' : conflict_free tr p) by now apply (conflicts_iff st name tr p G HRs).
        apply (add_ok_iff tr p (s_noti name p (v, ts)) Hwf) in Hok'.
        destruct (CTreeModel.add tr p (s_noti name p (v, ts))) as [tr'|] eqn:Hadd; [|congruence].
        exists tr', slot. split; [|split; [eapply Rs_after_set; eauto|exact Hh']].
        cbn [hrun fold_left hmstep fst mstep deleted_of map List.length]. unfold ts_tree.
        change ts with (SubModel.n_ts (s_noti name p (v, ts))) at 1.
        rewrite add_map, Hadd. cbn [option_map fst]. rewrite stale_by_nil.
        repeat f_equal. lia.
      * exists tr, slot. split; [cbn; now rewrite Nat.add_0_r|].
        split; [|exact Hh']. eapply Rs_frame; [| exact Hcs | exact HRs]. congruence.
  - (* WDel *)
    destruct Hs as (Hok & -> & dels' & feeds' & ->). destruct D as [|t d]; [discriminate|].
    assert (Hstar : S.is_star t = false) by (cbn in Hok; now apply negb_true_iff in Hok).
    set (vs := S.reorder order (S.victims st (t :: d) (fun c => snd c <? ts))).
    assert (Hvs : forall x, In x vs <-> In x (S.victims st (t :: d) (fun c => (fun z => z <? ts) (snd c))))
      by (intros x; apply In_reorder_iff).
    pose proof (hrel_del st name t d (fun z => z <? ts) vs dels' feeds' G Hstar Hvs n l slot Hh) as Hh'.
    cbn [hops_of]. destruct (String.eqb_spec t name) as [E|Hne].
    + exists (fst (delete_cond tr d (fun old => SubModel.n_ts old <? ts))), (slot_after_del st name t d (fun z => z <? ts) n l slot).
      split; [|split; [exact (Rs_del st name t d (fun z => z <? ts) vs dels' feeds' G Hstar Hvs tr HRs E)|exact Hh']].
      cbn [hrun fold_left List.length].
      rewrite (hmstep_del st name t d (fun z => z <? ts) (CLt ts) G (fun z => eq_refl) tr n l slot HRs Hh E).
      repeat f_equal. lia.
    + exists tr, slot. split; [cbn; now rewrite Nat.add_0_r|].
      split; [exact (Rs_del_other st name t d (fun z => z <? ts) vs dels' feeds' G Hstar Hvs tr HRs Hne)|].
      now rewrite (slot_after_del_other st name t d (fun z => z <? ts) n l slot Hne) in Hh'.
  - (* WDelSub *)
    destruct Hs as (Hok & -> & dels' & feeds' & ->). destruct D as [|t d]; [discriminate|].
    assert (Hstar : S.is_star t = false) by (cbn in Hok; now apply negb_true_iff in Hok).
    set (vs := S.victims st (t :: d) (fun _ => true)).
    assert (Hvs : forall x, In x vs <-> In x (S.victims st (t :: d) (fun c => (fun _ : Z => true) (snd c))))
      by (intros x; reflexivity).
    pose proof (hrel_del st name t d (fun _ => true) vs dels' feeds' G Hstar Hvs n l slot Hh) as Hh'.
    cbn [hops_of]. destruct (String.eqb_spec t name) as [E|Hne].
    + exists (fst (delete_cond tr d (fun _ => true))), (slot_after_del st name t d (fun _ => true) n l slot).
      split; [|split; [exact (Rs_del st name t d (fun _ => true) vs dels' feeds' G Hstar Hvs tr HRs E)|exact Hh']].
      cbn [hrun fold_left List.length].
      rewrite (hmstep_del st name t d (fun _ => true) CAll G (fun z => eq_refl) tr n l slot HRs Hh E).
      repeat f_equal. lia.
    + exists tr, slot. split; [cbn; now rewrite Nat.add_0_r|].
      split; [exact (Rs_del_other st name t d (fun _ => true) vs dels' feeds' G Hstar Hvs tr HRs Hne)|].
      now rewrite (slot_after_del_other st name t d (fun _ => true) n l slot Hne) in Hh'.
Qed.

(** * Any sequence of writes between enqueue and send *)

(** [wrun h name st hs st']: some sequence of writes (any writers, any
    operations, any targets, accepted or not) leads from [st] to [st'], every
    intermediate state satisfying StreamProofs.GInv (every reachable state
    does); [hs] is the handle-layer script it stands for, seen from [name] *)
Inductive wrun (h : S.hyps) (name : string) : S.state -> list hop -> S.state -> Prop :=
| wrun_nil st : wrun h name st [] st
| wrun_cons st w o st1 res hs st2 :
    SP.GInv st -> S.write h st w o = Some (st1, res) -> wrun h name st1 hs st2 ->
    wrun h name st (hops_of name o res ++ hs) st2.

Theorem stream_writes_handle_run h name st hs st' :
  wrun h name st hs st' ->
  forall tr l slot n,
    Rs st name tr -> hrel st name l slot ->
    exists tr' slot',
      hrun (ts_tree tr, ([slot], n)) hs = (ts_tree tr', ([slot'], (n + List.length hs)%nat)) /\
      Rs st' name tr' /\ hrel st' name l slot'.
Proof.
  induction 1 as [st|st w o st1 res hs st2 G Hw _ IH]; intros tr l slot n HRs Hh.
  - exists tr, slot. cbn. rewrite Nat.add_0_r. auto.
  - destruct (stream_write_handle_step h st w o st1 res name tr l slot n G HRs Hh Hw)
      as (tr1 & slot1 & Hrun1 & HRs1 & Hh1).
    destruct (IH tr1 l slot1 (n + List.length (hops_of name o res))%nat HRs1 Hh1)
      as (tr2 & slot2 & Hrun2 & HRs2 & Hh2).
    exists tr2, slot2. split; [|auto].
    unfold hrun in *. rewrite fold_left_app, Hrun1, Hrun2, app_length, Nat.add_assoc. reflexivity.
Qed.

(** enqueue, any writes, send: what the sender reads is [HValue] of the handle
    taken at enqueue time, after the corresponding handle-layer script *)
Theorem stream_read_after_writes h name st hs st' tr k rest l n d P v ts :
  SP.GInv st -> Rs st name tr ->
  S.tlookup (name :: k :: rest) (S.st_tree st) = Some l ->          (* enqueue: the leaf is attached *)
  wrun h name st hs st' -> SP.GInv st' ->
  S.build st' (S.ILeaf l) d = Some (S.RUpd P v ts d) ->             (* send: LRead *)
  snd (hmstep (hrun (fst (hmstep (ts_tree tr, ([], n)) (HHold 0 (k :: rest)))) hs) (HValue 0))
  = RKind (KLeaf ts).
Proof.
  intros G HRs Hl Hrun G' Hb.
  destruct (stream_hold_at_enqueue st name tr k rest l [] n 0%nat G HRs Hl) as [Hhold Hh].
  assert (E : fst (hmstep (ts_tree tr, ([], n)) (HHold 0 (k :: rest))) = (ts_tree tr, ([HLive (k :: rest)], n)))
    by exact (f_equal fst Hhold).
  rewrite E. clear E.
  destruct (stream_writes_handle_run h name st hs st' Hrun tr l (HLive (k :: rest)) n HRs Hh)
    as (tr' & slot' & Hr & HRs' & Hh').
  rewrite Hr. now rewrite (stream_read_is_handle_value st' name tr' l slot' _ d P v ts G' HRs' Hh' Hb).
Qed.

(** a detached handle is inert: no write changes what it holds (value and
    timestamp), whatever is written at its old path afterwards *)
Theorem stream_handle_value_kept h st w o st' res name l p e x :
  SP.GInv st -> hrel st name l (HStale p e x) ->
  S.write h st w o = Some (st', res) ->
  nth_error (S.st_leaves st') l = nth_error (S.st_leaves st) l.
Proof.
  intros G Hh Hw. pose proof (hrel_valid st name l _ G Hh) as Hlt.
  destruct Hh as (Hno & _). pose proof (write_shape h st w o st' res Hw) as Hs.
  destruct o as [P v ts|D ts order|D].
  - destruct Hs as [_ [[_ ->]|[(_ & l0 & Hl0 & _ & -> & _)|(_ & _ & _ & ->)]]].
    + reflexivity.
    + apply SP.nth_error_upd_nth_neq. intros ->. now apply (Hno P).
    + cbn [S.st_leaves]. apply nth_error_app1. exact Hlt.
  - destruct Hs as (_ & _ & dels' & feeds' & ->). reflexivity.
  - destruct Hs as (_ & _ & dels' & feeds' & ->). reflexivity.
Qed.

(** * Non-vacuity: enqueue, an update, a delete, a re-add at the same path, send *)

Definition ex_hh : S.hyps := S.mkHyps false true.

Example ex_handle_run :
  exists st1 st2 st3 st4,
    S.write ex_hh (S.init 1 []) 0%nat (S.WUpd ["dev"; "a"] 5 1) = Some (st1, S.WOk) /\
    S.tlookup ["dev"; "a"] (S.st_tree st1) = Some 0%nat /\                       (* enqueue handle 0 *)
    S.write ex_hh (S.set_feeds st1 [[]]) 0%nat (S.WUpd ["dev"; "a"] 6 2) = Some (st2, S.WOk) /\
    S.write ex_hh (S.set_feeds st2 [[]]) 0%nat (S.WDel ["dev"] 3 []) = Some (st3, S.WOk) /\
    S.write ex_hh (S.set_feeds st3 [[]]) 0%nat (S.WUpd ["dev"; "a"] 7 4) = Some (st4, S.WOk) /\
    S.build st4 (S.ILeaf 0) 0 = Some (S.RUpd ["dev"; "a"] 6 2 0) /\              (* the detached handle: last value *)
    S.cache_at st4 ["dev"; "a"] = Some (7, 4) /\                                 (* the tree: the new leaf *)
    snd (hmstep (hrun (None, ([], 0%nat))
                   [HOp (OAdd ["a"] 1); HHold 0 ["a"]; HOp (OAdd ["a"] 2);
                    HOp (ODelete [] (CLt 3)); HOp (OAdd ["a"] 4)]) (HValue 0))
    = RKind (KLeaf 2).
Proof. do 4 eexists. repeat split; vm_compute; reflexivity. Qed.

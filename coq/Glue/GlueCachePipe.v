(** Glue: the cache stage of Pipeline/PipelineModel.v (C01) against the
    authoritative cache model Cache/CacheModel.v.

    The pipeline keeps, per target, a ctree of leaf OBJECT IDS and a heap
    mapping an id to the record the leaf currently holds ([leafrec]: stamped
    prefix, path, value, timestamp); a subscriber's queue holds ids.
    CacheModel keeps a ctree of notifications.  The abstraction reads the tree
    through the heap: at every index path, CacheModel's tree holds
    [rec_notif r] exactly where the pipeline's tree holds an id whose heap
    record is [r] ([Rp], stated on [lookup]; ids are unique per leaf and below
    the allocation counter).

    Values: PipelineModel has its own typed-value type and its own two
    equality tests ([tv_equal] = value.Equal for suppression, [tv_eqb] =
    proto.Equal for the same-timestamp duplicate test).  The simulation is
    proved for ANY embedding [emb] into ValueModel's values and any class of
    values [okv] on which the embedding respects both tests (Section
    hypotheses [emb_equal], [emb_eqb]); it is instantiated for strings,
    integers, booleans, byte strings, JSON/ASCII/proto bytes and -- since
    PipelineModel's [tv_eqb] follows proto.Equal on floating point (== with
    NaN = NaN) -- floats and doubles ([scalar_emb], [scalar_ok]).

    Proved: [pipe_update_one_sim] (Target.gnmiUpdate + t.client(leaf) for one
    update): same verdict, related states afterwards, the subscriber is fed
    exactly when CacheModel announces; [pipe_delete_one_sim];
    [pipe_target_gnmi_update_sim] (one whole notification);
    [pipe_reset_roots_sim] (the root-cutting loop of Target.Reset).  The empty index path is an
    ordinary case of these theorems (it was a difference, see the end). *)
From Gnmi Require Import Base.Prelude CTree.CTreeModel CTree.CTreeProofs CTree.CTreeTheorems
  Path.PathModel Path.PathProofs Value.ValueModel Cache.CacheModel.
From Gnmi Require Pipeline.PipelineModel Subscribe.SubModel.
From Gnmi Require Import Glue.GluePath Glue.GlueTree Glue.GlueCacheSub.
Open Scope string_scope.
Open Scope list_scope.
Open Scope Z_scope.

Module P := PipelineModel.

(** * proto.Equal on paths *)

Lemma path_eqb_list_eqb a b : CacheModel.list_eqb String.eqb a b = path_eqb a b.
Proof. revert b; induction a as [|x a IH]; intros [|y b]; cbn; try reflexivity. now rewrite IH. Qed.

Lemma pipe_pelem_eqb_agree x y :
  pelem_wf (pipe_elem x) -> pelem_wf (pipe_elem y) ->
  CacheModel.pelem_eqb (pipe_elem x) (pipe_elem y) = P.pelem_eqb x y.
Proof.
  intros Hx Hy. unfold CacheModel.pelem_eqb, P.pelem_eqb, pipe_elem. cbn [fst snd].
  rewrite (keymap_eqb_sorted (P.e_keys x) (P.e_keys y) Hx Hy). reflexivity.
Qed.

Lemma pipe_list_pelem_agree a b :
  Forall pelem_wf (map pipe_elem a) -> Forall pelem_wf (map pipe_elem b) ->
  CacheModel.list_eqb CacheModel.pelem_eqb (map pipe_elem a) (map pipe_elem b) = P.list_eqb P.pelem_eqb a b.
Proof.
  revert b; induction a as [|x a IH]; intros [|y b] Ha Hb; try reflexivity.
  inversion Ha; subst. inversion Hb; subst. cbn [map CacheModel.list_eqb P.list_eqb].
  now rewrite pipe_pelem_eqb_agree, IH.
Qed.

Lemma pipe_gpath_eqb_agree a b :
  pipe_wf a -> pipe_wf b -> CacheModel.gpath_eqb (pipe_gp a) (pipe_gp b) = P.gpath_eqb a b.
Proof.
  intros Ha Hb. unfold CacheModel.gpath_eqb, P.gpath_eqb, pipe_gp.
  cbn [gp_target gp_origin gp_elems gp_element].
  rewrite pipe_list_pelem_agree by assumption. rewrite path_eqb_list_eqb.
  destruct (P.g_origin a =? P.g_origin b)%string, (P.g_target a =? P.g_target b)%string; reflexivity.
Qed.

Section Emb.
Variable emb : P.tv -> ValueModel.tv.
Variable okv : P.tv -> Prop.
Hypothesis emb_equal : forall a b, okv a -> okv b ->
  value_equal (Some (emb a)) (Some (emb b)) = P.tv_equal a b.
Hypothesis emb_eqb : forall a b, okv a -> okv b ->
  CacheModel.tv_eqb (emb a) (emb b) = P.tv_eqb a b.

(** the notification a leaf record stands for *)
Definition rec_notif (r : P.leafrec) : notif :=
  Notif (P.lr_ts r) (Some (pipe_gp (P.lr_prefix r))) None
        [Upd (Some (pipe_gp (P.lr_path r))) (Some (emb (P.lr_val r))) 0] [] false.

Definition rec_wf (r : P.leafrec) : Prop :=
  pipe_wf (P.lr_prefix r) /\ pipe_wf (P.lr_path r) /\ okv (P.lr_val r).

Lemma rec_eqb_agree a b :
  rec_wf a -> rec_wf b -> notif_eqb (rec_notif a) (rec_notif b) = P.leafrec_eqb a b.
Proof.
  intros (A1 & A2 & A3) (B1 & B2 & B3). unfold notif_eqb, P.leafrec_eqb, rec_notif.
  cbn [n_ts n_prefix n_upd n_del n_atomic ogpath_eqb CacheModel.list_eqb update_eqb u_path u_val u_dup otv_eqb].
  unfold update_eqb. cbn [u_path u_val u_dup ogpath_eqb otv_eqb Bool.eqb].
  rewrite !pipe_gpath_eqb_agree, emb_eqb by assumption. cbn [Z.eqb].
  now rewrite !andb_true_r, !andb_assoc.
Qed.

(** * The abstraction relation *)

Record Rp (w : P.wstate) (t : target) : Prop := {
  rp_wf : wf_tree (P.w_tree w);
  rp_wfT : wf_tree (t_tree t);
  rp_look : forall p, lookup (t_tree t) p =
                      match lookup (P.w_tree w) p with
                      | Some g => option_map rec_notif (P.hget (P.w_heap w) g)
                      | None => None
                      end;
  rp_heap : forall p g, lookup (P.w_tree w) p = Some g ->
                        exists r, P.hget (P.w_heap w) g = Some r /\ rec_wf r;
  rp_uniq : forall p q g, lookup (P.w_tree w) p = Some g -> lookup (P.w_tree w) q = Some g -> p = q;
  rp_fresh : forall p g, lookup (P.w_tree w) p = Some g -> (g < P.w_gen w)%nat;
  rp_cfg : cfg_ok (t_cfg t)
}.

Lemma Rp_target_ext w t t' :
  Rp w t -> t_tree t' = t_tree t -> t_cfg t' = t_cfg t -> Rp w t'.
Proof. intros [H1 H2 H3 H4 H5 H6 H7] Ht Hc. constructor; rewrite ?Ht, ?Hc; assumption. Qed.

Lemma hget_hset h g r g' : P.hget (P.hset h g r) g' = if Nat.eqb g' g then Some r else P.hget h g'.
Proof. reflexivity. Qed.

(** the id the pipeline's tree holds at the index path of an accepted update *)
Definition id_at (w : P.wstate) (p : path) : option nat := lookup (P.w_tree w) p.

Theorem pipe_update_one_sim w r t now :
  P.w_fault w = None -> Rp w t -> rec_wf r ->
  let w' := P.cache_update_one w r in
  let R := gnmi_update1 t now (rec_notif r) in
  match P.w_fault w' with
  | Some (P.FPanic 1%N) => exists x, snd R = Panic x
  | Some (P.FPanic _) => False
  | Some (P.FUnmodelled _) => True
  | None =>
      Rp w' (fst R) /\
      match snd R with
      | Ok (Some nd) =>
          nd = rec_notif r /\
          exists p g, join_prefix_and_path (pipe_gp (P.lr_prefix r)) (pipe_gp (P.lr_path r)) = Ok p /\
                      id_at w' p = Some g /\ P.hget (P.w_heap w') g = Some r /\
                      P.w_sub w' = P.feed_leaf (P.w_sub w) g (P.full_path r)
      | Ok None => P.w_sub w' = P.w_sub w
      | Err _ => w' = w
      | Panic _ => False
      end
  end.
Proof.
  intros Hf HR (Hpre & Hpath & Hval). cbv zeta.
  unfold P.cache_update_one, gnmi_update1. rewrite Hf.
  cbn [rec_notif n_upd]. unfold unit_index. cbn [n_upd n_prefix n_atomic u_path rec_notif].
  rewrite (pipe_join_eq _ _ Hpre Hpath). unfold join_path. cbn [gp_of_opt].
  destruct (join_prefix_and_path (pipe_gp (P.lr_prefix r)) (pipe_gp (P.lr_path r))) as [p|e|x] eqn:Hj.
  2:{ exfalso. unfold join_prefix_and_path in Hj.
      destruct (to_strings true (pipe_gp (P.lr_prefix r)) ++ to_strings false (pipe_gp (P.lr_path r))); discriminate. }
  2:{ cbn. rewrite Hf. cbn. eauto. }
  cbn [ok_to_option].
  destruct p as [|k rest].
  { (* empty index path: "invalid path", dropped by the pipeline, nothing changes *)
    cbn. rewrite Hf. split; [exact HR|reflexivity]. }
  unfold update_pre. change P.meta_root with "meta". change md_root with "meta".
  destruct (String.eqb k "meta") eqn:Hk.
  { cbn. rewrite Hf. exact I. }
  cbn [negb]. cbv iota. cbn [fst snd].
  unfold update_leaf.
  destruct HR as [Hwf HwfT Hlook Hheap Huniq Hfresh Hcfg].
  pose proof (Hlook (k :: rest)) as Hlk.
  set (n := Notif (P.lr_ts r) (Some (pipe_gp (P.lr_prefix r))) None
                  [Upd (Some (pipe_gp (P.lr_path r))) (Some (emb (P.lr_val r))) 0] [] false) in *.
  change n with (rec_notif r) in *. clear n.
  destruct (CTreeModel.get (P.w_tree w) (k :: rest)) as [[g|cs]|] eqn:Hget.
  - (* the leaf exists *)
    pose proof (get_leaf_lookup _ _ _ Hget) as Hlg. rewrite Hlg in Hlk.
    destruct (Hheap _ _ Hlg) as (old & Hold & Holdwf). rewrite Hold in *. cbn [option_map] in Hlk.
    rewrite (lookup_get_leaf _ _ _ Hlk).
    unfold leaf_verdict. change (n_ts (rec_notif r)) with (P.lr_ts r).
    change (n_ts (rec_notif old)) with (P.lr_ts old).
    destruct (P.lr_ts r <? P.lr_ts old) eqn:Hlt.
    { cbn. rewrite Hf. split; [|reflexivity]. constructor; assumption. }
    rewrite (future_rejected_off _ _ _ _ Hcfg), andb_false_r.
    rewrite (rec_eqb_agree old r Holdwf (conj Hpre (conj Hpath Hval))).
    destruct ((P.lr_ts r =? P.lr_ts old) && P.leafrec_eqb old r) eqn:Heq.
    { cbn. rewrite Hf. split; [|reflexivity]. constructor; assumption. }
    change (n_atomic (rec_notif r)) with false. cbv iota.
    change (n_upd (rec_notif old)) with [Upd (Some (pipe_gp (P.lr_path old))) (Some (emb (P.lr_val old))) 0].
    cbv iota. cbn [u_val]. change (n_atomic (rec_notif old)) with false.
    change defect_c03_2_atomic_suppress with false. cbn [orb negb andb].
    destruct Holdwf as (_ & _ & Holdv).
    rewrite (emb_equal _ _ Holdv Hval).
    destruct Hcfg as [Hthr Hed]. cbn [t_cfg set_tree]. rewrite Hed, andb_true_r.
    destruct (get_leaf_add (t_tree t) (k :: rest) _ (rec_notif r) (lookup_get_leaf _ _ _ Hlk)) as [T' HaddT].
    unfold tree_set. rewrite HaddT.
    destruct (add_spec _ _ _ _ HwfT HaddT) as [HwfT' HlT'].
    assert (HR' : forall sub,
              Rp {| P.w_tree := P.w_tree w; P.w_heap := P.hset (P.w_heap w) g r; P.w_gen := P.w_gen w;
                    P.w_sub := sub; P.w_fault := None |} (set_tree t T')).
    { intros sub. constructor; cbn [P.w_tree P.w_heap P.w_gen t_tree set_tree t_cfg]; try assumption.
      - intros q. rewrite HlT'. destruct (path_eqb q (k :: rest)) eqn:E.
        + apply path_eqb_eq in E. subst q. rewrite Hlg, hget_hset, Nat.eqb_refl. reflexivity.
        + rewrite Hlook. destruct (lookup (P.w_tree w) q) as [g'|] eqn:Hq; [|reflexivity].
          rewrite hget_hset. destruct (Nat.eqb_spec g' g) as [->|_]; [|reflexivity].
          rewrite (Huniq _ _ _ Hq Hlg), path_eqb_refl in E. discriminate.
      - intros q g' Hq. rewrite hget_hset. destruct (Nat.eqb_spec g' g) as [->|_].
        + exists r. split; [reflexivity|]. split; [assumption|split; assumption].
        + eapply Hheap; eauto.
      - split; assumption. }
    destruct (P.tv_equal (P.lr_val old) (P.lr_val r)); cbn [P.w_fault fst snd].
    + split; [apply (Rp_target_ext _ _ _ (HR' (P.w_sub w))); reflexivity|]. reflexivity.
    + split.
      * apply (Rp_target_ext _ _ _ (HR' (P.feed_leaf (P.w_sub w) g (P.full_path r))));
          [apply tree_lat|apply cfg_lat].
      * split; [reflexivity|]. exists (k :: rest), g. split; [reflexivity|]. split; [exact Hlg|].
        split; [cbn [P.w_heap]; now rewrite hget_hset, Nat.eqb_refl|reflexivity].
  - (* a branch is in the way *)
    assert (Hlb : lookup (P.w_tree w) (k :: rest) = None).
    { destruct (P.w_tree w) as [nd|]; [|reflexivity]. cbn [lookup CTreeModel.get] in *.
      unfold lookup_node. now rewrite Hget. }
    rewrite Hlb in Hlk.
    assert (HnoT : CTreeModel.add (t_tree t) (k :: rest) (rec_notif r) = None).
    { destruct (CTreeModel.add (t_tree t) (k :: rest) (rec_notif r)) eqn:Ha; [|reflexivity]. exfalso.
      assert (Hcf : conflict_free (t_tree t) (k :: rest))
        by (apply (add_ok_iff _ _ (rec_notif r) HwfT); congruence).
      assert (Hcf' : conflict_free (P.w_tree w) (k :: rest)).
      { intros q g' Hq. destruct (Hheap _ _ Hq) as (r' & Hr' & _).
        apply (Hcf q (rec_notif r')). rewrite Hlook, Hq, Hr'. reflexivity. }
      apply (add_ok_iff _ _ (P.w_gen w) Hwf) in Hcf'.
      now rewrite (get_branch_add _ _ _ _ Hget) in Hcf'. }
    destruct (CTreeModel.get (t_tree t) (k :: rest)) as [[v|cs']|] eqn:HgT.
    + apply get_leaf_lookup in HgT. congruence.
    + cbn. rewrite Hf. split; [constructor; assumption|reflexivity].
    + rewrite HnoT. cbn. rewrite Hf. split; [constructor; assumption|reflexivity].
  - (* nothing there *)
    assert (Hlb : lookup (P.w_tree w) (k :: rest) = None).
    { destruct (P.w_tree w) as [nd|]; [|reflexivity]. cbn [lookup CTreeModel.get] in *.
      unfold lookup_node. now rewrite Hget. }
    rewrite Hlb in Hlk.
    assert (Hcfiff : conflict_free (P.w_tree w) (k :: rest) <-> conflict_free (t_tree t) (k :: rest)).
    { split; intros Hcf q v Hq.
      - rewrite Hlook in Hq. destruct (lookup (P.w_tree w) q) as [g'|] eqn:Hq'; [|discriminate].
        eapply Hcf; eauto.
      - destruct (Hheap _ _ Hq) as (r' & Hr' & _).
        apply (Hcf q (rec_notif r')). rewrite Hlook, Hq, Hr'. reflexivity. }
    destruct (CTreeModel.add (P.w_tree w) (k :: rest) (P.w_gen w)) as [tr'|] eqn:Hadd.
    + assert (Hok : conflict_free (t_tree t) (k :: rest)).
      { apply Hcfiff. apply (add_ok_iff _ _ (P.w_gen w) Hwf). congruence. }
      apply (add_ok_iff _ _ (rec_notif r) HwfT) in Hok.
      destruct (CTreeModel.add (t_tree t) (k :: rest) (rec_notif r)) as [T'|] eqn:HaddT; [|congruence].
      destruct (CTreeModel.get (t_tree t) (k :: rest)) as [[v|cs']|] eqn:HgT.
      * apply get_leaf_lookup in HgT. congruence.
      * rewrite (get_branch_add _ _ _ _ HgT) in HaddT. discriminate.
      * destruct (add_spec _ _ _ _ Hwf Hadd) as [Hwf' Hl'].
        destruct (add_spec _ _ _ _ HwfT HaddT) as [HwfT' HlT'].
        unfold is_real. change md_root with "meta". rewrite Hk. cbn [negb P.w_fault fst snd].
        split.
        -- constructor; cbn [P.w_tree P.w_heap P.w_gen]; rewrite ?tree_lat, ?cfg_lat;
             cbn [t_tree set_tree t_cfg add_int set_meta]; try assumption.
           ++ intros q. rewrite HlT', Hl'. destruct (path_eqb q (k :: rest)).
              ** now rewrite hget_hset, Nat.eqb_refl.
              ** rewrite Hlook. destruct (lookup (P.w_tree w) q) as [g'|] eqn:Hq; [|reflexivity].
                 rewrite hget_hset. destruct (Nat.eqb_spec g' (P.w_gen w)) as [->|_]; [|reflexivity].
                 apply Hfresh in Hq. lia.
           ++ intros q g'. rewrite Hl'. destruct (path_eqb q (k :: rest)).
              ** intros [= <-]. exists r. rewrite hget_hset, Nat.eqb_refl.
                 split; [reflexivity|]. split; [assumption|split; assumption].
              ** intros Hq. rewrite hget_hset. destruct (Nat.eqb_spec g' (P.w_gen w)) as [->|_].
                 --- apply Hfresh in Hq. lia.
                 --- eapply Hheap; eauto.
           ++ intros q q' g'. rewrite !Hl'.
              destruct (path_eqb q (k :: rest)) eqn:E1; destruct (path_eqb q' (k :: rest)) eqn:E2.
              ** apply path_eqb_eq in E1, E2. congruence.
              ** intros [= <-] Hq'. apply Hfresh in Hq'. lia.
              ** intros Hq [= <-]. apply Hfresh in Hq. lia.
              ** apply Huniq.
           ++ intros q g'. rewrite Hl'. destruct (path_eqb q (k :: rest)).
              ** intros [= <-]. lia.
              ** intros Hq. apply Hfresh in Hq. lia.
        -- split; [reflexivity|]. exists (k :: rest), (P.w_gen w). split; [reflexivity|].
           unfold id_at. cbn [P.w_tree P.w_heap P.w_sub]. rewrite Hl', path_eqb_refl.
           split; [reflexivity|]. split; [now rewrite hget_hset, Nat.eqb_refl|reflexivity].
    + assert (Hno : CTreeModel.add (t_tree t) (k :: rest) (rec_notif r) = None).
      { destruct (CTreeModel.add (t_tree t) (k :: rest) (rec_notif r)) eqn:Ha; [|reflexivity]. exfalso.
        assert (Hcf : conflict_free (t_tree t) (k :: rest))
          by (apply (add_ok_iff _ _ (rec_notif r) HwfT); congruence).
        apply Hcfiff in Hcf. apply (add_ok_iff _ _ (P.w_gen w) Hwf) in Hcf. congruence. }
      destruct (CTreeModel.get (t_tree t) (k :: rest)) as [[v|cs']|] eqn:HgT.
      * apply get_leaf_lookup in HgT. congruence.
      * cbn. rewrite Hf. split; [constructor; assumption|reflexivity].
      * rewrite Hno. cbn. rewrite Hf. split; [constructor; assumption|reflexivity].
Qed.

(** * Target.gnmiRemove + toDeleteNotification + t.client for every removed leaf *)

Definition del_notif (d : P.delrec) : notif :=
  Notif (P.d_ts d) (Some (GPath (P.d_target d) (P.d_origin d) [] [])) None [] [pipe_gp (P.d_path d)] false.

Lemma pipe_path_elems g : map pipe_elem (P.path_elems g) = path_elems (pipe_gp g).
Proof.
  unfold P.path_elems, path_elems, pipe_gp. cbn [gp_elems gp_element].
  destruct (P.g_elem g) as [|e es]; [|reflexivity]. cbn [map]. rewrite map_map. reflexivity.
Qed.

Lemma to_delete_agree r ts :
  del_notif (P.to_delete r ts) = mk_delete (rec_notif r) ts (del_path (rec_notif r)).
Proof.
  assert (E1 : del_prefix (rec_notif r) =
               GPath (P.d_target (P.to_delete r ts)) (P.d_origin (P.to_delete r ts)) [] []).
  { unfold del_prefix, rec_notif, P.to_delete, P.to_delete_gen, P.str_nonempty.
    cbn [n_prefix n_upd gp_of_opt u_path P.d_target P.d_origin pipe_gp gp_target gp_origin]. reflexivity. }
  assert (E2 : del_path (rec_notif r) = pipe_gp (P.d_path (P.to_delete r ts))).
  { unfold del_path, rec_notif, P.to_delete, P.to_delete_gen. change P.defect_C01_3 with false.
    cbn [n_prefix n_upd n_atomic gp_of_opt u_path P.d_path]. rewrite <- !pipe_path_elems.
    unfold pipe_gp at 1 2 3 4. cbn [gp_elems gp_element].
    destruct (P.g_elem (P.lr_prefix r)) as [|e es], (P.g_elem (P.lr_path r)) as [|e' es'];
      cbn [map]; unfold pipe_gp; cbn [P.g_origin P.g_target P.g_elem P.g_element map];
      rewrite <- ?map_app; reflexivity. }
  unfold mk_delete, del_notif. rewrite E1, E2. reflexivity.
Qed.

(** what a pipeline leaf id stands for *)
Definition view (h : P.heap) (g : nat) : option notif := option_map rec_notif (P.hget h g).

Theorem pipe_delete_one_sim ts pre w d t :
  P.w_fault w = None -> Rp w t -> pipe_wf pre -> pipe_wf d ->
  let w' := P.cache_delete_one ts pre w d in
  let R := gnmi_remove t (Notif ts (Some (pipe_gp pre)) None [] [pipe_gp d] false) in
  match P.w_fault w' with
  | Some (P.FPanic 1%N) => exists x, snd R = Panic x
  | Some (P.FPanic _) => False
  | Some (P.FUnmodelled _) => True
  | None =>
      Rp w' (fst R) /\
      exists idx removedT,
        join_prefix_and_path (pipe_gp pre) (pipe_gp d) = Ok idx /\ snd R = Ok removedT /\
        let removedP := snd (delete_cond (P.w_tree w) idx
                               (fun g => match P.hget (P.w_heap w) g with
                                         | Some r => P.lr_ts r <? ts | None => false end)) in
        Permutation (map (fun pg => view (P.w_heap w) (snd pg)) removedP) (map Some removedT) /\
        P.w_sub w' =
          fold_left (fun s pg => match P.hget (P.w_heap w) (snd pg) with
                                 | Some old => P.feed_del s (P.to_delete old ts)
                                 | None => s
                                 end) removedP (P.w_sub w)
  end.
Proof.
  intros Hf HR Hpre Hd. cbv zeta. unfold P.cache_delete_one, gnmi_remove. rewrite Hf.
  cbn [n_del n_prefix]. rewrite (pipe_join_eq _ _ Hpre Hd). unfold join_path. cbn [gp_of_opt].
  destruct (join_prefix_and_path (pipe_gp pre) (pipe_gp d)) as [p|e|x] eqn:Hj.
  2:{ exfalso. unfold join_prefix_and_path in Hj.
      destruct (to_strings true (pipe_gp pre) ++ to_strings false (pipe_gp d)); discriminate. }
  2:{ cbn. rewrite Hf. cbn. eauto. }
  cbn [ok_to_option].
  change P.meta_root with "meta".
  destruct (match p with h :: _ => String.eqb h "meta" | [] => false end) eqn:Hm.
  { cbn. rewrite Hf. exact I. }
  cbn [P.w_fault].
  assert (Ht1 : match p with
                | p0 :: k0 :: _ => if (p0 =? md_root)%string then set_meta t (md_reset_entry (t_meta t) k0) else t
                | _ => t
                end = t).
  { destruct p as [|p0 [|k0 r0]]; try reflexivity. change md_root with "meta". now rewrite Hm. }
  rewrite Ht1.
  destruct HR as [Hwf HwfT Hlook Hheap Huniq Hfresh Hcfg].
  set (condP := fun g => match P.hget (P.w_heap w) g with Some r => P.lr_ts r <? ts | None => false end).
  set (condT := fun v : notif => n_ts v <? n_ts (Notif ts (Some (pipe_gp pre)) None [] [pipe_gp d] false)).
  destruct (delete_spec (P.w_tree w) p condP Hwf) as (HwfP' & HlP & HrP & HnP).
  destruct (delete_spec (t_tree t) p condT HwfT) as (HwfT' & HlT & HrT & HnT).
  set (rP := delete_cond (P.w_tree w) p condP) in *.
  set (rT := delete_cond (t_tree t) p condT) in *.
  assert (Hcond : forall g r0, P.hget (P.w_heap w) g = Some r0 -> condT (rec_notif r0) = condP g).
  { intros g r0 Hg. unfold condT, condP. rewrite Hg. reflexivity. }
  assert (HRp : forall sub t', t_tree t' = fst rT -> t_cfg t' = t_cfg t ->
            Rp {| P.w_tree := fst rP; P.w_heap := P.w_heap w; P.w_gen := P.w_gen w;
                  P.w_sub := sub; P.w_fault := None |} t').
  { intros sub t' Ht' Hc'.
    assert (Hsub : forall s g, lookup (fst rP) s = Some g -> lookup (P.w_tree w) s = Some g).
    { intros s g. rewrite HlP. unfold sel. destruct (lookup (P.w_tree w) s) as [g'|]; [|discriminate].
      destruct (qmatch p s && condP g'); [discriminate|auto]. }
    constructor; cbn [P.w_tree P.w_heap P.w_gen]; rewrite ?Ht', ?Hc'; try assumption.
    - intros s. rewrite HlT, HlP, Hlook. unfold sel.
      destruct (lookup (P.w_tree w) s) as [g|] eqn:Hs; [|reflexivity].
      destruct (Hheap _ _ Hs) as (r0 & Hr0 & _). rewrite Hr0. cbn [option_map].
      rewrite (Hcond _ _ Hr0). destruct (qmatch p s && condP g); [reflexivity|].
      now rewrite Hr0.
    - intros s g Hs. eapply Hheap; eauto.
    - intros s s' g H1 H2. eapply Huniq; eauto.
    - intros s g Hs. eapply Hfresh; eauto. }
  (* the removed leaves correspond *)
  assert (Hperm : Permutation (map (fun pg => view (P.w_heap w) (snd pg)) (snd rP))
                              (map Some (map snd (snd rT)))).
  { assert (Hp : Permutation (map (fun pg => (fst pg, view (P.w_heap w) (snd pg))) (snd rP))
                             (map (fun pv => (fst pv, Some (snd pv))) (snd rT))).
    { apply NoDup_Permutation.
      - apply (NoDup_map_inv fst). rewrite map_map. exact HnP.
      - apply (NoDup_map_inv fst). rewrite map_map. exact HnT.
      - intros [s o]. rewrite !in_map_iff. split.
        + intros ([s' g] & E & Hin). cbn [fst snd] in E. inversion E; subst s' o.
          apply HrP in Hin as (Hs & Hq & Hc). destruct (Hheap _ _ Hs) as (r0 & Hr0 & _).
          exists (s, rec_notif r0). split; [unfold view; cbn [fst snd]; now rewrite Hr0|].
          apply HrT. split; [rewrite Hlook, Hs, Hr0; reflexivity|]. split; [assumption|].
          now rewrite (Hcond _ _ Hr0).
        + intros ([s' v] & E & Hin). cbn [fst snd] in E. inversion E; subst s' o.
          apply HrT in Hin as (Hs & Hq & Hc). rewrite Hlook in Hs.
          destruct (lookup (P.w_tree w) s) as [g|] eqn:Hsg; [|discriminate].
          destruct (Hheap _ _ Hsg) as (r0 & Hr0 & _). rewrite Hr0 in Hs. inversion Hs; subst v.
          exists (s, g). split; [unfold view; cbn [fst snd]; now rewrite Hr0|].
          apply HrP. split; [assumption|]. split; [assumption|]. now rewrite <- (Hcond _ _ Hr0). }
    apply (Permutation_map snd) in Hp. rewrite !map_map in Hp. cbn [snd] in Hp.
    now rewrite map_map. }
  destruct (map snd (snd rT)) as [|x xs] eqn:Hrem; cbn [fst snd].
  - split; [apply HRp; reflexivity|]. exists p, []. split; [reflexivity|]. split; [reflexivity|].
    split; [exact Hperm|reflexivity].
  - split; [apply HRp; reflexivity|]. exists p, (x :: xs). split; [reflexivity|]. split; [reflexivity|].
    split; [exact Hperm|reflexivity].
Qed.

(** * Cache.Reset / Target.Reset: cutting the roots off the tree

    [P.cache_reset] deletes every root other than "meta" from the target's
    tree ([ctree.Delete [r]], no per-leaf notifications) and announces one
    delete of <root>/* each.  CacheModel.target_reset first clears and
    re-exports the metadata (which writes "meta" leaves, a subtree the
    pipeline model projects away), then does the same loop.  Related here: the
    loop itself -- deleting the same roots on both sides keeps the states
    related -- and the announcement. *)

Lemma Rp_delete_cond w t q condP condT sub :
  (forall g r0, P.hget (P.w_heap w) g = Some r0 -> condT (rec_notif r0) = condP g) ->
  Rp w t ->
  Rp {| P.w_tree := fst (delete_cond (P.w_tree w) q condP); P.w_heap := P.w_heap w;
        P.w_gen := P.w_gen w; P.w_sub := sub; P.w_fault := P.w_fault w |}
     (set_tree t (fst (delete_cond (t_tree t) q condT))).
Proof.
  intros Hcond [Hwf HwfT Hlook Hheap Huniq Hfresh Hcfg].
  destruct (delete_spec (P.w_tree w) q condP Hwf) as (HwfP' & HlP & _).
  destruct (delete_spec (t_tree t) q condT HwfT) as (HwfT' & HlT & _).
  assert (Hsub : forall s g, lookup (fst (delete_cond (P.w_tree w) q condP)) s = Some g ->
                             lookup (P.w_tree w) s = Some g).
  { intros s g. rewrite HlP. unfold sel. destruct (lookup (P.w_tree w) s) as [g'|]; [|discriminate].
    destruct (qmatch q s && condP g'); [discriminate|auto]. }
  constructor; cbn [P.w_tree P.w_heap P.w_gen t_tree set_tree t_cfg]; try assumption.
  - intros s. rewrite HlT, HlP, Hlook. unfold sel.
    destruct (lookup (P.w_tree w) s) as [g|] eqn:Hs; [|reflexivity].
    destruct (Hheap _ _ Hs) as (r0 & Hr0 & _). rewrite Hr0. cbn [option_map].
    rewrite (Hcond _ _ Hr0). destruct (qmatch q s && condP g); [reflexivity|].
    now rewrite Hr0.
  - intros s g Hs. eapply Hheap; eauto.
  - intros s s' g H1 H2. eapply Huniq; eauto.
  - intros s g Hs. eapply Hfresh; eauto.
Qed.

(** the loop of Target.Reset over any list of roots *)
Theorem pipe_reset_roots_sim roots : forall w t,
  Rp w t ->
  Rp {| P.w_tree := fold_left (fun tr r => fst (CTreeModel.delete tr [r])) roots (P.w_tree w);
        P.w_heap := P.w_heap w; P.w_gen := P.w_gen w; P.w_sub := P.w_sub w; P.w_fault := P.w_fault w |}
     (set_tree t (fold_left (fun tr r => fst (CTreeModel.delete tr [r])) roots (t_tree t))).
Proof.
  induction roots as [|r roots IH]; intros w t HR.
  - cbn [fold_left]. destruct HR. constructor; assumption.
  - cbn [fold_left].
    pose proof (Rp_delete_cond w t [r] (fun _ => true) (fun _ => true) (P.w_sub w) (fun _ _ _ => eq_refl) HR) as H1.
    apply IH in H1. exact H1.
Qed.

(** the announcement for one root: the delete notification Target.Reset
    builds (the root's name travels in the ORIGIN field of the prefix) *)
Lemma pipe_root_delete_agree name r :
  del_notif (P.root_delete name r) = delete_noti name r 0 ["*"].
Proof. reflexivity. Qed.

(** * One whole notification: Target.GnmiUpdate (non-atomic) *)

Definition mk_rec (ts : Z) (pre : P.gpath) (u : P.gpath * P.tv) : P.leafrec :=
  {| P.lr_ts := ts; P.lr_prefix := pre; P.lr_path := fst u; P.lr_val := snd u |}.

Definition pipe_upd (u : P.gpath * P.tv) : update :=
  Upd (Some (pipe_gp (fst u))) (Some (emb (snd u))) 0.

(** the stamped notification as CacheModel receives it *)
Definition pipe_notif (n : P.notification) (pre : P.gpath) : notif :=
  Notif (P.n_ts n) (Some (pipe_gp pre)) None (map pipe_upd (P.n_updates n))
        (map pipe_gp (P.n_deletes n)) false.

Definition notification_wf (n : P.notification) (pre : P.gpath) : Prop :=
  pipe_wf pre /\ Forall (fun u => pipe_wf (fst u) /\ okv (snd u)) (P.n_updates n) /\
  Forall pipe_wf (P.n_deletes n).

Lemma update_one_faulted w r : P.w_fault w <> None -> P.cache_update_one w r = w.
Proof. unfold P.cache_update_one. destruct (P.w_fault w); [reflexivity|congruence]. Qed.

Lemma delete_one_faulted ts pre w d : P.w_fault w <> None -> P.cache_delete_one ts pre w d = w.
Proof. unfold P.cache_delete_one. destruct (P.w_fault w); [reflexivity|congruence]. Qed.

Lemma updates_faulted ts pre us : forall w, P.w_fault w <> None ->
  fold_left (fun w u => P.cache_update_one w (mk_rec ts pre u)) us w = w.
Proof.
  induction us as [|u us IH]; intros w H; [reflexivity|]. cbn [fold_left].
  rewrite (update_one_faulted w _ H). now apply IH.
Qed.

Lemma deletes_faulted ts pre ds : forall w, P.w_fault w <> None ->
  fold_left (P.cache_delete_one ts pre) ds w = w.
Proof.
  induction ds as [|d ds IH]; intros w H; [reflexivity|]. cbn [fold_left].
  rewrite (delete_one_faulted ts pre w d H). now apply IH.
Qed.

Lemma acc_update_panicked now n a us :
  a_panic a <> None -> a_panic (fold_left (multi_update_step now n) us a) <> None.
Proof. apply multi_update_panicked. Qed.

(** the relation kept along the two loops: either both are fine and related,
    or the pipeline is at fault; a "p[1:] of an empty slice" fault ([FPanic 1])
    is a panic of the cache as well *)
Definition loop_rel (w : P.wstate) (a : acc) : Prop :=
  match P.w_fault w with
  | None => Rp w (a_t a) /\ a_panic a = None
  | Some (P.FPanic 1%N) => a_panic a <> None
  | Some _ => True
  end.

Lemma pipe_updates_loop now n pre us : forall w a,
  pipe_wf pre -> Forall (fun u => pipe_wf (fst u) /\ okv (snd u)) us ->
  n_ts n = P.n_ts (P.Build_notification (n_ts n) None [] []) ->
  n_prefix n = Some (pipe_gp pre) -> n_atomic n = false ->
  loop_rel w a ->
  loop_rel (fold_left (fun w u => P.cache_update_one w (mk_rec (n_ts n) pre u)) us w)
           (fold_left (multi_update_step now n) (map pipe_upd us) a).
Proof.
  induction us as [|u us IH]; intros w a Hpre Hus Hts Hpr Hat Hrel; [exact Hrel|].
  inversion Hus as [|? ? [Hu Hv] Hus']; subst. cbn [fold_left map].
  unfold loop_rel in Hrel. destruct (P.w_fault w) as [f|] eqn:Hf.
  - (* already at fault *)
    rewrite (update_one_faulted w _ (ltac:(congruence))).
    rewrite updates_faulted by congruence.
    unfold loop_rel. rewrite Hf. destruct f as [[|[?|?|]]|?]; try exact I.
    apply multi_update_panicked. unfold multi_update_step.
    destruct (a_panic a) eqn:E; [rewrite E; discriminate|congruence].
  - destruct Hrel as [HR Hnp].
    assert (Hrw : rec_wf (mk_rec (n_ts n) pre u)) by (split; [assumption|split; assumption]).
    pose proof (pipe_update_one_sim w (mk_rec (n_ts n) pre u) (a_t a) now Hf HR Hrw) as Hs. cbv zeta in Hs.
    assert (Hclone : clone_with_update n (pipe_upd u) = rec_notif (mk_rec (n_ts n) pre u)).
    { unfold clone_with_update, rec_notif, mk_rec, pipe_upd. cbn. now rewrite Hpr, Hat. }
    assert (Hstep : multi_update_step now n a (pipe_upd u) =
                    match gnmi_update1 (a_t a) now (rec_notif (mk_rec (n_ts n) pre u)) with
                    | (t', Panic w0) => Acc t' (a_feed a) (a_errs a) (a_ok a) (Some w0)
                    | (t', Err e) => Acc t' (a_feed a) (a_errs a ++ [e]) (a_ok a) None
                    | (t', Ok None) => Acc t' (a_feed a) (a_errs a) true None
                    | (t', Ok (Some nd)) =>
                        Acc (add_int t' md_update_count 1) (a_feed a ++ [FUpd nd]) (a_errs a) true None
                    end).
    { unfold multi_update_step. now rewrite Hnp, Hclone. }
    rewrite Hstep. clear Hstep.
    apply IH; try assumption.
    unfold loop_rel.
    destruct (P.w_fault (P.cache_update_one w (mk_rec (n_ts n) pre u))) as [f|] eqn:Hf1.
    + destruct f as [[|[?|?|]]|?]; try exact I.
      destruct Hs as [x Hx].
      destruct (gnmi_update1 (a_t a) now (rec_notif (mk_rec (n_ts n) pre u))) as [t' o]. cbn in Hx. subst o.
      cbn. discriminate.
    + destruct Hs as [HR1 Hres].
      destruct (gnmi_update1 (a_t a) now (rec_notif (mk_rec (n_ts n) pre u))) as [t' [[nd|]|e|x]];
        cbn [fst snd a_t a_panic] in *; try contradiction.
      * split; [|reflexivity]. apply (Rp_target_ext _ _ _ HR1); reflexivity.
      * split; [exact HR1|reflexivity].
      * split; [exact HR1|reflexivity].
Qed.

Lemma pipe_deletes_loop n pre ds : forall w a,
  pipe_wf pre -> Forall pipe_wf ds ->
  n_prefix n = Some (pipe_gp pre) -> n_atomic n = false ->
  loop_rel w a ->
  loop_rel (fold_left (P.cache_delete_one (n_ts n) pre) ds w)
           (fold_left (multi_delete_step n) (map pipe_gp ds) a).
Proof.
  induction ds as [|d ds IH]; intros w a Hpre Hds Hpr Hat Hrel; [exact Hrel|].
  inversion Hds as [|? ? Hd Hds']; subst. cbn [fold_left map].
  unfold loop_rel in Hrel. destruct (P.w_fault w) as [f|] eqn:Hf.
  - rewrite (delete_one_faulted _ _ w d (ltac:(congruence))).
    rewrite deletes_faulted by congruence.
    unfold loop_rel. rewrite Hf. destruct f as [[|[?|?|]]|?]; try exact I.
    apply multi_delete_panicked. unfold multi_delete_step.
    destruct (a_panic a) eqn:E; [rewrite E; discriminate|congruence].
  - destruct Hrel as [HR Hnp].
    pose proof (pipe_delete_one_sim (n_ts n) pre w d (add_int (a_t a) md_update_count 1) Hf
                  (Rp_target_ext w (a_t a) (add_int (a_t a) md_update_count 1) HR eq_refl eq_refl)
                  Hpre Hd) as Hs. cbv zeta in Hs.
    assert (Hclone : clone_with_delete n (pipe_gp d) =
                     Notif (n_ts n) (Some (pipe_gp pre)) None [] [pipe_gp d] false).
    { unfold clone_with_delete. now rewrite Hpr, Hat. }
    assert (Hstep : multi_delete_step n a (pipe_gp d) =
                    match gnmi_remove (add_int (a_t a) md_update_count 1)
                                      (Notif (n_ts n) (Some (pipe_gp pre)) None [] [pipe_gp d] false) with
                    | (t', Panic w0) => Acc t' (a_feed a) (a_errs a) (a_ok a) (Some w0)
                    | (t', Err e) => Acc t' (a_feed a) (a_errs a ++ [e]) (a_ok a) None
                    | (t', Ok removed) =>
                        Acc t' (a_feed a ++ [FDel removed (n_ts n)]) (a_errs a) (a_ok a) None
                    end).
    { unfold multi_delete_step. rewrite Hnp, Hclone. reflexivity. }
    rewrite Hstep. clear Hstep.
    apply IH; try assumption.
    unfold loop_rel.
    destruct (P.w_fault (P.cache_delete_one (n_ts n) pre w d)) as [f|] eqn:Hf1.
    + destruct f as [[|[?|?|]]|?]; try exact I.
      destruct Hs as [x Hx].
      destruct (gnmi_remove (add_int (a_t a) md_update_count 1) _) as [t' o]. cbn in Hx. subst o.
      cbn. discriminate.
    + destruct Hs as (HR1 & idx & removedT & _ & Hrm & _).
      destruct (gnmi_remove (add_int (a_t a) md_update_count 1) _) as [t' o].
      cbn [fst snd] in *. subst o. cbn [a_t a_panic]. split; [exact HR1|reflexivity].
Qed.

Lemma loop_result w' a2 (nn : notif) :
  loop_rel w' a2 ->
  match P.w_fault w' with
  | None =>
      Rp w' (fst (fst (finish_ts nn (a_ok a2) (a_t a2), a_feed a2,
                       match a_panic a2 with
                       | Some w0 => GPanic w0
                       | None => match a_errs a2 with [] => GOk | es => GErrs es end
                       end))) /\
      (forall x, snd (finish_ts nn (a_ok a2) (a_t a2), a_feed a2,
                      match a_panic a2 with
                      | Some w0 => GPanic w0
                      | None => match a_errs a2 with [] => GOk | es => GErrs es end
                      end) <> GPanic x)
  | Some (P.FPanic 1%N) =>
      exists x, snd (finish_ts nn (a_ok a2) (a_t a2), a_feed a2,
                     match a_panic a2 with
                     | Some w0 => GPanic w0
                     | None => match a_errs a2 with [] => GOk | es => GErrs es end
                     end) = GPanic x
  | Some _ => True
  end.
Proof.
  unfold loop_rel. destruct (P.w_fault w') as [f|].
  - destruct f as [[|[?|?|]]|?]; try (intros; exact I).
    intros H. cbn [snd]. destruct (a_panic a2) as [x|]; [eauto|congruence].
  - intros [HR Hnp]. cbn [fst snd]. rewrite Hnp. split.
    + apply (Rp_target_ext _ _ _ HR); [apply tree_finish|apply cfg_finish].
    + destruct (a_errs a2); discriminate.
Qed.

(** Target.GnmiUpdate on a stamped, non-atomic notification: the pipeline's
    two loops against CacheModel's dispatch (empty / one update / one delete /
    several).  If the pipeline model ends without fault the states are related
    and the cache did not panic; a [FPanic 1] fault is a panic of the cache. *)
Theorem pipe_target_gnmi_update_sim w n pre t now :
  P.w_fault w = None -> Rp w t -> notification_wf n pre ->
  let w' := P.target_gnmi_update w n pre in
  let R := target_gnmi_update t now (pipe_notif n pre) in
  match P.w_fault w' with
  | None => Rp w' (fst (fst R)) /\ (forall x, snd R <> GPanic x)
  | Some (P.FPanic 1%N) => exists x, snd R = GPanic x
  | Some _ => True
  end.
Proof.
  intros Hf HR (Hpre & Hus & Hds). cbv zeta.
  set (N := pipe_notif n pre).
  assert (Hloop :
    loop_rel (P.target_gnmi_update w n pre)
             (fold_left (multi_delete_step N) (map pipe_gp (P.n_deletes n))
                (fold_left (multi_update_step now N) (map pipe_upd (P.n_updates n))
                           (Acc t [] [] false None)))).
  { unfold P.target_gnmi_update.
    apply (pipe_deletes_loop N pre); try assumption; try reflexivity.
    change (fun w0 u => P.cache_update_one w0 {| P.lr_ts := P.n_ts n; P.lr_prefix := pre;
                                                 P.lr_path := fst u; P.lr_val := snd u |})
      with (fun w0 u => P.cache_update_one w0 (mk_rec (n_ts N) pre u)).
    apply (pipe_updates_loop now N pre); try assumption; try reflexivity.
    unfold loop_rel. rewrite Hf. split; [exact HR|reflexivity]. }
  (* CacheModel's dispatch *)
  unfold target_gnmi_update. change (n_atomic N) with false. cbv iota.
  change (n_upd N) with (map pipe_upd (P.n_updates n)).
  change (n_del N) with (map pipe_gp (P.n_deletes n)).
  unfold P.target_gnmi_update in *.
  destruct (P.n_updates n) as [|u [|u2 us]] eqn:Hu; destruct (P.n_deletes n) as [|d [|d2 ds]] eqn:Hd;
    cbn [map fold_left] in *.
  - (* empty *)
    rewrite Hf. split; [apply (Rp_target_ext _ _ _ HR); reflexivity|discriminate].
  - (* one delete *)
    inversion Hds as [|? ? Hdw _]; subst.
    pose proof (pipe_delete_one_sim (P.n_ts n) pre w d (add_int t md_update_count 1) Hf
                  (Rp_target_ext w t (add_int t md_update_count 1) HR eq_refl eq_refl) Hpre Hdw) as Hs.
    cbv zeta in Hs.
    assert (HN : N = Notif (P.n_ts n) (Some (pipe_gp pre)) None [] [pipe_gp d] false)
      by (unfold N, pipe_notif; now rewrite Hu, Hd).
    rewrite HN.
    destruct (P.w_fault (P.cache_delete_one (P.n_ts n) pre w d)) as [f|].
    + destruct f as [[|[?|?|]]|?]; try exact I.
      destruct Hs as [x Hx]. destruct (gnmi_remove _ _) as [t' o]. cbn in Hx. subst o. cbn. eauto.
    + destruct Hs as (HR1 & idx & removedT & _ & Hrm & _).
      destruct (gnmi_remove _ _) as [t' o]. cbn [fst snd] in *. subst o. cbn [fst snd].
      split; [exact HR1|discriminate].
  - (* several deletes *) exact (loop_result _ _ _ Hloop).
  - (* one update *)
    inversion Hus as [|? ? [Huw Huv] _]; subst.
    assert (Hrw : rec_wf (mk_rec (P.n_ts n) pre u)) by (split; [assumption|split; assumption]).
    pose proof (pipe_update_one_sim w (mk_rec (P.n_ts n) pre u) t now Hf HR Hrw) as Hs. cbv zeta in Hs.
    assert (HN : N = rec_notif (mk_rec (P.n_ts n) pre u))
      by (unfold N, pipe_notif; now rewrite Hu, Hd).
    rewrite HN.
    change {| P.lr_ts := P.n_ts n; P.lr_prefix := pre; P.lr_path := fst u; P.lr_val := snd u |}
      with (mk_rec (P.n_ts n) pre u).
    destruct (P.w_fault (P.cache_update_one w (mk_rec (P.n_ts n) pre u))) as [f|].
    + destruct f as [[|[?|?|]]|?]; try exact I.
      destruct Hs as [x Hx]. destruct (gnmi_update1 _ _ _) as [t' o]. cbn in Hx. subst o. cbn. eauto.
    + destruct Hs as [HR1 Hres].
      destruct (gnmi_update1 t now (rec_notif (mk_rec (P.n_ts n) pre u))) as [t' [[nd|]|e|x]];
        cbn [fst snd] in *; try contradiction.
      * split; [|discriminate].
        apply (Rp_target_ext _ _ _ HR1); [rewrite tree_finish; reflexivity|rewrite cfg_finish; reflexivity].
      * split; [|discriminate]. apply (Rp_target_ext _ _ _ HR1); [apply tree_finish|apply cfg_finish].
      * split; [|discriminate]. apply (Rp_target_ext _ _ _ HR1); [apply tree_finish|apply cfg_finish].
  - exact (loop_result _ _ _ Hloop).
  - exact (loop_result _ _ _ Hloop).
  - exact (loop_result _ _ _ Hloop).
  - exact (loop_result _ _ _ Hloop).
  - exact (loop_result _ _ _ Hloop).
Qed.

End Emb.

(** * Instantiation: the values on which the two models' equality tests agree *)

(** IEEE bit patterns: ValueModel keeps them as [N] and tests fields with
    [N.land]/[N.shiftr]; PipelineModel keeps them as [Z] and uses [/], [mod].
    On non-negative patterns the tests are the same. *)
Lemma N_eqb_Z a b : N.eqb a b = (Z.of_N a =? Z.of_N b).
Proof.
  destruct (N.eqb_spec a b) as [->|H]; [now rewrite Z.eqb_refl|].
  symmetry. apply Z.eqb_neq. intros E. apply H. now apply N2Z.inj.
Qed.

Lemma land_ones_Z n k : Z.of_N (N.land n (N.ones k)) = Z.of_N n mod 2 ^ Z.of_N k.
Proof. rewrite N.land_ones, N2Z.inj_mod, N2Z.inj_pow. reflexivity. Qed.

Lemma shiftr_Z n k : Z.of_N (N.shiftr n k) = Z.of_N n / 2 ^ Z.of_N k.
Proof. rewrite N.shiftr_div_pow2, N2Z.inj_div, N2Z.inj_pow. reflexivity. Qed.

Lemma f64_nan_bridge x : 0 <= x -> f64_is_nan (Z.to_N x) = P.f_nan 11 52 x.
Proof.
  intros Hx. unfold f64_is_nan, f64_exp, f64_man, P.f_nan.
  change 2047%N with (N.ones 11). change (2 ^ 52 - 1)%N with (N.ones 52).
  rewrite !N_eqb_Z, !land_ones_Z, shiftr_Z, Z2N.id by assumption. reflexivity.
Qed.

Lemma f32_nan_bridge x : 0 <= x -> f32_is_nan (Z.to_N x) = P.f_nan 8 23 x.
Proof.
  intros Hx. unfold f32_is_nan, f32_exp, f32_man, P.f_nan.
  change 255%N with (N.ones 8). change (2 ^ 23 - 1)%N with (N.ones 23).
  rewrite !N_eqb_Z, !land_ones_Z, shiftr_Z, Z2N.id by assumption. reflexivity.
Qed.

Lemma f64_zero_bridge x : 0 <= x -> f64_is_zero (Z.to_N x) = (x mod 2 ^ 63 =? 0).
Proof.
  intros Hx. unfold f64_is_zero. change (2 ^ 63 - 1)%N with (N.ones 63).
  rewrite N_eqb_Z, land_ones_Z, Z2N.id by assumption. reflexivity.
Qed.

Lemma f32_zero_bridge x : 0 <= x -> f32_is_zero (Z.to_N x) = (x mod 2 ^ 31 =? 0).
Proof.
  intros Hx. unfold f32_is_zero. change (2 ^ 31 - 1)%N with (N.ones 31).
  rewrite N_eqb_Z, land_ones_Z, Z2N.id by assumption. reflexivity.
Qed.

Lemma to_N_eqb x y : 0 <= x -> 0 <= y -> N.eqb (Z.to_N x) (Z.to_N y) = (x =? y).
Proof. intros Hx Hy. now rewrite N_eqb_Z, !Z2N.id. Qed.

Lemma f64_eq_bridge a b : 0 <= a -> 0 <= b -> f64_eq (Z.to_N a) (Z.to_N b) = P.f_eq 11 52 a b.
Proof.
  intros Ha Hb. unfold f64_eq, P.f_eq.
  rewrite !f64_nan_bridge, !f64_zero_bridge, to_N_eqb by assumption.
  unfold P.f_nan. change (11 + 52) with 63.
  destruct (_ || _); [reflexivity|].
  destruct (a mod 2 ^ 63 =? 0), (b mod 2 ^ 63 =? 0), (a =? b); reflexivity.
Qed.

Lemma f32_eq_bridge a b : 0 <= a -> 0 <= b -> f32_eq (Z.to_N a) (Z.to_N b) = P.f_eq 8 23 a b.
Proof.
  intros Ha Hb. unfold f32_eq, P.f_eq.
  rewrite !f32_nan_bridge, !f32_zero_bridge, to_N_eqb by assumption.
  unfold P.f_nan. change (8 + 23) with 31.
  destruct (_ || _); [reflexivity|].
  destruct (a mod 2 ^ 31 =? 0), (b mod 2 ^ 31 =? 0), (a =? b); reflexivity.
Qed.

Definition scalar_emb (v : P.tv) : ValueModel.tv :=
  match v with
  | P.TVString s => TVString s
  | P.TVInt z => TVInt z
  | P.TVUint z => TVUint (Z.to_N z)
  | P.TVBool b => TVBool b
  | P.TVBytes s => TVBytes s
  | P.TVFloat b => TVFloat (Z.to_N b)
  | P.TVDouble b => TVDouble (Z.to_N b)
  | P.TVJson s => TVJson s
  | P.TVJsonIetf s => TVJsonIetf s
  | P.TVAscii s => TVAscii s
  | P.TVProto s => TVProtoBytes s
  | _ => TVnil
  end.

Definition scalar_ok (v : P.tv) : Prop :=
  match v with
  | P.TVString _ | P.TVInt _ | P.TVBool _ | P.TVBytes _
  | P.TVJson _ | P.TVJsonIetf _ | P.TVAscii _ | P.TVProto _ => True
  | P.TVUint z | P.TVFloat z | P.TVDouble z => 0 <= z
  | _ => False
  end.

Lemma scalar_emb_equal a b : scalar_ok a -> scalar_ok b ->
  value_equal (Some (scalar_emb a)) (Some (scalar_emb b)) = P.tv_equal a b.
Proof.
  intros Ha Hb. unfold value_equal, ValueModel.equal.
  destruct a, b; cbn in Ha, Hb; try contradiction; cbn [scalar_emb equal_gen P.tv_equal]; try reflexivity;
    rewrite ?to_N_eqb, ?f64_eq_bridge, ?f32_eq_bridge by assumption;
    match goal with |- (if ?x then true else false) = _ => destruct x; reflexivity end.
Qed.

Lemma scalar_emb_eqb a b : scalar_ok a -> scalar_ok b ->
  CacheModel.tv_eqb (scalar_emb a) (scalar_emb b) = P.tv_eqb a b.
Proof.
  intros Ha Hb.
  destruct a, b; cbn in Ha, Hb; try contradiction; cbn [scalar_emb CacheModel.tv_eqb P.tv_eqb]; try reflexivity.
  - now apply to_N_eqb.
  - unfold pf32_eq, P.f_peq. now rewrite f32_eq_bridge, !f32_nan_bridge.
  - unfold pf64_eq, P.f_peq. now rewrite f64_eq_bridge, !f64_nan_bridge.
Qed.

(** the simulation for scalar values, closed *)
Definition pipe_update_one_scalar :=
  pipe_update_one_sim scalar_emb scalar_ok scalar_emb_equal scalar_emb_eqb.

(** * Formerly differences, now agreements

    Up to PipelineModel as of /verif 96c7803 this file recorded two
    differences ([pipe_zero_update_differ], [pipe_empty_index_differ]):
    [tv_eqb] compared doubles by bit pattern where proto.Equal uses == (so
    +0 = -0, NaN = NaN), and an empty index path was a collector panic
    ([FPanic 2]) where the code returns "invalid path" (update) or deletes
    everything older (delete).  PipelineModel's owner has repaired both; the
    inputs are now inside the simulation theorems (doubles and floats are in
    [scalar_ok]; the empty index path is an ordinary case), and the former
    witnesses are kept as agreement examples. *)

Example pipe_proto_equal_zero_agree :
  P.tv_eqb (P.TVDouble 0) (P.TVDouble (2 ^ 63)) = true /\
  CacheModel.tv_eqb (scalar_emb (P.TVDouble 0)) (scalar_emb (P.TVDouble (2 ^ 63))) = true.
Proof. split; vm_compute; reflexivity. Qed.

Definition ex_gp (t o : string) (names : list string) : P.gpath :=
  {| P.g_origin := o; P.g_target := t;
     P.g_elem := map (fun s => {| P.e_name := s; P.e_keys := [] |}) names; P.g_element := [] |}.

Definition ex_rec (ts : Z) (v : P.tv) : P.leafrec :=
  {| P.lr_ts := ts; P.lr_prefix := ex_gp "dev" "oc" []; P.lr_path := ex_gp "" "" ["a"]; P.lr_val := v |}.

Definition ex_w0 : P.wstate :=
  {| P.w_tree := None; P.w_heap := []; P.w_gen := 0%nat; P.w_sub := None; P.w_fault := None |}.

(** the same leaf written twice at the same timestamp, first +0 then -0: both
    models reject the second write as a duplicate and keep +0 *)
Example pipe_zero_update_agree :
  let r0 := ex_rec 5 (P.TVDouble 0) in
  let r1 := ex_rec 5 (P.TVDouble (2 ^ 63)) in
  let w1 := P.cache_update_one ex_w0 r0 in
  let t1 := fst (gnmi_update1 (new_target "dev" (Cfg 0 true [])) 0 (rec_notif scalar_emb r0)) in
  P.cache_update_one w1 r1 = w1 /\ P.hget (P.w_heap w1) 0%nat = Some r0 /\
  gnmi_update1 t1 0 (rec_notif scalar_emb r1) = (add_int t1 md_stale_count 1, Err err_stale).
Proof. cbv zeta. repeat split; vm_compute; reflexivity. Qed.

(** an empty index path (prefix with a target, nothing else): an error in both
    models, nothing changes *)
Example pipe_empty_index_agree :
  let r := {| P.lr_ts := 1; P.lr_prefix := ex_gp "dev" "" []; P.lr_path := ex_gp "" "" [];
              P.lr_val := P.TVInt 1 |} in
  P.cache_update_one ex_w0 r = ex_w0 /\
  gnmi_update1 (new_target "dev" (Cfg 0 true [])) 0 (rec_notif scalar_emb r)
  = (new_target "dev" (Cfg 0 true []), Err err_invalid_path).
Proof. cbv zeta. split; vm_compute; reflexivity. Qed.

(** non-vacuity of the simulation: an accepted update on the empty state *)
Example ex_pipe_rp0 : Rp scalar_emb scalar_ok ex_w0 (new_target "dev" (Cfg 0 true [])).
Proof.
  constructor; cbn; try exact I; try (intros; discriminate).
  - reflexivity.
  - split; [cbn; lia|reflexivity].
Qed.

Example ex_pipe_rec_wf : rec_wf scalar_ok (ex_rec 5 (P.TVInt 3)).
Proof. repeat split; repeat constructor; cbn; intuition discriminate. Qed.

(** Glue: mapping the values of a ctree.

    Two models that store different value types in the same tree model
    (CTree/CTreeModel.v) are related by mapping the leaves with an abstraction
    function [f].  Every operation of the tree model commutes with the map:
    the tree model never looks at a value except through the condition of
    DeleteConditional. *)
From Gnmi Require Import Base.Prelude CTree.CTreeModel CTree.CTreeProofs.
Open Scope list_scope.

Section AssocMap.
Context {A B : Type} (g : A -> B).

Definition vmap (l : list (string * A)) : list (string * B) :=
  map (fun kc => (fst kc, g (snd kc))) l.

Lemma assoc_vmap k l : assoc k (vmap l) = option_map g (assoc k l).
Proof.
  unfold vmap. induction l as [|[k' a] l IH]; cbn; [reflexivity|]. destruct (String.eqb k k'); [reflexivity|exact IH].
Qed.

Lemma aset_vmap k a l : aset k (g a) (vmap l) = vmap (aset k a l).
Proof.
  unfold vmap. induction l as [|[k' a'] l IH]; cbn; [reflexivity|].
  destruct (String.eqb k k'); cbn; [reflexivity|]. now rewrite IH.
Qed.

Lemma adel_vmap k l : adel k (vmap l) = vmap (adel k l).
Proof.
  unfold vmap. induction l as [|[k' a'] l IH]; cbn; [reflexivity|].
  destruct (String.eqb k k'); cbn; [reflexivity|]. now rewrite IH.
Qed.

Lemma keys_vmap l : keys (vmap l) = keys l.
Proof. unfold vmap. rewrite map_map. reflexivity. Qed.
End AssocMap.

Section Leafs.
Context {V : Type}.

(** a path that holds a leaf can be written again (terminalAdd) *)
Lemma get_leaf_add_node (n : node V) : forall p old v,
  get_node n p = Some (Leaf old) -> exists n', add_node n p v = Some n'.
Proof.
  induction n as [x|cs IH] using node_ind'; intros [|k r] old v H.
  - cbn. eauto.
  - discriminate.
  - discriminate.
  - rewrite get_node_branch in H. rewrite add_node_branch.
    destruct (assoc k cs) as [c|] eqn:E; [|discriminate].
    rewrite Forall_forall in IH. destruct (IH _ (assoc_In _ _ _ E) r old v H) as [c' Hc'].
    cbn [snd] in Hc'. rewrite Hc'. eauto.
Qed.

Lemma get_leaf_add (t : tree V) p old v :
  get t p = Some (Leaf old) -> exists t', add t p v = Some t'.
Proof.
  destruct t as [n|]; [|discriminate]. cbn [get add]. intros H.
  destruct (get_leaf_add_node n p old v H) as [n' ->]. eauto.
Qed.

Lemma get_leaf_lookup (t : tree V) p old : get t p = Some (Leaf old) -> lookup t p = Some old.
Proof. destruct t as [n|]; [|discriminate]. cbn [get lookup]. unfold lookup_node. now intros ->. Qed.

Lemma lookup_get_leaf (t : tree V) p old : lookup t p = Some old -> get t p = Some (Leaf old).
Proof.
  destruct t as [n|]; [|discriminate]. cbn [get lookup]. unfold lookup_node.
  destruct (get_node n p) as [[v|cs]|]; try discriminate. now intros [= ->].
Qed.
(** a branch position cannot be written *)
Lemma get_branch_add_node (n : node V) : forall p cs v,
  get_node n p = Some (Branch cs) -> add_node n p v = None.
Proof.
  induction n as [x|cs0 IH] using node_ind'; intros [|k r] cs v H.
  - discriminate.
  - discriminate.
  - reflexivity.
  - rewrite get_node_branch in H. rewrite add_node_branch.
    destruct (assoc k cs0) as [c|] eqn:E; [|discriminate].
    rewrite Forall_forall in IH. pose proof (IH _ (assoc_In _ _ _ E) r cs v H) as Hc.
    cbn [snd] in Hc. now rewrite Hc.
Qed.

Lemma get_branch_add (t : tree V) p cs v :
  get t p = Some (Branch cs) -> add t p v = None.
Proof.
  destruct t as [n|]; [|discriminate]. cbn [get add]. intros H.
  now rewrite (get_branch_add_node n p cs v H).
Qed.

Lemma get_none_lookup (t : tree V) p : get t p = None -> lookup t p = None.
Proof. destruct t as [n|]; [|reflexivity]. cbn [get lookup]. unfold lookup_node. now intros ->. Qed.

Lemma get_branch_lookup (t : tree V) p cs : get t p = Some (Branch cs) -> lookup t p = None.
Proof. destruct t as [n|]; [|discriminate]. cbn [get lookup]. unfold lookup_node. now intros ->. Qed.
End Leafs.

Section TMap.
Context {A B : Type} (f : A -> B).

Fixpoint nmap (n : node A) : node B :=
  match n with
  | Leaf v => Leaf (f v)
  | Branch cs => Branch (map (fun kc => (fst kc, nmap (snd kc))) cs)
  end.

Definition tmap (t : tree A) : tree B := option_map nmap t.

(** mapped lists of (path, value) results *)
Definition pmap (l : list (path * A)) : list (path * B) := map (fun pv => (fst pv, f (snd pv))) l.

Lemma nmap_branch cs : nmap (Branch cs) = Branch (vmap nmap cs).
Proof. reflexivity. Qed.

Lemma pmap_app a b : pmap (a ++ b) = pmap a ++ pmap b.
Proof. apply map_app. Qed.

Lemma new_branch_map p v : new_branch p (f v) = nmap (new_branch p v).
Proof. induction p as [|k r IH]; cbn; [reflexivity|]. now rewrite IH. Qed.

Lemma get_node_map n : forall p, get_node (nmap n) p = option_map nmap (get_node n p).
Proof.
  induction n as [v|cs IH] using node_ind'; intros [|k r]; try reflexivity.
  rewrite nmap_branch, !get_node_branch, assoc_vmap.
  destruct (assoc k cs) as [c|] eqn:E; [|reflexivity]. cbn [option_map].
  rewrite Forall_forall in IH. apply (IH _ (assoc_In _ _ _ E)).
Qed.

Lemma get_map t p : get (tmap t) p = option_map nmap (get t p).
Proof. destruct t; [apply get_node_map|reflexivity]. Qed.

Lemma lookup_map t p : lookup (tmap t) p = option_map f (lookup t p).
Proof.
  destruct t as [n|]; [|reflexivity]. cbn [tmap option_map lookup]. unfold lookup_node.
  rewrite get_node_map. destruct (get_node n p) as [[v|cs]|]; reflexivity.
Qed.

Lemma add_node_map n : forall p v, add_node (nmap n) p (f v) = option_map nmap (add_node n p v).
Proof.
  induction n as [x|cs IH] using node_ind'; intros [|k r] v; try reflexivity.
  rewrite nmap_branch, !add_node_branch, assoc_vmap.
  destruct (assoc k cs) as [c|] eqn:E; cbn [option_map].
  - rewrite Forall_forall in IH. rewrite (IH _ (assoc_In _ _ _ E)). cbn [snd].
    destruct (add_node c r v) as [c'|]; cbn [option_map]; [|reflexivity].
    now rewrite aset_vmap.
  - now rewrite new_branch_map, aset_vmap.
Qed.

Lemma add_map t p v : add (tmap t) p (f v) = option_map tmap (add t p v).
Proof.
  destruct t as [n|]; cbn [tmap option_map add].
  - rewrite add_node_map. destruct (add_node n p v); reflexivity.
  - now rewrite new_branch_map.
Qed.

Lemma walk_node_map n : forall pre, walk_node (nmap n) pre = pmap (walk_node n pre).
Proof.
  induction n as [v|cs IH] using node_ind'; intros pre; [reflexivity|].
  cbn [nmap walk_node]. induction cs as [|[k c] cs IHcs]; [reflexivity|].
  inversion IH as [|? ? Hc Hcs]; subst. cbn [map flat_map fst snd].
  rewrite pmap_app, Hc. f_equal. now apply IHcs.
Qed.

Lemma walk_map t : walk (tmap t) = pmap (walk t).
Proof. destruct t; [apply walk_node_map|reflexivity]. Qed.

Lemma flat_map_vmap {C} (h : string -> node B -> list C) (h' : string -> node A -> list C) cs :
  Forall (fun kc => h (fst kc) (nmap (snd kc)) = h' (fst kc) (snd kc)) cs ->
  flat_map (fun kc => h (fst kc) (snd kc)) (vmap nmap cs) = flat_map (fun kc => h' (fst kc) (snd kc)) cs.
Proof.
  unfold vmap. induction 1 as [|[k c] cs Hc _ IH]; [reflexivity|]. cbn [map flat_map fst snd] in *.
  now rewrite Hc, IH.
Qed.

Lemma pmap_flat_map {X} (h : X -> list (path * A)) l :
  pmap (flat_map h l) = flat_map (fun x => pmap (h x)) l.
Proof. induction l as [|x l IH]; cbn; [reflexivity|]. now rewrite pmap_app, IH. Qed.

Lemma query_node_map n : forall pre q, query_node (nmap n) pre q = pmap (query_node n pre q).
Proof.
  induction n as [v|cs IH] using node_ind'; intros pre q.
  - destruct q as [|k r]; [reflexivity|]. cbn [query_node nmap].
    destruct (is_glob k); [destruct r; reflexivity|reflexivity].
  - destruct q as [|k r]; [exact (walk_node_map (Branch cs) pre)|].
    rewrite nmap_branch. cbn [query_node]. destruct (is_glob k).
    + destruct r as [|k' r']; [exact (walk_node_map (Branch cs) pre)|].
      rewrite pmap_flat_map.
      apply (flat_map_vmap (fun k c => query_node c (pre ++ [k]) (k' :: r'))
                           (fun k c => pmap (query_node c (pre ++ [k]) (k' :: r')))).
      eapply Forall_impl; [|exact IH]. intros kc H. apply H.
    + rewrite !find_with_assoc, assoc_vmap.
      destruct (assoc k cs) as [c|] eqn:E; [|reflexivity]. cbn [option_map].
      rewrite Forall_forall in IH. apply (IH _ (assoc_In _ _ _ E)).
Qed.

Lemma query_map t q : query (tmap t) q = pmap (query t q).
Proof. destruct t; [apply query_node_map|reflexivity]. Qed.

(** ** DeleteConditional *)

Definition rmap (r : option (node A) * list (path * A)) : option (node B) * list (path * B) :=
  (option_map nmap (fst r), pmap (snd r)).

Lemma rebuild_map cs : rebuild (vmap nmap cs) = option_map nmap (rebuild cs).
Proof. destruct cs; reflexivity. Qed.

Lemma collect_children_map (rs : list (string * (option (node A) * list (path * A)))) :
  collect_children (map (fun kr => (fst kr, rmap (snd kr))) rs) =
  (vmap nmap (fst (collect_children rs)), pmap (snd (collect_children rs))).
Proof.
  unfold collect_children. cbn [fst snd]. f_equal.
  - induction rs as [|[k [o l]] rs IH]; [reflexivity|]. cbn [map flat_map fst snd rmap].
    rewrite IH. unfold vmap. rewrite map_app. f_equal. destruct o; reflexivity.
  - induction rs as [|[k [o l]] rs IH]; [reflexivity|]. cbn [map flat_map fst snd rmap].
    rewrite IH, pmap_app. f_equal. unfold pmap. rewrite !map_map. reflexivity.
Qed.

Section Del.
Variables (cond : A -> bool) (cond' : B -> bool).
Hypothesis cond_map : forall v, cond' (f v) = cond v.

Lemma del_node_map n : forall q, del_node (nmap n) q cond' = rmap (del_node n q cond).
Proof.
  induction n as [v|cs IH] using node_ind'; intros q.
  - cbn [nmap del_node]. destruct (heads_all q).
    + destruct (strip_glob q); [|reflexivity]. rewrite cond_map. destruct (cond v); reflexivity.
    + destruct q; reflexivity.
  - rewrite nmap_branch. cbn [del_node]. destruct (heads_all q) eqn:Hh.
    + assert (E : map (fun kc => (fst kc, del_node (snd kc) (strip_glob q) cond')) (vmap nmap cs) =
                  map (fun kr => (fst kr, rmap (snd kr)))
                      (map (fun kc => (fst kc, del_node (snd kc) (strip_glob q) cond)) cs)).
      { unfold vmap. rewrite !map_map. apply map_ext_in. intros kc Hin. cbn [fst snd].
        rewrite Forall_forall in IH. now rewrite (IH _ Hin). }
      rewrite E, collect_children_map. cbn [fst snd]. unfold rmap. cbn [fst snd].
      now rewrite rebuild_map.
    + destruct q as [|k r]; [reflexivity|].
      rewrite !find_with_assoc, assoc_vmap.
      destruct (assoc k cs) as [c|] eqn:E; cbn [option_map]; [|reflexivity].
      rewrite Forall_forall in IH. rewrite (IH _ (assoc_In _ _ _ E)). cbn [snd fst rmap].
      unfold rmap. cbn [fst snd]. f_equal.
      * destruct (fst (del_node c r cond)) as [c'|]; cbn [option_map].
        -- now rewrite aset_vmap, rebuild_map.
        -- now rewrite adel_vmap, rebuild_map.
      * unfold pmap. rewrite !map_map. reflexivity.
Qed.

Lemma delete_cond_map t q :
  delete_cond (tmap t) q cond' = (tmap (fst (delete_cond t q cond)), pmap (snd (delete_cond t q cond))).
Proof.
  destruct t as [n|]; [|reflexivity]. cbn [tmap option_map delete_cond].
  rewrite del_node_map. reflexivity.
Qed.
End Del.

Lemma keys_nmap_root t :
  match tmap t with Some (Branch cs) => keys cs | _ => [] end =
  match t with Some (Branch cs) => keys cs | _ => [] end.
Proof. destruct t as [[v|cs]|]; try reflexivity. cbn. apply keys_vmap. Qed.

End TMap.

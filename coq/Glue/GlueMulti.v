(** Glue: the subscriber layer of Cache/MultiCache.v (C14, C15) and the sender
    post-processing of Total/StreamModel.v (C12) against the authoritative
    models and against SubModel.

    MultiCache (round 5v) has subscription paths ([MSubP T q], [MUnsub]) and
    carries its own copies of
      - the streaming match relation ([mmatch], "mirrors match.branch.update
        incl. implicit recursion and * in the update path"),
      - the paths Server.Update matches a notification with ([noti_paths]),
      - subscribe.isTargetDelete ([is_target_delete]),
      - sendStreamingResults over the feed of one call ([stream_feed]).
    Total/StreamModel.v has a third copy of isTargetDelete, over C12's own
    notification type.  SubModel has all of them too.

    Proved here, for all inputs:
      [multi_mmatch_eq]              mmatch = MatchModel.compat
      [multi_offered_is_trie_offer]  [offered T q n] is the number of calls the
                                     REAL trie walk (Server.Update ->
                                     UpdateNotification, one shared updated set)
                                     makes on a client registered with exactly
                                     [T :: q]
      [multi_unsub_no_offer]         after the removal closure (MUnsub) the real
                                     trie offers that client nothing
      [itd_stream_eq_multi], [itd_sub_eq_multi]
                                     the three isTargetDelete are one predicate
                                     (through the embeddings [ing_notif],
                                     [sub_notif])
      [itd_remove], [itd_sub_remove], [itd_reset_root], [itd_has_delete]
                                     what it says on the notifications the cache
                                     produces: Cache.Remove's announcement IS a
                                     whole-target delete (in CacheModel and in
                                     SubModel), Target.Reset's per-root deletes
                                     are NOT (the root's name sits in the prefix
                                     origin) unless the root is the empty name,
                                     nothing without exactly one delete is
      [multi_stream_feed_eq]         MultiCache.stream_feed on the image of a
                                     SubModel feed is SubModel.stream_feed
                                     (no ACL, one registered query [T :: q]):
                                     same responses, same "stream ended". *)
From Gnmi Require Import Base.Prelude CTree.CTreeModel Path.PathModel Path.PathProofs
  Match.MatchModel Match.MatchProofs Value.ValueModel Cache.CacheModel.
From Gnmi Require Cache.MultiCache Total.IngestModel Total.StreamModel Subscribe.SubModel.
From Gnmi Require Import Glue.GluePath Glue.GlueMatch Glue.GlueCacheSub.
Open Scope string_scope.
Open Scope list_scope.

Module MC := MultiCache.

(** * The match relation *)

Lemma multi_mmatch_eq q p : MC.mmatch q p = compat q p.
Proof.
  revert p; induction q as [|k q IH]; intros [|a p]; try reflexivity.
  cbn [MC.mmatch compat]. rewrite IH. unfold is_glob.
  destruct (String.eqb a "*"), (String.eqb k "*"); cbn; rewrite ?orb_true_r; reflexivity.
Qed.

(** the paths Server.Update matches are MatchModel's *)
Lemma multi_noti_paths_eq (n : notif) :
  MC.noti_paths n =
  map (fun p => notif_prefix (n_prefix n) ++ p)
      (notif_paths (map u_path (n_upd n)) (map Some (n_del n))).
Proof.
  unfold MC.noti_paths, notif_paths, notif_prefix.
  rewrite map_app, !map_map, map_app, !map_map. reflexivity.
Qed.

(** [offered] against the real trie walk *)
Theorem multi_offered_is_trie_offer b c T q (n : notif) :
  registered_exactly b c [T :: q] ->
  (if MC.offered T q n then 1%nat else 0%nat) =
  count_occ Nat.eq_dec (server_update b (n_prefix n) (map u_path (n_upd n)) (map Some (n_del n))) c.
Proof.
  intros H. unfold server_update, server_update_gen.
  change (update_notification_gen fixed_C06_1) with update_notification.
  rewrite (trie_offer_count _ _ _ _ _ H). unfold abstract_offers, MC.offered.
  rewrite multi_noti_paths_eq, existsb_map_glue.
  erewrite existsb_ext; [reflexivity|]. intros p. cbn [existsb]. rewrite orb_false_r.
  apply multi_mmatch_eq.
Qed.

(** MUnsub: the subscriber's context is cancelled, its one registration is
    removed; the model sends it nothing from then on ([sub_step] of a
    non-running subscriber), and neither does the real trie *)
Theorem multi_unsub_no_offer b c T q prefix paths :
  registered_exactly b c [T :: q] ->
  count_occ Nat.eq_dec (update_notification (remove_root (T :: q) c b) prefix paths) c = 0%nat.
Proof.
  intros H.
  assert (H' : registered_exactly (remove_root (T :: q) c b) c []).
  { apply (registered_exactly_remove b c [] (T :: q)); [exact H|intros []]. }
  rewrite (trie_offer_count _ _ _ _ _ H'). unfold abstract_offers.
  induction paths as [|p paths IH]; [reflexivity|exact IH].
Qed.

Lemma multi_canceled_silent feed s :
  MC.sub_stat s <> MC.SRunning -> MC.sub_step feed s = (s, []).
Proof. unfold MC.sub_step. destruct (MC.sub_stat s); congruence. Qed.

Lemma multi_cancel_not_running i : forall l s,
  nth_error (MC.cancel_sub i l) i = Some s -> MC.sub_stat s <> MC.SRunning.
Proof.
  induction i as [|i IH]; intros [|x l] s; cbn; try discriminate.
  - intros [= <-]. destruct (MC.sub_stat x) eqn:E; cbn; congruence.
  - apply IH.
Qed.

(** * isTargetDelete: one predicate *)

(** C12's notifications as CacheModel's (duplicates 0, no capacity information) *)
Definition ing_upd (u : IngestModel.upd) : update :=
  Upd (IngestModel.u_path u) (Some (IngestModel.u_val u)) 0.

Definition ing_notif (n : IngestModel.notif) : notif :=
  Notif (IngestModel.n_ts n) (IngestModel.n_prefix n) None (map ing_upd (IngestModel.n_upd n))
        (IngestModel.n_del n) (IngestModel.n_atomic n).

Lemma single_star l :
  match l with [x] => String.eqb x "*" | _ => false end = path_eqb l ["*"].
Proof. destruct l as [|x [|y l]]; cbn; try reflexivity; [now rewrite andb_true_r|now rewrite andb_false_r]. Qed.

Theorem itd_stream_eq_multi (n : IngestModel.notif) :
  StreamModel.is_target_delete n = MC.is_target_delete (ing_notif n).
Proof.
  unfold StreamModel.is_target_delete, MC.is_target_delete, ing_notif. cbn [n_del n_prefix].
  destruct (IngestModel.n_del n) as [|d [|d2 ds]]; try reflexivity.
  now rewrite single_star.
Qed.

Theorem itd_sub_eq_multi (n : SubModel.noti) :
  noti_wf n -> SubModel.is_target_delete n = MC.is_target_delete (sub_notif n).
Proof.
  intros (Hp & _ & Hd). unfold SubModel.is_target_delete, MC.is_target_delete, sub_notif.
  cbn [n_del n_prefix gp_of_opt].
  destruct (SubModel.n_dels n) as [|d [|d2 ds]]; try reflexivity. cbn [map].
  inversion Hd; subst.
  rewrite (sub_to_strings_eq (Some (SubModel.n_prefix n)) false) by exact Hp.
  rewrite (sub_to_strings_eq (Some d) false) by assumption. reflexivity.
Qed.

(** hence C12's and SubModel's agree on corresponding notifications *)
Corollary itd_stream_eq_sub (m : IngestModel.notif) (n : SubModel.noti) :
  noti_wf n -> ing_notif m = sub_notif n ->
  StreamModel.is_target_delete m = SubModel.is_target_delete n.
Proof. intros Hw E. now rewrite itd_stream_eq_multi, itd_sub_eq_multi, E. Qed.

(** ** on the notifications the cache produces *)

(** Cache.Remove (also the churn of C05's harness and the removal inside
    MSubWalk): one announcement, and it is a whole-target delete *)
Theorem itd_remove c now name :
  Forall (fun x => MC.is_target_delete x = true) (snd (cache_remove c now name)).
Proof. constructor; [reflexivity|constructor]. Qed.

Theorem itd_sub_remove t now :
  SubModel.is_target_delete (SubModel.target_delete_noti t now) = true /\
  sub_notif (SubModel.target_delete_noti t now) = delete_noti t "" now ["*"].
Proof. split; reflexivity. Qed.

(** Target.Reset announces one delete per root; the root's name travels in the
    ORIGIN of the prefix, so it is not a whole-target delete (a single-target
    stream survives a Reset) -- unless the root is the empty name *)
Theorem itd_reset_root name r now :
  MC.is_target_delete (delete_noti name r now ["*"]) = String.eqb r "".
Proof.
  unfold MC.is_target_delete, delete_noti. cbn [n_del n_prefix gp_of_opt gp_origin].
  cbn. now rewrite andb_true_r.
Qed.

(** a notification without exactly one delete never is (stored updates, the
    metadata refresh of Reset / UpdateMetadata, multi-delete notifications) *)
Theorem itd_has_delete (n : notif) :
  MC.is_target_delete n = true -> exists d, n_del n = [d].
Proof. unfold MC.is_target_delete. destruct (n_del n) as [|d [|d2 ds]]; try discriminate. eauto. Qed.

(** * sendStreamingResults over one feed *)

Definition resp_conv (r : SubModel.resp) : MC.sresp :=
  match r with SubModel.RSync => MC.SSync | SubModel.RUpd n => MC.SUpd (sub_notif n) end.

Lemma multi_offered_sub T q n :
  noti_wf n ->
  MC.offered T q (sub_notif n) = match SubModel.offers [T :: q] n with O => false | S _ => true end.
Proof.
  intros Hw. unfold MC.offered, SubModel.offers.
  rewrite multi_noti_paths_eq.
  change (n_prefix (sub_notif n)) with (Some (sub_gp (SubModel.n_prefix n))).
  change (map u_path (n_upd (sub_notif n))) with (map u_path (map sub_upd (SubModel.n_upds n))).
  change (n_del (sub_notif n)) with (map sub_gp (SubModel.n_dels n)).
  rewrite !map_map. cbn [u_path sub_upd].
  change (map (fun x => Some (sub_gp (fst x))) (SubModel.n_upds n)) with (sub_ups n).
  change (map (fun x => Some (sub_gp x)) (SubModel.n_dels n)) with (sub_dels n).
  rewrite <- (sub_noti_paths_eq n Hw).
  assert (E : existsb (MC.mmatch (T :: q)) (SubModel.noti_paths n) =
              existsb (fun p => existsb (fun q0 => SubModel.mmatch q0 p) [T :: q]) (SubModel.noti_paths n)).
  { apply existsb_ext. intros p. cbn [existsb]. rewrite orb_false_r.
    now rewrite multi_mmatch_eq, sub_mmatch_eq. }
  rewrite E. clear E. match goal with |- ?x = _ => destruct x end; reflexivity.
Qed.

Theorem multi_stream_feed_eq (allow : string -> string -> bool) T q feed :
  Forall noti_wf feed ->
  let R := SubModel.stream_feed allow SubModel.NoACL (negb (String.eqb T "*")) [T :: q] feed in
  MC.stream_feed T q (map sub_notif feed) = (map resp_conv (fst R), snd R).
Proof.
  induction 1 as [|n feed Hn _ IH]; [reflexivity|]. cbv zeta in *.
  cbn [map MC.stream_feed SubModel.stream_feed].
  rewrite (multi_offered_sub T q n Hn), <- (itd_sub_eq_multi n Hn).
  destruct (SubModel.offers [T :: q] n) as [|k] eqn:Ho.
  - exact IH.
  - assert (Hk : k = O).
    { unfold SubModel.offers in Ho. destruct (existsb _ _); [now inversion Ho|discriminate]. }
    subst k. cbn [repeat SubModel.send_filter filter SubModel.passes SubModel.chk app].
    destruct (negb (String.eqb T "*") && SubModel.is_target_delete n); [reflexivity|].
    rewrite IH. reflexivity.
Qed.

(** * Non-vacuity *)

Example ex_multi_offer :
  MC.offered "dev" ["a"] (delete_noti "dev" "" 1 ["*"]) = true /\
  MC.mmatch ["dev"; "a"; "b"] ["dev"; "*"] = true /\
  MC.is_target_delete (delete_noti "dev" "" 1 ["*"]) = true /\
  MC.is_target_delete (delete_noti "dev" "a" 1 ["*"]) = false.
Proof. repeat split; vm_compute; reflexivity. Qed.

(** Glue: the streaming match relation.

    Match/MatchModel.v (C06) is the authoritative model of match/match.go: a
    trie of registered queries, [visit]/[deliver]/[update_notification] as the
    code walks it, and the relation [compat] which C06 proves to be exactly
    what the trie offers ([MatchProofs.offered_iff_compatible], for every
    reachable trie).  Three other models carry their own copy of the relation
    and an abstract "number of offers":

      Stream/StreamLts.v        [compat], [covers], [mult]      (C04, C08)
      Subscribe/SubModel.v      [mmatch], [offers], [sub_queries] (C05, C07)
      Pipeline/PipelineModel.v  [mmatch], [feed_leaf]            (C01)

    This file proves
      - the relations are EQUAL to MatchModel.compat (resp. CTreeModel.qmatch
        for the query relation [covers]) on all pairs of paths;
      - the abstract offer counts are the number of times the REAL trie walk
        of MatchModel ([update_notification], with its [updated] set) calls
        the subscriber, for every well-formed trie in which the subscriber is
        registered with exactly the queries the abstract model says -- in
        particular for every trie reachable by registrations and removals
        (C06's [run_hist]) and for the trie built by [add_subscription];
      - SubModel's list of registered queries is the set of queries
        MatchModel.add_subscription registers. *)
From Gnmi Require Import Base.Prelude CTree.CTreeModel Path.PathModel Path.PathProofs
  Match.MatchModel Match.MatchProofs.
From Gnmi Require Subscribe.SubModel Pipeline.PipelineModel Stream.StreamLts Stream.StreamProofs.
From Gnmi Require Import Glue.GluePath.
Open Scope string_scope.
Open Scope list_scope.

(** * list helpers *)

Lemma existsb_ext {A} (f g : A -> bool) l : (forall x, f x = g x) -> existsb f l = existsb g l.
Proof. intros H. induction l as [|x l IH]; cbn; [reflexivity|]. now rewrite H, IH. Qed.

Lemma existsb_map_glue {A B} (f : B -> bool) (g : A -> B) l :
  existsb f (map g l) = existsb (fun x => f (g x)) l.
Proof. induction l as [|x l IH]; cbn; [reflexivity|]. now rewrite IH. Qed.

Lemma flat_map_map_glue {A B C} (f : B -> list C) (g : A -> B) l :
  flat_map f (map g l) = flat_map (fun x => f (g x)) l.
Proof. induction l as [|x l IH]; cbn; [reflexivity|]. now rewrite IH. Qed.

(** * The relations are the same relation *)

Lemma stream_is_star_eq x : StreamLts.is_star x = is_glob x.
Proof. reflexivity. Qed.

Lemma stream_compat_eq q p : StreamLts.compat q p = compat q p.
Proof.
  revert p; induction q as [|a q IH]; intros [|b p]; cbn; rewrite ?IH; reflexivity.
Qed.

Lemma sub_mmatch_eq q p : SubModel.mmatch q p = compat q p.
Proof.
  revert p; induction q as [|a q IH]; intros [|b p]; try reflexivity.
  cbn. rewrite IH. f_equal. destruct (is_glob a), (is_glob b); reflexivity.
Qed.

Lemma pipe_mmatch_eq q p : PipelineModel.mmatch q p = compat q p.
Proof.
  revert p; induction q as [|a q IH]; intros [|b p]; cbn; rewrite ?IH; reflexivity.
Qed.

(** the query relation of StreamLts (ctree.Query = internalDelete since
    39ad4d0) is CTreeModel's [qmatch], the relation C09 proves Query and Delete
    to implement *)
Lemma stream_covers_eq d p : StreamLts.covers d p = qmatch d p.
Proof.
  revert p; induction d as [|x d IH]; intros p; [reflexivity|].
  cbn [StreamLts.covers qmatch]. rewrite stream_is_star_eq.
  destruct p as [|y p].
  - destruct (is_glob x), d; reflexivity.
  - rewrite IH. destruct (is_glob x) eqn:G; cbn [orb andb].
    + destruct d; reflexivity.
    + reflexivity.
Qed.

(** hence (C06): every leaf a walk of StreamLts selects is also streamed *)
Lemma stream_covers_compat d p : StreamLts.covers d p = true -> StreamLts.compat d p = true.
Proof. rewrite stream_covers_eq, stream_compat_eq. apply qmatch_compat. Qed.

(** * Offer counts against the real trie walk *)

(** client [c] is registered in [b] with exactly the queries [qs] *)
Definition registered_exactly (b : branch) (c : cid) (qs : list path) : Prop :=
  wf b /\ forall q, In c (clients_at b q) <-> In q qs.

(** every trie reachable by registrations and removals is such a trie, for the
    registrations that are live *)
Lemma registered_exactly_hist h c qs :
  (forall q, In (q, c) (regs h) <-> In q qs) -> registered_exactly (run_hist h) c qs.
Proof.
  intros H. destruct (agrees_hist h) as [Hwf Hag]. split; [assumption|].
  intros q. now rewrite Hag.
Qed.

(** so is the trie after registering [qs] for a client not yet in it *)
Lemma registered_exactly_adds b c qs :
  wf b -> (forall q, ~ In c (clients_at b q)) ->
  registered_exactly (fold_left (fun t q => add_query q c t) qs b) c qs.
Proof.
  intros Hwf Hno. split; [now apply wf_fold_add|].
  intros q. rewrite clients_at_fold_add. split.
  - intros [H|[_ H]]; [now apply Hno in H|assumption].
  - auto.
Qed.

(** the abstract count: 1 if some path of the notification is compatible with
    some registered query, else 0 *)
Definition abstract_offers (qs : list path) (prefix : path) (paths : list path) : nat :=
  if existsb (fun p => existsb (fun q => compat q (prefix ++ p)) qs) paths then 1%nat else 0%nat.

(** The walk of the real trie ([update_notification]: one UpdateOnce per
    update/delete path, all sharing one [updated] set) calls the client that
    many times. *)
Theorem trie_offer_count b c qs prefix paths :
  registered_exactly b c qs ->
  count_occ Nat.eq_dec (update_notification b prefix paths) c = abstract_offers qs prefix paths.
Proof.
  intros [Hwf Hreg].
  pose proof (at_most_once_patched b prefix paths c) as Hle.
  change (update_notification_gen true) with update_notification in Hle.
  assert (Hin : In c (update_notification b prefix paths) <->
                existsb (fun p => existsb (fun q => compat q (prefix ++ p)) qs) paths = true).
  { unfold update_notification. rewrite update_notification_In, existsb_exists. split.
    - intros (p & Hp & Hv). apply (visit_spec _ _ _ Hwf) in Hv as (q & Hq & Hc).
      exists p. split; [assumption|]. apply existsb_exists. exists q. split; [now apply Hreg|assumption].
    - intros (p & Hp & He). apply existsb_exists in He as (q & Hq & Hc).
      exists p. split; [assumption|]. apply (visit_spec _ _ _ Hwf). exists q. split; [now apply Hreg|assumption]. }
  unfold abstract_offers.
  destruct (existsb (fun p => existsb (fun q => compat q (prefix ++ p)) qs) paths) eqn:E.
  - assert (H : In c (update_notification b prefix paths)) by (now apply Hin).
    apply (count_occ_In Nat.eq_dec) in H. lia.
  - apply (count_occ_not_In Nat.eq_dec). intros H. apply Hin in H. discriminate.
Qed.

(** ** StreamLts.mult *)

(** One announcement of StreamLts (LFeed) is one leaf or one delete
    notification, i.e. ONE path [pat = prefix ++ p] (the notification prefix
    indexed with target and origin, then the update/delete path).  [mult] is
    the number of calls the real trie makes for it. *)
Theorem stream_mult_is_trie_offer b c (s : StreamLts.sub) prefix p :
  registered_exactly b c (StreamLts.regq s) ->
  StreamLts.mult s (prefix ++ p) =
  count_occ Nat.eq_dec (update_notification b prefix [p]) c.
Proof.
  intros H. rewrite (trie_offer_count _ _ _ _ _ H).
  unfold StreamLts.mult, abstract_offers. cbn [existsb]. rewrite orb_false_r.
  erewrite existsb_ext; [reflexivity|]. intros q. apply stream_compat_eq.
Qed.

(** the same in C06's vocabulary: any history of registrations and removals
    whose live registrations of [c] are the queries of the subscriber *)
Corollary stream_mult_hist h c (s : StreamLts.sub) prefix p :
  (forall q, In (q, c) (regs h) <-> In q (StreamLts.regq s)) ->
  StreamLts.mult s (prefix ++ p) =
  count_occ Nat.eq_dec (update_notification (run_hist h) prefix [p]) c.
Proof. intros H. apply stream_mult_is_trie_offer. now apply registered_exactly_hist. Qed.

(** ** StreamLts's LCancel / LUnreg against the removal closures of MatchModel

    [LCancel s] only sets the subscriber's ended flag: no registration and no
    other subscriber changes, and an ended subscriber takes no further
    deliveries ([StreamLts.deliver] skips it -- in the code the queue is
    closed and Insert is refused: C11_insert_after_close_refused).
    [LUnreg s] is one step of the deferred remove(): the LAST still-registered
    path of [s] leaves [regq]; nothing else changes.  On the trie that is
    [remove_root q c]: the client's registrations become the shorter list
    (when [q] is not also one of the remaining paths -- MatchModel's client
    sets are sets, so a path subscribed twice is gone after its first removal;
    StreamLts keeps the duplicate in [regq], which is unobservable because an
    ended subscriber is never delivered to), and every OTHER client's
    registrations, hence offers, are untouched. *)

Lemma firstn_S_snoc {A} k (l : list A) :
  exists t, firstn (S k) l = firstn k l ++ t /\ (List.length t <= 1)%nat.
Proof.
  revert l; induction k as [|k IH]; intros [|x l].
  - exists []. cbn. auto.
  - exists [x]. cbn. auto.
  - exists []. cbn. auto.
  - destruct (IH l) as (t & Ht & Hl). exists t. split; [|assumption].
    change (firstn (S (S k)) (x :: l)) with (x :: firstn (S k) l). rewrite Ht. reflexivity.
Qed.

Theorem stream_cancel_step h st s st' :
  StreamLts.step h st (StreamLts.LCancel s) = Some st' ->
  StreamLts.st_tree st' = StreamLts.st_tree st /\ StreamLts.st_feeds st' = StreamLts.st_feeds st /\
  (forall s', s' <> s -> nth_error (StreamLts.st_subs st') s' = nth_error (StreamLts.st_subs st) s') /\
  exists sb sb', nth_error (StreamLts.st_subs st) s = Some sb /\
                 nth_error (StreamLts.st_subs st') s = Some sb' /\
                 StreamLts.regq sb' = StreamLts.regq sb /\ StreamLts.s_end sb' = true /\
                 (forall it, StreamLts.deliver st' it sb' = sb').
Proof.
  unfold StreamLts.step, StreamLts.step_gen, StreamLts.with_sub.
  destruct (nth_error (StreamLts.st_subs st) s) as [sb|] eqn:Hs; [|discriminate].
  destruct (StreamLts.is_registered sb && negb (StreamLts.s_end sb)); [|discriminate].
  intros [= <-]. cbn [StreamLts.set_subs StreamLts.st_tree StreamLts.st_feeds StreamLts.st_subs].
  split; [reflexivity|]. split; [reflexivity|]. split.
  - intros s' Hne. apply StreamProofs.nth_error_upd_nth_neq. congruence.
  - eexists _, _. split; [reflexivity|]. split.
    + rewrite StreamProofs.nth_error_upd_nth_eq, Hs. reflexivity.
    + split; [reflexivity|]. split; [reflexivity|].
      intros it. unfold StreamLts.deliver. destruct (StreamLts.item_pat _ it); reflexivity.
Qed.

Theorem stream_unreg_step h st s st' :
  StreamLts.step h st (StreamLts.LUnreg s) = Some st' ->
  StreamLts.st_tree st' = StreamLts.st_tree st /\ StreamLts.st_feeds st' = StreamLts.st_feeds st /\
  (forall s', s' <> s -> nth_error (StreamLts.st_subs st') s' = nth_error (StreamLts.st_subs st) s') /\
  exists sb sb' gone, nth_error (StreamLts.st_subs st) s = Some sb /\
                      nth_error (StreamLts.st_subs st') s = Some sb' /\
                      StreamLts.s_end sb = true /\
                      StreamLts.regq sb = StreamLts.regq sb' ++ gone /\ (List.length gone <= 1)%nat.
Proof.
  unfold StreamLts.step, StreamLts.step_gen, StreamLts.with_sub.
  destruct (nth_error (StreamLts.st_subs st) s) as [sb|] eqn:Hs; [|discriminate].
  destruct (StreamLts.s_end sb) eqn:He; [|discriminate].
  assert (Hgen : forall sb', (match StreamLts.s_pc sb with
                | StreamLts.SDone => match List.length (StreamLts.s_qs sb) with
                                     | O => None
                                     | S k => Some (StreamLts.set_pc sb (StreamLts.SReg k))
                                     end
                | StreamLts.SReg (S k) => Some (StreamLts.set_pc sb (StreamLts.SReg k))
                | _ => None
                end) = Some sb' ->
            exists gone, StreamLts.regq sb = StreamLts.regq sb' ++ gone /\ (List.length gone <= 1)%nat).
  { intros sb'. unfold StreamLts.regq. destruct (StreamLts.s_pc sb) as [[|k]|k|k todo|] eqn:Hpc; try discriminate.
    - intros [= <-]. cbn [StreamLts.set_pc StreamLts.s_pc StreamLts.s_qs]. apply firstn_S_snoc.
    - destruct (List.length (StreamLts.s_qs sb)) as [|k] eqn:Hl; [discriminate|].
      intros [= <-]. cbn [StreamLts.set_pc StreamLts.s_pc StreamLts.s_qs].
      destruct (firstn_S_snoc k (StreamLts.s_qs sb)) as (t & Ht & Hlt).
      exists t. split; [|assumption]. rewrite <- Ht, <- Hl. symmetry. apply firstn_all. }
  destruct (match StreamLts.s_pc sb with
            | StreamLts.SDone => _ | StreamLts.SReg (S k) => _ | _ => None end) as [sb'|] eqn:Hf; [|discriminate].
  intros [= <-]. cbn [StreamLts.set_subs StreamLts.st_tree StreamLts.st_feeds StreamLts.st_subs].
  split; [reflexivity|]. split; [reflexivity|]. split.
  - intros s' Hne. apply StreamProofs.nth_error_upd_nth_neq. congruence.
  - destruct (Hgen sb' eq_refl) as (gone & Hg & Hl).
    exists sb, sb', gone. split; [reflexivity|]. split.
    + rewrite StreamProofs.nth_error_upd_nth_eq, Hs. reflexivity.
    + auto.
Qed.

(** the same step on the trie: the removal closure of [(q, c)] *)
Lemma registered_exactly_remove b c qs q :
  registered_exactly b c (qs ++ [q]) -> ~ In q qs -> registered_exactly (remove_root q c b) c qs.
Proof.
  intros [Hwf Hreg] Hni. split; [now apply wf_remove_root|].
  intros q'. rewrite (clients_at_remove_root q c b q' c Hwf), Hreg, in_app_iff. cbn. split.
  - intros [[H|[<-|[]]] Hn]; [assumption|]. exfalso. apply Hn. auto.
  - intros H. split; [auto|]. intros [-> _]. contradiction.
Qed.

(** other clients keep exactly their registrations ... *)
Lemma registered_exactly_remove_other b c c' q qs' :
  c' <> c -> registered_exactly b c' qs' -> registered_exactly (remove_root q c b) c' qs'.
Proof.
  intros Hne [Hwf Hreg]. split; [now apply wf_remove_root|].
  intros q'. rewrite (clients_at_remove_root q c b q' c' Hwf), Hreg. split; [tauto|].
  intros H. split; [assumption|]. intros [_ E]. contradiction.
Qed.

(** ... hence exactly their offers: the count StreamLts computes for another
    subscriber (unchanged by LUnreg) is still the count of the real trie after
    the removal *)
Theorem stream_unreg_others_offers b c c' q (s' : StreamLts.sub) prefix p :
  c' <> c -> registered_exactly b c' (StreamLts.regq s') ->
  StreamLts.mult s' (prefix ++ p) =
  count_occ Nat.eq_dec (update_notification (remove_root q c b) prefix [p]) c'.
Proof.
  intros Hne H. apply stream_mult_is_trie_offer. now apply registered_exactly_remove_other.
Qed.

(** ** SubModel.offers and SubModel.sub_queries *)

Definition sub_noti_wf (n : SubModel.noti) : Prop :=
  sub_wf (SubModel.n_prefix n) /\
  Forall (fun u => sub_wf (fst u)) (SubModel.n_upds n) /\
  Forall sub_wf (SubModel.n_dels n).

(** the arguments Server.Update passes to MatchModel.server_update *)
Definition sub_ups (n : SubModel.noti) : list (option gpath) :=
  map (fun u => Some (sub_gp (fst u))) (SubModel.n_upds n).
Definition sub_dels (n : SubModel.noti) : list (option gpath) :=
  map (fun d => Some (sub_gp d)) (SubModel.n_dels n).

Lemma sub_noti_paths_eq n :
  sub_noti_wf n ->
  SubModel.noti_paths n =
  map (fun p => notif_prefix (Some (sub_gp (SubModel.n_prefix n))) ++ p)
      (notif_paths (sub_ups n) (sub_dels n)).
Proof.
  intros (Hp & Hu & Hd). unfold SubModel.noti_paths, notif_paths, notif_prefix, sub_ups, sub_dels.
  rewrite map_app, !map_map, map_app, !map_map.
  rewrite (sub_to_strings_eq (Some (SubModel.n_prefix n)) true) by exact Hp.
  f_equal; apply map_ext_in; intros x Hx; cbn [gp_of_opt]; f_equal.
  - rewrite Forall_forall in Hu. apply (sub_to_strings_eq (Some (fst x)) false). now apply Hu.
  - rewrite Forall_forall in Hd. apply (sub_to_strings_eq (Some x) false). now apply Hd.
Qed.

Theorem sub_offers_is_trie_offer b c qs n :
  registered_exactly b c qs -> sub_noti_wf n ->
  SubModel.offers qs n =
  count_occ Nat.eq_dec
    (server_update b (Some (sub_gp (SubModel.n_prefix n))) (sub_ups n) (sub_dels n)) c.
Proof.
  intros H Hwf. unfold server_update, server_update_gen.
  change (update_notification_gen fixed_C06_1) with update_notification.
  rewrite (trie_offer_count _ _ _ _ _ H).
  unfold SubModel.offers, abstract_offers. rewrite (sub_noti_paths_eq n Hwf).
  rewrite existsb_map_glue. erewrite existsb_ext; [reflexivity|].
  intros p. cbv beta. apply existsb_ext. intros q. apply sub_mmatch_eq.
Qed.

(** SubModel keeps the registered queries as a duplicate-free list; as a SET
    it is what MatchModel.add_subscription registers (every entry's
    [sub_query]; an entry without a path stands for the empty path since
    601ff89). *)
Lemma dedup_paths_In q l : In q (SubModel.dedup_paths l) <-> In q l.
Proof.
  induction l as [|x l IH]; cbn; [tauto|].
  destruct (existsb (path_eqb x) l) eqn:E.
  - rewrite IH. split; [auto|]. intros [<-|H]; [|assumption].
    apply existsb_exists in E as (y & Hy & Hxy). apply path_eqb_eq in Hxy. now subst.
  - cbn. now rewrite IH.
Qed.

Definition sub_ents (subs : list (option SubModel.gpath)) : list (option gpath) :=
  map (option_map sub_gp) subs.

Theorem sub_queries_are_registered pf subs q :
  sub_wf pf -> Forall sub_owf subs ->
  (In q (SubModel.sub_queries pf subs) <->
   In q (sub_queries fixed_C06_2 (sub_gp pf) (sub_ents subs))).
Proof.
  intros Hpf Hs. unfold SubModel.sub_queries. rewrite dedup_paths_In.
  unfold sub_queries, sub_ents. rewrite flat_map_map_glue.
  rewrite !in_flat_map. rewrite Forall_forall in Hs.
  split; intros (sp & Hin & Hq); exists sp; (split; [assumption|]); specialize (Hs _ Hin);
    pose proof (sub_query_eq pf sp Hpf Hs) as E.
  - destruct sp as [p|]; cbn [option_map entry_path fixed_C06_2] in *;
      destruct Hq as [<-|[]]; left; symmetry; exact E.
  - destruct sp as [p|]; cbn [option_map entry_path fixed_C06_2] in *;
      destruct Hq as [<-|[]]; left; exact E.
Qed.

(** End to end for C05/C07's stream phase: after the REAL registration
    (MatchModel.add_subscription on any well-formed trie in which the client
    is not registered yet) the number of times the real trie walk offers a
    notification to the client is SubModel's [offers] over SubModel's
    [sub_queries]. *)
Theorem sub_stream_offers_real_trie b c pf subs b' qs n :
  wf b -> (forall q, ~ In c (clients_at b q)) ->
  sub_wf pf -> Forall sub_owf subs -> sub_noti_wf n ->
  add_subscription b c (sub_gp pf) (sub_ents subs) = Some (b', qs) ->
  SubModel.offers (SubModel.sub_queries pf subs) n =
  count_occ Nat.eq_dec
    (server_update b' (Some (sub_gp (SubModel.n_prefix n))) (sub_ups n) (sub_dels n)) c.
Proof.
  intros Hwf Hno Hpf Hs Hn Hadd. apply sub_offers_is_trie_offer; [|assumption].
  split.
  - unfold add_subscription in Hadd. rewrite (add_subscription_trie _ _ _ _ _ _ _ _ Hadd).
    now apply wf_fold_add.
  - intros q. rewrite (subscribe_registers _ _ _ _ _ _ q c Hadd).
    rewrite (sub_queries_are_registered pf subs q Hpf Hs). split.
    + intros [H|[_ H]]; [now apply Hno in H|assumption].
    + auto.
Qed.

(** ** PipelineModel.feed_leaf / feed_del

    The pipeline has one subscriber with one registered query; it is offered
    a leaf iff the real trie holding that registration offers it. *)
Theorem pipe_feed_is_trie_offer b c (sb : PipelineModel.subscriber) full :
  registered_exactly b c [PipelineModel.sb_query sb] ->
  (PipelineModel.mmatch (PipelineModel.sb_query sb) full = true <-> In c (match_update b full)).
Proof.
  intros [Hwf Hreg]. rewrite match_update_visit, (visit_spec _ _ _ Hwf), pipe_mmatch_eq. split.
  - intros H. exists (PipelineModel.sb_query sb). split; [apply Hreg; now left|assumption].
  - intros (q & Hq & Hc). apply Hreg in Hq as [<-|[]]. assumption.
Qed.

(** the path under which a delete notification is matched: the prefix
    {target, origin} indexed with both, then the deleted path *)
Lemma pipe_feed_del_path d :
  pipe_wf (PipelineModel.d_path d) ->
  (if PipelineModel.str_nonempty (PipelineModel.d_target d) then [PipelineModel.d_target d] else [])
  ++ (if PipelineModel.str_nonempty (PipelineModel.d_origin d) then [PipelineModel.d_origin d] else [])
  ++ PipelineModel.to_strings_gp (PipelineModel.d_path d) false
  = notif_prefix (Some (GPath (PipelineModel.d_target d) (PipelineModel.d_origin d) [] []))
    ++ to_strings false (pipe_gp (PipelineModel.d_path d)).
Proof.
  intros H. rewrite !pipe_nonempty, pipe_to_strings_gp_eq by assumption.
  unfold notif_prefix, to_strings. cbn [gp_of_opt gp_target gp_origin gp_elems gp_element].
  now rewrite app_nil_r, app_assoc.
Qed.

(** * Non-vacuity *)

Example ex_registered :
  registered_exactly (run_hist [HAdd ["dev"; "a"] 1%nat; HAdd ["dev"; "*"; "c"] 1%nat; HAdd ["dev"] 2%nat])
                     1%nat [["dev"; "a"]; ["dev"; "*"; "c"]].
Proof.
  apply registered_exactly_hist. intros q. cbn. split.
  - intros [H|[H|[H|[]]]]; inversion H; auto.
  - intros [<-|[<-|[]]]; auto.
Qed.

Example ex_offer_once :
  count_occ Nat.eq_dec
    (update_notification
       (run_hist [HAdd ["dev"; "a"] 1%nat; HAdd ["dev"; "*"; "c"] 1%nat; HAdd ["dev"] 2%nat])
       ["dev"] [["a"; "c"]]) 1%nat = 1%nat.
Proof. reflexivity. Qed.

(** Glue: the path-indexing functions that the property models carry locally
    are the functions of the authoritative model Path/PathModel.v (C19).

    Three models re-state path.ToStrings / path.CompletePath /
    cache.joinPrefixAndPath / the [query] of subscribe.addSubscription over
    their own path types:

      Subscribe/SubModel.v      (C05, C07)   record [GP target origin elems]
      Pipeline/PipelineModel.v  (C01)        record with [e_name]/[e_keys] elements
      Cache/CacheModel.v        (C02, C03..) uses PathModel directly ([join_path]
                                             only renumbers the panic)

    For each local function an explicit abstraction function into
    [PathModel.gpath] is given ([sub_gp], [pipe_gp]) and the local function is
    proved EQUAL to the PathModel function of the image, for every path whose
    key maps are Go maps (pairwise distinct key names: [gpath_wf] of the
    image).  The side condition is needed and is exactly the Go invariant: the
    local copies sort the (key, value) PAIRS by key name and project the
    values, PathModel sorts the key NAMES and looks each one up; on a list
    with a repeated key name -- not a Go map -- they differ
    ([sub_elem_strings_needs_wf]).

    No proof here can be closed by computation alone: all statements are for
    arbitrary paths over arbitrary strings. *)
From Gnmi Require Import Base.Prelude CTree.CTreeModel Path.PathModel Path.PathProofs.
From Gnmi Require Subscribe.SubModel Pipeline.PipelineModel Cache.CacheModel Match.MatchModel
  Stream.StreamLts.
Open Scope string_scope.
Open Scope list_scope.

(** * Key values in key-name order: the two ways of computing them agree *)

Lemma sorted_vals_pairs m :
  NoDup (keys m) -> sorted_vals m = map snd (isort kv_leb m).
Proof.
  intros Hnd. destruct (sorted_arrangement_exists m Hnd) as [Hp Hs].
  now apply sorted_vals_spec.
Qed.

Lemma elem_index_pairs e :
  pelem_wf e -> elem_index e = fst e :: map snd (isort kv_leb (snd e)).
Proof.
  intros Hwf. destruct (sorted_arrangement_exists (snd e) Hwf) as [Hp Hs].
  now apply elem_index_sorted.
Qed.

(** * SubModel (C05 / C07) *)

Definition sub_gp (p : SubModel.gpath) : gpath :=
  GPath (SubModel.g_target p) (SubModel.g_origin p) (SubModel.g_elems p) [].

(** a nil path is the empty path (PathModel's convention, [gp_of_opt]) *)
Definition sub_ogp (o : option SubModel.gpath) : gpath := gp_of_opt (option_map sub_gp o).

Definition sub_wf (p : SubModel.gpath) : Prop := gpath_wf (sub_gp p).
Definition sub_owf (o : option SubModel.gpath) : Prop := gpath_wf (sub_ogp o).

Lemma sub_owf_none : sub_owf None.
Proof. constructor. Qed.

Lemma sub_elem_strings_eq e : pelem_wf e -> SubModel.elem_strings e = elem_index e.
Proof. intros Hwf. rewrite elem_index_pairs by assumption. reflexivity. Qed.

Lemma sub_flat_elems_eq es :
  Forall pelem_wf es -> flat_map SubModel.elem_strings es = flat_map elem_index es.
Proof.
  induction 1 as [|e es He _ IH]; [reflexivity|].
  cbn [flat_map]. now rewrite IH, sub_elem_strings_eq.
Qed.

(** path.ToStrings *)
Lemma sub_to_strings_eq o pre :
  sub_owf o -> SubModel.to_strings o pre = to_strings pre (sub_ogp o).
Proof.
  destruct o as [p|]; intros Hwf.
  - unfold SubModel.to_strings, to_strings, sub_ogp, sub_gp. cbn [option_map gp_of_opt gp_target gp_origin gp_elems gp_element].
    f_equal. unfold sub_owf, sub_ogp, gpath_wf in Hwf. cbn in Hwf.
    rewrite (sub_flat_elems_eq _ Hwf). destruct (SubModel.g_elems p); reflexivity.
  - destruct pre; reflexivity.
Qed.

Lemma sub_origin_of_eq o : SubModel.origin_of o = gp_origin (sub_ogp o).
Proof. destruct o; reflexivity. Qed.

Definition ok_to_option {A} (r : outcome A) : option A :=
  match r with Ok a => Some a | _ => None end.

(** path.CompletePath ([None] of SubModel = the error outcome of PathModel;
    PathModel.complete_path never panics: PathProofs.complete_path_spec) *)
Lemma sub_complete_path_eq prefix p :
  sub_owf prefix -> sub_owf p ->
  SubModel.complete_path prefix p = ok_to_option (complete_path (sub_ogp prefix) (sub_ogp p)).
Proof.
  intros H1 H2. unfold SubModel.complete_path, complete_path.
  rewrite !sub_origin_of_eq, !sub_to_strings_eq by assumption.
  destruct (negb (gp_origin (sub_ogp prefix) =? "")), (negb (gp_origin (sub_ogp p) =? ""));
    cbn [andb ok_to_option]; try reflexivity.
  destruct (to_strings false (sub_ogp prefix)); reflexivity.
Qed.

(** cache.joinPrefixAndPath as SubModel states it, with its defect switch
    C05_1 as a parameter: the authoritative model (and Cache/CacheModel.v on
    top of it) is the code WITHOUT the patch, so equality holds for the switch
    value [false] -- which is its current value ([sub_join_eq]). *)
Lemma sub_join_eq_gen pr ph :
  SubModel.fix_C05_1 = false ->
  sub_wf pr -> sub_owf ph ->
  SubModel.join_prefix_path pr ph = ok_to_option (join_prefix_and_path (sub_gp pr) (sub_ogp ph)).
Proof.
  intros Hsw H1 H2. unfold SubModel.join_prefix_path, join_prefix_and_path.
  rewrite Hsw. cbn [andb app].
  rewrite (sub_to_strings_eq (Some pr) true) by exact H1.
  rewrite (sub_to_strings_eq ph false) by exact H2.
  change (sub_ogp (Some pr)) with (sub_gp pr).
  destruct (to_strings true (sub_gp pr) ++ to_strings false (sub_ogp ph)); reflexivity.
Qed.

Definition sub_join_eq pr ph := sub_join_eq_gen pr ph eq_refl.

(** the same against CacheModel's wrapper (which renumbers the panic) *)
Lemma sub_join_cache_eq pr ph :
  sub_wf pr -> sub_owf ph ->
  SubModel.join_prefix_path pr ph =
  ok_to_option (CacheModel.join_path (Some (sub_gp pr)) (option_map sub_gp ph)).
Proof.
  intros H1 H2. rewrite sub_join_eq by assumption. unfold CacheModel.join_path.
  change (gp_of_opt (Some (sub_gp pr))) with (sub_gp pr).
  change (gp_of_opt (option_map sub_gp ph)) with (sub_ogp ph).
  destruct (join_prefix_and_path (sub_gp pr) (sub_ogp ph)); reflexivity.
Qed.

(** the [query] subscribe.addSubscription registers for one entry *)
Lemma sub_query_eq pf sp :
  sub_wf pf -> sub_owf sp ->
  (match sp with
   | None => SubModel.to_strings (Some pf) true
   | Some p =>
       SubModel.to_strings (Some pf) true
       ++ (if String.eqb (SubModel.g_origin pf) "" && negb (String.eqb (SubModel.g_origin p) "")
           then [SubModel.g_origin p] else [])
       ++ SubModel.to_strings (Some p) false
   end) = MatchModel.sub_query (sub_gp pf) (sub_ogp sp).
Proof.
  intros H1 H2. unfold MatchModel.sub_query, MatchModel.origin_splice.
  destruct sp as [p|].
  - rewrite (sub_to_strings_eq (Some pf) true) by exact H1.
    rewrite (sub_to_strings_eq (Some p) false) by exact H2. reflexivity.
  - rewrite (sub_to_strings_eq (Some pf) true) by exact H1.
    change (sub_ogp None) with empty_gpath. cbn [gp_origin empty_gpath].
    rewrite andb_false_r. cbn. now rewrite app_nil_r.
Qed.

(** the side condition cannot be dropped: on a key list that is not a map the
    two ways of listing the values differ *)
Example sub_elem_strings_needs_wf :
  exists e, ~ pelem_wf e /\ SubModel.elem_strings e <> elem_index e.
Proof.
  exists ("a", [("k", "1"); ("k", "2")]). split.
  - intros H. inversion H as [|? ? Hn _]. apply Hn. now left.
  - cbv. discriminate.
Qed.

(** * PipelineModel (C01) *)

Definition pipe_elem (e : PipelineModel.pelem) : pelem :=
  (PipelineModel.e_name e, PipelineModel.e_keys e).

Definition pipe_gp (p : PipelineModel.gpath) : gpath :=
  GPath (PipelineModel.g_target p) (PipelineModel.g_origin p)
        (map pipe_elem (PipelineModel.g_elem p)) (PipelineModel.g_element p).

Definition pipe_ogp (o : option PipelineModel.gpath) : gpath := gp_of_opt (option_map pipe_gp o).

Definition pipe_wf (p : PipelineModel.gpath) : Prop := gpath_wf (pipe_gp p).

Lemma pipe_nonempty s :
  (if PipelineModel.str_nonempty s then [s] else []) = nonempty s.
Proof. unfold PipelineModel.str_nonempty, nonempty. destruct (s =? ""); reflexivity. Qed.

Lemma pipe_key_vals_eq e :
  pelem_wf (pipe_elem e) ->
  PipelineModel.e_name e :: PipelineModel.key_vals (PipelineModel.e_keys e) = elem_index (pipe_elem e).
Proof.
  intros Hwf. unfold elem_index, pipe_elem in *. cbn [fst snd] in *. f_equal.
  unfold PipelineModel.key_vals.
  destruct (PipelineModel.e_keys e) as [|kv [|kv' m]] eqn:E; try reflexivity.
  rewrite sorted_vals_pairs by exact Hwf. reflexivity.
Qed.

Lemma pipe_flat_elems_eq es :
  Forall pelem_wf (map pipe_elem es) ->
  flat_map (fun e => PipelineModel.e_name e :: PipelineModel.key_vals (PipelineModel.e_keys e)) es
  = flat_map elem_index (map pipe_elem es).
Proof.
  induction es as [|e es IH]; intros H; [reflexivity|].
  inversion H; subst. cbn [flat_map map]. rewrite IH by assumption.
  now rewrite <- pipe_key_vals_eq.
Qed.

(** path.ToStrings (deprecated [element] encoding included) *)
Lemma pipe_to_strings_gp_eq p pre :
  pipe_wf p -> PipelineModel.to_strings_gp p pre = to_strings pre (pipe_gp p).
Proof.
  intros Hwf. unfold PipelineModel.to_strings_gp, to_strings, pipe_gp.
  cbn [gp_target gp_origin gp_elems gp_element]. rewrite !pipe_nonempty. f_equal.
  unfold pipe_wf, gpath_wf, pipe_gp in Hwf. cbn [gp_elems] in Hwf.
  destruct (PipelineModel.g_elem p) as [|e es] eqn:E; [reflexivity|].
  rewrite <- E in *. rewrite pipe_flat_elems_eq by assumption. rewrite E. reflexivity.
Qed.

Lemma pipe_to_strings_eq o pre :
  gpath_wf (pipe_ogp o) -> PipelineModel.to_strings o pre = to_strings pre (pipe_ogp o).
Proof.
  destruct o as [p|]; intros Hwf.
  - now apply pipe_to_strings_gp_eq.
  - destruct pre; reflexivity.
Qed.

Lemma pipe_str_nonempty s : PipelineModel.str_nonempty s = negb (s =? "").
Proof. reflexivity. Qed.

(** path.CompletePath *)
Lemma pipe_complete_path_eq pre p :
  pipe_wf pre -> pipe_wf p ->
  PipelineModel.complete_path pre p = ok_to_option (complete_path (pipe_gp pre) (pipe_gp p)).
Proof.
  intros H1 H2. unfold PipelineModel.complete_path, complete_path.
  rewrite !pipe_to_strings_gp_eq, !pipe_str_nonempty by assumption.
  change (gp_origin (pipe_gp pre)) with (PipelineModel.g_origin pre).
  change (gp_origin (pipe_gp p)) with (PipelineModel.g_origin p).
  destruct (negb (PipelineModel.g_origin pre =? "")), (negb (PipelineModel.g_origin p =? ""));
    cbn [andb ok_to_option]; try reflexivity.
  destruct (to_strings false (pipe_gp pre)); reflexivity.
Qed.

(** cache.joinPrefixAndPath *)
Lemma pipe_join_eq pre p :
  pipe_wf pre -> pipe_wf p ->
  PipelineModel.join_prefix_and_path pre p = ok_to_option (join_prefix_and_path (pipe_gp pre) (pipe_gp p)).
Proof.
  intros H1 H2. unfold PipelineModel.join_prefix_and_path, join_prefix_and_path.
  rewrite !pipe_to_strings_gp_eq by assumption.
  destruct (to_strings true (pipe_gp pre) ++ to_strings false (pipe_gp p)); reflexivity.
Qed.

(** the path a subscription is registered with (subscribe.addSubscription) *)
Lemma pipe_sub_query_eq q :
  pipe_wf (PipelineModel.cq_prefix q) -> pipe_wf (PipelineModel.cq_path q) ->
  PipelineModel.sub_query q =
  MatchModel.sub_query (pipe_gp (PipelineModel.cq_prefix q)) (pipe_gp (PipelineModel.cq_path q)).
Proof.
  intros H1 H2. unfold PipelineModel.sub_query, MatchModel.sub_query, MatchModel.origin_splice.
  rewrite !pipe_to_strings_gp_eq, pipe_str_nonempty by assumption. reflexivity.
Qed.

(** the full path under which a stored leaf is announced to the match trie
    (subscribe.Server.Update: prefix indexed with target and origin, the
    update path without) is MatchModel's [notif_prefix ++ notif_paths] entry *)
Lemma pipe_full_path_eq r :
  pipe_wf (PipelineModel.lr_prefix r) -> pipe_wf (PipelineModel.lr_path r) ->
  PipelineModel.full_path r =
  MatchModel.notif_prefix (Some (pipe_gp (PipelineModel.lr_prefix r)))
  ++ to_strings false (pipe_gp (PipelineModel.lr_path r)).
Proof.
  intros H1 H2. unfold PipelineModel.full_path, MatchModel.notif_prefix.
  now rewrite !pipe_to_strings_gp_eq.
Qed.

(** * CacheModel: the wrapper is PathModel's function, the panic renumbered *)

Lemma cache_join_path_eq pr ph :
  CacheModel.join_path pr ph =
  match join_prefix_and_path (gp_of_opt pr) (gp_of_opt ph) with
  | Panic _ => Panic CacheModel.panic_join
  | r => r
  end.
Proof. unfold CacheModel.join_path. destruct (join_prefix_and_path _ _); reflexivity. Qed.

(** the index path of a stored unit is the raw index list without its first
    element (which is the target exactly when the prefix has one) *)
Lemma cache_unit_index_raw n p :
  CacheModel.unit_index n = Ok p -> exists x, CacheModel.raw_index n = x :: p.
Proof.
  unfold CacheModel.unit_index, CacheModel.raw_index, CacheModel.join_path, join_prefix_and_path.
  destruct (CacheModel.n_upd n) as [|u us]; [discriminate|].
  destruct (CacheModel.n_atomic n); cbn [gp_of_opt];
    match goal with |- context [match ?l ++ ?r with _ => _ end] => destruct (l ++ r) as [|x l'] end;
    try discriminate; intros H; inversion H; eauto.
Qed.

(** * StreamLts: paths there are already index lists, target first.  The
      target of such a path is the target of the prefix it was built from. *)
Lemma stream_target_of_index pr ph :
  set (gp_target pr) ->
  StreamLts.target_of (to_strings true pr ++ to_strings false ph) = gp_target pr.
Proof.
  intros Hs. apply eqb_empty_set in Hs. rewrite to_strings_prefix_flag.
  unfold nonempty at 1. rewrite Hs. reflexivity.
Qed.

(** ... and the rest of it is the per-target index path of the cache *)
Lemma stream_index_split pr ph :
  set (gp_target pr) ->
  exists rest,
    to_strings true pr ++ to_strings false ph = gp_target pr :: rest /\
    join_prefix_and_path pr ph = Ok rest.
Proof.
  intros Hs. rewrite (join_prefix_and_path_target pr ph Hs).
  apply eqb_empty_set in Hs. rewrite to_strings_prefix_flag. unfold nonempty at 1. rewrite Hs.
  eexists. split; [|reflexivity]. cbn. now rewrite app_assoc.
Qed.

(** * Non-vacuity *)

Example ex_sub_path : SubModel.gpath :=
  SubModel.GP "dev" "oc" [("a", []); ("b", [("k2", "v1"); ("k1", "v2")])].

Example ex_sub_path_wf : sub_wf ex_sub_path.
Proof. repeat constructor; cbn; intuition discriminate. Qed.

Example ex_sub_path_index :
  SubModel.to_strings (Some ex_sub_path) true = ["dev"; "oc"; "a"; "b"; "v2"; "v1"].
Proof. reflexivity. Qed.

Example ex_pipe_path : PipelineModel.gpath :=
  {| PipelineModel.g_origin := "oc"; PipelineModel.g_target := "dev";
     PipelineModel.g_elem := [ {| PipelineModel.e_name := "b";
                                  PipelineModel.e_keys := [("k2", "v1"); ("k1", "v2")] |} ];
     PipelineModel.g_element := [] |}.

Example ex_pipe_path_wf : pipe_wf ex_pipe_path.
Proof. repeat constructor; cbn; intuition discriminate. Qed.
